(** Gfpx.v — executable model of mpyc/gfpx.py class [Polynomial] (generic GF(p)[X], coefficient
    lists low -> high, no trailing zeros, entries in [0,p)), and proofs about it.

    Part 1: definitions, following the Python static methods line by line (loop structure,
    in-place row updates, trailing-zero stripping).  Part 2: integer-polynomial semantics
    ([evalZ], congruence modulo p, canonical forms).  Part 3: theorems. *)
Require Import MPyC.Base MPyC.Zp.
From Coq Require Import ZArith Znumtheory Lia ZifyBool Bool.
Local Open Scope Z_scope.

(** Python exceptions as values *)
Inductive res (A : Type) : Type := Ok (x : A) | ZeroDiv | ValueErr | NoFuel.
Arguments Ok {A} x. Arguments ZeroDiv {A}. Arguments ValueErr {A}. Arguments NoFuel {A}.
Definition bind {A B} (r : res A) (f : A -> res B) : res B :=
  match r with Ok x => f x | ZeroDiv => ZeroDiv | ValueErr => ValueErr | NoFuel => NoFuel end.

(** [while a and not a[-1]: del a[-1]] *)
Fixpoint strip (a : list Z) : list Z :=
  match a with
  | [] => []
  | x :: t => match strip t with
              | [] => if x =? 0 then [] else [x]
              | t' => x :: t'
              end
  end.

(** plain integer polynomial arithmetic on coefficient lists (the accumulator [c] of _mul/_sq
    before the final [c[i] %= p]) *)
Fixpoint addz (a b : list Z) : list Z :=
  match a, b with
  | x :: a', y :: b' => (x + y) :: addz a' b'
  | _, [] => a
  | [], _ => b
  end.
Definition scalez (c : Z) (a : list Z) : list Z := map (fun x => c * x) a.
Definition negz (a : list Z) : list Z := map Z.opp a.
Definition subz (a b : list Z) : list Z := addz a (negz b).
(** c[i+j] += a_i * b_j, row by row *)
Fixpoint mulz (a b : list Z) : list Z :=
  match a with
  | [] => []
  | x :: a' => addz (scalez x b) (0 :: mulz a' b)
  end.
(** c[2i] += a_i^2; c[2i+1+j] += 2 a_i a_(i+1+j) *)
Fixpoint sqz (a : list Z) : list Z :=
  match a with
  | [] => []
  | x :: a' => match a' with
               | [] => [x * x]
               | _ => x * x :: addz (scalez (2 * x) a') (0 :: sqz a')
               end
  end.
Fixpoint evalZ (a : list Z) (x : Z) : Z :=
  match a with [] => 0 | c :: a' => c + x * evalZ a' x end.

Fixpoint mapi_from (f : Z -> Z -> Z) (i : Z) (l : list Z) : list Z :=
  match l with [] => [] | x :: t => f i x :: mapi_from f (i + 1) t end.
(** math.perm(m+i, m) = (i+1)(i+2)...(i+m) *)
Fixpoint rising (i : Z) (m : nat) : Z :=
  match m with O => 1 | S m' => (i + Z.of_nat m) * rising i m' end.

Section Defs.
Variable p : Z.

Definition wf (a : list Z) : Prop := Forall (fun x => 0 <= x < p) a /\ last a 1 <> 0.
Definition wfb (a : list Z) : bool :=
  forallb (fun x => (0 <=? x) && (x <? p)) a && negb (last a 1 =? 0).

(** _from_int / _to_int *)
Fixpoint digits (fuel : nat) (neg : bool) (a : Z) : list Z :=
  match fuel with
  | O => []
  | S f => if a =? 0 then []
           else let r := a mod p in
                (if neg && negb (r =? 0) then p - r else r) :: digits f neg (a / p)
  end.
Definition from_int (a : Z) : list Z :=
  digits (S (S (Z.to_nat (Z.log2 (Z.abs a))))) (a <? 0) (Z.abs a).
Definition to_int (a : list Z) : Z := fold_right (fun ai s => s * p + ai) 0 a.

(** _monic(a, lc_pinv=True) *)
Definition monic_pinv (a : list Z) : list Z * Z :=
  match a with
  | [] => ([], 0)
  | _ => let a1 := last a 0 in
         if a1 =? 1 then (a, 1)
         else let a1' := inv_raw p a1 in
              (map (fun x => (x * a1') mod p) (removelast a) ++ [1], a1')
  end.
Definition monic (a : list Z) : list Z := fst (monic_pinv a).

Definition deriv (a : list Z) (m : nat) : list Z :=
  if Z.of_nat m >=? p then []
  else strip (mapi_from (fun i x => (rising i m * x) mod p) 0 (skipn m a)).

Definition neg (a : list Z) : list Z := map (fun x => if x =? 0 then 0 else p - x) a.

Definition addc (x y : Z) : Z := let s := x + y in if s >=? p then s - p else s.
Fixpoint add_raw (a b : list Z) : list Z :=
  match a, b with
  | x :: a', y :: b' => addc x y :: add_raw a' b'
  | _, [] => a
  | [], _ => b
  end.
Definition add (a b : list Z) : list Z :=
  strip (if (length a <? length b)%nat then add_raw b a else add_raw a b).

Definition subc (x y : Z) : Z := let d := x - y in if d <? 0 then d + p else d.
Fixpoint sub_raw (a b : list Z) : list Z :=
  match b with
  | [] => a
  | y :: b' => match a with
               | [] => subc 0 y :: sub_raw [] b'
               | x :: a' => subc x y :: sub_raw a' b'
               end
  end.
Definition sub (a b : list Z) : list Z := strip (sub_raw a b).

Definition modp (a : list Z) : list Z := map (fun c => c mod p) a.
Definition mul (a b : list Z) : list Z :=
  let '(a, b) := if (length b <? length a)%nat then (b, a) else (a, b) in
  match a with [] => [] | _ => modp (mulz a b) end.
Definition sq (a : list Z) : list Z := match a with [] => [] | _ => modp (sqz a) end.

(** [0]*n + a  (n < 0 gives a);  a[n:]  (n < 0 counts from the end) *)
Definition lshift (a : list Z) (n : Z) : list Z :=
  match a with [] => [] | _ => repeat 0 (Z.to_nat n) ++ a end.
Definition rshift (a : list Z) (n : Z) : list Z :=
  if n <? 0 then skipn (Z.to_nat (Z.of_nat (length a) + n)) a else skipn (Z.to_nat n) a.

(** r[i+j] = (r[i+j] - q_i*b[j]) % p  for j in range(len(b)), on the slice r[i:] *)
Fixpoint row_sub (qi : Z) (r b : list Z) : list Z :=
  match r, b with
  | x :: r', y :: b' => ((x - qi * y) mod p) :: row_sub qi r' b'
  | _, [] => r
  | [], _ => []
  end.
Definition elim_row (qi : Z) (i : nat) (r b : list Z) : list Z :=
  strip (firstn i r ++ row_sub qi (skipn i r) b).

(** for i in range(m-n, -1, -1): cnt = i+1; q is q[i+1:] *)
Fixpoint divmod_loop (b : list Z) (b1 : Z) (cnt : nat) (q r : list Z) : list Z * list Z :=
  match cnt with
  | O => (q, r)
  | S i => if (i + length b <=? length r)%nat
           then let qi := (last r 0 * b1) mod p in
                divmod_loop b b1 i (qi :: q) (elim_row qi i r b)
           else divmod_loop b b1 i (0 :: q) r
  end.
Fixpoint mod_loop (b : list Z) (b1 : Z) (cnt : nat) (r : list Z) : list Z :=
  match cnt with
  | O => r
  | S i => if (i + length b <=? length r)%nat
           then let qi := (last r 0 * b1) mod p in mod_loop b b1 i (elim_row qi i r b)
           else mod_loop b b1 i r
  end.
(** b <> [] assumed *)
Definition divmod_nz (a b : list Z) : list Z * list Z :=
  if (length a <? length b)%nat then ([], a)
  else divmod_loop b (inv_raw p (last b 0)) (S (length a - length b)) [] a.
Definition mod_nz (a b : list Z) : list Z :=
  if (length a <? length b)%nat then a
  else mod_loop b (inv_raw p (last b 0)) (S (length a - length b)) a.
Definition divmod (a b : list Z) : res (list Z * list Z) :=
  match b with [] => ZeroDiv | _ => Ok (divmod_nz a b) end.
Definition pmod (a b : list Z) : res (list Z) :=
  match b with [] => ZeroDiv | _ => Ok (mod_nz a b) end.
Definition floordiv (a b : list Z) : res (list Z) := bind (divmod a b) (fun qr => Ok (fst qr)).

(** while b: a, b = b, a % b   — len(b) strictly decreases, fuel len(b)+1 suffices *)
Fixpoint gcd_loop (fuel : nat) (a b : list Z) : option (list Z) :=
  match fuel with
  | O => None
  | S f => match b with [] => Some a | _ => gcd_loop f b (mod_nz a b) end
  end.
Definition gcd (a b : list Z) : res (list Z) :=
  match gcd_loop (S (length b)) a b with None => NoFuel | Some g => Ok (monic g) end.

Fixpoint gcdext_loop (fuel : nat) (a b s s1 t t1 : list Z) : option (list Z * list Z * list Z) :=
  match fuel with
  | O => None
  | S f => match b with
           | [] => Some (a, s, t)
           | _ => let '(q, r) := divmod_nz a b in
                  gcdext_loop f b r s1 (sub s (mul q s1)) t1 (sub t (mul q t1))
           end
  end.
Definition scale_mod (c : Z) (s : list Z) : list Z := map (fun x => (x * c) mod p) s.
Definition gcdext (a b : list Z) : res (list Z * list Z * list Z) :=
  match gcdext_loop (S (length b)) a b [1] [] [] [1] with
  | None => NoFuel
  | Some (g, s, t) =>
      let '(g', a1) := monic_pinv g in
      if a1 >=? 2 then Ok (g', scale_mod a1 s, scale_mod a1 t) else Ok (g', s, t)
  end.

Fixpoint invert_loop (fuel : nat) (a b s s1 : list Z) : option (list Z * list Z) :=
  match fuel with
  | O => None
  | S f => match b with
           | [] => Some (a, s)
           | _ => let '(q, r) := divmod_nz a b in invert_loop f b r s1 (sub s (mul q s1))
           end
  end.
Definition invert (a b : list Z) : res (list Z) :=
  match b with
  | [] => ZeroDiv
  | _ => match invert_loop (S (length b)) a b [1] [] with
         | None => NoFuel
         | Some (g, s) => match g with
                          | [g0] => Ok (scale_mod (inv_raw p g0) s)
                          | _ => ZeroDiv
                          end
         end
  end.

(** _mod(b, modulus) with modulus possibly None *)
Definition omod (a : list Z) (md : option (list Z)) : res (list Z) :=
  match md with None => Ok a | Some b => pmod a b end.
(** for i in range(n.bit_length()-2, -1, -1): square, reduce, multiply if bit set, reduce.
    The positive numeral is the bit string; its outermost constructor is the LAST iteration. *)
Fixpoint powmod_pos (a : list Z) (md : option (list Z)) (n : positive) : res (list Z) :=
  match n with
  | xH => Ok a
  | xO n' => bind (powmod_pos a md n') (fun b => omod (sq b) md)
  | xI n' => bind (powmod_pos a md n')
               (fun b => bind (omod (sq b) md) (fun b => omod (mul b a) md))
  end.
(** n == 0: 1 (whatever the modulus; the package's convention).  Otherwise (negative n: invert first)
    b = a = _mod(a, modulus), then square-and-multiply (repaired _powmod, commit a226feb). *)
Definition powmod (a : list Z) (n : Z) (md : option (list Z)) : res (list Z) :=
  if n =? 0 then Ok (from_int 1)
  else if n <? 0 then
    match md with
    | None => ValueErr
    | Some b => bind (invert a b) (fun a' => bind (omod a' md) (fun ar => powmod_pos ar md (Z.to_pos (- n))))
    end
  else bind (omod a md) (fun ar => powmod_pos ar md (Z.to_pos n)).

(** _lt: shorter is smaller; equal lengths: compare from the leading coefficient down *)
Fixpoint lt_hi (a b : list Z) : bool :=
  match a, b with
  | x :: a', y :: b' => if x =? y then lt_hi a' b' else x <? y
  | _, _ => false
  end.
Definition lt (a b : list Z) : bool :=
  if (length a <? length b)%nat then true
  else if (length b <? length a)%nat then false
  else lt_hi (rev a) (rev b).

(** __call__: Horner from the top, reducing every step *)
Definition call (a : list Z) (x : Z) : Z :=
  fold_right (fun c y => (y * (x mod p) + c) mod p) 0 a.
End Defs.

(** ------------------------------------------------------------------------------------------
    Part 2: integer-polynomial semantics, congruence modulo p, canonical forms *)

(** * Part 2: semantics *)

(** ** unfolding helpers *)
Lemma strip_cons x t :
  strip (x :: t) = match strip t with
                   | [] => if x =? 0 then [] else [x]
                   | t' => x :: t'
                   end.
Proof. reflexivity. Qed.

Lemma mulz_cons x a b : mulz (x :: a) b = addz (scalez x b) (0 :: mulz a b).
Proof. reflexivity. Qed.

Lemma addz_nil_r a : addz a [] = a.
Proof. destruct a; reflexivity. Qed.

Lemma addz_nil_l b : addz [] b = b.
Proof. destruct b; reflexivity. Qed.

Lemma nth_nil0 i : nth i (@nil Z) 0 = 0.
Proof. destruct i; reflexivity. Qed.

Lemma nth_single0 i : nth i [0] 0 = 0.
Proof. destruct i as [|[|i]]; reflexivity. Qed.

(** ** evalZ *)
Lemma evalZ_addz a b x : evalZ (addz a b) x = evalZ a x + evalZ b x.
Proof.
  revert b; induction a as [|c a IH]; intros b.
  - rewrite addz_nil_l. simpl. lia.
  - destruct b as [|d b].
    + simpl. lia.
    + simpl. rewrite IH. ring.
Qed.

Lemma evalZ_scalez c a x : evalZ (scalez c a) x = c * evalZ a x.
Proof.
  unfold scalez. induction a as [|d a IH]; simpl.
  - ring.
  - rewrite IH. ring.
Qed.

Lemma evalZ_negz a x : evalZ (negz a) x = - evalZ a x.
Proof.
  unfold negz. induction a as [|d a IH]; simpl.
  - reflexivity.
  - rewrite IH. ring.
Qed.

Lemma evalZ_subz a b x : evalZ (subz a b) x = evalZ a x - evalZ b x.
Proof. unfold subz. rewrite evalZ_addz, evalZ_negz. ring. Qed.

Lemma evalZ_mulz a b x : evalZ (mulz a b) x = evalZ a x * evalZ b x.
Proof.
  induction a as [|c a IH].
  - simpl. ring.
  - rewrite mulz_cons, evalZ_addz, evalZ_scalez. cbn [evalZ]. rewrite IH. ring.
Qed.

Lemma evalZ_sqz a x : evalZ (sqz a) x = evalZ a x * evalZ a x.
Proof.
  induction a as [|c a IH].
  - simpl. ring.
  - destruct a as [|d t].
    + simpl. ring.
    + remember (d :: t) as a' eqn:Ea.
      assert (Hs : sqz (c :: a') = c * c :: addz (scalez (2 * c) a') (0 :: sqz a')).
      { subst a'. reflexivity. }
      rewrite Hs. cbn [evalZ]. rewrite evalZ_addz, evalZ_scalez. cbn [evalZ].
      rewrite IH. ring.
Qed.

Lemma evalZ_strip a x : evalZ (strip a) x = evalZ a x.
Proof.
  induction a as [|c a IH].
  - reflexivity.
  - rewrite strip_cons. destruct (strip a) as [|z l] eqn:E.
    + cbn [evalZ] in IH. destruct (c =? 0) eqn:Ec.
      * cbn [evalZ]. rewrite <- IH. lia.
      * cbn [evalZ]. rewrite <- IH. lia.
    + cbn [evalZ] in *. rewrite IH. reflexivity.
Qed.

Lemma evalZ_app a b x : evalZ (a ++ b) x = evalZ a x + x ^ Z.of_nat (length a) * evalZ b x.
Proof.
  induction a as [|c a IH].
  - cbn [app evalZ length]. change (Z.of_nat 0) with 0. rewrite Z.pow_0_r. ring.
  - cbn [app evalZ length]. rewrite IH, Nat2Z.inj_succ, Z.pow_succ_r by lia. ring.
Qed.

Lemma evalZ_repeat0 n x : evalZ (repeat 0 n) x = 0.
Proof.
  induction n as [|n IH]; simpl.
  - reflexivity.
  - rewrite IH. ring.
Qed.

(** ** nth / length *)
Lemma nth_addz i a b : nth i (addz a b) 0 = nth i a 0 + nth i b 0.
Proof.
  revert i b; induction a as [|c a IH]; intros i b.
  - rewrite addz_nil_l, nth_nil0. lia.
  - destruct b as [|d b].
    + rewrite addz_nil_r, nth_nil0. lia.
    + destruct i as [|i]; simpl.
      * reflexivity.
      * apply IH.
Qed.

Lemma nth_scalez i c a : nth i (scalez c a) 0 = c * nth i a 0.
Proof.
  unfold scalez. revert i; induction a as [|d a IH]; intros i.
  - cbn [map]. rewrite !nth_nil0. ring.
  - destruct i as [|i]; simpl.
    + reflexivity.
    + apply IH.
Qed.

Lemma nth_negz i a : nth i (negz a) 0 = - nth i a 0.
Proof.
  unfold negz. revert i; induction a as [|d a IH]; intros i.
  - cbn [map]. rewrite !nth_nil0. reflexivity.
  - destruct i as [|i]; simpl.
    + reflexivity.
    + apply IH.
Qed.

Lemma nth_subz i a b : nth i (subz a b) 0 = nth i a 0 - nth i b 0.
Proof. unfold subz. rewrite nth_addz, nth_negz. ring. Qed.

Lemma length_addz a b : length (addz a b) = Nat.max (length a) (length b).
Proof.
  revert b; induction a as [|c a IH]; intros b.
  - rewrite addz_nil_l. reflexivity.
  - destruct b as [|d b].
    + reflexivity.
    + cbn [addz length]. rewrite IH. reflexivity.
Qed.

Lemma length_scalez c a : length (scalez c a) = length a.
Proof. unfold scalez. apply map_length. Qed.

Lemma length_mulz_cons x a b :
  b <> [] -> length (mulz (x :: a) b) = (length a + length b)%nat.
Proof.
  intros Hb. assert (Hlb : (1 <= length b)%nat).
  { destruct b; [congruence | simpl; lia]. }
  revert x; induction a as [|y t IH]; intros x.
  - rewrite mulz_cons, length_addz, length_scalez. simpl. lia.
  - rewrite mulz_cons, length_addz, length_scalez. cbn [length]. rewrite IH. simpl. lia.
Qed.

Lemma length_mulz a b : a <> [] -> b <> [] -> length (mulz a b) = (length a + length b - 1)%nat.
Proof.
  intros Ha Hb. destruct a as [|x a]; [congruence|].
  rewrite length_mulz_cons by exact Hb. simpl. lia.
Qed.

Lemma last_nth (a : list Z) d : a <> [] -> last a d = nth (length a - 1) a d.
Proof.
  induction a as [|x t IH]; intros Hne; [congruence|].
  destruct t as [|y t'].
  - reflexivity.
  - change (last (x :: y :: t') d) with (last (y :: t') d).
    rewrite IH by discriminate.
    replace (length (x :: y :: t') - 1)%nat with (S (length (y :: t') - 1))%nat
      by (simpl; lia).
    reflexivity.
Qed.

Lemma last_nth0 (a : list Z) : last a 0 = nth (length a - 1) a 0.
Proof.
  destruct a as [|x t]; [reflexivity|]. apply last_nth. discriminate.
Qed.

Lemma last_mulz a b : a <> [] -> b <> [] -> last (mulz a b) 0 = last a 0 * last b 0.
Proof.
  intros Ha Hb. assert (Hlb : (1 <= length b)%nat).
  { destruct b; [congruence | simpl; lia]. }
  induction a as [|x t IH]; [congruence|].
  rewrite last_nth0, length_mulz_cons by exact Hb.
  rewrite mulz_cons, nth_addz, nth_scalez.
  destruct t as [|y t'].
  - cbn [length]. rewrite nth_single0.
    replace (0 + length b - 1)%nat with (length b - 1)%nat by lia.
    rewrite <- last_nth0. simpl. ring.
  - assert (IH' := IH ltac:(discriminate)). clear IH.
    rewrite (nth_overflow b) by (cbn [length]; lia).
    replace (length (y :: t') + length b - 1)%nat
      with (S (length (mulz (y :: t') b) - 1))%nat
      by (rewrite length_mulz_cons by exact Hb; cbn [length]; lia).
    cbn [nth]. rewrite <- last_nth0, IH'.
    change (last (x :: y :: t') 0) with (last (y :: t') 0). ring.
Qed.

(** ** strip *)
Lemma nth_strip i a : nth i (strip a) 0 = nth i a 0.
Proof.
  revert i; induction a as [|x t IH]; intros i; [reflexivity|].
  rewrite strip_cons. destruct (strip t) as [|z l] eqn:E.
  - destruct (x =? 0) eqn:Ex.
    + rewrite nth_nil0. destruct i as [|i]; cbn [nth].
      * lia.
      * rewrite <- IH. rewrite nth_nil0. reflexivity.
    + destruct i as [|i]; cbn [nth].
      * reflexivity.
      * rewrite <- IH. reflexivity.
  - destruct i as [|i].
    + reflexivity.
    + cbn [nth]. apply IH.
Qed.

Lemma length_strip_le a : (length (strip a) <= length a)%nat.
Proof.
  induction a as [|x t IH]; [simpl; lia|].
  rewrite strip_cons. destruct (strip t) as [|z l].
  - destruct (x =? 0); simpl; lia.
  - cbn [length] in *. lia.
Qed.

Lemma strip_last a : last (strip a) 1 <> 0.
Proof.
  induction a as [|x t IH]; [simpl; lia|].
  rewrite strip_cons. destruct (strip t) as [|z l].
  - destruct (x =? 0) eqn:Ex; simpl; lia.
  - change (last (x :: z :: l) 1) with (last (z :: l) 1). exact IH.
Qed.

Lemma strip_id a : last a 1 <> 0 -> strip a = a.
Proof.
  induction a as [|x t IH]; intros H; [reflexivity|].
  rewrite strip_cons. destruct t as [|y t'].
  - simpl in *. destruct (x =? 0) eqn:Ex; [lia | reflexivity].
  - change (last (x :: y :: t') 1) with (last (y :: t') 1) in H.
    rewrite (IH H). reflexivity.
Qed.

Lemma strip_app0 a : strip (a ++ [0]) = strip a.
Proof.
  induction a as [|x t IH]; [reflexivity|].
  cbn [app]. rewrite !strip_cons, IH. reflexivity.
Qed.

Lemma strip_Forall (P : Z -> Prop) a : Forall P a -> Forall P (strip a).
Proof.
  induction a as [|x t IH]; intros H; [exact H|].
  inversion H as [|x' t' Hx Ht]; subst.
  rewrite strip_cons. specialize (IH Ht). destruct (strip t) as [|z l].
  - destruct (x =? 0); [constructor | constructor; [exact Hx | constructor]].
  - constructor; assumption.
Qed.

Lemma strip_zeros a : (forall i, nth i a 0 = 0) -> strip a = [].
Proof.
  induction a as [|x t IH]; intros H; [reflexivity|].
  rewrite strip_cons, (IH (fun i => H (S i))).
  pose proof (H O) as H0. simpl in H0. subst x. reflexivity.
Qed.

Lemma strip_ext a b : (forall i, nth i a 0 = nth i b 0) -> strip a = strip b.
Proof.
  revert b; induction a as [|x t IH]; intros b H.
  - symmetry. apply strip_zeros. intros i. rewrite <- H. apply nth_nil0.
  - destruct b as [|y b'].
    + apply strip_zeros. intros i. rewrite H. apply nth_nil0.
    + pose proof (H O) as H0. simpl in H0. subst y.
      rewrite !strip_cons, (IH b' (fun i => H (S i))). reflexivity.
Qed.

(** ** an integer polynomial vanishing at all positive integers is zero *)
Lemma evalZ_vanish a : (forall x, 0 < x -> evalZ a x = 0) -> forall i, nth i a 0 = 0.
Proof.
  induction a as [|c t IH]; intros H i.
  - apply nth_nil0.
  - assert (Hc : c = 0).
    { pose proof (H (Z.abs c + 1) ltac:(lia)) as Hx. cbn [evalZ] in Hx.
      remember (evalZ t (Z.abs c + 1)) as E eqn:HE. clear HE.
      destruct (Z.eq_dec E 0) as [E0|E0]; [subst E; lia|]. nia. }
    subst c.
    assert (Ht : forall x, 0 < x -> evalZ t x = 0).
    { intros x Hx. pose proof (H x Hx) as Hv. cbn [evalZ] in Hv. nia. }
    destruct i as [|i]; [reflexivity|]. cbn [nth]. apply IH. exact Ht.
Qed.

(** ** congruence modulo p: coefficientwise and as polynomial functions *)
Definition ceq (p : Z) (a b : list Z) : Prop := forall i, (nth i a 0) mod p = (nth i b 0) mod p.
Definition peq (p : Z) (a b : list Z) : Prop := exists k, forall x, evalZ a x = evalZ b x + p * evalZ k x.

Lemma evalZ_divp p l x :
  p <> 0 -> (forall i, (nth i l 0) mod p = 0) ->
  evalZ l x = p * evalZ (map (fun d => d / p) l) x.
Proof.
  intros Hp. induction l as [|c t IH]; intros H.
  - simpl. ring.
  - cbn [map evalZ]. rewrite (IH (fun i => H (S i))).
    pose proof (H O) as H0. cbn [nth] in H0.
    assert (Hc : c = p * (c / p)).
    { pose proof (Z.div_mod c p Hp) as Hdm. lia. }
    rewrite Hc at 1. ring.
Qed.

Lemma ceq_peq p a b : p <> 0 -> ceq p a b -> peq p a b.
Proof.
  intros Hp H. exists (map (fun d => d / p) (subz a b)). intros x.
  rewrite <- evalZ_divp.
  - rewrite evalZ_subz. ring.
  - exact Hp.
  - intros i. rewrite nth_subz, Zminus_mod, (H i), Z.sub_diag. apply Zmod_0_l.
Qed.

Lemma peq_ceq p a b : p <> 0 -> peq p a b -> ceq p a b.
Proof.
  intros Hp [k Hk] i.
  assert (Hv : forall x, 0 < x -> evalZ (subz a (addz b (scalez p k))) x = 0).
  { intros x _. rewrite evalZ_subz, evalZ_addz, evalZ_scalez, Hk. ring. }
  pose proof (evalZ_vanish _ Hv i) as Hi.
  rewrite nth_subz, nth_addz, nth_scalez in Hi.
  replace (nth i a 0) with (nth i b 0 + nth i k 0 * p) by lia.
  apply Z_mod_plus_full.
Qed.

Lemma peq_refl p a : peq p a a.
Proof. exists []. intros x. simpl. ring. Qed.

Lemma peq_sym p a b : peq p a b -> peq p b a.
Proof.
  intros [k Hk]. exists (negz k). intros x. rewrite evalZ_negz, Hk. ring.
Qed.

Lemma peq_trans p a b c : peq p a b -> peq p b c -> peq p a c.
Proof.
  intros [k1 H1] [k2 H2]. exists (addz k1 k2). intros x.
  rewrite evalZ_addz, H1, H2. ring.
Qed.

Lemma peq_evalZ p a b : (forall x, evalZ a x = evalZ b x) -> peq p a b.
Proof. intros H. exists []. intros x. rewrite H. simpl. ring. Qed.

Lemma peq_addz p a a' b b' : peq p a a' -> peq p b b' -> peq p (addz a b) (addz a' b').
Proof.
  intros [ka Ha] [kb Hb]. exists (addz ka kb). intros x.
  rewrite !evalZ_addz, Ha, Hb. ring.
Qed.

Lemma peq_subz p a a' b b' : peq p a a' -> peq p b b' -> peq p (subz a b) (subz a' b').
Proof.
  intros [ka Ha] [kb Hb]. exists (subz ka kb). intros x.
  rewrite !evalZ_subz, Ha, Hb. ring.
Qed.

Lemma peq_negz p a a' : peq p a a' -> peq p (negz a) (negz a').
Proof.
  intros [ka Ha]. exists (negz ka). intros x.
  rewrite !evalZ_negz, Ha. ring.
Qed.

Lemma peq_scalez p c a a' : peq p a a' -> peq p (scalez c a) (scalez c a').
Proof.
  intros [ka Ha]. exists (scalez c ka). intros x.
  rewrite !evalZ_scalez, Ha. ring.
Qed.

Lemma peq_mulz p a a' b b' : peq p a a' -> peq p b b' -> peq p (mulz a b) (mulz a' b').
Proof.
  intros [ka Ha] [kb Hb].
  exists (addz (mulz ka b') (addz (mulz a' kb) (scalez p (mulz ka kb)))). intros x.
  rewrite !evalZ_addz, evalZ_scalez, !evalZ_mulz, Ha, Hb. ring.
Qed.

Lemma ceq_refl p a : ceq p a a.
Proof. intros i. reflexivity. Qed.

Lemma ceq_sym p a b : ceq p a b -> ceq p b a.
Proof. intros H i. symmetry. apply H. Qed.

Lemma ceq_trans p a b c : ceq p a b -> ceq p b c -> ceq p a c.
Proof. intros H1 H2 i. rewrite (H1 i). apply H2. Qed.

Lemma peq_strip p a : peq p (strip a) a.
Proof. apply peq_evalZ. intros x. apply evalZ_strip. Qed.

Lemma nth_modp p i a : nth i (modp p a) 0 = (nth i a 0) mod p.
Proof.
  unfold modp. revert i; induction a as [|c t IH]; intros i.
  - cbn [map]. rewrite !nth_nil0, Zmod_0_l. reflexivity.
  - destruct i as [|i]; simpl.
    + reflexivity.
    + apply IH.
Qed.

Lemma peq_modp p a : p <> 0 -> peq p (modp p a) a.
Proof.
  intros Hp. apply ceq_peq; [exact Hp|]. intros i.
  rewrite nth_modp. apply Zmod_mod.
Qed.

(** ** canonical forms *)
Lemma Forall_range_nth p a i :
  0 < p -> Forall (fun x => 0 <= x < p) a -> 0 <= nth i a 0 < p.
Proof.
  intros Hp H. revert i; induction H as [|x t Hx Ht IH]; intros i.
  - rewrite nth_nil0. lia.
  - destruct i as [|i]; simpl.
    + exact Hx.
    + apply IH.
Qed.

Lemma canon p a b : wf p a -> wf p b -> ceq p a b -> a = b.
Proof.
  intros [Fa La] [Fb Lb] H.
  destruct (Z_lt_le_dec 0 p) as [Hp|Hp].
  - rewrite <- (strip_id a La), <- (strip_id b Lb). apply strip_ext. intros i.
    pose proof (Forall_range_nth p a i Hp Fa) as Ra.
    pose proof (Forall_range_nth p b i Hp Fb) as Rb.
    pose proof (H i) as Hi.
    rewrite (Z.mod_small _ _ Ra), (Z.mod_small _ _ Rb) in Hi. exact Hi.
  - destruct a as [|x a'].
    + destruct b as [|y b']; [reflexivity|].
      inversion Fb as [|y' t' Hy Ht]; subst. lia.
    + inversion Fa as [|x' t' Hx Ht]; subst. lia.
Qed.

Lemma canon_peq p a b : 0 < p -> wf p a -> wf p b -> peq p a b -> a = b.
Proof.
  intros Hp Wa Wb H. apply (canon p a b Wa Wb). apply peq_ceq; [lia | exact H].
Qed.



(** coefficient semantics of the reduced operations *)
Lemma last_cons_nonnil (x : Z) l d : l <> [] -> last (x :: l) d = last l d.
Proof. intros Hl. destruct l as [|y l]; [congruence|reflexivity]. Qed.

Lemma nth_mod_small p l i : Forall (fun x => 0 <= x < p) l -> (nth i l 0) mod p = nth i l 0.
Proof.
  intros H. revert i; induction H as [|x t Hx Ht IH]; intros i.
  - destruct i; apply Zmod_0_l.
  - destruct i as [|i]; cbn [nth]; [apply Z.mod_small; exact Hx|apply IH].
Qed.

Lemma addc_mod p x y : 0 <= x < p -> 0 <= y < p -> addc p x y = (x + y) mod p.
Proof.
  intros Hx Hy. unfold addc. rewrite Z.geb_leb.
  destruct (Z.leb_spec p (x + y)) as [H|H].
  - apply (Z.mod_unique (x + y) p 1); [left; lia|ring].
  - apply (Z.mod_unique (x + y) p 0); [left; lia|ring].
Qed.

Lemma subc_mod p x y : 0 <= x < p -> 0 <= y < p -> subc p x y = (x - y) mod p.
Proof.
  intros Hx Hy. unfold subc.
  destruct (Z.ltb_spec (x - y) 0) as [H|H].
  - apply (Z.mod_unique (x - y) p (-1)); [left; lia|ring].
  - apply (Z.mod_unique (x - y) p 0); [left; lia|ring].
Qed.

Lemma nth_add_raw p a b i : Forall (fun x => 0 <= x < p) a -> Forall (fun x => 0 <= x < p) b ->
  nth i (add_raw p a b) 0 = (nth i a 0 + nth i b 0) mod p.
Proof.
  intros Ha. revert b i; induction Ha as [|x a' Hx Ha' IH]; intros b i Hb.
  - replace (add_raw p [] b) with b by (destruct b; reflexivity).
    replace (nth i [] 0) with 0 by (destruct i; reflexivity).
    rewrite Z.add_0_l. symmetry. apply nth_mod_small. exact Hb.
  - destruct Hb as [|y b' Hy Hb'].
    + cbn [add_raw]. replace (nth i [] 0) with 0 by (destruct i; reflexivity).
      rewrite Z.add_0_r. symmetry. apply nth_mod_small. constructor; assumption.
    + cbn [add_raw]. destruct i as [|i]; cbn [nth].
      * apply addc_mod; assumption.
      * apply IH. exact Hb'.
Qed.

Lemma add_raw_Forall p a b : Forall (fun x => 0 <= x < p) a -> Forall (fun x => 0 <= x < p) b ->
  Forall (fun x => 0 <= x < p) (add_raw p a b).
Proof.
  intros Ha. revert b; induction Ha as [|x a' Hx Ha' IH]; intros b Hb.
  - replace (add_raw p [] b) with b by (destruct b; reflexivity). exact Hb.
  - destruct Hb as [|y b' Hy Hb'].
    + cbn [add_raw]. constructor; assumption.
    + cbn [add_raw]. constructor; [|apply IH; exact Hb'].
      rewrite addc_mod by assumption. apply Z.mod_pos_bound. lia.
Qed.

Lemma nth_add_generic p a b i : Forall (fun x => 0 <= x < p) a -> Forall (fun x => 0 <= x < p) b ->
  nth i (add p a b) 0 = (nth i a 0 + nth i b 0) mod p.
Proof.
  intros Ha Hb. unfold add. rewrite nth_strip.
  destruct (length a <? length b)%nat.
  - rewrite nth_add_raw by assumption. f_equal. ring.
  - apply nth_add_raw; assumption.
Qed.

Lemma add_wf p a b : Forall (fun x => 0 <= x < p) a -> Forall (fun x => 0 <= x < p) b -> wf p (add p a b).
Proof.
  intros Ha Hb. unfold add. split; [|apply strip_last].
  apply strip_Forall. destruct (length a <? length b)%nat; apply add_raw_Forall; assumption.
Qed.

Lemma nth_sub_raw p a b i : Forall (fun x => 0 <= x < p) a -> Forall (fun x => 0 <= x < p) b ->
  nth i (sub_raw p a b) 0 = (nth i a 0 - nth i b 0) mod p.
Proof.
  intros Ha Hb. revert a i Ha; induction Hb as [|y b' Hy Hb' IH]; intros a i Ha.
  - cbn [sub_raw]. replace (nth i [] 0) with 0 by (destruct i; reflexivity).
    rewrite Z.sub_0_r. symmetry. apply nth_mod_small. exact Ha.
  - destruct Ha as [|x a' Hx Ha'].
    + cbn [sub_raw]. destruct i as [|i]; cbn [nth].
      * apply subc_mod; lia.
      * rewrite IH by constructor. destruct i; reflexivity.
    + cbn [sub_raw]. destruct i as [|i]; cbn [nth].
      * apply subc_mod; assumption.
      * apply IH. exact Ha'.
Qed.

Lemma sub_raw_Forall p a b : Forall (fun x => 0 <= x < p) a -> Forall (fun x => 0 <= x < p) b ->
  Forall (fun x => 0 <= x < p) (sub_raw p a b).
Proof.
  intros Ha Hb. revert a Ha; induction Hb as [|y b' Hy Hb' IH]; intros a Ha.
  - exact Ha.
  - destruct Ha as [|x a' Hx Ha'].
    + cbn [sub_raw]. constructor; [|apply IH; constructor].
      rewrite subc_mod by lia. apply Z.mod_pos_bound. lia.
    + cbn [sub_raw]. constructor; [|apply IH; exact Ha'].
      rewrite subc_mod by assumption. apply Z.mod_pos_bound. lia.
Qed.

Lemma nth_sub_generic p a b i : Forall (fun x => 0 <= x < p) a -> Forall (fun x => 0 <= x < p) b ->
  nth i (sub p a b) 0 = (nth i a 0 - nth i b 0) mod p.
Proof.
  intros Ha Hb. unfold sub. rewrite nth_strip. apply nth_sub_raw; assumption.
Qed.

Lemma sub_wf p a b : Forall (fun x => 0 <= x < p) a -> Forall (fun x => 0 <= x < p) b -> wf p (sub p a b).
Proof.
  intros Ha Hb. unfold sub. split; [|apply strip_last].
  apply strip_Forall. apply sub_raw_Forall; assumption.
Qed.

(** * Extensionality of well-formed lists *)

Lemma last_nth_length (x : Z) l d : last (x :: l) d = nth (length l) (x :: l) d.
Proof.
  revert x; induction l as [|y l IH]; intros x; [reflexivity|].
  rewrite last_cons_nonnil by discriminate. cbn [length]. rewrite IH. reflexivity.
Qed.

Lemma wf_tail p x l : wf p (x :: l) -> wf p l.
Proof.
  intros [Hf Hl]. split.
  - inversion Hf; assumption.
  - destruct l as [|y l]; [cbn; lia|]. rewrite last_cons_nonnil in Hl by discriminate. exact Hl.
Qed.

Lemma wf_nth_zero_nil p l : wf p l -> (forall i, nth i l 0 = 0) -> l = [].
Proof.
  intros [_ Hl] H. destruct l as [|x l]; [reflexivity|].
  exfalso. apply Hl. rewrite last_nth_length.
  rewrite (nth_indep _ 1 0) by (cbn [length]; lia). apply H.
Qed.

Lemma wf_nth_ext p a b : wf p a -> wf p b -> (forall i, nth i a 0 = nth i b 0) -> a = b.
Proof.
  revert b; induction a as [|x a IH]; intros b Ha Hb H.
  - symmetry. apply (wf_nth_zero_nil p b Hb). intros i. rewrite <- H. destruct i; reflexivity.
  - destruct b as [|y b].
    + apply (wf_nth_zero_nil p _ Ha). intros i. rewrite H. destruct i; reflexivity.
    + f_equal.
      * exact (H O).
      * apply IH; [exact (wf_tail p x a Ha)|exact (wf_tail p y b Hb)|].
        intros i. exact (H (S i)).
Qed.

(** ------------------------------------------------------------------------------------------
    Part 3: theorems about the operations *)
Notation inr p a := (Forall (fun x => 0 <= x < p) a).

Lemma wf_inr p a : wf p a -> inr p a.
Proof. intros [H _]; exact H. Qed.
Lemma wf_nil p : wf p [].
Proof. split; [constructor|cbn; lia]. Qed.
Lemma prime_gt1 p : prime p -> 1 < p.
Proof. intros H. pose proof (prime_ge_2 p H). lia. Qed.

(** denotations: every reduced operation is congruent to the integer-polynomial operation *)
Lemma add_peq p a b : 0 < p -> inr p a -> inr p b -> peq p (add p a b) (addz a b).
Proof.
  intros Hp Ha Hb. apply ceq_peq; [lia|]. intros i.
  rewrite nth_add_generic, nth_addz by assumption. apply Z.mod_mod. lia.
Qed.
Lemma sub_peq p a b : 0 < p -> inr p a -> inr p b -> peq p (sub p a b) (subz a b).
Proof.
  intros Hp Ha Hb. apply ceq_peq; [lia|]. intros i.
  rewrite nth_sub_generic, nth_subz by assumption. apply Z.mod_mod. lia.
Qed.

Lemma nth_neg p a i : inr p a -> nth i (neg p a) 0 = (- nth i a 0) mod p.
Proof.
  intros H. revert i; induction H as [|x t Hx Ht IH]; intros i.
  - destruct i; reflexivity.
  - destruct i as [|i]; cbn [neg map nth]; [|apply IH].
    destruct (Z.eqb_spec x 0) as [E|E]; [subst; reflexivity|].
    apply Z.mod_unique with (-1); lia.
Qed.
Lemma neg_inr p a : inr p a -> inr p (neg p a).
Proof.
  induction 1 as [|x t Hx Ht IH]; cbn [neg map]; constructor; [|exact IH].
  destruct (Z.eqb_spec x 0); lia.
Qed.
Lemma neg_last p a : inr p a -> last a 1 <> 0 -> last (neg p a) 1 <> 0.
Proof.
  induction 1 as [|x t Hx Ht IH]; intros L; [cbn; lia|].
  destruct t as [|y t'].
  - cbn in L |- *. destruct (Z.eqb_spec x 0); lia.
  - rewrite last_cons_nonnil in L by discriminate.
    change (neg p (x :: y :: t')) with ((if x =? 0 then 0 else p - x) :: neg p (y :: t')).
    rewrite last_cons_nonnil by (cbn; discriminate). apply IH, L.
Qed.
Lemma neg_wf p a : wf p a -> wf p (neg p a).
Proof. intros [Ha La]. split; [apply neg_inr, Ha|apply neg_last; assumption]. Qed.
Lemma neg_peq p a : 0 < p -> inr p a -> peq p (neg p a) (negz a).
Proof.
  intros Hp Ha. apply ceq_peq; [lia|]. intros i.
  rewrite nth_neg, nth_negz by assumption. apply Z.mod_mod. lia.
Qed.

Lemma modp_inr p a : 0 < p -> inr p (modp p a).
Proof.
  intros Hp. unfold modp. induction a as [|x t IH]; cbn [map]; constructor; [|exact IH].
  apply Z.mod_pos_bound; lia.
Qed.
Lemma last_modp p a : a <> [] -> last (modp p a) 1 = (last a 0) mod p.
Proof.
  induction a as [|x t IH]; intros H; [congruence|].
  destruct t as [|y t']; [reflexivity|].
  change (modp p (x :: y :: t')) with (x mod p :: modp p (y :: t')).
  rewrite !last_cons_nonnil by (cbn; discriminate). apply IH. discriminate.
Qed.
Lemma wf_last0 p a : wf p a -> a <> [] -> 0 < last a 0 < p.
Proof.
  intros [Ha La] Hn.
  assert (E : last a 0 = last a 1).
  { clear Ha La. induction a as [|x t IH]; [congruence|]. destruct t as [|y t']; [reflexivity|].
    rewrite !last_cons_nonnil by discriminate. apply IH. discriminate. }
  rewrite E.
  assert (0 <= last a 1 < p).
  { apply (proj1 (Forall_forall _ a) Ha).
    destruct a as [|x t]; [congruence|]. clear. revert x; induction t as [|y t IH]; intros x; [left; reflexivity|].
    rewrite last_cons_nonnil by discriminate. right. apply IH. }
  lia.
Qed.

Lemma mul_peq p a b : 0 < p -> peq p (mul p a b) (mulz a b).
Proof.
  intros Hp. unfold mul. destruct (length b <? length a)%nat.
  - destruct b as [|y b'].
    + apply peq_evalZ. intros x. rewrite evalZ_mulz. cbn. ring.
    + eapply peq_trans; [apply peq_modp; lia|]. apply peq_evalZ. intros x. rewrite !evalZ_mulz. ring.
  - destruct a as [|x a'].
    + apply peq_refl.
    + apply peq_modp; lia.
Qed.
Lemma mul_inr p a b : 0 < p -> inr p (mul p a b).
Proof.
  intros Hp. unfold mul. destruct (length b <? length a)%nat.
  - destruct b; [constructor|apply modp_inr, Hp].
  - destruct a; [constructor|apply modp_inr, Hp].
Qed.
Lemma mul_last_aux p a b : prime p -> wf p a -> wf p b -> a <> [] -> b <> [] ->
  last (modp p (mulz a b)) 1 <> 0.
Proof.
  intros Pp Wa Wb Ha Hb. pose proof (prime_gt1 p Pp) as Hp.
  assert (Hm : mulz a b <> []).
  { intros E. pose proof (length_mulz a b Ha Hb) as L. rewrite E in L.
    destruct a; [congruence|]. destruct b; [congruence|]. cbn in L. lia. }
  rewrite last_modp by exact Hm. rewrite last_mulz by assumption.
  pose proof (wf_last0 p a Wa Ha) as Ra. pose proof (wf_last0 p b Wb Hb) as Rb.
  intros E. apply Z.mod_divide in E; [|lia].
  apply prime_mult in E; [|exact Pp].
  destruct E as [E|E]; apply Z.divide_pos_le in E; lia.
Qed.
Lemma mul_wf p a b : prime p -> wf p a -> wf p b -> wf p (mul p a b).
Proof.
  intros Pp Wa Wb. pose proof (prime_gt1 p Pp) as Hp. split; [apply mul_inr; lia|].
  unfold mul. destruct (length b <? length a)%nat eqn:E.
  - destruct b as [|y b'] eqn:Eb; [cbn; lia|]. rewrite <- Eb in *.
    apply mul_last_aux; try assumption; [subst; discriminate|].
    intros ->. apply Nat.ltb_lt in E. cbn in E. lia.
  - destruct a as [|x a'] eqn:Ea; [cbn; lia|]. rewrite <- Ea in *.
    apply mul_last_aux; try assumption; [subst; discriminate|].
    intros ->. apply Nat.ltb_ge in E. subst a. cbn in E. lia.
Qed.

(** coefficient semantics and the commutative group laws of addition *)
Theorem add_coef p a b i : inr p a -> inr p b -> nth i (add p a b) 0 = (nth i a 0 + nth i b 0) mod p.
Proof. apply nth_add_generic. Qed.
Theorem sub_coef p a b i : inr p a -> inr p b -> nth i (sub p a b) 0 = (nth i a 0 - nth i b 0) mod p.
Proof. apply nth_sub_generic. Qed.
Theorem neg_coef p a i : inr p a -> nth i (neg p a) 0 = (- nth i a 0) mod p.
Proof. apply nth_neg. Qed.

Lemma add_raw_comm p a b : add_raw p a b = add_raw p b a.
Proof.
  revert b; induction a as [|x a IH]; intros [|y b]; cbn [add_raw]; try reflexivity.
  rewrite IH. unfold addc. rewrite (Z.add_comm x y). reflexivity.
Qed.
Theorem add_comm p a b : add p a b = add p b a.
Proof.
  unfold add. destruct (length a <? length b)%nat eqn:E1, (length b <? length a)%nat eqn:E2;
    try reflexivity; rewrite (add_raw_comm p a b); reflexivity.
Qed.
Theorem add_assoc p a b c : 0 < p -> inr p a -> inr p b -> inr p c ->
  add p (add p a b) c = add p a (add p b c).
Proof.
  intros Hp Ha Hb Hc.
  pose proof (add_wf p a b Ha Hb) as Wab. pose proof (add_wf p b c Hb Hc) as Wbc.
  apply (canon_peq p); [exact Hp|apply add_wf; [exact (wf_inr _ _ Wab)|exact Hc]|apply add_wf; [exact Ha|exact (wf_inr _ _ Wbc)]|].
  eapply peq_trans; [apply add_peq; [exact Hp|exact (wf_inr _ _ Wab)|exact Hc]|].
  eapply peq_trans; [apply peq_addz; [apply add_peq; assumption|apply peq_refl]|].
  apply peq_sym.
  eapply peq_trans; [apply add_peq; [exact Hp|exact Ha|exact (wf_inr _ _ Wbc)]|].
  eapply peq_trans; [apply peq_addz; [apply peq_refl|apply add_peq; assumption]|].
  apply peq_evalZ. intros x. rewrite !evalZ_addz. ring.
Qed.
Theorem add_0_r p a : wf p a -> add p a [] = a.
Proof.
  intros [_ La]. unfold add. replace (length a <? length (@nil Z))%nat with false
    by (symmetry; apply Nat.ltb_ge; cbn; lia).
  destruct a; [reflexivity|]. cbn [add_raw]. apply strip_id, La.
Qed.
Theorem add_neg_r p a : 0 < p -> inr p a -> add p a (neg p a) = [].
Proof.
  intros Hp Ha. apply (canon_peq p); [exact Hp|apply add_wf; [exact Ha|apply neg_inr, Ha]|apply wf_nil|].
  eapply peq_trans; [apply add_peq; [exact Hp|exact Ha|apply neg_inr, Ha]|].
  eapply peq_trans; [apply peq_addz; [apply peq_refl|apply neg_peq; assumption]|].
  apply peq_evalZ. intros x. rewrite evalZ_addz, evalZ_negz. cbn. ring.
Qed.
Theorem sub_add_neg p a b : 0 < p -> inr p a -> inr p b -> sub p a b = add p a (neg p b).
Proof.
  intros Hp Ha Hb. apply (canon_peq p); [exact Hp|apply sub_wf; assumption|apply add_wf; [exact Ha|apply neg_inr, Hb]|].
  eapply peq_trans; [apply sub_peq; assumption|]. apply peq_sym.
  eapply peq_trans; [apply add_peq; [exact Hp|exact Ha|apply neg_inr, Hb]|].
  unfold subz. apply peq_addz; [apply peq_refl|apply neg_peq; assumption].
Qed.

(** multiplication: convolution modulo p, ring laws *)
Theorem mul_coef p a b k : 0 < p -> nth k (mul p a b) 0 = (nth k (mulz a b) 0) mod p.
Proof.
  intros Hp. pose proof (peq_ceq p _ _ ltac:(lia) (mul_peq p a b Hp) k) as H.
  rewrite <- H. symmetry. apply nth_mod_small. apply mul_inr, Hp.
Qed.
(** the accumulator of _mul is the convolution: coefficient k of mulz a b is sum_{i<=k} a_i b_(k-i) *)
Fixpoint conv (a b : list Z) (k : nat) (i : nat) : Z :=
  match i with
  | O => nth O a 0 * nth k b 0
  | S i' => nth i a 0 * nth (k - i) b 0 + conv a b k i'
  end.
Lemma conv_cons x a b k i : (i <= k)%nat ->
  conv (x :: a) b (S k) (S i) = x * nth (S k) b 0 + conv a b k i.
Proof.
  induction i as [|i IH]; intros H.
  - cbn [conv nth]. replace (S k - 1)%nat with k by lia. ring.
  - cbn [conv] in IH |- *. rewrite IH by lia. cbn [nth].
    replace (S k - S (S i))%nat with (k - S i)%nat by lia. ring.
Qed.
Lemma conv_nil b k i : conv [] b k i = 0.
Proof. induction i as [|i IH]; cbn [conv]; rewrite ?IH; rewrite !nth_nil0; ring. Qed.
Theorem mulz_coef a b k : nth k (mulz a b) 0 = conv a b k k.
Proof.
  revert k; induction a as [|x a IH]; intros k.
  - cbn [mulz]. rewrite nth_nil0, conv_nil. reflexivity.
  - rewrite mulz_cons, nth_addz, nth_scalez. destruct k as [|k].
    + cbn [nth conv]. ring.
    + cbn [nth]. rewrite IH. rewrite conv_cons by lia. reflexivity.
Qed.

Theorem mul_comm p a b : prime p -> wf p a -> wf p b -> mul p a b = mul p b a.
Proof.
  intros Pp Wa Wb. pose proof (prime_gt1 p Pp) as Hp.
  apply (canon_peq p); [lia|apply mul_wf; assumption|apply mul_wf; assumption|].
  eapply peq_trans; [apply mul_peq; lia|]. apply peq_sym.
  eapply peq_trans; [apply mul_peq; lia|].
  apply peq_evalZ. intros x. rewrite !evalZ_mulz. ring.
Qed.
Theorem mul_assoc p a b c : prime p -> wf p a -> wf p b -> wf p c ->
  mul p (mul p a b) c = mul p a (mul p b c).
Proof.
  intros Pp Wa Wb Wc. pose proof (prime_gt1 p Pp) as Hp.
  apply (canon_peq p); [lia|repeat apply mul_wf; assumption|repeat apply mul_wf; assumption|].
  eapply peq_trans; [apply mul_peq; lia|].
  eapply peq_trans; [apply peq_mulz; [apply mul_peq; lia|apply peq_refl]|].
  apply peq_sym.
  eapply peq_trans; [apply mul_peq; lia|].
  eapply peq_trans; [apply peq_mulz; [apply peq_refl|apply mul_peq; lia]|].
  apply peq_evalZ. intros x. rewrite !evalZ_mulz. ring.
Qed.
Theorem mul_add_distr_l p a b c : prime p -> wf p a -> wf p b -> wf p c ->
  mul p a (add p b c) = add p (mul p a b) (mul p a c).
Proof.
  intros Pp Wa Wb Wc. pose proof (prime_gt1 p Pp) as Hp.
  pose proof (add_wf p b c (wf_inr _ _ Wb) (wf_inr _ _ Wc)) as Wbc.
  apply (canon_peq p); [lia|apply mul_wf; assumption|apply add_wf; apply mul_inr; lia|].
  eapply peq_trans; [apply mul_peq; lia|].
  eapply peq_trans; [apply peq_mulz; [apply peq_refl|apply add_peq; [lia|exact (wf_inr _ _ Wb)|exact (wf_inr _ _ Wc)]]|].
  apply peq_sym.
  eapply peq_trans; [apply add_peq; [lia|apply mul_inr; lia|apply mul_inr; lia]|].
  eapply peq_trans; [apply peq_addz; apply mul_peq; lia|].
  apply peq_evalZ. intros x. rewrite !evalZ_addz, !evalZ_mulz, evalZ_addz. ring.
Qed.
Theorem mul_1_r p a : 1 < p -> wf p a -> mul p a [1] = a.
Proof.
  intros Hp Wa. apply (canon_peq p); [lia| |exact Wa|].
  - split; [apply mul_inr; lia|]. unfold mul. cbn [length].
    destruct (1 <? length a)%nat eqn:E.
    + 
      assert (Hn : a <> []) by (intros ->; cbn in E; discriminate).
      assert (Hm : mulz [1] a <> []).
      { pose proof (length_mulz [1] a ltac:(discriminate) Hn) as L. intros E'. rewrite E' in L.
        destruct a; [congruence|]. cbn in L. lia. }
      rewrite last_modp by exact Hm. rewrite last_mulz by (try discriminate; exact Hn).
      cbn [last]. pose proof (wf_last0 p a Wa Hn). rewrite Z.mul_1_l, Z.mod_small by lia. lia.
    + destruct a as [|x a'] eqn:Ea; [cbn; lia|]. rewrite <- Ea in *.
      assert (Hn : a <> []) by (subst; discriminate).
      assert (Hm : mulz a [1] <> []).
      { pose proof (length_mulz a [1] Hn ltac:(discriminate)) as L. intros E'. rewrite E' in L.
        subst a. cbn in L. lia. }
      rewrite last_modp by exact Hm. rewrite last_mulz by (try discriminate; exact Hn).
      cbn [last]. pose proof (wf_last0 p a Wa Hn). rewrite Z.mul_1_r, Z.mod_small by lia. lia.
  - eapply peq_trans; [apply mul_peq; lia|]. apply peq_evalZ. intros x. rewrite evalZ_mulz. cbn [evalZ]. ring.
Qed.
Theorem mul_0_r p a : mul p a [] = [].
Proof. unfold mul. cbn [length]. destruct (0 <? length a)%nat eqn:E; [reflexivity|].
  destruct a; [reflexivity|]. cbn in E. discriminate. Qed.

Lemma length_sqz a : a <> [] -> length (sqz a) = (2 * length a - 1)%nat.
Proof.
  induction a as [|x t IH]; intros H; [congruence|].
  destruct t as [|y t']; [reflexivity|].
  change (sqz (x :: y :: t')) with (x * x :: addz (scalez (2 * x) (y :: t')) (0 :: sqz (y :: t'))).
  cbn [length]. rewrite length_addz, length_scalez. cbn [length]. rewrite IH by discriminate.
  cbn [length]. lia.
Qed.
Theorem sq_eq_mul p a : 0 < p -> sq p a = mul p a a.
Proof.
  intros Hp. unfold sq, mul. rewrite Nat.ltb_irrefl. destruct a as [|x t] eqn:Ea; [reflexivity|]. rewrite <- Ea.
  assert (Hn : a <> []) by (subst; discriminate).
  apply nth_ext with (d := 0) (d' := 0).
  - unfold modp. rewrite !map_length, length_sqz, length_mulz by assumption. lia.
  - intros i _. rewrite !nth_modp.
    apply (peq_ceq p); [lia|]. apply peq_evalZ. intros z. rewrite evalZ_sqz, evalZ_mulz. reflexivity.
Qed.

(** (c) the division algorithm *)
Lemma Forall_firstn' {A} (P : A -> Prop) n (l : list A) : Forall P l -> Forall P (firstn n l).
Proof. intros H. revert n; induction H as [|x t Hx Ht IH]; intros [|n]; cbn [firstn]; constructor; auto. Qed.
Lemma Forall_skipn' {A} (P : A -> Prop) n (l : list A) : Forall P l -> Forall P (skipn n l).
Proof. intros H. revert n; induction H as [|x t Hx Ht IH]; intros [|n]; cbn [skipn]; auto. Qed.

Lemma row_sub_inr p qi r b : 0 < p -> inr p r -> inr p (row_sub p qi r b).
Proof.
  intros Hp H. revert b; induction H as [|x t Hx Ht IH]; intros [|y b]; cbn [row_sub]; try constructor; auto.
  apply Z.mod_pos_bound; lia.
Qed.
Lemma row_sub_nth p qi r b j : length r = length b ->
  nth j (row_sub p qi r b) 0 = (nth j r 0 - qi * nth j b 0) mod p.
Proof.
  revert b j; induction r as [|x r IH]; intros [|y b] j L; cbn [length] in L; try discriminate.
  - cbn [row_sub]. rewrite !nth_nil0. rewrite Z.mul_0_r. reflexivity.
  - cbn [row_sub]. destruct j as [|j]; cbn [nth]; [reflexivity|]. apply IH. lia.
Qed.
Lemma row_sub_peq p qi r b : 0 < p -> length r = length b ->
  peq p (row_sub p qi r b) (subz r (scalez qi b)).
Proof.
  intros Hp L. apply ceq_peq; [lia|]. intros j.
  rewrite row_sub_nth, nth_subz, nth_scalez by exact L. apply Z.mod_mod. lia.
Qed.
Lemma strip_drops_top l : l <> [] -> last l 0 = 0 -> (length (strip l) < length l)%nat.
Proof.
  induction l as [|x t IH]; intros Hn Hl; [congruence|].
  destruct t as [|y t'].
  - cbn in Hl. subst x. cbn. lia.
  - rewrite last_cons_nonnil in Hl by discriminate.
    specialize (IH ltac:(discriminate) Hl).
    rewrite strip_cons. destruct (strip (y :: t')) as [|z s]; [destruct (x =? 0)|]; cbn [length] in *; lia.
Qed.

Section DivStep.
Variables (p : Z) (b : list Z) (b1 : Z).
Hypothesis Hp : 1 < p.
Hypothesis Hb : inr p b.
Hypothesis Hbn : b <> [].
Hypothesis Hb1 : (last b 0 * b1) mod p = 1.

Let full (qi : Z) (i : nat) (r : list Z) := firstn i r ++ row_sub p qi (skipn i r) b.

Lemma full_peq qi i r : length r = (i + length b)%nat ->
  peq p (full qi i r) (subz r (repeat 0 i ++ scalez qi b)).
Proof.
  intros L. unfold full.
  assert (Ls : length (skipn i r) = length b) by (rewrite skipn_length; lia).
  destruct (row_sub_peq p qi (skipn i r) b ltac:(lia) Ls) as [k Hk].
  exists (repeat 0 i ++ k). intros x.
  rewrite evalZ_app, Hk, evalZ_subz, evalZ_scalez.
  rewrite evalZ_subz, !evalZ_app, !evalZ_repeat0, evalZ_scalez, !repeat_length.
  rewrite firstn_length_le by lia.
  rewrite <- (firstn_skipn i r) at 3. rewrite evalZ_app, firstn_length_le by lia. ring.
Qed.
Lemma full_inr qi i r : inr p r -> inr p (full qi i r).
Proof.
  intros H. unfold full. apply Forall_app. split; [apply Forall_firstn', H|].
  apply row_sub_inr; [lia|apply Forall_skipn', H].
Qed.
Lemma full_length qi i r : length r = (i + length b)%nat -> length (full qi i r) = length r.
Proof.
  intros L. unfold full. rewrite app_length, firstn_length_le by lia.
  assert (forall r' b', length (row_sub p qi r' b') = length r') as LR.
  { induction r' as [|x r' IH]; intros [|y b']; cbn [row_sub length]; auto. }
  rewrite LR, skipn_length. lia.
Qed.
Lemma full_top i r : inr p r -> length r = (i + length b)%nat ->
  last (full ((last r 0 * b1) mod p) i r) 0 = 0.
Proof.
  intros Hr L. set (qi := (last r 0 * b1) mod p).
  assert (Lb : (length b >= 1)%nat) by (destruct b; [congruence|cbn; lia]).
  rewrite last_nth0, full_length by exact L.
  pose proof (peq_ceq p _ _ ltac:(lia) (full_peq qi i r L) (length r - 1)%nat) as C.
  rewrite (nth_mod_small p _ _ (full_inr qi i r Hr)) in C. rewrite C.
  rewrite nth_subz. rewrite app_nth2 by (rewrite repeat_length; lia).
  rewrite repeat_length, nth_scalez.
  replace (length r - 1 - i)%nat with (length b - 1)%nat by lia.
  rewrite <- !last_nth0.
  assert (E : (qi * last b 0) mod p = last r 0 mod p).
  { unfold qi. rewrite Z.mul_mod_idemp_l by lia.
    replace (last r 0 * b1 * last b 0) with (last r 0 * (last b 0 * b1)) by ring.
    rewrite <- Z.mul_mod_idemp_r, Hb1, Z.mul_1_r by lia. reflexivity. }
  rewrite Zminus_mod, E, Z.sub_diag. apply Zmod_0_l.
Qed.

Lemma elim_row_spec i r : inr p r -> length r = (i + length b)%nat ->
  let r1 := elim_row p ((last r 0 * b1) mod p) i r b in
  inr p r1 /\ last r1 1 <> 0 /\ (length r1 < i + length b)%nat /\
  peq p r1 (subz r (repeat 0 i ++ scalez ((last r 0 * b1) mod p) b)).
Proof.
  intros Hr L. cbv zeta. unfold elim_row. fold (full ((last r 0 * b1) mod p) i r).
  repeat split.
  - apply strip_Forall, full_inr, Hr.
  - apply strip_last.
  - rewrite <- L, <- (full_length ((last r 0 * b1) mod p) i r L). apply strip_drops_top.
    + intros E. apply (f_equal (@length Z)) in E. rewrite full_length in E by exact L.
      destruct b; [congruence|]. cbn in E, L. lia.
    + apply full_top; assumption.
  - eapply peq_trans; [apply peq_strip|]. apply full_peq, L.
Qed.

Lemma divmod_loop_spec : forall cnt q r, inr p r -> last r 1 <> 0 -> (length r < cnt + length b)%nat ->
  exists q0, fst (divmod_loop p b b1 cnt q r) = q0 ++ q /\ length q0 = cnt /\ inr p q0 /\
    inr p (snd (divmod_loop p b b1 cnt q r)) /\ last (snd (divmod_loop p b b1 cnt q r)) 1 <> 0 /\
    (length (snd (divmod_loop p b b1 cnt q r)) < length b)%nat /\
    peq p (addz (mulz q0 b) (snd (divmod_loop p b b1 cnt q r))) r.
Proof.
  induction cnt as [|i IH]; intros q r Hr Lr Hl.
  - exists []. cbn [divmod_loop fst snd app length mulz]. rewrite addz_nil_l.
    repeat split; auto using peq_refl.
  - cbn [divmod_loop]. destruct (i + length b <=? length r)%nat eqn:E.
    + apply Nat.leb_le in E. assert (L : length r = (i + length b)%nat) by lia.
      set (qi := (last r 0 * b1) mod p).
      destruct (elim_row_spec i r Hr L) as (H1 & H2 & H3 & H4). fold qi in H1, H2, H3, H4.
      destruct (IH (qi :: q) _ H1 H2 H3) as (q0 & F & Lq & Iq & Ir & Lr' & Ll & P).
      exists (q0 ++ [qi]). rewrite F, <- app_assoc. cbn [app].
      repeat split; auto.
      * rewrite app_length. cbn [length]. lia.
      * apply Forall_app. split; [exact Iq|]. constructor; [|constructor].
        unfold qi. apply Z.mod_pos_bound. lia.
      * destruct P as [k1 K1]. destruct H4 as [k2 K2]. exists (addz k1 k2). intros x.
        specialize (K1 x). specialize (K2 x).
        rewrite evalZ_addz, evalZ_mulz in K1.
        rewrite evalZ_subz, evalZ_app, evalZ_repeat0, repeat_length, evalZ_scalez in K2.
        rewrite !evalZ_addz, evalZ_mulz, evalZ_app, Lq. cbn [evalZ].
        set (B := evalZ b x) in *. set (Xi := x ^ Z.of_nat i) in *.
        set (Q := evalZ q0 x) in *. lia.
    + apply Nat.leb_gt in E.
      destruct (IH (0 :: q) r Hr Lr E) as (q0 & F & Lq & Iq & Ir & Lr' & Ll & P).
      exists (q0 ++ [0]). rewrite F, <- app_assoc. cbn [app].
      repeat split; auto.
      * rewrite app_length. cbn [length]. lia.
      * apply Forall_app. split; [exact Iq|]. constructor; [lia|constructor].
      * destruct P as [k1 K1]. exists k1. intros x. specialize (K1 x).
        rewrite evalZ_addz, evalZ_mulz in K1.
        rewrite !evalZ_addz, evalZ_mulz, evalZ_app. cbn [evalZ]. lia.
Qed.
End DivStep.

Lemma mod_loop_eq p b b1 : forall cnt q r, mod_loop p b b1 cnt r = snd (divmod_loop p b b1 cnt q r).
Proof.
  induction cnt as [|i IH]; intros q r; [reflexivity|].
  cbn [mod_loop divmod_loop]. destruct (i + length b <=? length r)%nat; apply IH.
Qed.
Theorem mod_nz_eq p a b : mod_nz p a b = snd (divmod_nz p a b).
Proof.
  unfold mod_nz, divmod_nz. destruct (length a <? length b)%nat; [reflexivity|]. apply mod_loop_eq.
Qed.

Lemma wf_last_inv p b : prime p -> wf p b -> b <> [] -> (last b 0 * inv_raw p (last b 0)) mod p = 1.
Proof.
  intros Pp Wb Hn. pose proof (wf_last0 p b Wb Hn) as R.
  apply inv_raw_spec; [exact Pp|]. rewrite Z.mod_small by lia. lia.
Qed.

Theorem divmod_nz_spec p a b : prime p -> wf p a -> wf p b -> b <> [] ->
  inr p (fst (divmod_nz p a b)) /\ wf p (snd (divmod_nz p a b)) /\
  (length (snd (divmod_nz p a b)) < length b)%nat /\
  peq p (addz (mulz (fst (divmod_nz p a b)) b) (snd (divmod_nz p a b))) a.
Proof.
  intros Pp [Ia La] Wb Hn. pose proof (prime_gt1 p Pp) as Hp.
  unfold divmod_nz. destruct (length a <? length b)%nat eqn:E.
  - apply Nat.ltb_lt in E. cbn [fst snd mulz]. rewrite addz_nil_l.
    repeat split; auto using peq_refl.
  - apply Nat.ltb_ge in E.
    destruct (divmod_loop_spec p b (inv_raw p (last b 0)) Hp (wf_inr _ _ Wb) Hn (wf_last_inv p b Pp Wb Hn)
                (S (length a - length b)) [] a Ia La ltac:(lia)) as (q0 & F & Lq & Iq & Ir & Lr & Ll & P).
    rewrite app_nil_r in F. rewrite F. repeat split; auto.
Qed.

(** divmod(a, b) = (q, r) with a = q*b + r and deg r < deg b, as an equation between normal forms *)
Theorem divmod_spec p a b q r : prime p -> wf p a -> wf p b -> divmod p a b = Ok (q, r) ->
  a = add p (mul p q b) r /\ (length r < length b)%nat /\ wf p r /\ inr p q.
Proof.
  intros Pp Wa Wb H. pose proof (prime_gt1 p Pp) as Hp. unfold divmod in H.
  destruct b as [|y b'] eqn:Eb; [discriminate|]. rewrite <- Eb in *.
  assert (Hn : b <> []) by (subst; discriminate).
  inversion H as [H']. clear H.
  destruct (divmod_nz_spec p a b Pp Wa Wb Hn) as (Iq & Wr & Ll & P).
  rewrite H' in *. cbn [fst snd] in *.
  repeat split; auto; try apply Wr.
  apply (canon_peq p); [lia|exact Wa|apply add_wf; [apply mul_inr; lia|exact (wf_inr _ _ Wr)]|].
  apply peq_sym. eapply peq_trans; [apply add_peq; [lia|apply mul_inr; lia|exact (wf_inr _ _ Wr)]|].
  eapply peq_trans; [apply peq_addz; [apply mul_peq; lia|apply peq_refl]|]. exact P.
Qed.
Theorem divmod_zero p a : divmod p a [] = ZeroDiv.
Proof. reflexivity. Qed.
Theorem pmod_eq_divmod p a b : pmod p a b = bind (divmod p a b) (fun qr => Ok (snd qr)).
Proof. unfold pmod, divmod. destruct b; [reflexivity|]. cbn [bind]. rewrite mod_nz_eq. reflexivity. Qed.

(** (e) extended Euclid: the Bezout invariant through the loop *)
Lemma inv_raw_range p a : 0 < p -> 0 <= inv_raw p a < p.
Proof.
  intros Hp. unfold inv_raw. destruct (egcd (egcd_fuel p) p (a mod p)) as [[g u] v].
  apply Z.mod_pos_bound. lia.
Qed.
Lemma nth_scale_mod p c s i : nth i (scale_mod p c s) 0 = (nth i s 0 * c) mod p.
Proof.
  unfold scale_mod. revert i; induction s as [|x s IH]; intros i.
  - cbn [map]. rewrite !nth_nil0. reflexivity.
  - destruct i; cbn [map nth]; [reflexivity|apply IH].
Qed.
Lemma scale_mod_inr p c s : 0 < p -> inr p (scale_mod p c s).
Proof.
  intros Hp. unfold scale_mod. induction s; cbn [map]; constructor; auto. apply Z.mod_pos_bound; lia.
Qed.
Lemma scale_mod_peq p c s : 0 < p -> peq p (scale_mod p c s) (scalez c s).
Proof.
  intros Hp. apply ceq_peq; [lia|]. intros i. rewrite nth_scale_mod, nth_scalez, Z.mod_mod by lia.
  f_equal. ring.
Qed.
Lemma nth_app_single (l : list Z) c i :
  nth i (l ++ [c]) 0 = if (i <? length l)%nat then nth i l 0 else if (i =? length l)%nat then c else 0.
Proof.
  destruct (i <? length l)%nat eqn:E1.
  - apply Nat.ltb_lt in E1. apply app_nth1, E1.
  - apply Nat.ltb_ge in E1. rewrite app_nth2 by lia. destruct (i =? length l)%nat eqn:E2.
    + apply Nat.eqb_eq in E2. subst i. rewrite Nat.sub_diag. reflexivity.
    + apply Nat.eqb_neq in E2. destruct (i - length l)%nat as [|[|k]] eqn:E3; try lia; reflexivity.
Qed.
Lemma last0_eq_last1 (a : list Z) : a <> [] -> last a 0 = last a 1.
Proof.
  induction a as [|x t IH]; [congruence|]. intros _. destruct t as [|y t']; [reflexivity|].
  rewrite !last_cons_nonnil by discriminate. apply IH. discriminate.
Qed.

(** monic: for g <> [] with leading coefficient lc, monic g = lc^-1 * g *)
Lemma monic_pinv_nil p : monic_pinv p [] = ([], 0).
Proof. reflexivity. Qed.
Lemma monic_pinv_one p g : g <> [] -> last g 0 = 1 -> monic_pinv p g = (g, 1).
Proof. intros Hn H. unfold monic_pinv. destruct g; [congruence|]. rewrite H. reflexivity. Qed.
Lemma monic_pinv_scale p g : g <> [] -> last g 0 <> 1 ->
  monic_pinv p g = (scale_mod p (inv_raw p (last g 0)) (removelast g) ++ [1], inv_raw p (last g 0)).
Proof.
  intros Hn H. unfold monic_pinv. destruct g as [|x t]; [congruence|].
  destruct (Z.eqb_spec (last (x :: t) 0) 1); [contradiction|]. reflexivity.
Qed.
Lemma monic_scale_peq p g : prime p -> wf p g -> g <> [] -> last g 0 <> 1 ->
  let c := inv_raw p (last g 0) in
  peq p (scale_mod p c (removelast g) ++ [1]) (scalez c g) /\ wf p (scale_mod p c (removelast g) ++ [1]) /\ 2 <= c.
Proof.
  intros Pp Wg Hn H1 c. pose proof (prime_gt1 p Pp) as Hp.
  pose proof (wf_last_inv p g Pp Wg Hn) as Hi. fold c in Hi.
  pose proof (inv_raw_range p (last g 0) ltac:(lia)) as Rc. fold c in Rc.
  pose proof (wf_last0 p g Wg Hn) as Rl.
  assert (Hc2 : 2 <= c).
  { destruct (Z.eq_dec c 0) as [E|E]; [rewrite E, Z.mul_0_r, Zmod_0_l in Hi; lia|].
    destruct (Z.eq_dec c 1) as [E1|E1]; [rewrite E1, Z.mul_1_r, Z.mod_small in Hi by lia; lia|]. lia. }
  repeat split; [| | |exact Hc2].
  - apply ceq_peq; [lia|]. intros i.
    rewrite (app_removelast_last 0 Hn) at 2.
    unfold scalez. rewrite map_app. cbn [map]. fold (scalez c (removelast g)).
    rewrite !nth_app_single. unfold scale_mod, scalez. rewrite !map_length.
    destruct (i <? length (removelast g))%nat.
    + fold (scale_mod p c (removelast g)). fold (scalez c (removelast g)).
      rewrite nth_scale_mod, nth_scalez, Z.mod_mod by lia. f_equal. ring.
    + destruct (i =? length (removelast g))%nat; [|reflexivity].
      rewrite (Z.mul_comm c), Hi. apply Z.mod_1_l. lia.
  - apply Forall_app. split; [apply scale_mod_inr; lia|constructor; [lia|constructor]].
  - rewrite last_last. lia.
Qed.

Lemma sub_mul_peq p s q s1 : 0 < p -> inr p s ->
  peq p (sub p s (mul p q s1)) (subz s (mulz q s1)).
Proof.
  intros Hp Hs. eapply peq_trans; [apply sub_peq; [exact Hp|exact Hs|apply mul_inr, Hp]|].
  apply peq_subz; [apply peq_refl|apply mul_peq, Hp].
Qed.

Section Euclid.
Variables (p : Z) (a0 b0 : list Z).
Hypothesis Pp : prime p.

Definition lin (s t : list Z) : list Z := addz (mulz s a0) (mulz t b0).

Lemma gcdext_loop_spec : forall fuel a b s s1 t t1 g s' t',
  wf p a -> wf p b -> wf p s -> wf p s1 -> wf p t -> wf p t1 ->
  peq p (lin s t) a -> peq p (lin s1 t1) b ->
  gcdext_loop p fuel a b s s1 t t1 = Some (g, s', t') ->
  wf p g /\ wf p s' /\ wf p t' /\ peq p (lin s' t') g.
Proof.
  pose proof (prime_gt1 p Pp) as Hp.
  induction fuel as [|f IH]; intros a b s s1 t t1 g s' t' Wa Wb Ws Ws1 Wt Wt1 P1 P2 H; [discriminate|].
  cbn [gcdext_loop] in H. destruct b as [|y b'] eqn:Eb.
  - inversion H; subst. auto.
  - rewrite <- Eb in *. assert (Hn : b <> []) by (subst; discriminate).
    destruct (divmod_nz p a b) as [q r] eqn:Ed.
    destruct (divmod_nz_spec p a b Pp Wa Wb Hn) as (Iq & Wr & Ll & P). rewrite Ed in Iq, Wr, Ll, P.
    cbn [fst snd] in Iq, Wr, Ll, P.
    apply (IH b r s1 (sub p s (mul p q s1)) t1 (sub p t (mul p q t1))) in H; auto.
    + apply sub_wf; [exact (wf_inr _ _ Ws)|apply mul_inr; lia].
    + apply sub_wf; [exact (wf_inr _ _ Wt)|apply mul_inr; lia].
    + (* s1' a0 + t1' b0 = (s a0 + t b0) - q (s1 a0 + t1 b0) = a - q b = r *)
      unfold lin in *.
      eapply peq_trans.
      { apply peq_addz; (apply peq_mulz; [apply sub_mul_peq; [lia|]|apply peq_refl]).
        - exact (wf_inr _ _ Ws). - exact (wf_inr _ _ Wt). }
      eapply peq_trans.
      { apply (peq_evalZ p _ (subz (addz (mulz s a0) (mulz t b0)) (mulz q (addz (mulz s1 a0) (mulz t1 b0))))).
        intros x. rewrite ?evalZ_addz, ?evalZ_subz, ?evalZ_mulz, ?evalZ_addz, ?evalZ_subz, ?evalZ_mulz.
        rewrite ?evalZ_addz, ?evalZ_mulz. ring. }
      eapply peq_trans; [apply peq_subz; [exact P1|apply peq_mulz; [apply peq_refl|exact P2]]|].
      eapply peq_trans; [apply peq_subz; [apply peq_sym, P|apply peq_refl]|].
      apply peq_evalZ. intros x. rewrite evalZ_subz, evalZ_addz, !evalZ_mulz. ring.
Qed.

Lemma gcdext_loop_fuel : forall fuel a b s s1 t t1, wf p a -> wf p b -> (length b < fuel)%nat ->
  gcdext_loop p fuel a b s s1 t t1 <> None.
Proof.
  induction fuel as [|f IH]; intros a b s s1 t t1 Wa Wb L; [lia|].
  cbn [gcdext_loop]. destruct b as [|y b'] eqn:Eb; [discriminate|]. rewrite <- Eb in *.
  assert (Hn : b <> []) by (subst; discriminate).
  destruct (divmod_nz p a b) as [q r] eqn:Ed.
  destruct (divmod_nz_spec p a b Pp Wa Wb Hn) as (Iq & Wr & Ll & P). rewrite Ed in Wr, Ll. cbn [snd] in Wr, Ll.
  apply IH; auto. lia.
Qed.
End Euclid.

Lemma wf_one p : 1 < p -> wf p [1].
Proof. intros Hp. split; [constructor; [lia|constructor]|cbn; lia]. Qed.

Theorem gcdext_bezout p a b g s t : prime p -> wf p a -> wf p b -> gcdext p a b = Ok (g, s, t) ->
  add p (mul p s a) (mul p t b) = g /\ wf p g /\ wf p s /\ wf p t /\ (g = [] \/ last g 0 = 1).
Proof.
  intros Pp Wa Wb H. pose proof (prime_gt1 p Pp) as Hp. unfold gcdext in H.
  destruct (gcdext_loop p (S (length b)) a b [1] [] [] [1]) as [[[g0 s0] t0]|] eqn:El; [|discriminate].
  apply (gcdext_loop_spec p a b Pp) in El; auto using wf_nil, wf_one.
  2:{ unfold lin. apply peq_evalZ. intros x. rewrite evalZ_addz, !evalZ_mulz. cbn [evalZ]. ring. }
  2:{ unfold lin. apply peq_evalZ. intros x. rewrite evalZ_addz, !evalZ_mulz. cbn [evalZ]. ring. }
  destruct El as (Wg0 & Ws0 & Wt0 & P). unfold lin in P.
  assert (Fin : forall g' s' t', wf p g' -> wf p s' -> wf p t' -> peq p (addz (mulz s' a) (mulz t' b)) g' ->
                add p (mul p s' a) (mul p t' b) = g').
  { intros g' s' t' Wg' Ws' Wt' P'. apply (canon_peq p); [lia|apply add_wf; apply mul_inr; lia|exact Wg'|].
    eapply peq_trans; [apply add_peq; [lia|apply mul_inr; lia|apply mul_inr; lia]|].
    eapply peq_trans; [apply peq_addz; apply mul_peq; lia|]. exact P'. }
  destruct g0 as [|x g1] eqn:Eg.
  - rewrite monic_pinv_nil in H. cbn in H. inversion H; subst.
    split; [apply Fin; auto|split; [auto|split; [auto|split; [auto|left; reflexivity]]]].
  - rewrite <- Eg in *. assert (Hn : g0 <> []) by (subst; discriminate).
    destruct (Z.eq_dec (last g0 0) 1) as [E1|E1].
    + rewrite monic_pinv_one in H by assumption. cbn in H. inversion H; subst g s t.
      split; [apply Fin; auto|split; [auto|split; [auto|split; [auto|right; exact E1]]]].
    + rewrite monic_pinv_scale in H by assumption.
      destruct (monic_scale_peq p g0 Pp Wg0 Hn E1) as (Pm & Wm & Hc).
      set (c := inv_raw p (last g0 0)) in *.
      destruct (Z.geb_spec c 2) as [_|?]; [|lia]. inversion H; subst g s t. clear H.
      assert (Wsc : forall u, wf p u -> wf p (scale_mod p c u)).
      { intros u [Iu Lu]. split; [apply scale_mod_inr; lia|].
        destruct u as [|z u'] eqn:Eu; [cbn; lia|]. rewrite <- Eu in *.
        assert (Hun : u <> []) by (subst; discriminate).
        assert (Hl : last (scale_mod p c u) 1 = (last u 0 * c) mod p).
        { clear -Hun. induction u as [|z u IH]; [congruence|]. destruct u as [|w u']; [reflexivity|].
          change (scale_mod p c (z :: w :: u')) with ((z * c) mod p :: scale_mod p c (w :: u')).
          rewrite !last_cons_nonnil by (cbn; discriminate). apply IH. discriminate. }
        rewrite Hl. pose proof (wf_last0 p u (conj Iu Lu) Hun) as Ru.
        pose proof (inv_raw_range p (last g0 0) ltac:(lia)) as Rc. fold c in Rc.
        intros E. apply Z.mod_divide in E; [|lia]. apply prime_mult in E; [|exact Pp].
        destruct E as [E|E]; apply Z.divide_pos_le in E; lia. }
      split; [|split; [exact Wm|split; [apply Wsc, Ws0|split; [apply Wsc, Wt0|right; apply last_last]]]].
      apply Fin; auto.
      eapply peq_trans; [apply peq_addz; (apply peq_mulz; [apply scale_mod_peq; lia|apply peq_refl])|].
      apply peq_sym. eapply peq_trans; [exact Pm|]. eapply peq_trans; [apply peq_scalez, peq_sym, P|].
      apply peq_evalZ. intros z. rewrite evalZ_scalez, !evalZ_addz, !evalZ_mulz, !evalZ_scalez. ring.
Qed.
Theorem gcdext_total p a b : prime p -> wf p a -> wf p b -> exists g s t, gcdext p a b = Ok (g, s, t).
Proof.
  intros Pp Wa Wb. unfold gcdext.
  pose proof (gcdext_loop_fuel p Pp (S (length b)) a b [1] [] [] [1] Wa Wb ltac:(lia)) as F.
  destruct (gcdext_loop p (S (length b)) a b [1] [] [] [1]) as [[[g0 s0] t0]|]; [|congruence].
  destruct (monic_pinv p g0) as [g' a1]. destruct (a1 >=? 2); eauto.
Qed.

(** powmod with exponent n >= 1 and a nonzero modulus returns a reduced normal form *)
Lemma pmod_reduced p x b r : prime p -> wf p x -> wf p b -> b <> [] -> pmod p x b = Ok r ->
  wf p r /\ (length r < length b)%nat.
Proof.
  intros Pp Wx Wb Hn H. unfold pmod in H. destruct b as [|y b'] eqn:Eb; [congruence|]. rewrite <- Eb in *.
  inversion H as [H']. rewrite mod_nz_eq.
  destruct (divmod_nz_spec p x b Pp Wx Wb Hn) as (_ & Wr & Ll & _). split; assumption.
Qed.
Lemma sq_wf p a : prime p -> wf p a -> wf p (sq p a).
Proof. intros Pp Wa. pose proof (prime_gt1 p Pp). rewrite sq_eq_mul by lia. apply mul_wf; assumption. Qed.
Lemma powmod_pos_reduced p a b : prime p -> wf p a -> wf p b -> b <> [] -> (length a < length b)%nat ->
  forall n r, powmod_pos p a (Some b) n = Ok r -> wf p r /\ (length r < length b)%nat.
Proof.
  intros Pp Wa Wb Hn La. induction n as [n IH|n IH|]; intros r H; cbn [powmod_pos] in H.
  - destruct (powmod_pos p a (Some b) n) as [x| | |]; cbn [bind] in H; try discriminate.
    destruct (IH x eq_refl) as [Wx _]. unfold omod in H.
    destruct (pmod p (sq p x) b) as [y| | |] eqn:E1; cbn [bind] in H; try discriminate.
    destruct (pmod_reduced p _ b y Pp (sq_wf p x Pp Wx) Wb Hn E1) as [Wy _].
    apply (pmod_reduced p (mul p y a) b r Pp); auto. apply mul_wf; assumption.
  - destruct (powmod_pos p a (Some b) n) as [x| | |]; cbn [bind] in H; try discriminate.
    destruct (IH x eq_refl) as [Wx _]. unfold omod in H.
    apply (pmod_reduced p (sq p x) b r Pp); auto. apply sq_wf; assumption.
  - inversion H; subst. split; assumption.
Qed.
Theorem powmod_reduced p a n b r : prime p -> wf p a -> wf p b -> b <> [] -> 1 <= n ->
  powmod p a n (Some b) = Ok r -> wf p r /\ (length r < length b)%nat.
Proof.
  intros Pp Wa Wb Hn H1 H. unfold powmod in H.
  destruct (Z.eqb_spec n 0); [lia|]. destruct (Z.ltb_spec n 0); [lia|].
  unfold omod in H. destruct (pmod p a b) as [ar| | |] eqn:E; cbn [bind] in H; try discriminate.
  destruct (pmod_reduced p a b ar Pp Wa Wb Hn E) as [War Lar].
  apply (powmod_pos_reduced p ar b Pp War Wb Hn Lar _ _ H).
Qed.
Theorem powmod_zero_modulus p a n : 1 <= n -> powmod p a n (Some []) = ZeroDiv.
Proof. intros H. unfold powmod. destruct (Z.eqb_spec n 0); [lia|]. destruct (Z.ltb_spec n 0); [lia|]. reflexivity. Qed.

(** negative exponents, as coded: invert first, then the positive power *)
Theorem powmod_neg_eq p a n b : 1 <= n ->
  powmod p a (- n) (Some b) = bind (invert p a b) (fun a' => powmod p a' n (Some b)).
Proof.
  intros H. unfold powmod.
  destruct (Z.eqb_spec (- n) 0); [lia|]. destruct (Z.ltb_spec (- n) 0); [|lia].
  destruct (Z.eqb_spec n 0); [lia|]. destruct (Z.ltb_spec n 0); [lia|].
  rewrite Z.opp_involutive. reflexivity.
Qed.
Theorem powmod_neg_no_modulus p a n : n < 0 -> powmod p a n None = ValueErr.
Proof. intros H. unfold powmod. destruct (Z.eqb_spec n 0); [lia|]. destruct (Z.ltb_spec n 0); [reflexivity|lia]. Qed.

(** ---- invert: correctness (Bezout form) and totality ---- *)
(** invert is the gcdext loop with the t-cofactor dropped *)
Lemma invert_loop_gcdext p : forall fuel a b s s1 t t1,
  invert_loop p fuel a b s s1 =
  match gcdext_loop p fuel a b s s1 t t1 with Some (g, s', _) => Some (g, s') | None => None end.
Proof.
  induction fuel as [|f IH]; intros a b s s1 t t1; [reflexivity|].
  cbn [invert_loop gcdext_loop]. destruct b as [|y b']; [reflexivity|].
  destruct (divmod_nz p a (y :: b')) as [q r]. apply IH.
Qed.

Lemma peq_const_inv p g0 c : 0 < p -> (g0 * c) mod p = 1 -> peq p (scalez c [g0]) [1].
Proof.
  intros Hp H. exists [(c * g0) / p]. intros x. cbn [scalez map evalZ].
  pose proof (Z.div_mod (c * g0) p ltac:(lia)) as D. replace (g0 * c) with (c * g0) in H by ring. lia.
Qed.

Theorem invert_correct p a b r : prime p -> wf p a -> wf p b -> invert p a b = Ok r ->
  inr p r /\ exists t, inr p t /\ add p (mul p r a) (mul p t b) = [1].
Proof.
  intros Pp Wa Wb H. pose proof (prime_gt1 p Pp) as Hp. unfold invert in H.
  destruct b as [|y b'] eqn:Eb; [discriminate|]. rewrite <- Eb in *.
  rewrite (invert_loop_gcdext p _ a b [1] [] [] [1]) in H.
  destruct (gcdext_loop p (S (length b)) a b [1] [] [] [1]) as [[[g s] t0]|] eqn:El; [|discriminate].
  apply (gcdext_loop_spec p a b Pp) in El; auto using wf_nil, wf_one.
  2:{ unfold lin. apply peq_evalZ. intros x. rewrite evalZ_addz, !evalZ_mulz. cbn [evalZ]. ring. }
  2:{ unfold lin. apply peq_evalZ. intros x. rewrite evalZ_addz, !evalZ_mulz. cbn [evalZ]. ring. }
  destruct El as (Wg & Ws & Wt & P). unfold lin in P.
  destruct g as [|g0 [|g1 g']]; try discriminate. inversion H; subst r; clear H.
  set (c := inv_raw p g0).
  assert (Hg : (g0 * c) mod p = 1).
  { apply inv_raw_spec; [exact Pp|]. destruct Wg as [Ig Lg]. inversion Ig as [|? ? R _]; subst.
    cbn in Lg. rewrite Z.mod_small by lia. exact Lg. }
  split; [apply scale_mod_inr; lia|]. exists (scale_mod p c t0). split; [apply scale_mod_inr; lia|].
  apply (canon_peq p); [lia|apply add_wf; apply mul_inr; lia|apply wf_one; lia|].
  eapply peq_trans; [apply add_peq; [lia|apply mul_inr; lia|apply mul_inr; lia]|].
  eapply peq_trans; [apply peq_addz; apply mul_peq; lia|].
  eapply peq_trans; [apply peq_addz; (apply peq_mulz; [apply scale_mod_peq; lia|apply peq_refl])|].
  eapply peq_trans; [|apply (peq_const_inv p g0 c); [lia|exact Hg]].
  eapply peq_trans; [|apply peq_scalez, P].
  apply peq_evalZ. intros z. rewrite evalZ_scalez, !evalZ_addz, !evalZ_mulz, !evalZ_scalez. ring.
Qed.

(** never out of fuel; ZeroDivisionError exactly when the modulus is zero or gcd(a,b) is not a nonzero constant *)
Theorem invert_total p a b : prime p -> wf p a -> wf p b -> invert p a b <> NoFuel /\ invert p a b <> ValueErr.
Proof.
  intros Pp Wa Wb. unfold invert. destruct b as [|y b'] eqn:Eb; [split; discriminate|]. rewrite <- Eb in *.
  rewrite (invert_loop_gcdext p _ a b [1] [] [] [1]).
  pose proof (gcdext_loop_fuel p Pp (S (length b)) a b [1] [] [] [1] Wa Wb ltac:(lia)) as F.
  destruct (gcdext_loop p (S (length b)) a b [1] [] [] [1]) as [[[g s] t0]|]; [|congruence].
  destruct g as [|g0 [|g1 g']]; split; discriminate.
Qed.

(** negative powers: the result is the n-th power (mod b) of a genuine inverse of a modulo b *)
Theorem powmod_neg_correct p a n b r : prime p -> wf p a -> wf p b -> 1 <= n ->
  powmod p a (- n) (Some b) = Ok r ->
  exists a', invert p a b = Ok a' /\ powmod p a' n (Some b) = Ok r /\
             exists t, inr p t /\ add p (mul p a' a) (mul p t b) = [1].
Proof.
  intros Pp Wa Wb Hn H. rewrite powmod_neg_eq in H by exact Hn.
  destruct (invert p a b) as [a'| | |] eqn:Ei; cbn [bind] in H; try discriminate.
  exists a'. split; [reflexivity|]. split; [exact H|].
  destruct (invert_correct p a b a' Pp Wa Wb Ei) as [_ Ht]. exact Ht.
Qed.
