(** Value-level models of MPyC's composite secure-integer protocols (runtime.py): each protocol is a
    function on integers modulo the field prime [p] (field elements are their representatives in
    [0,p), as [FiniteFieldElement.value]) with the random values the protocol draws
    ([random_bits], [_random], [_randoms]) as explicit tape arguments.  The theorems show that the
    masked-opening arithmetic yields exactly the Python-integer result (mod p) for EVERY tape in
    the range the code draws from, under the no-wrap condition [2^(l+k+1) < p] guaranteed by
    [sectypes._pfield] (field primes have l+k+2 bits).  The share-level layer (Shamir, reshare,
    output, PRSS) is not part of this file: an opened value is the value. *)
From Coq Require Import ZArith List Lia Znumtheory Bool Zpow_facts Setoid Morphisms.
Require Import MPyC.Zp.
Import ListNotations.
Local Open Scope Z_scope.

(** * Modular-arithmetic toolkit *)

(** congruence modulo p as a setoid, so that nested reductions can be rewritten away *)
Definition cong (p a b : Z) : Prop := a mod p = b mod p.
#[global] Instance cong_equiv p : Equivalence (cong p).
Proof. split; unfold cong; congruence. Qed.
#[global] Instance cong_add p : Proper (cong p ==> cong p ==> cong p) Z.add.
Proof. intros a b H c d H'. unfold cong in *. rewrite (Zplus_mod a c), (Zplus_mod b d). congruence. Qed.
#[global] Instance cong_sub p : Proper (cong p ==> cong p ==> cong p) Z.sub.
Proof. intros a b H c d H'. unfold cong in *. rewrite (Zminus_mod a c), (Zminus_mod b d). congruence. Qed.
#[global] Instance cong_mul p : Proper (cong p ==> cong p ==> cong p) Z.mul.
Proof. intros a b H c d H'. unfold cong in *. rewrite (Zmult_mod a c), (Zmult_mod b d). congruence. Qed.
#[global] Instance cong_opp p : Proper (cong p ==> cong p) Z.opp.
Proof.
  intros a b H. unfold cong in *. replace (- a) with (0 - a) by ring. replace (- b) with (0 - b) by ring.
  rewrite (Zminus_mod 0 a), (Zminus_mod 0 b). congruence.
Qed.
Lemma cong_mod p a : cong p (a mod p) a.
Proof. unfold cong. apply Zmod_mod. Qed.
Lemma cong_intro p a b : cong p a b -> a mod p = b mod p.
Proof. unfold cong. auto. Qed.
Lemma cong_eq p a b : a = b -> cong p a b.
Proof. intros ->. reflexivity. Qed.
Lemma cong_diff p a b k : a - b = k * p -> cong p a b.
Proof.
  intros H. unfold cong. replace a with (b + k * p) by lia. apply Z_mod_plus_full.
Qed.
#[global] Typeclasses Opaque cong.
#[global] Opaque cong.

(** [modring]: prove [E1 mod p = E2 mod p] for ring expressions with nested [_ mod p] *)
Ltac modring :=
  match goal with |- _ mod ?p = _ mod ?p =>
    apply (cong_intro p); rewrite ?(cong_mod p); apply cong_eq; try ring end.
(** [modring_k K]: same, when the two sides differ by K * p *)
Ltac modring_k K :=
  match goal with |- _ mod ?p = _ mod ?p =>
    apply (cong_intro p); rewrite ?(cong_mod p); apply (cong_diff p _ _ K); try ring end.
(** [modsmall]: prove [E1 mod p = E2] when E2 is the reduced representative *)
Ltac modsmall E2 p := transitivity (E2 mod p); [modring | apply Z.mod_small].

Definition bit (b : Z) : Prop := b = 0 \/ b = 1.

(** little-endian value of a bit list: [for r_i in reversed(r_bits): r <<= 1; r += r_i.value] *)
Fixpoint bits_val (bs : list Z) : Z :=
  match bs with [] => 0 | b :: r => b + 2 * bits_val r end.

Lemma bits_val_range bs : Forall bit bs -> 0 <= bits_val bs < 2 ^ Z.of_nat (length bs).
Proof.
  induction 1 as [|b r Hb _ IH]; [simpl; lia|].
  cbn [bits_val length]. rewrite Nat2Z.inj_succ, Z.pow_succ_r by lia. destruct Hb; subst; lia.
Qed.

(** bits of a public value, little-endian, [n] of them: [(c >> i) & 1] *)
Fixpoint to_bits (n : nat) (c : Z) : list Z :=
  match n with O => [] | S n' => (c mod 2) :: to_bits n' (c / 2) end.

Lemma to_bits_length n : forall c, length (to_bits n c) = n.
Proof. induction n; intros; simpl; auto. Qed.

Lemma to_bits_bit n : forall c, Forall bit (to_bits n c).
Proof.
  induction n; intros c; simpl; constructor; auto.
  pose proof (Z.mod_pos_bound c 2 ltac:(lia)). unfold bit. lia.
Qed.

Lemma to_bits_val n : forall c, 0 <= c < 2 ^ Z.of_nat n -> bits_val (to_bits n c) = c.
Proof.
  induction n as [|n IH]; intros c Hc.
  - simpl in *. lia.
  - cbn [to_bits bits_val]. rewrite Nat2Z.inj_succ, Z.pow_succ_r in Hc by lia.
    rewrite IH.
    + pose proof (Z.div_mod c 2 ltac:(lia)). lia.
    + split; [apply Z.div_pos; lia|apply Z.div_lt_upper_bound; lia].
Qed.

(** ** exact division by 2^f in the field: [x >> f] = x * invert(2^f, p) *)
Definition fdiv2 (p f x : Z) : Z := (x * inv_raw p (2 ^ f)) mod p.

Lemma pow2_mod_nz p f : prime p -> 2 < p -> 0 <= f -> (2 ^ f) mod p <> 0.
Proof.
  intros Hp H2 Hf E. apply Zmod_divide in E; [|lia].
  pose proof (prime_power_prime p 2 f Hf Hp prime_2 E). lia.
Qed.

Lemma fdiv2_exact p f q : prime p -> 2 < p -> 0 <= f -> fdiv2 p f ((q * 2 ^ f) mod p) = q mod p.
Proof.
  intros Hp H2 Hf. unfold fdiv2. rewrite Zmult_mod_idemp_l.
  replace (q * 2 ^ f * inv_raw p (2 ^ f)) with (q * (2 ^ f * inv_raw p (2 ^ f))) by ring.
  rewrite <- Zmult_mod_idemp_r, inv_raw_spec by (auto using pow2_mod_nz). f_equal. ring.
Qed.

(** general field division by a public nonzero integer: [x / b] = x * invert(b, p) *)
Definition fdiv (p b x : Z) : Z := (x * inv_raw p b) mod p.

Lemma fdiv_exact p b q : prime p -> b mod p <> 0 -> fdiv p b ((q * b) mod p) = q mod p.
Proof.
  intros Hp Hb. unfold fdiv. rewrite Zmult_mod_idemp_l.
  replace (q * b * inv_raw p b) with (q * (b * inv_raw p b)) by ring.
  rewrite <- Zmult_mod_idemp_r, inv_raw_spec by auto. f_equal. ring.
Qed.

(** * trunc (runtime.trunc): probabilistic rounding of a / 2^f *)
(** tape: [rbits] = the f random bits (little-endian), [rdiv] = r_divf drawn below 2^(k+l-f) *)
Definition trunc_v (p l f x : Z) (rbits : list Z) (rdiv : Z) : Z :=
  let xr := (x + bits_val rbits) mod p in                          (* xr_modf = x + r_modf *)
  let c := (xr + (2 ^ (l - 1) + rdiv * 2 ^ f)) mod p in             (* opened value *)
  let c' := c mod 2 ^ f in
  fdiv2 p f ((xr - c') mod p).                                      (* (xr_modf - c) >> f *)

Theorem trunc_floor_or_ceil p l k f a rbits rdiv :
  prime p -> 0 <= k -> 0 <= f < l -> 2 ^ (l + k + 1) < p ->
  - 2 ^ (l - 1) <= a < 2 ^ (l - 1) ->
  Forall bit rbits -> Z.of_nat (length rbits) = f -> 0 <= rdiv < 2 ^ (k + l - f) ->
  trunc_v p l f (a mod p) rbits rdiv = (a / 2 ^ f) mod p \/
  trunc_v p l f (a mod p) rbits rdiv = (a / 2 ^ f + 1) mod p.
Proof.
  intros Hp Hk Hf Hpl Ha Hb Hlen Hr.
  pose proof (bits_val_range rbits Hb) as HR. rewrite Hlen in HR.
  set (R := bits_val rbits) in *. set (M := 2 ^ f) in *.
  assert (HM : 0 < M) by (apply Z.pow_pos_nonneg; lia).
  assert (E1 : 2 ^ (l - 1) = 2 ^ (l - 1 - f) * M).
  { unfold M. rewrite <- Z.pow_add_r by lia. f_equal. lia. }
  assert (E2 : 2 ^ (k + l) = 2 ^ (k + l - f) * M).
  { unfold M. rewrite <- Z.pow_add_r by lia. f_equal. lia. }
  assert (E3 : 2 ^ (l + k + 1) = 2 * 2 ^ (k + l)).
  { rewrite <- Z.pow_succ_r by lia. f_equal. lia. }
  assert (E4 : 2 ^ l = 2 * 2 ^ (l - 1)).
  { rewrite <- Z.pow_succ_r by lia. f_equal. lia. }
  assert (E5 : 2 ^ l <= 2 ^ (k + l)) by (apply Z.pow_le_mono_r; lia).
  assert (H2 : 2 < p).
  { assert (2 ^ 1 <= 2 ^ (l + k + 1)) by (apply Z.pow_le_mono_r; lia). simpl in *. lia. }
  assert (Hc : trunc_v p l f (a mod p) rbits rdiv = ((a + R) / M) mod p).
  { unfold trunc_v. fold R. fold M.
    assert (Ec : ((a mod p + R) mod p + (2 ^ (l - 1) + rdiv * M)) mod p
                 = a + R + 2 ^ (l - 1) + rdiv * M).
    { modsmall (a + R + 2 ^ (l - 1) + rdiv * M) p. nia. }
    rewrite Ec.
    replace (a + R + 2 ^ (l - 1) + rdiv * M) with (a + R + (2 ^ (l - 1 - f) + rdiv) * M) by lia.
    rewrite Z_mod_plus_full.
    replace (((a mod p + R) mod p - (a + R) mod M) mod p) with (((a + R) / M * M) mod p).
    - apply fdiv2_exact; auto; lia.
    - pose proof (Z.div_mod (a + R) M ltac:(lia)) as Hdm.
      replace ((a + R) / M * M) with (a + R - (a + R) mod M) by lia. modring. }
  rewrite Hc.
  assert (Hq : (a + R) / M = a / M \/ (a + R) / M = a / M + 1).
  { pose proof (Z.div_mod a M ltac:(lia)). pose proof (Z.mod_pos_bound a M HM).
    pose proof (Z.div_mod (a + R) M ltac:(lia)). pose proof (Z.mod_pos_bound (a + R) M HM).
    assert (-1 < (a + R) / M - a / M < 2) by nia. lia. }
  destruct Hq as [-> | ->]; auto.
Qed.

(** * lsb (runtime.lsb, a la [ST06]); tape: random bit [b], [r] drawn below 2^(l+k-1) *)
Definition lsb_v (p l x b r : Z) : Z :=
  let c := (x + (2 ^ l + 2 * r + b)) mod p in
  if Z.odd c then (1 - b) mod p else b.

Theorem lsb_correct p l k a b r :
  2 <= k -> 1 <= l -> 2 ^ (l + k + 1) < p -> - 2 ^ l <= a < 2 ^ l ->
  bit b -> 0 <= r < 2 ^ (l + k - 1) ->
  lsb_v p l (a mod p) b r = a mod 2.
Proof.
  intros Hk Hl Hpl Ha Hb Hr. unfold lsb_v.
  assert (E1 : 2 ^ (l + k + 1) = 4 * 2 ^ (l + k - 1)).
  { change 4 with (2 ^ 2). rewrite <- Z.pow_add_r by lia. f_equal. lia. }
  assert (E2 : 2 ^ (l + 1) <= 2 ^ (l + k - 1)) by (apply Z.pow_le_mono_r; lia).
  assert (E3 : 2 ^ (l + 1) = 2 * 2 ^ l) by (rewrite <- Z.pow_succ_r by lia; f_equal; lia).
  assert (E4 : 2 ^ l = 2 * 2 ^ (l - 1)) by (rewrite <- Z.pow_succ_r by lia; f_equal; lia).
  assert (0 < 2 ^ (l - 1)) by (apply Z.pow_pos_nonneg; lia).
  assert (Ec : (a mod p + (2 ^ l + 2 * r + b)) mod p = a + 2 ^ l + 2 * r + b).
  { modsmall (a + 2 ^ l + 2 * r + b) p. destruct Hb; subst; lia. }
  rewrite Ec.
  replace (a + 2 ^ l + 2 * r + b) with (a + b + 2 * (2 ^ (l - 1) + r)) by lia.
  rewrite Z.odd_add_mul_2.
  pose proof (Zmod_odd a) as Ho. pose proof (Zmod_odd (a + b)) as Hob.
  destruct Hb as [-> | ->].
  - rewrite Z.add_0_r in *. rewrite Ho. destruct (Z.odd a); [apply Z.mod_small; lia|reflexivity].
  - rewrite Z.odd_add. rewrite Ho. destruct (Z.odd a); simpl; [reflexivity|apply Z.mod_0_l; lia].
Qed.

(** * prod / all (runtime.prod, runtime.all): log-round pairing recursion *)
Definition lprod (xs : list Z) : Z := fold_right Z.mul 1 xs.

Fixpoint pairs (p : Z) (xs : list Z) : list Z :=       (* [x[i]*x[i+1] for i in range(0, n, 2)] *)
  match xs with a :: b :: r => (a * b) mod p :: pairs p r | _ => [] end.

(** one round: [h = [x[i]*x[i+1] for i in range(n%2, n, 2)]; x[n%2:] = h] *)
Definition prod_step (p : Z) (xs : list Z) : list Z :=
  if Nat.odd (length xs) then match xs with x0 :: r => x0 :: pairs p r | [] => [] end
  else pairs p xs.

Fixpoint prod_loop (p : Z) (fuel : nat) (xs : list Z) : list Z :=
  match fuel with
  | O => xs
  | S f => match xs with
           | _ :: _ :: _ => prod_loop p f (prod_step p xs)
           | _ => xs
           end
  end.

(** [prod(x)]: [x[0] = x[0] * start] with start = 1, then the rounds, result [x[0]] *)
Definition prod_v (p : Z) (xs : list Z) : Z :=
  match xs with
  | [] => 1
  | x0 :: r => nth 0 (prod_loop p (length xs) ((x0 * 1) mod p :: r)) 0
  end.

Lemma pairs_spec p : forall n xs, length xs = (2 * n)%nat ->
  lprod (pairs p xs) mod p = lprod xs mod p /\ length (pairs p xs) = n.
Proof.
  induction n as [|n IH]; intros xs Hl.
  - destruct xs; [simpl; auto|simpl in Hl; lia].
  - destruct xs as [|a [|b r]]; try (simpl in Hl; lia).
    destruct (IH r) as [IH1 IH2]; [simpl in Hl; lia|].
    cbn [pairs lprod fold_right length]. split; [|lia].
    fold (lprod (pairs p r)). fold (lprod r).
    transitivity ((a * b * (lprod (pairs p r) mod p)) mod p); [modring|].
    rewrite IH1. modring.
Qed.

Lemma odd_even_len (xs : list Z) :
  (Nat.odd (length xs) = true /\ exists n, length xs = S (2 * n)) \/
  (Nat.odd (length xs) = false /\ exists n, length xs = (2 * n)%nat).
Proof.
  destruct (Nat.odd (length xs)) eqn:E.
  - left. split; auto. apply Nat.odd_spec in E. destruct E as [n E]. exists n. lia.
  - right. split; auto. assert (Ev : Nat.even (length xs) = true).
    { rewrite <- Nat.negb_odd, E. reflexivity. }
    apply Nat.even_spec in Ev. destruct Ev as [n Ev]. exists n. lia.
Qed.

Lemma prod_step_spec p xs :
  lprod (prod_step p xs) mod p = lprod xs mod p /\
  (2 <= length xs -> length (prod_step p xs) < length xs /\ 1 <= length (prod_step p xs))%nat.
Proof.
  unfold prod_step. destruct (odd_even_len xs) as [[-> [n Hn]] | [-> [n Hn]]].
  - destruct xs as [|x0 r]; [simpl in Hn; lia|].
    destruct (pairs_spec p n r) as [H1 H2]; [simpl in Hn; lia|].
    cbn [lprod fold_right length]. fold (lprod (pairs p r)). fold (lprod r). split.
    + transitivity ((x0 * (lprod (pairs p r) mod p)) mod p); [modring|]. rewrite H1. modring.
    + simpl in Hn. lia.
  - destruct (pairs_spec p n xs Hn) as [H1 H2]. split; [exact H1|lia].
Qed.

Lemma prod_loop_spec p : forall fuel xs, (1 <= length xs <= S fuel)%nat ->
  exists y, prod_loop p fuel xs = [y] /\ y mod p = lprod xs mod p.
Proof.
  induction fuel as [|f IH]; intros xs Hl.
  - destruct xs as [|y [|? ?]]; simpl in Hl; try lia. exists y. simpl. split; auto. f_equal. ring.
  - destruct xs as [|y [|z r]]; [simpl in Hl; lia| |].
    + exists y. simpl. split; auto. f_equal. ring.
    + cbn [prod_loop]. destruct (prod_step_spec p (y :: z :: r)) as [H1 H2].
      destruct (IH (prod_step p (y :: z :: r))) as [w [Hw1 Hw2]].
      { specialize (H2 ltac:(simpl; lia)). lia. }
      exists w. split; auto. congruence.
Qed.

Theorem prod_correct p xs : 1 < p -> Forall (fun x => 0 <= x < p) xs -> prod_v p xs = lprod xs mod p.
Proof.
  intros Hp Hx. unfold prod_v. destruct xs as [|x0 r]; [simpl; symmetry; apply Z.mod_small; lia|].
  destruct (prod_loop_spec p (length (x0 :: r)) ((x0 * 1) mod p :: r)) as [y [Hy1 Hy2]].
  { simpl. lia. }
  rewrite Hy1. cbn [nth]. cbn [lprod fold_right] in *. fold (lprod r) in *.
  assert (Hy : 0 <= y < p).
  { (* every element produced by the loop is reduced; here: follow from y being x0 or a product mod p *)
    revert Hy1. generalize (length (x0 :: r)). intros fuel.
    assert (Hall : Forall (fun x => 0 <= x < p) ((x0 * 1) mod p :: r)).
    { constructor; [apply Z.mod_pos_bound; lia|]. inversion Hx; auto. }
    revert Hall. generalize ((x0 * 1) mod p :: r). clear - Hp.
    induction fuel as [|f IH]; intros xs Hall E.
    - simpl in E. subst. inversion Hall; auto.
    - destruct xs as [|a [|b t]]; simpl in E; try discriminate.
      + inversion E; subst. inversion Hall; auto.
      + refine (IH _ _ E).
        assert (Hp' : forall ys, Forall (fun x => 0 <= x < p) (pairs p ys)).
        { clear - Hp. fix rec 1. intros [|u [|v w]]; simpl; try constructor.
          - apply Z.mod_pos_bound; lia. - apply rec. }
        unfold prod_step. destruct (Nat.odd (length (a :: b :: t))).
        * constructor; [inversion Hall; auto|apply Hp'].
        * apply Hp'. }
  rewrite <- (Z.mod_small y p Hy). rewrite Hy2. modring.
Qed.

(** [all] runs the same rounds (for integers, f = 0) *)
Definition all_v := prod_v.

(** * is_zero_public (runtime.is_zero_public): open a * r for random r; correct iff r <> 0 *)
Definition is_zero_public_v (p a r : Z) : bool := (a * r) mod p =? 0.

Lemma mod_mul_zero p a b : prime p -> (a * b) mod p = 0 -> a mod p = 0 \/ b mod p = 0.
Proof.
  intros Hp H. pose proof (prime_ge_2 p Hp).
  apply Zmod_divide in H; [|lia]. destruct (prime_mult p Hp a b H) as [D|D]; [left|right];
    apply Zdivide_mod; auto.
Qed.

Theorem is_zero_public_correct p a r :
  prime p -> r mod p <> 0 (* good tape *) -> is_zero_public_v p a r = (a mod p =? 0).
Proof.
  intros Hp Hr. unfold is_zero_public_v.
  destruct (a mod p =? 0) eqn:E.
  - apply Z.eqb_eq in E. apply Z.eqb_eq. rewrite <- Zmult_mod_idemp_l, E. apply Z.mod_0_l.
    pose proof (prime_ge_2 p Hp). lia.
  - apply Z.eqb_neq in E. apply Z.eqb_neq. intros H. destruct (mod_mul_zero p a r Hp H); auto.
Qed.

(** the complement of the good set: with r = 0 every value tests as zero *)
Lemma is_zero_public_bad_tape p a : is_zero_public_v p a 0 = true.
Proof. unfold is_zero_public_v. rewrite Z.mul_0_r, Zmod_0_l. reflexivity. Qed.

Lemma lprod_mod_zero p xs : prime p -> (lprod xs mod p = 0 <-> Exists (fun x => x mod p = 0) xs).
Proof.
  intros Hp. pose proof (prime_ge_2 p Hp). induction xs as [|x r IH]; cbn [lprod fold_right].
  - rewrite Z.mod_1_l by lia. split; [lia|intros H'; inversion H'].
  - fold (lprod r). split.
    + intros H'. destruct (mod_mul_zero p _ _ Hp H'); [left; auto|right; apply IH; auto].
    + intros H'. inversion H' as [? ? E|? ? E]; subst.
      * rewrite <- Zmult_mod_idemp_l, E. apply Z.mod_0_l. lia.
      * rewrite <- Zmult_mod_idemp_r. apply IH in E. rewrite E, Z.mul_0_r. apply Z.mod_0_l. lia.
Qed.

(** * Toft-style comparison circuit shared by [sgn] and [_mod] *)
(** bit lists are little-endian; the code's loop runs from the most significant bit down, so the
    running [sumXors] at index i counts the differing bits above i. [s] is the field value of the
    random sign (1 or p-1). Returns (e[0..n-1], final sumXors). *)
Fixpoint toft (p s : Z) (rb cb : list Z) : list Z * Z :=
  match rb, cb with
  | r :: rb', c :: cb' =>
      let '(e, sx) := toft p s rb' cb' in
      ((s + r - c + 3 * sx) mod p :: e, sx + (if c =? 0 then r else 1 - r))
  | _, _ => ([], 0)
  end.

Lemma small_mod_zero p w : - p < w < p -> w mod p = 0 -> w = 0.
Proof.
  intros Hw H. destruct (Z_lt_le_dec w 0).
  - assert (E : w mod p = w + p).
    { replace w with ((w + p) + (-1) * p) at 1 by ring. rewrite Z_mod_plus_full. apply Z.mod_small. lia. }
    lia.
  - rewrite Z.mod_small in H; lia.
Qed.

Lemma toft_spec p s : (s = 1 \/ s = p - 1) ->
  forall rb cb, Forall bit rb -> Forall bit cb -> length rb = length cb ->
    3 * Z.of_nat (length rb) + 3 < p ->
    let R := bits_val rb in let C := bits_val cb in
    0 <= snd (toft p s rb cb) <= Z.of_nat (length rb) /\
    (snd (toft p s rb cb) = 0 <-> R = C) /\
    (Exists (fun x => x mod p = 0) (fst (toft p s rb cb)) <->
       (s = 1 /\ R < C) \/ (s = p - 1 /\ C < R)).
Proof.
  intros Hs. induction rb as [|r rb IH]; intros cb Hrb Hcb Hlen Hp.
  - destruct cb; [|simpl in Hlen; lia]. simpl. repeat split; try lia.
    intros H; inversion H.
  - destruct cb as [|c cb]; [simpl in Hlen; lia|].
    inversion Hrb as [|? ? Hr Hrb']; inversion Hcb as [|? ? Hc Hcb']; subst.
    cbn [length] in Hp, Hlen. rewrite Nat2Z.inj_succ in Hp.
    specialize (IH cb Hrb' Hcb' ltac:(lia) ltac:(lia)).
    cbn [toft bits_val]. destruct (toft p s rb cb) as [e sx] eqn:ET. cbn [fst snd] in *.
    cbn [length]. rewrite Nat2Z.inj_succ.
    destruct IH as [IH1 [IH2 IH3]].
    set (R' := bits_val rb) in *. set (C' := bits_val cb) in *.
    assert (He0 : ((s + r - c + 3 * sx) mod p) mod p = 0 <->
                  (sx = 0 /\ ((s = 1 /\ r = 0 /\ c = 1) \/ (s = p - 1 /\ r = 1 /\ c = 0)))).
    { rewrite Zmod_mod. destruct Hs as [-> | ->].
      - rewrite Z.mod_small by (destruct Hr, Hc; subst; lia). destruct Hr, Hc; subst; lia.
      - replace (p - 1 + r - c + 3 * sx) with ((r - c + 3 * sx - 1) + 1 * p) by ring.
        rewrite Z_mod_plus_full. split.
        + intros H. apply small_mod_zero in H; [|destruct Hr, Hc; subst; lia].
          destruct Hr, Hc; subst; lia.
        + intros [-> [[? _]|[_ [-> ->]]]]; [lia|]. reflexivity. }
    split; [destruct Hr, Hc; subst; simpl; lia|].
    split.
    { destruct Hr as [-> | ->], Hc as [-> | ->]; cbn [Z.eqb]; lia. }
    rewrite Exists_cons, He0, IH3.
    destruct Hr, Hc; subst; destruct Hs; subst; lia.
Qed.

(** xnor of the random bits with the public bits of c: [r_bits[i] if (c >> i) & 1 else 1 - r_bits[i]] *)
Fixpoint xnors (p : Z) (rb cb : list Z) : list Z :=
  match rb, cb with
  | r :: rb', c :: cb' => (if c =? 0 then (1 - r) mod p else r) :: xnors p rb' cb'
  | _, _ => []
  end.

Lemma xnors_spec p : 1 < p -> forall rb cb, Forall bit rb -> Forall bit cb -> length rb = length cb ->
  Forall (fun x => 0 <= x < p) (xnors p rb cb) /\
  lprod (xnors p rb cb) = (if bits_val rb =? bits_val cb then 1 else 0).
Proof.
  intros Hp. induction rb as [|r rb IH]; intros cb Hrb Hcb Hlen.
  - destruct cb; [|simpl in Hlen; lia]. simpl. auto.
  - destruct cb as [|c cb]; [simpl in Hlen; lia|].
    inversion Hrb as [|? ? Hr Hrb']; inversion Hcb as [|? ? Hc Hcb']; subst.
    destruct (IH cb Hrb' Hcb' ltac:(simpl in Hlen; lia)) as [IH1 IH2].
    cbn [xnors lprod fold_right bits_val]. fold (lprod (xnors p rb cb)). rewrite IH2.
    pose proof (bits_val_range rb Hrb'). pose proof (bits_val_range cb Hcb').
    split.
    + constructor; auto. destruct Hr as [-> | ->], Hc as [-> | ->]; cbn [Z.eqb];
        try (apply Z.mod_pos_bound); lia.
    + destruct (bits_val rb =? bits_val cb) eqn:E;
        [apply Z.eqb_eq in E|apply Z.eqb_neq in E];
        destruct Hr as [-> | ->], Hc as [-> | ->]; cbn [Z.eqb];
        rewrite ?Z.sub_0_r, ?Z.sub_diag, ?Z.mod_1_l, ?Z.mod_0_l by lia;
        match goal with |- context [?a =? ?b] => destruct (a =? b) eqn:E';
          [apply Z.eqb_eq in E'|apply Z.eqb_neq in E'] end; lia.
Qed.

(** * sgn (runtime.sgn, a la Toft): mode 0 = sign, 1 = LT (a < 0), 2 = EQ (a = 0) *)
(** tape: [rbits] = l random bits, [rdiv] = r_divl < 2^k, [ssign] = random sign (1 or p-1),
    [rz] = blinding factor of the inner is_zero_public *)
Definition sgn_v (p l mode x : Z) (rbits : list Z) (rdiv ssign rz : Z) : Z :=
  let rmod := bits_val rbits in
  let a_rmodl := (x + (2 ^ l + rmod)) mod p in
  let c := ((a_rmodl + rdiv * 2 ^ l) mod p) mod 2 ^ l in             (* opened, reduced mod 2^l *)
  let cb := to_bits (length rbits) c in
  let z :=                                                             (* a < 0, a la Toft *)
    let '(e, sx) := toft p ssign rbits cb in
    let g := is_zero_public_v p (prod_v p (e ++ [(ssign - 1 + 3 * sx) mod p])) rz in
    let h := if g then 3 - ssign else 3 + ssign in
    fdiv2 p l ((((c - a_rmodl) mod p) + h * 2 ^ (l - 1)) mod p) in
  let h2 := all_v p (xnors p rbits cb) in                             (* a = 0 *)
  if mode =? 1 then z
  else if mode =? 2 then h2
  else (((h2 - 1) mod p) * (((2 * z) mod p - 1) mod p)) mod p.

Lemma toft_reduced p s : 1 < p -> forall rb cb, Forall (fun x => 0 <= x < p) (fst (toft p s rb cb)).
Proof.
  intros Hp. induction rb as [|r rb IH]; intros [|c cb]; simpl; auto.
  specialize (IH cb). destruct (toft p s rb cb) as [e sx]. simpl in *.
  constructor; auto. apply Z.mod_pos_bound. lia.
Qed.

(** the inner comparison: g is true iff (s = 1 and c >= r) or (s = -1 and c < r) *)
Lemma sgn_g_spec p s rz rb cb : prime p -> (s = 1 \/ s = p - 1) -> rz mod p <> 0 ->
  Forall bit rb -> Forall bit cb -> length rb = length cb -> 3 * Z.of_nat (length rb) + 3 < p ->
  let '(e, sx) := toft p s rb cb in
  is_zero_public_v p (prod_v p (e ++ [(s - 1 + 3 * sx) mod p])) rz = true <->
  (s = 1 /\ bits_val rb <= bits_val cb) \/ (s = p - 1 /\ bits_val cb < bits_val rb).
Proof.
  intros Hp Hs Hrz Hrb Hcb Hlen Hbig. pose proof (prime_ge_2 p Hp) as Hp2.
  pose proof (toft_spec p s Hs rb cb Hrb Hcb Hlen Hbig) as [H1 [H2 H3]].
  pose proof (toft_reduced p s ltac:(lia) rb cb) as Hred.
  destruct (toft p s rb cb) as [e sx]. cbn [fst snd] in *.
  rewrite is_zero_public_correct by auto.
  rewrite prod_correct; [|lia|].
  2:{ apply Forall_app. split; auto. constructor; [apply Z.mod_pos_bound; lia|constructor]. }
  rewrite Zmod_mod, Z.eqb_eq, lprod_mod_zero by auto.
  rewrite Exists_app, H3, Exists_cons, Exists_nil, Zmod_mod.
  assert (Hl : (s - 1 + 3 * sx) mod p = 0 <-> (s = 1 /\ sx = 0)).
  { destruct Hs as [-> | ->].
    - rewrite Z.mod_small by lia. lia.
    - replace (p - 1 - 1 + 3 * sx) with ((3 * sx - 2) + 1 * p) by ring. rewrite Z_mod_plus_full.
      split; [intros H; apply small_mod_zero in H; lia|lia]. }
  rewrite Hl. lia.
Qed.

Theorem sgn_lt_correct p l k a rbits rdiv ssign rz :
  prime p -> 1 <= k -> 1 <= l -> 2 ^ (l + k + 1) < p -> 3 * l + 3 < p ->
  - 2 ^ l <= a < 2 ^ l ->
  Forall bit rbits -> Z.of_nat (length rbits) = l -> 0 <= rdiv < 2 ^ k ->
  (ssign = 1 \/ ssign = p - 1) -> rz mod p <> 0 ->
  sgn_v p l 1 (a mod p) rbits rdiv ssign rz = if a <? 0 then 1 else 0.
Proof.
  intros Hp Hk Hl Hpl Hp3 Ha Hb Hlen Hr Hs Hrz. unfold sgn_v. cbn [Z.eqb Pos.eqb].
  pose proof (prime_ge_2 p Hp) as Hp2.
  pose proof (bits_val_range rbits Hb) as HR. rewrite Hlen in HR.
  set (R := bits_val rbits) in *. set (M := 2 ^ l) in *.
  assert (HM : 0 < M) by (apply Z.pow_pos_nonneg; lia).
  assert (E1 : M = 2 * 2 ^ (l - 1)) by (unfold M; rewrite <- Z.pow_succ_r by lia; f_equal; lia).
  assert (E2 : 2 ^ (l + k + 1) = 2 * 2 ^ k * M).
  { unfold M. rewrite <- Z.mul_assoc, <- Z.pow_add_r, <- Z.pow_succ_r by lia. f_equal. lia. }
  assert (E3 : 2 <= 2 ^ k).
  { assert (2 ^ 1 <= 2 ^ k) by (apply Z.pow_le_mono_r; lia). simpl in *. lia. }
  assert (Ec : (((a mod p + (M + R)) mod p + rdiv * M) mod p) = a + M + R + rdiv * M).
  { modsmall (a + M + R + rdiv * M) p. nia. }
  rewrite Ec.
  replace (a + M + R + rdiv * M) with (a + R + (1 + rdiv) * M) by ring. rewrite Z_mod_plus_full.
  set (c := (a + R) mod M).
  assert (Hc : 0 <= c < M) by (apply Z.mod_pos_bound; lia).
  set (cb := to_bits (length rbits) c).
  assert (Hcb : Forall bit cb) by apply to_bits_bit.
  assert (Hcl : length rbits = length cb) by (unfold cb; now rewrite to_bits_length).
  assert (Hcv : bits_val cb = c) by (apply to_bits_val; rewrite Hlen; exact Hc).
  pose proof (sgn_g_spec p ssign rz rbits cb Hp Hs Hrz Hb Hcb Hcl ltac:(lia)) as Hg.
  destruct (toft p ssign rbits cb) as [e sx]. rewrite Hcv in Hg. fold R in Hg.
  set (g := is_zero_public_v p _ rz) in *.
  (* h is congruent to 2 when c >= R and to 4 when c < R *)
  set (q := (a + R) / M).
  assert (Hq : a + R = M * q + c) by (apply Z.div_mod; lia).
  assert (Hh : exists h', (h' = 2 /\ R <= c \/ h' = 4 /\ c < R) /\
     (((c - (a mod p + (M + R)) mod p) mod p + (if g then 3 - ssign else 3 + ssign) * 2 ^ (l - 1)) mod p
      = ((- q - 1 + h' / 2) * M) mod p)).
  { destruct g eqn:Eg.
    - destruct (proj1 Hg eq_refl) as [[-> Hle] | [-> Hlt]].
      + exists 2. split; [lia|]. change (2 / 2) with 1. modring. rewrite E1. nia.
      + exists 4. split; [lia|]. change (4 / 2) with 2.
        modring_k (- 2 ^ (l - 1)). rewrite E1. nia.
    - assert (Hng : ~ ((ssign = 1 /\ R <= c) \/ (ssign = p - 1 /\ c < R))).
      { intros H. apply Hg in H. congruence. }
      destruct Hs as [-> | ->].
      + exists 4. split; [lia|]. change (4 / 2) with 2. modring. rewrite E1. nia.
      + exists 2. split; [lia|]. change (2 / 2) with 1.
        modring_k (2 ^ (l - 1)). rewrite E1. nia. }
  destruct Hh as [h' [Hh1 Hh2]]. rewrite Hh2.
  assert (H2p : 2 < p) by lia.
  unfold M. rewrite fdiv2_exact by (auto; lia). fold M.
  assert (Hres : - q - 1 + h' / 2 = if a <? 0 then 1 else 0).
  { destruct (a <? 0) eqn:Ea; [apply Z.ltb_lt in Ea|apply Z.ltb_ge in Ea];
      destruct Hh1 as [[-> Hc1] | [-> Hc1]];
      [change (2 / 2) with 1|change (4 / 2) with 2|change (2 / 2) with 1|change (4 / 2) with 2]; nia. }
  rewrite Hres. destruct (a <? 0); apply Z.mod_small; lia.
Qed.

Lemma sgn_c_spec p l k a R rdiv : 1 <= k -> 1 <= l -> 2 ^ (l + k + 1) < p ->
  - 2 ^ l <= a < 2 ^ l -> 0 <= R < 2 ^ l -> 0 <= rdiv < 2 ^ k ->
  (((a mod p + (2 ^ l + R)) mod p + rdiv * 2 ^ l) mod p) mod 2 ^ l = (a + R) mod 2 ^ l.
Proof.
  intros Hk Hl Hpl Ha HR Hr. set (M := 2 ^ l) in *.
  assert (HM : 0 < M) by (apply Z.pow_pos_nonneg; lia).
  assert (E2 : 2 ^ (l + k + 1) = 2 * 2 ^ k * M).
  { unfold M. rewrite <- Z.mul_assoc, <- Z.pow_add_r, <- Z.pow_succ_r by lia. f_equal. lia. }
  assert (E3 : 2 <= 2 ^ k).
  { assert (2 ^ 1 <= 2 ^ k) by (apply Z.pow_le_mono_r; lia). simpl in *. lia. }
  assert (Ec : (((a mod p + (M + R)) mod p + rdiv * M) mod p) = a + M + R + rdiv * M).
  { modsmall (a + M + R + rdiv * M) p. nia. }
  rewrite Ec.
  replace (a + M + R + rdiv * M) with (a + R + (1 + rdiv) * M) by ring. apply Z_mod_plus_full.
Qed.

Theorem sgn_eq_correct p l k a rbits rdiv ssign rz :
  1 < p -> 1 <= k -> 1 <= l -> 2 ^ (l + k + 1) < p ->
  - 2 ^ l < a < 2 ^ l ->
  Forall bit rbits -> Z.of_nat (length rbits) = l -> 0 <= rdiv < 2 ^ k ->
  sgn_v p l 2 (a mod p) rbits rdiv ssign rz = if a =? 0 then 1 else 0.
Proof.
  intros Hp Hk Hl Hpl Ha Hb Hlen Hr. unfold sgn_v. cbn [Z.eqb Pos.eqb].
  pose proof (bits_val_range rbits Hb) as HR. rewrite Hlen in HR.
  rewrite (sgn_c_spec p l k) by (auto; lia).
  set (R := bits_val rbits) in *. set (M := 2 ^ l) in *.
  assert (HM : 0 < M) by (apply Z.pow_pos_nonneg; lia).
  set (c := (a + R) mod M).
  assert (Hc : 0 <= c < M) by (apply Z.mod_pos_bound; lia).
  set (cb := to_bits (length rbits) c).
  assert (Hcb : Forall bit cb) by apply to_bits_bit.
  assert (Hcl : length rbits = length cb) by (unfold cb; now rewrite to_bits_length).
  assert (Hcv : bits_val cb = c) by (apply to_bits_val; rewrite Hlen; exact Hc).
  destruct (xnors_spec p Hp rbits cb Hb Hcb Hcl) as [Hx1 Hx2].
  unfold all_v. rewrite prod_correct by auto. rewrite Hx2, Hcv. fold R.
  assert (Hiff : R = c <-> a = 0).
  { unfold c. split.
    - intros E. pose proof (Z.div_mod (a + R) M ltac:(lia)) as Hdm. rewrite <- E in Hdm.
      assert (-1 < (a + R) / M < 1) by nia. nia.
    - intros ->. rewrite Z.add_0_l. symmetry. apply Z.mod_small. lia. }
  destruct (R =? c) eqn:E1; [apply Z.eqb_eq in E1|apply Z.eqb_neq in E1];
    destruct (a =? 0) eqn:E2; [apply Z.eqb_eq in E2|apply Z.eqb_neq in E2| |]; try tauto;
    try (apply Z.eqb_eq in E2); try (apply Z.eqb_neq in E2); try tauto; apply Z.mod_small; lia.
Qed.

Theorem sgn_correct p l k a rbits rdiv ssign rz :
  prime p -> 1 <= k -> 1 <= l -> 2 ^ (l + k + 1) < p -> 3 * l + 3 < p ->
  - 2 ^ l < a < 2 ^ l ->
  Forall bit rbits -> Z.of_nat (length rbits) = l -> 0 <= rdiv < 2 ^ k ->
  (ssign = 1 \/ ssign = p - 1) -> rz mod p <> 0 ->
  sgn_v p l 0 (a mod p) rbits rdiv ssign rz = (Z.sgn a) mod p.
Proof.
  intros Hp Hk Hl Hpl Hp3 Ha Hb Hlen Hr Hs Hrz.
  pose proof (sgn_lt_correct p l k a rbits rdiv ssign rz Hp Hk Hl Hpl Hp3 ltac:(lia) Hb Hlen Hr Hs Hrz) as HLT.
  pose proof (prime_ge_2 p Hp) as Hp2.
  pose proof (sgn_eq_correct p l k a rbits rdiv ssign rz ltac:(lia) Hk Hl Hpl Ha Hb Hlen Hr) as HEQ.
  unfold sgn_v in *. cbn [Z.eqb Pos.eqb] in *.
  destruct (toft p ssign rbits _) as [e sx]. rewrite HLT, HEQ.
  destruct (a <? 0) eqn:E1; [apply Z.ltb_lt in E1|apply Z.ltb_ge in E1];
    (destruct (a =? 0) eqn:E2; [apply Z.eqb_eq in E2|apply Z.eqb_neq in E2]); try lia.
  - rewrite Z.sgn_neg by lia. modring.
  - subst a. simpl (Z.sgn 0). modring.
  - rewrite Z.sgn_pos by lia. modring.
Qed.

(** * abs (runtime.abs): (-2 * sgn(a, LT) + 1) * a *)
Definition abs_v (p l x : Z) (rbits : list Z) (rdiv ssign rz : Z) : Z :=
  (((-2 * sgn_v p l 1 x rbits rdiv ssign rz) mod p + 1) mod p * x) mod p.

Theorem abs_correct p l k a rbits rdiv ssign rz :
  prime p -> 1 <= k -> 1 <= l -> 2 ^ (l + k + 1) < p -> 3 * l + 3 < p ->
  - 2 ^ l <= a < 2 ^ l ->
  Forall bit rbits -> Z.of_nat (length rbits) = l -> 0 <= rdiv < 2 ^ k ->
  (ssign = 1 \/ ssign = p - 1) -> rz mod p <> 0 ->
  abs_v p l (a mod p) rbits rdiv ssign rz = (Z.abs a) mod p.
Proof.
  intros Hp Hk Hl Hpl Hp3 Ha Hb Hlen Hr Hs Hrz. unfold abs_v.
  rewrite (sgn_lt_correct p l k) by auto.
  destruct (a <? 0) eqn:E1; [apply Z.ltb_lt in E1|apply Z.ltb_ge in E1].
  - rewrite Z.abs_neq by lia. modring.
  - rewrite Z.abs_eq by lia. modring.
Qed.

(** * _mod (runtime._mod, a la [GMS10]) for a public divisor b > 0 *)
(** tape: [rbits] = bits of r_modb (a random value below b), [rdiv] = r_divb < 2^k, [ssign], [rz] *)
Definition mod_v (p l b x : Z) (rbits : list Z) (rdiv ssign rz : Z) : Z :=
  let rmod := bits_val rbits in
  let c0 := ((x + (2 ^ l - (2 ^ l) mod b + b * rdiv - rmod)) mod p) mod b in
  let c := if c0 =? 0 then b else c0 in
  let cb := to_bits (length rbits) (b - c) in
  let '(e, sx) := toft p ssign rbits cb in
  let g := is_zero_public_v p (prod_v p (e ++ [(ssign + 1 + 3 * sx) mod p])) rz in
  let z := fdiv2 p 1 ((if g then 1 - ssign else 1 + ssign) mod p) in
  (c + rmod - z * b) mod p.

Lemma mod_g_spec p s rz rb cb : prime p -> (s = 1 \/ s = p - 1) -> rz mod p <> 0 ->
  Forall bit rb -> Forall bit cb -> length rb = length cb -> 3 * Z.of_nat (length rb) + 3 < p ->
  let '(e, sx) := toft p s rb cb in
  is_zero_public_v p (prod_v p (e ++ [(s + 1 + 3 * sx) mod p])) rz = true <->
  (s = 1 /\ bits_val rb < bits_val cb) \/ (s = p - 1 /\ bits_val cb <= bits_val rb).
Proof.
  intros Hp Hs Hrz Hrb Hcb Hlen Hbig. pose proof (prime_ge_2 p Hp) as Hp2.
  pose proof (toft_spec p s Hs rb cb Hrb Hcb Hlen Hbig) as [H1 [H2 H3]].
  pose proof (toft_reduced p s ltac:(lia) rb cb) as Hred.
  destruct (toft p s rb cb) as [e sx]. cbn [fst snd] in *.
  rewrite is_zero_public_correct by auto.
  rewrite prod_correct; [|lia|].
  2:{ apply Forall_app. split; auto. constructor; [apply Z.mod_pos_bound; lia|constructor]. }
  rewrite Zmod_mod, Z.eqb_eq, lprod_mod_zero by auto.
  rewrite Exists_app, H3, Exists_cons, Exists_nil, Zmod_mod.
  assert (Hl : (s + 1 + 3 * sx) mod p = 0 <-> (s = p - 1 /\ sx = 0)).
  { destruct Hs as [-> | ->].
    - rewrite Z.mod_small by lia. lia.
    - replace (p - 1 + 1 + 3 * sx) with ((3 * sx) + 1 * p) by ring. rewrite Z_mod_plus_full.
      split; [intros H; apply small_mod_zero in H; lia|intros [_ ->]; reflexivity]. }
  rewrite Hl. lia.
Qed.

(** [nowrap]: the opened value does not wrap around p. It holds for EVERY tape when
    a >= -2^l + 2b - 2, and whenever rdiv >= 1; it fails only for (part of) the tapes with rdiv = 0. *)
Theorem mod_correct p l k b a rbits rdiv ssign rz :
  prime p -> 2 <= k -> 1 <= l -> 2 ^ (l + k + 1) < p ->
  0 < b < 2 ^ l -> a < 2 ^ l ->
  Forall bit rbits -> bits_val rbits < b -> b <= 2 ^ Z.of_nat (length rbits) ->
  3 * Z.of_nat (length rbits) + 3 < p ->
  0 <= rdiv < 2 ^ k -> (ssign = 1 \/ ssign = p - 1) -> rz mod p <> 0 ->
  0 <= a + 2 ^ l - (2 ^ l) mod b + b * rdiv - bits_val rbits (* nowrap / good tape *) ->
  mod_v p l b (a mod p) rbits rdiv ssign rz = (a mod b) mod p.
Proof.
  intros Hp Hk Hl Hpl Hbr Ha Hb HRb Hblen Hp3 Hr Hs Hrz Hnw. unfold mod_v.
  pose proof (prime_ge_2 p Hp) as Hp2.
  pose proof (bits_val_range rbits Hb) as HR.
  set (R := bits_val rbits) in *. set (M := 2 ^ l) in *.
  assert (HM : 0 < M) by (apply Z.pow_pos_nonneg; lia).
  assert (E2 : 2 ^ (l + k + 1) = 2 * 2 ^ k * M).
  { unfold M. rewrite <- Z.mul_assoc, <- Z.pow_add_r, <- Z.pow_succ_r by lia. f_equal. lia. }
  assert (E3 : 4 <= 2 ^ k).
  { assert (2 ^ 2 <= 2 ^ k) by (apply Z.pow_le_mono_r; lia). simpl in *. lia. }
  pose proof (Z.mod_pos_bound M b ltac:(lia)) as HMb.
  assert (Ec : (a mod p + (M - M mod b + b * rdiv - R)) mod p = a + M - M mod b + b * rdiv - R).
  { modsmall (a + M - M mod b + b * rdiv - R) p. split; [lia|]. nia. }
  rewrite Ec.
  assert (Ec0 : (a + M - M mod b + b * rdiv - R) mod b = (a - R) mod b).
  { pose proof (Z.div_mod M b ltac:(lia)) as HdM.
    replace (a + M - M mod b + b * rdiv - R) with (a - R + (M / b + rdiv) * b) by lia.
    apply Z_mod_plus_full. }
  rewrite Ec0. set (c0 := (a - R) mod b).
  assert (Hc0 : 0 <= c0 < b) by (apply Z.mod_pos_bound; lia).
  set (c := if c0 =? 0 then b else c0).
  assert (Hc : 1 <= c <= b /\ (c = c0 \/ c = c0 + b)).
  { unfold c. destruct (c0 =? 0) eqn:E; [apply Z.eqb_eq in E|apply Z.eqb_neq in E]; lia. }
  set (cb := to_bits (length rbits) (b - c)).
  assert (Hcb : Forall bit cb) by apply to_bits_bit.
  assert (Hcl : length rbits = length cb) by (unfold cb; now rewrite to_bits_length).
  assert (Hcv : bits_val cb = b - c) by (apply to_bits_val; lia).
  pose proof (mod_g_spec p ssign rz rbits cb Hp Hs Hrz Hb Hcb Hcl Hp3) as Hg.
  destruct (toft p ssign rbits cb) as [e sx]. rewrite Hcv in Hg. fold R in Hg.
  set (g := is_zero_public_v p _ rz) in *.
  (* z = 1 iff R >= b - c *)
  assert (Hz : fdiv2 p 1 ((if g then 1 - ssign else 1 + ssign) mod p) = if b - c <=? R then 1 else 0).
  { assert (H2p : 2 < p) by lia.
    destruct g eqn:Eg.
    - destruct (proj1 Hg eq_refl) as [[-> Hlt] | [-> Hle]].
      + replace (b - c <=? R) with false by (symmetry; apply Z.leb_gt; lia).
        replace ((1 - 1) mod p) with ((0 * 2 ^ 1) mod p) by (f_equal; ring).
        rewrite fdiv2_exact by (auto; lia). apply Z.mod_0_l. lia.
      + replace (b - c <=? R) with true by (symmetry; apply Z.leb_le; lia).
        replace ((1 - (p - 1)) mod p) with ((1 * 2 ^ 1) mod p) by (modring_k 1).
        rewrite fdiv2_exact by (auto; lia). apply Z.mod_1_l. lia.
    - assert (Hng : ~ ((ssign = 1 /\ R < b - c) \/ (ssign = p - 1 /\ b - c <= R))).
      { intros H. apply Hg in H. congruence. }
      destruct Hs as [-> | ->].
      + replace (b - c <=? R) with true by (symmetry; apply Z.leb_le; lia).
        replace ((1 + 1) mod p) with ((1 * 2 ^ 1) mod p) by (f_equal; ring).
        rewrite fdiv2_exact by (auto; lia). apply Z.mod_1_l. lia.
      + replace (b - c <=? R) with false by (symmetry; apply Z.leb_gt; lia).
        replace ((1 + (p - 1)) mod p) with ((0 * 2 ^ 1) mod p) by (modring_k (-1)).
        rewrite fdiv2_exact by (auto; lia). apply Z.mod_0_l. lia. }
  rewrite Hz. f_equal.
  (* a mod b = c + R - [c + R >= b] * b *)
  assert (Hab : a mod b = (c + R) mod b).
  { unfold c0 in *. destruct Hc as [_ [Hc | Hc]]; rewrite Hc.
    - rewrite Zplus_mod_idemp_l. f_equal. ring.
    - replace ((a - R) mod b + b + R) with ((a - R) mod b + R + 1 * b) by ring.
      rewrite Z_mod_plus_full, Zplus_mod_idemp_l. f_equal. ring. }
  rewrite Hab.
  destruct (b - c <=? R) eqn:E; [apply Z.leb_le in E|apply Z.leb_gt in E].
  - replace (c + R) with ((c + R - b) + 1 * b) at 2 by ring. rewrite Z_mod_plus_full, Z.mod_small; lia.
  - rewrite Z.mod_small; lia.
Qed.

(** floor division by public b: [q = (a - r) * reciprocal(b)] with r = a mod b (sectypes.__divmod__);
    the secure reciprocal of the public constant b is the exact field inverse (it retries until its
    blinding factor is nonzero) *)
Definition floordiv_v (p l b x : Z) (rbits : list Z) (rdiv ssign rz : Z) : Z :=
  ((x - mod_v p l b x rbits rdiv ssign rz) mod p * inv_raw p b) mod p.

Theorem floordiv_correct p l k b a rbits rdiv ssign rz :
  prime p -> 2 <= k -> 1 <= l -> 2 ^ (l + k + 1) < p ->
  0 < b < 2 ^ l -> a < 2 ^ l ->
  Forall bit rbits -> bits_val rbits < b -> b <= 2 ^ Z.of_nat (length rbits) ->
  3 * Z.of_nat (length rbits) + 3 < p ->
  0 <= rdiv < 2 ^ k -> (ssign = 1 \/ ssign = p - 1) -> rz mod p <> 0 ->
  0 <= a + 2 ^ l - (2 ^ l) mod b + b * rdiv - bits_val rbits ->
  floordiv_v p l b (a mod p) rbits rdiv ssign rz = (a / b) mod p.
Proof.
  intros Hp Hk Hl Hpl Hbr Ha Hb HRb Hblen Hp3 Hr Hs Hrz Hnw. unfold floordiv_v.
  rewrite (mod_correct p l k) by auto.
  assert (Hbp : b mod p <> 0).
  { assert (2 ^ l <= 2 ^ (l + k + 1)) by (apply Z.pow_le_mono_r; lia). rewrite Z.mod_small; lia. }
  replace ((a mod p - (a mod b) mod p) mod p) with ((a / b * b) mod p).
  - apply (fdiv_exact p b (a / b) Hp Hbp).
  - pose proof (Z.div_mod a b ltac:(lia)). replace (a / b * b) with (a - a mod b) by lia. modring.
Qed.

(** * pow (runtime.pow) for public exponents: square-and-multiply, least significant bit first *)
(** [for i in range(b.bit_length()-1): if (b >> i) & 1: c = c * d; d = d * d] then [c = c * d] *)
Fixpoint pow_pos (p c d : Z) (e : positive) : Z :=
  match e with
  | xH => (c * d) mod p
  | xO e' => pow_pos p c ((d * d) mod p) e'
  | xI e' => pow_pos p ((c * d) mod p) ((d * d) mod p) e'
  end.

(** the addition chain used for b = 254 (AES S-box): 11 multiplications *)
Definition mulm (p x y : Z) : Z := (x * y) mod p.
Definition pow254 (p a : Z) : Z :=
  let d := a in
  let c := mulm p d d in let c := mulm p c c in let c := mulm p c c in
  let c := mulm p c d in let c := mulm p c c in
  let '(c, d) := (mulm p c c, mulm p c d) in      (* c, d = scalar_mul(c, [c, d]) *)
  let '(c, d) := (mulm p c c, mulm p c d) in
  let c := mulm p c d in mulm p c c.

Lemma mulm_pow p a m n : 0 <= m -> 0 <= n -> mulm p (a ^ m mod p) (a ^ n mod p) = a ^ (m + n) mod p.
Proof. intros Hm Hn. unfold mulm. rewrite <- Zmult_mod, Z.pow_add_r by lia. reflexivity. Qed.

Definition pow_v (p x e : Z) : Z :=
  if e =? 254 then pow254 p x else
  match e with
  | Z0 => 1 mod p                (* type(a)(1) *)
  | Zpos e' => pow_pos p 1 x e'
  | Zneg _ => 0                  (* reciprocal: not an integer operation, not modelled *)
  end.

Lemma pow_pos_spec p : 0 < p -> forall e c d, pow_pos p c d e = (c * d ^ Zpos e) mod p.
Proof.
  intros Hp. induction e as [e IH|e IH|]; intros c d; cbn [pow_pos].
  - rewrite IH.
    assert (Hd : d ^ Z.pos e~1 = d * (d * d) ^ Z.pos e).
    { rewrite Pos2Z.inj_xI, Z.pow_add_r, Z.pow_1_r, Z.pow_twice_r, Z.pow_mul_l by lia. ring. }
    rewrite Hd.
    rewrite Zmult_mod_idemp_l, (Zmult_mod (c * d)), <- Zpower_mod, <- Zmult_mod by lia.
    f_equal. ring.
  - rewrite IH.
    assert (Hd : d ^ Z.pos e~0 = (d * d) ^ Z.pos e).
    { rewrite Pos2Z.inj_xO, Z.pow_twice_r, Z.pow_mul_l. ring. }
    rewrite Hd.
    rewrite (Zmult_mod c), <- Zpower_mod, <- Zmult_mod by lia. reflexivity.
  - rewrite Z.pow_1_r. reflexivity.
Qed.

Theorem pow_correct p a e : 0 < p -> 0 <= e -> e <> 254 -> pow_v p (a mod p) e = (a ^ e) mod p.
Proof.
  intros Hp He H254. unfold pow_v. destruct (e =? 254) eqn:E; [apply Z.eqb_eq in E; lia|].
  destruct e as [|e|e]; [reflexivity| |lia].
  rewrite pow_pos_spec by lia. rewrite Z.mul_1_l. symmetry. apply Zpower_mod. lia.
Qed.

(** * if_else / if_swap (runtime.if_else, runtime.if_swap) for a bit condition *)
Definition if_else_v (p c x y : Z) : Z := ((c * ((x - y) mod p)) mod p + y) mod p.
Definition if_swap_v (p c x y : Z) : Z * Z :=
  let d := (c * ((y - x) mod p)) mod p in ((x + d) mod p, (y - d) mod p).

Theorem if_else_correct p c x y : bit c ->
  if_else_v p c (x mod p) (y mod p) = (if c =? 0 then y else x) mod p.
Proof. intros [-> | ->]; unfold if_else_v; cbn [Z.eqb]; modring. Qed.

Theorem if_swap_correct p c x y : bit c ->
  if_swap_v p c (x mod p) (y mod p) = if c =? 0 then (x mod p, y mod p) else (y mod p, x mod p).
Proof.
  intros [-> | ->]; unfold if_swap_v; cbn [Z.eqb].
  - rewrite Z.mul_0_l, Zmod_0_l, Z.add_0_r, Z.sub_0_r, !Zmod_mod. reflexivity.
  - rewrite Z.mul_1_l, Zmod_mod, Zplus_mod_idemp_r, Zminus_mod_idemp_r.
    replace (x mod p + (y mod p - x mod p)) with (y mod p) by ring.
    replace (y mod p - (y mod p - x mod p)) with (x mod p) by ring.
    rewrite !Zmod_mod. reflexivity.
Qed.

(** list versions (_if_else_list): [a * (x[i] - y[i]) + y[i]] elementwise *)
Definition if_else_list_v (p c : Z) (xs ys : list Z) : list Z :=
  map (fun xy => (c * (fst xy - snd xy) + snd xy) mod p) (combine xs ys).

Theorem if_else_list_correct p c xs ys : bit c -> length xs = length ys ->
  if_else_list_v p c (map (fun x => x mod p) xs) (map (fun y => y mod p) ys)
  = map (fun v => v mod p) (if c =? 0 then ys else xs).
Proof.
  intros Hc. revert ys. induction xs as [|x xs IH]; intros [|y ys] Hl; simpl in Hl; try lia.
  - destruct (c =? 0); reflexivity.
  - unfold if_else_list_v in *. cbn [map combine fst snd].
    specialize (IH ys ltac:(lia)). rewrite IH.
    destruct Hc as [-> | ->]; cbn [Z.eqb map]; f_equal; modring.
Qed.

(** * in_prod (runtime.in_prod): sum of value products, reduced once *)
Fixpoint dot (xs ys : list Z) : Z :=
  match xs, ys with x :: xs', y :: ys' => x * y + dot xs' ys' | _, _ => 0 end.

Definition in_prod_v (p : Z) (xs ys : list Z) : Z := dot xs ys mod p.

Theorem in_prod_correct p xs ys :
  in_prod_v p (map (fun x => x mod p) xs) (map (fun y => y mod p) ys) = dot xs ys mod p.
Proof.
  unfold in_prod_v. revert ys. induction xs as [|x xs IH]; intros [|y ys]; cbn [map dot]; auto.
  transitivity ((x * y + dot (map (fun x => x mod p) xs) (map (fun y => y mod p) ys) mod p) mod p);
    [modring|]. rewrite IH. modring.
Qed.

(** sum (runtime.sum): sum of the values, reduced once *)
Definition sum_v (p : Z) (xs : list Z) : Z := fold_right Z.add 0 xs mod p.
Theorem sum_correct p xs : sum_v p (map (fun x => x mod p) xs) = fold_right Z.add 0 xs mod p.
Proof.
  unfold sum_v. induction xs as [|x xs IH]; cbn [map fold_right]; auto.
  transitivity ((x + fold_right Z.add 0 (map (fun x => x mod p) xs) mod p) mod p); [modring|].
  rewrite IH. modring.
Qed.

(** * matrix_prod (runtime.matrix_prod): value semantics, B given transposed (rows of B^T) *)
(** C[i][j] = sum_k A[i][k] * Bt[j][k]; the code's [tr=False] branch indexes B[k][j] instead, which
    is the same sum for Bt = transpose B. *)
Definition matrix_prod_v (p : Z) (A Bt : list (list Z)) : list (list Z) :=
  map (fun row => map (fun col => dot row col mod p) Bt) A.

(** the symmetric shortcut for A * A^T: only j <= i is computed, the rest mirrored:
    [C[i][j] = C'[i*(i+1)/2 + j] if j < i else C'[j*(j+1)/2 + i]] *)
Definition tri_entry (p : Z) (A : list (list Z)) (i j : nat) : Z :=
  dot (nth i A []) (nth j A []) mod p.
Definition matrix_prod_sym_v (p : Z) (A : list (list Z)) : list (list Z) :=
  map (fun i => map (fun j => if Nat.ltb j i then tri_entry p A i j else tri_entry p A j i)
                    (seq 0 (length A))) (seq 0 (length A)).

Lemma dot_comm xs : forall ys, dot xs ys = dot ys xs.
Proof. induction xs as [|x xs IH]; intros [|y ys]; cbn [dot]; auto. rewrite IH. ring. Qed.

Theorem matrix_prod_entry p A Bt i j : (i < length A)%nat -> (j < length Bt)%nat ->
  nth j (nth i (matrix_prod_v p A Bt) []) 0 = dot (nth i A []) (nth j Bt []) mod p.
Proof.
  intros Hi Hj. unfold matrix_prod_v.
  rewrite (nth_indep _ [] (map (fun col => dot [] col mod p) Bt)) by (rewrite map_length; auto).
  rewrite (map_nth (fun row => map (fun col => dot row col mod p) Bt) A [] i).
  rewrite (nth_indep _ 0 (dot (nth i A []) [] mod p)) by (rewrite map_length; auto).
  apply (map_nth (fun col => dot (nth i A []) col mod p) Bt [] j).
Qed.

Theorem matrix_prod_sym_correct p A i j : (i < length A)%nat -> (j < length A)%nat ->
  nth j (nth i (matrix_prod_sym_v p A) []) 0 = nth j (nth i (matrix_prod_v p A A) []) 0.
Proof.
  intros Hi Hj. rewrite matrix_prod_entry by auto. unfold matrix_prod_sym_v.
  set (f := fun i => map (fun j => if Nat.ltb j i then tri_entry p A i j else tri_entry p A j i)
                         (seq 0 (length A))).
  rewrite (nth_indep _ [] (f O)) by (rewrite map_length, seq_length; auto).
  rewrite (map_nth f (seq 0 (length A)) O i), seq_nth by auto. unfold f. cbn [plus].
  set (g := fun j => if Nat.ltb j i then tri_entry p A i j else tri_entry p A j i).
  rewrite (nth_indep _ 0 (g O)) by (rewrite map_length, seq_length; auto).
  rewrite (map_nth g (seq 0 (length A)) O j), seq_nth by auto. unfold g. cbn [plus].
  unfold tri_entry. destruct (Nat.ltb j i); auto. now rewrite dot_comm.
Qed.
