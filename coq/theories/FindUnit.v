(** C30 — value-level model of runtime.find, runtime.unit_vector and runtime.gcp2
    (mpyc/runtime.py), on top of Bits.v. *)
From Coq Require Import ZArith List Lia Bool.
Require Import MPyC.Base MPyC.Bits.
Import ListNotations.
Local Open Scope Z_scope.

Fixpoint zipw {A B C} (g : A -> B -> C) (x : list A) (y : list B) : list C :=
  match x, y with a :: x', b :: y' => g a b :: zipw g x' y' | _, _ => [] end.

Definition zsum (u : list Z) : Z := fold_left Z.add u 0.

(* ------------------------------------------------------------------------------------- *)
(** * unit_vector *)

(** [c for _ in zip(w, v) for c in _] *)
Fixpoint interleave (w v : list Z) : list Z :=
  match w, v with a :: w', b :: v' => a :: b :: interleave w' v' | _, _ => [] end.

(** one iteration of the loop body for bit x[i] of a and bit (b >> i) & 1 of b = n - 1 *)
Definition uv_step (xi : Z) (bbit : Z) (u : list Z) : list Z :=
  let v := map (fun c => xi * c) u in            (* v = scalar_mul(x[i], u) *)
  let w := zipw Z.sub u v in                      (* w = vector_sub(u, v) *)
  let u1 := (xi - zsum v) :: interleave w v in    (* u = [x[i] - sum(v)]; u.extend(...) *)
  if bbit =? 0 then removelast u1 else u1.        (* if not (b >> i) & 1: u.pop() *)

(** for i in range(k-1, -1, -1): ...   ([uv_loop x b k u] runs i = k-1, ..., 0) *)
Fixpoint uv_loop (x : list Z) (b : Z) (i : nat) (u : list Z) : list Z :=
  match i with
  | O => u
  | S i' => uv_loop x b i' (uv_step (nth i' x 0) (bit_at b i') u)
  end.

(** Python's int.bit_length *)
Definition bit_length (b : Z) : nat :=
  match b with Z0 => O | _ => Z.to_nat (Z.succ (Z.log2 (Z.abs b))) end.

(** [x] = the k bits of a (the code takes them from to_bits(a, k + f)[f:]) *)
Definition unit_vector_x (x : list Z) (n : Z) : list Z :=
  let b := n - 1 in
  let k := bit_length b in
  let u := uv_loop x b k [] in
  (1 - zsum u) :: u.

Definition unit_vector (a n : Z) : list Z :=
  unit_vector_x (bits_of a (bit_length (n - 1))) n.

(** the composition actually executed, with to_bits on its random tape *)
Definition unit_vector_tape (p : Z) (L f : nat) (integral : bool) (A : Z) (n : Z)
                            (rbits : list Z) (rdivl : Z) : list Z :=
  let k := bit_length (n - 1) in
  unit_vector_x (skipn f (to_bits_num p L f integral A (k + f) rbits rdivl)) n.

(* ------------------------------------------------------------------------------------- *)
(** * find *)

Inductive aarg := AInt (a : Z) | ASec (a : Z).       (* public int / secure number *)
Inductive earg := ERaw | EStr (off : Z) | EVal (e : Z). (* e=None / e='len(x)+off' / e=E *)

(** reduction to "index of the first 0" *)
Definition find_reduce (x : list Z) (a : aarg) (bits : bool) : list Z :=
  if bits then
    match a with
    | AInt a => if a =? 1 then zipw Z.sub (repeat 1 (length x)) x else x
    | ASec a => zipw Z.add (repeat a (length x)) (map (fun b => (1 - 2 * a) * b) x)
    end
  else
    let a := match a with AInt a => a | ASec a => a end in
    map (fun b => if b =? a then 0 else 1) x.               (* [b != a for b in x] *)

(** if_else(c, x, y) on lists: c * (x[i] - y[i]) + y[i] *)
Definition if_else_list (c : Z) (x y : list Z) : list Z :=
  zipw (fun xi yi => c * (xi - yi) + yi) x y.

Fixpoint cl (fuel : nat) (x : arr) (cs_f : Z -> Z -> list Z) (i j : nat) : list Z :=
  match fuel with
  | O => []
  | S fuel' =>
    let n := (j - i)%nat in
    if (n =? 1)%nat then
      let b := x i in b :: cs_f b (Z.of_nat i)                (* [b] + cs_f(b, i) *)
    else
      let h := (i + n / 2)%nat in
      let nf := cl fuel' x cs_f i h in                        (* nf[0] <=> "0 is not found" *)
      if_else_list (hd 0 nf) (cl fuel' x cs_f h j) nf
  end.

(** cs_f computed from f by the docstring's rule (2-star): b (f(i+1) - f(i)) + f(i) *)
Definition cs_of_f (f : Z -> list Z) : Z -> Z -> list Z :=
  fun b i => zipw (fun f_i f_i1 => b * (f_i1 - f_i) + f_i) (f i) (f (i + 1)).

(** the part of find after the arguments have been resolved: x1 = reduced list, ev = evaluated e *)
Definition find_core (x1 : list Z) (ev : option Z) (f' : Z -> list Z) (cs' : Z -> Z -> list Z)
  : option (option Z * list Z) :=
  let n := length x1 in
  match x1 with
  | [] => match ev with
          | None => Some (Some 1, f' 0)                     (* nf, y = 1, f(0) *)
          | Some e => Some (None, f' e)                     (* y = f(e) *)
          end
  | _ :: _ =>
    match cl n (arr_of x1) cs' 0 n with                     (* nf, *f_ix = cl(0, len(x)) *)
    | [] => None
    | nf :: f_ix =>
      match ev with
      | None => Some (Some nf, f_ix)
      | Some e => Some (None, if_else_list nf (f' e) f_ix)  (* if_else(nf, f_e, f_ix) *)
      end
    end
  end.

(** Result: [None] = the call raises (no longer produced by any argument form); [Some (Some nf, y)] = raw mode pair; [Some (None, y)] = y.
    Values of f / cs_f are lists (an int-valued f is wrapped in a singleton, as the code does;
    the final unwrapping y[0] / tuple(y) is presentation only). *)
Definition find (x : list Z) (a : aarg) (bits : bool) (e : earg)
                (f : option (Z -> list Z)) (cs_f : option (Z -> Z -> list Z))
  : option (option Z * list Z) :=
  let x1 := find_reduce x a bits in
  let n := length x1 in
  let fc := match cs_f, f with
            | None, None => Some (fun i => [i], fun b i => [i + b])
            | None, Some f => Some (f, cs_of_f f)
            | Some cs, None => Some (fun i => cs 0 i, cs)
            | Some cs, Some f => Some (f, cs)   (* both given: used as they are (wrapping is presentation) *)
            end in
  match fc with
  | None => None
  | Some (f', cs') =>
    let ev := match e with
              | ERaw => None
              | EStr off => Some (Z.of_nat n + off)
              | EVal v => Some v
              end in
    find_core x1 ev f' cs'
  end.

(* ------------------------------------------------------------------------------------- *)
(** * gcp2 *)

Definition gcp2 (p : Z) (L : nat) (A B : Z) (l : nat) (ra : list Z) (da : Z) (rb : list Z) (db : Z) : option Z :=
  let x := trailing_zeros p L A l ra da in
  let y := trailing_zeros p L B l rb db in
  let z := zipw Z.sub (zipw Z.add x y) (zipw Z.mul x y) in      (* bitwise or *)
  match find z (AInt 1) true ERaw None (Some (fun b i => [(b + 1) * 2 ^ i])) with
  | Some (_, f_i :: _) => Some f_i
  | _ => None
  end.

(* ===================================================================================== *)
(** * Proofs *)

Local Arguments Z.mul : simpl never.
Local Arguments Z.add : simpl never.
Local Arguments Z.sub : simpl never.
Local Arguments Z.pow : simpl never.
Local Arguments Z.div : simpl never.
Local Arguments Z.modulo : simpl never.
Local Arguments Z.of_nat : simpl never.
Local Arguments Z.to_nat : simpl never.

Lemma zsum_cons a u : zsum (a :: u) = a + zsum u.
Proof.
  unfold zsum. cbn [fold_left].
  assert (G : forall l s, fold_left Z.add l s = s + fold_left Z.add l 0).
  { induction l as [|c l IH]; intros s; cbn [fold_left]; [lia|]. rewrite IH, (IH (0 + c)). lia. }
  rewrite G. lia.
Qed.

Lemma zsum_map_mul c u : zsum (map (fun d => c * d) u) = c * zsum u.
Proof.
  induction u as [|a u IH]; [unfold zsum; cbn; lia|].
  cbn [map]. rewrite !zsum_cons, IH. ring.
Qed.

(* ------------------------------------------------------------------------------------- *)
(** ** unit_vector *)

(** the vector of length B with a 1 at position A - 1 (all zero if A - 1 is out of range) *)
Fixpoint unitv (A : Z) (B : nat) : list Z :=
  match B with O => [] | S B' => (if A =? 1 then 1 else 0) :: unitv (A - 1) B' end.

Lemma unitv_length A B : length (unitv A B) = B.
Proof. revert A; induction B as [|B IH]; intros A; cbn [unitv length]; auto. Qed.

Lemma nth_unitv B : forall A i, (i < B)%nat ->
  nth i (unitv A B) 0 = if Z.of_nat i =? A - 1 then 1 else 0.
Proof.
  induction B as [|B IH]; intros A i Hi; [lia|].
  destruct i as [|i]; cbn [unitv nth].
  - destruct (Z.eqb_spec A 1), (Z.eqb_spec (Z.of_nat 0) (A - 1)); lia.
  - rewrite IH by lia. destruct (Z.eqb_spec (Z.of_nat i) (A - 1 - 1)), (Z.eqb_spec (Z.of_nat (S i)) (A - 1)); lia.
Qed.

Lemma zsum_unitv B : forall A,
  zsum (unitv A B) = if ((1 <=? A) && (A <=? Z.of_nat B))%bool then 1 else 0.
Proof.
  induction B as [|B IH]; intros A.
  - unfold zsum. cbn. destruct (Z.leb_spec 1 A), (Z.leb_spec A (Z.of_nat 0)); cbn [andb]; lia.
  - cbn [unitv]. rewrite zsum_cons, IH.
    destruct (Z.eqb_spec A 1), (Z.leb_spec 1 (A - 1)), (Z.leb_spec (A - 1) (Z.of_nat B)),
      (Z.leb_spec 1 A), (Z.leb_spec A (Z.of_nat (S B))); cbn [andb]; lia.
Qed.

Lemma removelast_unitv m : forall A, removelast (unitv A (S m)) = unitv A m.
Proof.
  induction m as [|m IH]; intros A; [reflexivity|].
  change (unitv A (S (S m))) with ((if A =? 1 then 1 else 0) :: unitv (A - 1) (S m)).
  change (unitv A (S m)) with ((if A =? 1 then 1 else 0) :: unitv (A - 1) m).
  rewrite <- IH. cbn [unitv]. reflexivity.
Qed.

Lemma interleave_maps xi u :
  interleave (zipw Z.sub u (map (fun c => xi * c) u)) (map (fun c => xi * c) u)
  = flat_map (fun c => [c - xi * c; xi * c]) u.
Proof.
  induction u as [|a u IH]; [reflexivity|].
  cbn [map zipw interleave flat_map app]. rewrite IH. reflexivity.
Qed.

Lemma flat_unitv xi B : isbit xi -> forall A,
  flat_map (fun c => [c - xi * c; xi * c]) (unitv A B) = unitv (2 * A + xi - 1) (2 * B).
Proof.
  intros Hx. induction B as [|B IH]; intros A; [reflexivity|].
  replace (2 * S B)%nat with (S (S (2 * B))) by lia.
  cbn [unitv flat_map app]. rewrite IH.
  replace (2 * A + xi - 1 - 1 - 1) with (2 * (A - 1) + xi - 1) by ring.
  f_equal; [|f_equal].
  - destruct Hx as [-> | ->], (Z.eqb_spec A 1), (Z.eqb_spec (2 * A + 0 - 1) 1), (Z.eqb_spec (2 * A + 1 - 1) 1); lia.
  - destruct Hx as [-> | ->], (Z.eqb_spec A 1), (Z.eqb_spec (2 * A + 0 - 1 - 1) 1), (Z.eqb_spec (2 * A + 1 - 1 - 1) 1); lia.
Qed.

(** one loop iteration maps the invariant for (A, B) to the invariant for (2A + x_i, 2B + b_i) *)
Lemma uv_step_unitv xi bb A B :
  isbit xi -> isbit bb -> 0 <= A -> (A <= Z.of_nat B \/ xi = 0) ->
  uv_step xi bb (unitv A B) = unitv (2 * A + xi) (2 * B + Z.to_nat bb).
Proof.
  intros Hx Hb HA Hc. unfold uv_step.
  rewrite interleave_maps, zsum_map_mul, zsum_unitv, flat_unitv by exact Hx.
  assert (E : (xi - xi * (if ((1 <=? A) && (A <=? Z.of_nat B))%bool then 1 else 0))
                :: unitv (2 * A + xi - 1) (2 * B) = unitv (2 * A + xi) (S (2 * B))).
  { cbn [unitv]. f_equal.
    destruct Hx as [-> | ->], (Z.leb_spec 1 A), (Z.leb_spec A (Z.of_nat B)),
      (Z.eqb_spec (2 * A + 0) 1), (Z.eqb_spec (2 * A + 1) 1); cbn [andb]; lia. }
  rewrite E. destruct Hb as [-> | ->].
  - rewrite Z.eqb_refl. rewrite removelast_unitv. f_equal. change (Z.to_nat 0) with O. lia.
  - change (1 =? 0) with false. cbv iota. f_equal. change (Z.to_nat 1) with 1%nat. lia.
Qed.

Lemma bit_at_isbit c i : isbit (bit_at c i).
Proof. rewrite bit_at_spec. unfold isbit. lia. Qed.

Lemma div_pow2_succ c i : c / 2 ^ Z.of_nat i = 2 * (c / 2 ^ Z.of_nat (S i)) + (c / 2 ^ Z.of_nat i) mod 2.
Proof.
  rewrite Nat2Z.inj_succ, Z.pow_succ_r by lia.
  rewrite (Z.mul_comm 2 (2 ^ Z.of_nat i)).
  rewrite <- (Z.div_div c (2 ^ Z.of_nat i) 2) by (try apply pow2_pos; lia).
  apply Z.div_mod. lia.
Qed.

Lemma uv_loop_inv a b k : 0 <= a -> 0 <= b ->
  forall i u, (i <= k)%nat ->
    u = unitv (a / 2 ^ Z.of_nat i) (Z.to_nat (b / 2 ^ Z.of_nat i)) ->
    (forall j, (j < i)%nat -> a / 2 ^ Z.of_nat (S j) <= b / 2 ^ Z.of_nat (S j) \/ (a / 2 ^ Z.of_nat j) mod 2 = 0) ->
    uv_loop (bits_of a k) b i u = unitv a (Z.to_nat b).
Proof.
  intros Ha Hb. induction i as [|i IH]; intros u Hi Hu Hc.
  - cbn [uv_loop]. subst u. change (Z.of_nat 0) with 0. rewrite Z.pow_0_r, !Z.div_1_r. reflexivity.
  - cbn [uv_loop]. apply IH; [lia| |intros j Hj; apply Hc; lia].
    subst u. rewrite nth_bits_of by lia.
    pose proof (pow2_pos (S i)) as Pp.
    assert (HA : 0 <= a / 2 ^ Z.of_nat (S i)) by (apply Z.div_pos; lia).
    assert (HB : 0 <= b / 2 ^ Z.of_nat (S i)) by (apply Z.div_pos; lia).
    rewrite uv_step_unitv.
    + rewrite <- div_pow2_succ. f_equal.
      rewrite (div_pow2_succ b i). rewrite <- bit_at_spec.
      pose proof (bit_at_isbit b i) as Hbit.
      rewrite Z2Nat.inj_add by (destruct Hbit; lia).
      rewrite Z2Nat.inj_mul by lia. reflexivity.
    + unfold isbit. lia.
    + apply bit_at_isbit.
    + exact HA.
    + rewrite Z2Nat.id by exact HB. apply Hc. lia.
Qed.

Lemma bit_length_spec b : 0 <= b -> b / 2 ^ Z.of_nat (bit_length b) = 0.
Proof.
  intros Hb. destruct b as [|q|q]; [reflexivity| |lia].
  unfold bit_length. cbn [Z.abs].
  pose proof (Z.log2_spec (Z.pos q) ltac:(lia)) as [_ H].
  pose proof (Z.log2_nonneg (Z.pos q)).
  rewrite Z2Nat.id by lia. apply Z.div_small. lia.
Qed.

(** general form: valid whenever, going down the bits, a's prefix never exceeds b's prefix
    unless the next bit of a is 0 *)
Lemma unit_vector_gen a n : 0 <= a -> 1 <= n ->
  (forall j, a / 2 ^ Z.of_nat (S j) <= (n - 1) / 2 ^ Z.of_nat (S j) \/ (a / 2 ^ Z.of_nat j) mod 2 = 0) ->
  unit_vector a n = (if a <=? n - 1 then (if a =? 0 then 1 else 0) else 1) :: unitv a (Z.to_nat (n - 1)).
Proof.
  intros Ha Hn Hc. unfold unit_vector, unit_vector_x.
  rewrite (uv_loop_inv a (n - 1) (bit_length (n - 1)) Ha ltac:(lia) (bit_length (n - 1)) []).
  - f_equal. rewrite zsum_unitv. rewrite Z2Nat.id by lia.
    destruct (Z.leb_spec 1 a), (Z.leb_spec a (n - 1)), (Z.eqb_spec a 0); cbn [andb]; lia.
  - lia.
  - rewrite bit_length_spec by lia. reflexivity.
  - intros j _. apply Hc.
Qed.

(** ** unit_vector a n is the a-th unit vector of length n, for all n and all 0 <= a < n *)
Theorem unit_vector_correct a n : 0 <= a < n ->
  length (unit_vector a n) = Z.to_nat n /\
  forall i, (i < Z.to_nat n)%nat ->
    nth i (unit_vector a n) 0 = if Z.of_nat i =? a then 1 else 0.
Proof.
  intros Han.
  rewrite unit_vector_gen; [| lia | lia |].
  - split.
    + cbn [length]. rewrite unitv_length. lia.
    + intros i Hi. destruct (Z.leb_spec a (n - 1)); [|lia].
      destruct i as [|i]; cbn [nth].
      * destruct (Z.eqb_spec a 0), (Z.eqb_spec (Z.of_nat 0) a); lia.
      * rewrite nth_unitv by lia.
        destruct (Z.eqb_spec (Z.of_nat i) (a - 1)), (Z.eqb_spec (Z.of_nat (S i)) a); lia.
  - intros j. left. apply Z.div_le_mono; [apply pow2_pos | lia].
Qed.

(** ** the documented wrap: a = n gives [1] + [0]*(n-1) *)
Theorem unit_vector_wrap n : 1 <= n -> unit_vector n n = 1 :: repeat 0 (Z.to_nat (n - 1)).
Proof.
  intros Hn. rewrite unit_vector_gen; [| lia | lia |].
  - destruct (Z.leb_spec n (n - 1)); [lia|]. f_equal.
    apply nth_ext with (d := 0) (d' := 0).
    + rewrite unitv_length, repeat_length. reflexivity.
    + intros i Hi. rewrite unitv_length in Hi. rewrite nth_unitv by exact Hi. rewrite nth_repeat.
      destruct (Z.eqb_spec (Z.of_nat i) (n - 1)); lia.
  - intros j.
    set (P := 2 ^ Z.of_nat j). assert (HP : 0 < P) by apply pow2_pos.
    rewrite Nat2Z.inj_succ, Z.pow_succ_r by lia. fold P.
    (* n = (2P) q + r; if r = 0 then n / P = 2 q is even, else (n-1) / (2P) = q as well *)
    pose proof (Z.div_mod n (2 * P) ltac:(lia)) as Dn.
    pose proof (Z.mod_pos_bound n (2 * P) ltac:(lia)) as Bn.
    set (q := n / (2 * P)) in *. set (r := n mod (2 * P)) in *. clearbody q r.
    destruct (Z.eq_dec r 0) as [Hr|Hr].
    + right. replace n with ((2 * q) * P) by lia. rewrite Z.div_mul by lia.
      rewrite Z.mul_comm. apply Z.mod_mul. lia.
    + left. assert (E : (n - 1) / (2 * P) = q).
      { symmetry. apply Z.div_unique with (r := r - 1); lia. }
      rewrite E. lia.
Qed.

(* ------------------------------------------------------------------------------------- *)
(** ** find *)

(** index of the first occurrence of a in x; length x if absent *)
Fixpoint first_idx (a : Z) (x : list Z) : nat :=
  match x with [] => O | b :: x' => if b =? a then O else S (first_idx a x') end.

(** first k in [i, i+len) with x k = 0; i+len if none *)
Fixpoint first0 (x : arr) (i len : nat) : nat :=
  match len with O => i | S len' => if x i =? 0 then i else first0 x (S i) len' end.

Lemma first0_bounds x len : forall i, (i <= first0 x i len <= i + len)%nat.
Proof.
  induction len as [|len IH]; intros i; cbn [first0]; [lia|].
  destruct (x i =? 0); [lia|]. specialize (IH (S i)). lia.
Qed.

Lemma first0_split x a : forall i b,
  first0 x i (a + b) = if (first0 x i a =? i + a)%nat then first0 x (i + a) b else first0 x i a.
Proof.
  induction a as [|a IH]; intros i b.
  - cbn [Nat.add first0]. rewrite Nat.add_0_r, Nat.eqb_refl. reflexivity.
  - cbn [Nat.add first0]. destruct (x i =? 0).
    + destruct (Nat.eqb_spec i (i + S a)); [lia|reflexivity].
    + rewrite IH. replace (S i + a)%nat with (i + S a)%nat by lia. reflexivity.
Qed.

Lemma first0_shift b l : forall i len, first0 (arr_of (b :: l)) (S i) len = S (first0 (arr_of l) i len).
Proof.
  intros i len. revert i. induction len as [|len IH]; intros i; cbn [first0]; [reflexivity|].
  change (arr_of (b :: l) (S i)) with (arr_of l i). destruct (arr_of l i =? 0); [reflexivity|]. apply IH.
Qed.

Lemma first0_first_idx l : first0 (arr_of l) 0 (length l) = first_idx 0 l.
Proof.
  induction l as [|b l IH]; [reflexivity|].
  cbn [length first0 first_idx]. change (arr_of (b :: l) 0%nat) with b.
  destruct (b =? 0); [reflexivity|]. rewrite first0_shift, IH. reflexivity.
Qed.

Lemma first_idx_le a x : (first_idx a x <= length x)%nat.
Proof. induction x as [|b x IH]; cbn [first_idx length]; [lia|]. destruct (b =? a); lia. Qed.

Lemma zipw_length {A B C} (g : A -> B -> C) x : forall y, length y = length x -> length (zipw g x y) = length x.
Proof.
  induction x as [|a x IH]; intros [|b y] H; cbn [zipw length] in *; try lia. rewrite IH; lia.
Qed.

Lemma if_else_list_1 x : forall y, length y = length x -> if_else_list 1 x y = x.
Proof.
  unfold if_else_list. induction x as [|a x IH]; intros [|b y] H; cbn [zipw length] in *; try lia; try reflexivity.
  rewrite IH by lia. f_equal; try ring.
Qed.

Lemma if_else_list_0 x : forall y, length y = length x -> if_else_list 0 x y = y.
Proof.
  unfold if_else_list. induction x as [|a x IH]; intros [|b y] H; cbn [zipw length] in *; try lia; try reflexivity.
  rewrite IH by lia. f_equal; try ring.
Qed.

Section FindCore.
Variable f' : Z -> list Z.
Variable cs' : Z -> Z -> list Z.
Hypothesis cs0 : forall i, 0 <= i -> cs' 0 i = f' i.
Hypothesis cs1 : forall i, 0 <= i -> cs' 1 i = f' (i + 1).               (* the docstring's (star): cs_f(b, i) = f(i + b) *)
Hypothesis flen : forall i j, length (f' i) = length (f' j).

(** cl(i, j) = [not found in x[i:j]] + f(index of the first 0 in x[i:j], or j) *)
Lemma cl_spec (x : arr) fuel : forall i j, (i < j)%nat -> (j - i <= fuel)%nat ->
  (forall k, (i <= k < j)%nat -> isbit (x k)) ->
  cl fuel x cs' i j
  = (if (first0 x i (j - i) =? j)%nat then 1 else 0) :: f' (Z.of_nat (first0 x i (j - i))).
Proof.
  induction fuel as [|fuel IH]; intros i j Hij Hfuel Hb; [lia|].
  cbn [cl]. destruct (Nat.eqb_spec (j - i) 1) as [E|E].
  - assert (j = S i) by lia. subst j. rewrite E. cbn [first0].
    destruct (Hb i ltac:(lia)) as [H0|H1].
    + rewrite H0. change (0 =? 0) with true. cbv iota.
      destruct (Nat.eqb_spec i (S i)); [lia|]. rewrite cs0 by lia. reflexivity.
    + rewrite H1. change (1 =? 0) with false. cbv iota. rewrite Nat.eqb_refl, cs1 by lia.
      rewrite Nat2Z.inj_succ. reflexivity.
  - set (h := (i + (j - i) / 2)%nat).
    assert (Hh : (i < h < j)%nat) by (unfold h; apply half_split; lia). clearbody h.
    rewrite (IH i h) by (try lia; intros; apply Hb; lia).
    rewrite (IH h j) by (try lia; intros; apply Hb; lia).
    cbn [hd].
    replace (j - i)%nat with ((h - i) + (j - h))%nat by lia.
    rewrite first0_split. replace (i + (h - i))%nat with h by lia.
    pose proof (first0_bounds x (h - i) i) as B1.
    destruct (Nat.eqb_spec (first0 x i (h - i)) h) as [F|F].
    + apply if_else_list_1. cbn [length]. f_equal. apply flen.
    + rewrite if_else_list_0 by (cbn [length]; f_equal; apply flen).
      destruct (Nat.eqb_spec (first0 x i (h - i)) j); [lia|reflexivity].
Qed.

(** ** find on the reduced list: f(index of the first 0), or f(e) if there is none; raw mode
    returns the not-found bit and f(index) (f(len x) if not found) *)
Theorem find_core_correct x1 ev : allbits x1 ->
  let ix := first_idx 0 x1 in
  let found := (ix <? length x1)%nat in
  find_core x1 ev f' cs'
  = Some (match ev with
          | None => (Some (if found then 0 else 1), f' (Z.of_nat ix))
          | Some e => (None, if found then f' (Z.of_nat ix) else f' e)
          end).
Proof.
  intros Hb ix found. subst ix found. unfold find_core.
  destruct x1 as [|b0 x'].
  - cbn. destruct ev; reflexivity.
  - cbv iota. set (x1 := b0 :: x') in *.
    assert (Hn : (1 <= length x1)%nat) by (unfold x1; cbn [length]; lia). clearbody x1.
    rewrite cl_spec; try lia.
    + rewrite Nat.sub_0_r, first0_first_idx.
      pose proof (first_idx_le 0 x1) as Hle.
      destruct (Nat.eqb_spec (first_idx 0 x1) (length x1)) as [E|E];
        destruct (Nat.ltb_spec (first_idx 0 x1) (length x1)) as [L|L]; try lia.
      * destruct ev as [e|]; [|reflexivity]. rewrite if_else_list_1 by apply flen. reflexivity.
      * destruct ev as [e|]; [|reflexivity]. rewrite if_else_list_0 by apply flen. reflexivity.
    + intros k _. apply allbits_nth. exact Hb.
Qed.
End FindCore.

(** cs_f computed from f by rule (2-star) satisfies (star) *)
Lemma zipw_swap_if c (x y : list Z) :
  zipw (fun f_i f_i1 => c * (f_i1 - f_i) + f_i) x y = if_else_list c y x.
Proof.
  unfold if_else_list. revert y. induction x as [|a x IH]; intros [|b y]; cbn [zipw]; try reflexivity.
  rewrite IH. reflexivity.
Qed.

Lemma cs_of_f_spec f : (forall i j, length (f i) = length (f j)) ->
  (forall i, cs_of_f f 0 i = f i) /\ (forall i, cs_of_f f 1 i = f (i + 1)).
Proof.
  intros Hl. split; intros i; unfold cs_of_f; rewrite zipw_swap_if.
  - apply if_else_list_0. apply Hl.
  - apply if_else_list_1. apply Hl.
Qed.

(** *** the reduction to "first 0" *)
Definition aval (a : aarg) : Z := match a with AInt a => a | ASec a => a end.

Lemma zipw_repeat_l {B C} (g : Z -> B -> C) c (x : list B) : zipw g (repeat c (length x)) x = map (g c) x.
Proof. induction x as [|b x IH]; cbn [length repeat zipw map]; [reflexivity|]. rewrite IH. reflexivity. Qed.

Lemma find_reduce_map x a bits : (bits = true -> isbit (aval a)) ->
  find_reduce x a bits
  = map (fun b => if bits then (if aval a =? 1 then 1 - b else b) else (if b =? aval a then 0 else 1)) x.
Proof.
  intros Ha. unfold find_reduce. destruct bits; [|destruct a; reflexivity].
  specialize (Ha eq_refl). destruct a as [a|a]; cbn [aval] in *.
  - destruct (a =? 1); [apply zipw_repeat_l|]. symmetry. apply map_id.
  - rewrite <- (map_length (fun b => (1 - 2 * a) * b) x). rewrite zipw_repeat_l, map_map.
    apply map_ext. intros b. destruct Ha as [-> | ->]; cbn; lia.
Qed.

Lemma first_idx_map (g : Z -> Z) a x : (forall b, In b x -> (g b =? 0) = (b =? a)) ->
  first_idx 0 (map g x) = first_idx a x.
Proof.
  induction x as [|b x IH]; intros H; [reflexivity|].
  cbn [map first_idx]. rewrite H by (left; reflexivity). destruct (b =? a); [reflexivity|].
  f_equal. apply IH. intros c Hc. apply H. right. exact Hc.
Qed.

Definition find_wf (x : list Z) (a : aarg) (bits : bool) : Prop :=
  bits = true -> allbits x /\ isbit (aval a).

Lemma find_reduce_spec x a bits : find_wf x a bits ->
  allbits (find_reduce x a bits) /\ length (find_reduce x a bits) = length x /\
  first_idx 0 (find_reduce x a bits) = first_idx (aval a) x.
Proof.
  intros Hw. rewrite find_reduce_map by (intros E; apply Hw; exact E).
  split; [|split].
  - apply Forall_forall. intros c Hc. apply in_map_iff in Hc. destruct Hc as [b [<- Hb]].
    destruct bits.
    + destruct (Hw eq_refl) as [Hx _]. pose proof (proj1 (Forall_forall _ _) Hx b Hb) as Hbb.
      destruct (aval a =? 1), Hbb as [-> | ->]; unfold isbit; lia.
    + destruct (b =? aval a); unfold isbit; lia.
  - apply map_length.
  - apply first_idx_map. intros b Hb. destruct bits.
    + destruct (Hw eq_refl) as [Hx Ha]. pose proof (proj1 (Forall_forall _ _) Hx b Hb) as Hbb.
      destruct Ha as [-> | ->], Hbb as [-> | ->]; reflexivity.
    + destruct (b =? aval a); reflexivity.
Qed.

(** the specified result of find *)
Definition find_result (x : list Z) (av : Z) (e : earg) (F : Z -> list Z) : option Z * list Z :=
  let ix := first_idx av x in
  let found := (ix <? length x)%nat in
  match e with
  | ERaw => (Some (if found then 0 else 1), F (Z.of_nat ix))
  | EStr off => (None, if found then F (Z.of_nat ix) else F (Z.of_nat (length x) + off))
  | EVal v => (None, if found then F (Z.of_nat ix) else F v)
  end.

(** effective f of a call *)
Definition find_F (f : option (Z -> list Z)) (cs_f : option (Z -> Z -> list Z)) : option (Z -> list Z) :=
  match cs_f, f with
  | None, None => Some (fun i => [i])
  | None, Some f => Some f
  | Some cs, None => Some (fun i => cs 0 i)
  | Some _, Some f => Some f
  end.

(** ** find returns f(index of the first occurrence of a) — or f(e) if a is absent, or the raw
    pair — for every list and every form of a, e, f, cs_f (default, f only, cs_f only, both);
    a given cs_f must satisfy the docstring's (star) w.r.t. the effective f:
    cs_f(b, i) = F(i + b) for b in {0, 1} (for the cs_f-only form F(i) = cs_f(0, i)). *)
Theorem find_correct x a bits e f cs_f F :
  find_wf x a bits ->
  find_F f cs_f = Some F ->
  (forall i j, length (F i) = length (F j)) ->
  (forall cs, cs_f = Some cs -> forall i, 0 <= i -> cs 0 i = F i /\ cs 1 i = F (i + 1)) ->
  find x a bits e f cs_f = Some (find_result x (aval a) e F).
Proof.
  intros Hwf HF Hlen Hcs.
  destruct (find_reduce_spec x a bits Hwf) as (Rb & Rl & Ri).
  unfold find.
  assert (G : forall f' cs', (forall i, 0 <= i -> cs' 0 i = f' i) -> (forall i, 0 <= i -> cs' 1 i = f' (i + 1)) -> F = f' ->
              find_core (find_reduce x a bits)
                match e with ERaw => None | EStr off => Some (Z.of_nat (length (find_reduce x a bits)) + off)
                           | EVal v => Some v end f' cs'
              = Some (find_result x (aval a) e F)).
  { intros f' cs' C0 C1 ->. rewrite (find_core_correct f' cs' C0 C1 Hlen) by exact Rb.
    rewrite Ri, Rl. unfold find_result. destruct e; reflexivity. }
  destruct cs_f as [cs|], f as [f0|]; cbn [find_F] in HF; injection HF as <-.
  - apply G; [| |reflexivity]; intros i Hi; apply (Hcs cs eq_refl i Hi).
  - apply G; [| |reflexivity]; intros i Hi; apply (Hcs cs eq_refl i Hi).
  - destruct (cs_of_f_spec f0 Hlen) as [C0 C1]. apply G; auto.
  - apply G; [intros i _; f_equal; ring | intros i _; reflexivity | reflexivity].
Qed.

(** both f and cs_f given (consistent): the same result as with f alone *)
Corollary find_both_correct x a bits e f cs :
  find_wf x a bits ->
  (forall i j, length (f i) = length (f j)) ->
  (forall i, 0 <= i -> cs 0 i = f i /\ cs 1 i = f (i + 1)) ->
  find x a bits e (Some f) (Some cs) = Some (find_result x (aval a) e f).
Proof.
  intros Hwf Hl Hc. apply find_correct; auto.
  intros cs' E. injection E as <-. exact Hc.
Qed.

(** the empty list: f(e), or the raw pair (1, f(0)), for every form of a (incl. public a = 1) *)
Corollary find_empty a bits e f cs_f F :
  find_F f cs_f = Some F ->
  (forall i j, length (F i) = length (F j)) ->
  (forall cs, cs_f = Some cs -> forall i, 0 <= i -> cs 0 i = F i /\ cs 1 i = F (i + 1)) ->
  (bits = true -> isbit (aval a)) ->
  find [] a bits e f cs_f
  = Some (match e with ERaw => (Some 1, F 0) | EStr off => (None, F (0 + off)) | EVal v => (None, F v) end).
Proof.
  intros HF Hl Hc Ha.
  assert (Hwf : find_wf [] a bits) by (intros E; split; [constructor|auto]).
  rewrite (find_correct [] a bits e f cs_f F Hwf HF Hl Hc).
  unfold find_result. cbn. destruct e; reflexivity.
Qed.


(* ------------------------------------------------------------------------------------- *)
(** ** gcp2 *)

Lemma zipw_or_fuse : forall x y : list Z,
  zipw Z.sub (zipw Z.add x y) (zipw Z.mul x y) = zipw (fun a b => a + b - a * b) x y.
Proof.
  induction x as [|a x IH]; intros [|b y]; cbn [zipw]; try reflexivity. rewrite IH. reflexivity.
Qed.

Lemma nth_zipw (g : Z -> Z -> Z) : forall (x y : list Z) i, (i < length x)%nat -> (i < length y)%nat ->
  nth i (zipw g x y) 0 = g (nth i x 0) (nth i y 0).
Proof.
  induction x as [|a x IH]; intros [|b y] i Hx Hy; cbn [length] in *; try lia.
  destruct i as [|i]; cbn [zipw nth]; [reflexivity|]. apply IH; lia.
Qed.

Lemma zipw_or_bits : forall x y, allbits x -> allbits y -> allbits (zipw (fun a b => a + b - a * b) x y).
Proof.
  induction x as [|a x IH]; intros [|b y] Hx Hy; cbn [zipw]; try constructor.
  - inversion Hx as [|? ? Ha _]; inversion Hy as [|? ? Hb _]; subst.
    destruct Ha as [-> | ->], Hb as [-> | ->]; unfold isbit; lia.
  - inversion Hx; inversion Hy; subst. apply IH; assumption.
Qed.

Lemma first_idx_char a : forall z t, (t < length z)%nat -> nth t z 0 = a ->
  (forall i, (i < t)%nat -> nth i z 0 <> a) -> first_idx a z = t.
Proof.
  induction z as [|b z IH]; intros t Ht Hn Hlow; cbn [length] in Ht; [lia|].
  cbn [first_idx]. destruct t as [|t].
  - cbn [nth] in Hn. subst b. rewrite Z.eqb_refl. reflexivity.
  - destruct (Z.eqb_spec b a) as [E|E].
    + exfalso. apply (Hlow O); [lia|exact E].
    + f_equal. apply IH; [lia|exact Hn|]. intros i Hi. apply (Hlow (S i)). lia.
Qed.

Lemma first_idx_absent a : forall z, (forall i, (i < length z)%nat -> nth i z 0 <> a) -> first_idx a z = length z.
Proof.
  induction z as [|b z IH]; intros H; [reflexivity|].
  cbn [first_idx length]. destruct (Z.eqb_spec b a) as [E|E].
  - exfalso. apply (H O); [cbn [length]; lia|exact E].
  - f_equal. apply IH. intros i Hi. apply (H (S i)). cbn [length]. lia.
Qed.

Lemma low_zero A t i : A mod 2 ^ Z.of_nat t = 0 -> (i < t)%nat ->
  A mod 2 ^ Z.of_nat i = 0 /\ (A / 2 ^ Z.of_nat i) mod 2 = 0.
Proof.
  intros H0 Hi.
  assert (El : 2 ^ Z.of_nat t = 2 ^ Z.of_nat i * (2 * 2 ^ Z.of_nat (t - i - 1))).
  { rewrite <- Z.pow_succ_r, <- Z.pow_add_r by lia. f_equal. lia. }
  pose proof (pow2_pos i) as Pi. pose proof (pow2_pos (t - i - 1)) as Pj.
  rewrite El in H0. rewrite Z.rem_mul_r in H0 by lia.
  pose proof (Z.mod_pos_bound A (2 ^ Z.of_nat i) Pi) as B1.
  pose proof (Z.mod_pos_bound (A / 2 ^ Z.of_nat i) (2 * 2 ^ Z.of_nat (t - i - 1)) ltac:(lia)) as B2.
  set (m1 := A mod 2 ^ Z.of_nat i) in *.
  set (m2 := (A / 2 ^ Z.of_nat i) mod (2 * 2 ^ Z.of_nat (t - i - 1))) in *.
  assert (M1 : m1 = 0) by nia.
  assert (M2 : m2 = 0) by nia.
  split; [exact M1|].
  unfold m2 in M2. rewrite Z.rem_mul_r in M2 by lia.
  pose proof (Z.mod_pos_bound (A / 2 ^ Z.of_nat i) 2 ltac:(lia)) as B3.
  pose proof (Z.mod_pos_bound (A / 2 ^ Z.of_nat i / 2) (2 ^ Z.of_nat (t - i - 1)) Pj) as B4.
  lia.
Qed.

Definition tape_ok (p : Z) (L : nat) (A : Z) (l : nat) (rbits : list Z) (rdivl : Z) : Prop :=
  length rbits = l /\ allbits rbits /\
  0 <= A + (2 ^ Z.of_nat L + rdivl * 2 ^ Z.of_nat l + value rbits) < p.

Lemma gcp2_find p L A B l ra da rb db ix :
  allbits ra -> allbits rb ->
  first_idx 1 (zipw (fun a b => a + b - a * b) (trailing_zeros p L A l ra da) (trailing_zeros p L B l rb db)) = ix ->
  gcp2 p L A B l ra da rb db = Some (2 ^ Z.of_nat ix).
Proof.
  intros Ha Hb Hix. unfold gcp2. rewrite zipw_or_fuse.
  set (z := zipw _ _ _) in *.
  assert (Lz : length z = l).
  { unfold z. rewrite zipw_length; rewrite !trailing_zeros_length; reflexivity. }
  rewrite (find_correct z (AInt 1) true ERaw None (Some (fun b i => [(b + 1) * 2 ^ i]))
             (fun i => [(0 + 1) * 2 ^ i])).
  - unfold find_result. cbn [aval]. rewrite Hix. f_equal. ring.
  - intros _. split; [|right; reflexivity].
    unfold z. apply zipw_or_bits; apply trailing_zeros_allbits; assumption.
  - reflexivity.
  - reflexivity.
  - intros cs Hcs i Hi. injection Hcs as <-. split; [reflexivity|]. f_equal.
    rewrite Z.pow_add_r by lia. ring.
Qed.

(** ** gcp2 a b = 2^t where t is the position of the lowest 1 of a or b (t < l) *)
Theorem gcp2_correct p L A B l ra da rb db t :
  (l <= L)%nat -> tape_ok p L A l ra da -> tape_ok p L B l rb db ->
  (t < l)%nat -> A mod 2 ^ Z.of_nat t = 0 -> B mod 2 ^ Z.of_nat t = 0 ->
  ((A / 2 ^ Z.of_nat t) mod 2 = 1 \/ (B / 2 ^ Z.of_nat t) mod 2 = 1) ->
  gcp2 p L A B l ra da rb db = Some (2 ^ Z.of_nat t).
Proof.
  intros HlL (La & Ba & Wa) (Lb & Bb & Wb) Ht HA HB Hodd.
  apply gcp2_find; try assumption.
  apply first_idx_char.
  - rewrite zipw_length; rewrite !trailing_zeros_length; auto.
  - rewrite nth_zipw by (rewrite trailing_zeros_length; lia).
    rewrite !trailing_zeros_correct by assumption.
    pose proof (Z.mod_pos_bound (A / 2 ^ Z.of_nat t) 2 ltac:(lia)) as Xa.
    pose proof (Z.mod_pos_bound (B / 2 ^ Z.of_nat t) 2 ltac:(lia)) as Xb.
    set (u := (A / 2 ^ Z.of_nat t) mod 2) in *. set (v := (B / 2 ^ Z.of_nat t) mod 2) in *.
    clearbody u v. clear - Hodd Xa Xb.
    assert (U : u = 0 \/ u = 1) by lia. assert (V : v = 0 \/ v = 1) by lia.
    destruct U as [-> | ->], V as [-> | ->]; lia.
  - intros i Hi.
    destruct (low_zero A t i HA Hi) as [A0 A1]. destruct (low_zero B t i HB Hi) as [B0 B1].
    rewrite nth_zipw by (rewrite trailing_zeros_length; lia).
    rewrite !trailing_zeros_correct by (try assumption; lia).
    rewrite A1, B1. discriminate.
Qed.

(** both a and b are 0 modulo 2^l: the result is 2^l (outside the number range, see the TODO in the code) *)
Theorem gcp2_zero p L A B l ra da rb db :
  (l <= L)%nat -> tape_ok p L A l ra da -> tape_ok p L B l rb db ->
  A mod 2 ^ Z.of_nat l = 0 -> B mod 2 ^ Z.of_nat l = 0 ->
  gcp2 p L A B l ra da rb db = Some (2 ^ Z.of_nat l).
Proof.
  intros HlL (La & Ba & Wa) (Lb & Bb & Wb) HA HB.
  apply gcp2_find; try assumption.
  rewrite !trailing_zeros_zero by assumption.
  rewrite first_idx_absent.
  - rewrite zipw_length; rewrite !repeat_length; reflexivity.
  - intros i Hi. rewrite zipw_length in Hi by (rewrite !repeat_length; reflexivity).
    rewrite repeat_length in Hi.
    rewrite nth_zipw by (rewrite repeat_length; lia). rewrite !nth_repeat. lia.
Qed.
