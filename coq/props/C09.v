(** C09 — every message is labelled uniquely and consumed exactly once: the buffer part, and the label part
    inherited from C08.  Only statements; proofs are in theories/PC.v. *)
Require Import MPyC.PC.
From Coq Require Import ZArith List Bool.
Import ListNotations.
Local Open Scope nat_scope.

(** MessageExchanger.buffers as a machine over frame arrivals (Deliver pc) and receive calls (Receive pc), in ANY
    interleaving.  If no label is delivered twice and no label is received twice on this connection end, then no
    exception occurs and the buffer holds exactly: the payloads delivered but not yet received, and the futures of
    receives whose frame has not arrived. *)
Theorem C09_bm_spec :
  forall ops : list bop,
    NoDup (delivered ops) -> NoDup (received ops) ->
    let '(b, n, e) := bm_run ops in
    e = false /\ forall pc, blookup pc b = expected (delivered ops) (received ops) pc.
Proof. exact bm_spec. Qed.
Print Assumptions C09_bm_spec.

(** Every frame is consumed by exactly the receive with its label: it stays buffered iff never received, a
    receive stays waiting iff its frame never arrived, and a label both delivered and received leaves nothing. *)
Theorem C09_consumed_once :
  forall (ops : list bop) (pc : Z),
    NoDup (delivered ops) -> NoDup (received ops) ->
    let b := fst (fst (bm_run ops)) in
    (blookup pc b = Some Payload <-> In pc (delivered ops) /\ ~ In pc (received ops)) /\
    (blookup pc b = Some Waiting <-> In pc (received ops) /\ ~ In pc (delivered ops)) /\
    (In pc (delivered ops) -> In pc (received ops) -> blookup pc b = None).
Proof. exact consumed_once. Qed.
Print Assumptions C09_consumed_once.

(** No orphans at shutdown iff sends and receives match. *)
Theorem C09_empty_iff_matched :
  forall ops : list bop,
    NoDup (delivered ops) -> NoDup (received ops) ->
    ((forall pc, blookup pc (fst (fst (bm_run ops))) = None) <->
     (forall pc, In pc (delivered ops) <-> In pc (received ops))).
Proof. exact empty_iff_matched. Qed.
Print Assumptions C09_empty_iff_matched.

(** The labels of the send/receive events are those of C08: schedule-independent under wf. *)
Theorem C09_send_labels_schedule_independent :
  forall (hop : Z -> nat -> Z) (c0 : pcT) (prog : body) (s1 s2 : list (option nat)) (p : path) (peer : nat) (v1 v2 : Z),
    wf_body prog = true ->
    In (p, EvSend peer v1) (trace (run hop c0 prog s1)) -> In (p, EvSend peer v2) (trace (run hop c0 prog s2)) -> v1 = v2.
Proof.
  intros hop c0 prog s1 s2 p peer v1 v2 Hwf H1 H2.
  pose proof (wf_labels_deterministic hop c0 prog s1 s2 p _ _ Hwf H1 H2) as H. inversion H. reflexivity.
Qed.
Print Assumptions C09_send_labels_schedule_independent.

(** Label uniqueness, reduced to the sequential reading: if no two sends to one peer share a label when the program
    is read sequentially ([seq_sends_unique], an executable check that the harness evaluates in Coq on logged call
    trees with the real hop values), then in EVERY pair of executions of a wf program two send events at distinct
    structural positions to the same peer carry different labels.
    (Not proved: that the sequential reading is duplicate-free for every program; this needs `_hop` injective and
    sparse and one send per peer and counter value inside each protocol.) *)
Theorem C09_labels_unique :
  forall (hop : Z -> nat -> Z) (c0 : pcT) (prog : body) (s1 s2 : list (option nat)) (p1 p2 : path) (peer : nat) (v1 v2 : Z),
    wf_body prog = true -> seq_sends_unique hop c0 prog = true ->
    In (p1, EvSend peer v1) (trace (run hop c0 prog s1)) ->
    In (p2, EvSend peer v2) (trace (run hop c0 prog s2)) ->
    p1 <> p2 -> v1 <> v2.
Proof. exact labels_unique. Qed.
Print Assumptions C09_labels_unique.

Example C09_labels_unique_nonvacuous :
  wf_body fc08_fixed = true /\ seq_sends_unique hop_ex (0%Z, 0) fc08_fixed = true /\
  length (sends hop_ex (0%Z, 0) fc08_fixed []) = 3 /\
  seq_sends_unique (fun _ _ => 0%Z) (0%Z, 0) fc08_fixed = false.
Proof. vm_compute. repeat split; reflexivity. Qed.

(** Uniqueness is necessary: with a repeated label the machine raises (delivered twice) or orphans a payload
    (received twice). *)
Example C09_duplicate_refuted :
  snd (bm_run [Deliver 7%Z; Deliver 7%Z]) = true /\
  bm_run [Receive 7%Z; Receive 7%Z; Deliver 7%Z] = ([(7%Z, Payload)], 0, false).
Proof. exact bm_duplicate_refuted. Qed.

(** Non-vacuity: an interleaving with distinct labels, two of them matched, one payload and one future left. *)
Example C09_nonvacuous :
  let ops := [Receive 5%Z; Deliver 3%Z; Deliver 5%Z; Receive 9%Z; Receive 3%Z; Deliver 4%Z] in
  NoDup (delivered ops) /\ NoDup (received ops) /\
  bm_run ops = ([(4%Z, Payload); (9%Z, Waiting)], 2, false).
Proof.
  simpl. split; [|split; [|vm_compute; reflexivity]];
    repeat (constructor; [simpl; intuition discriminate|]); constructor.
Qed.
