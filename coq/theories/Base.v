(** Small list helpers shared by the models. *)
From Coq Require Export List Arith Lia.
Export ListNotations.

Lemma nth_map_seq {A} (f : nat -> A) a n i d : i < n -> nth i (map f (seq a n)) d = f (a + i).
Proof.
  intros H. rewrite (nth_indep _ d (f O)) by (rewrite map_length, seq_length; exact H).
  rewrite map_nth, seq_nth by exact H. reflexivity.
Qed.

Lemma nth_map_in {A B} (f : A -> B) l i d d' : i < length l -> nth i (map f l) d = f (nth i l d').
Proof.
  intros H. rewrite (nth_indep _ d (f d')) by (rewrite map_length; exact H).
  apply map_nth.
Qed.

Lemma map_seq_length {A} (f : nat -> A) a n : length (map f (seq a n)) = n.
Proof. rewrite map_length, seq_length. reflexivity. Qed.

Lemma skipn_skipn' {A} (x y : nat) (l : list A) : skipn x (skipn y l) = skipn (y + x) l.
Proof.
  revert l; induction y as [|y IH]; intros l; simpl; [reflexivity|].
  destruct l; [destruct x; reflexivity|]. apply IH.
Qed.

Lemma app_eq_app_length {A} (a b c d : list A) : length a = length c -> a ++ b = c ++ d -> a = c /\ b = d.
Proof.
  revert c; induction a as [|x a IH]; intros [|y c] Hl He; simpl in *; try lia; [auto|].
  inversion He as [[Hx Hr]]. destruct (IH c ltac:(lia) Hr) as [-> ->]. auto.
Qed.

Lemma NoDup_map_in {A B} (f : A -> B) (l : list A) :
  (forall a b, In a l -> In b l -> f a = f b -> a = b) -> NoDup l -> NoDup (map f l).
Proof.
  induction l as [|x l IH]; intros Hinj Hnd; simpl; [constructor|].
  inversion Hnd as [|? ? Hx Hnd']; subst. constructor.
  - intros Hin. apply in_map_iff in Hin. destruct Hin as [y [E Hy]].
    assert (y = x) by (apply Hinj; [right; auto|left; auto|auto]). subst. contradiction.
  - apply IH; auto. intros a b Ha Hb. apply Hinj; right; auto.
Qed.
