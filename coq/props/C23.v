(** C23 — polynomials over GF(p) form a ring with a correct division algorithm.
    Only statements; proofs are in theories/Gfpx.v (generic list class) and theories/Gf2x.v
    (binary bitmask class).  [wf p a]: entries in [0,p), no trailing zero (the class invariant). *)
Require Import MPyC.Base MPyC.Zp MPyC.Gfpx MPyC.Gf2x.
From Coq Require Import ZArith Znumtheory.
Local Open Scope nat_scope.

Notation inr p a := (Forall (fun x => (0 <= x < p)%Z) a).

(** (a) normal-form invariant *)
Theorem C23_add_normal_form : forall p a b, inr p a -> inr p b -> wf p (add p a b).
Proof. exact add_wf. Qed.
Print Assumptions C23_add_normal_form.
Theorem C23_sub_normal_form : forall p a b, inr p a -> inr p b -> wf p (sub p a b).
Proof. exact sub_wf. Qed.
Print Assumptions C23_sub_normal_form.
Theorem C23_neg_normal_form : forall p a, wf p a -> wf p (neg p a).
Proof. exact neg_wf. Qed.
Print Assumptions C23_neg_normal_form.
Theorem C23_mul_normal_form : forall p a b, prime p -> wf p a -> wf p b -> wf p (mul p a b).
Proof. exact mul_wf. Qed.
Print Assumptions C23_mul_normal_form.

(** (b) coefficient semantics of + - and unary -, commutative group *)
Theorem C23_add_coef : forall p a b i, inr p a -> inr p b ->
  nth i (add p a b) 0%Z = ((nth i a 0 + nth i b 0) mod p)%Z.
Proof. exact add_coef. Qed.
Print Assumptions C23_add_coef.
Theorem C23_sub_coef : forall p a b i, inr p a -> inr p b ->
  nth i (sub p a b) 0%Z = ((nth i a 0 - nth i b 0) mod p)%Z.
Proof. exact sub_coef. Qed.
Print Assumptions C23_sub_coef.
Theorem C23_neg_coef : forall p a i, inr p a -> nth i (neg p a) 0%Z = ((- nth i a 0) mod p)%Z.
Proof. exact neg_coef. Qed.
Print Assumptions C23_neg_coef.
Theorem C23_add_comm : forall p a b, add p a b = add p b a.
Proof. exact add_comm. Qed.
Print Assumptions C23_add_comm.
Theorem C23_add_assoc : forall p a b c, (0 < p)%Z -> inr p a -> inr p b -> inr p c ->
  add p (add p a b) c = add p a (add p b c).
Proof. exact add_assoc. Qed.
Print Assumptions C23_add_assoc.
Theorem C23_add_zero : forall p a, wf p a -> add p a [] = a.
Proof. exact add_0_r. Qed.
Print Assumptions C23_add_zero.
Theorem C23_add_neg : forall p a, (0 < p)%Z -> inr p a -> add p a (neg p a) = [].
Proof. exact add_neg_r. Qed.
Print Assumptions C23_add_neg.
Theorem C23_sub_is_add_neg : forall p a b, (0 < p)%Z -> inr p a -> inr p b -> sub p a b = add p a (neg p b).
Proof. exact sub_add_neg. Qed.
Print Assumptions C23_sub_is_add_neg.

(** (d) multiplication is the convolution reduced mod p; ring laws; _sq = _mul *)
Theorem C23_mul_coef : forall p a b k, (0 < p)%Z -> nth k (mul p a b) 0%Z = ((nth k (mulz a b) 0) mod p)%Z.
Proof. exact mul_coef. Qed.
Print Assumptions C23_mul_coef.
Theorem C23_mulz_is_convolution : forall a b k, nth k (mulz a b) 0%Z = conv a b k k.
Proof. exact mulz_coef. Qed.
Print Assumptions C23_mulz_is_convolution.
Theorem C23_mul_comm : forall p a b, prime p -> wf p a -> wf p b -> mul p a b = mul p b a.
Proof. exact mul_comm. Qed.
Print Assumptions C23_mul_comm.
Theorem C23_mul_assoc : forall p a b c, prime p -> wf p a -> wf p b -> wf p c ->
  mul p (mul p a b) c = mul p a (mul p b c).
Proof. exact mul_assoc. Qed.
Print Assumptions C23_mul_assoc.
Theorem C23_mul_add_distr : forall p a b c, prime p -> wf p a -> wf p b -> wf p c ->
  mul p a (add p b c) = add p (mul p a b) (mul p a c).
Proof. exact mul_add_distr_l. Qed.
Print Assumptions C23_mul_add_distr.
Theorem C23_mul_one : forall p a, (1 < p)%Z -> wf p a -> mul p a [1%Z] = a.
Proof. exact mul_1_r. Qed.
Print Assumptions C23_mul_one.
Theorem C23_mul_zero : forall p a, mul p a [] = [].
Proof. exact mul_0_r. Qed.
Print Assumptions C23_mul_zero.
Theorem C23_sq_eq_mul : forall p a, (0 < p)%Z -> sq p a = mul p a a.
Proof. exact sq_eq_mul. Qed.
Print Assumptions C23_sq_eq_mul.

(** (c) division algorithm *)
Theorem C23_divmod_spec : forall p a b q r, prime p -> wf p a -> wf p b -> divmod p a b = Ok (q, r) ->
  a = add p (mul p q b) r /\ length r < length b /\ wf p r /\ inr p q.
Proof. exact divmod_spec. Qed.
Print Assumptions C23_divmod_spec.
Theorem C23_divmod_by_zero : forall p a, divmod p a [] = ZeroDiv.
Proof. exact divmod_zero. Qed.
Print Assumptions C23_divmod_by_zero.
Theorem C23_mod_is_divmod_remainder : forall p a b,
  pmod p a b = bind (divmod p a b) (fun qr => Ok (snd qr)).
Proof. exact pmod_eq_divmod. Qed.
Print Assumptions C23_mod_is_divmod_remainder.

(** (e) extended Euclid: Bezout identity, monic gcd, normal forms; never runs out of fuel *)
Theorem C23_gcdext_bezout : forall p a b g s t, prime p -> wf p a -> wf p b -> gcdext p a b = Ok (g, s, t) ->
  add p (mul p s a) (mul p t b) = g /\ wf p g /\ wf p s /\ wf p t /\ (g = [] \/ last g 0%Z = 1%Z).
Proof. exact gcdext_bezout. Qed.
Print Assumptions C23_gcdext_bezout.
Theorem C23_gcdext_total : forall p a b, prime p -> wf p a -> wf p b -> exists g s t, gcdext p a b = Ok (g, s, t).
Proof. exact gcdext_total. Qed.
Print Assumptions C23_gcdext_total.

(** powmod (as repaired by a226feb: base reduced first): exponent >= 1 and nonzero modulus give a reduced normal form;
    zero modulus raises *)
Theorem C23_powmod_reduced : forall p a n b r, prime p -> wf p a -> wf p b -> b <> [] -> (1 <= n)%Z ->
  powmod p a n (Some b) = Ok r -> wf p r /\ length r < length b.
Proof. exact powmod_reduced. Qed.
Print Assumptions C23_powmod_reduced.
Theorem C23_powmod_zero_modulus : forall p a n, (1 <= n)%Z -> powmod p a n (Some []) = ZeroDiv.
Proof. exact powmod_zero_modulus. Qed.
Print Assumptions C23_powmod_zero_modulus.

(** negative exponents as coded: invert first (ZeroDivisionError if not invertible), then the positive power;
    without modulus a negative exponent raises ValueError *)
Theorem C23_powmod_neg_as_coded : forall p a n b, (1 <= n)%Z ->
  powmod p a (- n) (Some b) = bind (invert p a b) (fun a' => powmod p a' n (Some b)).
Proof. exact powmod_neg_eq. Qed.
Print Assumptions C23_powmod_neg_as_coded.
(** invert is correct (in the model's own ring operations): a' * a + t * b = 1 for some t, i.e. a' * a = 1 (mod b);
    it never runs out of fuel or raises ValueError; and a negative power is the positive power of that inverse. *)
Theorem C23_invert_correct : forall p a b r, prime p -> wf p a -> wf p b -> invert p a b = Ok r ->
  inr p r /\ exists t, inr p t /\ add p (mul p r a) (mul p t b) = [1%Z].
Proof. exact invert_correct. Qed.
Print Assumptions C23_invert_correct.
Theorem C23_invert_total : forall p a b, prime p -> wf p a -> wf p b ->
  invert p a b <> NoFuel /\ invert p a b <> ValueErr.
Proof. exact invert_total. Qed.
Print Assumptions C23_invert_total.
Theorem C23_powmod_neg_correct : forall p a n b r, prime p -> wf p a -> wf p b -> (1 <= n)%Z ->
  powmod p a (- n) (Some b) = Ok r ->
  exists a', invert p a b = Ok a' /\ powmod p a' n (Some b) = Ok r /\
             exists t, inr p t /\ add p (mul p a' a) (mul p t b) = [1%Z].
Proof. exact powmod_neg_correct. Qed.
Print Assumptions C23_powmod_neg_correct.
Example C23_invert_nonvacuous :
  invert 7 [1;2;3;4;5]%Z [3;0;2]%Z = Ok [5;1]%Z /\ powmod 7 [1;2;3;4;5]%Z (-2) (Some [3;0;2]%Z) = Ok [6;3]%Z.
Proof. vm_compute. auto. Qed.
Theorem C23_powmod_neg_no_modulus : forall p a n, (n < 0)%Z -> powmod p a n None = ValueErr.
Proof. exact powmod_neg_no_modulus. Qed.
Print Assumptions C23_powmod_neg_no_modulus.

(** (f) the binary class refines the list class at p = 2 (addition/subtraction = xor) *)
Theorem C23_gf2x_add_refines : forall a b, (0 <= a)%Z -> (0 <= b)%Z -> bits (add2 a b) = add 2 (bits a) (bits b).
Proof. exact bits_add2. Qed.
Print Assumptions C23_gf2x_add_refines.
Theorem C23_gf2x_sub_refines : forall a b, (0 <= a)%Z -> (0 <= b)%Z -> bits (add2 a b) = sub 2 (bits a) (bits b).
Proof. exact bits_sub2. Qed.
Print Assumptions C23_gf2x_sub_refines.
Theorem C23_gf2x_bits_normal_form : forall a, wf 2 (bits a).
Proof. exact bits_wf. Qed.
Print Assumptions C23_gf2x_bits_normal_form.
Theorem C23_gf2x_bits_roundtrip : forall a, (0 <= a)%Z -> unbits (bits a) = a.
Proof. exact unbits_bits. Qed.
Print Assumptions C23_gf2x_bits_roundtrip.

(** Non-vacuity: GF(7), a = 1+2X+3X^2+4X^3+5X^4, b = 3+2X^2 *)
Example C23_nonvacuous :
  prime 7 /\ wf 7 [1;2;3;4;5]%Z /\ wf 7 [3;0;2]%Z /\
  divmod 7 [1;2;3;4;5]%Z [3;0;2]%Z = Ok ([3;2;6], [6;3])%Z /\
  gcdext 7 [1;2;3;4;5]%Z [3;0;2]%Z = Ok ([1], [5;1], [1;1;3;1])%Z /\
  add 7 (mul 7 [5;1]%Z [1;2;3;4;5]%Z) (mul 7 [1;1;3;1]%Z [3;0;2]%Z) = [1%Z] /\
  bits (add2 13 7) = [0;1;0;1]%Z.
Proof.
  split; [apply is_prime_small_correct; reflexivity|].
  split; [split; [repeat constructor; lia|cbn; lia]|].
  split; [split; [repeat constructor; lia|cbn; lia]|].
  vm_compute. auto.
Qed.
