#!/bin/bash
# usage: seeded_run.sh <property id> <patch.diff> [tier]
# Applies the patch to /repo, runs the property's check, restores /repo. Prints the check's tail and exit code.
set -u
P="$1"; PATCH="$(readlink -f "$2")"; TIER="${3:-quick}"
cd /repo || exit 2
if ! git diff --quiet; then echo "/repo is dirty; refusing"; exit 2; fi
git apply "$PATCH" || { echo "patch does not apply"; exit 2; }
cd /verif
./check "$P" --tier "$TIER" > "/tmp/seeded_run_$P.log" 2>&1
rc=$?
git -C /repo checkout -- .
grep -E "VIOLATION|KNOWN-FINDING|done:" "/tmp/seeded_run_$P.log" | tail -8
echo "check_exit=$rc"
