Require Import MPyC.Gmpy.
From Coq Require Import ZArith Znumtheory Lia List Bool Zpow_facts.
Import ListNotations.
Local Open Scope Z_scope.

(** Completeness of [factor_prime_power_gen] on prime powers, relative to a correct
    primality oracle. *)

(** ---- number theory helpers ---- *)

Lemma K_prime_gt1 q : prime q -> 1 < q.
Proof. intros H. destruct H as [H _]. exact H. Qed.

Lemma K_pow_pos q m : 1 < q -> 0 <= m -> 0 < q ^ m.
Proof. intros. apply Z.pow_pos_nonneg; lia. Qed.

(** H1: positive divisors of a prime power are powers of the prime *)
Lemma K_div_prime_pow q : prime q -> forall m, 0 <= m -> forall w, 0 < w -> (w | q ^ m) ->
  exists j, 0 <= j <= m /\ w = q ^ j.
Proof.
  intros Hq m Hm. pose proof (K_prime_gt1 q Hq) as Hq1.
  pattern m. apply natlike_ind; [| |exact Hm].
  - intros w Hw Hd. exists 0. split; [lia|]. rewrite Z.pow_0_r in *.
    apply Z.divide_1_r_nonneg; [lia|exact Hd].
  - intros n Hn IH w Hw Hd.
    destruct (Zdivide_dec q w) as [Hqw|Hqw].
    + destruct Hqw as [w' Ew]. subst w.
      rewrite Z.pow_succ_r in Hd by lia. rewrite (Z.mul_comm w' q) in Hd.
      apply Z.mul_divide_cancel_l in Hd; [|lia].
      assert (Hw' : 0 < w') by nia.
      destruct (IH w' Hw' Hd) as [j [Hj Ej]]. exists (Z.succ j). split; [lia|].
      rewrite Z.pow_succ_r by lia. rewrite Ej. ring.
    + assert (Hr : rel_prime q w) by (apply prime_rel_prime; assumption).
      apply rel_prime_sym in Hr.
      assert (Hr2 : rel_prime w (q ^ Z.succ n)) by (apply rel_prime_Zpower_r; [lia|exact Hr]).
      destruct Hr2 as [_ _ Hg].
      assert (H1 : (w | 1)) by (apply Hg; [apply Z.divide_refl|exact Hd]).
      exists 0. split; [lia|]. rewrite Z.pow_0_r.
      apply Z.divide_1_r_nonneg; [lia|exact H1].
Qed.

(** H2: a prime power that is a perfect e-th power *)
Lemma K_pow_eq_pow q : prime q -> forall m w e, 0 <= m -> 0 < w -> 0 < e -> q ^ m = w ^ e ->
  exists j, 0 <= j /\ w = q ^ j /\ m = j * e.
Proof.
  intros Hq m w e Hm Hw He E. pose proof (K_prime_gt1 q Hq) as Hq1.
  assert (Hd : (w | q ^ m)).
  { rewrite E. exists (w ^ (e - 1)). replace e with (Z.succ (e - 1)) at 1 by lia.
    rewrite Z.pow_succ_r by lia. ring. }
  destruct (K_div_prime_pow q Hq m Hm w Hw Hd) as [j [Hj Ej]].
  exists j. split; [lia|]. split; [exact Ej|].
  subst w. rewrite <- Z.pow_mul_r in E by lia.
  apply (Z.pow_inj_r q); try lia; nia.
Qed.

(** H3 *)
Lemma K_prime_div_pow p q k : prime p -> prime q -> 0 <= k -> (p | q ^ k) -> p = q.
Proof. intros Hp Hq Hk Hd. exact (prime_power_prime p q k Hk Hp Hq Hd). Qed.

(** every m > 1 has a prime divisor <= m *)
Lemma K_prime_divisor : forall m, 0 <= m -> 1 < m -> exists p, prime p /\ (p | m) /\ p <= m.
Proof.
  apply (Z_lt_induction (fun m => 1 < m -> exists p, prime p /\ (p | m) /\ p <= m)).
  intros m IH Hm.
  destruct (prime_dec m) as [Hp|Hnp].
  - exists m. split; [exact Hp|]. split; [apply Z.divide_refl|lia].
  - destruct (not_prime_divide m Hm Hnp) as [n [Hn Hd]].
    destruct (IH n ltac:(lia) ltac:(lia)) as [p [Hp [Hpn Hle]]].
    exists p. split; [exact Hp|]. split; [|lia].
    eapply Z.divide_trans; eassumption.
Qed.

(** ---- divout on a pure power ---- *)
Lemma K_divout_pow q : 1 < q -> forall fuel j d, 0 <= j -> j < Z.of_nat fuel ->
  divout fuel (q ^ j) q d = Ok (q, d + j).
Proof.
  intros Hq fuel. induction fuel as [|f IH]; intros j d Hj Hf; [lia|].
  destruct (Z.eq_dec j 0) as [E|E].
  - subst j. rewrite Z.pow_0_r. cbn [divout]. replace (1 <? 1) with false by reflexivity.
    cbn [negb]. f_equal. f_equal. lia.
  - assert (Hj1 : 0 <= j - 1) by lia.
    assert (Epow : q ^ j = q ^ (j - 1) * q).
    { replace j with (Z.succ (j - 1)) at 1 by lia. rewrite Z.pow_succ_r by lia. ring. }
    pose proof (K_pow_pos q (j - 1) Hq Hj1) as Hpos.
    cbn [divout].
    assert (H1 : (1 <? q ^ j) = true) by (apply Z.ltb_lt; nia).
    rewrite H1. cbn [negb].
    assert (Hm : q ^ j mod q = 0) by (rewrite Epow; apply Z_mod_mult).
    rewrite Hm. replace (0 =? 0) with true by reflexivity.
    assert (Hdv : q ^ j / q = q ^ (j - 1)) by (rewrite Epow; apply Z_div_mult; lia).
    rewrite Hdv. rewrite IH by lia. f_equal. f_equal. lia.
Qed.

Lemma K_exp_lt_log_fuel q k : 1 < q -> 0 <= k -> k < Z.of_nat (log_fuel (q ^ k)).
Proof.
  intros Hq Hk. unfold log_fuel.
  pose proof (K_pow_pos q k Hq Hk) as Hpos.
  rewrite Z.abs_eq by lia.
  assert (H2 : 2 ^ k <= q ^ k) by (apply Z.pow_le_mono_l; lia).
  pose proof (Z.log2_up_le_mono _ _ H2) as Hl. rewrite Z.log2_up_pow2 in Hl by lia.
  rewrite Nat2Z.inj_add. rewrite Z2Nat.id by apply Z.log2_up_nonneg. lia.
Qed.

(** ---- phase 1 ---- *)
Section Phase1.
  Variable isp : tape -> Z -> bool * tape.
  Variable npf : nat.
  Hypothesis Hisp : forall tp z, fst (isp tp z) = true <-> prime z.
  Variables q k : Z.
  Hypothesis Hq : prime q.
  Hypothesis Hk : 0 < k.

  Lemma K_fpp_small_complete : forall fuel tp p o tp',
    prime p -> p <= q ->
    1 <= Z.of_nat fuel -> (p < 1024 -> 1025 - p < Z.of_nat fuel) ->
    fpp_small isp npf fuel tp (q ^ k) p = (o, tp') ->
    o = Some (Ok (q, k)) \/ o = Some EFuel \/ (o = None /\ 1024 <= q).
  Proof.
    pose proof (K_prime_gt1 q Hq) as Hq1.
    induction fuel as [|f IH]; intros tp p o tp' Hp Hpq Hf1 Hf2 H; [lia|].
    cbn [fpp_small] in H. change (Z.shiftl 1 10) with 1024 in H.
    destruct (p <? 1024) eqn:Ep.
    - apply Z.ltb_lt in Ep.
      destruct (q ^ k mod p =? 0) eqn:Em.
      + apply Z.eqb_eq in Em. pose proof (K_prime_gt1 p Hp) as Hp1.
        assert (Hd : (p | q ^ k)) by (apply Zmod_divide; [lia|exact Em]).
        assert (p = q) by (apply (K_prime_div_pow p q k); auto; lia). subst p.
        inversion H; subst. left. f_equal.
        rewrite (K_divout_pow q Hq1 _ k 0); [reflexivity|lia|].
        apply K_exp_lt_log_fuel; lia.
      + apply Z.eqb_neq in Em.
        assert (Hne : p <> q).
        { intros E. subst p. apply Em. apply Zdivide_mod.
          exists (q ^ (k - 1)). replace k with (Z.succ (k - 1)) at 1 by lia.
          rewrite Z.pow_succ_r by lia. ring. }
        destruct (next_prime_gen isp npf tp p) as [rr tp1] eqn:En.
        destruct rr as [p'| | | |];
          try (inversion H; subst; right; left; reflexivity).
        destruct (next_prime_spec isp Hisp npf tp p p' tp1 En) as [Hp' [Hlt Hbetween]].
        apply (IH tp1 p' o tp'); auto.
        * destruct (Z_le_gt_dec p' q) as [Hle|Hgt]; [exact Hle|].
          exfalso. apply (Hbetween q); [lia|exact Hq].
        * lia.
        * lia.
    - apply Z.ltb_ge in Ep. inversion H; subst. right; right. split; [reflexivity|lia].
  Qed.
End Phase1.

(** ---- bit_length facts ---- *)
Lemma K_bl_pos x : 0 < x -> bit_length x = Z.log2 x + 1.
Proof.
  intros Hx. unfold bit_length. destruct (x =? 0) eqn:E; [apply Z.eqb_eq in E; lia|].
  rewrite Z.abs_eq by lia. reflexivity.
Qed.

Lemma K_bl_mono a b : 0 < a -> a <= b -> bit_length a <= bit_length b.
Proof.
  intros Ha Hab. rewrite !K_bl_pos by lia. pose proof (Z.log2_le_mono a b Hab). lia.
Qed.

Lemma K_bl_lower q m : 1024 <= q -> 0 <= m -> 10 * m + 1 <= bit_length (q ^ m).
Proof.
  intros Hq Hm. rewrite K_bl_pos by (apply K_pow_pos; lia).
  assert (H : 2 ^ (10 * m) <= q ^ m).
  { rewrite Z.pow_mul_r by lia. change (2 ^ 10) with 1024. apply Z.pow_le_mono_l. lia. }
  pose proof (Z.log2_le_mono _ _ H) as Hl. rewrite Z.log2_pow2 in Hl by lia. lia.
Qed.

(** ---- phase 2a: repeated square roots ---- *)
Lemma K_fpp_sq_complete q : prime q -> forall fuel m d, 1 <= m -> m < 2 ^ Z.of_nat fuel ->
  exists m' d', fpp_sq fuel (q ^ m) d = Ok (q ^ m', d') /\ 1 <= m' /\ ~ (2 | m') /\
                d' * m' = d * m /\ (0 < d -> 0 < d').
Proof.
  intros Hq. pose proof (K_prime_gt1 q Hq) as Hq1.
  induction fuel as [|f IH]; intros m d Hm Hf; [simpl in Hf; lia|].
  cbn [fpp_sq].
  pose proof (K_pow_pos q m Hq1 ltac:(lia)) as Hpos.
  destruct (is_square_spec (q ^ m) ltac:(lia)) as [b [Eb Hb]]. rewrite Eb.
  destruct (Zdivide_dec 2 m) as [Hev|Hodd].
  - destruct Hev as [j Ej].
    assert (Hj : 1 <= j) by lia.
    assert (Esq : q ^ m = q ^ j * q ^ j).
    { rewrite <- Z.pow_add_r by lia. f_equal. lia. }
    assert (b = true) by (apply Hb; exists (q ^ j); exact Esq). subst b.
    assert (Esqrt : Z.sqrt (q ^ m) = q ^ j).
    { rewrite Esq. apply Z.sqrt_square. pose proof (K_pow_pos q j Hq1 ltac:(lia)). lia. }
    rewrite Esqrt.
    assert (Hjf : j < 2 ^ Z.of_nat f).
    { rewrite Nat2Z.inj_succ, Z.pow_succ_r in Hf by lia. lia. }
    destruct (IH j (2 * d) Hj Hjf) as [m' [d' [E [H1 [H2 [H3 H4]]]]]].
    exists m', d'. split; [exact E|]. split; [exact H1|]. split; [exact H2|].
    split; [nia|]. intros Hd. apply H4. lia.
  - assert (b = false).
    { destruct b; [exfalso|reflexivity].
      destruct (proj1 Hb eq_refl) as [r Er].
      assert (Hr : 0 < Z.abs r) by nia.
      assert (Er2 : q ^ m = Z.abs r ^ 2) by (rewrite Z.pow_2_r; nia).
      destruct (K_pow_eq_pow q Hq m (Z.abs r) 2 ltac:(lia) Hr ltac:(lia) Er2) as [j [_ [_ Ej]]].
      apply Hodd. exists j. exact Ej. }
    subst b. exists m, d. split; [reflexivity|]. split; [lia|]. split; [exact Hodd|].
    split; [reflexivity|]. auto.
Qed.

(** ---- phase 2b: odd prime roots ---- *)
Section Phase2.
  Variable isp : tape -> Z -> bool * tape.
  Variable npf : nat.
  Hypothesis Hisp : forall tp z, fst (isp tp z) = true <-> prime z.
  Variables q k : Z.
  Hypothesis Hq : prime q.
  Hypothesis Hk : 0 < k.
  Hypothesis Hq10 : 1024 <= q.
  Variable B0 : Z.
  Hypothesis HB0 : forall m, 1 <= m <= k -> bit_length (q ^ m) <= 10 * B0 + 9.

  Lemma K_fpp_roots_complete : forall fuel tp m d e r tp',
    1 <= m -> 0 < d -> d * m = k -> 3 <= e ->
    (forall e', prime e' -> e' < e -> ~ (e' | m)) ->
    m + Z.max 0 (B0 - e + 1) < Z.of_nat fuel ->
    fpp_roots isp npf fuel tp (q ^ m) d e = (r, tp') ->
    r = Ok (q, k) \/ r = EFuel.
  Proof.
    pose proof (K_prime_gt1 q Hq) as Hq1.
    induction fuel as [|f IH]; intros tp m d e r tp' Hm Hd Hdm He Hinv Hf H; [lia|].
    assert (Hmk : m <= k) by nia.
    pose proof (K_pow_pos q m Hq1 ltac:(lia)) as Hpos.
    cbn [fpp_roots] in H.
    destruct (10 * e <=? bit_length (q ^ m)) eqn:Et.
    - apply Z.leb_le in Et.
      destruct (iroot_spec (q ^ m) e Hpos ltac:(lia)) as [y [Ey [Hy Hyb]]].
      rewrite Ey in H.
      destruct (q ^ m =? y ^ e) eqn:Efl.
      + apply Z.eqb_eq in Efl.
        destruct (K_pow_eq_pow q Hq m y e ltac:(lia) Hy ltac:(lia) Efl) as [j [Hj [Ey2 Ej]]].
        subst y.
        assert (Hj1 : 1 <= j) by nia.
        assert (Hjm : j < m) by nia.
        apply (IH tp j (e * d) e r tp'); auto.
        * nia.
        * rewrite <- Hdm, Ej. ring.
        * intros e' He' Hlt Hdiv. apply (Hinv e' He' Hlt). rewrite Ej.
          apply Z.divide_mul_l. exact Hdiv.
        * lia.
      + apply Z.eqb_neq in Efl.
        destruct (next_prime_gen isp npf tp e) as [rr tp1] eqn:En.
        destruct rr as [e1| | | |]; try (inversion H; subst; right; reflexivity).
        destruct (next_prime_spec isp Hisp npf tp e e1 tp1 En) as [He1 [Hlt Hbetween]].
        assert (Hne : ~ (e | m)).
        { intros [j Ej].
          assert (Hj1 : 1 <= j) by nia.
          pose proof (K_pow_pos q j Hq1 ltac:(lia)) as Hposj.
          assert (Epow : q ^ m = (q ^ j) ^ e) by (rewrite <- Z.pow_mul_r by lia; f_equal; exact Ej).
          rewrite Epow in Hyb, Efl. destruct Hyb as [Hy1 Hy2].
          apply Z.pow_le_mono_l_iff in Hy1; try lia.
          apply Z.pow_lt_mono_l_iff in Hy2; try lia.
          apply Efl. f_equal. lia. }
        apply (IH tp1 m d e1 r tp'); auto.
        * lia.
        * intros e' He' Hlt' Hdiv.
          destruct (Z_lt_le_dec e' e) as [Hl|Hl]; [exact (Hinv e' He' Hl Hdiv)|].
          destruct (Z.eq_dec e' e) as [E|E]; [subst e'; exact (Hne Hdiv)|].
          apply (Hbetween e'); [lia|exact He'].
        * pose proof (HB0 m ltac:(lia)). lia.
    - apply Z.leb_gt in Et. inversion H; subst.
      pose proof (K_bl_lower q m Hq10 ltac:(lia)) as Hbl.
      assert (Hem : m < e) by lia.
      assert (Hm1 : m = 1).
      { destruct (Z.eq_dec m 1) as [E|E]; [exact E|exfalso].
        destruct (K_prime_divisor m ltac:(lia) ltac:(lia)) as [p' [Hp' [Hdiv Hle]]].
        apply (Hinv p' Hp'); [lia|exact Hdiv]. }
      subst m. left. rewrite Z.pow_1_r. f_equal. f_equal. lia.
  Qed.
End Phase2.

(** ---- main theorems ---- *)
Theorem factor_prime_power_complete : forall (isp : tape -> Z -> bool * tape) npf,
  (forall tp z, fst (isp tp z) = true <-> prime z) ->
  forall tp q k r tp', prime q -> 0 < k ->
    factor_prime_power_gen isp npf tp (q ^ k) = (r, tp') -> r = Ok (q, k) \/ r = EFuel.
Proof.
  intros isp npf Hisp tp q k r tp' Hq Hk H.
  pose proof (K_prime_gt1 q Hq) as Hq1.
  pose proof (K_pow_pos q k Hq1 ltac:(lia)) as Hpos.
  assert (Hx1 : 1 < q ^ k).
  { pose proof (Z.pow_gt_lin_r q k Hq1 ltac:(lia)). lia. }
  unfold factor_prime_power_gen in H.
  destruct (q ^ k <=? 1) eqn:E1; [apply Z.leb_le in E1; lia|].
  destruct (fpp_small isp npf 1100 tp (q ^ k) 2) as [o tp1] eqn:Es.
  apply (K_fpp_small_complete isp npf Hisp q k Hq Hk) in Es;
    [|exact prime_2|lia|lia|lia].
  destruct Es as [Eo|[Eo|[Eo Hq10]]]; subst o.
  - inversion H; subst. left; reflexivity.
  - inversion H; subst. right; reflexivity.
  - pose proof (K_exp_lt_log_fuel q k Hq1 ltac:(lia)) as Hkf.
    set (F := log_fuel (q ^ k)) in *.
    assert (Hk2 : k < 2 ^ Z.of_nat F).
    { pose proof (Z.pow_gt_lin_r 2 k ltac:(lia) ltac:(lia)).
      assert (2 ^ k <= 2 ^ Z.of_nat F) by (apply Z.pow_le_mono_r; lia). lia. }
    destruct (K_fpp_sq_complete q Hq F k 1 ltac:(lia) Hk2)
      as [m' [d' [Esq [Hm' [Hodd [Hdm Hd']]]]]].
    rewrite Esq in H.
    destruct (fpp_roots isp npf F tp1 (q ^ m') d' 3) as [rr tp2] eqn:Er.
    assert (Hm'k : m' <= k) by nia.
    apply (K_fpp_roots_complete isp npf Hisp q k Hq Hk Hq10 (bit_length (q ^ k) / 10)) in Er;
      try lia.
    + destruct Er as [Er|Er]; subst rr.
      * destruct (isp tp2 q) as [b tp3] eqn:Ei.
        assert (Hb : b = true).
        { pose proof (proj2 (Hisp tp2 q) Hq) as Hb. rewrite Ei in Hb. exact Hb. }
        subst b. inversion H; subst. left; reflexivity.
      * inversion H; subst. right; reflexivity.
    + intros m Hm.
      assert (Hle : q ^ m <= q ^ k) by (apply Z.pow_le_mono_r; lia).
      pose proof (K_bl_mono (q ^ m) (q ^ k) (K_pow_pos q m Hq1 ltac:(lia)) Hle) as Hbm.
      pose proof (Z.div_mod (bit_length (q ^ k)) 10 ltac:(lia)) as Hdiv.
      pose proof (Z.mod_pos_bound (bit_length (q ^ k)) 10 ltac:(lia)). lia.
    + intros e' He' Hlt Hdiv.
      pose proof (K_prime_gt1 e' He'). assert (e' = 2) by lia. subst e'. exact (Hodd Hdiv).
    + (* fuel *)
      pose proof (K_bl_lower q k Hq10 ltac:(lia)) as Hbl.
      rewrite K_bl_pos in * by lia.
      pose proof (Z.le_log2_log2_up (q ^ k)) as Hlu.
      pose proof (Z.div_mod (Z.log2 (q ^ k) + 1) 10 ltac:(lia)) as Hdiv.
      pose proof (Z.mod_pos_bound (Z.log2 (q ^ k) + 1) 10 ltac:(lia)) as Hmb.
      assert (HF : Z.of_nat F = Z.log2_up (q ^ k) + 2).
      { unfold F, log_fuel. rewrite Z.abs_eq by lia. rewrite Nat2Z.inj_add.
        rewrite Z2Nat.id by apply Z.log2_up_nonneg. lia. }
      lia.
Qed.

Corollary factor_prime_power_raises_not_prime_power : forall (isp : tape -> Z -> bool * tape) npf,
  (forall tp z, fst (isp tp z) = true <-> prime z) ->
  forall tp x tp', factor_prime_power_gen isp npf tp x = (EValue, tp') ->
    ~ exists q k, prime q /\ 0 < k /\ x = q ^ k.
Proof.
  intros isp npf Hisp tp x tp' H [q [k [Hq [Hk Ex]]]]. subst x.
  destruct (factor_prime_power_complete isp npf Hisp tp q k _ tp' Hq Hk H) as [E|E]; discriminate E.
Qed.

