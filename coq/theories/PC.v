(** PC.v — transition-system model of MPyC's program-counter discipline (asyncoro.py:
    mpc_coro / mpc_coro_no_pc / _ProgramCounterWrapper; runtime.py: _prss_uci, _send_message,
    _receive_message).

    A program is a tree of coroutine bodies.  Calling an MPyC coroutine ([Fork kd first rest]) runs its
    FIRST segment [first] synchronously inside the caller, under the caller's counter
    (typed_asyncoro: [coro.send(None)]); then
      - kd = PC   : the wrapper increments the caller's counter and forks the private counter
                    [hop (c+1, d), d+1]; every later step of the coroutine ([rest]) runs with that
                    private counter swapped in;
      - kd = NoPC : [rest] runs as a Task under whatever counter is ambient when the event loop resumes
                    it, i.e. the BASE counter at that moment (the wrappers of PC tasks restore the base
                    counter after each of their steps).
    The main program (root) runs under the base counter as well.
    Scheduler: arbitrary; one action of one task per step.  This over-approximates the real event loop
    (which switches only when a task suspends at an [Await] or ends): "await found completed" is the
    schedule that keeps running the same task, "await suspends" one that switches.  The refutation
    below uses only schedules that switch at awaits / task ends ([legal]).                              *)
From Coq Require Import ZArith List Bool Lia.
Import ListNotations.
Local Open Scope Z_scope.

Inductive kind := PC | NoPC.
Inductive simple := Uci | Send (peer : nat) | Recv (peer : nat) | Await | Local.
Inductive body :=
| Done
| Act (a : simple) (k : body)
| Fork (kd : kind) (first rest : body) (k : body).

Definition pcT := (Z * nat)%type.            (* [hopping counter, depth] *)
Inductive dir := N | F | R.                   (* next action / into first segment / into rest *)
Definition path := list dir.
Inductive evval :=
| EvFork (c : Z) (d : nat)                    (* private counter given to a forked PC coroutine *)
| EvUci (v : Z)
| EvSend (peer : nat) (v : Z)
| EvRecv (peer : nat) (v : Z).
Definition event := (path * evval)%type.

Inductive ctx := Priv (c : pcT) | Ambient.
Definition task := (path * ctx * body)%type.

(** pc-silent code: no Fork of a PC coroutine, no Uci/Send/Recv; NoPC forks only of silent coroutines *)
Fixpoint silent (b : body) : bool :=
  match b with
  | Done => true
  | Act a k => (match a with Await | Local => true | _ => false end) && silent k
  | Fork NoPC first rest k => silent first && silent rest && silent k
  | Fork PC _ _ _ => false
  end.

(** well-formed: every NoPC body is pc-silent after its first segment *)
Fixpoint wf_body (b : body) : bool :=
  match b with
  | Done => true
  | Act _ k => wf_body k
  | Fork kd first rest k =>
      wf_body first && wf_body rest && wf_body k && (match kd with NoPC => silent rest | PC => true end)
  end.

(** entries of the generated table gen/CoroTable.v : (name, kind, silent-after-first-await) *)
Definition wf_entry {A} (e : A * kind * bool) : bool :=
  match e with (_, PC, _) => true | (_, NoPC, s) => s end.

Section Model.
Variable hop : Z -> nat -> Z.

Definition inc (c : pcT) : pcT := (fst c + 1, snd c).
Definition child (c : pcT) : pcT := (hop (fst c + 1) (snd c), S (snd c)).    (* _ProgramCounterWrapper.__init__ *)
Definition adv1 (c : pcT) (a : simple) : pcT := match a with Uci => inc c | _ => c end.
Definition ev_of (c : pcT) (a : simple) : option evval :=
  match a with
  | Uci => Some (EvUci (fst c + 1))            (* _prss_uci: increment, then use *)
  | Send p => Some (EvSend p (fst c))
  | Recv p => Some (EvRecv p (fst c))
  | _ => None
  end.
Definition after_fork (kd : kind) (c : pcT) : pcT := match kd with PC => inc c | NoPC => c end.
Definition fork_ev (c : pcT) : evval := EvFork (fst (child c)) (snd (child c)).

(** counter of a context after running body b synchronously in it (first segments) *)
Fixpoint advs (c : pcT) (b : body) : pcT :=
  match b with
  | Done => c
  | Act a k => advs (adv1 c a) k
  | Fork kd first _ k => advs (after_fork kd (advs c first)) k
  end.

(** [label c b p] : the value carried by the event at structural path p of body b when b is executed by
    a context whose counter is c — the SEQUENTIAL reading (program order within each context). *)
Fixpoint label (c : pcT) (b : body) (p : path) : option evval :=
  match b, p with
  | Act a _, [] => ev_of c a
  | Act a k, N :: p' => label (adv1 c a) k p'
  | Fork PC first _ _, [] => Some (fork_ev (advs c first))
  | Fork kd first _ k, N :: p' => label (after_fork kd (advs c first)) k p'
  | Fork _ first _ _, F :: p' => label c first p'
  | Fork PC first rest _, R :: p' => label (child (advs c first)) rest p'
  | _, _ => None
  end.

(** synchronous execution of a first segment (an [Await] inside is ignored: a first segment is by
    definition the code before the first await) *)
Fixpoint sync (c : pcT) (b : body) (tp : path) : pcT * list event * list task :=
  match b with
  | Done => (c, [], [])
  | Act a k =>
      let '(c2, e2, t2) := sync (adv1 c a) k (tp ++ [N]) in
      (c2, (match ev_of c a with Some v => [(tp, v)] | None => [] end) ++ e2, t2)
  | Fork kd first rest k =>
      let '(c1, e1, t1) := sync c first (tp ++ [F]) in
      let cx := match kd with PC => Priv (child c1) | NoPC => Ambient end in
      let ev := match kd with PC => [(tp, fork_ev c1)] | NoPC => [] end in
      let '(c2, e2, t2) := sync (after_fork kd c1) k (tp ++ [N]) in
      (c2, e1 ++ ev ++ e2, t1 ++ [(tp ++ [R], cx, rest)] ++ t2)
  end.

(** one action of a context with counter c *)
Definition exec1 (c : pcT) (tp : path) (code : body) : option (pcT * path * body * list event * list task) :=
  match code with
  | Done => None
  | Act a k => Some (adv1 c a, tp ++ [N], k, (match ev_of c a with Some v => [(tp, v)] | None => [] end), [])
  | Fork kd first rest k =>
      let '(c1, e1, t1) := sync c first (tp ++ [F]) in
      let cx := match kd with PC => Priv (child c1) | NoPC => Ambient end in
      let ev := match kd with PC => [(tp, fork_ev c1)] | NoPC => [] end in
      Some (after_fork kd c1, tp ++ [N], k, e1 ++ ev, t1 ++ [(tp ++ [R], cx, rest)])
  end.

Record state := mk { base : pcT; root : path * body; tasks : list task; trace : list event }.

Fixpoint upd {A} (i : nat) (x : A) (l : list A) : list A :=
  match l, i with
  | [], _ => []
  | _ :: t, O => x :: t
  | h :: t, S i' => h :: upd i' x t
  end.

(** scheduler choice: None = the main program, Some i = the i-th created task *)
Definition step (s : state) (ch : option nat) : state :=
  match ch with
  | None =>
      match exec1 (base s) (fst (root s)) (snd (root s)) with
      | None => s
      | Some (c', tp', k, evs, ts) => mk c' (tp', k) (tasks s ++ ts) (trace s ++ evs)
      end
  | Some i =>
      match nth_error (tasks s) i with
      | None => s
      | Some (tp, Priv c, code) =>
          match exec1 c tp code with
          | None => s
          | Some (c', tp', k, evs, ts) => mk (base s) (root s) (upd i (tp', Priv c', k) (tasks s) ++ ts) (trace s ++ evs)
          end
      | Some (tp, Ambient, code) =>
          (* a NoPC task: runs under the ambient = base counter and moves IT *)
          match exec1 (base s) tp code with
          | None => s
          | Some (c', tp', k, evs, ts) => mk c' (root s) (upd i (tp', Ambient, k) (tasks s) ++ ts) (trace s ++ evs)
          end
      end
  end.

Definition init (c0 : pcT) (prog : body) : state := mk c0 ([], prog) [] [].
Definition run (c0 : pcT) (prog : body) (sched : list (option nat)) : state := fold_left step sched (init c0 prog).

(* ------------------------------------------------------------------------------------------ *)
(** * Invariant: every event carries [label] of its structural path                              *)

Section Inv.
Variable L : path -> option evval.

Definition task_ok (t : task) : Prop :=
  match t with
  | (tp, Priv c, code) => wf_body code = true /\ forall q, label c code q = L (tp ++ q)
  | (tp, Ambient, code) => silent code = true
  end.

Definition evs_ok (evs : list event) : Prop := forall p v, In (p, v) evs -> L p = Some v.

Lemma evs_ok_app : forall a b, evs_ok a -> evs_ok b -> evs_ok (a ++ b).
Proof. intros a b Ha Hb p v Hin. apply in_app_or in Hin. destruct Hin; auto. Qed.

Lemma evs_ok_nil : evs_ok [].
Proof. intros p v []. Qed.

Lemma app_path : forall (tp : path) d q, tp ++ d :: q = (tp ++ [d]) ++ q.
Proof. intros. rewrite <- app_assoc. reflexivity. Qed.

Lemma sync_ok : forall b c tp,
  wf_body b = true -> (forall q, label c b q = L (tp ++ q)) ->
  let '(c', evs, ts) := sync c b tp in
  c' = advs c b /\ evs_ok evs /\ Forall task_ok ts.
Proof.
  induction b as [|a k IHk|kd first IHf rest IHr k IHk]; intros c tp Hwf HL; simpl.
  - split; [reflexivity|split; [apply evs_ok_nil|constructor]].
  - simpl in Hwf.
    specialize (IHk (adv1 c a) (tp ++ [N]) Hwf).
    destruct (sync (adv1 c a) k (tp ++ [N])) as [[c2 e2] t2].
    destruct IHk as (Hc & He & Ht).
    { intros q. rewrite <- app_path. rewrite <- HL. reflexivity. }
    split; [exact Hc|split; [|exact Ht]].
    apply evs_ok_app; [|exact He].
    pose proof (HL []) as H0. rewrite app_nil_r in H0. simpl in H0.
    destruct (ev_of c a) as [v|]; [|apply evs_ok_nil].
    intros p v' [Heq|[]]. inversion Heq; subst. symmetry; exact H0.
  - simpl in Hwf. apply andb_prop in Hwf. destruct Hwf as [Hwf Hsil].
    apply andb_prop in Hwf. destruct Hwf as [Hwf Hwk].
    apply andb_prop in Hwf. destruct Hwf as [Hwff Hwr].
    specialize (IHf c (tp ++ [F]) Hwff).
    destruct (sync c first (tp ++ [F])) as [[c1 e1] t1].
    destruct IHf as (Hc1 & He1 & Ht1).
    { intros q. rewrite <- app_path. rewrite <- HL. destruct kd; reflexivity. }
    subst c1.
    specialize (IHk (after_fork kd (advs c first)) (tp ++ [N]) Hwk).
    destruct (sync (after_fork kd (advs c first)) k (tp ++ [N])) as [[c2 e2] t2].
    destruct IHk as (Hc2 & He2 & Ht2).
    { intros q. rewrite <- app_path. rewrite <- HL. destruct kd; reflexivity. }
    split; [exact Hc2|split].
    + apply evs_ok_app; [exact He1|apply evs_ok_app; [|exact He2]].
      destruct kd; [|apply evs_ok_nil].
      intros p v [Heq|[]]. inversion Heq; subst.
      pose proof (HL []) as H0. rewrite app_nil_r in H0. simpl in H0. symmetry; exact H0.
    + apply Forall_app. split; [exact Ht1|]. constructor; [|exact Ht2].
      destruct kd; simpl.
      * split; [exact Hwr|]. intros q. rewrite <- app_path. rewrite <- HL. reflexivity.
      * exact Hsil.
Qed.

Lemma exec1_ok : forall c tp code c' tp' k evs ts,
  wf_body code = true -> (forall q, label c code q = L (tp ++ q)) ->
  exec1 c tp code = Some (c', tp', k, evs, ts) ->
  wf_body k = true /\ (forall q, label c' k q = L (tp' ++ q)) /\ evs_ok evs /\ Forall task_ok ts.
Proof.
  intros c tp code c' tp' k evs ts Hwf HL Hex.
  destruct code as [|a k0|kd first rest k0]; simpl in Hex; [discriminate| |].
  - inversion Hex; subst; clear Hex. simpl in Hwf.
    split; [exact Hwf|split; [|split; [|constructor]]].
    + intros q. rewrite <- app_path. rewrite <- HL. reflexivity.
    + pose proof (HL []) as H0. rewrite app_nil_r in H0. simpl in H0.
      destruct (ev_of c a) as [v|]; [|apply evs_ok_nil].
      intros p v' [Heq|[]]. inversion Heq; subst. symmetry; exact H0.
  - simpl in Hwf. apply andb_prop in Hwf. destruct Hwf as [Hwf Hsil].
    apply andb_prop in Hwf. destruct Hwf as [Hwf Hwk].
    apply andb_prop in Hwf. destruct Hwf as [Hwff Hwr].
    pose proof (sync_ok first c (tp ++ [F]) Hwff) as Hs.
    destruct (sync c first (tp ++ [F])) as [[c1 e1] t1].
    destruct Hs as (Hc1 & He1 & Ht1).
    { intros q. rewrite <- app_path. rewrite <- HL. destruct kd; reflexivity. }
    subst c1. inversion Hex; subst; clear Hex.
    split; [exact Hwk|split; [|split]].
    + intros q. rewrite <- app_path. rewrite <- HL. destruct kd; reflexivity.
    + apply evs_ok_app; [exact He1|].
      destruct kd; [|apply evs_ok_nil].
      intros p v [Heq|[]]. inversion Heq; subst.
      pose proof (HL []) as H0. rewrite app_nil_r in H0. simpl in H0. symmetry; exact H0.
    + apply Forall_app. split; [exact Ht1|]. constructor; [|constructor].
      destruct kd; simpl.
      * split; [exact Hwr|]. intros q. rewrite <- app_path. rewrite <- HL. reflexivity.
      * exact Hsil.
Qed.

(** silent code neither moves the counter nor emits events; it only creates silent Ambient tasks *)
Lemma sync_silent : forall b c tp,
  silent b = true ->
  let '(c', evs, ts) := sync c b tp in c' = c /\ evs = [] /\ Forall task_ok ts.
Proof.
  induction b as [|a k IHk|kd first IHf rest IHr k IHk]; intros c tp Hs; simpl.
  - auto.
  - simpl in Hs. apply andb_prop in Hs. destruct Hs as [Ha Hk].
    assert (Hadv : adv1 c a = c) by (destruct a; simpl in *; try discriminate; reflexivity).
    assert (Hev : ev_of c a = None) by (destruct a; simpl in *; try discriminate; reflexivity).
    rewrite Hadv, Hev. specialize (IHk c (tp ++ [N]) Hk).
    destruct (sync c k (tp ++ [N])) as [[c2 e2] t2]. exact IHk.
  - destruct kd; simpl in Hs; [discriminate|].
    apply andb_prop in Hs. destruct Hs as [Hs Hk]. apply andb_prop in Hs. destruct Hs as [Hf Hr].
    specialize (IHf c (tp ++ [F]) Hf).
    destruct (sync c first (tp ++ [F])) as [[c1 e1] t1]. destruct IHf as (-> & -> & Ht1).
    simpl. specialize (IHk c (tp ++ [N]) Hk).
    destruct (sync c k (tp ++ [N])) as [[c2 e2] t2]. destruct IHk as (-> & -> & Ht2).
    split; [reflexivity|split; [reflexivity|]].
    apply Forall_app. split; [exact Ht1|]. constructor; [exact Hr|exact Ht2].
Qed.

Lemma exec1_silent : forall c tp code c' tp' k evs ts,
  silent code = true -> exec1 c tp code = Some (c', tp', k, evs, ts) ->
  c' = c /\ evs = [] /\ silent k = true /\ Forall task_ok ts.
Proof.
  intros c tp code c' tp' k evs ts Hs Hex.
  destruct code as [|a k0|kd first rest k0]; simpl in Hex; [discriminate| |].
  - simpl in Hs. apply andb_prop in Hs. destruct Hs as [Ha Hk].
    inversion Hex; subst; clear Hex.
    destruct a; simpl in *; try discriminate; auto.
  - destruct kd; simpl in Hs; [discriminate|].
    apply andb_prop in Hs. destruct Hs as [Hs Hk]. apply andb_prop in Hs. destruct Hs as [Hf Hr].
    pose proof (sync_silent first c (tp ++ [F]) Hf) as H.
    destruct (sync c first (tp ++ [F])) as [[c1 e1] t1]. destruct H as (-> & -> & Ht1).
    inversion Hex; subst; clear Hex.
    split; [reflexivity|split; [reflexivity|split; [exact Hk|]]].
    apply Forall_app. split; [exact Ht1|]. constructor; [exact Hr|constructor].
Qed.

Lemma Forall_upd : forall {A} (P : A -> Prop) i x l, Forall P l -> P x -> Forall P (upd i x l).
Proof.
  intros A P i x l; revert i. induction l as [|h t IH]; intros i Hl Hx; simpl.
  - destruct i; constructor.
  - inversion Hl; subst. destruct i; constructor; auto.
Qed.

Lemma Forall_nth_error : forall {A} (P : A -> Prop) l i x, Forall P l -> nth_error l i = Some x -> P x.
Proof.
  intros A P l i x Hl Hn. rewrite Forall_forall in Hl. apply Hl. eapply nth_error_In; eauto.
Qed.

Definition Inv (s : state) : Prop :=
  wf_body (snd (root s)) = true /\
  (forall q, label (base s) (snd (root s)) q = L (fst (root s) ++ q)) /\
  Forall task_ok (tasks s) /\ evs_ok (trace s).

Lemma step_inv : forall s ch, Inv s -> Inv (step s ch).
Proof.
  intros s ch (Hwf & HL & Ht & He). destruct ch as [i|]; simpl.
  - destruct (nth_error (tasks s) i) as [[[tp cx] code]|] eqn:Hn; [|repeat split; assumption].
    pose proof (Forall_nth_error _ _ _ _ Ht Hn) as Hok.
    destruct cx as [c|]; simpl in Hok.
    + destruct Hok as [Hwc HLc].
      destruct (exec1 c tp code) as [[[[[c' tp'] k] evs] ts]|] eqn:Hex; [|repeat split; assumption].
      destruct (exec1_ok _ _ _ _ _ _ _ _ Hwc HLc Hex) as (Hwk & HLk & Hevs & Hts).
      repeat split; simpl; try assumption.
      * apply Forall_app. split; [|exact Hts]. apply Forall_upd; [exact Ht|]. simpl. split; assumption.
      * apply evs_ok_app; assumption.
    + destruct (exec1 (base s) tp code) as [[[[[c' tp'] k] evs] ts]|] eqn:Hex; [|repeat split; assumption].
      destruct (exec1_silent _ _ _ _ _ _ _ _ Hok Hex) as (-> & -> & Hsk & Hts).
      repeat split; simpl; try assumption.
      * apply Forall_app. split; [|exact Hts]. apply Forall_upd; [exact Ht|]. exact Hsk.
      * rewrite app_nil_r. exact He.
  - destruct (exec1 (base s) (fst (root s)) (snd (root s))) as [[[[[c' tp'] k] evs] ts]|] eqn:Hex;
      [|repeat split; assumption].
    destruct (exec1_ok _ _ _ _ _ _ _ _ Hwf HL Hex) as (Hwk & HLk & Hevs & Hts).
    repeat split; simpl; try assumption.
    + apply Forall_app. split; assumption.
    + apply evs_ok_app; assumption.
Qed.

Lemma run_inv : forall sched s, Inv s -> Inv (fold_left step sched s).
Proof. induction sched as [|ch t IH]; intros s H; simpl; [exact H|]. apply IH, step_inv, H. Qed.

End Inv.

(** ** Main theorem: under wf every event of every execution carries the sequential label *)
Theorem wf_labels_sound : forall c0 prog sched p v,
  wf_body prog = true -> In (p, v) (trace (run c0 prog sched)) -> label c0 prog p = Some v.
Proof.
  intros c0 prog sched p v Hwf Hin.
  assert (HI : Inv (label c0 prog) (init c0 prog)).
  { repeat split; simpl; try assumption; try constructor. intros p' v' []. }
  destruct (run_inv (label c0 prog) sched _ HI) as (_ & _ & _ & He).
  apply He, Hin.
Qed.

(** hence the value at a structural path does not depend on the schedule (nor, parties running the
    same program from the same base counter, on the party) *)
Theorem wf_labels_deterministic : forall c0 prog s1 s2 p v1 v2,
  wf_body prog = true ->
  In (p, v1) (trace (run c0 prog s1)) -> In (p, v2) (trace (run c0 prog s2)) -> v1 = v2.
Proof.
  intros c0 prog s1 s2 p v1 v2 Hwf H1 H2.
  apply (wf_labels_sound _ _ _ _ _ Hwf) in H1. apply (wf_labels_sound _ _ _ _ _ Hwf) in H2.
  congruence.
Qed.

(** the base counter is moved only by the main program (in program order) *)
Theorem wf_base_counter : forall c0 prog sched,
  wf_body prog = true ->
  forall q, label (base (run c0 prog sched)) (snd (root (run c0 prog sched))) q
            = label c0 prog (fst (root (run c0 prog sched)) ++ q).
Proof.
  intros c0 prog sched Hwf.
  assert (HI : Inv (label c0 prog) (init c0 prog)).
  { repeat split; simpl; try assumption; try constructor. intros p' v' []. }
  destruct (run_inv (label c0 prog) sched _ HI) as (_ & HL & _ & _). exact HL.
Qed.

(* ------------------------------------------------------------------------------------------ *)
(** * Legal schedules (switch only after an Await or when the running task has ended)            *)

Definition head_is_await (b : body) : bool := match b with Act Await _ => true | _ => false end.
Definition code_of (s : state) (ch : option nat) : body :=
  match ch with
  | None => snd (root s)
  | Some i => match nth_error (tasks s) i with Some (_, _, code) => code | None => Done end
  end.

(** returns (state, last choice, may-switch-now, all-switches-legal) *)
Fixpoint run_chk (s : state) (last : option (option nat)) (may : bool) (okb : bool) (sched : list (option nat))
  : state * bool :=
  match sched with
  | [] => (s, okb)
  | ch :: rest =>
      let same := match last with
                  | None => true
                  | Some l => match l, ch with
                              | None, None => true
                              | Some i, Some j => Nat.eqb i j
                              | _, _ => false
                              end
                  end in
      let code := code_of s ch in
      let s' := step s ch in
      let code' := code_of s' ch in
      let may' := head_is_await code || (match code' with Done => true | _ => false end) in
      run_chk s' (Some ch) may' (okb && (same || may)) rest
  end.

Definition legal (c0 : pcT) (prog : body) (sched : list (option nat)) : bool :=
  snd (run_chk (init c0 prog) None true true sched).

Lemma run_chk_run : forall sched s last may okb, fst (run_chk s last may okb sched) = fold_left step sched s.
Proof. induction sched as [|ch t IH]; intros; simpl; [reflexivity|apply IH]. Qed.

End Model.

(* ------------------------------------------------------------------------------------------ *)
(** * Executable helpers for the correspondence run (logged call trees replayed through [label])     *)

Fixpoint paths (b : body) : list path :=
  match b with
  | Done => []
  | Act _ k => [] :: map (cons N) (paths k)
  | Fork _ first rest k =>
      [] :: map (cons F) (paths first) ++ map (cons R) (paths rest) ++ map (cons N) (paths k)
  end.

Definition all_labels (hop : Z -> nat -> Z) (c : pcT) (b : body) : list (option evval) :=
  map (label hop c b) (paths b).

Definition hop_of_table (tbl : list (Z * nat * Z)) (c : Z) (d : nat) : Z :=
  match find (fun e => Z.eqb (fst (fst e)) c && Nat.eqb (snd (fst e)) d) tbl with
  | Some e => snd e
  | None => 0
  end.

(* ------------------------------------------------------------------------------------------ *)
(** * Refutation for non-wf programs (shape of finding F-C08: runtime.mod)                        *)

(** main program of a party:
      f = transfer(..)            Fork PC   (rest: Recv 0; Await)
      await w                     Await
      r = x % 3                   Fork NoPC (rest: Await; Fork PC _mod (rest: Send 1))     <- not wf
      c = a * b                   Fork PC   (rest: Send 1)
      v = await f                 Await     (completed on one party, pending on another)
      d = a * a                   Fork PC   (rest: Send 1)
      await output                Await                                                      *)
Definition mulP : body -> body := Fork PC Done (Act (Send 1) (Act Await Done)).
Definition modP : body -> body := Fork NoPC Done (Act Await (Fork PC Done (Act (Send 1) (Act Await Done)) Done)).
Definition fc08_prog : body :=
  Fork PC Done (Act (Recv 0) (Act Await Done))
    (Act Await (modP (mulP (Act Await (mulP (Act Await Done)))))).

(** the repaired program: mod as a PC coroutine *)
Definition modP_fixed : body -> body :=
  Fork PC Done (Act Await (Fork PC Done (Act (Send 1) (Act Await Done)) Done)).
Definition fc08_fixed : body :=
  Fork PC Done (Act (Recv 0) (Act Await Done))
    (Act Await (modP_fixed (mulP (Act Await (mulP (Act Await Done)))))).

Definition hop_ex (c : Z) (d : nat) : Z := c * 65536 + Z.of_nat d + 7.

(** schedule A: `await f` finds f completed, the main program runs on to its next await, then mod's task runs;
    schedule B: `await f` suspends, mod's task runs, then the main program continues *)
Definition schedA : list (option nat) := [None; None; None; None; None; None; None; Some 1%nat; Some 1%nat].
Definition schedB : list (option nat) := [None; None; None; None; None; Some 1%nat; Some 1%nat; None; None].

Theorem nonwf_refuted :
  exists (prog : body) (s1 s2 : list (option nat)) (p : path) (v1 v2 : evval),
    wf_body prog = false /\
    legal hop_ex (0, 0%nat) prog s1 = true /\ legal hop_ex (0, 0%nat) prog s2 = true /\
    In (p, v1) (trace (run hop_ex (0, 0%nat) prog s1)) /\
    In (p, v2) (trace (run hop_ex (0, 0%nat) prog s2)) /\ v1 <> v2.
Proof.
  exists fc08_prog, schedA, schedB, [N; N; R; N], (EvFork 262151 1), (EvFork 196615 1).
  split; [vm_compute; reflexivity|].
  split; [vm_compute; reflexivity|].
  split; [vm_compute; reflexivity|].
  split; [vm_compute; auto 10|].
  split; [vm_compute; auto 10|].
  discriminate.
Qed.

(** the labels are cross-wired exactly as observed: under schedule A the `_mod` fork of `x % 3` receives the
    counter that `d = a * a` receives under schedule B, and vice versa *)
Example fc08_crosswired :
  let tA := trace (run hop_ex (0, 0%nat) fc08_prog schedA) in
  let tB := trace (run hop_ex (0, 0%nat) fc08_prog schedB) in
  let pmod := [N; N; R; N] in let pmul2 := [N; N; N; N; N] in
  (exists v, In (pmod, v) tA /\ In (pmul2, v) tB) /\ (exists v, In (pmod, v) tB /\ In (pmul2, v) tA).
Proof.
  split.
  - exists (EvFork 262151 1). split; vm_compute; auto 10.
  - exists (EvFork 196615 1). split; vm_compute; auto 10.
Qed.

(* ------------------------------------------------------------------------------------------ *)
(** * Buffer machine: MessageExchanger.buffers under data_received / receive (asyncoro.py:95-114)    *)

Inductive slot := Payload | Waiting.
Inductive bop := Deliver (pc : Z) | Receive (pc : Z).
Definition buf := list (Z * slot).

Fixpoint blookup (pc : Z) (b : buf) : option slot :=
  match b with [] => None | (k, s) :: t => if Z.eqb k pc then Some s else blookup pc t end.
Fixpoint bremove (pc : Z) (b : buf) : buf :=
  match b with [] => [] | (k, s) :: t => if Z.eqb k pc then bremove pc t else (k, s) :: bremove pc t end.
Definition bset (pc : Z) (s : slot) (b : buf) : buf := (pc, s) :: bremove pc b.

(** state: (buffers, number of matched deliver/receive pairs, an exception was raised) *)
Definition bstate := (buf * nat * bool)%type.

Definition bstep (st : bstate) (o : bop) : bstate :=
  let '(b, n, e) := st in
  match o with
  | Deliver pc =>
      match blookup pc b with
      | Some Waiting => (bremove pc b, S n, e)      (* buffers.pop(pc).set_result(payload) *)
      | Some Payload => (bremove pc b, n, true)     (* pop, then bytes has no set_result: AttributeError *)
      | None => (bset pc Payload b, n, e)           (* buffers[pc] = payload *)
      end
  | Receive pc =>
      match blookup pc b with
      | Some Payload => (bremove pc b, S n, e)      (* pop: the payload is returned *)
      | Some Waiting => (bremove pc b, n, e)        (* pop returns the other receiver's Future and drops the entry *)
      | None => (bset pc Waiting b, n, e)           (* buffers[pc] = Future() *)
      end
  end.

Definition bm_run (ops : list bop) : bstate := fold_left bstep ops ([], 0%nat, false).

Definition delivered (ops : list bop) : list Z :=
  flat_map (fun o => match o with Deliver pc => [pc] | _ => [] end) ops.
Definition received (ops : list bop) : list Z :=
  flat_map (fun o => match o with Receive pc => [pc] | _ => [] end) ops.
Definition zmem (pc : Z) (l : list Z) : bool := existsb (Z.eqb pc) l.

Definition expected (D R : list Z) (pc : Z) : option slot :=
  match zmem pc D, zmem pc R with
  | true, false => Some Payload
  | false, true => Some Waiting
  | _, _ => None
  end.

Lemma zmem_In : forall pc l, zmem pc l = true <-> In pc l.
Proof.
  intros pc l. unfold zmem. rewrite existsb_exists. split.
  - intros (x & Hx & He). apply Z.eqb_eq in He. subst. exact Hx.
  - intros H. exists pc. split; [exact H|apply Z.eqb_refl].
Qed.

Lemma zmem_app : forall pc a b, zmem pc (a ++ b) = zmem pc a || zmem pc b.
Proof. intros. unfold zmem. apply existsb_app. Qed.

Lemma zmem_single : forall pc k, zmem pc [k] = Z.eqb pc k.
Proof. intros. unfold zmem. simpl. apply orb_false_r. Qed.

Lemma blookup_bremove_same : forall pc b, blookup pc (bremove pc b) = None.
Proof.
  induction b as [|[k s] t IH]; simpl; [reflexivity|].
  destruct (Z.eqb k pc) eqn:E; [exact IH|]. simpl. rewrite E. exact IH.
Qed.

Lemma blookup_bremove_other : forall pc k b, k <> pc -> blookup k (bremove pc b) = blookup k b.
Proof.
  intros pc k b Hne. induction b as [|[k' s] t IH]; simpl; [reflexivity|].
  destruct (Z.eqb k' pc) eqn:E.
  - apply Z.eqb_eq in E. subst k'. destruct (Z.eqb pc k) eqn:E2; [apply Z.eqb_eq in E2; congruence|exact IH].
  - simpl. destruct (Z.eqb k' k); [reflexivity|exact IH].
Qed.

Lemma blookup_bset : forall pc s k b,
  blookup k (bset pc s b) = if Z.eqb pc k then Some s else blookup k b.
Proof.
  intros. unfold bset. simpl. destruct (Z.eqb pc k) eqn:E; [reflexivity|].
  apply blookup_bremove_other. intros ->. rewrite Z.eqb_refl in E. discriminate.
Qed.

Lemma delivered_app : forall a b, delivered (a ++ b) = delivered a ++ delivered b.
Proof. intros. unfold delivered. apply flat_map_app. Qed.
Lemma received_app : forall a b, received (a ++ b) = received a ++ received b.
Proof. intros. unfold received. apply flat_map_app. Qed.

Lemma NoDup_app_l : forall {A} (a b : list A), NoDup (a ++ b) -> NoDup a.
Proof. intros A a b H. induction a as [|h t IH]; [constructor|]. simpl in H. inversion H; subst.
  constructor; [intros Hin; apply H2, in_or_app; left; exact Hin|apply IH, H3]. Qed.

Lemma NoDup_snoc_notin : forall {A} (a : list A) x, NoDup (a ++ [x]) -> ~ In x a.
Proof.
  intros A a x H Hin. induction a as [|h t IH]; [destruct Hin|].
  simpl in H. inversion H; subst. destruct Hin as [->|Hin].
  - apply H2, in_or_app. right. left. reflexivity.
  - apply IH; assumption.
Qed.

(** With duplicate-free delivered labels and duplicate-free received labels, after ANY interleaving:
    no exception; the buffer holds exactly the delivered-not-received payloads and the received-not-delivered
    waiting futures. *)
Theorem bm_spec : forall ops,
  NoDup (delivered ops) -> NoDup (received ops) ->
  let '(b, n, e) := bm_run ops in
  e = false /\ forall pc, blookup pc b = expected (delivered ops) (received ops) pc.
Proof.
  induction ops as [|o ops IH] using rev_ind; intros HD HR.
  - simpl. split; [reflexivity|intros pc; reflexivity].
  - unfold bm_run in *. rewrite fold_left_app. simpl.
    rewrite delivered_app in HD. rewrite received_app in HR.
    specialize (IH (NoDup_app_l _ _ HD) (NoDup_app_l _ _ HR)).
    destruct (fold_left bstep ops ([], 0%nat, false)) as [[b n] e]. destruct IH as [He Hb]. subst e.
    rewrite delivered_app, received_app.
    destruct o as [pc|pc]; simpl in *.
    + (* Deliver pc : pc not delivered before *)
      rewrite app_nil_r in *.
      assert (HnD : zmem pc (delivered ops) = false).
      { destruct (zmem pc (delivered ops)) eqn:E; [|reflexivity].
        apply zmem_In in E. exfalso. eapply NoDup_snoc_notin; eauto. }
      pose proof (Hb pc) as Hpc. unfold expected in Hpc. rewrite HnD in Hpc.
      destruct (zmem pc (received ops)) eqn:ER; rewrite Hpc.
      * split; [reflexivity|]. intros k. unfold expected. rewrite zmem_app, zmem_single.
        destruct (Z.eqb k pc) eqn:Ek.
        -- apply Z.eqb_eq in Ek. subst k. rewrite blookup_bremove_same, ER, orb_true_r. reflexivity.
        -- rewrite orb_false_r. rewrite blookup_bremove_other; [apply Hb|intros ->; rewrite Z.eqb_refl in Ek; discriminate].
      * split; [reflexivity|]. intros k. unfold expected. rewrite zmem_app, zmem_single, blookup_bset.
        rewrite (Z.eqb_sym pc k). destruct (Z.eqb k pc) eqn:Ek.
        -- apply Z.eqb_eq in Ek. subst k. rewrite ER, orb_true_r. reflexivity.
        -- rewrite orb_false_r. apply Hb.
    + (* Receive pc : pc not received before *)
      rewrite app_nil_r in *.
      assert (HnR : zmem pc (received ops) = false).
      { destruct (zmem pc (received ops)) eqn:E; [|reflexivity].
        apply zmem_In in E. exfalso. eapply NoDup_snoc_notin; eauto. }
      pose proof (Hb pc) as Hpc. unfold expected in Hpc. rewrite HnR in Hpc.
      destruct (zmem pc (delivered ops)) eqn:ED; rewrite Hpc.
      * split; [reflexivity|]. intros k. unfold expected. rewrite zmem_app, zmem_single.
        destruct (Z.eqb k pc) eqn:Ek.
        -- apply Z.eqb_eq in Ek. subst k. rewrite blookup_bremove_same, ED, orb_true_r. reflexivity.
        -- rewrite orb_false_r. rewrite blookup_bremove_other; [apply Hb|intros ->; rewrite Z.eqb_refl in Ek; discriminate].
      * split; [reflexivity|]. intros k. unfold expected. rewrite zmem_app, zmem_single, blookup_bset.
        rewrite (Z.eqb_sym pc k). destruct (Z.eqb k pc) eqn:Ek.
        -- apply Z.eqb_eq in Ek. subst k. rewrite ED, orb_true_r. reflexivity.
        -- rewrite orb_false_r. apply Hb.
Qed.

(** ... so at quiescence nothing is left iff sends and receives match: a delivered label is still buffered iff it
    was never received, a receive is still waiting iff its label was never delivered. *)
Corollary consumed_once : forall ops pc,
  NoDup (delivered ops) -> NoDup (received ops) ->
  let b := fst (fst (bm_run ops)) in
  (blookup pc b = Some Payload <-> In pc (delivered ops) /\ ~ In pc (received ops)) /\
  (blookup pc b = Some Waiting <-> In pc (received ops) /\ ~ In pc (delivered ops)) /\
  (In pc (delivered ops) -> In pc (received ops) -> blookup pc b = None).
Proof.
  intros ops pc HD HR. pose proof (bm_spec ops HD HR) as H.
  destruct (bm_run ops) as [[b n] e]. destruct H as [_ H]. simpl. rewrite (H pc). unfold expected.
  destruct (zmem pc (delivered ops)) eqn:ED; destruct (zmem pc (received ops)) eqn:ER;
    repeat split; try discriminate; try reflexivity; intros;
    repeat match goal with
    | H : _ /\ _ |- _ => destruct H
    | H : zmem _ _ = true |- _ => apply zmem_In in H
    end; try tauto;
    try (exfalso; match goal with H : In pc ?l, E : zmem pc ?l = false |- _ =>
           apply zmem_In in H; rewrite H in E; discriminate end).
  - intros Hin. apply zmem_In in Hin. rewrite Hin in ER. discriminate.
  - intros Hin. apply zmem_In in Hin. rewrite Hin in ED. discriminate.
Qed.

(** all buffers empty at the end  <->  the delivered and received label sets coincide *)
Corollary empty_iff_matched : forall ops,
  NoDup (delivered ops) -> NoDup (received ops) ->
  ((forall pc, blookup pc (fst (fst (bm_run ops))) = None) <->
   (forall pc, In pc (delivered ops) <-> In pc (received ops))).
Proof.
  intros ops HD HR. pose proof (bm_spec ops HD HR) as H.
  destruct (bm_run ops) as [[b n] e]. destruct H as [_ H]. simpl. split.
  - intros Hall pc. specialize (Hall pc). rewrite H in Hall. unfold expected in Hall.
    destruct (zmem pc (delivered ops)) eqn:ED; destruct (zmem pc (received ops)) eqn:ER; try discriminate.
    + apply zmem_In in ED. apply zmem_In in ER. tauto.
    + split; intros Hin; apply zmem_In in Hin; congruence.
  - intros Hall pc. rewrite H. unfold expected.
    destruct (zmem pc (delivered ops)) eqn:ED; destruct (zmem pc (received ops)) eqn:ER; try reflexivity.
    + apply zmem_In in ED. apply Hall in ED. apply zmem_In in ED. congruence.
    + apply zmem_In in ER. apply Hall in ER. apply zmem_In in ER. congruence.
Qed.

(** a repeated label breaks it: delivered twice before being received -> exception; received twice -> the
    second receive steals the Future and the payload is orphaned *)
Example bm_duplicate_refuted :
  snd (bm_run [Deliver 7; Deliver 7]) = true /\
  bm_run [Receive 7; Receive 7; Deliver 7] = ([(7, Payload)], 0%nat, false).
Proof. vm_compute. split; reflexivity. Qed.

(* ------------------------------------------------------------------------------------------ *)
(** * Label uniqueness: reduction of "for every schedule" to the sequential reading              *)

Section Sends.
Variable hop : Z -> nat -> Z.

(** all Send events of the sequential reading: (path, peer, label) *)
Fixpoint sends (c : pcT) (b : body) (tp : path) : list (path * (nat * Z)) :=
  match b with
  | Done => []
  | Act a k =>
      (match a with Send p => [(tp, (p, fst c))] | _ => [] end) ++ sends (adv1 c a) k (tp ++ [N])
  | Fork kd first rest k =>
      sends c first (tp ++ [F])
      ++ (match kd with PC => sends (child hop (advs c first)) rest (tp ++ [R]) | NoPC => [] end)
      ++ sends (after_fork kd (advs c first)) k (tp ++ [N])
  end.

Lemma label_in_sends : forall b c tp q p v,
  label hop c b q = Some (EvSend p v) -> In (tp ++ q, (p, v)) (sends c b tp).
Proof.
  induction b as [|a k IHk|kd first IHf rest IHr k IHk]; intros c tp q p v H.
  - destruct q; simpl in H; discriminate.
  - destruct q as [|d q]; simpl in H.
    + simpl. apply in_or_app. left. destruct a; simpl in H; try discriminate.
      inversion H; subst. rewrite app_nil_r. left. reflexivity.
    + destruct d; try discriminate. simpl. apply in_or_app. right.
      rewrite app_path. apply IHk. exact H.
  - destruct q as [|d q]; simpl in H.
    + destruct kd; discriminate.
    + simpl. destruct d.
      * (* N *) apply in_or_app. right. apply in_or_app. right. rewrite app_path. apply IHk.
        destruct kd; exact H.
      * (* F *) apply in_or_app. left. rewrite app_path. apply IHf. destruct kd; exact H.
      * (* R *) destruct kd; [|discriminate]. apply in_or_app. right. apply in_or_app. left.
        rewrite app_path. apply IHr. exact H.
Qed.

Lemma NoDup_map_inj : forall {A B} (f : A -> B) l x y,
  NoDup (map f l) -> In x l -> In y l -> f x = f y -> x = y.
Proof.
  intros A B f l. induction l as [|h t IH]; intros x y Hnd Hx Hy Hf; [destruct Hx|].
  simpl in Hnd. inversion Hnd; subst.
  destruct Hx as [->|Hx]; destruct Hy as [->|Hy]; auto.
  - exfalso. apply H1. rewrite Hf. apply in_map. exact Hy.
  - exfalso. apply H1. rewrite <- Hf. apply in_map. exact Hx.
Qed.

(** If, in the sequential reading, no two sends to the same peer carry the same label, then in EVERY pair of
    executions (any schedulers) two send events at distinct structural positions carry different (peer,label). *)
Theorem labels_unique_reduction : forall c0 prog s1 s2 p1 p2 peer v1 v2,
  wf_body prog = true ->
  NoDup (map snd (sends c0 prog [])) ->
  In (p1, EvSend peer v1) (trace (run hop c0 prog s1)) ->
  In (p2, EvSend peer v2) (trace (run hop c0 prog s2)) ->
  p1 <> p2 -> v1 <> v2.
Proof.
  intros c0 prog s1 s2 p1 p2 peer v1 v2 Hwf Hnd H1 H2 Hne Heq. subst v2.
  apply (wf_labels_sound hop _ _ _ _ _ Hwf) in H1. apply (wf_labels_sound hop _ _ _ _ _ Hwf) in H2.
  apply (label_in_sends _ _ []) in H1. apply (label_in_sends _ _ []) in H2. simpl in H1, H2.
  pose proof (NoDup_map_inj snd _ _ _ Hnd H1 H2 eq_refl) as E. inversion E. contradiction.
Qed.

End Sends.

(** executable duplicate check used by the correspondence run on logged call trees *)
Fixpoint has_dup (l : list (nat * Z)) : bool :=
  match l with
  | [] => false
  | (p, v) :: t => existsb (fun e => Nat.eqb (fst e) p && Z.eqb (snd e) v) t || has_dup t
  end.

Lemma has_dup_false_NoDup : forall l, has_dup l = false -> NoDup l.
Proof.
  induction l as [|[p v] t IH]; intros H; [constructor|].
  simpl in H. apply orb_false_elim in H. destruct H as [H1 H2].
  constructor; [|apply IH, H2].
  intros Hin. assert (existsb (fun e => Nat.eqb (fst e) p && Z.eqb (snd e) v) t = true).
  { apply existsb_exists. exists (p, v). split; [exact Hin|]. simpl. rewrite Nat.eqb_refl, Z.eqb_refl. reflexivity. }
  congruence.
Qed.

Definition seq_sends_unique (hop : Z -> nat -> Z) (c0 : pcT) (prog : body) : bool :=
  negb (has_dup (map snd (sends hop c0 prog []))).

Theorem labels_unique : forall hop c0 prog s1 s2 p1 p2 peer v1 v2,
  wf_body prog = true -> seq_sends_unique hop c0 prog = true ->
  In (p1, EvSend peer v1) (trace (run hop c0 prog s1)) ->
  In (p2, EvSend peer v2) (trace (run hop c0 prog s2)) ->
  p1 <> p2 -> v1 <> v2.
Proof.
  intros hop c0 prog s1 s2 p1 p2 peer v1 v2 Hwf Hu. apply labels_unique_reduction; [exact Hwf|].
  apply has_dup_false_NoDup. unfold seq_sends_unique in Hu. apply negb_true_iff in Hu. exact Hu.
Qed.
