(** C16 — PRSS keys are shared exactly among each subset's members.  Only statements. *)
Require Import MPyC.Base MPyC.PRSS MPyC.Keys.
Local Open Scope nat_scope.

(** After all handshakes, party j holds the key of subset S (|S| = m - t)  iff  j is a member of S:
    the owner S[0] generated it, and sent it (as client, S[0] < j) exactly to the other members. *)
Theorem C16_keys_held_exactly_by_members :
  forall m t S j, In S (subsets m t) -> S <> [] -> (holds m t j S = true <-> In j S).
Proof. exact keys_exact. Qed.
Print Assumptions C16_keys_held_exactly_by_members.

(** Receiver and sender slice the key packet by the same subset list in the same order. *)
Theorem C16_packet_alignment : forall m t i j, from_peer m t j i = to_peer m t i j.
Proof. exact keys_aligned. Qed.
Print Assumptions C16_packet_alignment.

Theorem C16_key_sent_only_to_members :
  forall m t i j S, In S (to_peer m t i j) -> In j S /\ owner S = i.
Proof. exact key_sent_only_to_members. Qed.
Print Assumptions C16_key_sent_only_to_members.

(** Every coalition of at most t parties lacks the key of at least one subset. *)
Theorem C16_coalition_lacks_a_key :
  forall m t (C : list nat), length C <= t -> t <= m ->
    exists S, In S (subsets m t) /\ forall j, In j C -> ~ In j S.
Proof. exact coalition_lacks_key. Qed.
Print Assumptions C16_coalition_lacks_a_key.

(** the subsets are exactly the (m-t)-element ascending sublists of 0..m-1 *)
Theorem C16_subsets_spec : forall m t S, In S (subsets m t) <-> subseq S (seq 0 m) /\ length S = m - t.
Proof. intros. apply combs_spec. Qed.
Print Assumptions C16_subsets_spec.

Example C16_nonvacuous :
  subsets 4 1 = [[0;1;2];[0;1;3];[0;2;3];[1;2;3]] /\
  to_peer 4 1 0 2 = [[0;1;2];[0;2;3]] /\ to_peer 4 1 1 3 = [[1;2;3]] /\
  map (fun j => holds 4 1 j [0;2;3]) [0;1;2;3] = [true; false; true; true].
Proof. vm_compute. auto. Qed.
