(** C01 — secure integer operations are exact (value level).  Only statements; proofs are in
    theories/Masked.v (masked-opening protocols on integers mod the field prime p, random tapes
    explicit) and theories/Divsteps.v (Bernstein-Yang divsteps as coded).  Field elements are their
    representatives in [0,p); [x = a mod p] is the embedding of the Python integer a.  The
    hypothesis [2^(l+k+1) < p] is what sectypes._pfield guarantees (primes of l+k+2 bits). *)
Require Import MPyC.Zp MPyC.Masked MPyC.Divsteps.
From Coq Require Import ZArith List Znumtheory Lia.
Import ListNotations.
Local Open Scope Z_scope.

(** trunc: for EVERY tape the result is floor(a/2^f) or floor(a/2^f)+1 *)
Theorem C01_trunc_floor_or_ceil : forall p l k f a rbits rdiv,
  prime p -> 0 <= k -> 0 <= f < l -> 2 ^ (l + k + 1) < p ->
  - 2 ^ (l - 1) <= a < 2 ^ (l - 1) ->
  Forall bit rbits -> Z.of_nat (length rbits) = f -> 0 <= rdiv < 2 ^ (k + l - f) ->
  trunc_v p l f (a mod p) rbits rdiv = (a / 2 ^ f) mod p \/
  trunc_v p l f (a mod p) rbits rdiv = (a / 2 ^ f + 1) mod p.
Proof. exact trunc_floor_or_ceil. Qed.
Print Assumptions C01_trunc_floor_or_ceil.

Theorem C01_lsb_correct : forall p l k a b r,
  2 <= k -> 1 <= l -> 2 ^ (l + k + 1) < p -> - 2 ^ l <= a < 2 ^ l ->
  bit b -> 0 <= r < 2 ^ (l + k - 1) ->
  lsb_v p l (a mod p) b r = a mod 2.
Proof. exact lsb_correct. Qed.
Print Assumptions C01_lsb_correct.

(** a < 0 test (LT): correct on -2^l <= a < 2^l, i.e. also for a = x - y of two l-bit values *)
Theorem C01_sgn_lt_correct : forall p l k a rbits rdiv ssign rz,
  prime p -> 1 <= k -> 1 <= l -> 2 ^ (l + k + 1) < p -> 3 * l + 3 < p ->
  - 2 ^ l <= a < 2 ^ l ->
  Forall bit rbits -> Z.of_nat (length rbits) = l -> 0 <= rdiv < 2 ^ k ->
  (ssign = 1 \/ ssign = p - 1) -> rz mod p <> 0 (* good tape of the inner is_zero_public *) ->
  sgn_v p l 1 (a mod p) rbits rdiv ssign rz = if a <? 0 then 1 else 0.
Proof. exact sgn_lt_correct. Qed.
Print Assumptions C01_sgn_lt_correct.

Theorem C01_sgn_eq_correct : forall p l k a rbits rdiv ssign rz,
  1 < p -> 1 <= k -> 1 <= l -> 2 ^ (l + k + 1) < p ->
  - 2 ^ l < a < 2 ^ l ->
  Forall bit rbits -> Z.of_nat (length rbits) = l -> 0 <= rdiv < 2 ^ k ->
  sgn_v p l 2 (a mod p) rbits rdiv ssign rz = if a =? 0 then 1 else 0.
Proof. exact sgn_eq_correct. Qed.
Print Assumptions C01_sgn_eq_correct.

Theorem C01_sgn_correct : forall p l k a rbits rdiv ssign rz,
  prime p -> 1 <= k -> 1 <= l -> 2 ^ (l + k + 1) < p -> 3 * l + 3 < p ->
  - 2 ^ l < a < 2 ^ l ->
  Forall bit rbits -> Z.of_nat (length rbits) = l -> 0 <= rdiv < 2 ^ k ->
  (ssign = 1 \/ ssign = p - 1) -> rz mod p <> 0 ->
  sgn_v p l 0 (a mod p) rbits rdiv ssign rz = (Z.sgn a) mod p.
Proof. exact sgn_correct. Qed.
Print Assumptions C01_sgn_correct.

Theorem C01_abs_correct : forall p l k a rbits rdiv ssign rz,
  prime p -> 1 <= k -> 1 <= l -> 2 ^ (l + k + 1) < p -> 3 * l + 3 < p ->
  - 2 ^ l <= a < 2 ^ l ->
  Forall bit rbits -> Z.of_nat (length rbits) = l -> 0 <= rdiv < 2 ^ k ->
  (ssign = 1 \/ ssign = p - 1) -> rz mod p <> 0 ->
  abs_v p l (a mod p) rbits rdiv ssign rz = (Z.abs a) mod p.
Proof. exact abs_correct. Qed.
Print Assumptions C01_abs_correct.

(** _mod for a public divisor b > 0, Python sign convention (Z.modulo). The last hypothesis is the
    good-tape condition "the opened value does not wrap": it holds for every tape with rdiv >= 1. *)
Theorem C01_mod_correct : forall p l k b a rbits rdiv ssign rz,
  prime p -> 2 <= k -> 1 <= l -> 2 ^ (l + k + 1) < p ->
  0 < b < 2 ^ l -> a < 2 ^ l ->
  Forall bit rbits -> bits_val rbits < b -> b <= 2 ^ Z.of_nat (length rbits) ->
  3 * Z.of_nat (length rbits) + 3 < p ->
  0 <= rdiv < 2 ^ k -> (ssign = 1 \/ ssign = p - 1) -> rz mod p <> 0 ->
  0 <= a + 2 ^ l - (2 ^ l) mod b + b * rdiv - bits_val rbits ->
  mod_v p l b (a mod p) rbits rdiv ssign rz = (a mod b) mod p.
Proof. exact mod_correct. Qed.
Print Assumptions C01_mod_correct.

Theorem C01_floordiv_correct : forall p l k b a rbits rdiv ssign rz,
  prime p -> 2 <= k -> 1 <= l -> 2 ^ (l + k + 1) < p ->
  0 < b < 2 ^ l -> a < 2 ^ l ->
  Forall bit rbits -> bits_val rbits < b -> b <= 2 ^ Z.of_nat (length rbits) ->
  3 * Z.of_nat (length rbits) + 3 < p ->
  0 <= rdiv < 2 ^ k -> (ssign = 1 \/ ssign = p - 1) -> rz mod p <> 0 ->
  0 <= a + 2 ^ l - (2 ^ l) mod b + b * rdiv - bits_val rbits ->
  floordiv_v p l b (a mod p) rbits rdiv ssign rz = (a / b) mod p.
Proof. exact floordiv_correct. Qed.
Print Assumptions C01_floordiv_correct.

Theorem C01_is_zero_public_correct : forall p a r,
  prime p -> r mod p <> 0 -> is_zero_public_v p a r = (a mod p =? 0).
Proof. exact is_zero_public_correct. Qed.
Print Assumptions C01_is_zero_public_correct.

(** the bad tape: r = 0 makes every value test as zero (probability 1/p, or excluded by the retry loop) *)
Theorem C01_is_zero_public_bad_tape : forall p a, is_zero_public_v p a 0 = true.
Proof. exact is_zero_public_bad_tape. Qed.
Print Assumptions C01_is_zero_public_bad_tape.

(** prod / all: the n%2 pairing rounds compute the product for every length *)
Theorem C01_prod_correct : forall p xs,
  1 < p -> Forall (fun x => 0 <= x < p) xs -> prod_v p xs = lprod xs mod p.
Proof. exact prod_correct. Qed.
Print Assumptions C01_prod_correct.

Theorem C01_pow_correct : forall p a e,
  0 < p -> 0 <= e -> e <> 254 -> pow_v p (a mod p) e = (a ^ e) mod p.
Proof. exact pow_correct. Qed.
Print Assumptions C01_pow_correct.

Theorem C01_if_else_correct : forall p c x y, bit c ->
  if_else_v p c (x mod p) (y mod p) = (if c =? 0 then y else x) mod p.
Proof. exact if_else_correct. Qed.
Print Assumptions C01_if_else_correct.

Theorem C01_if_swap_correct : forall p c x y, bit c ->
  if_swap_v p c (x mod p) (y mod p) = if c =? 0 then (x mod p, y mod p) else (y mod p, x mod p).
Proof. exact if_swap_correct. Qed.
Print Assumptions C01_if_swap_correct.

Theorem C01_in_prod_correct : forall p xs ys,
  in_prod_v p (map (fun x => x mod p) xs) (map (fun y => y mod p) ys) = dot xs ys mod p.
Proof. exact in_prod_correct. Qed.
Print Assumptions C01_in_prod_correct.

Theorem C01_sum_correct : forall p xs,
  sum_v p (map (fun x => x mod p) xs) = fold_right Z.add 0 xs mod p.
Proof. exact sum_correct. Qed.
Print Assumptions C01_sum_correct.

Theorem C01_matrix_prod_entry : forall p A Bt i j, (i < length A)%nat -> (j < length Bt)%nat ->
  nth j (nth i (matrix_prod_v p A Bt) []) 0 = dot (nth i A []) (nth j Bt []) mod p.
Proof. exact matrix_prod_entry. Qed.
Print Assumptions C01_matrix_prod_entry.

(** the symmetric shortcut for A * A^T agrees with the full product *)
Theorem C01_matrix_prod_sym_correct : forall p A i j, (i < length A)%nat -> (j < length A)%nat ->
  nth j (nth i (matrix_prod_sym_v p A) []) 0 = nth j (nth i (matrix_prod_v p A A) []) 0.
Proof. exact matrix_prod_sym_correct. Qed.
Print Assumptions C01_matrix_prod_sym_correct.

(** ---- Bernstein-Yang divsteps (value level, ideal comparisons) ---- *)
Theorem C01_divsteps_invariant : forall a b n, Z.odd a = true ->
  let '(delta, f, v, g, r) := steps_ext a n (1, a, 0, b, 1) in
  steps_gcd n (1, a, b) = (delta, f, g) /\ Z.odd f = true /\ Z.gcd f g = Z.gcd a b /\
  (exists u, f = u * a + v * b) /\ (exists q, g = q * a + r * b).
Proof.
  intros a b n Ha. pose proof (divsteps_invariant a b n Ha) as H.
  destruct (steps_ext a n (1, a, 0, b, 1)) as [[[[delta f] v] g] r].
  destruct H as (H1 & H2 & H3 & H4 & H5 & _). auto.
Qed.
Print Assumptions C01_divsteps_invariant.

(** the shortened comparison [delta_gt0] really decides delta > 0 at every step *)
Theorem C01_delta_gt0 : forall a b n, Z.odd a = true ->
  let '(delta, f, g) := steps_gcd n (1, a, b) in
  delta_gt0 (Z.of_nat n) delta = (if 0 <? delta then 1 else 0) /\ Z.abs (delta - 1) <= Z.of_nat n.
Proof.
  intros a b n Ha. pose proof (divsteps_invariant a b n Ha) as H.
  destruct (steps_ext a n (1, a, 0, b, 1)) as [[[[delta f] v] g] r].
  destruct H as (H1 & _ & _ & _ & _ & _ & _ & H8 & H9 & _). rewrite H1. auto.
Qed.
Print Assumptions C01_delta_gt0.

(** BY_bound l: "g = 0 after _iterations(l) steps" (Bernstein-Yang Thm 11.2) — proved by exhaustive
    computation for l <= 9, an explicit hypothesis above that. *)
Theorem C01_BY_bound_small : forall l, 0 <= l <= 9 -> BY_bound l.
Proof. exact BY_bound_small. Qed.
Print Assumptions C01_BY_bound_small.

Theorem C01_gcd_correct_partial : forall l a b, BY_bound l -> 0 <= l ->
  Z.abs a < 2 ^ l -> Z.abs b < 2 ^ l ->
  gcd_v l a b = Z.gcd a b /\ - 2 ^ l <= gcd_raw l a b < 2 ^ l.
Proof. exact gcd_correct_partial. Qed.
Print Assumptions C01_gcd_correct_partial.

Theorem C01_lcm_correct_partial : forall l a b, BY_bound l -> 0 <= l ->
  Z.abs a <= 2 ^ l -> Z.abs b <= 2 ^ l -> lcm_v l a b = Z.lcm a b.
Proof. exact lcm_correct_partial. Qed.
Print Assumptions C01_lcm_correct_partial.

Theorem C01_gcdext_correct_partial : forall l a b, BY_bound l -> 0 <= l ->
  Z.abs a <= 2 ^ l -> Z.abs b <= 2 ^ l ->
  let '(g, s, t) := gcdext_v l a b in g = Z.gcd a b /\ s * a + t * b = g.
Proof. exact gcdext_correct_partial. Qed.
Print Assumptions C01_gcdext_correct_partial.

Theorem C01_inverse_correct_partial : forall l a b, BY_bound l ->
  0 <= a <= 2 ^ l -> 0 < b <= 2 ^ l -> Z.gcd a b = 1 ->
  (inverse_v l a b * a) mod b = 1 mod b /\ (inverse_range_bound l -> 0 <= inverse_v l a b < b).
Proof. exact inverse_correct_partial. Qed.
Print Assumptions C01_inverse_correct_partial.

(** unconditional for 8-bit secure integers (l = 8 <= 9) *)
Theorem C01_gcd_correct_8 : forall a b, Z.abs a < 2 ^ 8 -> Z.abs b < 2 ^ 8 -> gcd_v 8 a b = Z.gcd a b.
Proof.
  intros a b Ha Hb. apply (gcd_correct_partial 8 a b); auto; try lia. apply BY_bound_small. lia.
Qed.
Print Assumptions C01_gcd_correct_8.

(** ---- non-vacuity: concrete instances meeting every hypothesis.  Small instance with a proved
    prime: l = 4, k = 2, p = 131 > 2^(l+k+1) = 128; then the field of SecInt(8) with k = 30. ---- *)
Example C01_nonvacuous_small :
  let p := 131 in
  prime p /\ 2 ^ (4 + 2 + 1) < p /\ 3 * 4 + 3 < p /\
  trunc_v p 4 2 ((-8) mod p) [1;1] 7 = (-2) mod p /\
  trunc_v p 4 2 ((-7) mod p) [1;1] 7 = (-1) mod p /\ (-7) / 2 ^ 2 = -2 /\
  lsb_v p 4 ((-7) mod p) 1 31 = 1 /\
  sgn_v p 4 1 ((-15) mod p) [1;1;0;1] 3 (p - 1) 5 = 1 /\
  sgn_v p 4 1 (15 mod p) [1;1;0;1] 3 1 5 = 0 /\
  sgn_v p 4 2 (0 mod p) [1;1;0;1] 3 (p - 1) 5 = 1 /\
  sgn_v p 4 0 ((-8) mod p) [0;1;0;1] 2 1 5 = (-1) mod p /\
  abs_v p 4 ((-8) mod p) [0;1;0;1] 2 1 5 = 8 /\
  mod_v p 4 7 ((-8) mod p) [1;0;1] 3 1 9 = 6 /\ (-8) mod 7 = 6 /\
  floordiv_v p 4 7 ((-8) mod p) [1;0;1] 3 1 9 = (-2) mod p /\
  is_zero_public_v p 0 77 = true /\ is_zero_public_v p 5 77 = false.
Proof. split; [apply is_prime_small_correct; reflexivity|]. vm_compute. repeat split; reflexivity. Qed.

Example C01_nonvacuous :
  let p := 1099511627563 in
  2 ^ (8 + 30 + 1) < p /\
  trunc_v p 8 3 ((-128) mod p) [1;0;1] 12345 = (-16) mod p /\
  lsb_v p 8 ((-127) mod p) 1 777 = 1 /\
  sgn_v p 8 1 ((-255) mod p) [1;1;0;1;0;0;1;1] 99 (p - 1) 5 = 1 /\
  sgn_v p 8 2 (0 mod p) [1;1;0;1;0;0;1;1] 99 (p - 1) 5 = 1 /\
  sgn_v p 8 0 ((-128) mod p) [0;1;0;1;0;1;1;1] 7 1 5 = (-1) mod p /\
  mod_v p 8 100 ((-128) mod p) [1;0;0;1;0;1;0] 3 1 9 = 72 /\
  floordiv_v p 8 100 ((-128) mod p) [1;0;0;1;0;1;0] 3 1 9 = (-2) mod p /\
  prod_v p [3; 5; 7; 11; 13; 2; 2] = 60060 /\
  pow_v p ((-3) mod p) 5 = (-243) mod p /\
  gcd_v 8 (-128) 96 = 32 /\ gcdext_v 8 127 5 = (1, 3, -76) /\ inverse_v 8 5 127 = 51.
Proof. vm_compute. repeat split; reflexivity. Qed.
