(** C27 — elliptic-curve coordinate formulas of mpyc/fingroups.py (lines 652-1037), transcribed
    over an abstract field ([Ops] for execution, [FieldT] for the theorems).

    Integer constants multiply field elements in the code ([2*cls.d], [3*x**2], [8*c]); they are
    the field elements 1+1, ... here.  [x**2] is [x*x].  [1/z] is [fdiv 1 z].  The Weierstrass
    affine identity [()] is [None].  Field equality tests ([==]) go through [eqb]. *)
Require Import MPyC.Field MPyC.Zp MPyC.Group.
From Coq Require Import Bool Lia Znumtheory NsatzTactic.

Section Defs.
Variable K : Ops.
Variable eqb : K -> K -> bool.
Notation "0" := (f0 K). Notation "1" := (f1 K).
Infix "+" := (fadd K). Infix "*" := (fmul K). Infix "-" := (fsub K). Infix "/" := (fdiv K).
Notation "- x" := (fopp K x).

Definition c2 : K := 1 + 1.
Definition c3 : K := c2 + 1.
Definition c8 : K := c2 * (c2 * c2).

Definition pt2 : Type := (K * K)%type.
Definition pt3 : Type := (K * K * K)%type.
Definition pt4 : Type := (K * K * K * K)%type.

(** ---------------- Edwards curves  a x^2 + y^2 = 1 + d x^2 y^2 ---------------- *)
Definition ed_on (a d : K) (P : pt2) : bool :=
  let '(x, y) := P in eqb (a * (x * x) + y * y) (1 + d * (x * x) * (y * y)).

(** EdwardsAffine *)
Definition eda_id : pt2 := (0, 1).
Definition eda_inv (P : pt2) : pt2 := let '(x, y) := P in (- x, y).
Definition eda_add (a d : K) (P1 P2 : pt2) : pt2 :=
  let '(x1, y1) := P1 in let '(x2, y2) := P2 in
  let C := x1 * x2 in
  let D := y1 * y2 in
  let E := d * C * D in
  let x3 := (1 - E) * ((x1 + y1) * (x2 + y2) - C - D) in
  let y3 := (1 + E) * (D - a * C) in
  let z3_inv := 1 / (1 - E * E) in
  (x3 * z3_inv, y3 * z3_inv).
Definition eda_eq (P1 P2 : pt2) : bool :=
  let '(x1, y1) := P1 in let '(x2, y2) := P2 in eqb x1 x2 && eqb y1 y2.

(** EdwardsProjective *)
Definition edp_id : pt3 := (0, 1, 1).
Definition edp_inv (P : pt3) : pt3 := let '(x, y, z) := P in (- x, y, z).
Definition edp_add (a d : K) (P1 P2 : pt3) : pt3 :=
  let '(x1, y1, z1) := P1 in let '(x2, y2, z2) := P2 in
  let A := z1 * z2 in
  let B := A * A in
  let C := x1 * x2 in
  let D := y1 * y2 in
  let E := d * C * D in
  let F := B - E in
  let G := B + E in
  let x3 := A * F * ((x1 + y1) * (x2 + y2) - C - D) in
  let y3 := A * G * (D - a * C) in
  let z3 := F * G in
  (x3, y3, z3).
Definition edp_norm (P : pt3) : pt3 :=
  let '(x, y, z) := P in let z_inv := 1 / z in (x * z_inv, y * z_inv, 1).
Definition edp_eq (P1 P2 : pt3) : bool :=
  let '(x1, y1, z1) := P1 in let '(x2, y2, z2) := P2 in
  eqb (x1 * z2) (x2 * z1) && eqb (y1 * z2) (y2 * z1).

(** EdwardsExtended (formulas for a = -1) *)
Definition ede_id : pt4 := (0, 1, 1, 0).
Definition ede_inv (P : pt4) : pt4 := let '(x, y, z, t) := P in (- x, y, z, - t).
Definition ede_add (d : K) (P1 P2 : pt4) : pt4 :=
  let '(x1, y1, z1, t1) := P1 in let '(x2, y2, z2, t2) := P2 in
  let r1 := y1 - x1 in let r2 := y2 - x2 in let r3 := y1 + x1 in let r4 := y2 + x2 in
  let s1 := r1 * r2 in let s2 := r3 * r4 in let s3 := c2 * d * t1 * t2 in let s4 := c2 * z1 * z2 in
  let u1 := s2 - s1 in let u2 := s4 - s3 in let u3 := s4 + s3 in let u4 := s2 + s1 in
  (u1 * u2, u3 * u4, u2 * u3, u1 * u4).
Definition ede_dbl (d : K) (P : pt4) : pt4 :=
  let '(x, y, z, t) := P in
  let s1 := (y - x) * (y - x) in let s2 := (y + x) * (y + x) in
  let s3 := c2 * d * (t * t) in let s4 := c2 * (z * z) in
  let u1 := s2 - s1 in let u2 := s4 - s3 in let u3 := s4 + s3 in let u4 := s2 + s1 in
  (u1 * u2, u3 * u4, u2 * u3, u1 * u4).
Definition ede_norm (P : pt4) : pt4 :=
  let '(x, y, z, _) := P in
  let z_inv := 1 / z in let x' := x * z_inv in let y' := y * z_inv in (x', y', 1, x' * y').
Definition ede_eq (P1 P2 : pt4) : bool :=
  let '(x1, y1, z1, _) := P1 in let '(x2, y2, z2, _) := P2 in
  eqb (x1 * z2) (x2 * z1) && eqb (y1 * z2) (y2 * z1).

(** ---------------- short Weierstrass curves  y^2 = x^3 + a x + b ---------------- *)
Definition w_on (a b : K) (P : pt2) : bool :=
  let '(x, y) := P in eqb (y * y) (x * x * x + a * x + b).

(** WeierstrassAffine: identity is the empty tuple = None *)
Definition wa_eq (P Q : option pt2) : bool :=
  match P, Q with
  | None, None => true
  | Some (x1, y1), Some (x2, y2) => eqb x1 x2 && eqb y1 y2
  | _, _ => false
  end.
Definition wa_inv (P : option pt2) : option pt2 :=
  match P with None => None | Some (x, y) => Some (x, - y) end.
Definition wa_dbl (a : K) (P : option pt2) : option pt2 :=
  match P with
  | None => None
  | Some (x, y) =>
      if eqb y 0 then None
      else
        let r := (c3 * (x * x) + a) / (c2 * y) in
        let x2 := r * r - c2 * x in
        let y2 := r * (x - x2) - y in
        Some (x2, y2)
  end.
Definition wa_add (a : K) (P Q : option pt2) : option pt2 :=
  match P, Q with
  | None, _ => Q
  | _, None => P
  | Some (x1, y1), Some (x2, y2) =>
      if wa_eq P Q then wa_dbl a P
      else if eqb x1 x2 then None
      else
        let r := (y1 - y2) / (x1 - x2) in
        let x3 := r * r - x1 - x2 in
        let y3 := r * (x1 - x3) - y1 in
        Some (x3, y3)
  end.

(** WeierstrassProjective (Renes-Costello-Batina, a = 0) *)
Definition wp_id : pt3 := (0, 1, 0).
Definition wp_inv (P : pt3) : pt3 := let '(x, y, z) := P in (x, - y, z).
Definition wp_add (b : K) (P1 P2 : pt3) : pt3 :=
  let '(x1, y1, z1) := P1 in let '(x2, y2, z2) := P2 in
  let b3 := c3 * b in
  let t0 := x1 * x2 in let t1 := y1 * y2 in let t2 := z1 * z2 in
  let t3 := (x1 + y1) * (x2 + y2) - t0 - t1 in
  let t4 := (y1 + z1) * (y2 + z2) - t1 - t2 in
  let y3 := b3 * ((x1 + z1) * (x2 + z2) - t0 - t2) in
  let t0 := t0 * c3 in
  let t2 := t2 * b3 in
  let z3 := t1 + t2 in
  let t1 := t1 - t2 in
  let x3 := t3 * t1 - t4 * y3 in
  let y3 := t0 * y3 + t1 * z3 in
  let z3 := t4 * z3 + t0 * t3 in
  (x3, y3, z3).
Definition wp_dbl (b : K) (P : pt3) : pt3 :=
  let '(x, y, z) := P in
  let t0 := y * y in
  let z2 := c8 * t0 in
  let t2 := c3 * b * (z * z) in
  let x2 := t2 * z2 in
  let y2 := t0 + t2 in
  let z2 := z2 * (y * z) in
  let t0 := t0 - c3 * t2 in
  let y2 := t0 * y2 + x2 in
  let x2 := c2 * t0 * x * y in
  (x2, y2, z2).
Definition wp_norm (P : pt3) : pt3 :=
  let '(x, y, z) := P in
  if eqb z 0 then wp_id else let z_inv := 1 / z in (x * z_inv, y * z_inv, 1).
Definition wp_eq (P1 P2 : pt3) : bool :=
  let '(x1, y1, z1) := P1 in let '(x2, y2, z2) := P2 in
  if eqb z1 0 && eqb z2 0 then true
  else eqb (x1 * z2) (x2 * z1) && eqb (y1 * z2) (y2 * z1).

(** WeierstrassJacobian (a = 0) *)
Definition wj_inv (P : pt3) : pt3 := let '(x, y, z) := P in (x, - y, z).
Definition wj_dbl (P : pt3) : pt3 :=
  let '(x1, y1, z1) := P in
  let a := x1 * x1 in
  let b := y1 * y1 in
  let c := b * b in
  let d := c2 * ((x1 + b) * (x1 + b) - a - c) in
  let e := c3 * a in
  let f := e * e in
  let x2 := f - c2 * d in
  let y2 := e * (d - x2) - c8 * c in
  let z2 := c2 * y1 * z1 in
  (x2, y2, z2).
Definition wj_add (P1 P2 : pt3) : pt3 :=
  let '(x1, y1, z1) := P1 in let '(x2, y2, z2) := P2 in
  if eqb z1 0 then P2
  else if eqb z2 0 then P1
  else
    let z1z1 := z1 * z1 in
    let z2z2 := z2 * z2 in
    let u1 := x1 * z2z2 in
    let u2 := x2 * z1z1 in
    let s1 := y1 * z2 * z2z2 in
    let s2 := y2 * z1 * z1z1 in
    let h := u2 - u1 in
    let r := c2 * (s2 - s1) in
    if eqb h 0 && eqb r 0 then wj_dbl P1
    else
      let i := (c2 * h) * (c2 * h) in
      let j := h * i in
      let v := u1 * i in
      let x3 := r * r - j - c2 * v in
      let y3 := r * (v - x3) - c2 * s1 * j in
      let z3 := ((z1 + z2) * (z1 + z2) - z1z1 - z2z2) * h in
      (x3, y3, z3).
Definition wj_norm (P : pt3) : pt3 :=
  let '(x, y, z) := P in
  if eqb z 0 then wp_id
  else
    let z_inv := 1 / z in
    let z_inv2 := z_inv * z_inv in
    (x * z_inv2, y * z_inv * z_inv2, 1).
Definition wj_eq (P1 P2 : pt3) : bool :=
  let '(x1, y1, z1) := P1 in let '(x2, y2, z2) := P2 in
  if eqb z1 0 && eqb z2 0 then true
  else
    let z12 := z1 * z1 in let z22 := z2 * z2 in
    eqb (x1 * z22) (x2 * z12) && eqb (y1 * z2 * z22) (y2 * z1 * z12).

(** maps to the affine representation *)
Definition edp_aff (P : pt3) : pt2 := let '(x, y, z) := P in (x / z, y / z).
Definition ede_aff (P : pt4) : pt2 := let '(x, y, z, _) := P in (x / z, y / z).
Definition wp_aff (P : pt3) : option pt2 :=
  let '(x, y, z) := P in if eqb z 0 then None else Some (x / z, y / z).
Definition wj_aff (P : pt3) : option pt2 :=
  let '(x, y, z) := P in if eqb z 0 then None else Some (x / (z * z), y / (z * z * z)).

End Defs.

Arguments eda_id {K}. Arguments edp_id {K}. Arguments ede_id {K}. Arguments wp_id {K}.
Arguments eda_inv {K} P. Arguments edp_inv {K} P. Arguments ede_inv {K} P.
Arguments wa_inv {K} P. Arguments wp_inv {K} P. Arguments wj_inv {K} P.
Arguments eda_add {K} a d P1 P2. Arguments edp_add {K} a d P1 P2.
Arguments ede_add {K} d P1 P2. Arguments ede_dbl {K} d P.
Arguments edp_norm {K} P. Arguments ede_norm {K} P.
Arguments eda_eq {K} eqb P1 P2. Arguments edp_eq {K} eqb P1 P2. Arguments ede_eq {K} eqb P1 P2.
Arguments ed_on {K} eqb a d P. Arguments w_on {K} eqb a b P.
Arguments wa_eq {K} eqb P Q. Arguments wa_dbl {K} eqb a P. Arguments wa_add {K} eqb a P Q.
Arguments wp_add {K} b P1 P2. Arguments wp_dbl {K} b P. Arguments wp_norm {K} eqb P.
Arguments wp_eq {K} eqb P1 P2.
Arguments wj_dbl {K} P. Arguments wj_add {K} eqb P1 P2. Arguments wj_norm {K} eqb P.
Arguments wj_eq {K} eqb P1 P2.
Arguments edp_aff {K} P. Arguments ede_aff {K} P. Arguments wp_aff {K} eqb P. Arguments wj_aff {K} eqb P.

(** ---------------- executable instances over the integers modulo p ----------------
    (used by the correspondence run and by the toy-curve theorems; no proofs about p needed) *)
Section ZpExec.
Local Open Scope Z_scope.
Variable p : Z.
Let F := ZpOps p.
Definition zeqb (a b : F) : bool := zval a =? zval b.
Definition zk (z : Z) : F := mkZp p z.
Definition in2 (P : Z * Z) : pt2 F := (zk (fst P), zk (snd P)).
Definition out2 (P : pt2 F) : Z * Z := (zval (fst P), zval (snd P)).
Definition in3 (P : Z * Z * Z) : pt3 F := let '(x, y, z) := P in (zk x, zk y, zk z).
Definition out3 (P : pt3 F) : Z * Z * Z := let '(x, y, z) := P in (zval x, zval y, zval z).
Definition in4 (P : Z * Z * Z * Z) : pt4 F := let '(x, y, z, t) := P in (zk x, zk y, zk z, zk t).
Definition out4 (P : pt4 F) : Z * Z * Z * Z := let '(x, y, z, t) := P in (zval x, zval y, zval z, zval t).
Definition ino (P : option (Z * Z)) : option (pt2 F) := option_map in2 P.
Definition outo (P : option (pt2 F)) : option (Z * Z) := option_map out2 P.

Definition rep {G} (op : G -> G -> G) (op2 inv : G -> G) (e a : G) (n : Z) : G := repeat_loop op op2 inv e a n.

(** EdwardsAffine: operation, default operation2, inversion, equality, repeat *)
Definition z_eda_add a d P Q := out2 (eda_add (zk a) (zk d) (in2 P) (in2 Q)).
Definition z_eda_inv P := out2 (eda_inv (in2 P)).
Definition z_eda_eq P Q := eda_eq zeqb (in2 P) (in2 Q).
Definition z_eda_rep a d P n :=
  let ad := eda_add (zk a) (zk d) in out2 (rep ad (fun c => ad c c) eda_inv eda_id (in2 P) n).
(** EdwardsProjective *)
Definition z_edp_add a d P Q := out3 (edp_add (zk a) (zk d) (in3 P) (in3 Q)).
Definition z_edp_inv P := out3 (edp_inv (in3 P)).
Definition z_edp_eq P Q := edp_eq zeqb (in3 P) (in3 Q).
Definition z_edp_norm P := out3 (edp_norm (in3 P)).
Definition z_edp_rep a d P n :=
  let ad := edp_add (zk a) (zk d) in out3 (rep ad (fun c => ad c c) edp_inv edp_id (in3 P) n).
(** EdwardsExtended *)
Definition z_ede_add d P Q := out4 (ede_add (zk d) (in4 P) (in4 Q)).
Definition z_ede_dbl d P := out4 (ede_dbl (zk d) (in4 P)).
Definition z_ede_inv P := out4 (ede_inv (in4 P)).
Definition z_ede_eq P Q := ede_eq zeqb (in4 P) (in4 Q).
Definition z_ede_norm P := out4 (ede_norm (in4 P)).
Definition z_ede_rep d P n :=
  out4 (rep (ede_add (zk d)) (ede_dbl (zk d)) ede_inv ede_id (in4 P) n).
(** WeierstrassAffine *)
Definition z_wa_add a P Q := outo (wa_add zeqb (zk a) (ino P) (ino Q)).
Definition z_wa_dbl a P := outo (wa_dbl zeqb (zk a) (ino P)).
Definition z_wa_inv P := outo (wa_inv (ino P)).
Definition z_wa_eq P Q := wa_eq zeqb (ino P) (ino Q).
Definition z_wa_rep a P n :=
  outo (rep (wa_add zeqb (zk a)) (wa_dbl zeqb (zk a)) wa_inv None (ino P) n).
(** WeierstrassProjective *)
Definition z_wp_add b P Q := out3 (wp_add (zk b) (in3 P) (in3 Q)).
Definition z_wp_dbl b P := out3 (wp_dbl (zk b) (in3 P)).
Definition z_wp_inv P := out3 (wp_inv (in3 P)).
Definition z_wp_eq P Q := wp_eq zeqb (in3 P) (in3 Q).
Definition z_wp_norm P := out3 (wp_norm zeqb (in3 P)).
Definition z_wp_rep b P n :=
  out3 (rep (wp_add (zk b)) (wp_dbl (zk b)) wp_inv wp_id (in3 P) n).
(** WeierstrassJacobian *)
Definition z_wj_add P Q := out3 (wj_add zeqb (in3 P) (in3 Q)).
Definition z_wj_dbl P := out3 (wj_dbl (in3 P)).
Definition z_wj_inv P := out3 (wj_inv (in3 P)).
Definition z_wj_eq P Q := wj_eq zeqb (in3 P) (in3 Q).
Definition z_wj_norm P := out3 (wj_norm zeqb (in3 P)).
Definition z_wj_rep P n :=
  out3 (rep (wj_add zeqb) wj_dbl wj_inv wp_id (in3 P) n).
End ZpExec.

(** ------------------------------------------------------------------------------------------
    Theorems over an abstract field (polynomial identities by [field] / [nsatz]; nonvanishing
    side conditions are hypotheses).  [feqb] is the decidable equality of the field. *)
Ltac nsz_unf := cbv [equality eq_notation addition add_notation multiplication mul_notation subtraction sub_notation opposite opp_notation zero zero_notation one one_notation Morphisms.Proper Morphisms.respectful] in *.
Section Thms.
Variable K : FieldT.
Add Field KF2 : (fth K).
Notation "0" := (f0 K). Notation "1" := (f1 K).
Infix "+" := (fadd K). Infix "*" := (fmul K). Infix "-" := (fsub K). Infix "/" := (fdiv K).
Notation "- x" := (fopp K x).

Definition feqb (a b : K) : bool := if feq_dec K a b then true else false.
Lemma feqb_spec a b : feqb a b = true <-> a = b.
Proof. unfold feqb. destruct (feq_dec K a b); split; auto; discriminate. Qed.
Lemma feqb_false a b : feqb a b = false <-> a <> b.
Proof. unfold feqb. destruct (feq_dec K a b); split; auto; try discriminate. intros H; contradiction. Qed.

(* nsatz instances *)
Global Instance K_ops : @Ring_ops K 0 1 (fadd K) (fmul K) (fsub K) (fopp K) (@eq K) := {}.
Global Instance K_ring : Ring (Ro:=K_ops).
Proof.
  constructor; try apply eq_equivalence; nsz_unf; intros; subst; try reflexivity; ring.
Defined.
Global Instance K_cring : Cring (Rr:=K_ring).
Proof. intros a b. nsz_unf. ring. Defined.
Global Instance K_idom : Integral_domain (Rcr:=K_cring).
Proof.
  constructor.
  - intros a b H. nsz_unf. destruct (feq_dec K a 0) as [E|E]; [left; exact E|right].
    eapply fmul_eq0; eauto.
  - nsz_unf. apply f1_neq_f0.
Defined.


Lemma pair_eq {A B} (a a' : A) (b b' : B) : a = a' -> b = b' -> (a, b) = (a', b').
Proof. intros; subst; reflexivity. Qed.
Ltac peq := repeat apply pair_eq.
Ltac neq0 := repeat split; try assumption; repeat (apply fmul_neq0; try assumption).

(* ---------- Edwards ---------- *)
Theorem eda_add_comm (a d : K) (P Q : pt2 K) : eda_add a d P Q = eda_add a d Q P.
Proof.
  destruct P as [x1 y1], Q as [x2 y2]. cbv [eda_add].
  replace (d * (x2 * x1) * (y2 * y1)) with (d * (x1 * x2) * (y1 * y2)) by ring.
  f_equal; ring.
Qed.

Theorem eda_add_id_r (a d : K) (P : pt2 K) : eda_add a d P eda_id = P.
Proof.
  destruct P as [x y]. cbv [eda_add eda_id].
  replace (d * (x * 0) * (y * 1)) with 0 by ring.
  f_equal; field; exact (f1_neq_f0 K).
Qed.

Theorem eda_add_inv_r (a d x y : K) :
  a * (x * x) + y * y = 1 + d * (x * x) * (y * y) ->
  (let E := d * (x * - x) * (y * y) in 1 - E * E <> 0) ->
  eda_add a d (x, y) (eda_inv (x, y)) = eda_id.
Proof.
  intros Hc HE. cbv [eda_add eda_inv eda_id] in *. cbv zeta in HE.
  f_equal; (field_simplify_eq; [|exact HE]); nsatz.
Qed.

Theorem eda_add_closed (a d x1 y1 x2 y2 : K) :
  a * (x1 * x1) + y1 * y1 = 1 + d * (x1 * x1) * (y1 * y1) ->
  a * (x2 * x2) + y2 * y2 = 1 + d * (x2 * x2) * (y2 * y2) ->
  (let E := d * (x1 * x2) * (y1 * y2) in 1 - E * E <> 0) ->
  let '(x3, y3) := eda_add a d (x1, y1) (x2, y2) in
  a * (x3 * x3) + y3 * y3 = 1 + d * (x3 * x3) * (y3 * y3).
Proof.
  intros H1 H2 HE. cbv [eda_add]. cbv zeta in HE.
  field_simplify_eq; [|exact HE]. nsatz.
Qed.

Theorem edp_add_refines (a d x1 y1 z1 x2 y2 z2 : K) :
  z1 <> 0 -> z2 <> 0 ->
  (let E := d * ((x1 / z1) * (x2 / z2)) * ((y1 / z1) * (y2 / z2)) in 1 - E * E <> 0) ->
  let '(x3, y3, z3) := edp_add a d (x1, y1, z1) (x2, y2, z2) in
  z3 <> 0 /\ edp_aff (x3, y3, z3) = eda_add a d (edp_aff (x1, y1, z1)) (edp_aff (x2, y2, z2)).
Proof.
  intros Hz1 Hz2 HE. cbv zeta in HE. cbv [edp_add edp_aff eda_add].
  assert (Hz3 : (z1 * z2 * (z1 * z2) - d * (x1 * x2) * (y1 * y2)) * (z1 * z2 * (z1 * z2) + d * (x1 * x2) * (y1 * y2)) <> 0).
  { intros H. apply HE.
    transitivity (((z1 * z2 * (z1 * z2) - d * (x1 * x2) * (y1 * y2)) * (z1 * z2 * (z1 * z2) + d * (x1 * x2) * (y1 * y2))) / (z1*z1*z1*z1*z2*z2*z2*z2)).
    - field. split; assumption.
    - rewrite H. field. split; assumption. }
  split; [exact Hz3|].
  f_equal; field; repeat split; auto; intro Hq; apply Hz3; nsatz.
Qed.

Theorem ede_dbl_eq_add (d : K) (P : pt4 K) : ede_dbl d P = ede_add d P P.
Proof. destruct P as [[[x y] z] t]. cbv [ede_dbl ede_add]. peq; ring. Qed.

Lemma div_intro (t z w : K) : z <> 0 -> t * z = w -> t = w / z.
Proof. intros Hz H. rewrite <- H. field. exact Hz. Qed.

Theorem ede_add_refines (d x1 y1 z1 t1 x2 y2 z2 t2 : K) :
  c2 K <> 0 -> z1 <> 0 -> z2 <> 0 -> t1 * z1 = x1 * y1 -> t2 * z2 = x2 * y2 ->
  (let E := d * ((x1 / z1) * (x2 / z2)) * ((y1 / z1) * (y2 / z2)) in 1 - E * E <> 0) ->
  let '(x3, y3, z3, t3) := ede_add d (x1, y1, z1, t1) (x2, y2, z2, t2) in
  z3 <> 0 /\ t3 * z3 = x3 * y3 /\
  ede_aff (x3, y3, z3, t3) = eda_add (- (1)) d (ede_aff (x1, y1, z1, t1)) (ede_aff (x2, y2, z2, t2)).
Proof.
  intros H2 Hz1 Hz2 Ht1 Ht2 HE. cbv zeta in HE.
  apply div_intro in Ht1; [|exact Hz1]. apply div_intro in Ht2; [|exact Hz2]. subst t1 t2.
  assert (HP : (z1 * z2 * (z1 * z2) - d * (x1 * x2) * (y1 * y2)) * (z1 * z2 * (z1 * z2) + d * (x1 * x2) * (y1 * y2)) <> 0).
  { intros H. apply HE.
    transitivity (((z1 * z2 * (z1 * z2) - d * (x1 * x2) * (y1 * y2)) * (z1 * z2 * (z1 * z2) + d * (x1 * x2) * (y1 * y2))) / (z1*z1*z1*z1*z2*z2*z2*z2)).
    - field. split; assumption.
    - rewrite H. field. split; assumption. }
  cbv [ede_add ede_aff eda_add c2] in *.
  split; [|split].
  - intros H. apply HP.
    transitivity ((z1 * z2 * (z1 * z2)) / ((1+1)*(1+1)) * ((1 + 1) * z1 * z2 - (1 + 1) * d * (x1 * y1 / z1) * (x2 * y2 / z2)) * ((1 + 1) * z1 * z2 + (1 + 1) * d * (x1 * y1 / z1) * (x2 * y2 / z2))).
    + field. neq0.
    + rewrite <- (Rmul_assoc (F_R (fth K))). rewrite H. ring.
  - ring.
  - f_equal; field; repeat split; auto; intro Hq; apply HP; nsatz.
Qed.

Theorem edp_inv_refines (x y z : K) : z <> 0 -> edp_aff (edp_inv (x, y, z)) = eda_inv (edp_aff (x, y, z)).
Proof. intros Hz. cbv [edp_aff edp_inv eda_inv]. peq; field; exact Hz. Qed.

Theorem ede_inv_refines (x y z t : K) : z <> 0 -> ede_aff (ede_inv (x, y, z, t)) = eda_inv (ede_aff (x, y, z, t)).
Proof. intros Hz. cbv [ede_aff ede_inv eda_inv]. peq; field; exact Hz. Qed.

Theorem edp_norm_spec (x y z : K) : z <> 0 ->
  edp_norm (x, y, z) = (x / z, y / z, 1) /\ edp_aff (edp_norm (x, y, z)) = edp_aff (x, y, z) /\
  edp_norm (edp_norm (x, y, z)) = edp_norm (x, y, z).
Proof.
  intros Hz. cbv [edp_norm edp_aff]. repeat split; peq; field; neq0; exact (f1_neq_f0 K).
Qed.

Theorem ede_norm_spec (x y z t : K) : z <> 0 ->
  ede_norm (x, y, z, t) = (x / z, y / z, 1, (x / z) * (y / z)) /\
  ede_aff (ede_norm (x, y, z, t)) = ede_aff (x, y, z, t) /\
  ede_norm (ede_norm (x, y, z, t)) = ede_norm (x, y, z, t).
Proof.
  intros Hz. cbv [ede_norm ede_aff]. repeat split; peq; field; neq0; exact (f1_neq_f0 K).
Qed.

Lemma feqb_sym (a b : K) : feqb a b = feqb b a.
Proof. unfold feqb. destruct (feq_dec K a b), (feq_dec K b a); congruence. Qed.
Lemma feqb_refl (a : K) : feqb a a = true.
Proof. apply feqb_spec; reflexivity. Qed.

Lemma cross_eq (x1 z1 x2 z2 : K) : z1 <> 0 -> z2 <> 0 -> (x1 * z2 = x2 * z1 <-> x1 / z1 = x2 / z2).
Proof.
  intros H1 H2. split; intros H.
  - transitivity (x1 * z2 / (z1 * z2)); [field; neq0|]. rewrite H. field; neq0.
  - transitivity (x1 / z1 * (z1 * z2)); [field; neq0|]. rewrite H. field; neq0.
Qed.

(** equality on projective / extended Edwards coordinates is equality of the affine points *)
Theorem edp_eq_spec (x1 y1 z1 x2 y2 z2 : K) : z1 <> 0 -> z2 <> 0 ->
  (edp_eq feqb (x1, y1, z1) (x2, y2, z2) = true <-> edp_aff (x1, y1, z1) = edp_aff (x2, y2, z2)).
Proof.
  intros H1 H2. cbv [edp_eq edp_aff]. rewrite andb_true_iff, !feqb_spec, !cross_eq by assumption.
  split; [intros [-> ->]; reflexivity|intros E; inversion E; auto].
Qed.

Theorem ede_eq_spec (x1 y1 z1 t1 x2 y2 z2 t2 : K) : z1 <> 0 -> z2 <> 0 ->
  (ede_eq feqb (x1, y1, z1, t1) (x2, y2, z2, t2) = true <-> ede_aff (x1, y1, z1, t1) = ede_aff (x2, y2, z2, t2)).
Proof.
  intros H1 H2. cbv [ede_eq ede_aff]. rewrite andb_true_iff, !feqb_spec, !cross_eq by assumption.
  split; [intros [-> ->]; reflexivity|intros E; inversion E; auto].
Qed.

(* ---------- Weierstrass affine ---------- *)
Theorem wa_add_comm (a : K) (P Q : option (pt2 K)) : wa_add feqb a P Q = wa_add feqb a Q P.
Proof.
  destruct P as [[x1 y1]|], Q as [[x2 y2]|]; try reflexivity.
  cbv [wa_add wa_eq]. rewrite (feqb_sym x2 x1), (feqb_sym y2 y1).
  destruct (feqb x1 x2) eqn:Ex, (feqb y1 y2) eqn:Ey; cbn [andb].
  - apply feqb_spec in Ex, Ey. subst. reflexivity.
  - reflexivity.
  - apply feqb_false in Ex. f_equal. peq; field; split; apply fsub_neq0; auto.
  - apply feqb_false in Ex. f_equal. peq; field; split; apply fsub_neq0; auto.
Qed.

Theorem wa_add_id (a : K) (P : option (pt2 K)) : wa_add feqb a None P = P /\ wa_add feqb a P None = P.
Proof. destruct P as [[x y]|]; split; reflexivity. Qed.

Theorem wa_add_inv_r (a : K) (P : option (pt2 K)) : c2 K <> 0 -> wa_add feqb a P (wa_inv P) = None.
Proof.
  intros H2. destruct P as [[x y]|]; [|reflexivity].
  cbv [wa_add wa_inv wa_eq wa_dbl]. rewrite feqb_refl. cbn [andb].
  destruct (feqb y (- y)) eqn:E; [|reflexivity].
  apply feqb_spec in E.
  assert (Hy : y = 0).
  { apply (fmul_eq0 K (c2 K) y); [|exact H2]. cbv [c2]. transitivity (y + y); [ring|]. rewrite E at 2. ring. }
  rewrite (proj2 (feqb_spec y 0) Hy). reflexivity.
Qed.

Theorem wa_add_closed_generic (a b x1 y1 x2 y2 : K) :
  y1 * y1 = x1 * x1 * x1 + a * x1 + b -> y2 * y2 = x2 * x2 * x2 + a * x2 + b -> x1 <> x2 ->
  exists x3 y3, wa_add feqb a (Some (x1, y1)) (Some (x2, y2)) = Some (x3, y3) /\
                y3 * y3 = x3 * x3 * x3 + a * x3 + b.
Proof.
  intros H1 H2 Hx. cbv [wa_add wa_eq].
  rewrite (proj2 (feqb_false x1 x2) Hx). cbn [andb].
  eexists; eexists; split; [reflexivity|].
  assert (Hd : x1 - x2 <> 0) by (apply fsub_neq0; auto).
  field_simplify_eq; [|exact Hd]. nsatz.
Qed.

Theorem wa_dbl_closed (a b x y : K) :
  c2 K <> 0 -> y * y = x * x * x + a * x + b -> y <> 0 ->
  exists x3 y3, wa_dbl feqb a (Some (x, y)) = Some (x3, y3) /\ y3 * y3 = x3 * x3 * x3 + a * x3 + b.
Proof.
  intros H2 H1 Hy. cbv [wa_dbl]. rewrite (proj2 (feqb_false y 0) Hy).
  eexists; eexists; split; [reflexivity|].
  cbv [c2 c3] in *.
  field_simplify_eq; [|neq0]. nsatz.
Qed.

(** the same-point branch of operation is operation2, the opposite-point branch is the identity *)
Theorem wa_add_same (a : K) (P : pt2 K) : wa_add feqb a (Some P) (Some P) = wa_dbl feqb a (Some P).
Proof. destruct P as [x y]. cbv [wa_add wa_eq]. rewrite !feqb_refl. reflexivity. Qed.

(* ---------- Weierstrass Jacobian ---------- *)
Lemma feqb_f (a b : K) : a <> b -> feqb a b = false.
Proof. apply feqb_false. Qed.

Lemma jac_h_neq0 (x1 z1 x2 z2 : K) : z1 <> 0 -> z2 <> 0 ->
  x1 / (z1 * z1) <> x2 / (z2 * z2) -> x2 * (z1 * z1) - x1 * (z2 * z2) <> 0.
Proof.
  intros H1 H2 Hx H. apply Hx. apply fsub_eq0 in H.
  transitivity (x1 * (z2 * z2) / (z1 * z1 * (z2 * z2))); [field; neq0|]. rewrite <- H. field; neq0.
Qed.

Theorem wj_add_refines_generic (a x1 y1 z1 x2 y2 z2 : K) :
  c2 K <> 0 -> z1 <> 0 -> z2 <> 0 -> x1 / (z1 * z1) <> x2 / (z2 * z2) ->
  wj_aff feqb (wj_add feqb (x1, y1, z1) (x2, y2, z2))
  = wa_add feqb a (wj_aff feqb (x1, y1, z1)) (wj_aff feqb (x2, y2, z2)).
Proof.
  intros H2 Hz1 Hz2 Hx. pose proof (jac_h_neq0 _ _ _ _ Hz1 Hz2 Hx) as Hh.
  cbv [wj_add wj_aff wa_add wa_eq].
  rewrite (feqb_f z1 0 Hz1), (feqb_f z2 0 Hz2), (feqb_f _ 0 Hh), (feqb_f _ _ Hx). cbn [andb].
  assert (Hzz : (z1 + z2) * (z1 + z2) - z1 * z1 - z2 * z2 <> 0).
  { replace ((z1 + z2) * (z1 + z2) - z1 * z1 - z2 * z2) with (c2 K * (z1 * z2)) by (cbv [c2]; ring). neq0. }
  assert (Hz3 : ((z1 + z2) * (z1 + z2) - z1 * z1 - z2 * z2) * (x2 * (z1 * z1) - x1 * (z2 * z2)) <> 0).
  { apply fmul_neq0; assumption. }
  rewrite (feqb_f _ 0 Hz3).
  assert (Hh' : x1 * (z2 * z2) - x2 * (z1 * z1) <> 0).
  { intros H. apply Hh. apply fsub_eq0 in H. rewrite H. ring. }
  cbv [c2] in *.
  f_equal. peq; field; neq0.
Qed.

Theorem wj_dbl_refines (x y z : K) :
  c2 K <> 0 -> z <> 0 -> y <> 0 ->
  wj_aff feqb (wj_dbl (x, y, z)) = wa_dbl feqb 0 (wj_aff feqb (x, y, z)).
Proof.
  intros H2 Hz Hy. cbv [wj_dbl wj_aff wa_dbl].
  assert (Hz2 : c2 K * y * z <> 0) by neq0.
  assert (Hy' : y / (z * z * z) <> 0).
  { intros H. apply Hy. transitivity (y / (z * z * z) * (z * z * z)); [field; neq0|]. rewrite H. ring. }
  rewrite (feqb_f z 0 Hz), (feqb_f _ 0 Hz2), (feqb_f _ 0 Hy').
  cbv [c2 c3 c8] in *.
  f_equal. peq; field; neq0.
Qed.

(** the h = 0 and r = 0 branch: same affine point => operation2(pt1) *)
Theorem wj_add_same (x1 y1 z1 x2 y2 z2 : K) :
  z1 <> 0 -> z2 <> 0 ->
  x1 / (z1 * z1) = x2 / (z2 * z2) -> y1 / (z1 * z1 * z1) = y2 / (z2 * z2 * z2) ->
  wj_add feqb (x1, y1, z1) (x2, y2, z2) = wj_dbl (x1, y1, z1).
Proof.
  intros Hz1 Hz2 Hx Hy. cbv [wj_add].
  rewrite (feqb_f z1 0 Hz1), (feqb_f z2 0 Hz2).
  assert (Hh : x2 * (z1 * z1) - x1 * (z2 * z2) = 0).
  { transitivity ((x2 / (z2 * z2) - x1 / (z1 * z1)) * (z1 * z1 * (z2 * z2))); [field; neq0|]. rewrite Hx. ring. }
  assert (Hr : c2 K * (y2 * z1 * (z1 * z1) - y1 * z2 * (z2 * z2)) = 0).
  { transitivity (c2 K * ((y2 / (z2 * z2 * z2) - y1 / (z1 * z1 * z1)) * (z1 * z1 * z1 * (z2 * z2 * z2)))); [field; neq0|].
    rewrite Hy. ring. }
  rewrite (proj2 (feqb_spec _ 0) Hh), (proj2 (feqb_spec _ 0) Hr). reflexivity.
Qed.

(** the h = 0 and r <> 0 case: opposite points => z3 = 0 (an identity representation) *)
Theorem wj_add_opposite (x1 y1 z1 x2 y2 z2 : K) :
  c2 K <> 0 -> z1 <> 0 -> z2 <> 0 ->
  x1 / (z1 * z1) = x2 / (z2 * z2) -> y1 / (z1 * z1 * z1) <> y2 / (z2 * z2 * z2) ->
  wj_aff feqb (wj_add feqb (x1, y1, z1) (x2, y2, z2)) = None.
Proof.
  intros H2 Hz1 Hz2 Hx Hy. cbv [wj_add].
  rewrite (feqb_f z1 0 Hz1), (feqb_f z2 0 Hz2).
  assert (Hh : x2 * (z1 * z1) - x1 * (z2 * z2) = 0).
  { transitivity ((x2 / (z2 * z2) - x1 / (z1 * z1)) * (z1 * z1 * (z2 * z2))); [field; neq0|]. rewrite Hx. ring. }
  assert (Hr : c2 K * (y2 * z1 * (z1 * z1) - y1 * z2 * (z2 * z2)) <> 0).
  { apply fmul_neq0; [exact H2|]. intros H. apply Hy. apply fsub_eq0 in H.
    transitivity (y1 * z2 * (z2 * z2) / (z1 * z1 * z1 * (z2 * z2 * z2))); [field; neq0|]. rewrite <- H. field; neq0. }
  rewrite (feqb_f _ 0 Hr), andb_false_r. cbv [wj_aff]. rewrite Hh.
  replace (((z1 + z2) * (z1 + z2) - z1 * z1 - z2 * z2) * 0) with 0 by ring.
  rewrite feqb_refl. reflexivity.
Qed.

(* ---------- Weierstrass projective (complete formulas, a = 0) ---------- *)
Theorem wp_dbl_refines (b x y z : K) :
  c2 K <> 0 -> z <> 0 -> y <> 0 -> y * y * z = x * x * x + b * (z * z * z) ->
  wp_aff feqb (wp_dbl b (x, y, z)) = wa_dbl feqb 0 (wp_aff feqb (x, y, z)).
Proof.
  intros H2 Hz Hy Hc. cbv [wp_dbl wp_aff wa_dbl].
  assert (Hz2 : c8 K * (y * y) * (y * z) <> 0) by (cbv [c8]; neq0).
  assert (Hy' : y / z <> 0).
  { intros H. apply Hy. transitivity (y / z * z); [field; neq0|]. rewrite H. ring. }
  rewrite (feqb_f z 0 Hz), (feqb_f _ 0 Hz2), (feqb_f _ 0 Hy').
  cbv [c2 c3 c8] in *.
  f_equal. peq; (field_simplify_eq; [|neq0]); nsatz.
Qed.
End Thms.

(** ------------------------------------------------------------------------------------------
    Toy curves over Z_p: the full group laws (closure, associativity, identity, inverse,
    commutativity) and the agreement of the coordinate systems, by exhaustive computation over
    ALL points (and all projective scalings).  Bounds are in the statements ([In _ toy_...]);
    [ed_points_complete] / [w_points_complete] show the enumerations are all the curve points. *)
Section Toy.
Local Open Scope Z_scope.

Definition all_zp (p : Z) : list (ZpOps p) := map (fun k => mkZp p (Z.of_nat k)) (seq 0 (Z.to_nat p)).
Definition nonzero_zp (p : Z) : list (ZpOps p) := map (fun k => mkZp p (Z.of_nat k)) (seq 1 (Z.to_nat p - 1)).

Lemma all_zp_complete p (x : Zp p) : 0 < p -> In x (all_zp p).
Proof.
  intros Hp. unfold all_zp. apply in_map_iff. exists (Z.to_nat (zval x)).
  pose proof (zval_red p x) as Hr. pose proof (Z.mod_pos_bound (zval x) p Hp) as Hb. rewrite Hr in Hb.
  split.
  - apply Zp_eq. rewrite zval_mkZp, Z2Nat.id by lia. exact Hr.
  - apply in_seq. lia.
Qed.

Lemma zeqb_spec p (a b : Zp p) : zeqb p a b = true <-> a = b.
Proof. unfold zeqb. rewrite Z.eqb_eq. split; [apply Zp_eq|intros ->; reflexivity]. Qed.

Definition pt2_eqb p (P Q : pt2 (ZpOps p)) : bool := zeqb p (fst P) (fst Q) && zeqb p (snd P) (snd Q).
Lemma pt2_eqb_spec p P Q : pt2_eqb p P Q = true <-> P = Q.
Proof.
  destruct P as [x1 y1], Q as [x2 y2]. unfold pt2_eqb. cbn [fst snd].
  rewrite andb_true_iff, !zeqb_spec. split; [intros [-> ->]; reflexivity|intros E; inversion E; auto].
Qed.
Definition opt_eqb p (P Q : option (pt2 (ZpOps p))) : bool :=
  match P, Q with None, None => true | Some P, Some Q => pt2_eqb p P Q | _, _ => false end.
Lemma opt_eqb_spec p P Q : opt_eqb p P Q = true <-> P = Q.
Proof.
  destruct P as [P|], Q as [Q|]; cbn [opt_eqb]; try (split; discriminate); [|split; reflexivity].
  rewrite pt2_eqb_spec. split; [intros ->; reflexivity|intros E; inversion E; auto].
Qed.

Definition pairs p : list (pt2 (ZpOps p)) := list_prod (all_zp p) (all_zp p).
Definition ed_points p (a d : Z) : list (pt2 (ZpOps p)) := filter (ed_on (zeqb p) (zk p a) (zk p d)) (pairs p).
Definition w_points p (a b : Z) : list (option (pt2 (ZpOps p))) :=
  None :: map Some (filter (w_on (zeqb p) (zk p a) (zk p b)) (pairs p)).

Lemma ed_points_complete p a d P : 0 < p ->
  (In P (ed_points p a d) <-> ed_on (zeqb p) (zk p a) (zk p d) P = true).
Proof.
  intros Hp. unfold ed_points. rewrite filter_In. split; [intros [_ H]; exact H|intros H; split; [|exact H]].
  destruct P as [x y]. apply in_prod; apply all_zp_complete; exact Hp.
Qed.

Lemma w_points_complete p a b P : 0 < p ->
  (In P (w_points p a b) <-> match P with None => True | Some Q => w_on (zeqb p) (zk p a) (zk p b) Q = true end).
Proof.
  intros Hp. unfold w_points. cbn [In]. destruct P as [[x y]|].
  - rewrite in_map_iff. split.
    + intros [H|[Q [E H]]]; [discriminate|]. inversion E; subst. apply filter_In in H. apply H.
    + intros H. right. exists (x, y). split; [reflexivity|]. apply filter_In. split; [|exact H].
      apply in_prod; apply all_zp_complete; exact Hp.
  - split; auto.
Qed.

(** all triples: closure, commutativity, associativity, identity, inverse *)
Definition ed_toy_check (c : Z * Z * Z) : bool :=
  let '(p, a, d) := c in
  let pts := ed_points p a d in
  let add := eda_add (zk p a) (zk p d) in
  forallb (fun P =>
    pt2_eqb p (add P eda_id) P && pt2_eqb p (add eda_id P) P &&
    pt2_eqb p (add P (eda_inv P)) eda_id && ed_on (zeqb p) (zk p a) (zk p d) (eda_inv P) &&
    forallb (fun Q =>
      ed_on (zeqb p) (zk p a) (zk p d) (add P Q) && pt2_eqb p (add P Q) (add Q P) &&
      forallb (fun R => pt2_eqb p (add (add P Q) R) (add P (add Q R))) pts) pts) pts.

Definition w_toy_check (c : Z * Z * Z) : bool :=
  let '(p, a, b) := c in
  let pts := w_points p a b in
  let add := wa_add (zeqb p) (zk p a) in
  let on := fun P => match P with None => true | Some Q => w_on (zeqb p) (zk p a) (zk p b) Q end in
  forallb (fun P =>
    opt_eqb p (add P None) P && opt_eqb p (add None P) P &&
    opt_eqb p (add P (wa_inv P)) None && on (wa_inv P) &&
    opt_eqb p (add P P) (wa_dbl (zeqb p) (zk p a) P) &&
    forallb (fun Q =>
      on (add P Q) && opt_eqb p (add P Q) (add Q P) &&
      forallb (fun R => opt_eqb p (add (add P Q) R) (add P (add Q R))) pts) pts) pts.

Definition toy_ed : list (Z * Z * Z) := [(13, 1, 2); (13, 12, 2); (17, 16, 3); (11, 1, 2)].
Definition toy_edp : list (Z * Z * Z) := [(13, 1, 2); (13, 12, 2); (11, 1, 2)].
Definition toy_ed_ext : list (Z * Z * Z) := [(13, 12, 2)].                       (* a = -1 *)
Definition toy_w : list (Z * Z * Z) := [(7, 0, 3); (13, 0, 7); (13, 0, 2); (13, 0, 4); (13, 2, 4); (13, 1, 1); (13, 0, 1)].
Definition toy_w0 : list (Z * Z * Z) := [(7, 0, 3); (13, 0, 7); (13, 0, 2)]. (* a = 0, odd order *)
Definition toy_wj : list (Z * Z * Z) := [(7, 0, 3); (13, 0, 7); (13, 0, 1)].           (* a = 0 *)

(** coordinate systems: every scaling of every pair of points *)
Definition edp_toy_check (c : Z * Z * Z) : bool :=
  let '(p, a, d) := c in
  let pts := ed_points p a d in
  let A := zk p a in let D := zk p d in
  let F := ZpOps p in
  let lift := fun (P : pt2 F) (z : F) => (fmul F (fst P) z, fmul F (snd P) z, z) in
  forallb (fun P => forallb (fun z1 =>
    pt2_eqb p (edp_aff (edp_inv (lift P z1))) (eda_inv P) &&
    pt2_eqb p (edp_aff (edp_norm (lift P z1))) P &&
    forallb (fun Q => forallb (fun z2 =>
      pt2_eqb p (edp_aff (edp_add A D (lift P z1) (lift Q z2))) (eda_add A D P Q) &&
      Bool.eqb (edp_eq (zeqb p) (lift P z1) (lift Q z2)) (pt2_eqb p P Q)) (nonzero_zp p)) pts) (nonzero_zp p)) pts.

Definition ede_toy_check (c : Z * Z * Z) : bool :=
  let '(p, a, d) := c in
  let pts := ed_points p a d in
  let A := zk p a in let D := zk p d in
  let F := ZpOps p in
  let lift := fun (P : pt2 F) (z : F) => (fmul F (fst P) z, fmul F (snd P) z, z, fmul F (fmul F (fst P) (snd P)) z) in
  forallb (fun P => forallb (fun z1 =>
    pt2_eqb p (ede_aff (ede_inv (lift P z1))) (eda_inv P) &&
    pt2_eqb p (ede_aff (ede_norm (lift P z1))) P &&
    pt2_eqb p (ede_aff (ede_dbl D (lift P z1))) (eda_add A D P P) &&
    forallb (fun Q => forallb (fun z2 =>
      pt2_eqb p (ede_aff (ede_add D (lift P z1) (lift Q z2))) (eda_add A D P Q) &&
      Bool.eqb (ede_eq (zeqb p) (lift P z1) (lift Q z2)) (pt2_eqb p P Q)) (nonzero_zp p)) pts) (nonzero_zp p)) pts.

Definition wp_lifts p (P : option (pt2 (ZpOps p))) : list (pt3 (ZpOps p)) :=
  let F := ZpOps p in
  match P with
  | None => map (fun y => (f0 F, y, f0 F)) (nonzero_zp p)
  | Some (x, y) => map (fun z => (fmul F x z, fmul F y z, z)) (nonzero_zp p)
  end.
Definition wj_lifts p (P : option (pt2 (ZpOps p))) : list (pt3 (ZpOps p)) :=
  let F := ZpOps p in
  match P with
  | None => (f0 F, f1 F, f0 F) :: map (fun t => (fmul F t t, fmul F t (fmul F t t), f0 F)) (nonzero_zp p)
  | Some (x, y) => map (fun z => (fmul F x (fmul F z z), fmul F y (fmul F z (fmul F z z)), z)) (nonzero_zp p)
  end.

Definition wp_toy_check (c : Z * Z * Z) : bool :=
  let '(p, a, b) := c in
  let pts := w_points p a b in
  let A := zk p a in let B := zk p b in
  forallb (fun P => forallb (fun P' =>
    opt_eqb p (wp_aff (zeqb p) (wp_inv P')) (wa_inv P) &&
    opt_eqb p (wp_aff (zeqb p) (wp_norm (zeqb p) P')) P &&
    opt_eqb p (wp_aff (zeqb p) (wp_dbl B P')) (wa_dbl (zeqb p) A P) &&
    forallb (fun Q => forallb (fun Q' =>
      opt_eqb p (wp_aff (zeqb p) (wp_add B P' Q')) (wa_add (zeqb p) A P Q) &&
      Bool.eqb (wp_eq (zeqb p) P' Q') (opt_eqb p P Q)) (wp_lifts p Q)) pts) (wp_lifts p P)) pts.

Definition wj_toy_check (c : Z * Z * Z) : bool :=
  let '(p, a, b) := c in
  let pts := w_points p a b in
  let A := zk p a in
  forallb (fun P => forallb (fun P' =>
    opt_eqb p (wj_aff (zeqb p) (wj_inv P')) (wa_inv P) &&
    opt_eqb p (wj_aff (zeqb p) (wj_norm (zeqb p) P')) P &&
    opt_eqb p (wj_aff (zeqb p) (wj_dbl P')) (wa_dbl (zeqb p) A P) &&
    forallb (fun Q => forallb (fun Q' =>
      opt_eqb p (wj_aff (zeqb p) (wj_add (zeqb p) P' Q')) (wa_add (zeqb p) A P Q) &&
      Bool.eqb (wj_eq (zeqb p) P' Q') (opt_eqb p P Q)) (wj_lifts p Q)) pts) (wj_lifts p P)) pts.

Lemma toy_ed_ok : forallb ed_toy_check toy_ed = true.
Proof. vm_compute. reflexivity. Qed.
Lemma toy_w_ok : forallb w_toy_check toy_w = true.
Proof. vm_compute. reflexivity. Qed.
Lemma toy_edp_ok : forallb edp_toy_check toy_edp = true.
Proof. vm_compute. reflexivity. Qed.
Lemma toy_ede_ok : forallb ede_toy_check toy_ed_ext = true.
Proof. vm_compute. reflexivity. Qed.
Lemma toy_wp_ok : forallb wp_toy_check toy_w0 = true.
Proof. vm_compute. reflexivity. Qed.
Lemma toy_wj_ok : forallb wj_toy_check toy_wj = true.
Proof. vm_compute. reflexivity. Qed.
(** the extended-coordinate formulas are NOT a model of the curve when a <> -1 (Ed448 has a = 1) *)
Lemma toy_ede_a1_refuted : ede_toy_check (13, 1, 2) = false.
Proof. vm_compute. reflexivity. Qed.

(** the complete projective formulas are not complete on a curve of even order (built-in curves
    have prime order) *)
Lemma toy_wp_even_order_refuted : wp_toy_check (13, 0, 1) = false.
Proof. vm_compute. reflexivity. Qed.

Lemma ed_toy_sound p a d : ed_toy_check (p, a, d) = true ->
  let add := eda_add (zk p a) (zk p d) in
  let on := ed_on (zeqb p) (zk p a) (zk p d) in
  forall P Q R, In P (ed_points p a d) -> In Q (ed_points p a d) -> In R (ed_points p a d) ->
    add P eda_id = P /\ add eda_id P = P /\ add P (eda_inv P) = eda_id /\ on (eda_inv P) = true /\
    on (add P Q) = true /\ add P Q = add Q P /\ add (add P Q) R = add P (add Q R).
Proof.
  intros H add on P Q R HP HQ HR. unfold ed_toy_check in H. rewrite forallb_forall in H.
  specialize (H P HP). rewrite !andb_true_iff in H. destruct H as [[[[H1 H2] H3] H4] H5].
  rewrite forallb_forall in H5. specialize (H5 Q HQ). rewrite !andb_true_iff in H5.
  destruct H5 as [[H6 H7] H8]. rewrite forallb_forall in H8. specialize (H8 R HR).
  apply pt2_eqb_spec in H1, H2, H3, H7, H8. repeat split; assumption.
Qed.

Lemma w_toy_sound p a b : 0 < p -> w_toy_check (p, a, b) = true ->
  let add := wa_add (zeqb p) (zk p a) in
  forall P Q R, In P (w_points p a b) -> In Q (w_points p a b) -> In R (w_points p a b) ->
    add P None = P /\ add None P = P /\ add P (wa_inv P) = None /\ In (wa_inv P) (w_points p a b) /\
    add P P = wa_dbl (zeqb p) (zk p a) P /\
    In (add P Q) (w_points p a b) /\ add P Q = add Q P /\ add (add P Q) R = add P (add Q R).
Proof.
  intros Hp H add P Q R HP HQ HR.
  unfold w_toy_check in H. rewrite forallb_forall in H.
  specialize (H P HP). rewrite !andb_true_iff in H. destruct H as [[[[[H1 H2] H3] H4] H4'] H5].
  rewrite forallb_forall in H5. specialize (H5 Q HQ). rewrite !andb_true_iff in H5.
  destruct H5 as [[H6 H7] H8]. rewrite forallb_forall in H8. specialize (H8 R HR).
  apply opt_eqb_spec in H1, H2, H3, H4', H7, H8.
  repeat split; try assumption.
  - apply w_points_complete; [exact Hp|]. destruct (wa_inv P); auto.
  - apply w_points_complete; [exact Hp|]. subst add. destruct (wa_add (zeqb p) (zk p a) P Q); auto.
Qed.

(** assoc_toy: group laws on ALL points of the toy Edwards / Weierstrass curves (affine) *)
Theorem assoc_toy_edwards : forall p a d, In (p, a, d) toy_ed ->
  let add := eda_add (zk p a) (zk p d) in
  let on := ed_on (zeqb p) (zk p a) (zk p d) in
  forall P Q R, In P (ed_points p a d) -> In Q (ed_points p a d) -> In R (ed_points p a d) ->
    add P eda_id = P /\ add eda_id P = P /\ add P (eda_inv P) = eda_id /\ on (eda_inv P) = true /\
    on (add P Q) = true /\ add P Q = add Q P /\ add (add P Q) R = add P (add Q R).
Proof.
  intros p a d Hc. apply ed_toy_sound. revert Hc. apply (proj1 (forallb_forall _ _) toy_ed_ok).
Qed.

Theorem assoc_toy_weierstrass : forall p a b, In (p, a, b) toy_w ->
  let add := wa_add (zeqb p) (zk p a) in
  forall P Q R, In P (w_points p a b) -> In Q (w_points p a b) -> In R (w_points p a b) ->
    add P None = P /\ add None P = P /\ add P (wa_inv P) = None /\ In (wa_inv P) (w_points p a b) /\
    add P P = wa_dbl (zeqb p) (zk p a) P /\
    In (add P Q) (w_points p a b) /\ add P Q = add Q P /\ add (add P Q) R = add P (add Q R).
Proof.
  intros p a b Hc. apply w_toy_sound.
  - unfold toy_w in Hc. repeat (destruct Hc as [Hc|Hc]; [inversion Hc; lia|]). destruct Hc.
  - revert Hc. apply (proj1 (forallb_forall _ _) toy_w_ok).
Qed.

(** cross-coordinate agreement on toy curves: the statement is the boolean check itself
    (inversion, normalize, doubling, addition and equality of every scaling of every pair) *)
Theorem toy_coords_agree :
  (forall c, In c toy_edp -> edp_toy_check c = true) /\
  (forall c, In c toy_ed_ext -> ede_toy_check c = true) /\
  (forall c, In c toy_w0 -> wp_toy_check c = true) /\
  (forall c, In c toy_wj -> wj_toy_check c = true).
Proof.
  repeat split; apply forallb_forall;
    [exact toy_edp_ok|exact toy_ede_ok|exact toy_wp_ok|exact toy_wj_ok].
Qed.
End Toy.
