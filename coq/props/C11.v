(** C11 — shares of every secure value form a consistent degree-t sharing.  Only statements. *)
Require Import MPyC.Base MPyC.Field MPyC.Poly MPyC.Lagrange MPyC.Shamir MPyC.PRSS MPyC.Proto MPyC.Zp.
Local Open Scope nat_scope.

(** Every value reachable by the expression language (inputs with arbitrary dealer randomness,
    public constants, PRSS random values with arbitrary PRF tables, + - neg, public scalars, and
    secure multiplication = local product + GRR resharing with arbitrary labels and dealer
    randomness) is held by the m parties as ONE polynomial of degree <= t with constant term the
    value; for every field, every m, t with 2t+1 <= m. *)
Theorem C11_reachable_values_are_degree_t_sharings :
  forall (K : FieldT) (inj : nat -> K) (m : nat),
    (forall i j, i <= m -> j <= m -> inj i = inj j -> i = j) -> inj O = f0 K ->
    forall (t : nat) (e : expr K), 2 * t + 1 <= m -> wf K m t e ->
      Sharing inj m t (shares K inj m t e) (value K e).
Proof. exact reachable_sharing. Qed.
Print Assumptions C11_reachable_values_are_degree_t_sharings.

(** Resharing: a degree-2t sharing becomes a degree-t sharing of the same value (any label, any tapes). *)
Theorem C11_reshare_restores_degree_t :
  forall (K : FieldT) (inj : nat -> K) (m : nat),
    (forall i j, i <= m -> j <= m -> inj i = inj j -> i = j) -> inj O = f0 K ->
    forall (t uci : nat) (tape : nat -> list K) (sigma : list K) (a : K),
      2 * t + 1 <= m -> (forall d, length (tape d) <= t) ->
      Sharing inj m (2 * t) sigma a -> Sharing inj m t (reshare inj m t uci tape sigma) a.
Proof. exact reshare_sharing. Qed.
Print Assumptions C11_reshare_restores_degree_t.

Theorem C11_multiplication :
  forall (K : FieldT) (inj : nat -> K) (m : nat),
    (forall i j, i <= m -> j <= m -> inj i = inj j -> i = j) -> inj O = f0 K ->
    forall (t uci : nat) (tape : nat -> list K) (s1 s2 : list K) (a b : K),
      2 * t + 1 <= m -> (forall d, length (tape d) <= t) ->
      Sharing inj m t s1 a -> Sharing inj m t s2 b ->
      Sharing inj m t (mul_proto inj m t uci tape s1 s2) (fmul K a b).
Proof. exact mul_correct. Qed.
Print Assumptions C11_multiplication.

(** Any more-than-d parties of a degree-d sharing recombine the value; in particular every output
    receiver (own share + t' >= d predecessors) obtains it, so all receivers agree. *)
Theorem C11_output_recombines_value :
  forall (K : FieldT) (inj : nat -> K) (m : nat),
    (forall i j, i <= m -> j <= m -> inj i = inj j -> i = j) -> inj O = f0 K ->
    forall (d t' r : nat) (sigma : list K) (a : K),
      Sharing inj m d sigma a -> d <= t' -> t' < m -> r < m -> output_at inj m t' r sigma = a.
Proof. exact output_correct. Qed.
Print Assumptions C11_output_recombines_value.

(** Non-vacuity over GF(11), m = 3, t = 1: (3 + 4) * 5 with concrete tapes. *)
Example C11_nonvacuous :
  let p := 11%Z in let K := ZpField p (is_prime_small_correct p eq_refl) in let z := mkZp p in
  let e := EMul K (EAdd K (EInput K (z 3%Z) [z 7%Z]) (EInput K (z 4%Z) [z 2%Z])) (EInput K (z 5%Z) [z 9%Z]) 1
                (fun d => [z (Z.of_nat (d * d) + 2)%Z]) in
  map zval (shares K (zp_of_nat p) 3 1 e) = [5; 8; 0]%Z /\ zval (value K e) = 2%Z /\
  map (fun r => zval (@output_at K (zp_of_nat p) 3 1 r (shares K (zp_of_nat p) 3 1 e))) [0;1;2] = [2;2;2]%Z.
Proof. vm_compute. auto. Qed.

(** Affine combinations with public coefficients of consistent sharings are consistent sharings
    (the shape of the result of every masked-opening protocol). *)
Theorem C11_public_affine_combinations :
  forall (K : FieldT) (inj : nat -> K) (m d : nat) (c0 : K) (terms : list (K * list K * K)),
    (forall c s a, In (c, s, a) terms -> Sharing inj m d s a) ->
    Sharing inj m d (sh_lincomb K m c0 (map (fun x => (fst (fst x), snd (fst x))) terms))
                    (val_lincomb K c0 (map (fun x => (fst (fst x), snd x)) terms)).
Proof. exact sharing_lincomb. Qed.
Print Assumptions C11_public_affine_combinations.
