(** C29 — model of runtime._sort (Batcher merge-exchange, Knuth 5.2.2M): the comparator sequence
    produced by the p/q/r/d loop nest, its application to a list, the 0-1 principle, and a
    truth-table certificate (bit-parallel over all 2^n inputs) for bounded n. *)
From Coq Require Import List ZArith NArith Arith Bool Lia Permutation Sorting.Sorted.
Import ListNotations.

(** * The comparator sequence of [_sort] for a list of length n

      t = (n-1).bit_length();  p = 1 << t-1
      while p:
          d, q, r = p, 1 << t-1, 0
          while d:
              for i in range(n - d):
                  if i & p == r:  compare-exchange (i, i+d)
              d, q, r = q - p, q >> 1, p
          p >>= 1

    [N] for the loop variables (q >= p holds throughout, so q - p never goes negative), fuel of
    logarithmic size for the two while loops, [None] when fuel runs out. *)

Definition inner (n d p r : N) : list (nat * nat) :=
  flat_map (fun i => if N.eqb (N.land (N.of_nat i) p) r then [(i, i + N.to_nat d)] else [])
           (seq 0 (N.to_nat (n - d))).

Fixpoint loop_d (fuel : nat) (n d q r p : N) : option (list (nat * nat)) :=
  match fuel with
  | O => None
  | S f => if N.eqb d 0 then Some []
           else match loop_d f n (q - p) (N.shiftr q 1) p p with
                | Some l => Some (inner n d p r ++ l)
                | None => None
                end
  end.

Fixpoint loop_p (fuel : nat) (n t p : N) : option (list (nat * nat)) :=
  match fuel with
  | O => None
  | S f => if N.eqb p 0 then Some []
           else match loop_d (S (S (N.to_nat t))) n p (N.shiftl 1 (t - 1)) 0 p,
                      loop_p f n t (N.shiftr p 1) with
                | Some l1, Some l2 => Some (l1 ++ l2)
                | _, _ => None
                end
  end.

(** [_sort] is only called for n >= 2 (sorted/sort return early otherwise) *)
Definition merge_exchange_opt (n : nat) : option (list (nat * nat)) :=
  if n <? 2 then Some [] else
  let n' := N.of_nat n in
  let t := N.size (n' - 1) in
  loop_p (S (S (N.to_nat t))) n' t (N.shiftl 1 (t - 1)).

Definition merge_exchange (n : nat) : list (nat * nat) :=
  match merge_exchange_opt n with Some l => l | None => [] end.

(** * Applying a comparator list

    One compare-exchange in the code:  a, b = x[i], x[j];  x[i], x[j] = if_swap(key(a) < key(b), b, a),
    and if_swap(c, u, v) = (v, u) if c else (u, v); so  x[i] = a if key a < key b else b  (the smaller),
    x[j] = b if key a < key b else a  (the larger).  The application is generic in the two
    selection functions so that the same definition runs on numbers, keyed records, and bit masks. *)

Fixpoint set_nth {A} (i : nat) (v : A) (l : list A) : list A :=
  match l, i with
  | [], _ => []
  | _ :: l', O => v :: l'
  | a :: l', S i' => a :: set_nth i' v l'
  end.

Section Gen.
Context {A : Type}.
Variables (mn mx : A -> A -> A) (dflt : A).

(** comparators with i < j < length are the only ones the code produces ([merge_exchange_wf]);
    anything else is ignored *)
Definition cmpx (xs : list A) (c : nat * nat) : list A :=
  let (i, j) := c in
  if (i <? j) && (j <? length xs) then
    let a := nth i xs dflt in let b := nth j xs dflt in
    set_nth j (mx a b) (set_nth i (mn a b) xs)
  else xs.

Definition apply_gen (net : list (nat * nat)) (xs : list A) : list A := fold_left cmpx net xs.
End Gen.

(** numbers, exactly as coded (comparison [<] and selection) *)
Definition zmn (a b : Z) : Z := if (a <? b)%Z then a else b.
Definition zmx (a b : Z) : Z := if (a <? b)%Z then b else a.
Definition apply_net (net : list (nat * nat)) (xs : list Z) : list Z := apply_gen zmn zmx 0%Z net xs.

(** elements compared through a key, using only [<] on keys *)
Definition kmn {A} (key : A -> Z) (a b : A) : A := if (key a <? key b)%Z then a else b.
Definition kmx {A} (key : A -> Z) (a b : A) : A := if (key a <? key b)%Z then b else a.
Definition apply_key {A} (key : A -> Z) (d : A) net (xs : list A) := apply_gen (kmn key) (kmx key) d net xs.

(** runtime.sorted / seclist.sort at value level *)
Definition sorted_model (xs : list Z) (reverse : bool) : list Z :=
  let ys := if length xs <? 2 then xs else apply_net (merge_exchange (length xs)) xs in
  if reverse then rev ys else ys.
Definition sorted_key_model {A} (key : A -> Z) (d : A) (xs : list A) (reverse : bool) : list A :=
  let ys := if length xs <? 2 then xs else apply_key key d (merge_exchange (length xs)) xs in
  if reverse then rev ys else ys.

(** * Basic list facts *)

Lemma set_nth_length {A} i (v : A) l : length (set_nth i v l) = length l.
Proof. revert i; induction l as [|a l IH]; intros [|i]; simpl; auto. Qed.

Lemma nth_set_nth {A} i j (v d : A) l :
  nth j (set_nth i v l) d = if (i =? j) && (i <? length l) then v else nth j l d.
Proof.
  revert i j; induction l as [|a l IH]; intros i j; simpl.
  - destruct i, j; simpl; rewrite ?andb_false_r; reflexivity.
  - destruct i as [|i], j as [|j]; simpl; try reflexivity.
    rewrite IH. reflexivity.
Qed.

Lemma map_set_nth {A B} (h : A -> B) i v l : map h (set_nth i v l) = set_nth i (h v) (map h l).
Proof. revert i; induction l as [|a l IH]; intros [|i]; simpl; auto. rewrite IH; reflexivity. Qed.

Lemma cmpx_length {A} (mn mx : A -> A -> A) d xs c : length (cmpx mn mx d xs c) = length xs.
Proof.
  unfold cmpx. destruct c as [i j]. destruct ((i <? j) && (j <? length xs)); auto.
  rewrite !set_nth_length. reflexivity.
Qed.

Lemma apply_gen_length {A} (mn mx : A -> A -> A) d net xs : length (apply_gen mn mx d net xs) = length xs.
Proof.
  unfold apply_gen. revert xs; induction net as [|c net IH]; intros xs; simpl; auto.
  rewrite IH. apply cmpx_length.
Qed.

(** * Every comparator list permutes its input *)

Lemma perm_nth_set {A} j (x d : A) l : j < length l -> Permutation (nth j l d :: set_nth j x l) (x :: l).
Proof.
  revert j; induction l as [|y l IH]; intros j Hj; simpl in Hj; [lia|].
  destruct j as [|j]; simpl.
  - apply perm_swap.
  - eapply perm_trans; [apply perm_swap|].
    eapply perm_trans; [apply perm_skip, IH; lia|]. apply perm_swap.
Qed.

Lemma perm_swap_nth {A} i j (d : A) l : i < j -> j < length l ->
  Permutation (set_nth j (nth i l d) (set_nth i (nth j l d) l)) l.
Proof.
  revert i j; induction l as [|x l IH]; intros i j Hij Hj; simpl in Hj; [lia|].
  destruct j as [|j]; [lia|]. destruct i as [|i]; simpl.
  - apply perm_nth_set. lia.
  - apply perm_skip, IH; lia.
Qed.

Lemma set_nth_same {A} i (d : A) l : set_nth i (nth i l d) l = l.
Proof. revert i; induction l as [|x l IH]; intros [|i]; simpl; auto. rewrite IH; reflexivity. Qed.

Lemma set_nth_comm_same {A} i j (a b : A) l : i <> j ->
  set_nth j b (set_nth i a l) = set_nth i a (set_nth j b l).
Proof.
  revert i j; induction l as [|x l IH]; intros [|i] [|j] H; simpl; auto; try lia.
  rewrite IH by lia. reflexivity.
Qed.

Section Perm.
Context {A : Type}.
Variables (mn mx : A -> A -> A) (dflt : A).
(** the two outputs of a compare-exchange are its two inputs, possibly swapped *)
Hypothesis mnmx : forall a b, (mn a b = a /\ mx a b = b) \/ (mn a b = b /\ mx a b = a).

Lemma cmpx_perm xs c : Permutation (cmpx mn mx dflt xs c) xs.
Proof.
  unfold cmpx. destruct c as [i j].
  destruct ((i <? j) && (j <? length xs)) eqn:G; [|apply Permutation_refl].
  apply andb_true_iff in G. destruct G as [G1 G2].
  apply Nat.ltb_lt in G1. apply Nat.ltb_lt in G2. simpl.
  destruct (mnmx (nth i xs dflt) (nth j xs dflt)) as [[E1 E2]|[E1 E2]]; rewrite E1, E2.
  - rewrite set_nth_same.
    replace (nth j xs dflt) with (nth j xs dflt) by reflexivity.
    rewrite set_nth_same. apply Permutation_refl.
  - apply perm_swap_nth; assumption.
Qed.

Lemma apply_gen_perm net xs : Permutation (apply_gen mn mx dflt net xs) xs.
Proof.
  unfold apply_gen. revert xs; induction net as [|c net IH]; intros xs; simpl; [apply Permutation_refl|].
  eapply perm_trans; [apply IH|apply cmpx_perm].
Qed.
End Perm.

Lemma zmn_min a b : zmn a b = Z.min a b.
Proof. unfold zmn. destruct (Z.ltb_spec a b); lia. Qed.
Lemma zmx_max a b : zmx a b = Z.max a b.
Proof. unfold zmx. destruct (Z.ltb_spec a b); lia. Qed.

Theorem net_is_permutation : forall (net : list (nat * nat)) (xs : list Z),
  Permutation (apply_net net xs) xs.
Proof.
  intros. apply apply_gen_perm. intros a b. unfold zmn, zmx. destruct (a <? b)%Z; auto.
Qed.

Theorem net_key_is_permutation : forall {A} (key : A -> Z) (d : A) net (xs : list A),
  Permutation (apply_key key d net xs) xs.
Proof.
  intros. apply apply_gen_perm. intros a b. unfold kmn, kmx. destruct (key a <? key b)%Z; auto.
Qed.

(** * Homomorphisms commute with networks *)

Section Commute.
Context {A B : Type}.
Variables (mnA mxA : A -> A -> A) (dA : A) (mnB mxB : B -> B -> B) (dB : B) (h : A -> B).
Hypothesis h_mn : forall a b, h (mnA a b) = mnB (h a) (h b).
Hypothesis h_mx : forall a b, h (mxA a b) = mxB (h a) (h b).

Lemma nth_map_h xs i : i < length xs -> nth i (map h xs) dB = h (nth i xs dA).
Proof. intros H. rewrite (nth_indep _ dB (h dA)) by (rewrite map_length; exact H). apply map_nth. Qed.

Lemma cmpx_commute xs c : map h (cmpx mnA mxA dA xs c) = cmpx mnB mxB dB (map h xs) c.
Proof.
  unfold cmpx. destruct c as [i j]. rewrite map_length.
  destruct ((i <? j) && (j <? length xs)) eqn:G; [|reflexivity].
  apply andb_true_iff in G. destruct G as [G1 G2].
  apply Nat.ltb_lt in G1. apply Nat.ltb_lt in G2. simpl.
  rewrite !map_set_nth, h_mn, h_mx, !nth_map_h by lia. reflexivity.
Qed.

Lemma apply_gen_commute net xs :
  map h (apply_gen mnA mxA dA net xs) = apply_gen mnB mxB dB net (map h xs).
Proof.
  unfold apply_gen. revert xs; induction net as [|c net IH]; intros xs; simpl; [reflexivity|].
  rewrite IH, cmpx_commute. reflexivity.
Qed.
End Commute.

(** sorting by key = sorting the keys *)
Lemma apply_key_keys {A} (key : A -> Z) d net (xs : list A) :
  map key (apply_key key d net xs) = apply_net net (map key xs).
Proof.
  unfold apply_key, apply_net. apply apply_gen_commute; intros a b; unfold kmn, kmx, zmn, zmx;
    destruct (key a <? key b)%Z; reflexivity.
Qed.

(** * The 0-1 principle *)

Definition thr (t x : Z) : Z := if (t <=? x)%Z then 1%Z else 0%Z.
Definition is01 (x : Z) : Prop := x = 0%Z \/ x = 1%Z.

Lemma thr_01 t x : is01 (thr t x).
Proof. unfold thr, is01. destruct (t <=? x)%Z; auto. Qed.

Lemma thr_mn t a b : thr t (zmn a b) = zmn (thr t a) (thr t b).
Proof.
  unfold thr, zmn.
  destruct (Z.ltb_spec a b), (Z.leb_spec t a), (Z.leb_spec t b); simpl; try reflexivity; lia.
Qed.
Lemma thr_mx t a b : thr t (zmx a b) = zmx (thr t a) (thr t b).
Proof.
  unfold thr, zmx.
  destruct (Z.ltb_spec a b), (Z.leb_spec t a), (Z.leb_spec t b); simpl; try reflexivity; lia.
Qed.

Lemma sorted_of_thresholds (ys : list Z) :
  (forall t, Sorted Z.le (map (thr t) ys)) -> Sorted Z.le ys.
Proof.
  induction ys as [|a ys IH]; intros H; [constructor|].
  constructor.
  - apply IH. intros t. specialize (H t). simpl in H. inversion H; assumption.
  - destruct ys as [|b ys]; constructor.
    specialize (H a). simpl in H. inversion H as [|? ? _ Hd]; subst.
    inversion Hd as [|? ? Hab]; subst. unfold thr in Hab.
    rewrite Z.leb_refl in Hab. destruct (Z.leb_spec a b); lia.
Qed.

Theorem zero_one_principle : forall (net : list (nat * nat)) (n : nat),
  (forall bs : list Z, length bs = n -> Forall is01 bs -> Sorted Z.le (apply_net net bs)) ->
  forall xs : list Z, length xs = n -> Sorted Z.le (apply_net net xs).
Proof.
  intros net n H01 xs Hlen. apply sorted_of_thresholds. intros t.
  unfold apply_net.
  rewrite (apply_gen_commute zmn zmx 0%Z zmn zmx 0%Z (thr t) (thr_mn t) (thr_mx t)).
  apply H01.
  - rewrite map_length; exact Hlen.
  - apply Forall_forall. intros y Hy. apply in_map_iff in Hy. destruct Hy as [x [<- _]]. apply thr_01.
Qed.

(** * Truth-table certificate: all 2^n 0/1 inputs at once

    Wire i carries an [N] whose bit k is the value of wire i on input number k (k < 2^n; input k
    feeds bit i of k into wire i).  A compare-exchange is (land, lor). *)

Fixpoint tt (n : nat) (i : nat) : N :=
  match n with
  | O => 0
  | S n' => let w := N.shiftl 1 (N.of_nat n') in
            if Nat.eqb i n' then N.shiftl (N.ones w) w
            else let P := tt n' i in N.lor P (N.shiftl P w)
  end.

Definition apply_tt (net : list (nat * nat)) (ws : list N) : list N := apply_gen N.land N.lor 0%N net ws.

Fixpoint sorted_tt (ws : list N) : bool :=
  match ws with
  | a :: ((b :: _) as rest) => N.eqb (N.land a b) a && sorted_tt rest
  | _ => true
  end.

Definition tt_check (net : list (nat * nat)) (n : nat) : bool :=
  sorted_tt (apply_tt net (map (tt n) (seq 0 n))).

Definition me_check (n : nat) : bool := tt_check (merge_exchange n) n.

(** bit k of a mask, as a 0/1 number *)
Definition bitz (k : N) (w : N) : Z := if N.testbit w k then 1%Z else 0%Z.

Lemma bitz_land k a b : bitz k (N.land a b) = zmn (bitz k a) (bitz k b).
Proof. unfold bitz. rewrite N.land_spec. destruct (N.testbit a k), (N.testbit b k); reflexivity. Qed.
Lemma bitz_lor k a b : bitz k (N.lor a b) = zmx (bitz k a) (bitz k b).
Proof. unfold bitz. rewrite N.lor_spec. destruct (N.testbit a k), (N.testbit b k); reflexivity. Qed.

(** the bit-parallel run projects, at every bit position, to the run on that input *)
Lemma apply_tt_bit k net ws : map (bitz k) (apply_tt net ws) = apply_net net (map (bitz k) ws).
Proof. unfold apply_tt, apply_net. apply apply_gen_commute; [apply bitz_land|apply bitz_lor]. Qed.

Lemma sorted_tt_bit k ws : sorted_tt ws = true -> Sorted Z.le (map (bitz k) ws).
Proof.
  induction ws as [|a ws IH]; intros H; [constructor|].
  destruct ws as [|b ws]; [repeat constructor|].
  change (N.eqb (N.land a b) a && sorted_tt (b :: ws) = true) in H.
  apply andb_true_iff in H. destruct H as [H1 H2].
  constructor; [apply IH; exact H2|]. simpl. constructor.
  apply N.eqb_eq in H1. unfold bitz. rewrite <- H1 at 1. rewrite N.land_spec.
  destruct (N.testbit a k), (N.testbit b k); simpl; lia.
Qed.

(** specification of the input tables *)
Lemma testbit_top (k : N) (n : N) : (k < 2 ^ N.succ n)%N -> N.testbit k n = (2 ^ n <=? k)%N.
Proof.
  intros Hk. destruct (N.leb_spec (2 ^ n) k) as [H|H].
  - assert (E : n = N.log2 k). { symmetry. apply N.log2_unique; [lia|]. split; [exact H|exact Hk]. }
    assert (Hk0 : k <> 0%N).
    { intros ->. assert (0 < 2 ^ n)%N by (apply N.neq_0_lt_0, N.pow_nonzero; lia). lia. }
    rewrite E. apply N.bit_log2. exact Hk0.
  - destruct (N.eq_dec k 0) as [->|Hk0]; [apply N.bits_0|].
    apply N.bits_above_log2. apply N.log2_lt_pow2; lia.
Qed.

Lemma tt_spec n : forall i k, i < n ->
  N.testbit (tt n i) k = (k <? 2 ^ N.of_nat n)%N && N.testbit k (N.of_nat i).
Proof.
  induction n as [|n IH]; intros i k Hi; [lia|].
  cbn [tt]. rewrite N.shiftl_1_l. set (w := (2 ^ N.of_nat n)%N).
  assert (Hw : (2 ^ N.of_nat (S n) = 2 * w)%N).
  { rewrite Nat2N.inj_succ, N.pow_succ_r'. reflexivity. }
  rewrite Hw.
  destruct (Nat.eqb_spec i n) as [->|Hne].
  - destruct (N.ltb_spec k w) as [H1|H1].
    + rewrite N.shiftl_spec_low by exact H1.
      destruct (N.ltb_spec k (2 * w)); [|lia]. cbn [andb orb].
      rewrite testbit_top by (rewrite <- Nat2N.inj_succ, Hw; lia).
      fold w. destruct (N.leb_spec w k); [lia|reflexivity].
    + rewrite N.shiftl_spec_high' by exact H1.
      destruct (N.ltb_spec k (2 * w)) as [H2|H2]; cbn [andb orb].
      * rewrite N.ones_spec_low by lia.
        rewrite testbit_top by (rewrite <- Nat2N.inj_succ, Hw; lia).
        fold w. destruct (N.leb_spec w k); [reflexivity|lia].
      * apply N.ones_spec_high. lia.
  - assert (Hi' : i < n) by lia.
    rewrite N.lor_spec.
    destruct (N.ltb_spec k w) as [H1|H1].
    + rewrite N.shiftl_spec_low by exact H1. rewrite orb_false_r.
      rewrite IH by exact Hi'. fold w.
      destruct (N.ltb_spec k w); [|lia]. destruct (N.ltb_spec k (2 * w)); [|lia]. reflexivity.
    + rewrite N.shiftl_spec_high' by exact H1.
      rewrite !IH by exact Hi'. fold w.
      destruct (N.ltb_spec k w); [lia|]. cbn [andb orb].
      destruct (N.ltb_spec k (2 * w)) as [H2|H2]; destruct (N.ltb_spec (k - w) w) as [H3|H3]; try lia; cbn [andb orb].
      * assert (Hm : (k mod w = (k - w) mod w)%N).
        { replace (k mod w)%N with (((k - w) + 1 * w) mod w)%N by (f_equal; lia).
          apply N.mod_add. unfold w. apply N.pow_nonzero. lia. }
        rewrite <- (N.mod_pow2_bits_low k (N.of_nat n)) by lia.
        rewrite <- (N.mod_pow2_bits_low (k - w) (N.of_nat n)) by lia.
        fold w. rewrite Hm. reflexivity.
Qed.

(** every 0/1 list of length n is the list of bits of some k < 2^n *)
Lemma bits_surj (bs : list Z) : Forall is01 bs ->
  exists k, (k < 2 ^ N.of_nat (length bs))%N /\
            bs = map (fun i => bitz (N.of_nat i) k) (seq 0 (length bs)).
Proof.
  induction bs as [|b bs IH]; intros H.
  - exists 0%N. simpl. split; [lia|reflexivity].
  - inversion H as [|? ? Hb Hbs]; subst. destruct (IH Hbs) as [k [Hk Ek]].
    set (b0 := match b with 0%Z => false | _ => true end).
    exists (2 * k + N.b2n b0)%N. split.
    + cbn [length]. rewrite Nat2N.inj_succ, N.pow_succ_r'. destruct b0; simpl N.b2n; lia.
    + cbn [length seq map]. f_equal.
      * unfold bitz. change (N.of_nat 0) with 0%N. rewrite N.testbit_0_r.
        destruct Hb as [-> | ->]; reflexivity.
      * rewrite <- seq_shift, map_map. rewrite Ek at 1. apply map_ext. intros i.
        unfold bitz. rewrite Nat2N.inj_succ, N.testbit_succ_r. reflexivity.
Qed.

Lemma tt_inputs n k : (k < 2 ^ N.of_nat n)%N ->
  map (bitz k) (map (tt n) (seq 0 n)) = map (fun i => bitz (N.of_nat i) k) (seq 0 n).
Proof.
  intros Hk. rewrite map_map. apply map_ext_in. intros i Hi. apply in_seq in Hi.
  unfold bitz. rewrite tt_spec by lia.
  destruct (N.ltb_spec k (2 ^ N.of_nat n)); [|lia]. reflexivity.
Qed.

Theorem tt_check_sound : forall net n, tt_check net n = true ->
  forall bs : list Z, length bs = n -> Forall is01 bs -> Sorted Z.le (apply_net net bs).
Proof.
  intros net n Hc bs Hlen H01. destruct (bits_surj bs H01) as [k [Hk Ek]].
  rewrite Hlen in *. rewrite Ek, <- tt_inputs by exact Hk.
  rewrite <- apply_tt_bit. apply sorted_tt_bit. exact Hc.
Qed.

Theorem tt_check_sorts : forall net n, tt_check net n = true ->
  forall xs : list Z, length xs = n -> Sorted Z.le (apply_net net xs) /\ Permutation (apply_net net xs) xs.
Proof.
  intros net n Hc xs Hlen. split; [|apply net_is_permutation].
  apply (zero_one_principle net n); [|exact Hlen]. apply tt_check_sound. exact Hc.
Qed.

(** sorting by key: the keys of the result are sorted and the result is a permutation *)
Theorem tt_check_sorts_key : forall net n, tt_check net n = true ->
  forall {A} (key : A -> Z) (d : A) (xs : list A), length xs = n ->
    Sorted Z.le (map key (apply_key key d net xs)) /\ Permutation (apply_key key d net xs) xs.
Proof.
  intros net n Hc A key d xs Hlen. split; [|apply net_key_is_permutation].
  rewrite apply_key_keys. apply (tt_check_sorts net n Hc). rewrite map_length. exact Hlen.
Qed.

(** * The comparators produced by the loop nest are in range: i < j < n *)

Definition wf_net (n : nat) (net : list (nat * nat)) : Prop :=
  Forall (fun c => fst c < snd c /\ snd c < n) net.

Lemma inner_wf n d p r : d <> 0%N -> wf_net (N.to_nat n) (inner n d p r).
Proof.
  intros Hd. unfold wf_net, inner. apply Forall_forall. intros c Hc.
  apply in_flat_map in Hc. destruct Hc as [i [Hi Hc]]. apply in_seq in Hi.
  revert Hc. destruct (N.eqb _ _); intros Hc; simpl in Hc; [|contradiction]. destruct Hc as [Hc|[]]. subst c. simpl. lia.
Qed.

Lemma loop_d_wf fuel : forall n d q r p l, loop_d fuel n d q r p = Some l -> wf_net (N.to_nat n) l.
Proof.
  induction fuel as [|f IH]; intros n d q r p l H; cbn [loop_d] in H; [discriminate|].
  revert H. destruct (N.eqb_spec d 0); intros H.
  - injection H as <-. constructor.
  - revert H. destruct (loop_d f n (q - p) (N.shiftr q 1) p p) as [l'|] eqn:E; intros H; [|discriminate].
    injection H as <-. apply Forall_app. split; [apply inner_wf; assumption|eapply IH; eassumption].
Qed.

Lemma loop_p_wf fuel : forall n t p l, loop_p fuel n t p = Some l -> wf_net (N.to_nat n) l.
Proof.
  induction fuel as [|f IH]; intros n t p l H; cbn [loop_p] in H; [discriminate|].
  revert H. destruct (N.eqb p 0); intros H.
  - injection H as <-. constructor.
  - revert H. destruct (loop_d _ n p _ 0 p) as [l1|] eqn:E1; [|discriminate].
    destruct (loop_p f n t (N.shiftr p 1)) as [l2|] eqn:E2; intros H; [|discriminate].
    injection H as <-. apply Forall_app. split; [eapply loop_d_wf; eassumption|eapply IH; eassumption].
Qed.

Theorem merge_exchange_wf : forall n, wf_net n (merge_exchange n).
Proof.
  intros n. unfold merge_exchange, merge_exchange_opt.
  destruct (n <? 2); [constructor|].
  destruct (loop_p _ _ _ _) as [l|] eqn:E; [|constructor].
  apply loop_p_wf in E. rewrite Nat2N.id in E. exact E.
Qed.

(** * Reverse *)

Lemma StronglySorted_app_single {A} (R : A -> A -> Prop) l a :
  StronglySorted R l -> Forall (fun x => R x a) l -> StronglySorted R (l ++ [a]).
Proof.
  induction l as [|b l IH]; intros Hs Hf; simpl.
  - constructor; constructor.
  - inversion Hs; subst. inversion Hf; subst. constructor; [apply IH; assumption|].
    apply Forall_app. split; [assumption|constructor; [assumption|constructor]].
Qed.

Lemma sorted_rev (l : list Z) : Sorted Z.le l -> Sorted Z.ge (rev l).
Proof.
  intros H. apply Sorted_StronglySorted in H; [|intros x y z; apply Z.le_trans].
  apply StronglySorted_Sorted.
  induction H as [|a l Hs IH Hf]; simpl; [constructor|].
  apply StronglySorted_app_single; [exact IH|].
  apply Forall_forall. intros x Hx. apply in_rev in Hx.
  rewrite Forall_forall in Hf. specialize (Hf x Hx). lia.
Qed.

Lemma sorted_short (l : list Z) : length l < 2 -> Sorted Z.le l.
Proof. destruct l as [|a [|b l]]; simpl; intros H; try lia; repeat constructor. Qed.

(** runtime.sorted at value level, for every length whose network passes the certificate *)
Theorem sorted_model_correct : forall xs : list Z,
  me_check (length xs) = true ->
  forall reverse : bool,
    (if reverse then Sorted Z.ge (sorted_model xs true) else Sorted Z.le (sorted_model xs false)) /\
    Permutation (sorted_model xs reverse) xs.
Proof.
  intros xs Hc reverse. unfold sorted_model.
  set (ys := if length xs <? 2 then xs else apply_net (merge_exchange (length xs)) xs).
  assert (Hy : Sorted Z.le ys /\ Permutation ys xs).
  { unfold ys. destruct (Nat.ltb_spec (length xs) 2).
    - split; [apply sorted_short; assumption|apply Permutation_refl].
    - apply (tt_check_sorts _ (length xs) Hc). reflexivity. }
  destruct Hy as [Hs Hp]. destruct reverse.
  - split; [apply sorted_rev; exact Hs|].
    eapply perm_trans; [apply Permutation_sym, Permutation_rev|exact Hp].
  - split; assumption.
Qed.
