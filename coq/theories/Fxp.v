(** Fxp — secure fixed-point arithmetic of mpyc (runtime.trunc / mul / pow / lshift / sum / in_prod)
    at the level of scaled integers, with integrality flags, and the flag-rule language of the
    regenerated table coq/gen/FlagRules.v.

    A secfxp value x with f fractional bits is its scaled integer X = x * 2^f (val) plus its
    [integral] attribute (flg).  "within u units" means |result - exact * 2^f| <= u (all
    statements are over Z, multiplied out; no reals).  The probabilistic rounding of
    runtime.trunc is an explicit input: either the low mask bits r (trunc_r, as coded) or the
    resulting floor/ceil choice bit (truncb).  In-place [>>= k] on a field element is modelled
    exactly as k halvings modulo the (odd) field modulus p, so that a skipped truncation on a
    non-integral value yields the same garbage as the implementation. *)
From Coq Require Import ZArith List Bool String Lia Znumtheory.
Import ListNotations.
Local Open Scope Z_scope.

(* ------------------------------------------------------------------------------------------ *)
(** * Truncation *)

Definition floor_div (f X : Z) : Z := X / 2 ^ f.
Definition ceil_div (f X : Z) : Z := - ((- X) / 2 ^ f).
Definition truncb (f : Z) (b : bool) (X : Z) : Z := if b then ceil_div f X else floor_div f X.

(** runtime.trunc as coded, for one element: r = the f random low bits, q = the random high part,
    l = bit length (already increased by f for fixed-point types).
      xr = X + r;  c = (xr + 2^(l-1) + q*2^f) mod 2^f;  y = (xr - c) >> f *)
Definition trunc_coded (l f r q X : Z) : Z :=
  let xr := X + r in
  let c := (xr + 2 ^ (l - 1) + q * 2 ^ f) mod 2 ^ f in
  (xr - c) / 2 ^ f.
Definition trunc_r (f r X : Z) : Z := (X + r) / 2 ^ f.

Lemma pow2_pos : forall f, 0 <= f -> 0 < 2 ^ f.
Proof. intros; apply Z.pow_pos_nonneg; lia. Qed.

Lemma trunc_coded_eq : forall l f r q X, 0 <= f -> f <= l - 1 ->
  trunc_coded l f r q X = trunc_r f r X.
Proof.
  intros l f r q X Hf Hl. unfold trunc_coded, trunc_r.
  pose proof (pow2_pos f Hf) as Hd.
  assert (E : 2 ^ (l - 1) = 2 ^ (l - 1 - f) * 2 ^ f).
  { rewrite <- Z.pow_add_r by lia. f_equal. lia. }
  rewrite E.
  replace (X + r + 2 ^ (l - 1 - f) * 2 ^ f + q * 2 ^ f) with (X + r + (2 ^ (l - 1 - f) + q) * 2 ^ f) by ring.
  rewrite Z.mod_add by lia.
  set (d := 2 ^ f) in *. set (s := X + r).
  pose proof (Z.div_mod s d ltac:(lia)) as H1.
  pose proof (Z.mod_pos_bound s d Hd) as H2.
  replace (s - s mod d) with ((s / d) * d) by lia.
  rewrite Z.div_mul by lia. reflexivity.
Qed.

Lemma div_unique_pos : forall a d q s, 0 < d -> a = d * q + s -> 0 <= s < d -> a / d = q.
Proof. intros. symmetry. apply (Z.div_unique_pos a d q s); lia. Qed.

Lemma trunc_r_floor_or_ceil : forall f r X, 0 <= f -> 0 <= r < 2 ^ f ->
  trunc_r f r X = floor_div f X \/ trunc_r f r X = ceil_div f X.
Proof.
  intros f r X Hf Hr. unfold trunc_r, floor_div, ceil_div.
  pose proof (pow2_pos f Hf) as Hd. set (d := 2 ^ f) in *.
  pose proof (Z.div_mod X d ltac:(lia)) as H1.
  pose proof (Z.mod_pos_bound X d Hd) as H2.
  set (q := X / d) in *. set (s := X mod d) in *.
  destruct (Z_lt_dec (s + r) d) as [Hlt | Hge].
  - left. apply (div_unique_pos (X + r) d q (s + r)); lia.
  - right.
    assert (Hs : 0 < s) by lia.
    rewrite (div_unique_pos (X + r) d (q + 1) (s + r - d)) by lia.
    rewrite (div_unique_pos (- X) d (- q - 1) (d - s)) by lia. lia.
Qed.

Lemma trunc_r_is_truncb : forall f r X, 0 <= f -> 0 <= r < 2 ^ f ->
  exists b, trunc_r f r X = truncb f b X.
Proof.
  intros f r X Hf Hr. destruct (trunc_r_floor_or_ceil f r X Hf Hr) as [H | H].
  - exists false. exact H.
  - exists true. exact H.
Qed.

(** both choices are reachable: r = 0 gives the floor, r = 2^f - 1 the ceiling *)
Lemma trunc_r_floor : forall f X, trunc_r f 0 X = floor_div f X.
Proof. intros. unfold trunc_r, floor_div. f_equal. lia. Qed.

Lemma trunc_r_ceil : forall f X, 0 <= f -> trunc_r f (2 ^ f - 1) X = ceil_div f X.
Proof.
  intros f X Hf. unfold trunc_r, ceil_div.
  pose proof (pow2_pos f Hf) as Hd. set (d := 2 ^ f) in *.
  pose proof (Z.div_mod X d ltac:(lia)) as H1.
  pose proof (Z.mod_pos_bound X d Hd) as H2.
  set (q := X / d) in *. set (s := X mod d) in *.
  destruct (Z.eq_dec s 0) as [Hz | Hnz].
  - rewrite (div_unique_pos (X + (d - 1)) d q (d - 1)) by lia.
    rewrite (div_unique_pos (- X) d (- q) 0) by lia. lia.
  - rewrite (div_unique_pos (X + (d - 1)) d (q + 1) (s - 1)) by lia.
    rewrite (div_unique_pos (- X) d (- q - 1) (d - s)) by lia. lia.
Qed.

(** the error of either choice is strictly below one unit of the result scale *)
Lemma truncb_err : forall f b X, 0 <= f -> Z.abs (truncb f b X * 2 ^ f - X) < 2 ^ f.
Proof.
  intros f b X Hf. pose proof (pow2_pos f Hf) as Hd. unfold truncb, ceil_div, floor_div.
  set (d := 2 ^ f) in *.
  destruct b.
  - pose proof (Z.div_mod (- X) d ltac:(lia)) as H1.
    pose proof (Z.mod_pos_bound (- X) d Hd) as H2. lia.
  - pose proof (Z.div_mod X d ltac:(lia)) as H1.
    pose proof (Z.mod_pos_bound X d Hd) as H2. lia.
Qed.

Lemma truncb_exact : forall f b X, 0 <= f -> (2 ^ f | X) -> truncb f b X = X / 2 ^ f.
Proof.
  intros f b X Hf [k Hk]. pose proof (pow2_pos f Hf) as Hd. unfold truncb, ceil_div, floor_div.
  subst X. destruct b; [|reflexivity].
  replace (- (k * 2 ^ f)) with ((- k) * 2 ^ f) by ring.
  rewrite !Z.div_mul by lia. lia.
Qed.

Lemma truncb_between : forall f b X, 0 <= f -> floor_div f X <= truncb f b X <= floor_div f X + 1.
Proof.
  intros f b X Hf. pose proof (pow2_pos f Hf) as Hd. unfold truncb, ceil_div, floor_div.
  set (d := 2 ^ f) in *. destruct b; [|lia].
  pose proof (Z.div_mod X d ltac:(lia)) as H1. pose proof (Z.mod_pos_bound X d Hd) as H2.
  pose proof (Z.div_mod (- X) d ltac:(lia)) as H3. pose proof (Z.mod_pos_bound (- X) d Hd) as H4.
  nia.
Qed.

(* ------------------------------------------------------------------------------------------ *)
(** * In-place right shift of a field element: multiplication by 2^-k modulo the odd prime p *)

Definition half (p u : Z) : Z := if Z.even u then u / 2 else (u + p) / 2.
Fixpoint halves (k : nat) (p u : Z) : Z :=
  match k with O => u | S k' => halves k' p (half p u) end.
Definition signed (p u : Z) : Z := if u >? p / 2 then u - p else u.
(** field element of the (signed) integer X, shifted right by k in the field, read back signed *)
Definition rsh (p k X : Z) : Z := signed p (halves (Z.to_nat k) p (X mod p)).

Lemma even_2k : forall q, Z.even (2 * q) = true.
Proof. intros. rewrite Z.even_mul. reflexivity. Qed.

Lemma half_exact : forall p Q, Z.odd p = true -> 2 * Z.abs (2 * Q) < p ->
  half p ((2 * Q) mod p) = Q mod p.
Proof.
  intros p Q Hp HQ. unfold half.
  destruct (Z_le_dec 0 Q) as [Hpos | Hneg].
  - rewrite (Z.mod_small (2 * Q)) by lia. rewrite even_2k.
    rewrite (Z.mod_small Q) by lia.
    replace (2 * Q) with (Q * 2) by ring. apply Z.div_mul. lia.
  - assert (E1 : (2 * Q) mod p = 2 * Q + p).
    { symmetry. apply (Z.mod_unique_pos (2 * Q) p (-1) (2 * Q + p)); lia. }
    assert (E2 : Q mod p = Q + p).
    { symmetry. apply (Z.mod_unique_pos Q p (-1) (Q + p)); lia. }
    rewrite E1, E2.
    assert (Ho : Z.even (2 * Q + p) = false).
    { rewrite Z.even_add, even_2k. rewrite <- Z.negb_odd, Hp. reflexivity. }
    rewrite Ho. replace (2 * Q + p + p) with ((Q + p) * 2) by ring. apply Z.div_mul. lia.
Qed.

Lemma halves_S : forall k p u, halves (S k) p u = halves k p (half p u).
Proof. reflexivity. Qed.

Lemma halves_exact : forall k p Q, Z.odd p = true -> 2 * Z.abs (2 ^ Z.of_nat k * Q) < p ->
  halves k p ((2 ^ Z.of_nat k * Q) mod p) = Q mod p.
Proof.
  induction k as [|k IH]; intros p Q Hp HQ.
  - replace (2 ^ Z.of_nat 0 * Q) with Q by (change (Z.of_nat 0) with 0; rewrite Z.pow_0_r; ring). reflexivity.
  - rewrite halves_S.
    assert (E : 2 ^ Z.of_nat (S k) * Q = 2 * (2 ^ Z.of_nat k * Q)).
    { rewrite Nat2Z.inj_succ, Z.pow_succ_r by lia. ring. }
    rewrite E in *. rewrite half_exact by assumption.
    apply IH; [assumption|]. lia.
Qed.

Lemma signed_mod_small : forall p X, 0 < p -> 2 * Z.abs X < p -> signed p (X mod p) = X.
Proof.
  intros p X Hp HX. unfold signed.
  destruct (Z_le_dec 0 X) as [Hpos | Hneg].
  - rewrite Z.mod_small by lia.
    destruct (X >? p / 2) eqn:E; [|reflexivity].
    apply Z.gtb_lt in E. pose proof (Z.div_mod p 2 ltac:(lia)). pose proof (Z.mod_pos_bound p 2 ltac:(lia)). lia.
  - assert (E1 : X mod p = X + p).
    { symmetry. apply (Z.mod_unique_pos X p (-1) (X + p)); lia. }
    rewrite E1.
    destruct (X + p >? p / 2) eqn:E; [lia|].
    rewrite Z.gtb_ltb in E. apply Z.ltb_ge in E.
    pose proof (Z.div_mod p 2 ltac:(lia)). pose proof (Z.mod_pos_bound p 2 ltac:(lia)). lia.
Qed.

(** C03, second sentence, core fact: when the shifted value really is a multiple of 2^k (which is
    what a sound integrality flag guarantees), the in-place field shift IS the exact division. *)
Lemma rsh_exact : forall p k X, Z.odd p = true -> 0 < p -> 0 <= k -> (2 ^ k | X) ->
  2 * Z.abs X < p -> rsh p k X = X / 2 ^ k.
Proof.
  intros p k X Hodd Hp Hk [Q HQ] HX. unfold rsh.
  pose proof (pow2_pos k Hk) as Hd.
  assert (Ek : 2 ^ k = 2 ^ Z.of_nat (Z.to_nat k)) by (rewrite Z2Nat.id by lia; reflexivity).
  subst X. rewrite Z.div_mul by lia.
  replace (Q * 2 ^ k) with (2 ^ Z.of_nat (Z.to_nat k) * Q) in * by (rewrite <- Ek; ring).
  rewrite halves_exact by assumption.
  apply signed_mod_small; [assumption|].
  rewrite <- Ek in HX. rewrite Z.abs_mul in HX. rewrite (Z.abs_eq (2 ^ k)) in HX by lia. nia.
Qed.

(* ------------------------------------------------------------------------------------------ *)
(** * Values with flags; the scalar operations as coded *)

Record fx := mkfx { val : Z; flg : bool }.
Definition sound (f : Z) (a : fx) : Prop := flg a = true -> (2 ^ f | val a).
Definition inrange (p X : Z) : Prop := 2 * Z.abs X < p.

Definition fneg (a : fx) : fx := mkfx (- val a) (flg a).
Definition fadd (a b : fx) : fx := mkfx (val a + val b) (flg a && flg b).
Definition fsub (a b : fx) : fx := mkfx (val a - val b) (flg a && flg b).
Definition flt (a b : fx) : bool := val a <? val b.
Definition feq (a b : fx) : bool := val a =? val b.
Definition flshift (f : Z) (a : fx) (b : Z) : fx := mkfx (val a * 2 ^ b) (flg a || (b >=? f)).

(** second operand of runtime.mul: secure number, public int, or public float b given by
    B = round(b * 2^f) (computed by Python's float arithmetic outside the model) *)
Inductive arg := Sec (c : fx) | PInt (n : Z) | PFloat (B : Z).

(** number of trailing zero bits of B, capped at f (0 for B = 0):
    max(0, min(f, (B & -B).bit_length() - 1)) *)
Fixpoint tzc (fuel : nat) (B : Z) : Z :=
  match fuel with
  | O => 0
  | S n => if B =? 0 then 0 else if Z.even B then 1 + tzc n (B / 2) else 0
  end.

Definition mul_z (f : Z) (b : arg) : Z :=
  match b with Sec _ => 0 | PInt _ => f | PFloat B => tzc (Z.to_nat f) B end.

(** runtime.mul, f > 0:
      c = a * b; if (a_int or b_int) and z != f: c >>= f - z (in place);
      [reshare]; if not (a_int or b_int) and z != f: c = trunc(c, f - z)
      flag: a_int and (b_int or z == f) *)
Definition mul (p f : Z) (bit : bool) (a : fx) (b : arg) : fx :=
  let a_int := flg a in
  let b_int := match b with Sec c => flg c | _ => false end in
  let z := mul_z f b in
  let bv := match b with Sec c => val c | PInt n => n | PFloat B => B / 2 ^ z end in
  let c0 := val a * bv in
  let c1 := if (a_int || b_int) && negb (z =? f) then rsh p (f - z) c0 else c0 in
  let c2 := if negb (a_int || b_int) && negb (z =? f) then truncb (f - z) bit c1 else c1 in
  mkfx c2 (a_int && (b_int || (z =? f))).

(** runtime.pow for b >= 1 (square-and-multiply, low to high; `c = 1` is the public int 1, so the
    first `c * d` is an exact multiplication by a public integer).  One tape bit per mul. *)
Definition take_bit (t : list bool) : bool * list bool :=
  match t with [] => (false, []) | b :: t' => (b, t') end.

Fixpoint pow_loop (p f : Z) (bits : list bool) (c : option fx) (d : fx) (t : list bool) : fx * list bool :=
  match bits with
  | [] => (* c = c * d *)
      match c with
      | None => (mul p f false d (PInt 1), t)
      | Some c' => let (b1, t1) := take_bit t in (mul p f b1 c' (Sec d), t1)
      end
  | bi :: rest =>
      let '(c1, t1) :=
        if bi : bool then
          match c with
          | None => (Some (mul p f false d (PInt 1)), t)
          | Some c' => let (b1, t1) := take_bit t in (Some (mul p f b1 c' (Sec d)), t1)
          end
        else (c, t) in
      let (b2, t2) := take_bit t1 in
      pow_loop p f rest c1 (mul p f b2 d (Sec d)) t2
  end.

(** low-to-high bits of n without its top bit: [(n >> i) & 1 for i in range(n.bit_length() - 1)] *)
Fixpoint low_bits (n : positive) : list bool :=
  match n with xH => [] | xO n' => false :: low_bits n' | xI n' => true :: low_bits n' end.

Definition fpow (p f : Z) (a : fx) (n : positive) (t : list bool) : fx :=
  fst (pow_loop p f (low_bits n) None a t).

(** all results of fpow over all tapes (deduplicated), for the correspondence check *)
Fixpoint all_tapes (k : nat) : list (list bool) :=
  match k with O => [[]] | S k' => map (cons false) (all_tapes k') ++ map (cons true) (all_tapes k') end.
Definition zb_eq_dec : forall x y : Z * bool, {x = y} + {x <> y}.
Proof. decide equality; [apply bool_dec | apply Z.eq_dec]. Defined.
Definition fpow_all (p f : Z) (a : fx) (n : positive) : list (Z * bool) :=
  nodup zb_eq_dec
    (map (fun t => let r := fpow p f a n t in (val r, flg r)) (all_tapes (2 * List.length (low_bits n) + 1))).

(** list operations *)
Definition fsum (xs : list fx) : fx :=
  mkfx (fold_right (fun a s => val a + s) 0 xs) (forallb flg xs).
Fixpoint dot (xs ys : list fx) : Z :=
  match xs, ys with a :: xs', b :: ys' => val a * val b + dot xs' ys' | _, _ => 0 end.
Definition in_prod (p f : Z) (bit : bool) (xs ys : list fx) : fx :=
  let xi := forallb flg xs in let yi := forallb flg ys in
  let s := dot xs ys in
  mkfx (if xi || yi then rsh p f s else truncb f bit s) (xi && yi).

(* ------------------------------------------------------------------------------------------ *)
(** * Exactness of + - neg and comparisons *)

Lemma fadd_exact : forall a b, val (fadd a b) = val a + val b. Proof. reflexivity. Qed.
Lemma fsub_exact : forall a b, val (fsub a b) = val a - val b. Proof. reflexivity. Qed.
Lemma fneg_exact : forall a, val (fneg a) = - val a. Proof. reflexivity. Qed.
Lemma flt_exact : forall a b, flt a b = true <-> val a < val b.
Proof. intros. unfold flt. apply Z.ltb_lt. Qed.
Lemma feq_exact : forall a b, feq a b = true <-> val a = val b.
Proof. intros. unfold feq. apply Z.eqb_eq. Qed.

(* ------------------------------------------------------------------------------------------ *)
(** * Multiplication *)

Definition arg_val (f : Z) (b : arg) : Z :=
  match b with Sec c => val c | PInt n => n | PFloat B => B / 2 ^ mul_z f b end.
Definition arg_flag (b : arg) : bool := match b with Sec c => flg c | _ => false end.
Definition arg_sound (f : Z) (b : arg) : Prop := match b with Sec c => sound f c | _ => True end.

Lemma tzc_spec : forall fuel B, 0 <= tzc fuel B <= Z.of_nat fuel /\ (2 ^ tzc fuel B | B).
Proof.
  induction fuel as [|n IH]; intros B.
  - simpl. split; [lia|]. exists B. lia.
  - cbn [tzc]. destruct (B =? 0) eqn:E0.
    + split; [lia|]. exists B. lia.
    + destruct (Z.even B) eqn:Ev.
      * destruct (IH (B / 2)) as [[H1 H2] [k Hk]].
        remember (tzc n (B / 2)) as t eqn:Et. clear Et.
        split; [lia|].
        exists k. rewrite Z.pow_add_r by lia.
        apply Zeven_bool_iff in Ev. apply Zeven_div2 in Ev. rewrite Zdiv2_div in Ev.
        rewrite Z.pow_1_r. lia.
      * split; [lia|]. exists B. lia.
Qed.

Lemma mul_z_range : forall f b, 0 <= f -> 0 <= mul_z f b <= f.
Proof.
  intros f b Hf. destruct b; simpl; try lia.
  pose proof (tzc_spec (Z.to_nat f) B) as [H _]. rewrite Z2Nat.id in H by lia. exact H.
Qed.

Lemma divide_mul_pow : forall f k a b, 0 <= k <= f -> (2 ^ f | a) \/ (2 ^ f | b) -> (2 ^ k | a * b).
Proof.
  intros f k a b Hk H.
  assert (E : 2 ^ f = 2 ^ (f - k) * 2 ^ k) by (rewrite <- Z.pow_add_r by lia; f_equal; lia).
  destruct H as [[q Hq] | [q Hq]]; subst; rewrite E.
  - exists (q * 2 ^ (f - k) * b). ring.
  - exists (a * q * 2 ^ (f - k)). ring.
Qed.

(** value of runtime.mul when a truncation is skipped: exact, no rounding at all
    (C03, second sentence: with sound marks, skipping the truncation does not change the result) *)
Theorem skip_trunc_safe : forall p f bit a b,
  Z.odd p = true -> 0 < p -> 0 < f -> sound f a -> arg_sound f b ->
  inrange p (val a * arg_val f b) -> (flg a || arg_flag b) = true ->
  val (mul p f bit a b) * 2 ^ (f - mul_z f b) = val a * arg_val f b.
Proof.
  intros p f bit a b Hodd Hp Hf Ha Hb Hr Hfl.
  pose proof (mul_z_range f b ltac:(lia)) as Hz.
  unfold mul. fold (arg_flag b). fold (arg_val f b). cbn [val].
  rewrite Hfl. cbn [negb andb].
  destruct (mul_z f b =? f) eqn:Ez; cbn [negb].
  - apply Z.eqb_eq in Ez. rewrite Ez, Z.sub_diag, Z.pow_0_r. lia.
  - assert (Hdiv : (2 ^ (f - mul_z f b) | val a * arg_val f b)).
    { apply (divide_mul_pow f); [lia|].
      apply orb_true_iff in Hfl. destruct Hfl as [H | H].
      - left. apply Ha. exact H.
      - right. destruct b; simpl in *; try discriminate. apply Hb. exact H. }
    rewrite rsh_exact by (try assumption; lia).
    destruct Hdiv as [q Hq]. rewrite Hq.
    rewrite Z.div_mul by (pose proof (pow2_pos (f - mul_z f b)); lia). reflexivity.
Qed.

(** general error statement for all three kinds of second operand, at the scale of the raw product *)
Lemma mul_err_raw : forall p f bit a b,
  Z.odd p = true -> 0 < p -> 0 < f -> sound f a -> arg_sound f b ->
  inrange p (val a * arg_val f b) ->
  Z.abs (val (mul p f bit a b) * 2 ^ (f - mul_z f b) - val a * arg_val f b) < 2 ^ (f - mul_z f b).
Proof.
  intros p f bit a b Hodd Hp Hf Ha Hb Hr.
  pose proof (mul_z_range f b ltac:(lia)) as Hz.
  pose proof (pow2_pos (f - mul_z f b) ltac:(lia)) as Hd.
  destruct (flg a || arg_flag b) eqn:Hfl.
  - rewrite skip_trunc_safe by assumption. rewrite Z.sub_diag. simpl. lia.
  - unfold mul. fold (arg_flag b). fold (arg_val f b). cbn [val]. rewrite Hfl. cbn [negb andb].
    destruct (mul_z f b =? f) eqn:Ez; cbn [negb].
    + apply Z.eqb_eq in Ez. rewrite Ez, Z.sub_diag, Z.pow_0_r. rewrite Z.mul_1_r, Z.sub_diag. simpl. lia.
    + apply truncb_err. lia.
Qed.

(** secure x secure: within one unit of the exact product, for every rounding choice *)
Theorem mul_ss_bound : forall p f bit a c,
  Z.odd p = true -> 0 < p -> 0 < f -> sound f a -> sound f c -> inrange p (val a * val c) ->
  Z.abs (val (mul p f bit a (Sec c)) * 2 ^ f - val a * val c) < 2 ^ f.
Proof.
  intros p f bit a c Hodd Hp Hf Ha Hc Hr.
  pose proof (mul_err_raw p f bit a (Sec c) Hodd Hp Hf Ha Hc Hr) as H.
  cbn [mul_z arg_val] in H. rewrite Z.sub_0_r in H. exact H.
Qed.

(** secure x public integer: exact *)
Theorem mul_int_exact : forall p f bit a n, val (mul p f bit a (PInt n)) = val a * n.
Proof.
  intros. unfold mul. cbn [mul_z]. rewrite Z.eqb_refl. cbn [negb andb orb].
  rewrite !andb_false_r. reflexivity.
Qed.

(** secure x public float b, B = round(b * 2^f): within one unit of x * (B / 2^f) *)
Theorem mul_float_round_bound : forall p f bit a B,
  Z.odd p = true -> 0 < p -> 0 < f -> sound f a ->
  inrange p (val a * arg_val f (PFloat B)) ->
  Z.abs (val (mul p f bit a (PFloat B)) * 2 ^ f - val a * B) < 2 ^ f.
Proof.
  intros p f bit a B Hodd Hp Hf Ha Hr.
  pose proof (mul_err_raw p f bit a (PFloat B) Hodd Hp Hf Ha I Hr) as H.
  pose proof (mul_z_range f (PFloat B) ltac:(lia)) as Hz.
  set (z := mul_z f (PFloat B)) in *.
  assert (Hdz : (2 ^ z | B)).
  { unfold z. cbn [mul_z]. apply tzc_spec. }
  destruct Hdz as [q Hq].
  pose proof (pow2_pos z ltac:(lia)) as Hpz.
  assert (Eb : arg_val f (PFloat B) = q).
  { unfold arg_val. fold z. rewrite Hq. apply Z.div_mul. lia. }
  rewrite Eb in H.
  assert (E : 2 ^ f = 2 ^ (f - z) * 2 ^ z) by (rewrite <- Z.pow_add_r by lia; f_equal; lia).
  set (r := val (mul p f bit a (PFloat B))) in *.
  set (d := 2 ^ (f - z)) in *. set (e := 2 ^ z) in *.
  rewrite E. replace (val a * B) with (val a * (q * e)) by (rewrite <- Hq; reflexivity).
  replace (r * (d * e) - val a * (q * e)) with ((r * d - val a * q) * e) by ring.
  rewrite Z.abs_mul, (Z.abs_eq e) by lia. nia.
Qed.

(** ... hence within 1 + |x|/2 <= 2(1+|x|) units of x*b for the rational b = bn/bd whose rounding B is
    (|b*2^f - B| <= 1/2); everything multiplied by 2^(f+1) * bd *)
Theorem mul_float_bound : forall p f bit a B bn bd,
  Z.odd p = true -> 0 < p -> 0 < f -> sound f a ->
  inrange p (val a * arg_val f (PFloat B)) ->
  0 < bd -> 2 * Z.abs (bn * 2 ^ f - B * bd) <= bd ->
  let r := val (mul p f bit a (PFloat B)) in
  Z.abs (2 ^ f * 2 * bd * r - 2 ^ f * 2 * (val a * bn)) <= 2 ^ f * 2 * bd + Z.abs (val a) * bd
  /\ 2 ^ f * 2 * bd + Z.abs (val a) * bd <= 2 * (2 ^ f * 2 * bd) + 2 * (2 * Z.abs (val a) * bd).
Proof.
  intros p f bit a B bn bd Hodd Hp Hf Ha Hr Hbd Hrnd r.
  pose proof (mul_float_round_bound p f bit a B Hodd Hp Hf Ha Hr) as H. fold r in H.
  pose proof (pow2_pos f ltac:(lia)) as Hd. set (D := 2 ^ f) in *.
  split; [|nia].
  replace (D * 2 * bd * r - D * 2 * (val a * bn))
    with (2 * bd * (r * D - val a * B) - 2 * val a * (bn * D - B * bd)) by ring.
  set (E1 := r * D - val a * B) in *. set (E2 := bn * D - B * bd) in *.
  assert (H1 : Z.abs (2 * bd * E1) <= 2 * bd * D).
  { rewrite Z.abs_mul, (Z.abs_eq (2 * bd)) by lia. nia. }
  assert (H2 : Z.abs (2 * val a * E2) <= Z.abs (val a) * bd).
  { replace (2 * val a * E2) with (val a * (2 * E2)) by ring.
    rewrite Z.abs_mul. rewrite (Z.abs_mul 2 E2). simpl (Z.abs 2).
    apply Z.mul_le_mono_nonneg_l; [apply Z.abs_nonneg | exact Hrnd]. }
  pose proof (Z.abs_triangle (2 * bd * E1) (- (2 * val a * E2))) as T.
  rewrite Z.abs_opp in T.
  replace (2 * bd * E1 - 2 * val a * E2) with (2 * bd * E1 + - (2 * val a * E2)) by ring. lia.
Qed.

(* ------------------------------------------------------------------------------------------ *)
(** * Flag soundness of the scalar operations: result marked integral -> 2^f | result *)

Lemma sound_fneg : forall f a, sound f a -> sound f (fneg a).
Proof. intros f a H Hf. simpl in *. apply Z.divide_opp_r. auto. Qed.

Lemma sound_fadd : forall f a b, sound f a -> sound f b -> sound f (fadd a b).
Proof.
  intros f a b Ha Hb Hf. simpl in *. apply andb_true_iff in Hf. destruct Hf.
  apply Z.divide_add_r; auto.
Qed.

Lemma sound_fsub : forall f a b, sound f a -> sound f b -> sound f (fsub a b).
Proof.
  intros f a b Ha Hb Hf. simpl in *. apply andb_true_iff in Hf. destruct Hf.
  apply Z.divide_sub_r; auto.
Qed.

Lemma sound_flshift : forall f a b, 0 <= f -> 0 <= b -> sound f a -> sound f (flshift f a b).
Proof.
  intros f a b Hf Hb Ha Hfl. simpl in *. apply orb_true_iff in Hfl. destruct Hfl as [H | H].
  - apply Z.divide_mul_l. auto.
  - apply Z.geb_le in H. apply Z.divide_mul_r.
    exists (2 ^ (b - f)). rewrite <- Z.pow_add_r by lia. f_equal. lia.
Qed.

Theorem sound_mul : forall p f bit a b,
  Z.odd p = true -> 0 < p -> 0 < f -> sound f a -> arg_sound f b ->
  inrange p (val a * arg_val f b) -> sound f (mul p f bit a b).
Proof.
  intros p f bit a b Hodd Hp Hf Ha Hb Hr Hfl.
  assert (Hfl' : flg a && (arg_flag b || (mul_z f b =? f)) = true) by exact Hfl.
  apply andb_true_iff in Hfl'. destruct Hfl' as [Hfa Hfb].
  pose proof (mul_z_range f b ltac:(lia)) as Hz.
  pose proof (skip_trunc_safe p f bit a b Hodd Hp Hf Ha Hb Hr ltac:(rewrite Hfa; reflexivity)) as He.
  destruct (Ha Hfa) as [ka Hka].
  apply orb_true_iff in Hfb. destruct Hfb as [Hb1 | Hz1].
  - destruct b as [c | n | B]; simpl in Hb1; try discriminate.
    destruct (Hb Hb1) as [kc Hkc].
    cbn [mul_z arg_val] in He. rewrite Z.sub_0_r in He.
    exists (ka * kc). rewrite Hka, Hkc in He.
    pose proof (pow2_pos f ltac:(lia)).
    apply (Z.mul_cancel_r _ _ (2 ^ f)); [lia|]. rewrite He. ring.
  - apply Z.eqb_eq in Hz1. rewrite Hz1, Z.sub_diag, Z.pow_0_r, Z.mul_1_r in He.
    rewrite He, Hka. exists (ka * arg_val f b). ring.
Qed.

Lemma dvd_sum : forall f xs, forallb flg xs = true -> Forall (sound f) xs ->
  (2 ^ f | fold_right (fun a s => val a + s) 0 xs).
Proof.
  intros f xs. induction xs as [|a xs IH]; intros Hfl Hs; simpl.
  - apply Z.divide_0_r.
  - simpl in Hfl. apply andb_true_iff in Hfl. destruct Hfl as [H1 H2].
    inversion Hs; subst. apply Z.divide_add_r; auto.
Qed.

Lemma sound_fsum : forall f xs, Forall (sound f) xs -> sound f (fsum xs).
Proof. intros f xs Hs Hfl. simpl in *. apply dvd_sum; assumption. Qed.

Lemma dvd_dot : forall f k xs ys, 0 <= k <= f ->
  (forallb flg xs = true /\ Forall (sound f) xs) \/ (forallb flg ys = true /\ Forall (sound f) ys) ->
  (2 ^ k | dot xs ys).
Proof.
  intros f k xs. induction xs as [|a xs IH]; intros ys Hk H; simpl.
  - apply Z.divide_0_r.
  - destruct ys as [|b ys]; [apply Z.divide_0_r|].
    apply Z.divide_add_r.
    + apply (divide_mul_pow f); [lia|].
      destruct H as [[H1 H2] | [H1 H2]]; simpl in H1; apply andb_true_iff in H1; destruct H1 as [H1 _];
        inversion H2; subst; auto.
    + apply IH; [lia|].
      destruct H as [[H1 H2] | [H1 H2]]; simpl in H1; apply andb_true_iff in H1; destruct H1 as [_ H1];
        inversion H2; subst; auto.
Qed.

Lemma dvd_dot2 : forall f xs ys,
  0 <= f -> forallb flg xs = true -> Forall (sound f) xs -> forallb flg ys = true -> Forall (sound f) ys ->
  (2 ^ f * 2 ^ f | dot xs ys).
Proof.
  intros f xs. induction xs as [|a xs IH]; intros ys Hf H1 H2 H3 H4; simpl.
  - apply Z.divide_0_r.
  - destruct ys as [|b ys]; [apply Z.divide_0_r|].
    simpl in H1, H3. apply andb_true_iff in H1. apply andb_true_iff in H3.
    destruct H1 as [Ha H1], H3 as [Hb H3]. inversion H2 as [|? ? H5 H6]; subst. inversion H4 as [|? ? H7 H8]; subst.
    apply Z.divide_add_r.
    + destruct (H5 Ha) as [ka Hka]. destruct (H7 Hb) as [kb Hkb]. exists (ka * kb). rewrite Hka, Hkb. ring.
    + apply IH; auto.
Qed.

Theorem sound_in_prod : forall p f bit xs ys,
  Z.odd p = true -> 0 < p -> 0 < f -> Forall (sound f) xs -> Forall (sound f) ys ->
  inrange p (dot xs ys) -> sound f (in_prod p f bit xs ys).
Proof.
  intros p f bit xs ys Hodd Hp Hf Hx Hy Hr Hfl. simpl in Hfl.
  apply andb_true_iff in Hfl. destruct Hfl as [H1 H2].
  unfold in_prod. cbn [val]. rewrite H1. cbn [orb].
  destruct (dvd_dot2 f xs ys ltac:(lia) H1 Hx H2 Hy) as [k Hk].
  pose proof (pow2_pos f ltac:(lia)) as Hd.
  rewrite rsh_exact; try assumption; try lia.
  - rewrite Hk. replace (k * (2 ^ f * 2 ^ f)) with (k * 2 ^ f * 2 ^ f) by ring.
    rewrite Z.div_mul by lia. exists k. ring.
  - rewrite Hk. exists (k * 2 ^ f). ring.
Qed.

(** in_prod: skipping the truncation is exact as soon as one operand list is all-integral *)
Theorem in_prod_skip_safe : forall p f bit xs ys,
  Z.odd p = true -> 0 < p -> 0 < f -> Forall (sound f) xs -> Forall (sound f) ys ->
  inrange p (dot xs ys) -> (forallb flg xs || forallb flg ys) = true ->
  val (in_prod p f bit xs ys) * 2 ^ f = dot xs ys.
Proof.
  intros p f bit xs ys Hodd Hp Hf Hx Hy Hr Hfl.
  unfold in_prod. cbn [val]. rewrite Hfl.
  assert (Hd : (2 ^ f | dot xs ys)).
  { apply (dvd_dot f); [lia|]. apply orb_true_iff in Hfl. tauto. }
  rewrite rsh_exact; try assumption; try lia.
  destruct Hd as [k Hk]. rewrite Hk. rewrite Z.div_mul; [reflexivity|].
  pose proof (pow2_pos f); lia.
Qed.

(* ------------------------------------------------------------------------------------------ *)
(** * The flag-rule language of the regenerated table (coq/gen/FlagRules.v) *)

Inductive fexpr :=
| Const (b : bool)
| Elem (a : string)            (* a.integral : flag of a scalar (or whole-array) operand *)
| Idx (x : string) (k : Z)     (* x[k].integral : flag of ONE element of list operand x *)
| AllOf (x : string)           (* all(a.integral for a in x) *)
| Pub (t : string)             (* public condition not reading any flag *)
| Ctor (t : string)            (* flag inferred by the constructor from a public value *)
| Other (t : string)           (* not recognised by the translator: fail-closed *)
| Not (e : fexpr)
| And (a b : fexpr) | Or (a b : fexpr)
| Alt (a b : fexpr).           (* either rule, selected by a public branch *)
Definition First (x : string) : fexpr := Idx x 0.

Inductive kind := KReturn | KCtor | KAssign | KGuard.
(** s_operands: the secret operands of the function whose shares flow into the result (the
    parameters passed to `gather`), except those whose integrality is enforced by a guard in every
    caller;  s_late: operands that are modified (mixing in another parameter) AFTER the flag
    expression was evaluated and before their shares are gathered. *)
Record site := mkSite { s_key : string; s_kind : kind; s_dims : list (option nat); s_rule : fexpr;
                        s_operands : list string; s_late : list string }.

Fixpoint no_other (e : fexpr) : bool :=
  match e with
  | Other _ => false
  | Not a => no_other a
  | And a b | Or a b | Alt a b => no_other a && no_other b
  | _ => true
  end.

Fixpoint idx_names (e : fexpr) : list string :=
  match e with
  | Idx x _ => [x]
  | Not a => idx_names a
  | And a b | Or a b | Alt a b => idx_names a ++ idx_names b
  | _ => []
  end.
Fixpoint has_allof (x : string) (e : fexpr) : bool :=
  match e with
  | AllOf y => String.eqb x y
  | Not a => has_allof x a
  | And a b | Or a b | Alt a b => has_allof x a || has_allof x b
  | _ => false
  end.
Fixpoint idx_ks (x : string) (e : fexpr) : list Z :=
  match e with
  | Idx y k => if String.eqb x y then [k] else []
  | Not a => idx_ks x a
  | And a b | Or a b | Alt a b => idx_ks x a ++ idx_ks x b
  | _ => []
  end.
(** literal length of the result's innermost dimension, when the source gives one *)
Definition lit_len (dims : list (option nat)) : option nat := last dims None.
(** list operand x is covered: all its elements are consulted (AllOf), or the result has a literal
    length n and every index 0..n-1 of x is consulted individually *)
Definition covered (dims : list (option nat)) (e : fexpr) (x : string) : bool :=
  has_allof x e ||
  match lit_len dims with
  | Some n => (0 <? Z.of_nat n) &&
              forallb (fun i => existsb (fun k => (k mod Z.of_nat n) =? Z.of_nat i) (idx_ks x e)) (seq 0 n)
  | None => false
  end.
Definition covers_all_elements (s : site) : bool :=
  forallb (covered (s_dims s) (s_rule s)) (idx_names (s_rule s)).
Definition is_setting_site (s : site) : bool :=
  match s_kind s with KGuard => false | _ => true end.
(** does the rule read any flag at all? (rules that are public/type-level conditions only do not) *)
Fixpoint reads_flags (e : fexpr) : bool :=
  match e with
  | Elem _ | Idx _ _ | AllOf _ | Other _ => true
  | Not a => reads_flags a
  | And a b | Or a b | Alt a b => reads_flags a || reads_flags b
  | _ => false
  end.
Fixpoint mentions (x : string) (e : fexpr) : bool :=
  match e with
  | Elem y | AllOf y => String.eqb x y
  | Idx y _ => String.eqb x y
  | Not a => mentions x a
  | And a b | Or a b | Alt a b => mentions x a || mentions x b
  | _ => false
  end.
(** a rule that derives the mark from operand flags consults EVERY secret operand of the result *)
Definition covers_operands (s : site) : bool :=
  negb (reads_flags (s_rule s)) || forallb (fun x => mentions x (s_rule s)) (s_operands s).
(** the flag is computed from the operands as they are when their shares are taken *)
Definition no_late_modification (s : site) : bool :=
  match s_late s with [] => true | _ => false end.
Definition site_ok (s : site) : bool :=
  covers_all_elements s && covers_operands s && no_late_modification s.
Definition failing_by (chk : site -> bool) (rules : list site) : list string :=
  map s_key (filter (fun s => negb (chk s)) (filter is_setting_site rules)).
Definition failing_sites (rules : list site) : list string := failing_by site_ok rules.
Definition other_sites (rules : list site) : list string :=
  map s_key (filter (fun s => negb (no_other (s_rule s))) rules).

(** evaluation of a rule *)
Record env := mkEnv { e_elem : string -> bool; e_list : string -> list bool; e_pub : string -> bool }.
Definition nth_flag (l : list bool) (k : Z) : bool :=
  if k <? 0 then nth (Z.to_nat (Z.of_nat (List.length l) + k)) l false else nth (Z.to_nat k) l false.
Fixpoint eval (E : env) (e : fexpr) : bool :=
  match e with
  | Const b => b
  | Elem a => e_elem E a
  | Idx x k => nth_flag (e_list E x) k
  | AllOf x => forallb (fun b => b) (e_list E x)
  | Pub t | Ctor t => e_pub E t
  | Other _ => true
  | Not a => negb (eval E a)
  | And a b => eval E a && eval E b
  | Or a b | Alt a b => eval E a || eval E b
  end.

(** the scalar rules as they stand in the source (checked against the regenerated table by
    gen/FlagOblig.v: `modelled_*`) *)
Local Open Scope string_scope.
Definition rule_neg : fexpr := Elem "a".
Definition rule_add : fexpr := And (Elem "a") (Elem "b").
Definition rule_mul : fexpr := And (Elem "a") (Or (And (Pub "shb") (Elem "b")) (Pub "z == f")).
Definition rule_lshift : fexpr := Or (Elem "a") (Pub "b >= f").
Definition rule_sum : fexpr := AllOf "x".
(** np_left_shift: array a shifted by an ARRAY b of public amounts: all of them must be >= f *)
Definition rule_np_lshift : fexpr := Or (Elem "a") (Pub "np.all(b >= f)").
Definition rule_in_prod : fexpr := And (AllOf "x") (AllOf "y").

Definition env1 (a : bool) : env :=
  mkEnv (fun _ => a) (fun _ => []) (fun _ => false).
Definition env2 (a b : bool) (pub : string -> bool) : env :=
  mkEnv (fun s => if String.eqb s "a" then a else b) (fun _ => []) pub.
Definition envl (xs ys : list bool) : env :=
  mkEnv (fun _ => false) (fun s => if String.eqb s "x" then xs else ys) (fun _ => false).
Definition mul_pub (f : Z) (b : arg) (s : string) : bool :=
  if String.eqb s "shb" then match b with Sec _ => true | _ => false end else (mul_z f b =? f)%Z.
Local Close Scope string_scope.

(** the model's flags are the rules' values *)
Lemma flag_rule_neg : forall a, flg (fneg a) = eval (env1 (flg a)) rule_neg.
Proof. reflexivity. Qed.
Lemma flag_rule_add : forall a b, flg (fadd a b) = eval (env2 (flg a) (flg b) (fun _ => false)) rule_add.
Proof. reflexivity. Qed.
Lemma flag_rule_sub : forall a b, flg (fsub a b) = eval (env2 (flg a) (flg b) (fun _ => false)) rule_add.
Proof. reflexivity. Qed.
Lemma flag_rule_mul : forall p f bit a b,
  flg (mul p f bit a b) = eval (env2 (flg a) (arg_flag b) (mul_pub f b)) rule_mul.
Proof. intros. destruct b; reflexivity. Qed.
Lemma flag_rule_lshift : forall f a b,
  flg (flshift f a b) = eval (env2 (flg a) false (fun _ => b >=? f)) rule_lshift.
Proof. reflexivity. Qed.
Lemma forallb_map_id : forall (xs : list fx), forallb (fun b => b) (map flg xs) = forallb flg xs.
Proof. induction xs; simpl; congruence. Qed.
Lemma flag_rule_sum : forall xs, flg (fsum xs) = eval (envl (map flg xs) []) rule_sum.
Proof. intros. simpl. symmetry. apply forallb_map_id. Qed.
Lemma flag_rule_in_prod : forall p f bit xs ys,
  flg (in_prod p f bit xs ys) = eval (envl (map flg xs) (map flg ys)) rule_in_prod.
Proof. intros. simpl. rewrite !forallb_map_id. reflexivity. Qed.

(** flag_sound_op, per scalar operation: rule true /\ consulted operand flags sound -> 2^f | result *)
Theorem flag_sound_op :
  (forall f a, sound f a -> eval (env1 (flg a)) rule_neg = true -> (2 ^ f | val (fneg a))) /\
  (forall f a b, sound f a -> sound f b ->
     eval (env2 (flg a) (flg b) (fun _ => false)) rule_add = true ->
     (2 ^ f | val (fadd a b)) /\ (2 ^ f | val (fsub a b))) /\
  (forall p f bit a b, Z.odd p = true -> 0 < p -> 0 < f -> sound f a -> arg_sound f b ->
     inrange p (val a * arg_val f b) ->
     eval (env2 (flg a) (arg_flag b) (mul_pub f b)) rule_mul = true -> (2 ^ f | val (mul p f bit a b))) /\
  (forall f a b, 0 <= f -> 0 <= b -> sound f a ->
     eval (env2 (flg a) false (fun _ => b >=? f)) rule_lshift = true -> (2 ^ f | val (flshift f a b))) /\
  (forall f xs, Forall (sound f) xs -> eval (envl (map flg xs) []) rule_sum = true -> (2 ^ f | val (fsum xs))) /\
  (forall p f bit xs ys, Z.odd p = true -> 0 < p -> 0 < f -> Forall (sound f) xs -> Forall (sound f) ys ->
     inrange p (dot xs ys) ->
     eval (envl (map flg xs) (map flg ys)) rule_in_prod = true -> (2 ^ f | val (in_prod p f bit xs ys))).
Proof.
  repeat split.
  - intros f a Ha H. apply (sound_fneg f a Ha). exact H.
  - apply (sound_fadd f a b); assumption.
  - apply (sound_fsub f a b); assumption.
  - intros p f bit a b Hodd Hp Hf Ha Hb Hr H. rewrite <- (flag_rule_mul p f bit) in H.
    apply (sound_mul p f bit a b); assumption.
  - intros f a b Hf Hb Ha H. rewrite <- flag_rule_lshift in H. apply (sound_flshift f a b); assumption.
  - intros f xs Hs H. rewrite <- flag_rule_sum in H. apply (sound_fsum f xs Hs). exact H.
  - intros p f bit xs ys Hodd Hp Hf Hx Hy Hr H. rewrite <- (flag_rule_in_prod p f bit) in H.
    apply (sound_in_prod p f bit xs ys); assumption.
Qed.

(** elementwise left shift by public amounts that are ALL >= f yields whole numbers (the public
    alternative of [rule_np_lshift]; with SOME amount >= f it does not: [1] << [0] stays 1 unit) *)
Fixpoint shift_each (xs bs : list Z) : list Z :=
  match xs, bs with x :: xs', b :: bs' => x * 2 ^ b :: shift_each xs' bs' | _, _ => [] end.

Lemma sound_np_lshift : forall f xs bs, 0 <= f -> (forall b, In b bs -> f <= b) ->
  Forall (fun w => (2 ^ f | w)) (shift_each xs bs).
Proof.
  intros f xs. induction xs as [|x xs IH]; intros bs Hf Hb; simpl; [constructor|].
  destruct bs as [|b bs]; [constructor|].
  constructor.
  - apply Z.divide_mul_r. assert (f <= b) by (apply Hb; left; reflexivity).
    exists (2 ^ (b - f)). rewrite <- Z.pow_add_r by lia. f_equal. lia.
  - apply IH; [assumption|]. intros b' Hin. apply Hb. right. exact Hin.
Qed.

Lemma np_lshift_some_refuted : exists f xs bs, (exists b, In b bs /\ f <= b) /\
  ~ Forall (fun w => (2 ^ f | w)) (shift_each xs bs).
Proof.
  exists 16, [1; 1], [16; 0]. split.
  - exists 16. split; [left; reflexivity | lia].
  - intros H. inversion H as [|? ? _ H2]; subst. inversion H2 as [|? ? [k Hk] _]; subst.
    simpl in Hk. lia.
Qed.

(** Elementwise list operations (vector_add / vector_sub, whose rule in the source is
    [rule_in_prod] = all elements of both lists -- checked by gen/FlagOblig.v): sound ... *)
Fixpoint zip_with {A B C} (g : A -> B -> C) (xs : list A) (ys : list B) : list C :=
  match xs, ys with a :: xs', b :: ys' => g a b :: zip_with g xs' ys' | _, _ => [] end.

Theorem allof_rule_sound_elementwise : forall f (g : Z -> Z -> Z) xs ys,
  (forall u v, (2 ^ f | u) -> (2 ^ f | v) -> (2 ^ f | g u v)) ->
  Forall (sound f) xs -> Forall (sound f) ys ->
  eval (envl (map flg xs) (map flg ys)) rule_in_prod = true ->
  Forall (fun w => (2 ^ f | w)) (zip_with g (map val xs) (map val ys)).
Proof.
  intros f g xs ys Hg Hx Hy H. simpl in H. rewrite !forallb_map_id in H.
  apply andb_true_iff in H. destruct H as [H1 H2].
  revert ys Hy H2. induction xs as [|a xs IH]; intros ys Hy H2; simpl; [constructor|].
  destruct ys as [|b ys]; simpl; [constructor|].
  simpl in H1, H2. apply andb_true_iff in H1. apply andb_true_iff in H2.
  destruct H1 as [Ha H1], H2 as [Hb H2]. inversion Hx; subst. inversion Hy; subst.
  constructor; [apply Hg; auto|]. apply IH; auto.
Qed.

(** ... and an (abstract) rule consulting only the FIRST element is not: mixed list [2, 3*2^-16] on
    SecFxp(32,16).  This was the rule of vector_add, schur_prod, ... before repair 9bcd50d (DESIGN
    F-C03); it is still the rule of runtime._distribute (mpc.input).  The statement is about the
    rule shape, not about a particular call site: the sites are in the regenerated table. *)
Theorem first_rule_refuted : exists f xs,
  Forall (sound f) xs /\
  eval (envl (map flg xs) (map flg xs)) (And (First "x") (First "y")) = true /\
  ~ Forall (fun w => (2 ^ f | w)) (zip_with Z.add (map val xs) (map val xs)).
Proof.
  exists 16, [mkfx 131072 true; mkfx 3 false]. split; [|split].
  - repeat constructor.
    + intros _. exists 2. reflexivity.
    + intros H; discriminate H.
  - reflexivity.
  - intros H. inversion H as [|? ? _ H2]; subst. inversion H2 as [|? ? [k Hk] _]; subst.
    simpl in Hk. lia.
Qed.

(** and a false mark changes the product: 6*2^-16 marked integral, squared on SecFxp(32,16)
    (p = 1208925819614629174706111) is neither floor nor ceiling of 36 / 2^16 *)
Theorem false_mark_changes_product : exists p f a,
  ~ sound f a /\ flg a = true /\
  forall bit, val (mul p f bit a (Sec a)) <> floor_div f (val a * val a) /\
              val (mul p f bit a (Sec a)) <> ceil_div f (val a * val a).
Proof.
  exists 1208925819614629174706111, 16, (mkfx 6 true). split; [|split].
  - intros H. destruct (H eq_refl) as [k Hk]. simpl in Hk. lia.
  - reflexivity.
  - intros bit. destruct bit; vm_compute; split; discriminate.
Qed.
