(** Frame.v — model of mpyc.asyncoro.MessageExchanger's wire format and stream parser.

    Bytes are [Z] values (0..255 on the wire; the parser itself never needs the range).
    [encode] is what [MessageExchanger.send] writes: struct.pack('<qI{n}s', pc, n, payload).
    [step] is [MessageExchanger.data_received], line by line (see the comments at [step]).
    The opening handshake (client pid as 2 little-endian bytes followed by 16 bytes per PRSS key,
    runtime.py [_prss_keys_to_peer] / [_prss_keys_from_peer]) is the first phase of [step].

    Main results (all chunkings, all message lists):
      [decode_encode], [chunking_irrelevant], [prefix_parse], [truncated_not_delivered],
      [handshake_any_chunking], [handshake_any_chunking_noprss], [handshake_waits]. *)
From Coq Require Import ZArith List Lia Bool.
Import ListNotations.
Local Open Scope Z_scope.

(* ------------------------------------------------------------------------------------- *)
(** * Little-endian integers *)

Fixpoint le_bytes (n : nat) (v : Z) : list Z :=
  match n with O => [] | S k => v mod 256 :: le_bytes k (v / 256) end.

Fixpoint le_val (bs : list Z) : Z :=
  match bs with [] => 0 | b :: r => b + 256 * le_val r end.

(** '<q': 8-byte two's complement, little endian *)
Definition enc_q (pc : Z) : list Z := le_bytes 8 (pc mod 2 ^ 64).
Definition dec_q (bs : list Z) : Z := let u := le_val bs in if u <? 2 ^ 63 then u else u - 2 ^ 64.
(** '<I': 4-byte unsigned, little endian *)
Definition enc_I (n : Z) : list Z := le_bytes 4 n.

Definition len (d : list Z) : Z := Z.of_nat (length d).

(** [send]: struct.pack(f'<qI{payload_size}s', pc, payload_size, payload) *)
Definition encode (m : Z * list Z) : list Z :=
  enc_q (fst m) ++ enc_I (len (snd m)) ++ snd m.

(** messages [struct.pack] accepts *)
Definition wf_msg (m : Z * list Z) : Prop :=
  - 2 ^ 63 <= fst m < 2 ^ 63 /\ len (snd m) < 2 ^ 32.

Definition byte_ok (b : Z) : Prop := 0 <= b < 256.

(* ------------------------------------------------------------------------------------- *)
(** * The parser *)

Inductive event :=
| Handshake (pid : Z) (keys : list (list nat * list Z))  (* peer pid, [(subset, 16-byte key)] *)
| Deliver (pc : Z) (payload : list Z).

(** One iteration of the [while len(data) >= 12] loop body up to [del data[:len_packet]]:
      pc, payload_size = struct.unpack_from('<qI', data)
      len_packet = payload_size + 12
      if len(data) < len_packet: break
      payload = struct.unpack_from(f'{payload_size}s', data, 12)[0]
      del data[:len_packet]
    Result: None = loop exits (condition false or break), Some (pc, payload, remaining data). *)
Definition try_frame (d : list Z) : option (Z * list Z * list Z) :=
  if len d <? 12 then None
  else
    let pc := dec_q (firstn 8 d) in
    let payload_size := le_val (firstn 4 (skipn 8 d)) in
    let len_packet := payload_size + 12 in
    if len d <? len_packet then None
    else Some (pc, firstn (Z.to_nat payload_size) (skipn 12 d),
               skipn (Z.to_nat payload_size) (skipn 12 d)).

(** The while loop; each iteration removes at least 12 bytes, so [length d] iterations suffice
    ([loop_unfold] below shows the fuel is never the reason to stop). *)
Fixpoint loopf (fuel : nat) (d : list Z) : list Z * list event :=
  match fuel with
  | O => (d, [])
  | S f =>
      match try_frame d with
      | None => (d, [])
      | Some (pc, payload, r) =>
          let (r', ev) := loopf f r in (r', Deliver pc payload :: ev)
      end
  end.

Definition loop (d : list Z) : list Z * list event := loopf (length d) d.

(** [_prss_keys_from_peer(peer_pid, data)]: data[len_packet:len_packet+16] for the successive
    matching subsets. *)
Fixpoint slices (n : nat) (d : list Z) : list (list Z) :=
  match n with O => [] | S k => firstn 16 d :: slices k (skipn 16 d) end.

(** The handshake branch ([if self.peer_pid is None]).  [subs pid] = the subsets S (in
    itertools.combinations order) with S[0] = pid and own pid in S, i.e. what the loop in
    [_prss_keys_from_peer] selects; len_packet = 16 * their number.
      if len(data) < 2: return
      peer_pid = int.from_bytes(data[:2], 'little')
      if not no_prss:
          len_packet = rt._prss_keys_from_peer(peer_pid)
          if len(data) < len_packet + 2: return
      self.peer_pid = peer_pid;  del data[:2]
      if not no_prss:
          rt._prss_keys_from_peer(peer_pid, data);  del data[:len_packet]
    None = return (wait for more bytes). *)
Definition try_hs (no_prss : bool) (subs : Z -> list (list nat)) (d : list Z)
  : option (Z * list (list nat * list Z) * list Z) :=
  if len d <? 2 then None
  else
    let peer_pid := le_val (firstn 2 d) in
    if no_prss then Some (peer_pid, [], skipn 2 d)
    else
      let ss := subs peer_pid in
      let len_packet := 16 * Z.of_nat (length ss) in
      if len d <? len_packet + 2 then None
      else
        let d2 := skipn 2 d in
        Some (peer_pid, combine ss (slices (length ss) d2), skipn (16 * length ss) d2).

(** Parser state: (self.peer_pid as seen by a server-side exchanger, self.bytes). *)
Definition state : Type := option Z * list Z.

(** [data_received(chunk)] *)
Definition step (no_prss : bool) (subs : Z -> list (list nat)) (s : state) (chunk : list Z)
  : state * list event :=
  let data := snd s ++ chunk in                      (* self.bytes.extend(data); data = self.bytes *)
  match fst s with
  | None =>                                          (* if self.peer_pid is None: *)
      match try_hs no_prss subs data with
      | None => ((None, data), [])                   (*   return *)
      | Some (pid, keys, d') =>
          let (r, ev) := loop d' in                  (* while ...: ; self.bytes = data *)
          ((Some pid, r), Handshake pid keys :: ev)
      end
  | Some pid =>
      let (r, ev) := loop data in
      ((Some pid, r), ev)
  end.

Section Run.
  Variable no_prss : bool.
  Variable subs : Z -> list (list nat).

  (** successive [data_received] calls; events concatenated *)
  Fixpoint run (s : state) (chunks : list (list Z)) : state * list event :=
    match chunks with
    | [] => (s, [])
    | c :: cs =>
        let (s1, e1) := step no_prss subs s c in
        let (s2, e2) := run s1 cs in (s2, e1 ++ e2)
    end.

  (** per-call observations, for the correspondence check *)
  Fixpoint trace (s : state) (chunks : list (list Z)) : list (state * list event) :=
    match chunks with
    | [] => []
    | c :: cs => let r := step no_prss subs s c in r :: trace (fst r) cs
    end.
End Run.

(** [fold_left] formulation of [run] *)
Definition run_fold no_prss subs (s : state) (chunks : list (list Z)) : state * list event :=
  fold_left (fun acc c => let (s1, e1) := step no_prss subs (fst acc) c in (s1, snd acc ++ e1))
            chunks (s, []).

(* ------------------------------------------------------------------------------------- *)
(** * PRSS subsets (runtime.py: itertools.combinations(range(m), m - t)) *)

Fixpoint combs {A} (l : list A) (r : nat) : list (list A) :=
  match r with
  | O => [[]]
  | S r' => match l with
            | [] => []
            | x :: tl => map (cons x) (combs tl r') ++ combs tl (S r')
            end
  end.

(** subsets selected by [_prss_keys_from_peer(peer_pid)] at party [me] *)
Definition matching (m t me : nat) (peer_pid : Z) : list (list nat) :=
  filter (fun S => match S with
                   | [] => false
                   | s0 :: _ => (Z.of_nat s0 =? peer_pid) && existsb (Nat.eqb me) S
                   end)
         (combs (seq 0 m) (m - t)).

(* ------------------------------------------------------------------------------------- *)
(** * List facts *)

Lemma firstn_app_le {A} n (a b : list A) : (n <= length a)%nat -> firstn n (a ++ b) = firstn n a.
Proof.
  revert a; induction n as [|n IH]; intros a H; [reflexivity|].
  destruct a as [|x a]; simpl in *; [lia|]. f_equal. apply IH. lia.
Qed.

Lemma skipn_app_le {A} n (a b : list A) : (n <= length a)%nat -> skipn n (a ++ b) = skipn n a ++ b.
Proof.
  revert a; induction n as [|n IH]; intros a H; [reflexivity|].
  destruct a as [|x a]; simpl in *; [lia|]. apply IH. lia.
Qed.

Lemma firstn_exact {A} n (a b : list A) : length a = n -> firstn n (a ++ b) = a.
Proof. intros <-. rewrite firstn_app_le by lia. apply firstn_all. Qed.

Lemma skipn_exact {A} n (a b : list A) : length a = n -> skipn n (a ++ b) = b.
Proof. intros <-. rewrite skipn_app_le by lia. rewrite skipn_all. reflexivity. Qed.

Lemma skipn_add {A} (x y : nat) (l : list A) : skipn y (skipn x l) = skipn (x + y) l.
Proof.
  revert l; induction x as [|x IH]; intros l; [reflexivity|].
  destruct l; [destruct y; reflexivity|]. apply IH.
Qed.

Lemma le_bytes_length n v : length (le_bytes n v) = n.
Proof. revert v; induction n; intros; simpl; auto. Qed.

Lemma le_val_le_bytes n v : 0 <= v < 256 ^ Z.of_nat n -> le_val (le_bytes n v) = v.
Proof.
  revert v; induction n as [|n IH]; intros v H.
  - simpl in *. lia.
  - cbn [le_bytes le_val]. rewrite IH.
    + pose proof (Z.div_mod v 256). lia.
    + rewrite Nat2Z.inj_succ, Z.pow_succ_r in H by lia.
      split; [apply Z.div_pos; lia|]. apply Z.div_lt_upper_bound; lia.
Qed.

Lemma le_bytes_ok n v : Forall byte_ok (le_bytes n v).
Proof.
  revert v; induction n; intros; simpl; constructor; auto.
  unfold byte_ok. apply Z.mod_pos_bound. lia.
Qed.

Lemma dec_enc_q pc : - 2 ^ 63 <= pc < 2 ^ 63 -> dec_q (enc_q pc) = pc.
Proof.
  intros H. unfold dec_q, enc_q.
  rewrite le_val_le_bytes by (change (256 ^ Z.of_nat 8) with (2 ^ 64); apply Z.mod_pos_bound; reflexivity).
  change (2 ^ 64) with 18446744073709551616 in *. change (2 ^ 63) with 9223372036854775808 in *.
  destruct (Z.ltb_spec (pc mod 18446744073709551616) 9223372036854775808) as [Hlt|Hge].
  - destruct (Z_lt_le_dec pc 0) as [Hn|Hp].
    + assert (E : pc mod 18446744073709551616 = pc + 18446744073709551616).
      { symmetry. apply (Z.mod_unique _ _ (-1)); lia. } lia.
    + apply Z.mod_small. lia.
  - destruct (Z_lt_le_dec pc 0) as [Hn|Hp].
    + assert (E : pc mod 18446744073709551616 = pc + 18446744073709551616).
      { symmetry. apply (Z.mod_unique _ _ (-1)); lia. } lia.
    + rewrite Z.mod_small in Hge by lia. lia.
Qed.

Lemma dec_enc_I n : 0 <= n < 2 ^ 32 -> le_val (enc_I n) = n.
Proof. intros H. apply le_val_le_bytes. exact H. Qed.

Lemma len_app a b : len (a ++ b) = len a + len b.
Proof. unfold len. rewrite app_length. lia. Qed.

Lemma len_nonneg d : 0 <= len d.
Proof. unfold len. lia. Qed.

Lemma encode_length m : len (encode m) = 12 + len (snd m).
Proof.
  unfold encode, enc_q, enc_I. rewrite !len_app. unfold len at 1 2. rewrite !le_bytes_length. lia.
Qed.

(* ------------------------------------------------------------------------------------- *)
(** * Codec round trip *)

Theorem decode_encode : forall pc payload rest,
  - 2 ^ 63 <= pc < 2 ^ 63 -> len payload < 2 ^ 32 ->
  try_frame (encode (pc, payload) ++ rest) = Some (pc, payload, rest).
Proof.
  intros pc payload rest Hpc Hlen.
  pose proof (len_nonneg payload) as Hnn.
  unfold try_frame. rewrite len_app, encode_length. cbn [fst snd].
  pose proof (len_nonneg rest) as Hr.
  destruct (Z.ltb_spec (12 + len payload + len rest) 12) as [H|_]; [lia|].
  unfold encode; cbn [fst snd].
  assert (L8 : length (enc_q pc) = 8%nat) by apply le_bytes_length.
  assert (L4 : length (enc_I (len payload)) = 4%nat) by apply le_bytes_length.
  rewrite <- !app_assoc.
  rewrite (firstn_exact 8) by exact L8.
  rewrite (skipn_exact 8) by exact L8.
  rewrite (firstn_exact 4) by exact L4.
  rewrite dec_enc_q by exact Hpc. rewrite dec_enc_I by lia.
  destruct (Z.ltb_spec (12 + len payload + len rest) (len payload + 12)) as [H|_]; [lia|].
  replace (enc_q pc ++ enc_I (len payload) ++ payload ++ rest)
    with ((enc_q pc ++ enc_I (len payload)) ++ payload ++ rest) by (rewrite <- app_assoc; reflexivity).
  rewrite (skipn_exact 12) by (rewrite app_length, L8, L4; reflexivity).
  unfold len. rewrite Nat2Z.id.
  rewrite firstn_exact, skipn_exact by reflexivity. reflexivity.
Qed.

(* ------------------------------------------------------------------------------------- *)
(** * try_frame / try_hs are stable under appending more bytes *)

Lemma Some_inj {A} (a b : A) : Some a = Some b -> a = b.
Proof. congruence. Qed.

(** invert [Some (a, b, c) = Some (a', b', c')] without reducing the components *)
Ltac inv3 H :=
  let H1 := fresh in let H2 := fresh in let H3 := fresh in
  apply Some_inj in H; apply pair_equal_spec in H as [H H3]; apply pair_equal_spec in H as [H1 H2];
  subst.

Lemma try_frame_app d c pc p r :
  try_frame d = Some (pc, p, r) -> try_frame (d ++ c) = Some (pc, p, r ++ c).
Proof.
  unfold try_frame. intros H. rewrite len_app. pose proof (len_nonneg c) as Hc.
  destruct (Z.ltb_spec (len d) 12) as [|H12]; [discriminate|].
  destruct (Z.ltb_spec (len d + len c) 12) as [|_]; [lia|].
  assert (Ld : (12 <= length d)%nat) by (unfold len in H12; lia).
  rewrite (firstn_app_le 8) by lia.
  rewrite (skipn_app_le 8) by lia.
  rewrite (firstn_app_le 4) by (rewrite skipn_length; lia).
  set (sz := le_val (firstn 4 (skipn 8 d))) in *.
  destruct (Z.ltb_spec (len d) (sz + 12)) as [|Hsz]; [discriminate|].
  destruct (Z.ltb_spec (len d + len c) (sz + 12)) as [|_]; [lia|].
  inv3 H.
  rewrite (skipn_app_le 12) by lia.
  assert (Lp : (Z.to_nat sz <= length (skipn 12 d))%nat) by (rewrite skipn_length; unfold len in *; lia).
  rewrite firstn_app_le, skipn_app_le by exact Lp. reflexivity.
Qed.

Lemma try_frame_shorter d pc p r : try_frame d = Some (pc, p, r) -> (length r < length d)%nat.
Proof.
  unfold try_frame. intros H.
  destruct (Z.ltb_spec (len d) 12) as [|H12]; [discriminate|].
  destruct (Z.ltb_spec (len d) (le_val (firstn 4 (skipn 8 d)) + 12)) as [|Hsz]; [discriminate|].
  inv3 H. rewrite !skipn_length. unfold len in *. lia.
Qed.

Lemma slices_app n d c : (16 * n <= length d)%nat -> slices n (d ++ c) = slices n d.
Proof.
  revert d; induction n as [|n IH]; intros d H; [reflexivity|].
  cbn [slices]. rewrite firstn_app_le, skipn_app_le by lia. f_equal. apply IH.
  rewrite skipn_length. lia.
Qed.

Lemma try_hs_app np subs d c pid ks r :
  try_hs np subs d = Some (pid, ks, r) -> try_hs np subs (d ++ c) = Some (pid, ks, r ++ c).
Proof.
  unfold try_hs. intros H. rewrite len_app. pose proof (len_nonneg c) as Hc.
  destruct (Z.ltb_spec (len d) 2) as [|H2]; [discriminate|].
  destruct (Z.ltb_spec (len d + len c) 2) as [|_]; [lia|].
  assert (Ld : (2 <= length d)%nat) by (unfold len in H2; lia).
  rewrite (firstn_app_le 2) by lia.
  destruct np.
  - inv3 H. rewrite skipn_app_le by lia. reflexivity.
  - set (ss := subs (le_val (firstn 2 d))) in *.
    destruct (Z.ltb_spec (len d) (16 * Z.of_nat (length ss) + 2)) as [|Hk]; [discriminate|].
    destruct (Z.ltb_spec (len d + len c) (16 * Z.of_nat (length ss) + 2)) as [|_]; [lia|].
    inv3 H.
    rewrite (skipn_app_le 2) by lia.
    assert (Lk : (16 * length ss <= length (skipn 2 d))%nat) by (rewrite skipn_length; unfold len in *; lia).
    rewrite slices_app by exact Lk. rewrite skipn_app_le by exact Lk. reflexivity.
Qed.

(* ------------------------------------------------------------------------------------- *)
(** * The loop: fuel irrelevance, unfolding, and the splitting lemma *)

Lemma try_frame_nil : try_frame [] = None.
Proof. reflexivity. Qed.

Lemma loopf_fuel : forall f1 f2 d, (length d <= f1)%nat -> (length d <= f2)%nat -> loopf f1 d = loopf f2 d.
Proof.
  induction f1 as [|f1 IH]; intros f2 d H1 H2.
  - destruct d; [|simpl in H1; lia]. destruct f2; reflexivity.
  - destruct f2 as [|f2].
    + destruct d; [|simpl in H2; lia]. reflexivity.
    + cbn [loopf]. destruct (try_frame d) as [[[pc p] r]|] eqn:E; [|reflexivity].
      apply try_frame_shorter in E. rewrite (IH f2 r) by lia. reflexivity.
Qed.

Lemma loop_unfold d :
  loop d = match try_frame d with
           | None => (d, [])
           | Some (pc, p, r) => let (r', ev) := loop r in (r', Deliver pc p :: ev)
           end.
Proof.
  unfold loop. destruct d as [|x d]; [reflexivity|].
  cbn [length loopf]. destruct (try_frame (x :: d)) as [[[pc p] r]|] eqn:E; [|reflexivity].
  apply try_frame_shorter in E. cbn [length] in E.
  rewrite (loopf_fuel (length d) (length r) r) by lia. reflexivity.
Qed.

(** Parsing d ++ c = parsing d, then parsing (what d left over) ++ c. *)
Lemma loop_app : forall d c,
  loop (d ++ c) = let (r1, e1) := loop d in let (r2, e2) := loop (r1 ++ c) in (r2, e1 ++ e2).
Proof.
  intros d. remember (length d) as n eqn:Hn. revert d Hn.
  induction n as [n IH] using lt_wf_ind. intros d Hn c.
  rewrite (loop_unfold d).
  destruct (try_frame d) as [[[pc p] r]|] eqn:E.
  - rewrite (loop_unfold (d ++ c)). rewrite (try_frame_app _ c _ _ _ E).
    pose proof (try_frame_shorter _ _ _ _ E) as Hs.
    rewrite (IH (length r)) by (lia || reflexivity).
    destruct (loop r) as [r1 e1]. destruct (loop (r1 ++ c)) as [r2 e2]. reflexivity.
  - destruct (loop (d ++ c)) as [r2 e2]. reflexivity.
Qed.

(* ------------------------------------------------------------------------------------- *)
(** * step distributes over concatenation of chunks *)

Section Chunking.
  Variable no_prss : bool.
  Variable subs : Z -> list (list nat).
  Notation step' := (step no_prss subs).
  Notation run' := (run no_prss subs).

  Lemma step_app : forall s c1 c2,
    step' s (c1 ++ c2) =
      let (s1, e1) := step' s c1 in let (s2, e2) := step' s1 c2 in (s2, e1 ++ e2).
  Proof.
    intros [[pid|] buf] c1 c2; unfold step; cbn [fst snd].
    - rewrite app_assoc. rewrite loop_app.
      destruct (loop (buf ++ c1)) as [r1 e1]. cbn [fst snd].
      destruct (loop (r1 ++ c2)) as [r2 e2]. reflexivity.
    - rewrite app_assoc.
      destruct (try_hs no_prss subs (buf ++ c1)) as [[[p ks] d']|] eqn:E.
      + rewrite (try_hs_app _ _ _ c2 _ _ _ E). rewrite loop_app.
        destruct (loop d') as [r1 e1]. cbn [fst snd].
        destruct (loop (r1 ++ c2)) as [r2 e2]. reflexivity.
      + cbn [fst snd].
        destruct (try_hs no_prss subs ((buf ++ c1) ++ c2)) as [[[p ks] d']|]; [|reflexivity].
        destruct (loop d') as [r e]. reflexivity.
  Qed.

  (** All that matters about a chunking is the concatenation of the chunks. *)
  Lemma run_concat : forall chunks s,
    step' s [] = (s, []) -> run' s chunks = step' s (concat chunks).
  Proof.
    induction chunks as [|c cs IH]; intros s Hs.
    - simpl. symmetry. exact Hs.
    - cbn [run concat]. rewrite step_app.
      destruct (step' s c) as [s1 e1] eqn:E1.
      assert (Hs1 : step' s1 [] = (s1, [])).
      { pose proof (step_app s c []) as H. rewrite app_nil_r, E1 in H.
        destruct (step' s1 []) as [s2 e2]. inversion H as [[H1 H2]].
        f_equal. rewrite <- (app_nil_r e1) in H2 at 1. apply app_inv_head in H2. auto. }
      rewrite (IH s1 Hs1). reflexivity.
  Qed.

  Lemma run_app : forall c1 c2 s,
    run' s (c1 ++ c2) = let (s1, e1) := run' s c1 in let (s2, e2) := run' s1 c2 in (s2, e1 ++ e2).
  Proof.
    induction c1 as [|c cs IH]; intros c2 s.
    - simpl. destruct (run' s c2). reflexivity.
    - cbn [run app]. destruct (step' s c) as [s1 e1]. rewrite IH.
      destruct (run' s1 cs) as [s2 e2]. destruct (run' s2 c2) as [s3 e3].
      rewrite app_assoc. reflexivity.
  Qed.

  Lemma run_fold_eq : forall chunks s, run_fold no_prss subs s chunks = run' s chunks.
  Proof.
    intros chunks s. unfold run_fold.
    assert (G : forall chunks s e0,
      fold_left (fun acc c => let (s1, e1) := step' (fst acc) c in (s1, snd acc ++ e1)) chunks (s, e0)
      = let (s2, e2) := run' s chunks in (s2, e0 ++ e2)).
    { induction chunks0 as [|c cs IH]; intros s0 e0.
      - simpl. rewrite app_nil_r. reflexivity.
      - cbn [fold_left run fst snd]. destruct (step' s0 c) as [s1 e1]. rewrite IH.
        destruct (run' s1 cs) as [s2 e2]. rewrite app_assoc. reflexivity. }
    rewrite G. destruct (run' s chunks). reflexivity.
  Qed.

  (** ** Whole-stream parse *)

  Lemma loop_encoded : forall msgs tail,
    Forall wf_msg msgs -> try_frame tail = None ->
    loop (concat (map encode msgs) ++ tail) = (tail, map (fun m => Deliver (fst m) (snd m)) msgs).
  Proof.
    induction msgs as [|[pc p] msgs IH]; intros tail Hwf Ht.
    - simpl. rewrite loop_unfold, Ht. reflexivity.
    - inversion Hwf as [|? ? [Hpc Hl] Hwf']; subst. cbn [fst snd] in *.
      cbn [map concat]. rewrite <- app_assoc. rewrite loop_unfold.
      rewrite decode_encode by assumption.
      rewrite (IH tail Hwf' Ht). reflexivity.
  Qed.

  Definition deliveries (msgs : list (Z * list Z)) : list event :=
    map (fun m => Deliver (fst m) (snd m)) msgs.

  Lemma step_init_frames pid : step' (Some pid, []) [] = ((Some pid, []), []).
  Proof. reflexivity. Qed.

  Lemma step_init_hs : step' (None, []) [] = ((None, []), []).
  Proof. reflexivity. Qed.

  (** ** C10: any chunking of the encoded stream delivers exactly the messages, in order *)
  Theorem chunking_irrelevant : forall pid msgs chunks,
    Forall wf_msg msgs ->
    concat chunks = concat (map encode msgs) ->
    run' (Some pid, []) chunks = ((Some pid, []), deliveries msgs).
  Proof.
    intros pid msgs chunks Hwf Hc.
    rewrite run_concat by apply step_init_frames.
    rewrite Hc. unfold step. cbn [fst snd app].
    rewrite <- (app_nil_r (concat (map encode msgs))).
    rewrite (loop_encoded msgs [] Hwf try_frame_nil). reflexivity.
  Qed.

  (** ** C36: the events of a prefix of the stream are a prefix of the events of the stream *)
  Theorem prefix_parse : forall s chunksP chunksF q,
    step' s [] = (s, []) ->
    concat chunksF = concat chunksP ++ q ->
    exists later, snd (run' s chunksF) = snd (run' s chunksP) ++ later.
  Proof.
    intros s chunksP chunksF q Hs Hc.
    rewrite !run_concat by exact Hs. rewrite Hc, step_app.
    destruct (step' s (concat chunksP)) as [s1 e1]. destruct (step' s1 q) as [s2 e2].
    exists e2. reflexivity.
  Qed.

  (** a strict prefix of an encoded frame is not parsed *)
  Lemma try_frame_partial : forall m partial q,
    wf_msg m -> partial ++ q = encode m -> q <> [] -> try_frame partial = None.
  Proof.
    intros [pc p] partial q [Hpc Hl] He Hq. cbn [fst snd] in *.
    destruct (try_frame partial) as [[[pc' p'] r]|] eqn:E; [|reflexivity].
    exfalso.
    pose proof (try_frame_app _ q _ _ _ E) as E2. rewrite He in E2.
    rewrite <- (app_nil_r (encode (pc, p))) in E2. rewrite decode_encode in E2 by assumption.
    inversion E2 as [[H1 H2 H3]]. destruct r; destruct q; try discriminate. congruence.
  Qed.

  (** ** C36: stream cut inside a frame: all complete frames delivered, the cut one is not,
         and its bytes are kept *)
  Theorem truncated_not_delivered : forall pid msgs m partial q chunks,
    Forall wf_msg msgs -> wf_msg m ->
    partial ++ q = encode m -> q <> [] ->
    concat chunks = concat (map encode msgs) ++ partial ->
    run' (Some pid, []) chunks = ((Some pid, partial), deliveries msgs).
  Proof.
    intros pid msgs m partial q chunks Hwf Hm He Hq Hc.
    rewrite run_concat by apply step_init_frames.
    rewrite Hc. unfold step. cbn [fst snd app].
    rewrite (loop_encoded msgs partial Hwf (try_frame_partial m partial q Hm He Hq)). reflexivity.
  Qed.
End Chunking.

(* ------------------------------------------------------------------------------------- *)
(** * Handshake *)

Lemma slices_concat : forall keys rest,
  Forall (fun k => length k = 16%nat) keys ->
  slices (length keys) (concat keys ++ rest) = keys /\
  skipn (16 * length keys) (concat keys ++ rest) = rest.
Proof.
  induction keys as [|k keys IH]; intros rest Hk.
  - split; reflexivity.
  - inversion Hk as [|? ? Hk1 Hk2]; subst. destruct (IH rest Hk2) as [IH1 IH2].
    cbn [length slices concat]. rewrite <- app_assoc.
    rewrite (firstn_exact 16) by exact Hk1. rewrite (skipn_exact 16) by exact Hk1.
    rewrite IH1. split; [reflexivity|].
    replace (16 * S (length keys))%nat with (16 + 16 * length keys)%nat by lia.
    rewrite <- skipn_add. rewrite (skipn_exact 16) by exact Hk1. exact IH2.
Qed.

Lemma concat_keys_length : forall keys : list (list Z),
  Forall (fun k => length k = 16%nat) keys -> length (concat keys) = (16 * length keys)%nat.
Proof.
  induction keys as [|k keys IH]; intros Hk; [reflexivity|].
  inversion Hk; subst. cbn [concat length]. rewrite app_length, IH by assumption. lia.
Qed.

Section HandshakeThms.
  Variable subs : Z -> list (list nat).

  Definition wf_keys (pid : Z) (keys : list (list Z)) : Prop :=
    length keys = length (subs pid) /\ Forall (fun k => length k = 16%nat) keys.

  (** what a client writes in [connection_made] *)
  Definition hello (pid : Z) (keys : list (list Z)) : list Z := le_bytes 2 pid ++ concat keys.

  Lemma try_hs_hello : forall pid keys rest,
    0 <= pid < 65536 -> wf_keys pid keys ->
    try_hs false subs (hello pid keys ++ rest) = Some (pid, combine (subs pid) keys, rest).
  Proof.
    intros pid keys rest Hpid [Hn Hk]. unfold try_hs, hello. cbv zeta.
    assert (L2 : length (le_bytes 2 pid) = 2%nat) by apply le_bytes_length.
    pose proof (concat_keys_length keys Hk) as Lk.
    pose proof (len_nonneg rest) as Hr.
    rewrite <- !app_assoc.
    assert (LT : len (le_bytes 2 pid ++ concat keys ++ rest) = 2 + 16 * Z.of_nat (length keys) + len rest).
    { rewrite !len_app. unfold len at 1 2. rewrite L2, Lk. lia. }
    rewrite !LT.
    destruct (Z.ltb_spec (2 + 16 * Z.of_nat (length keys) + len rest) 2) as [|_]; [lia|].
    rewrite (firstn_exact 2) by exact L2.
    rewrite le_val_le_bytes by (change (256 ^ Z.of_nat 2) with 65536; exact Hpid).
    rewrite <- Hn.
    destruct (Z.ltb_spec (2 + 16 * Z.of_nat (length keys) + len rest)
                         (16 * Z.of_nat (length keys) + 2)) as [|_]; [lia|].
    rewrite (skipn_exact 2) by exact L2.
    destruct (slices_concat keys rest Hk) as [S1 S2]. rewrite S1, S2. reflexivity.
  Qed.

  Lemma try_hs_hello_noprss : forall pid rest,
    0 <= pid < 65536 ->
    try_hs true subs (le_bytes 2 pid ++ rest) = Some (pid, [], rest).
  Proof.
    intros pid rest Hpid. unfold try_hs.
    assert (L2 : length (le_bytes 2 pid) = 2%nat) by apply le_bytes_length.
    pose proof (len_nonneg rest) as Hr.
    rewrite len_app. unfold len at 1. rewrite L2.
    destruct (Z.ltb_spec (Z.of_nat 2 + len rest) 2) as [|_]; [lia|].
    rewrite (firstn_exact 2) by exact L2. rewrite (skipn_exact 2) by exact L2.
    rewrite le_val_le_bytes by (change (256 ^ Z.of_nat 2) with 65536; exact Hpid).
    reflexivity.
  Qed.

  (** ** C10: the handshake (pid and exactly 16 bytes per key) is recovered from any chunking,
         and the frames that follow are untouched *)
  Theorem handshake_any_chunking : forall pid keys msgs chunks,
    0 <= pid < 65536 -> wf_keys pid keys -> Forall wf_msg msgs ->
    concat chunks = hello pid keys ++ concat (map encode msgs) ->
    run false subs (None, []) chunks
    = ((Some pid, []), Handshake pid (combine (subs pid) keys) :: deliveries msgs).
  Proof.
    intros pid keys msgs chunks Hpid Hk Hwf Hc.
    rewrite run_concat by reflexivity. rewrite Hc. unfold step. cbn [fst snd app].
    rewrite try_hs_hello by assumption.
    rewrite <- (app_nil_r (concat (map encode msgs))).
    rewrite (loop_encoded msgs [] Hwf try_frame_nil). reflexivity.
  Qed.

  Theorem handshake_any_chunking_noprss : forall pid msgs chunks,
    0 <= pid < 65536 -> Forall wf_msg msgs ->
    concat chunks = le_bytes 2 pid ++ concat (map encode msgs) ->
    run true subs (None, []) chunks = ((Some pid, []), Handshake pid [] :: deliveries msgs).
  Proof.
    intros pid msgs chunks Hpid Hwf Hc.
    rewrite run_concat by reflexivity. rewrite Hc. unfold step. cbn [fst snd app].
    rewrite try_hs_hello_noprss by assumption.
    rewrite <- (app_nil_r (concat (map encode msgs))).
    rewrite (loop_encoded msgs [] Hwf try_frame_nil). reflexivity.
  Qed.

  (** ** nothing is consumed (no event, all bytes kept, still waiting) while the handshake
         packet is incomplete *)
  Theorem handshake_waits : forall pid keys partial q chunks,
    0 <= pid < 65536 -> wf_keys pid keys ->
    partial ++ q = hello pid keys -> q <> [] ->
    concat chunks = partial ->
    run false subs (None, []) chunks = ((None, partial), []).
  Proof.
    intros pid keys partial q chunks Hpid Hk He Hq Hc.
    rewrite run_concat by reflexivity. rewrite Hc. unfold step. cbn [fst snd app].
    destruct (try_hs false subs partial) as [[[p ks] r]|] eqn:E; [exfalso|reflexivity].
    pose proof (try_hs_app _ _ _ q _ _ _ E) as E2. rewrite He in E2.
    rewrite <- (app_nil_r (hello pid keys)) in E2. rewrite try_hs_hello in E2 by assumption.
    apply Some_inj in E2. apply pair_equal_spec in E2 as [_ E2].
    destruct r; destruct q; try discriminate. congruence.
  Qed.

  Theorem handshake_waits_noprss : forall b chunks,
    concat chunks = [b] \/ concat chunks = [] ->
    run true subs (None, []) chunks = ((None, concat chunks), []).
  Proof.
    intros b chunks Hc.
    rewrite run_concat by reflexivity. destruct Hc as [-> | ->]; reflexivity.
  Qed.
End HandshakeThms.

(** [matching] selects exactly what the Python loop selects: used only by the correspondence
    check (the theorems above hold for any [subs]). *)
Definition step_mt (no_prss : bool) (m t me : nat) := step no_prss (matching m t me).
Definition trace_mt (no_prss : bool) (m t me : nat) := trace no_prss (matching m t me).
Definition run_mt (no_prss : bool) (m t me : nat) := run no_prss (matching m t me).
