#!/usr/bin/env python
"""Late read of a caller-owned mutable argument in MPyC coroutines -- confirmed repros.

Run:   /venv/bin/python /verif/harness/alias_repros.py            (list-based API only)
       /verif/.venv-np/bin/python /verif/harness/alias_repros.py  (also the NumPy-based API)
Options: --all (also print unaffected mutations and the copy-OK controls), --m1 / --m3 (one config only).

Every case runs in the in-process simulator (lib/sim.py) for m=1 (-M1, i.e. asynchronous mode) and for
m=3,t=1.  For every case and every mutation of the caller's container:

    res = f(container, ...)      # MPyC coroutine: body runs up to its first await only
    <mutate container in place>  # what a caller may legitimately do with ITS OWN list after the call
    got = await reveal(res)

`want` is the result of the same call with NO mutation (= the function of the arguments at call time, which is
also what synchronous mode, plain m=1 without -M, returns).  Output, one line per affected (function, mutation):

    LATE-READ <function> <mutation> got=<...> want=<...> [cfg=...]

got=HANG means the program never completes (placeholder never filled in; an exception inside the detached task,
named in brackets when one was captured, or a gather that waits forever).  Exit code 0 always.
"""
import sys, os, asyncio, logging, traceback

HERE = os.path.dirname(os.path.abspath(__file__))
for p in (HERE, '/verif/harness'):
    if os.path.isdir(os.path.join(p, 'lib')) and p not in sys.path:
        sys.path.insert(0, p)
os.environ.setdefault('MPYC_REPO', '/repo')
if '/repo' not in sys.path:
    sys.path.insert(0, '/repo')
from lib.sim import Sim, Fifo   # noqa: E402

try:
    import numpy as np
    HAVE_NP = True
except ImportError:
    np = None
    HAVE_NP = False

SHOW_ALL = '--all' in sys.argv
CONFIGS = [(1, 0), (3, 1)]
if '--m1' in sys.argv:
    CONFIGS = [(1, 0)]
if '--m3' in sys.argv:
    CONFIGS = [(3, 1)]


# ---------------------------------------------------------------------------------------------------------
# helpers used inside the party programs

def shared(mpc, stype, vals):
    """Genuinely secret-shared values (dealt by party 0), one secure number per entry of vals."""
    return mpc.input([stype(v) for v in vals], senders=0)


def shared_arr(mpc, stype, vals):
    """Genuinely secret-shared secure array dealt by party 0."""
    return mpc.input(stype.array(np.array(vals)), senders=0)


def plain(v):
    """Canonical plain-Python form of an output."""
    if v is None:
        return None
    if isinstance(v, (list, tuple)):
        return [plain(a) for a in v]
    if HAVE_NP and isinstance(v, np.ndarray):
        return plain(v.tolist())
    if hasattr(v, 'value') and hasattr(v, 'field'):        # FiniteFieldArray
        return plain(v.value)
    if isinstance(v, float):
        return round(v, 6)
    try:
        return int(v)
    except Exception:
        return repr(v)


# generic in-place mutations of a list `c`; `alt` is a spare element of the right kind
def m_reverse(c, alt):
    c.reverse()


def m_overwrite(c, alt):
    c[0] = alt


def m_del(c, alt):
    del c[-1]


def m_append(c, alt):
    c.append(alt)


LIST_MUTS = [('reverse', m_reverse), ('overwrite', m_overwrite), ('del', m_del), ('append', m_append)]

CASES = []


def case(name, needs_np=False, muts=None, note='', ref_per_mut=False):
    """Register a case.  The decorated function is `async def body(mpc, mods, pid, mutate)`; it must build fresh
    arguments, make the call, invoke `mutate(container, alt)` exactly once right after the call, and return the
    revealed plain result."""
    def deco(fn):
        CASES.append(dict(name=name, body=fn, needs_np=needs_np, muts=muts or LIST_MUTS, note=note,
                          ref_per_mut=ref_per_mut))
        return fn
    return deco


# ---------------------------------------------------------------------------------------------------------
# list-based API

@case('runtime.trunc(x:list)')
async def _(mpc, mods, pid, mutate):
    secint = mpc.SecInt(32)
    x = shared(mpc, secint, [40, -60, 80, 1000])
    alt = shared(mpc, secint, [400])[0]
    y = mpc.trunc(x, f=2)
    mutate(x, alt)
    return plain(await mpc.output(y))


@case('runtime._reshare(x:list) [private]')
async def _(mpc, mods, pid, mutate):
    secint = mpc.SecInt(32)
    x = shared(mpc, secint, [4, -6, 8, 100])
    alt = shared(mpc, secint, [400])[0]
    y = mpc._reshare(x)
    mutate(x, alt)
    return plain(await mpc.output(y))


@case('runtime.indexOf(x:list, a)')
async def _(mpc, mods, pid, mutate):
    secint = mpc.SecInt(32)
    x = shared(mpc, secint, [3, 5, 7, 9, 11])
    alt = shared(mpc, secint, [5])[0]
    y = mpc.indexOf(x, secint(5))
    mutate(x, alt)
    return plain(await mpc.output(y))


@case('seclist.remove(self:seclist, value)', ref_per_mut=True,
      muts=[('reverse', m_reverse), ('overwrite[1]', lambda c, alt: c.__setitem__(1, alt)),
            ('del[1]', lambda c, alt: c.__delitem__(1)), ('insert(0,2)', lambda c, alt: c.insert(0, 2))])
async def _(mpc, mods, pid, mutate):
    # the mutated container is itself the output here, so `want` is computed per mutation with the removal
    # completed first (= synchronous-mode order): mutate.ref is True in those reference runs
    secint = mpc.SecInt(32)
    seclist = mods['mpyc.seclists'].seclist
    s = seclist(shared(mpc, secint, [1, 2, 3, 2]), secint)
    alt = shared(mpc, secint, [7])[0]
    fut = s.remove(2)
    if mutate.ref:
        await fut
        mutate(s, alt)
    else:
        mutate(s, alt)
        await fut
    return plain(await mpc.output(list(s)))


@case('random.sample(sectype, population:list, k)', muts=[('overwrite', m_overwrite), ('del', m_del)])
async def _(mpc, mods, pid, mutate):
    secint = mpc.SecInt(32)
    pop = shared(mpc, secint, [11, 22, 33, 44])
    alt = shared(mpc, secint, [99])[0]
    y = mods['mpyc.random'].sample(secint, pop, 4)
    mutate(pop, alt)
    return sorted(plain(await mpc.output(y)))       # multiset of the sample (k = n: must be the population)


@case('statistics.quantiles(data:list, n=2) -> _quickselect(x)', muts=[('overwrite', m_overwrite), ('del', m_del)])
async def _(mpc, mods, pid, mutate):
    secint = mpc.SecInt(32)
    x = shared(mpc, secint, [10, 50, 30, 20, 40])
    alt = shared(mpc, secint, [1000])[0]
    y = mods['mpyc.statistics'].quantiles(x, n=2)
    mutate(x, alt)
    return plain(await mpc.output(y))


@case('runtime.transfer(obj:list)')
async def _(mpc, mods, pid, mutate):
    obj = [pid, 'a', 'b']
    fut = mpc.transfer(obj)
    mutate(obj, 'ALT')
    return await fut


@case('runtime.transfer(obj, senders:list)', muts=[('overwrite', m_overwrite), ('del', m_del), ('append', m_append)])
async def _(mpc, mods, pid, mutate):
    m = len(mpc.parties)
    senders = [0]
    fut = mpc.transfer(('msg', pid), senders=senders)
    mutate(senders, m - 1)      # m=1: alt is 0 again, so only del/append are visible there
    return await fut


@case('runtime.transfer(obj, sender_receivers:dict)',
      muts=[('clear', lambda c, alt: c.clear()), ('setitem', lambda c, alt: c.__setitem__(0, []))])
async def _(mpc, mods, pid, mutate):
    m = len(mpc.parties)
    sr = {0: list(range(m))}
    fut = mpc.transfer(('msg', pid), sender_receivers=sr)
    mutate(sr, None)
    return await fut


@case('runtime.output(x, receivers:list)',
      muts=[('clear', lambda c, alt: c.clear()), ('append', m_append), ('overwrite', m_overwrite)])
async def _(mpc, mods, pid, mutate):
    secint = mpc.SecInt(32)
    m = len(mpc.parties)
    x = shared(mpc, secint, [7, 8])
    rcv = [0]
    fut = mpc.output(x, receivers=rcv)
    mutate(rcv, m - 1 if m > 1 else 5)
    return plain(await fut)


class _LogStub:
    """Stand-in for the `logging` module inside one party's mpyc.runtime copy (captures peek() lines)."""
    def __init__(self, real):
        self._real, self.lines = real, []

    def info(self, msg, *a):
        self.lines.append(str(msg))

    def debug(self, msg, *a):
        pass

    def __getattr__(self, k):
        return getattr(self._real, k)


@case('runtime.peek(x:list)  [logged value only]')
async def _(mpc, mods, pid, mutate):
    secint = mpc.SecInt(32)
    rtmod = mods['mpyc.runtime']
    stub = _LogStub(rtmod.logging)
    rtmod.logging = stub
    try:
        x = shared(mpc, secint, [1, 2, 3])
        alt = shared(mpc, secint, [9])[0]
        mpc.peek(x)
        mutate(x, alt)
        await mpc.output(shared(mpc, secint, [0]))      # let the detached peek task finish
        for _ in range(20):
            await asyncio.sleep(0)
        return [ln.split('Task output')[-1].strip() for ln in stub.lines if 'Task output' in ln]
    finally:
        rtmod.logging = stub._real


class _PickleStub:
    """Simulator workaround only: the per-party copies of mpyc.fingroups are not importable by name, so group
    elements cannot be pickled by reference inside the simulator; ship their integer value instead."""
    def __init__(self, real, G):
        self._real, self._G = real, G

    def dumps(self, obj, *a, **k):
        if isinstance(obj, self._G):
            obj = ('GRPELT', int(obj.value))
        return self._real.dumps(obj, *a, **k)

    def loads(self, b, *a, **k):
        v = self._real.loads(b, *a, **k)
        if isinstance(v, tuple) and len(v) == 2 and v[0] == 'GRPELT':
            v = self._G(v[1])
        return v

    def __getattr__(self, k):
        return getattr(self._real, k)


def _grp(mpc, mods):
    G = mods['mpyc.fingroups'].QuadraticResidues(l=12)
    rtmod = mods['mpyc.runtime']
    if not isinstance(rtmod.pickle, _PickleStub):
        rtmod.pickle = _PickleStub(rtmod.pickle, G)
    return G


@case('SecureFiniteGroup.repeat_public(a:list, x:list) -> repeat_public_base_public_output')
async def _(mpc, mods, pid, mutate):
    G = _grp(mpc, mods)
    secgrp = mpc.SecGrp(G)
    secfld = mpc.SecFld(modulus=G.order)     # exponents live in Z_q, q = group order
    g = G.generator
    a = [g, g ^ 2, g ^ 3]
    x = shared(mpc, secfld, [2, 3, 5])
    alt = shared(mpc, secfld, [7])[0]
    fut = secgrp.repeat_public(a, x)
    mutate(x, alt)
    return plain(int(await fut))


@case('SecureFiniteGroup.repeat_public(a:list <-, x:list)')
async def _(mpc, mods, pid, mutate):
    G = _grp(mpc, mods)
    secgrp = mpc.SecGrp(G)
    secfld = mpc.SecFld(modulus=G.order)     # exponents live in Z_q, q = group order
    g = G.generator
    a = [g, g ^ 2, g ^ 3]
    x = shared(mpc, secfld, [2, 3, 5])
    fut = secgrp.repeat_public(a, x)
    mutate(a, g ^ 4)
    return plain(int(await fut))


@case('CONTROL runtime.output(x:list)')
async def _(mpc, mods, pid, mutate):
    secint = mpc.SecInt(32)
    x = shared(mpc, secint, [3, 5, 7, 9])
    alt = shared(mpc, secint, [100])[0]
    fut = mpc.output(x)
    mutate(x, alt)
    return plain(await fut)


# ---- controls: functions that copy before the first await (must be unaffected) ---------------------------

def _control(name, call, reveal=None):
    @case('CONTROL ' + name)
    async def _(mpc, mods, pid, mutate):
        secint = mpc.SecInt(32)
        x = shared(mpc, secint, [3, 5, 7, 9])
        alt = shared(mpc, secint, [100])[0]
        y = call(mpc, mods, secint, x)
        mutate(x, alt)
        return plain(await mpc.output(y))


_control('runtime.sum', lambda mpc, mods, st, x: mpc.sum(x))
_control('runtime.prod', lambda mpc, mods, st, x: mpc.prod(x))
_control('runtime.in_prod', lambda mpc, mods, st, x: mpc.in_prod(x, x))
_control('runtime.vector_add', lambda mpc, mods, st, x: mpc.vector_add(x, x))
_control('runtime.scalar_mul', lambda mpc, mods, st, x: mpc.scalar_mul(st(2), x))
_control('runtime.schur_prod', lambda mpc, mods, st, x: mpc.schur_prod(x, x))
_control('runtime.convert', lambda mpc, mods, st, x: mpc.convert(x, mpc.SecInt(48)))
_control('runtime.from_bits', lambda mpc, mods, st, x: mpc.from_bits([a * 0 + (i % 2) for i, a in enumerate(x)]))
_control('runtime.if_else(list)', lambda mpc, mods, st, x: mpc.if_else(st(1), x, x[::-1]))
_control('runtime.all', lambda mpc, mods, st, x: mpc.all([a * 0 + 1 for a in x]))
_control('statistics.median', lambda mpc, mods, st, x: mods['mpyc.statistics'].median(x))
_control('statistics.mode', lambda mpc, mods, st, x: mods['mpyc.statistics'].mode(x))
_control('random.random_derangement(len only)',
         lambda mpc, mods, st, x: mpc.sum(mods['mpyc.random'].random_derangement(st, x)))


@case('CONTROL runtime.matrix_prod (rows replaced)', muts=LIST_MUTS + [('row-overwrite', lambda c, alt: c[0].__setitem__(0, alt))])
async def _(mpc, mods, pid, mutate):
    secint = mpc.SecInt(32)
    x = shared(mpc, secint, [1, 2, 3, 4])
    alt = shared(mpc, secint, [100])[0]
    A = [[x[0], x[1]], [x[2], x[3]]]
    C = mpc.matrix_prod(A, A)
    mutate(A, [alt, alt] if not isinstance(alt, list) else alt)
    return plain(await mpc.output([a for r in C for a in r]))


@case('CONTROL runtime.gauss (rows replaced)', muts=[('reverse', m_reverse), ('row-overwrite', lambda c, alt: c[0].__setitem__(0, alt[0]))])
async def _(mpc, mods, pid, mutate):
    secint = mpc.SecInt(32)
    x = shared(mpc, secint, [1, 2, 3, 4])
    alt = shared(mpc, secint, [100])[0]
    A = [[x[0], x[1]], [x[2], x[3]]]
    C = mpc.gauss(A, x[0], [x[1], x[2]], [x[3], x[0]])
    mutate(A, [alt, alt])
    return plain(await mpc.output([a for r in C for a in r]))


# ---------------------------------------------------------------------------------------------------------
# NumPy-based API

def np_seq_case(fname, shape_each=(2,), nested=False):
    """np_concatenate / np_stack / ... : the `arrays` / `tup` argument given as a Python LIST of secure arrays."""
    @case(f'runtime.{fname}(arrays:list)', needs_np=True)
    async def _(mpc, mods, pid, mutate):
        secint = mpc.SecInt(32)
        n = 1
        for d in shape_each:
            n *= d
        arrs = [shared_arr(mpc, secint, np.arange(1 + 10 * k, 1 + 10 * k + n).reshape(shape_each)) for k in range(3)]
        alt = shared_arr(mpc, secint, np.arange(91, 91 + n).reshape(shape_each))
        y = getattr(mpc, fname)(arrs)
        mutate(arrs, alt)
        return plain(await mpc.output(y))


for _f, _sh in [('np_concatenate', (2,)), ('np_stack', (2,)), ('np_vstack', (2,)), ('np_hstack', (2,)),
                ('np_dstack', (2,)), ('np_column_stack', (2,))]:
    np_seq_case(_f, _sh)


@case('runtime.np_block(arrays:nested list)', needs_np=True,
      muts=LIST_MUTS[:2] + [('row-overwrite', lambda c, alt: c[0].__setitem__(0, alt[0])),
                            ('row-reverse', lambda c, alt: c[0].reverse())])
async def _(mpc, mods, pid, mutate):
    secint = mpc.SecInt(32)
    A = [shared_arr(mpc, secint, np.array([[k * 10 + 1, k * 10 + 2]])) for k in range(4)]
    alt = shared_arr(mpc, secint, np.array([[91, 92]]))
    blocks = [[A[0], A[1]], [A[2], A[3]]]
    y = mpc.np_block(blocks)
    mutate(blocks, [alt, alt])
    return plain(await mpc.output(y))


@case('np.concatenate(list) via SecureArray.__array_function__', needs_np=True)
async def _(mpc, mods, pid, mutate):
    secint = mpc.SecInt(32)
    arrs = [shared_arr(mpc, secint, np.arange(1 + 10 * k, 3 + 10 * k)) for k in range(3)]
    alt = shared_arr(mpc, secint, np.array([91, 92]))
    y = np.concatenate(arrs)
    mutate(arrs, alt)
    return plain(await mpc.output(y))


@case('runtime.np_concatenate((a, w)) public ndarray element mutated in place', needs_np=True,
      muts=[('elem-inplace', lambda c, alt: c.__setitem__(0, 77))])
async def _(mpc, mods, pid, mutate):
    secint = mpc.SecInt(32)
    a = shared_arr(mpc, secint, np.array([1, 2]))
    w = secint.field.array(np.array([5, 6]))
    y = mpc.np_concatenate((a, w))
    mutate(w, None)
    return plain(await mpc.output(y))


@case('runtime.np_fromlist(x:list)', needs_np=True)
async def _(mpc, mods, pid, mutate):
    secint = mpc.SecInt(32)
    x = shared(mpc, secint, [3, 5, 7, 9])
    alt = shared(mpc, secint, [100])[0]
    y = mpc.np_fromlist(x)
    mutate(x, alt)
    return plain(await mpc.output(y))


_KEY_MUTS = [('reverse', m_reverse), ('overwrite', m_overwrite), ('del', m_del), ('append', m_append)]


@case('runtime.np_getitem(a, key:list)  [a[key]]', needs_np=True, muts=_KEY_MUTS)
async def _(mpc, mods, pid, mutate):
    secint = mpc.SecInt(32)
    a = shared_arr(mpc, secint, np.array([10, 20, 30, 40]))
    key = [0, 2]
    y = a[key]
    mutate(key, 3)
    return plain(await mpc.output(y))


@case('runtime.np_update(a, key:list, value)', needs_np=True, muts=_KEY_MUTS[:2])
async def _(mpc, mods, pid, mutate):
    secint = mpc.SecInt(32)
    a = shared_arr(mpc, secint, np.array([10, 20, 30, 40]))
    v = shared_arr(mpc, secint, np.array([1, 2]))
    key = [0, 2]
    y = mpc.np_update(a, key, v)
    mutate(key, 3)
    return plain(await mpc.output(y))


_ND_MUTS = [('elem-inplace', lambda c, alt: c.__setitem__(0, 100)), ('inplace-op', lambda c, alt: c.__imul__(2))]


def np_public_operand_case(title, call, wvals, avals=(1, 2, 3, 4), wshape=None, ashape=None):
    @case(title, needs_np=True, muts=_ND_MUTS)
    async def _(mpc, mods, pid, mutate):
        secint = mpc.SecInt(32)
        av = np.array(avals)
        if ashape:
            av = av.reshape(ashape)
        a = shared_arr(mpc, secint, av)
        w = np.array(wvals)
        if wshape:
            w = w.reshape(wshape)
        y = call(mpc, a, w)
        mutate(w, None)
        return plain(await mpc.output(y))


np_public_operand_case('runtime.np_multiply(a, b:ndarray)  [a * w]', lambda mpc, a, w: a * w, [2, 3, 4, 5])
np_public_operand_case('runtime.np_matmul(A, B:ndarray)  [A @ W]', lambda mpc, a, w: a @ w, [1, 0, 0, 1],
                       wshape=(2, 2), ashape=(2, 2))
np_public_operand_case('runtime.np_matmul(A:ndarray, B)  [W @ A]', lambda mpc, a, w: w @ a, [1, 0, 0, 1],
                       wshape=(2, 2), ashape=(2, 2))
np_public_operand_case('runtime.np_left_shift(a, b:ndarray)  [a << w]', lambda mpc, a, w: a << w, [1, 1, 1, 1])
np_public_operand_case('runtime.np_convolve(a, b:ndarray)', lambda mpc, a, w: mpc.np_convolve(a, w), [1, 1])
np_public_operand_case('runtime.np_outer(a, b:ndarray)', lambda mpc, a, w: mpc.np_outer(a, w), [1, 2])
np_public_operand_case('runtime.np_add(a, b:ndarray) direct call', lambda mpc, a, w: mpc.np_add(a, w), [2, 3, 4, 5])
np_public_operand_case('runtime.np_subtract(a, b:ndarray) direct call', lambda mpc, a, w: mpc.np_subtract(a, w),
                       [2, 3, 4, 5])
np_public_operand_case('CONTROL SecureArray.__add__(ndarray)  [a + w]', lambda mpc, a, w: a + w, [2, 3, 4, 5])
np_public_operand_case('runtime.np_update(a, key, value:ndarray)',
                       lambda mpc, a, w: mpc.np_update(a, slice(0, 2), w), [7, 8])


def np_param_case(title, call, param, alt, ashape=(2, 2), muts=None):
    @case(title, needs_np=True, muts=muts or [('reverse', m_reverse), ('overwrite', m_overwrite)])
    async def _(mpc, mods, pid, mutate):
        secint = mpc.SecInt(32)
        n = 1
        for d in ashape:
            n *= d
        a = shared_arr(mpc, secint, np.arange(1, n + 1).reshape(ashape))
        p = list(param)
        y = call(mpc, a, p)
        mutate(p, alt)
        return plain(await mpc.output(y))


np_param_case('runtime.np_transpose(a, axes:list)', lambda mpc, a, p: mpc.np_transpose(a, p), [0, 2, 1], 0,
              ashape=(2, 2, 2), muts=[('reverse', m_reverse)])
np_param_case('runtime.np_roll(a, shift, axis:list)', lambda mpc, a, p: mpc.np_roll(a, 1, axis=p), [0], 1,
              muts=[('overwrite', m_overwrite)])
np_param_case('runtime.np_flip(a, axis:list)', lambda mpc, a, p: mpc.np_flip(a, axis=p), [0], 1,
              muts=[('overwrite', m_overwrite), ('append', m_append)])
np_param_case('runtime.np_rot90(a, axes:list)', lambda mpc, a, p: mpc.np_rot90(a, 1, p), [0, 1], 0,
              muts=[('reverse', m_reverse)])
np_param_case('runtime.np_expand_dims(a, axis:list)', lambda mpc, a, p: mpc.np_expand_dims(a, p), [0], 2,
              ashape=(2, 2), muts=[('overwrite', m_overwrite)])
# not applicable (the unmutated call already fails): np_reshape(shape:list) without -1 (returnType asserts a tuple),
# np_roll(shift:list) (asserts int or secure), np_squeeze(axis:list) (NumPy wants a tuple), np_split(indices:list).


# ---- adjacent observation (not a container argument): finite field elements / field arrays are mutable under
# in-place operators and are aliased, not copied, by the secure-type constructors and by the coercion in
# SecureNumber.__add__/__mul__, so the same late read shows up for a caller-owned field element or field array

@case('ADJACENT runtime.mul(a, b:FiniteFieldElement)  [x * fe; fe += 1]', muts=[('iadd', lambda c, alt: c.__iadd__(1))])
async def _(mpc, mods, pid, mutate):
    secint = mpc.SecInt(32)
    x = shared(mpc, secint, [5])[0]
    fe = secint.field(3)
    y = x * fe
    mutate(fe, None)
    return plain(await mpc.output(y))


@case('ADJACENT runtime.add(a, secint(fe))  [x + fe; fe += 1]', muts=[('iadd', lambda c, alt: c.__iadd__(1))])
async def _(mpc, mods, pid, mutate):
    secint = mpc.SecInt(32)
    x = shared(mpc, secint, [5])[0]
    fe = secint.field(3)
    y = x + fe
    mutate(fe, None)
    return plain(await mpc.output(y))


@case('ADJACENT runtime.input(secint.array(fa:FiniteFieldArray))  [SecureArray ctor aliases fa]', needs_np=True,
      muts=[('elem-inplace', lambda c, alt: c.__setitem__(0, 100))])
async def _(mpc, mods, pid, mutate):
    secint = mpc.SecInt(32)
    fa = secint.field.array(np.array([1, 2, 3, 4]))
    y = mpc.input(secint.array(fa), senders=0)
    mutate(fa, None)
    return plain(await mpc.output(y))


# ---------------------------------------------------------------------------------------------------------
# driver

def run_one(c, mut, m, t, seed=1, ref=False, sync=False):
    """One fresh simulator per (case, mutation, config): a hang must not poison the next run."""
    sim = Sim(m=m, t=t, seed=seed, log_messages=False, track_tasks=False)
    task_excs = []

    def handler(loop, context):
        exc = context.get('exception')
        if exc is not None:
            task_excs.append(type(exc).__name__)
    try:
        if sync:        # synchronous mode = plain single-party run without -M: coroutines run to completion when called
            assert m == 1
            sim.mpcs[0].options.no_async = True
        st = sim.start()
        if not sim.started:
            return ('EXC', 'start failed %r' % (st,)), task_excs
        sim.loop.set_exception_handler(handler)
        fired = []

        def mutate(container, alt):
            fired.append(1)
            if mut is not None:
                mut(container, alt)
        mutate.ref = ref

        async def prog(mpc, mods, pid):
            return await c['body'](mpc, mods, pid, mutate)
        res = sim.run(prog, Fifo(), idle_limit=300, max_rounds=6000 if m == 1 else 200000)
        return res, task_excs
    except Exception as exc:   # noqa
        return ('EXC', 'driver: ' + repr(exc)), task_excs
    finally:
        sim.close()


def summarize(res, excs):
    """Per-party results -> one comparable value."""
    if isinstance(res, tuple):
        return res
    if any(r == 'PENDING' for r in res):
        return 'HANG' + ('[%s]' % ','.join(sorted(set(excs))) if excs else '')
    out = []
    for r in res:
        if isinstance(r, tuple) and r and r[0] == 'EXC':
            out.append('EXC:' + r[1][:60])
        else:
            out.append(r)
    if all(o == out[0] for o in out):
        return out[0]
    return out


def main():
    logging.disable(logging.CRITICAL)
    confirmed = {}
    for c in CASES:
        if c['needs_np'] and not HAVE_NP:
            print(f"SKIP {c['name']} (NumPy not importable; run with /verif/.venv-np/bin/python)")
            continue
        lines = {}
        for (m, t) in CONFIGS:
            try:
                want = summarize(*run_one(c, None, m, t))
            except Exception:
                want = 'DRIVER-ERROR ' + traceback.format_exc(limit=1).strip().splitlines()[-1]
            for mname, mut in c['muts']:
                if c['ref_per_mut']:
                    want = summarize(*run_one(c, mut, m, t, ref=True))
                try:
                    got = summarize(*run_one(c, mut, m, t))
                except Exception:
                    got = 'DRIVER-ERROR ' + traceback.format_exc(limit=1).strip().splitlines()[-1]
                cfg = f'm={m},t={t}'
                if m == 1 and got != want:
                    # the same program (mutation included) in synchronous mode must give `want`
                    try:
                        sy = summarize(*run_one(c, mut, 1, 0, sync=True))
                    except Exception:
                        sy = 'DRIVER-ERROR'
                    cfg += '(sync-mode:' + ('=want' if sy == want else repr(sy)) + ')'
                lines.setdefault((mname, repr(got), repr(want), got != want), []).append(cfg)
        is_control = c['name'].startswith('CONTROL')
        affected = False
        for (mname, got, want, diff), cfgs in lines.items():
            if diff:
                affected = True
                tag = 'LATE-READ' if not is_control else 'CONTROL-FAILED'
                print(f"{tag} {c['name']} {mname} got={got} want={want} cfg={';'.join(cfgs)}")
                confirmed.setdefault(c['name'], []).append(mname)
            elif SHOW_ALL:
                print(f"  same    {c['name']} {mname} got=want={want} cfg={';'.join(cfgs)}")
        if not affected:
            print(f"{'COPY-OK' if is_control else 'NOT-CONFIRMED'} {c['name']}")
        sys.stdout.flush()
    print('#', len(confirmed), 'functions/arguments with confirmed late reads:')
    for k, v in confirmed.items():
        print('#  ', k, '<-', ','.join(dict.fromkeys(v)))
    return 0


if __name__ == '__main__':
    try:
        main()
    except Exception:
        traceback.print_exc()
    sys.exit(0)
