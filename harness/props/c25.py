"""C25 — number-theory helpers of mpyc/gmpy.py (pure-Python stubs) compute what they should.

Proof: coq/props/C25.v over the executable model coq/theories/Gmpy.v.  Tie: every stub is run on
exhaustive small ranges and on random 64..512-bit inputs, on the same random.randint tape as the
model (evaluated by vm_compute), compared exactly (values and number of tape draws; exceptions as
an enum).  Independently the property itself is checked on the implementation against brute-force
definitions (math.gcd, trial division, factorisation-based Kronecker symbol, ...).
"""
import math
from lib.core import zlit, natlit

MANIFEST = {
    'text': 'Coq theorems (39, all closed under the global context) over a Gallina model of every stub in mpyc/gmpy.py, for all '
            'integers: gcdext terminates, returns g = gcd(a,b) = a*s + b*t and obeys the GMP normalisation of its docstring for '
            'ALL a, b (|s| < |b|/(2g), |t| < |a|/(2g) with exactly the documented exceptional cases); invert returns 0 <= y < |m| '
            '(0 < y if |m| > 1) with x*y = 1 mod |m| exactly when gcd(x,m) = 1 and m != 0, else ZeroDivisionError; powmod = x^y mod m '
            '(y >= 0); isqrt/is_square/iroot: r^n <= x < (r+1)^n and exactness flag, ValueError for negative x, is_square true iff a '
            'square; jacobi: ValueError exactly off-domain, terminates, value in {-1,0,1}, 0 iff gcd != 1, depends on x mod y only, '
            'equals Euler\'s criterion for every odd prime y < 400 (by computation, bound in the statement); kronecker = jacobi for '
            'odd y > 0; is_prime: prime x -> True for ALL tapes and round counts (Fermat\'s little theorem and square roots of 1 '
            'proved here), hence False -> composite; a squaring chain that reaches 1 is rejected by the model and a nontrivial '
            'square root of 1 / a failing base is a compositeness witness; next_prime/prev_prime return the nearest prime relative to a correct primality '
            'oracle; ratrec: sound, terminates, the reconstruction is unique and is returned exactly when it exists (ValueError '
            'exactly when none exists or the bounds are unsupported); factor_prime_power: sound, and relative to a correct oracle '
            'complete on prime powers, so ValueError only for non-prime-powers. The model is compared exactly with the stubs '
            '(results, exception class, number of random draws on a shared randint tape) on exhaustive ranges and random '
            '64..512-bit inputs on every run, and the stubs are checked against brute-force definitions; Carmichael numbers with '
            'all prime factors > 53 (which survive the trial division) are each tested on 20+ tapes, also through '
            'next_prime/prev_prime, and factor_prime_power on q^d for q in {1031, 1033, 2^31-1, 65537, 10007} and every listed d <= 50.',
    'note': 'Trusted: Coq kernel + vm_compute; model Gmpy.v (proofs also in GmpyGcdext.v, GmpyRatrec.v, GmpyFpp.v) tied to gmpy.py '
            'by the exact comparison of this check; built-ins pow/math.isqrt/math.gcd/bit_length/&,|,>> are modelled by pow3 '
            '(square-and-multiply, proved = Z.pow mod)/Z.sqrt/Z.gcd/Z.log2/Z.land.. and compared through the stubs that use them; '
            'random.randint is a tape. PARTIAL / NOT proved: jacobi = Jacobi symbol in general (needs quadratic reciprocity; only '
            'the facts above + Euler criterion below 400; oracle by factorisation on the implementation); "is_prime True -> prime" '
            'is probabilistic in the tape: only bounded statements (every trial-division survivor below 1024 is prime; for odd '
            'composites below 4096 at most 1/4 of the bases pass a round); kronecker for even/negative y only by oracle + '
            'correspondence; powmod with negative exponent only by correspondence; next/prev_prime search fuel is an explicit '
            'parameter of the model (no prime-gap bound is provable), so factor_prime_power completeness reads "Ok (q,k) or the '
            'model ran out of that search fuel" (all other loop fuels are proved sufficient); the ratrec theorems are about '
            'ratrec_core (explicit N, D); the default-N/D wrapper is covered by correspondence + oracle. In the quick tier the '
            'model is compared on sub-ranges for next/prev_prime ([-50,1500]) and factor_prime_power ([-5,420], [1015,1045], and '
            'the q^d up to 320 bits for a sub-selection of (q, d)) '
            'while implementation + oracle cover the full ranges. Oracle for >20-bit primality is an independent Miller-Rabin '
            'with 40 fixed prime bases. Finding F-C25-1 (iroot returned a value for negative x) is repaired by /repo commit 15b125f. '
            'Observation: is_square raises ValueError for negative x with x mod 16 in {0,1,4,9} and returns False for the other '
            'negatives (gmpy2 returns False). A model expression whose evaluation fails or times out is retried alone before it '
            'counts; wall-clock limits are 40 min per file.',
    'technique': 'Coq proofs (Euclid cofactor invariants, Fermat little theorem by permutation, lattice argument for Wang\'s '
                 'rational reconstruction, bit-loop invariants) + vm_compute correspondence on shared randint tapes + brute-force oracles',
}

M521 = 2 ** 521 - 1
SMALLP = (3, 5, 7, 11, 13, 17, 19, 23, 29, 31, 37, 41, 43, 47, 53)


def tape_val(seed, x, i, M):
    b = (seed + x) * (2 * i + 1) * 2654435761 + i
    return ((b * b + x * i) >> 7) & M


class TapeRandom:
    """Stands in for the `random` module inside mpyc.gmpy: randint from a tape (lazy function or list)."""

    def __init__(self, fn=None, lst=None):
        self.fn, self.lst, self.pos = fn, lst, 0

    def randint(self, lo, hi):
        if self.lst is not None:
            t = self.lst[self.pos] if self.pos < len(self.lst) else 0
        else:
            t = self.fn(self.pos)
        self.pos += 1
        return lo + t % (hi - lo + 1)


def canon(v):
    if isinstance(v, bool):
        return v
    if isinstance(v, int):
        return int(v)
    if isinstance(v, (tuple, list)):
        return tuple(canon(a) for a in v)
    if isinstance(v, float):
        return 'float'
    return repr(v)


def call(f, *a):
    try:
        return ('Ok', canon(f(*a)))
    except ValueError:
        return 'EValue'
    except ZeroDivisionError:
        return 'EZeroDiv'
    except AssertionError:
        return 'EAssert'
    except Exception as e:  # noqa
        return 'Other:' + type(e).__name__


# ------------------------------------------------------------------ independent oracles
def o_is_prime_small(x):
    if x < 2:
        return False
    d = 2
    while d * d <= x:
        if x % d == 0:
            return False
        d += 1
    return True


_FIRST40 = [p for p in range(2, 180) if o_is_prime_small(p)][:40]


def o_is_prime(x):
    """Independent primality: trial division below 10^6-ish, else Miller-Rabin with the first 40 primes as
    bases (deterministic below 3.3e24, otherwise probabilistic with fixed bases)."""
    if x < 2:
        return False
    if x < 1 << 20:
        return o_is_prime_small(x)
    for p in _FIRST40:
        if x % p == 0:
            return x == p
    d, r = x - 1, 0
    while d % 2 == 0:
        d //= 2
        r += 1
    for a in _FIRST40:
        y = 1
        e, b = d, a % x          # own square-and-multiply (not the built-in 3-argument pow)
        while e:
            if e & 1:
                y = y * b % x
            b = b * b % x
            e >>= 1
        if y in (1, x - 1):
            continue
        for _ in range(r - 1):
            y = y * y % x
            if y == x - 1:
                break
        else:
            return False
    return True


def o_factor(n):
    """Trial-division factorisation of n >= 1 (small n only) -> dict prime -> exponent."""
    f, d = {}, 2
    while d * d <= n:
        while n % d == 0:
            f[d] = f.get(d, 0) + 1
            n //= d
        d += 1
    if n > 1:
        f[n] = f.get(n, 0) + 1
    return f


def o_legendre(x, p):
    """Legendre symbol by the definition (is x a nonzero square modulo the odd prime p)."""
    x %= p
    if x == 0:
        return 0
    return 1 if any(r * r % p == x for r in range(1, p // 2 + 1)) else -1


def o_kronecker(x, y):
    """Kronecker symbol by multiplicativity over the factorisation of y."""
    if y == 0:
        return 1 if abs(x) == 1 else 0
    k = 1
    if y < 0:
        if x < 0:
            k = -1
        y = -y
    for p, e in o_factor(y).items():
        if p == 2:
            s = 0 if x % 2 == 0 else (1 if x % 8 in (1, 7) else -1)
        else:
            s = o_legendre(x, p)
        k *= s ** e
    return k


def o_isqrt(x):
    """Newton integer square root, independent of math.isqrt."""
    if x < 2:
        return x
    r = 1 << ((x.bit_length() + 1) // 2)
    while True:
        s = (r + x // r) // 2
        if s >= r:
            return r
        r = s


def o_prime_power(x):
    """(p, d) if x = p^d (small x by factorisation), else None."""
    if x < 2:
        return None
    f = o_factor(x)
    if len(f) == 1:
        (p, d), = f.items()
        return p, d
    return None


def o_ratrec(x, y, N, D):
    """All (n, d) with n = x d mod y, |n| <= N, 0 < d <= D, gcd(n, d) = 1, by brute force."""
    sols = []
    for d in range(1, D + 1):
        n = (x * d) % y
        for c in (n, n - y):
            if abs(c) <= N and math.gcd(c, d) == 1:
                sols.append((c, d))
    return sols


def sign(v):
    return (v > 0) - (v < 0)


def gcdext_normal(a, b, g, s, t):
    """The GMP convention quoted in the stub's docstring."""
    if a == 0 and b == 0:
        return (g, s, t) == (0, 0, 0)
    if abs(a) == abs(b) == g:
        return s == 0 and t == sign(b)
    oks = (s == sign(a)) if (b == 0 or abs(b) == 2 * g) else (2 * g * abs(s) < abs(b))
    okt = (t == sign(b)) if (a == 0 or abs(a) == 2 * g) else (2 * g * abs(t) < abs(a))
    return oks and okt


# ------------------------------------------------------------------ the check
def run(ctx):
    from mpyc import gmpy
    import random as _random
    if gmpy.version() != 'MPyC stubs':
        ctx.notes.append('gmpy2 is installed: the stubs are not the active code; reloading with MPYC_NOGMPY=1')
        import os, importlib
        os.environ['MPYC_NOGMPY'] = '1'
        gmpy = importlib.reload(gmpy)
    ok = ctx.build(['MPyC.Gmpy']) and ctx.check_props()
    rng = ctx.rng
    seed = rng.randrange(1, 10 ** 6)
    B = ctx.n(60, 160)          # binary grid [-B, B]^2
    U = ctx.n(4000, 40000)      # unary range [-50, U]
    NR = ctx.n(30, 300)         # random large cases per function
    NH = ctx.n(14, 120)         # ... for the functions whose model is expensive (modular exponentiation)
    ctx.rule = ('case = (function, arguments, randint tape); exhaustive grids [-%d,%d]^2 (binary) and [-50,%d] (unary), '
                'plus structured/random 64..512-bit arguments; non-trivial = does not take the first early-return of the '
                'function (e.g. gcdext with b != 0, is_prime reaching Miller-Rabin or a small-prime hit, invert with |m| > 1)'
                % (B, B, U))
    ctx.explanation = ('theorems over the Gallina model for all integers; model == stubs exactly (value, exception class, '
                       'number of randint draws) on every generated case; stubs checked against brute-force definitions')
    ctx.extra['exhaustive'] = True
    vcount = {}

    def viol(sig, detail):
        """Forward at most 5 violations per failing class (first word of sig) to the harness (one replay file each)."""
        key = sig.split(' ')[0]
        vcount[key] = vcount.get(key, 0) + 1
        if vcount[key] <= 5:
            ctx.violation(sig, detail)
    exprs, expect = [], []      # Coq expression -> expected parsed value (list-shaped)

    def add_range(fmt, lo, vals, pieces):
        """fmt with @ := 'zrange ..' evaluated over [lo, lo+len(vals)) in `pieces` separate expressions."""
        n = len(vals)
        step = max(1, -(-n // pieces))
        for i in range(0, n, step):
            exprs.append(fmt.replace('@', '(zrange %s %s)' % (zlit(lo + i), natlit(min(step, n - i)))))
            expect.append(vals[i:i + step])

    def add_list(fmt, items, vals, per):
        for i in range(0, len(items), per):
            exprs.append(fmt.replace('@', '[%s]' % '; '.join(items[i:i + per])))
            expect.append(vals[i:i + per])

    def add_grid(f, lo, rows, lo2, n2, pieces):
        """`grid f` over rows [lo, lo+len(rows)) x [lo2, lo2+n2), split by rows into `pieces` expressions."""
        n = len(rows)
        step = max(1, -(-n // pieces))
        for i in range(0, n, step):
            exprs.append('grid %s %s %s %s %s' % (f, zlit(lo + i), natlit(min(step, n - i)), zlit(lo2), natlit(n2)))
            expect.append(rows[i:i + step])

    def pairs_lit(ps):
        return ['(%s, %s)' % (zlit(a), zlit(b)) for a, b in ps]

    def big(bits=None):
        bits = bits or rng.choice([64, 65, 96, 127, 128, 200, 256, 257, 384, 512])
        return rng.choice([rng.getrandbits(bits) | (1 << (bits - 1)), (1 << bits) - 1, (1 << bits) + 1, 1 << bits,
                           rng.getrandbits(bits)])

    def sgn():
        return rng.choice([1, 1, -1])

    def gen_prime(bits):
        while True:
            c = rng.getrandbits(bits) | (1 << (bits - 1)) | 1
            if o_is_prime(c):
                return c

    # ---------------- gcdext
    rows = []
    for a in range(-B, B + 1):
        row = []
        for b in range(-B, B + 1):
            r = call(gmpy.gcdext, a, b)
            row.append(r)
            good = r != 'EValue' and isinstance(r, tuple)
            if good:
                g, s, t = r[1]
                good = g == math.gcd(a, b) and a * s + b * t == g
                if good and not gcdext_normal(a, b, g, s, t):
                    viol('gcdext-normalisation a=%d b=%d' % (a, b), {'f': 'gcdext', 'a': a, 'b': b, 'got': r})
            if not good:
                viol('gcdext-bezout a=%d b=%d' % (a, b), {'f': 'gcdext', 'a': a, 'b': b, 'got': r})
            ctx.case(['gcdext', a, b], nontrivial=b != 0, kind='gcdext grid')
        rows.append(row)
    add_grid('gcdext', -B, rows, -B, 2 * B + 1, ctx.n(3, 12))
    pairs = []
    for _ in range(NR):
        a, b = sgn() * big(), sgn() * big()
        k = rng.choice([0, 0, 1, 2, 3])
        if k == 1:
            c = big(64)
            a, b = a * c, b * c
        elif k == 2:
            b = 2 * math.gcd(a, b) * sign(b or 1) if a else b     # |b| = 2g
        elif k == 3:
            a = rng.choice([b, -b, 2 * b, -2 * b, 0])
        pairs.append((a, b))
    rs = []
    for a, b in pairs:
        r = call(gmpy.gcdext, a, b)
        rs.append(r)
        good = isinstance(r, tuple) and r[1][0] == math.gcd(a, b) and a * r[1][1] + b * r[1][2] == r[1][0]
        if not good:
            viol('gcdext-bezout big', {'f': 'gcdext', 'a': a, 'b': b, 'got': r})
        elif not gcdext_normal(a, b, *r[1]):
            viol('gcdext-normalisation big', {'f': 'gcdext', 'a': a, 'b': b, 'got': r})
        ctx.case(['gcdext', a, b], nontrivial=b != 0, kind='gcdext big')
    add_list('map (fun p => gcdext (fst p) (snd p)) @', pairs_lit(pairs), rs, 25)

    # ---------------- invert
    rows = []
    for x in range(-B, B + 1):
        row = []
        for m in range(-B, B + 1):
            r = call(gmpy.invert, x, m)
            row.append(r)
            am = abs(m)
            want_err = m == 0 or math.gcd(x, m) != 1
            if want_err:
                good = r == 'EZeroDiv'
            else:
                good = isinstance(r, tuple) and 0 <= r[1] < am and (x * r[1]) % am == 1 % am and (am == 1 or r[1] > 0)
            if not good:
                viol('invert x=%d m=%d' % (x, m), {'f': 'invert', 'x': x, 'm': m, 'got': r, 'want_error': want_err})
            ctx.case(['invert', x, m], nontrivial=abs(m) > 1, kind='invert grid')
        rows.append(row)
    add_grid('invert', -B, rows, -B, 2 * B + 1, ctx.n(3, 12))
    pairs = []
    for _ in range(NR):
        m = sgn() * big()
        x = rng.choice([sgn() * big(), rng.randrange(abs(m) + 1), big(32) * rng.choice([1, 2, 3, 5])])
        if rng.random() < 0.3 and m:
            g = math.gcd(x, m)
            x //= g
        pairs.append((x, m))
    rs = []
    for x, m in pairs:
        r = call(gmpy.invert, x, m)
        rs.append(r)
        if m == 0 or math.gcd(x, m) != 1:
            good = r == 'EZeroDiv'
        else:
            good = isinstance(r, tuple) and r[1] == pow(x, -1, abs(m))
        if not good:
            viol('invert big', {'f': 'invert', 'x': x, 'm': m, 'got': r})
        ctx.case(['invert', x, m], nontrivial=abs(m) > 1, kind='invert big')
    add_list('map (fun p => invert (fst p) (snd p)) @', pairs_lit(pairs), rs, 25)

    # ---------------- powmod
    PB = ctx.n(12, 25)
    trip = [(x, y, m) for x in range(-PB, PB + 1) for y in range(-4, 9) for m in range(-PB, PB + 1)]
    rs = []
    for x, y, m in trip:
        r = call(gmpy.powmod, x, y, m)
        rs.append(r)
        if m == 0:
            good = r == 'EValue'
        elif y >= 0:
            good = r == ('Ok', (x ** y) % m)
        else:
            am = abs(m)
            inv = [i for i in range(am) if (x * i) % am == 1 % am]
            good = (r == ('Ok', (inv[0] ** (-y)) % m)) if inv else r == 'EValue'
        if not good:
            viol('powmod x=%d y=%d m=%d' % (x, y, m), {'f': 'powmod', 'x': x, 'y': y, 'm': m, 'got': r})
        ctx.case(['powmod', x, y, m], nontrivial=m != 0 and y != 0, kind='powmod grid')
    full = [[[rs[(i * 13 + j) * (2 * PB + 1) + k] for k in range(2 * PB + 1)] for j in range(13)] for i in range(2 * PB + 1)]
    add_range('map (fun x => map (fun y => map (fun m => powmod x y m) (zrange %s %s)) (zrange (-4) 13)) @'
              % (zlit(-PB), natlit(2 * PB + 1)), -PB, full, ctx.n(2, 6))
    trip = []
    for _ in range(NH):
        # (cost of the model is cubic in the bit size: 512-bit exponents only now and then)
        eb = rng.choice(ctx.n([64, 96, 128, 200], [64, 96, 128, 200, 256]) + ([512] if rng.random() < 0.1 else []))
        m = sgn() * big(rng.choice([64, 128, 256, eb]))
        trip.append((sgn() * big(), rng.choice([big(eb), big(16), -1, -rng.randrange(2, 50)]), m))
    rs = []
    for x, y, m in trip:
        r = call(gmpy.powmod, x, y, m)
        rs.append(r)
        if isinstance(r, tuple):
            # independent: right-to-left binary exponentiation on (x or its inverse)
            base, e = (x, y) if y >= 0 else (pow(x, -1, abs(m)), -y)
            acc, bb = 1, base % m
            while e:
                if e & 1:
                    acc = acc * bb % m
                bb = bb * bb % m
                e >>= 1
            good = r[1] == acc % m
        else:
            good = (m == 0 or (y < 0 and math.gcd(x, m) != 1)) and r == 'EValue'
        if not good:
            viol('powmod big', {'f': 'powmod', 'x': x, 'y': y, 'm': m, 'got': r})
        ctx.case(['powmod', x, y, m], nontrivial=True, kind='powmod big')
    add_list('map (fun p => powmod (fst (fst p)) (snd (fst p)) (snd p)) @',
             ['(%s, %s, %s)' % (zlit(a), zlit(b), zlit(c)) for a, b, c in trip], rs, 3)

    # ---------------- jacobi / legendre / kronecker
    rowsj, rowsk = [], []
    for x in range(-B, B + 1):
        rj, rk = [], []
        for y in range(-B, B + 1):
            r = call(gmpy.jacobi, x, y)
            r2 = call(gmpy.legendre, x, y)
            rj.append(r)
            if y > 0 and y % 2 == 1:
                good = r == ('Ok', o_kronecker(x, y)) and r2 == r
            else:
                good = r == 'EValue' and r2 == r
            if not good:
                viol('jacobi x=%d y=%d' % (x, y), {'f': 'jacobi', 'x': x, 'y': y, 'got': r, 'legendre': r2})
            r = call(gmpy.kronecker, x, y)
            rk.append(r)
            if r != ('Ok', o_kronecker(x, y)):
                viol('kronecker x=%d y=%d' % (x, y), {'f': 'kronecker', 'x': x, 'y': y, 'got': r,
                                                        'want': o_kronecker(x, y)})
            ctx.case(['jacobi', x, y], nontrivial=y > 1 and y % 2 == 1, kind='jacobi grid')
            ctx.case(['kronecker', x, y], nontrivial=abs(y) > 1, kind='kronecker grid')
        rowsj.append(rj)
        rowsk.append(rk)
    add_grid('jacobi', -B, rowsj, -B, 2 * B + 1, ctx.n(3, 12))
    add_grid('kronecker', -B, rowsk, -B, 2 * B + 1, ctx.n(3, 12))
    pairs = []
    smallps = [p for p in range(3, 60) if o_is_prime_small(p)]
    for _ in range(NR):
        # y with known factorisation so that the symbol can be computed by the definition
        fs = [rng.choice(smallps + [2, 2]) for _ in range(rng.randrange(1, 9))]
        if rng.random() < 0.5:
            fs.append(gen_prime(rng.choice([40, 64, 100])))
        y = 1
        for p in fs:
            y *= p
        y *= sgn()
        x = sgn() * big(rng.choice([8, 64, 128, 300]))
        pairs.append((x, y, fs))
    rsj, rsk = [], []
    for x, y, fs in pairs:
        want = 1
        if y < 0 and x < 0:
            want = -1
        for p in fs:
            if p == 2:
                want *= 0 if x % 2 == 0 else (1 if x % 8 in (1, 7) else -1)
            else:
                e = pow(x % p, (p - 1) // 2, p)      # Euler's criterion for the prime factors
                want *= -1 if e == p - 1 else e
        rk = call(gmpy.kronecker, x, y)
        rsk.append(rk)
        if rk != ('Ok', want):
            viol('kronecker big', {'f': 'kronecker', 'x': x, 'y': y, 'factors': fs, 'got': rk, 'want': want})
        rj = call(gmpy.jacobi, x, y)
        rsj.append(rj)
        if (rj != ('Ok', want)) if (y > 0 and y % 2) else (rj != 'EValue'):
            viol('jacobi big', {'f': 'jacobi', 'x': x, 'y': y, 'factors': fs, 'got': rj, 'want': want})
        ctx.case(['kronecker', x, y], nontrivial=True, kind='kronecker big')
    lit = ['(%s, %s)' % (zlit(a), zlit(b)) for a, b, _ in pairs]
    add_list('map (fun p => jacobi (fst p) (snd p)) @', lit, rsj, 25)
    add_list('map (fun p => kronecker (fst p) (snd p)) @', lit, rsk, 25)

    # ---------------- isqrt / is_square / iroot
    LO = -50
    r1, r2 = [], []
    for x in range(LO, U + 1):
        a = call(gmpy.isqrt, x)
        b = call(gmpy.is_square, x)
        r1.append(a)
        r2.append(b)
        if x >= 0:
            good = isinstance(a, tuple) and a[1] >= 0 and a[1] ** 2 <= x < (a[1] + 1) ** 2
            goodb = b == ('Ok', any(r * r == x for r in range(0, int(x ** 0.5) + 2)))
        else:
            good = a == 'EValue'
            goodb = b in (('Ok', False), 'EValue')     # negative: not a square; raising counts as "invalid input"
        if not good:
            viol('isqrt x=%d' % x, {'f': 'isqrt', 'x': x, 'got': a})
        if not goodb:
            viol('is_square x=%d' % x, {'f': 'is_square', 'x': x, 'got': b})
        ctx.case(['isqrt', x], nontrivial=x > 0, kind='isqrt/is_square range')
    add_range('map isqrt @', LO, r1, ctx.n(2, 8))
    add_range('map is_square @', LO, r2, ctx.n(2, 8))
    xs = []
    for _ in range(NR):
        r = big(rng.choice([32, 64, 100, 256]))
        xs.append(rng.choice([r * r, r * r + 1, r * r - 1, r * r + 2 * r, big(), (r * r) << 4, r * r * 16 + 16]))
    r1, r2 = [], []
    for x in xs:
        a, b = call(gmpy.isqrt, x), call(gmpy.is_square, x)
        r1.append(a)
        r2.append(b)
        s = o_isqrt(x)
        if a != ('Ok', s) or not (s * s <= x < (s + 1) ** 2):
            viol('isqrt big', {'f': 'isqrt', 'x': x, 'got': a})
        if b != ('Ok', s * s == x):
            viol('is_square big', {'f': 'is_square', 'x': x, 'got': b})
        ctx.case(['isqrt', x], nontrivial=True, kind='isqrt/is_square big')
    add_list('map isqrt @', [zlit(x) for x in xs], r1, 25)
    add_list('map is_square @', [zlit(x) for x in xs], r2, 25)
    NLO, NHI = -3, 9
    rows = []
    for x in range(LO, U + 1):
        row = []
        for n in range(NLO, NHI + 1):
            r = call(gmpy.iroot, x, n)
            row.append(r)
            if x >= 0 and n >= 1:
                good = isinstance(r, tuple) and r[1][0] >= 0 and r[1][0] ** n <= x < (r[1][0] + 1) ** n \
                    and r[1][1] == (r[1][0] ** n == x)
                if not good:
                    viol('iroot x=%d n=%d' % (x, n), {'f': 'iroot', 'x': x, 'n': n, 'got': r})
            elif x < 0:
                # invalid input: ValueError, as gmpy2.iroot (stub repaired by /repo commit 15b125f)
                if r != 'EValue':
                    viol('iroot-negative-x x=%d n=%d' % (x, n), {'f': 'iroot', 'x': x, 'n': n, 'got': r, 'want': 'ValueError'})
            elif x != 0 and isinstance(r, tuple):
                # x > 0, n <= 0 is invalid input; the only value returned is for x = 1, n < 0: 1 = 1**n exactly
                if not (n < 0 and x == 1 and r[1] == (1, True)):
                    viol('iroot-nonpositive-n x=%d n=%d' % (x, n), {'f': 'iroot', 'x': x, 'n': n, 'got': r})
            ctx.case(['iroot', x, n], nontrivial=x > 1 and n >= 1, kind='iroot grid')
        rows.append(row)
    add_grid('iroot', LO, rows, NLO, NHI - NLO + 1, ctx.n(6, 60))
    pairs = []
    for _ in range(NH):
        n = rng.choice([1, 2, 3, 4, 5, 7, 10, 64, 1000])
        r = big(rng.choice([8, 16, 40, 64] if n <= 64 else [3, 8]))
        pairs.append((rng.choice([r ** n, r ** n + 1, r ** n - 1, (r + 1) ** n - 1, big()]), n))
    rs = []
    for x, n in pairs:
        r = call(gmpy.iroot, x, n)
        rs.append(r)
        good = isinstance(r, tuple) and r[1][0] ** n <= x < (r[1][0] + 1) ** n and r[1][1] == (r[1][0] ** n == x)
        if not good:
            viol('iroot big', {'f': 'iroot', 'x': x, 'n': n, 'got': r})
        ctx.case(['iroot', x, n], nontrivial=True, kind='iroot big')
    add_list('map (fun p => iroot (fst p) (snd p)) @', pairs_lit(pairs), rs, 6)

    # ---------------- is_prime / next_prime / prev_prime (exhaustive, generated tapes)
    sieve = [o_is_prime_small(x) for x in range(0, U + 200)]
    MS, MB = (1 << 20) - 1, (1 << 300) - 1     # tape masks for small / large arguments

    def tapefn(x, M):
        return lambda i: tape_val(seed, x, i, M)

    rip, rnp, rpp = [], [], []
    for x in range(LO, U + 1):
        gmpy.random = T = TapeRandom(fn=tapefn(x, MS))
        r = gmpy.is_prime(x)
        rip.append((bool(r), T.pos))
        if bool(r) != (x >= 0 and sieve[x]):
            viol('is_prime x=%d' % x, {'f': 'is_prime', 'x': x, 'got': r, 'seed': seed})
        ctx.case(['is_prime', x, seed], nontrivial=x > 2 and x % 2 == 1, kind='is_prime range')
        gmpy.random = T = TapeRandom(fn=tapefn(x, MS))
        r = call(gmpy.next_prime, x)
        rnp.append((r, T.pos))
        want = next(q for q in range(max(x + 1, 0), U + 200) if sieve[q])
        if r != ('Ok', want):
            viol('next_prime x=%d' % x, {'f': 'next_prime', 'x': x, 'got': r, 'want': want, 'seed': seed})
        gmpy.random = T = TapeRandom(fn=tapefn(x, MS))
        r = call(gmpy.prev_prime, x)
        rpp.append((r, T.pos))
        want = ('Ok', next(q for q in range(x - 1, 1, -1) if sieve[q])) if x >= 3 else 'EValue'
        if r != want:
            viol('prev_prime x=%d' % x, {'f': 'prev_prime', 'x': x, 'got': r, 'want': want, 'seed': seed})
        ctx.case(['next_prime', x, seed], nontrivial=x > 1, kind='next/prev_prime range')
    add_range('map (run_is_prime %s %s) @' % (zlit(MS), zlit(seed)), LO, rip, ctx.n(3, 12))
    UM = ctx.n(1500, U)      # the model is compared on [LO, UM]; implementation + oracle cover all of [LO, U]
    add_range('map (run_next_prime 200 %s %s) @' % (zlit(MS), zlit(seed)), LO, rnp[:UM + 1 - LO], ctx.n(6, 40))
    add_range('map (run_prev_prime 200 %s %s) @' % (zlit(MS), zlit(seed)), LO, rpp[:UM + 1 - LO], ctx.n(6, 40))
    # structured / large: Carmichael numbers, strong pseudoprimes, Mersenne primes, products of two primes, random
    special = [561, 1105, 1729, 2047, 2465, 2821, 6601, 8911, 3215031751, 3825123056546413051, 318665857834031151167461,
               2 ** 61 - 1, 2 ** 89 - 1, 2 ** 107 - 1, 2 ** 64 + 13, 2 ** 128 + 51,
               59 * 59, 59 * 61, 61 * 67, 3 * (2 ** 100 + 277), (2 ** 31 - 1) * (2 ** 61 - 1),
               1194649, 12327121, 4033, 4681, 5461, 15841, 29341, 52633, 65281, 74665, 90751]
    cases = list(special)
    for _ in range(NH):
        b = rng.choice(ctx.n([64, 80, 96, 128], [64, 80, 128, 160, 256]))
        k = rng.randrange(4)
        if k == 0:
            cases.append(gen_prime(b))
        elif k == 1:
            cases.append(gen_prime(b // 2) * gen_prime(b // 2))
        elif k == 2:
            p = gen_prime(b // 2)
            cases.append(p * p)
        else:
            cases.append(big(b) | 1)
    tapes = [[rng.getrandbits(rng.choice([8, 64, 300])) for _ in range(25)] for _ in cases]
    rs = []
    for x, tp in zip(cases, tapes):
        gmpy.random = T = TapeRandom(lst=tp)
        r = gmpy.is_prime(x)
        rs.append((bool(r), T.pos))
        if bool(r) != o_is_prime(x):
            viol('is_prime big', {'f': 'is_prime', 'x': x, 'tape': tp, 'got': r})
        ctx.case(['is_prime', x, tp[:3]], nontrivial=True, kind='is_prime big/special')
    add_list('map (fun p => used (is_prime (of_list (snd p)) (fst p))) @',
             ['(%s, [%s]%%Z)' % (zlit(x), '; '.join(map(str, tp))) for x, tp in zip(cases, tapes)], rs, 5)
    # n = 0, 1, 3 rounds (is_prime_n) with base 2 (tape of zeros): exhibits liars; large Mersenne primes with few rounds
    few = [(x, n) for x in special[:12] for n in (0, 1, 3)] + [(2 ** 127 - 1, 5), (2 ** 521 - 1, 1), (2 ** 127 - 1, 0)]
    rs = []
    for x, n in few:
        gmpy.random = T = TapeRandom(lst=[0] * n)
        r = gmpy.is_prime(x, n)
        rs.append((bool(r), T.pos))
        if not r and o_is_prime(x):       # fewer rounds may accept composites (liars); primes must still pass
            viol('is_prime few rounds rejects prime', {'f': 'is_prime', 'x': x, 'n': n, 'got': r})
        ctx.case(['is_prime_n', x, n], nontrivial=n > 0, kind='is_prime few rounds')
    add_list('map (fun p => used (is_prime_n (snd p) (of_list []) (fst p))) @',
             ['(%s, %s)' % (zlit(x), natlit(n)) for x, n in few], rs, 13)
    # Carmichael numbers all of whose prime factors exceed 53 (they survive the trial division) and with
    # n = 1 mod 4 (so that the squaring loop runs): every coprime base is a Fermat liar, only the strong test
    # (a chain that reaches 1 without passing n-1 is a WITNESS) rejects them.  Each is tested on many tapes:
    # is_prime must say False every time.  Plus composites p(2p-1) and pq with many strong liars.
    ps = [p for p in range(59, ctx.n(900, 1500)) if o_is_prime_small(p)]
    carm = []
    for i, p1 in enumerate(ps):
        for j in range(i + 1, len(ps)):
            p2 = ps[j]
            for p3 in ps[j + 1:]:
                n = p1 * p2 * p3
                if (n - 1) % (p1 - 1) == 0 and (n - 1) % (p2 - 1) == 0 and (n - 1) % (p3 - 1) == 0 and n % 4 == 1:
                    carm.append(n)
    k = 9
    while len([c for c in carm if c > 10 ** 9]) < ctx.n(4, 12):     # Chernick (6k+1)(12k+1)(18k+1)
        if all(o_is_prime(q) for q in (6 * k + 1, 12 * k + 1, 18 * k + 1)) and (6 * k + 1) * (12 * k + 1) * (18 * k + 1) not in carm:
            carm.append((6 * k + 1) * (12 * k + 1) * (18 * k + 1))
        k += 1
    carm = sorted(set(carm))
    carm = sorted(set(carm[:ctx.n(10, 40)] + carm[-ctx.n(4, 12):] + [3828001, 6189121, 56052361]))
    liarprone = [p * (2 * p - 1) for p in ps if o_is_prime(2 * p - 1)][:ctx.n(4, 10)] + [59 * 61, 61 * 67, 101 * 103]
    NT = ctx.n(20, 40)      # tapes per number
    crs = []
    for x in carm + liarprone:
        rs = []
        for j in range(NT):
            gmpy.random = T = TapeRandom(fn=lambda i, x=x, j=j: tape_val(seed + j, x, i, MB))
            r = gmpy.is_prime(x)
            rs.append((bool(r), T.pos))
            if r:
                viol('is_prime accepts composite x=%d' % x, {'f': 'is_prime', 'x': x, 'got': r, 'seed': seed + j,
                                                           'note': 'Carmichael / liar-prone composite with all prime factors > 53'})
            ctx.case(['is_prime', x, seed + j], nontrivial=True, kind='is_prime Carmichael/liar-prone')
        crs.append(rs)
    add_list('map (fun x => map (fun sd => run_is_prime %s sd x) (zrange %s %s)) @' % (zlit(MB), zlit(seed), natlit(NT)),
             [zlit(x) for x in carm + liarprone], crs, 6)
    # ... and through next_prime / prev_prime (which must step over them)
    rn, rp = [], []
    for x in carm[:ctx.n(6, 30)]:
        gmpy.random = T = TapeRandom(fn=tapefn(x - 1, MB))
        r = call(gmpy.next_prime, x - 1)
        rn.append((r, T.pos))
        q = x + 1
        while not o_is_prime(q):
            q += 1
        if r != ('Ok', q):
            viol('next_prime stops at composite x=%d' % x, {'f': 'next_prime', 'x': x - 1, 'got': r, 'want': q, 'seed': seed})
        gmpy.random = T = TapeRandom(fn=tapefn(x + 1, MB))
        r = call(gmpy.prev_prime, x + 1)
        rp.append((r, T.pos))
        q = x - 1
        while not o_is_prime(q):
            q -= 1
        if r != ('Ok', q):
            viol('prev_prime stops at composite x=%d' % x, {'f': 'prev_prime', 'x': x + 1, 'got': r, 'want': q, 'seed': seed})
        ctx.case(['next_prime', x - 1, seed], nontrivial=True, kind='next/prev_prime around Carmichael')
    add_list('map (run_next_prime 3000 %s %s) @' % (zlit(MB), zlit(seed)), [zlit(x - 1) for x in carm[:ctx.n(6, 30)]], rn, 3)
    add_list('map (run_prev_prime 3000 %s %s) @' % (zlit(MB), zlit(seed)), [zlit(x + 1) for x in carm[:ctx.n(6, 30)]], rp, 3)
    # next/prev on large arguments
    big_np = [big(rng.choice(ctx.n([64, 65, 80, 100], [64, 100, 128, 200]))) for _ in range(ctx.n(6, 24))]
    rn, rp = [], []
    for x in big_np:
        gmpy.random = T = TapeRandom(fn=tapefn(x, MB))
        r = call(gmpy.next_prime, x)
        rn.append((r, T.pos))
        q = x + 1
        while not o_is_prime(q):
            q += 1
        if r != ('Ok', q):
            viol('next_prime big', {'f': 'next_prime', 'x': x, 'got': r, 'want': q, 'seed': seed})
        gmpy.random = T = TapeRandom(fn=tapefn(x, MB))
        r = call(gmpy.prev_prime, x)
        rp.append((r, T.pos))
        q = x - 1
        while not o_is_prime(q):
            q -= 1
        if r != ('Ok', q):
            viol('prev_prime big', {'f': 'prev_prime', 'x': x, 'got': r, 'want': q, 'seed': seed})
        ctx.case(['next_prime', x, seed], nontrivial=True, kind='next/prev_prime big')
    add_list('map (run_next_prime 3000 %s %s) @' % (zlit(MB), zlit(seed)), [zlit(x) for x in big_np], rn, 2)
    add_list('map (run_prev_prime 3000 %s %s) @' % (zlit(MB), zlit(seed)), [zlit(x) for x in big_np], rp, 2)

    # ---------------- factor_prime_power
    FU = ctx.n(1045, 6000)
    rs = []
    for x in range(-5, FU + 1):
        gmpy.random = T = TapeRandom(fn=tapefn(x, MS))
        r = call(gmpy.factor_prime_power, x)
        rs.append((r, T.pos))
        pp = o_prime_power(x)
        if r != (('Ok', pp) if pp else 'EValue'):
            viol('factor_prime_power x=%d' % x, {'f': 'factor_prime_power', 'x': x, 'got': r, 'want': pp, 'seed': seed})
        ctx.case(['factor_prime_power', x, seed], nontrivial=x > 1, kind='factor_prime_power range')
    # model compared on [-5, FM] and on [1015, FU] (around 2^10, where the small-prime phase ends); oracle on all
    FM = ctx.n(420, FU)
    add_range('map (run_fpp 100 %s %s) @' % (zlit(MS), zlit(seed)), -5, rs[:FM + 6], ctx.n(8, 60))
    if FM < FU:
        add_range('map (run_fpp 100 %s %s) @' % (zlit(MS), zlit(seed)), 1015, rs[1015 + 5:], 6)
    cases = []
    maxbits = ctx.n(420, 900)
    for _ in range(ctx.n(10, 80)):
        p = rng.choice([gen_prime(rng.choice([11, 12, 16, 20, 33, 64, 100])), rng.choice([1021, 1031, 1033, 2, 3, 1019])])
        d = rng.choice([1, 2, 3, 4, 5, 6, 7, 8, 9, 12, 15, 16, 25, 27, 30])
        if p.bit_length() * d > maxbits:
            d = rng.choice([1, 2, 3])
        x = p ** d
        k = rng.randrange(6)
        if k == 0:
            q = gen_prime(rng.choice([11, 20, 64]))
            cases.append((x * q, None if q != p else (p, d + 1)))
        elif k == 1:
            q, q2 = gen_prime(12), gen_prime(12)
            e = rng.choice([2, 3, 4, 6])
            cases.append(((q * q2) ** e, None if q != q2 else (q, 2 * e)))
        else:
            cases.append((x, (p, d)))
    rs = []
    for x, want in cases:
        gmpy.random = T = TapeRandom(fn=tapefn(x % 1000003, MB))
        r = call(gmpy.factor_prime_power, x)
        rs.append((r, T.pos))
        if r != (('Ok', want) if want else 'EValue'):
            viol('factor_prime_power big', {'f': 'factor_prime_power', 'x': x, 'got': r, 'want': want, 'seed': seed})
        ctx.case(['factor_prime_power', x, seed], nontrivial=True, kind='factor_prime_power big')
    add_list('map (fun x => used (factor_prime_power 100 (gen_tape %s %s (x mod 1000003)) x)) @' % (zlit(MB), zlit(seed)),
             [zlit(x) for x, _ in cases], rs, 2)
    # genuine prime powers q^d with q > 2^10 and EVERY exponent d (repeated odd prime factors of d: 9, 25, 27, 45, 49, ..)
    DS = ctx.n([1, 2, 3, 4, 5, 6, 8, 9, 10, 12, 15, 16, 18, 25, 27, 32, 36, 45, 49, 50], list(range(1, 51)))
    ppow = [(q, d) for q in (1031, 1033, 2 ** 31 - 1, 65537, 10007) for d in DS]
    rs = []
    for q, d in ppow:
        x = q ** d
        gmpy.random = T = TapeRandom(fn=tapefn(x % 1000003, MB))
        r = call(gmpy.factor_prime_power, x)
        rs.append((r, T.pos))
        if r != ('Ok', (q, d)):
            viol('factor_prime_power prime-power q=%d d=%d' % (q, d), {'f': 'factor_prime_power', 'x': x, 'q': q, 'd': d,
                                                                       'got': r, 'want': [q, d], 'seed': seed})
        ctx.case(['factor_prime_power', x, seed], nontrivial=True, kind='factor_prime_power q^d, q > 2^10')
    # the model is evaluated where it is affordable (its integer roots are slow on long operands: up to 320 bits in the quick tier, 1000 bits in the thorough one)
    sel = [i for i, (q, d) in enumerate(ppow) if q.bit_length() * d <= ctx.n(320, 1000)
           and (ctx.tier == 'thorough' or q == 1031 or d in (1, 2, 3, 9, 18, 25, 27, 45, 49))]
    add_list('map (fun x => used (factor_prime_power 100 (gen_tape %s %s (x mod 1000003)) x)) @' % (zlit(MB), zlit(seed)),
             [zlit(ppow[i][0] ** ppow[i][1]) for i in sel], [rs[i] for i in sel], 4)
    gmpy.random = _random

    # ---------------- ratrec
    RB = ctx.n(40, 90)
    rows = []
    for y in range(-3, RB + 1):
        row = []
        for x in range(-RB, RB + 1):
            r = call(gmpy.ratrec, x, y)
            row.append(r)
            if y >= 1:
                D = max(1, o_isqrt((y - 1) // 2))
                N = (y - 1) // (2 * D)
                sols = o_ratrec(x, y, N, D)
                good = (r == ('Ok', sols[0]) and len(sols) == 1) if sols else r == 'EValue'
            else:
                good = r == 'EValue'
            if not good:
                viol('ratrec x=%d y=%d' % (x, y), {'f': 'ratrec', 'x': x, 'y': y, 'got': r})
            ctx.case(['ratrec', x, y], nontrivial=y > 2, kind='ratrec default grid')
        rows.append(row)
    add_grid('(fun y x => ratrec x y None None)', -3, rows, -RB, 2 * RB + 1, ctx.n(2, 6))
    quads = []
    for _ in range(ctx.n(4000, 40000)):
        y = rng.randrange(-2, 200)
        quads.append((rng.randrange(-220, 220), y, rng.choice([None, rng.randrange(-2, 14)]), rng.choice([None, rng.randrange(-2, 14)])))
    for _ in range(NR):
        y = big()
        k = rng.randrange(3)
        if k == 0:      # a genuine fraction n/d mod y with small n, d
            D = o_isqrt(y // 2) or 1
            d, n = rng.randrange(1, D + 1), rng.randrange(-(D // 2), D // 2 + 1)
            while math.gcd(d, y) != 1:
                d += 1
            x = (n * pow(d, -1, y)) % y if y > 1 else 0
            quads.append((x, y, None, None))
        elif k == 1:
            N = big(rng.choice([8, 30, 60]))
            quads.append((rng.randrange(y), y, N, rng.choice([None, max(1, (y - 1) // (2 * N) - rng.randrange(3))])))
        else:
            quads.append((sgn() * big(), y, None, rng.choice([None, big(16)])))
    rs = []
    for x, y, N, D in quads:
        r = call(gmpy.ratrec, x, y, N, D)
        rs.append(r)
        # effective bounds as documented
        try:
            if N is None:
                De = max(1, o_isqrt((y - 1) // 2)) if D is None else D
                if (y - 1) // 2 < 0 and D is None:
                    raise ValueError
                Ne = (y - 1) // (2 * De)
            else:
                Ne = N
                De = D if D is not None else ((y - 1) // (2 * N) if N else 1)
            supported = not (Ne < 0 or De <= 0 or 2 * Ne * De >= y)
        except ZeroDivisionError:
            supported = None
        except ValueError:
            supported = False
        if supported is None:
            good = r == 'EZeroDiv'
        elif not supported:
            good = r == 'EValue'
        elif isinstance(r, tuple):
            n, d = r[1]
            good = (n - x * d) % y == 0 and abs(n) <= Ne and 0 < d <= De and math.gcd(n, d) == 1
            if good and y < 1000:
                good = o_ratrec(x, y, Ne, De) == [(n, d)]
        else:
            good = r == 'EValue' and (y >= 1000 or not o_ratrec(x, y, Ne, De))
        if not good:
            viol('ratrec N/D', {'f': 'ratrec', 'x': x, 'y': y, 'N': N, 'D': D, 'got': r})
        ctx.case(['ratrec', x, y, N, D], nontrivial=bool(supported), kind='ratrec N/D')

    def opt(v):
        return 'None' if v is None else '(Some %s)' % zlit(v)
    for i in range(0, len(quads), 1000):
        exprs.append('map (fun q => ratrec (fst (fst (fst q))) (snd (fst (fst q))) (snd (fst q)) (snd q)) [%s]'
                     % '; '.join('(%s, %s, %s, %s)' % (zlit(x), zlit(y), opt(N), opt(D)) for x, y, N, D in quads[i:i + 1000]))
        expect.append(rs[i:i + 1000])

    # ---------------- model vs implementation
    ctx.log('%d implementation cases; evaluating %d model expressions in Coq' % (ctx.evaluations, len(exprs)))
    if ok:
        res = eval_retry(ctx, ['MPyC.Gmpy'], exprs, chunk=1, jobs=14)
        mism, ncmp = 0, 0
        for e, r, w in zip(exprs, res, expect):
            if isinstance(r, tuple) and r and r[0] == 'ERROR':
                mism += 1
                ctx.broken.append({'kind': 'correspondence', 'what': 'coq evaluation failed', 'expr': e[:200], 'detail': r[1]})
                continue
            bad = diff(r, w)
            ncmp += count_leaves(w)
            if bad is not None:
                mism += 1
                ctx.broken.append({'kind': 'correspondence', 'expr': e[:160], 'index': bad[0], 'model': str(bad[1])[:300],
                                   'impl': str(bad[2])[:300]})
        ctx.extra['traces_validated_against_impl'] = ncmp if not mism else 0
        ctx.log('model/implementation: %d results compared, %d expressions disagree' % (ncmp, mism))
    if ctx.broken and not ctx.violations:
        ctx.unproved('C25 model/proof', {'broken': ctx.broken[:5]})


def norm(v):
    """Normalise parsed Coq values and Python expectations to one shape."""
    if isinstance(v, (list, tuple)):
        return tuple(norm(a) for a in v)
    return v


def count_leaves(w):
    if isinstance(w, list):
        return sum(count_leaves(a) for a in w)
    return 1


def diff(r, w, path=()):
    """First position where the parsed model output r differs from the expectation w (lists recurse)."""
    if isinstance(w, list):
        if not isinstance(r, list) or len(r) != len(w):
            return (list(path), 'shape %s' % (len(r) if isinstance(r, list) else type(r).__name__), 'len %d' % len(w))
        for i, (a, b) in enumerate(zip(r, w)):
            d = diff(a, b, path + (i,))
            if d is not None:
                return d
        return None
    return None if norm(r) == norm(w) else (list(path), r, w)


def eval_retry(ctx, requires, exprs, chunk=1, jobs=14, timeout=2400):
    """ctx.coq_eval with a generous wall-clock limit (a loaded machine must never turn into a verdict);
    expressions whose chunk failed are evaluated once more, one per file and sequentially-ish, before
    they count as broken."""
    res = ctx.coq_eval(requires, exprs, chunk=chunk, jobs=jobs, timeout=timeout)
    bad = [i for i, r in enumerate(res) if isinstance(r, tuple) and r and r[0] == 'ERROR']
    if bad:
        ctx.log('%d expressions failed to evaluate; retrying them alone' % len(bad))
        again = ctx.coq_eval(requires, [exprs[i] for i in bad], chunk=1, jobs=2, timeout=2 * timeout)
        for i, r in zip(bad, again):
            res[i] = r
        ctx.notes.append('%d model expressions needed a second evaluation (first one failed or timed out)' % len(bad))
    return res
