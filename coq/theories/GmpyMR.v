(** Miller-Rabin witnesses for the [is_prime] model of Gmpy.v: the squaring chain must reach [x-1];
    reaching [1] from something that is neither [1] nor [x-1] exhibits a nontrivial square root of 1
    and is a proof of compositeness (the model rejects, and rightly so). *)
Require Import MPyC.Gmpy.
From Coq Require Import ZArith Znumtheory Lia List Bool.
Local Open Scope Z_scope.

Lemma mr_inner_one : forall k x, 2 < x -> mr_inner k 1 x = false.
Proof.
  induction k as [|k IH]; intros x Hx; cbn [mr_inner]; [reflexivity|].
  cbv zeta. rewrite Z.mul_1_l, Z.mod_1_l by lia.
  destruct (1 =? x - 1) eqn:E; [apply Z.eqb_eq in E; lia|]. apply IH; exact Hx.
Qed.

(** once the chain squares to 1 the round is lost (the model never "passes" on reaching 1) ... *)
Theorem mr_sqrt_of_one_rejected : forall x k b, 2 < x -> (b * b) mod x = 1 -> mr_inner k b x = false.
Proof.
  intros x k b Hx Hb. destruct k as [|k]; cbn [mr_inner]; [reflexivity|].
  cbv zeta. rewrite Hb.
  destruct (1 =? x - 1) eqn:E; [apply Z.eqb_eq in E; lia|]. apply mr_inner_one; exact Hx.
Qed.

(** ... and rightly: a square root of 1 other than 1 and x-1 proves x composite *)
Theorem mr_nontrivial_sqrt_witness : forall x b, 0 <= b < x -> b <> 1 -> b <> x - 1 ->
  (b * b) mod x = 1 -> ~ prime x.
Proof.
  intros x b Hb H1 Hm Hsq Hp.
  destruct (sqrt1_mod_prime x b Hp Hsq) as [E|E]; rewrite Z.mod_small in E by lia; contradiction.
Qed.

(** a base on which a round of the model fails is a compositeness witness *)
Theorem mr_round_false_witness : forall x sp r s a, x - 1 = Zpos sp -> twos sp = (r, s) ->
  2 <= a <= x - 2 -> mr_round x r s a = false -> ~ prime x.
Proof.
  intros x sp r s a Hx Ht Ha Hf Hp.
  destruct (PD.twos_spec sp r s Ht) as (Hr & Hs & Hd).
  rewrite (PD.mr_round_prime x r s a Hp Hr Hs) in Hf; [discriminate| |exact Ha].
  rewrite Hx. exact Hd.
Qed.
