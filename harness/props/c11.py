"""C11 — shares of every secure value form a consistent degree-t sharing.

Proof: coq/props/C11.v (expression language: input, constants, PRSS randoms, linear ops, multiplication
with GRR resharing; any labels / tapes).  Tie: TRACE REPLAY — m real Runtime objects run generated
straight-line programs in the simulator; after every operation all m shares are gathered; every
dealing (thresha.random_split call: label pc, dealt values, coefficients drawn) is logged from outside;
the Coq model recomputes ALL m shares of every input and every product from the operand shares and
the logged tapes, compared exactly.  An independent interpolation oracle checks degree <= t and the
constant term of every value on the implementation.
"""
from lib.core import zlist, natlit, zlit
from props.c15 import interp_ok

MANIFEST = {
    'text': 'Theorem in Coq (abstract field, all m,t with 2t+1<=m, all labels and dealer tapes, all PRF tables): every value of the '
            'expression language (input, public constants, PRSS randoms, + - neg, public scalars, secure multiplication = local '
            'product + GRR resharing) is held as one polynomial of degree <= t with constant term the value; resharing restores '
            'degree t; any >d parties (so every output receiver) recombine the value. Tie: share-level trace replay of simulator '
            'runs (all m shares of every input and product recomputed by the Z_p model from logged tapes) plus an interpolation '
            'oracle on every intermediate value.',
    'note': 'Trusted: Coq kernel+vm_compute; Proto.v models _reshare/mul/output/_distribute at share level (tied by exact replay '
            'for secure integers and prime fields; configurations (m,t) in {(1,0),(2,0),(3,1),(4,1),(5,2)(,(7,3))}, PRSS on/off). '
            'Composite masked protocols (comparisons, truncation, conversions ...) are covered for C11 by the oracle only (their '
            'results are gathered and interpolated), their value-level correctness is C01/C02/C06. secrets/PRF are tape oracles.',
    'technique': 'Coq proof by induction over programs (polynomial witnesses) + share-level trace replay in the multi-party simulator',
}


def gen_program(rng, n_ops, allow):
    """Straight-line program over value indices; first m values are the parties' inputs."""
    ops = []
    for _ in range(n_ops):
        k = rng.choice(allow)
        ops.append(k)
    return ops


def to_int(a):
    """Unsigned integer code of a dealt value: field element, plain int, or raw gfpx polynomial."""
    if isinstance(a, int):
        return a
    if hasattr(a, 'field') or type(a).__name__.endswith('FieldElement') or hasattr(type(a), 'modulus'):
        v = a.value
        return v if isinstance(v, int) else int(v)
    return int(a)


def run(ctx):
    from lib.sim import Sim, Fifo, RandomOrder
    import random
    ok = ctx.build(['MPyC.Exec']) and ctx.check_props()
    rng = ctx.rng
    configs = [(1, 0, None), (2, 0, None), (3, 1, None), (4, 1, None), (5, 2, None)] + (
        [(7, 3, None), (5, 1, None), (6, 2, None)] if ctx.tier == 'thorough' else [])
    # (m, t, t0) with t0 not None: the runtime comes up with threshold t0, the PRSS functions for the field orders used
    # below are obtained once (prfs(bound) is cached), then the program assigns mpc.threshold = t before start():
    # every sharing must have the degree of the threshold in force
    configs += [(5, 1, 2), (5, 2, 1), (4, 1, 0)] + ([(7, 2, 3), (3, 1, 0)] if ctx.tier == 'thorough' else [])
    ctx.rule = ('case = (m, t, prss, type, program of %d ops, inputs, seed); every intermediate value gathered at all parties; '
                'non-trivial when t >= 1' % ctx.n(10, 16))
    ctx.explanation = 'reachable_sharing theorem + exact share-level replay of inputs and multiplications + interpolation oracle'
    exprs, meta = [], []
    n_vals = 0
    for (m, t, t0) in configs:
        for no_prss in ((False, True) if t0 is None else (False,)):
            for rep in range(ctx.n(2, 5)):
                tnames = ['secint16', 'secfld101', 'secint64', 'secint32', 'secfld_big']
                ci = configs.index((m, t, t0))
                tname = tnames[(rep + 2 * ci + int(no_prss)) % 5] if rep < 5 else rng.choice(tnames)   # all types over the configs
                seed = rng.randrange(10**6)
                nops = ctx.n(10, 16)
                prog_ops = [rng.choice(['add', 'sub', 'neg', 'scal', 'mul', 'mul', 'mul', 'sq', 'rand', 'cmp', 'eq', 'addc', 'recip', 'bits'])
                            for _ in range(nops)]
                if tname.startswith('secfld'):
                    prog_ops[0] = 'recip'      # small-field reciprocal (zero-sharing masked opening) in every field program
                    prog_ops[-1] = 'recip'
                if tname == 'secint64':
                    prog_ops[0] = 'eq'         # l/2 > sec_param: == goes through the probabilistic zero test _is_zero
                    prog_ops[1] = 'eq'
                picks = [(rng.randrange(10**6), rng.randrange(10**6), rng.randrange(-5, 6)) for _ in range(nops)]
                inputs = [rng.choice([0, 1, -1, 2, 3, -7, 11]) for _ in range(m)]
                sim = Sim(m, t if t0 is None else t0, no_prss=no_prss, seed=seed)
                deal_log = [[] for _ in range(m)]
                try:
                    # log every dealing from outside
                    for i in range(m):
                        th = sim.mods[i]['mpyc.thresha']
                        orig = th.random_split

                        def wrapped(field, s, tt, mm, _o=orig, _i=i):
                            sec = sim.secrets[_i]
                            n0 = len(sec.log)
                            pc = sim.mpcs[_i]._program_counter[0]
                            vals = [to_int(a) for a in s]
                            r = _o(field, s, tt, mm)
                            drawn = [e[2] for e in sec.log[n0:]]
                            deal_log[_i].append({'pc': pc, 'vals': vals, 't': tt, 'm': mm, 'drawn': drawn})
                            return r
                        th.random_split = wrapped
                        sim.mods[i]['mpyc.runtime'].thresha.random_split = wrapped
                    if t0 is not None:
                        for mpc_i in sim.mpcs:
                            for st_ in (mpc_i.SecInt(16), mpc_i.SecInt(32), mpc_i.SecInt(64), mpc_i.SecFld(101), mpc_i.SecFld(modulus=2**61 - 1)):
                                mpc_i.prfs(st_.field.order)
                            mpc_i.threshold = t
                    if not all(x is True for x in sim.start()):
                        ctx.violation('start-failed m=%d t=%d' % (m, t), {'m': m, 't': t})
                        continue

                    async def prog(mpc, mods, pid):
                        if tname == 'secint16':
                            st = mpc.SecInt(16)
                        elif tname == 'secint32':
                            st = mpc.SecInt(32)
                        elif tname == 'secint64':
                            st = mpc.SecInt(64)
                        elif tname == 'secfld101':
                            st = mpc.SecFld(101)
                        else:
                            st = mpc.SecFld(modulus=2**61 - 1)
                        p = st.field.modulus
                        m_ = len(mpc.parties)
                        rec = []          # per value: (kind, operands..., own share)
                        vals = mpc.input(st(inputs[pid]))
                        for v in vals:
                            rec.append(('input', int((await mpc.gather(v)).value)))
                        vals = list(vals)
                        for k, (a, b, c) in zip(prog_ops, picks):
                            nbefore = len(deal_log[pid])
                            ia, ib = a % len(vals), b % len(vals)
                            if k in ('cmp', 'eq') or (k == 'recip' and not tname.startswith('secfld')):
                                ia, ib = a % m_, b % m_      # comparisons / abs only on the (small, in-range) inputs
                            x, y = vals[ia], vals[ib]
                            if k == 'add':
                                z = x + y
                            elif k == 'sub':
                                z = x - y
                            elif k == 'neg':
                                z = -x
                            elif k == 'scal':
                                z = c * x
                            elif k == 'addc':
                                z = x + c
                            elif k == 'mul':
                                z = x * y
                            elif k == 'sq':
                                z = x * x
                                ib = ia
                            elif k == 'rand':
                                z = mpc._random(st)
                            elif k == 'cmp':
                                z = (x == y) if tname.startswith('secfld') else (x < y)
                            elif k == 'eq':
                                if picks.index((a, b, c)) % 2 == 0:
                                    ib = ia
                                    y = x          # equal operands: the result must be 1
                                z = (x == y)
                            elif k == 'recip':
                                # field reciprocal (masked opening of a*r; zero-sharing with PRSS in small fields);
                                # x*x+1 is opened first so that only nonzero values are inverted; secint: |x| instead
                                if tname.startswith('secfld'):
                                    w = x * x + 1
                                    nz = await mpc.output(w)
                                    z = 1 / w if int(nz.value) != 0 else w
                                else:
                                    z = abs(x)
                            elif k == 'bits':
                                z = mpc.random_bits(st, 2)[1]
                            nb = nbefore
                            sh = int((await mpc.gather(z)).value)
                            rec.append((k, ia, ib, c, nb, len(deal_log[pid]), sh))
                            vals.append(z)
                        outs = await mpc.output(vals)
                        outs = [int(o.value) if hasattr(o, 'value') else int(o) for o in outs]
                        return {'p': int(p), 'rec': rec, 'outs': outs}
                    res = sim.run(prog, RandomOrder(random.Random(seed)) if rep % 2 else Fifo())
                    key = {'m': m, 't': t, 'no_prss': no_prss, 'type': tname, 'ops': prog_ops, 'inputs': inputs, 'seed': seed}
                    ctx.case(key, nontrivial=t >= 1, kind='m=%d t=%d prss=%s' % (m, t, not no_prss))
                    if any(not isinstance(r, dict) for r in res):
                        ctx.violation('program-did-not-complete m=%d t=%d' % (m, t), {**key, 'result': str(res)[:500]})
                        continue
                    p = res[0]['p']
                    nv = len(res[0]['rec'])
                    xs = list(range(1, m + 1))
                    # oracle: expected values by plain arithmetic mod p (random / cmp taken from outputs)
                    exp = []
                    for j in range(nv):
                        r0 = res[0]['rec'][j]
                        if r0[0] == 'input':
                            exp.append(inputs[j] % p)
                        else:
                            k, ia, ib, c = r0[0], r0[1], r0[2], r0[3]
                            if k == 'add':
                                v = exp[ia] + exp[ib]
                            elif k == 'sub':
                                v = exp[ia] - exp[ib]
                            elif k == 'neg':
                                v = -exp[ia]
                            elif k == 'scal':
                                v = c * exp[ia]
                            elif k == 'addc':
                                v = exp[ia] + c
                            elif k in ('mul', 'sq'):
                                v = exp[ia] * exp[ib]
                            elif k == 'recip' and tname.startswith('secfld'):
                                w = (exp[ia] * exp[ia] + 1) % p
                                v = pow(w, -1, p) if w else 0
                            elif k == 'recip':
                                v = abs(exp[ia] if exp[ia] <= p // 2 else exp[ia] - p)
                            elif k == 'eq':
                                v = int(exp[ia] == exp[ib])
                            else:
                                v = res[0]['outs'][j]       # rand / cmp / bits: value as opened
                                if k in ('cmp', 'bits') and v % p not in (0, 1):
                                    ctx.violation('bit-valued-result-not-a-bit op=%s m=%d t=%d' % (k, m, t), {**key, 'index': j, 'opened': v})
                            exp.append(v % p)
                        col = [res[i]['rec'][j][-1] for i in range(m)]
                        n_vals += 1
                        if len({tuple(res[i]['outs']) for i in range(m)}) != 1:
                            ctx.violation('parties-open-different-values m=%d t=%d' % (m, t), key)
                        if res[0]['outs'][j] % p != exp[j]:
                            # the opened value differs from plain arithmetic: report (C01/C04 territory, but also C11's secret)
                            ctx.violation('opened-value-wrong op=%s m=%d t=%d' % (r0[0], m, t),
                                          {**key, 'index': j, 'opened': res[0]['outs'][j], 'expected': exp[j]})
                        if not interp_ok(p, xs, col, t, exp[j]):
                            ctx.violation('shares-not-degree-t op=%s m=%d t=%d prss=%s' % (r0[0], m, t, not no_prss),
                                          {**key, 'index': j, 'shares': col, 'expected_value': exp[j], 'p': p})
                    # replay inputs and multiplications through the Coq model
                    if t >= 1:
                        ptr = [0] * m
                        for i in range(m):     # input dealing by party i is its first dealing
                            d = deal_log[i][0]
                            ptr[i] = 1
                            col = [res[q]['rec'][i][-1] for q in range(m)]
                            exprs.append('zp_split_col %s %s %s %s' % (zlit(p), natlit(m), zlist(d['drawn']), zlit(d['vals'][0])))
                            meta.append((key, 'input by %d' % i, col))
                        for j in range(m, nv):
                            r0 = res[0]['rec'][j]
                            if r0[0] in ('mul', 'sq'):
                                ia, ib = r0[1], r0[2]
                                s1 = [res[q]['rec'][ia][-1] for q in range(m)]
                                s2 = [res[q]['rec'][ib][-1] for q in range(m)]
                                col = [res[q]['rec'][j][-1] for q in range(m)]
                                # the dealings made while this operation was computed (each party awaits the result
                                # before starting the next operation): one per dealer, all with the same label
                                prod = [(a * b) % p for a, b in zip(s1, s2)]
                                ent = {}
                                for q in range(m):
                                    rq = res[q]['rec'][j]
                                    if rq[5] - rq[4] == 1:
                                        ent[q] = deal_log[q][rq[4]]
                                    elif rq[5] - rq[4] > 1:
                                        ent = None
                                        break
                                if not ent or len({e['pc'] for e in ent.values()}) != 1 or \
                                        any(e['vals'] != [prod[q]] for q, e in ent.items()):
                                    ctx.broken.append({'kind': 'replay-alignment', 'case': key, 'index': j,
                                                       'dealings': str(ent)[:300], 'local_products': prod})
                                    continue
                                pcs = {e['pc'] for e in ent.values()}
                                pc = pcs.pop()
                                uci = pc % m
                                want_dealers = sorted((uci + jj) % m for jj in range(2 * t + 1))
                                if sorted(ent) != want_dealers:
                                    ctx.violation('reshare-dealer-set m=%d t=%d' % (m, t),
                                                  {**key, 'index': j, 'dealers': sorted(ent), 'expected': want_dealers})
                                    continue
                                tapes = '[' + '; '.join('(%s, %s)' % (natlit(q), zlist(e['drawn'])) for q, e in sorted(ent.items())) + ']'
                                exprs.append('zp_mul_proto %s %s %s %s %s %s %s' % (
                                    zlit(p), natlit(m), natlit(t), natlit(uci), tapes, zlist(s1), zlist(s2)))
                                meta.append((key, 'mul #%d' % j, col))
                        # outputs: every receiver's recombination in the model
                        j = nv - 1
                        col = [res[q]['rec'][j][-1] for q in range(m)]
                        exprs.append('map (fun r => zp_output_at %s %s %s r %s) (seq 0 %s)' % (
                            zlit(p), natlit(m), natlit(t), zlist(col), natlit(m)))
                        meta.append((key, 'output', [res[0]['outs'][j] % p] * m))
                finally:
                    sim.close()
    # ---- tiny secure fields: with m >= q parties SecFld(q) is shared over a lifted field GF(q^e), which must have more
    # than m elements (distinct nonzero evaluation points); consistency is checked with the field's own arithmetic
    n_small = 0
    for (m, t, q) in [(4, 1, 2), (3, 1, 2), (3, 1, 3), (5, 2, 2), (5, 2, 3), (5, 2, 5)] + (
            [(8, 3, 2), (9, 4, 3), (7, 3, 7), (6, 2, 5)] if ctx.tier == 'thorough' else []):
        sim = Sim(m, t, seed=rng.randrange(10**6))
        try:
            if not all(x is True for x in sim.start()):
                ctx.violation('start-failed m=%d t=%d' % (m, t), {'m': m, 't': t})
                continue
            inputs = [rng.randrange(q) for _ in range(m)]

            async def prog_small(mpc, mods, pid):
                st = mpc.SecFld(q)
                xs = mpc.input(st(inputs[pid]))
                vals = list(xs)
                vals.append(xs[0] * xs[1])
                vals.append(xs[0] + xs[-1] * xs[1])
                vals.append((xs[0] + 1) * (xs[1] + xs[-1]))
                vals.append(vals[-1] * vals[-2])
                sh = await mpc.gather(vals)
                outs = await mpc.output(vals)
                fld = st.field
                return {'order': int(fld.order), 'shares': sh, 'outs': [int(o) for o in outs], 'field': fld}
            res = sim.run(prog_small, Fifo(), idle_limit=2000, max_rounds=400000)
            key = {'m': m, 't': t, 'secfld': q}
            ctx.case(key, nontrivial=True, kind='tiny secure field m=%d q=%d' % (m, q))
            if any(not isinstance(r, dict) for r in res):
                ctx.violation('tiny-field-run-failed SecFld(%d) m=%d t=%d' % (q, m, t), {**key, 'inputs': inputs, 'result': str(res)[:300]})
                continue
            if res[0]['order'] <= m:
                ctx.violation('sharing-field-not-larger-than-m SecFld(%d) m=%d t=%d' % (q, m, t), {**key, 'order': res[0]['order']})
            x0, x1, xl = inputs[0], inputs[1], inputs[-1]
            want = [v % q for v in inputs] + [x0 * x1 % q, (x0 + xl * x1) % q, (x0 + 1) * (x1 + xl) % q]
            want.append(want[-1] * want[-2] % q)
            th = sim.mods[0]['mpyc.thresha']
            F = res[0]['field']
            for j in range(len(want)):
                n_small += 1
                if any(res[i]['outs'][j] != want[j] for i in range(m)):
                    ctx.violation('tiny-field-output-wrong SecFld(%d) m=%d t=%d' % (q, m, t),
                                  {**key, 'inputs': inputs, 'value': j, 'got': [res[i]['outs'][j] for i in range(m)], 'want': want[j]})
                pts = [(i + 1, [F(int(res[i]['shares'][j].value))]) for i in range(m)]   # via int: each party has its own class copies
                base = pts[:t + 1]
                try:
                    bad = [x for (x, y) in pts[t + 1:] if th.recombine(F, base, x)[0] != y[0]]
                    sec = th.recombine(F, base, 0)[0]
                except ZeroDivisionError:
                    bad, sec = ['evaluation points collide'], None
                if bad or sec != F(want[j]):
                    ctx.violation('tiny-field-shares-inconsistent SecFld(%d) m=%d t=%d' % (q, m, t),
                                  {**key, 'inputs': inputs, 'value': j, 'off_polynomial_at': [str(b) for b in bad], 'secret': str(sec), 'want': want[j]})
        finally:
            sim.close()
    ctx.extra['tiny_field_values_checked'] = n_small
    ctx.extra['values_interpolated'] = n_vals
    ctx.log('%d values interpolated; %d replay expressions' % (n_vals, len(exprs)))
    if ok and exprs:
        out = ctx.coq_eval(['MPyC.Exec'], exprs, chunk=40)
        bad = 0
        for r, (key, what, col) in zip(out, meta):
            if r != col:
                bad += 1
                ctx.broken.append({'kind': 'correspondence', 'what': what, 'case': key, 'model': str(r)[:300], 'impl': col})
        ctx.extra['traces_validated_against_impl'] = len(exprs) - bad
        ctx.log('share-level replay: %d compared, %d disagreements' % (len(exprs), bad))
    if ctx.broken and not ctx.violations:
        ctx.unproved('C11 share-level replay / proof', {'broken': ctx.broken[:5]})
