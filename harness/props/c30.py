"""C30 — bit-level oblivious building blocks (runtime.add_bits, to_bits, from_bits, find,
unit_vector, trailing_zeros, gcp2) are correct for all inputs.

Proof: coq/props/C30.v over the value-level Gallina models coq/theories/Bits.v and FindUnit.v.
Tie: the REAL functions are run in-process (single party, value level) on the generated inputs; the
two sources of randomness inside to_bits / trailing_zeros (mpc.random_bits, mpc._random) are
replaced from outside by a recorded tape so that the model is evaluated on exactly the same tape.
Every result is compared (i) with an independent plain-Python oracle for the property and (ii)
exactly with the Coq model (vm_compute).
"""
import sys
import itertools
from lib.core import zlist, natlit, zlit, blit

MANIFEST = {
    'text': 'Coq theorems (all lengths / all l, by induction, no bound) over value-level models of runtime.py: add_bits_correct '
            '(addition mod 2^n, outputs are bits; carry/propagate invariant of the recursive f(i,j,high) over the shared arrays '
            'c,d); from_bits = value and from_bits(bits_of a l) = a mod 2^l; to_bits_num_correct (secint/secfxp incl. the integral '
            'shortcut), to_bits_gf2_correct, to_bits_gfp_correct: two\'s complement expansion of a mod 2^l for EVERY tape under '
            'the no-wrap condition of the masked opening (nowrap_from_ranges derives it from the code\'s ranges unless r_divl = 0 '
            'and l = L); trailing_zeros_correct (right up to and including the lowest 1); unit_vector_correct (e_a for all n, '
            '0 <= a < n) and unit_vector_wrap (a = n gives e_0); find_correct (f(first index) / f(e) / raw (nf, f(ix)) for the '
            'default, f-only, cs_f-only and both-given forms, public or secret a, bits or not, empty lists); gcp2_correct / gcp2_zero. The models are tied to '
            '/repo/mpyc/runtime.py on every run by exact comparison with the real functions on shared random tapes, and the '
            'real functions are compared with an independent plain-Python oracle on the same inputs. The same functions also run in the '
            'multi-party simulator (m=1 asynchronous, m=3 t=1, m=5 t=2, m=3 PRSS off; more in the thorough tier) on genuinely '
            'shared inputs (mpc.input), opened and compared with the oracle and the Coq model, incl. an aliasing stream '
            '(the caller mutates the list it passed before awaiting) and the in-package list-reusing caller runtime._norm.',
    'note': 'Value level (single party; operator overloading makes the routines party independent); arithmetic in Z with field '
            'reduction modelled only at the masked openings (all other values are bits or sums of three bits). The field-level '
            'a >> f is modelled by exact integer division (only executed for integral a, hypothesis 2^f | A). to_bits holds under '
            '0 <= a + 2^L + r_divl*2^l - r_modl < p, which fails only for r_divl = 0, l = L (probability <= 2^-k, the protocol\'s '
            'statistical error): C30_to_bits_wrap_witness, replayed on the implementation by forcing r_divl = 0. '
            'mpc.random_bits / mpc._random are tape oracles patched from outside for the draws made directly by to_bits and '
            'trailing_zeros (/repo untouched); conversions (GF(p) branch) keep the real generator and are trusted to be value '
            'preserving (checked by the oracle). In find, f / cs_f values are lists (int and tuple results are wrapped as the code '
            'does); find_correct assumes the docstring rule cs_f(b,i) = F(i+b) for i >= 0, b in {0,1} (F the effective f) and equal lengths of all F(i). unit_vector is '
            'modelled on the bits of a (to_bits composed separately); a > n is unspecified and only compared with the model. '
            'Defects (known_findings/C30.json): F-C30-1 (find with both f and cs_f raised UnboundLocalError) repaired in /repo by '
            'f1f6f50 and F-C30-2 (find([], 1) raised IndexError, so did gcp2(.., l=0)) repaired by 7bf810d: both forms are now '
            'ordinary cases of the oracle and of the model (C30_find_both_correct, C30_find_empty); still open: F-C30-3 '
            'to_bits(nonintegral secfxp, l > bit_length) is wrong although the assert admits l <= bit_length + frac_length '
            '(C30_to_bits_l_gt_bit_length_refuted). '
            'F-C30-4 (indexOf read the caller\'s list after its first await) repaired by e690f45 and covered by the aliasing '
            'stream; open: F-C30-5 np_unit_vector(a, n) with a secfxp index shifts the caller\'s share in place (a >>= f), '
            'checked at m=1 under the NumPy interpreter in a subprocess (call twice on the same index object / read it '
            'afterwards); the list version unit_vector and to_bits / trailing_zeros / gcp2 get the same reuse checks in the '
            'simulator and are not affected. '
            'In the simulator the tape of to_bits / trailing_zeros is genuinely distributed and not observable: there the model is '
            'evaluated on an arbitrary no-wrap tape (the result is tape independent by the theorems; for trailing_zeros only the '
            'specified prefix up to the lowest 1 is compared). np_add_bits / np_to_bits are not covered; np_unit_vector only by the index-reuse stream; np_find (NumPy sibling of '
            'find, no separate Coq model) is run at m=1 under the NumPy interpreter on 1-D/2-D/3-D arrays, every axis, scalar and '
            'array-valued public/secret s, the forms it supports (default, int f, cs_f int/pow/tuple, all e), against an oracle '
            'built from the list find semantics along the axis; sampled lanes are also compared with the Coq find model. Open: '
            'F-C30-6 np_find result axes swapped for ndim >= 3 and axis < ndim-2; F-C30-7 np_find raises for f together with '
            'cs_f and for tuple-valued f with e.',
    'technique': 'Coq proof by induction over the recursion structure + vm_compute correspondence on shared tapes + exhaustive small-domain oracle',
}


# --------------------------------------------------------------------------------------------
# plain-Python oracles (independent of the implementation and of the model)

def bits_ref(a, l):
    """Two's complement / binary expansion of a mod 2^l, lsb first."""
    a %= (1 << l) if l else 1
    return [(a >> i) & 1 for i in range(l)]


def first_index(x, a):
    for i, b in enumerate(x):
        if b == a:
            return i
    return None


def v2(a, l):
    """Index of the lowest set bit of a mod 2^l, or None."""
    a %= 1 << l
    if a == 0:
        return None
    return (a & -a).bit_length() - 1


# --------------------------------------------------------------------------------------------

class Tape:
    """Replaces mpc.random_bits / mpc._random; draws from the harness rng and records the draws."""

    def __init__(self, mpc, rng):
        self.mpc, self.rng = mpc, rng
        self.orig = (mpc.random_bits, mpc._random)
        self.bits_log, self.rand_log = [], []
        self.bits_mode = 'rand'
        self.div_mode = 'rand'

    def install(self):
        tape = self

        orig_bits, orig_rand = self.orig
        callers = ('to_bits', 'trailing_zeros')

        def random_bits(sftype, n, signed=False):
            # only the draws made directly by to_bits / trailing_zeros are put on the tape; every other
            # user of random bits (e.g. the conversions between types) keeps the real generator
            if sys._getframe(1).f_code.co_name not in callers:
                return orig_bits(sftype, n, signed=signed)
            field = sftype
            if tape.bits_mode == 'zero':
                bits = [0] * n
            elif tape.bits_mode == 'one':
                bits = [1] * n
            else:
                bits = [tape.rng.randrange(2) for _ in range(n)]
            tape.bits_log.append(bits)

            async def give():
                return [field(b) for b in bits]
            return give()

        def _random(sftype, bound=None):
            if sys._getframe(1).f_code.co_name not in callers:
                return orig_rand(sftype, bound)
            field = sftype
            if tape.div_mode == 'zero':
                v = 0
            elif tape.div_mode == 'max':
                v = bound - 1
            elif tape.div_mode == 'one':
                v = 1 % bound
            else:
                v = 1 + tape.rng.randrange(bound - 1) if bound > 1 else 0
            tape.rand_log.append(v)
            return field(v)

        self.mpc.random_bits = random_bits
        self.mpc._random = _random

    def uninstall(self):
        for name in ('random_bits', '_random'):
            if name in self.mpc.__dict__:
                del self.mpc.__dict__[name]

    def reset(self, bits_mode='rand', div_mode='rand'):
        self.bits_log, self.rand_log = [], []
        self.bits_mode, self.div_mode = bits_mode, div_mode


# argument forms: python callables and their Coq counterparts (values as lists)
def find_forms(nlen):
    return {
        'none': (None, None, 'None', 'None', lambda i: [i], True),
        'f_int': (lambda i: 3 * i + 1, None, '(Some (fun i => [3 * i + 1]))', 'None', lambda i: [3 * i + 1], True),
        'f_tuple': (lambda i: (i, i * i), None, '(Some (fun i => [i; i * i]))', 'None', lambda i: [i, i * i], True),
        'f_list': (lambda i: [nlen - i], None, '(Some (fun i => [%d - i]))' % nlen, 'None', lambda i: [nlen - i], True),
        'f_pow': (lambda i: 2**i, None, '(Some (fun i => [2 ^ i]))', 'None', lambda i: [2**i], False),
        'cs_int': (None, lambda b, i: i + b, 'None', '(Some (fun b i => [i + b]))', lambda i: [i], True),
        'cs_pow': (None, lambda b, i: (b + 1) << i, 'None', '(Some (fun b i => [(b + 1) * 2 ^ i]))', lambda i: [2**i], False),
        'cs_tuple': (None, lambda b, i: (i + b, (b + 1) * 2**i), 'None', '(Some (fun b i => [i + b; (b + 1) * 2 ^ i]))',
                     lambda i: [i, 2**i], False),
        'cs_list': (None, lambda b, i: [nlen - i - b], 'None', '(Some (fun b i => [%d - i - b]))' % nlen,
                    lambda i: [nlen - i], True),
        'both': (lambda i: [2 * i], lambda b, i: [2 * (i + b)], '(Some (fun i => [2 * i]))', '(Some (fun b i => [2 * (i + b)]))',
                 lambda i: [2 * i], True),
        'both_int': (lambda i: 3 * i + 1, lambda b, i: 3 * (i + b) + 1, '(Some (fun i => [3 * i + 1]))',
                     '(Some (fun b i => [3 * (i + b) + 1]))', lambda i: [3 * i + 1], True),
        'both_tuple': (lambda i: (i, 5 - i), lambda b, i: (i + b, 5 - i - b), '(Some (fun i => [i; 5 - i]))',
                       '(Some (fun b i => [i + b; 5 - i - b]))', lambda i: [i, 5 - i], True),
    }

def find_e_forms(nlen):
    return {
        'default': ({}, 'EStr 0', nlen),
        'raw': ({'e': None}, 'ERaw', None),
        'minus1': ({'e': -1}, 'EVal (-1)', -1),
        'len-1': ({'e': 'len(x)-1'}, 'EStr (-1)', nlen - 1),
        'val': ({'e': nlen + 3}, 'EVal %d' % (nlen + 3), nlen + 3),
    }



def exc_name(e):
    n = type(e).__name__
    return {'ZeroDivisionError': 'ZeroDiv', 'ValueError': 'Value', 'TypeError': 'Type', 'IndexError': 'Index',
            'AssertionError': 'Assert', 'UnboundLocalError': 'Unbound', 'NameError': 'Unbound'}.get(n, 'Other')


def run(ctx):
    argv = sys.argv
    sys.argv = [argv[0], '--no-log']
    try:
        from mpyc.runtime import mpc
    finally:
        sys.argv = argv
    ok = ctx.build(['MPyC.Bits', 'MPyC.FindUnit']) and ctx.check_props()
    rng = ctx.rng
    st = State(ctx)
    mpc.run(mpc.start())
    tape = Tape(mpc, rng)
    tape.install()
    try:
        _run(ctx, mpc, tape, rng, st)
    finally:
        tape.uninstall()
        mpc.run(mpc.shutdown())
    _sim_streams(ctx, rng, st)
    _np_stream(ctx, st)
    _np_find_stream(ctx, st)
    _evaluate(ctx, st, ok)


class State:
    """Coq expressions + the implementation's canonical results, and the capped violation reporter."""

    def __init__(self, ctx):
        self.ctx = ctx
        self.exprs, self.expect = [], []
        self.seen_sig = {}

    def violation(self, sig, detail):
        # at most 3 replay files per failing class
        self.seen_sig[sig] = self.seen_sig.get(sig, 0) + 1
        if self.seen_sig[sig] <= 3:
            self.ctx.violation(sig, detail)

    def model(self, expr, impl, key, what):
        self.exprs.append(expr)
        self.expect.append((impl, key, what))


def _run(ctx, mpc, tape, rng, st):
    ctx.rule = ('case = (function, type, inputs, tape); add_bits: all pairs of bit vectors of length <= 5 + random <= 16/64; '
                'to_bits: all a of SecInt(8)/SecFxp(8,4)/GF(2^8)/GF(101) x several l, random for 16/32/64 bits; '
                'unit_vector: all (a, n), n <= 20, a <= n; find: all bit lists of length <= 7 x argument forms '
                '(f, cs_f, e, bits, public/secret a); trailing_zeros / gcp2: all 8-bit values, random 32-bit; '
                'non-trivial = not an empty/zero-length input')
    ctx.explanation = ('theorems by induction over the recursions for all lengths; models compared exactly with the real '
                       'functions on the same random tape, and the real functions with a plain-Python oracle')
    violation, model = st.violation, st.model

    def out(v):
        """Open a (list of) secure value(s) / plain ints to ints."""
        if isinstance(v, (list, tuple)):
            vs = list(v)
            sec = [u for u in vs if hasattr(u, 'share')]
            opened = mpc.run(mpc.output(sec)) if sec else []
            it = iter(opened)
            res = [canon(next(it)) if hasattr(u, 'share') else canon(u) for u in vs]
            return res
        if hasattr(v, 'share'):
            return canon(mpc.run(mpc.output(v)))
        return canon(v)

    def canon(u):
        if isinstance(u, float):
            assert u == int(u), u
            return int(u)
        if isinstance(u, int):
            return u
        return int(u)     # finite field element

    def signed(v, p):
        return v if v <= p // 2 else v - p

    # ---------------------------------------------------------------- add_bits
    secint8 = mpc.SecInt(8)
    secint16 = mpc.SecInt(16)
    secint32 = mpc.SecInt(32)
    secint64 = mpc.SecInt(64)
    secfxp84 = mpc.SecFxp(8, 4)

    def do_add_bits(xb, yb, stype, ysec):
        x = [stype(b) for b in xb]
        y = [stype(b) for b in yb] if ysec else list(yb)
        got = out(mpc.add_bits(x, y))
        n = len(xb)
        vx = sum(b << i for i, b in enumerate(xb))
        vy = sum(b << i for i, b in enumerate(yb))
        want = bits_ref(vx + vy, n)
        key = {'fn': 'add_bits', 'x': xb, 'y': yb, 'type': stype.__name__, 'ysec': ysec}
        if got != want:
            violation('add_bits-wrong n=%d' % n, dict(key, got=got, want=want))
        ctx.case(key, nontrivial=n >= 1, kind='add_bits n<=5' if n <= 5 else 'add_bits random')
        model('add_bits %s %s' % (zlist(xb), zlist(yb)), got, key, 'add_bits')

    maxn = ctx.n(5, 6)
    for n in range(0, maxn + 1):
        for xb in itertools.product((0, 1), repeat=n):
            for yb in itertools.product((0, 1), repeat=n):
                do_add_bits(list(xb), list(yb), secint8, (sum(xb) + n) % 2 == 0)
    ctx.extra['exhaustive'] = True
    for _ in range(ctx.n(300, 1500)):
        n = rng.choice([6, 7, 8, 9, 11, 13, 15, 16, 16, 17, 31, 32, 33, 64])
        mode = rng.randrange(4)
        if mode == 0:      # long carry chains
            xb = [1] * n
            yb = [rng.choice([0, 0, 0, 1]) for _ in range(n)]
        elif mode == 1:
            xb = [rng.randrange(2) for _ in range(n)]
            yb = [1 - b for b in xb]
            yb[rng.randrange(n)] ^= rng.randrange(2)
        else:
            xb = [rng.randrange(2) for _ in range(n)]
            yb = [rng.randrange(2) for _ in range(n)]
        do_add_bits(xb, yb, rng.choice([secint8, secint32, secfxp84]), rng.random() < 0.5)

    # ---------------------------------------------------------------- to_bits (secint, secfxp)
    def do_to_bits_num(stype, A, l_arg, bits_mode='rand', div_mode='rand', oracle=True):
        """A = integer carried by the field element (secfxp: a * 2^f)."""
        f = stype.frac_length
        L = stype.bit_length
        p = stype.field.modulus
        a = stype(A / 2**f) if f else stype(A)
        assert signed(int(a.share.value) if hasattr(a.share, 'value') else int(a.share), p) == A, (A, a.share)
        integral = bool(f and a.integral)
        l = L if l_arg is None else l_arg
        tape.reset(bits_mode, div_mode)
        key = {'fn': 'to_bits', 'type': stype.__name__, 'A': A, 'l': l_arg}
        try:
            got = out(mpc.to_bits(a) if l_arg is None else mpc.to_bits(a, l_arg))
        except Exception as e:  # noqa
            got = exc_name(e)
        rb = tape.bits_log[-1] if tape.bits_log else []
        rd = tape.rand_log[-1] if tape.rand_log else 0
        key['tape'] = [rb, rd]
        if l > L + f:
            if got != 'Assert':
                violation('to_bits-no-assert l>L+f', dict(key, got=got))
            ctx.case(key, nontrivial=False, kind='to_bits error stream')
            return
        lp = l - f if integral and l > f else l
        Ap = A >> f if integral else A
        rmod = sum(b << i for i, b in enumerate(rb))
        nowrap = (integral and l <= f) or (0 <= Ap + (1 << L) + (rd << lp) - rmod < p)
        want = bits_ref(A, l)
        if oracle and nowrap and got != want:
            if f and l > L and not integral:
                violation('to_bits-secfxp-l>bit_length wrong', dict(key, got=got, want=want))
            else:
                violation('to_bits-wrong %s l=%d' % (stype.__name__, l), dict(key, got=got, want=want))
        ctx.case(key, nontrivial=l >= 1, kind='to_bits ' + stype.__name__)
        if got == 'Assert':
            return
        model('to_bits_num %s %s %s %s %s %s %s %s' % (zlit(p), natlit(L), natlit(f), blit(integral), zlit(A), natlit(l),
                                                   zlist(rb), zlit(rd)), got, key, 'to_bits')
        return got, nowrap

    for A in range(-128, 128):
        for l_arg in (None, rng.choice([0, 1, 2, 3, 4, 5, 6, 7])):
            do_to_bits_num(secint8, A, l_arg, bits_mode=rng.choice(['rand', 'rand', 'rand', 'zero', 'one']),
                           div_mode=rng.choice(['rand', 'rand', 'one', 'max']))
        for l_arg in (None, rng.choice([0, 1, 2, 3, 4, 5, 6, 7])):
            do_to_bits_num(secfxp84, A, l_arg, bits_mode=rng.choice(['rand', 'rand', 'rand', 'zero', 'one']),
                           div_mode=rng.choice(['rand', 'rand', 'one', 'max']))
    do_to_bits_num(secint8, 5, 9)        # assert stream
    do_to_bits_num(secfxp84, 5, 13)
    # l > bit_length on secfxp (admitted by the assert): finding stream
    for A in (44, 1, 17, 127, -3, -128, 48, 0, 16):
        for l_arg in (9, 10, 12):
            do_to_bits_num(secfxp84, A, l_arg)

    def boundary(L):
        c = [0, 1, -1, 2, -2, (1 << (L - 1)) - 1, -(1 << (L - 1)), (1 << (L - 2)), -(1 << (L - 2)) - 1]
        c += [(1 << rng.randrange(L - 1)) + rng.choice([-1, 0, 1]) for _ in range(4)]
        c += [rng.randrange(-(1 << (L - 1)), 1 << (L - 1)) for _ in range(8)]
        return [min(max(v, -(1 << (L - 1))), (1 << (L - 1)) - 1) for v in c]

    secfxp168 = mpc.SecFxp(16, 8)
    secfxp = mpc.SecFxp()
    for stype in (secint16, secint32, secint64, secfxp168, secfxp):
        L = stype.bit_length
        for rep in range(ctx.n(6, 30)):
            for A in boundary(L):
                l_arg = rng.choice([None, None, L, L - 1, 1, rng.randrange(L + 1), stype.frac_length, stype.frac_length + 1])
                do_to_bits_num(stype, A, l_arg, bits_mode=rng.choice(['rand', 'rand', 'rand', 'zero', 'one']),
                               div_mode=rng.choice(['rand', 'rand', 'one', 'max']))
    # the statistical-error event of the masked opening: r_divl = 0, l = L, a + 2^L < r_modl  (model only)
    wraps = 0
    for A in (-128, -100, -1, -2, 0, 5, 127):
        for bm in ('one', 'rand'):
            r = do_to_bits_num(secint8, A, None, bits_mode=bm, div_mode='zero', oracle=False)
            if r and not r[1]:
                wraps += 1
                if r[0] == bits_ref(A, 8):
                    ctx.notes.append('wrap case A=%d gave correct bits anyway' % A)
    ctx.extra['to_bits_wrap_cases_replayed'] = wraps

    # ---------------------------------------------------------------- to_bits (finite fields)
    def do_to_bits_fld(stype, a, l_arg):
        fld = stype.field
        key = {'fn': 'to_bits', 'type': 'SecFld(%s)' % fld.__name__, 'a': a, 'l': l_arg}
        tape.reset(rng.choice(['rand', 'rand', 'zero', 'one']), rng.choice(['rand', 'one', 'max']))
        l = stype.bit_length if l_arg is None else l_arg
        try:
            got = out(mpc.to_bits(stype(a)) if l_arg is None else mpc.to_bits(stype(a), l_arg))
        except Exception as e:  # noqa
            got = exc_name(e)
        if fld.characteristic != 2 and fld.ext_deg > 1:
            if got != 'Type':
                violation('to_bits-extension-field no TypeError', dict(key, got=got))
            ctx.case(key, nontrivial=False, kind='to_bits error stream')
            return
        want = bits_ref(a, l)
        if got != want:
            violation('to_bits-wrong %s l=%d' % (key['type'], l), dict(key, got=got, want=want))
        ctx.case(key, nontrivial=l >= 1, kind='to_bits secfld')
        if fld.characteristic == 2:
            rb = tape.bits_log[-1] if tape.bits_log else []
            key['tape'] = rb
            model('to_bits_gf2 %s %s %s' % (zlit(a), natlit(l), zlist(rb)), got, key, 'to_bits_gf2')
        else:
            rb = tape.bits_log[-1] if tape.bits_log else []
            rd = tape.rand_log[-1] if tape.rand_log else 0
            key['tape'] = [rb, rd]
            pp = mpc.SecInt(l=1 + stype.bit_length).field.modulus
            model('to_bits_gfp %s %s %s %s %s %s' % (zlit(pp), natlit(stype.bit_length), zlit(a), natlit(l), zlist(rb),
                                                   zlit(rd)), got, key, 'to_bits_gfp')

    F256 = mpc.SecFld(2**8)
    F16 = mpc.SecFld(2**4)
    F2 = mpc.SecFld(2)
    G101 = mpc.SecFld(101)
    G3 = mpc.SecFld(3)
    G257 = mpc.SecFld(257)
    G61 = mpc.SecFld(2**61 - 1)
    F9 = mpc.SecFld(9)
    for a in range(256):
        for l_arg in (None, 3):
            do_to_bits_fld(F256, a, l_arg)
    for a in range(16):
        for l_arg in (None, 0, 1, 2, 3):
            do_to_bits_fld(F16, a, l_arg)
    for a in range(2):
        do_to_bits_fld(F2, a, None)
    for a in range(101):
        for l_arg in (None, 1, 4):
            do_to_bits_fld(G101, a, l_arg)
    for a in range(3):
        do_to_bits_fld(G3, a, None)
        do_to_bits_fld(G3, a, 1)
    for a in [0, 1, 2, 127, 128, 255, 256] + [rng.randrange(257) for _ in range(10)]:
        do_to_bits_fld(G257, a, rng.choice([None, 9, 5]))
    for a in [0, 1, 2**61 - 2, 2**60, 2**60 - 1] + [rng.randrange(2**61 - 1) for _ in range(ctx.n(10, 60))]:
        do_to_bits_fld(G61, a, rng.choice([None, 61, 17]))
    do_to_bits_fld(F9, 5, None)

    # ---------------------------------------------------------------- from_bits
    def do_from_bits(stype, xs, kind):
        p = stype.field.modulus if hasattr(stype.field, 'modulus') and isinstance(stype.field.modulus, int) else None
        key = {'fn': 'from_bits', 'type': stype.__name__, 'x': xs}
        got = out(mpc.from_bits([stype(b) for b in xs]))
        want = sum(b << i for i, b in enumerate(xs))
        if p is not None:
            got %= p
            want %= p
        if got != want:
            violation('from_bits-wrong n=%d' % len(xs), dict(key, got=got, want=want))
        ctx.case(key, nontrivial=len(xs) >= 1, kind=kind)
        model('from_bits %s' % zlist(xs), (got, p), key, 'from_bits')

    for n in range(0, 6):
        for xb in itertools.product((0, 1), repeat=n):
            do_from_bits(secint8, list(xb), 'from_bits n<=5')
    for _ in range(ctx.n(60, 300)):
        n = rng.choice([1, 7, 8, 16, 31, 32, 40, 64])
        st = rng.choice([secint8, secint32, secint64])
        xs = [rng.randrange(2) for _ in range(n)] if rng.random() < 0.8 else [rng.randrange(-3, 4) for _ in range(n)]
        do_from_bits(st, xs, 'from_bits random')
    # round trip from_bits(to_bits(a)) = a mod 2^l
    for st in (secint8, secint16, secint32):
        L = st.bit_length
        vals = range(-128, 128) if st is secint8 else boundary(L)
        for A in vals:
            l = rng.choice([L, L, rng.randrange(L + 1)])
            tape.reset()
            got = out(mpc.from_bits(mpc.to_bits(st(A), l))) if l else 0
            key = {'fn': 'from_to_bits', 'type': st.__name__, 'A': A, 'l': l}
            if got % st.field.modulus != A % (1 << l):
                violation('from_to_bits-wrong l=%d' % l, dict(key, got=got))
            ctx.case(key, nontrivial=l >= 1, kind='from_bits(to_bits)')

    # ---------------------------------------------------------------- trailing_zeros, gcp2
    def do_tz(stype, A, l_arg):
        L = stype.bit_length
        p = stype.field.modulus
        l = L if l_arg is None else l_arg
        tape.reset(rng.choice(['rand', 'rand', 'rand', 'zero', 'one']), rng.choice(['rand', 'rand', 'zero', 'one', 'max']))
        key = {'fn': 'trailing_zeros', 'type': stype.__name__, 'A': A, 'l': l_arg}
        got = out(mpc.trailing_zeros(stype(A)) if l_arg is None else mpc.trailing_zeros(stype(A), l_arg))
        rb = tape.bits_log[-1] if tape.bits_log else []
        rd = tape.rand_log[-1] if tape.rand_log else 0
        key['tape'] = [rb, rd]
        t = v2(A, l) if l else None
        upto = l if t is None else t + 1
        want = bits_ref(A, l)[:upto]
        if len(got) != l or got[:upto] != want or any(b not in (0, 1) for b in got):
            violation('trailing_zeros-wrong l=%d' % l, dict(key, got=got, want_prefix=want))
        ctx.case(key, nontrivial=l >= 1, kind='trailing_zeros')
        model('trailing_zeros %s %s %s %s %s %s' % (zlit(p), natlit(L), zlit(A), natlit(l), zlist(rb), zlit(rd)),
              got, key, 'trailing_zeros')

    for A in range(-128, 128):
        do_tz(secint8, A, None)
        do_tz(secint8, A, rng.randrange(0, 8))
    for _ in range(ctx.n(150, 800)):
        A = rng.choice(boundary(32)) if rng.random() < 0.5 else (rng.randrange(-2**15, 2**15) << rng.randrange(17))
        A = min(max(A, -2**31), 2**31 - 1)
        do_tz(secint32, A, rng.choice([None, None, 32, 31, 16, 5]))

    def do_gcp2(stype, A, B, l_arg):
        L = stype.bit_length
        p = stype.field.modulus
        l = L if l_arg is None else l_arg
        tape.reset(rng.choice(['rand', 'rand', 'rand', 'zero', 'one']), rng.choice(['rand', 'rand', 'one', 'max']))
        key = {'fn': 'gcp2', 'type': stype.__name__, 'A': A, 'B': B, 'l': l_arg}
        try:
            got = out(mpc.gcp2(stype(A), stype(B)) if l_arg is None else mpc.gcp2(stype(A), stype(B), l=l_arg))
        except Exception as e:  # noqa
            got = exc_name(e)
        ta, tb = v2(A, l) if l else None, v2(B, l) if l else None
        cands = [t for t in (ta, tb) if t is not None]
        want = 1 << (min(cands) if cands else l)     # no common 1 below l: 2^l (documented TODO)
        if got != want:
            violation('gcp2-wrong l=%d' % l, dict(key, got=got, want=want))
        else:
            ctx.case(key, nontrivial=True, kind='gcp2')
        if len(tape.bits_log) == 2 and len(tape.rand_log) == 2:
            key['tape'] = [tape.bits_log, tape.rand_log]
            # the two trailing_zeros coroutines draw in call order: a first, then b
            model('gcp2 %s %s %s %s %s %s %s %s %s' % (zlit(p), natlit(L), zlit(A), zlit(B), natlit(l),
                                                    zlist(tape.bits_log[0]), zlit(tape.rand_log[0]),
                                                    zlist(tape.bits_log[1]), zlit(tape.rand_log[1])),
                  ('Some', got), key, 'gcp2')

    bs8 = [0, 1, 2, 4, 8, 64, -128, 96, 127, -1, 6, 80]
    for A in range(-128, 128):
        for B in rng.sample(bs8, ctx.n(2, 12)):
            do_gcp2(secint8, A, B, None)
        do_gcp2(secint8, A, rng.choice(bs8), rng.randrange(1, 8))
    do_gcp2(secint8, 4, 8, 0)      # find([], 1) inside
    do_gcp2(secint8, 0, 0, 0)
    for _ in range(ctx.n(150, 800)):
        sa, sb = rng.randrange(32), rng.randrange(32)
        A = min(max(rng.randrange(-2**15, 2**15) << sa, -2**31), 2**31 - 1)
        B = min(max(rng.randrange(-2**15, 2**15) << sb, -2**31), 2**31 - 1)
        do_gcp2(secint32, A, B, rng.choice([None, None, 32, 20]))

    # ---------------------------------------------------------------- unit_vector
    def do_unit_vector(stype, a, n, kind):
        key = {'fn': 'unit_vector', 'type': stype.__name__, 'a': a, 'n': n}
        tape.reset()
        try:
            got = out(mpc.unit_vector(stype(a), n))
        except Exception as e:  # noqa
            got = exc_name(e)
        if isinstance(a, float) and a != int(a):
            if got != 'Value':
                violation('unit_vector-nonintegral no ValueError', dict(key, got=got))
            ctx.case(key, nontrivial=False, kind='unit_vector error stream')
            return
        a = int(a)
        if 0 <= a < n:
            want = [0] * a + [1] + [0] * (n - 1 - a)
        elif a == n:
            want = [1] + [0] * (n - 1)       # documented wrap
        else:
            want = None                      # outside the specification: model correspondence only
        if want is not None and got != want:
            violation('unit_vector-wrong n=%d a=%d' % (n, a), dict(key, got=got, want=want))
        ctx.case(key, nontrivial=want is not None and n >= 2, kind=kind)
        model('unit_vector %s %s' % (zlit(a), zlit(n)), got, key, 'unit_vector')

    maxn = ctx.n(20, 40)
    for n in range(1, maxn + 1):
        for a in range(0, n + 1):
            do_unit_vector(secint8, a, n, 'unit_vector n<=%d' % maxn)
    for n in range(1, 13):
        k = (n - 1).bit_length()
        for a in range(n + 1, 1 << k):
            do_unit_vector(secint8, a, n, 'unit_vector a>n (unspecified, model only)')
    for n in range(1, 9):
        for a in range(0, n + 1):
            do_unit_vector(secfxp84, float(a), n, 'unit_vector secfxp')
    do_unit_vector(secfxp84, 1.5, 4, 'unit_vector error stream')
    for n in range(1, 11):
        for a in range(0, n + 1):
            do_unit_vector(G101, a, n, 'unit_vector GF(101)')
    for _ in range(ctx.n(40, 200)):
        n = rng.choice([21, 31, 32, 33, 63, 64, 65, 100, 127, 128, 129, 255, 256])
        a = rng.choice([0, 1, n - 1, n, n // 2, rng.randrange(n)])
        do_unit_vector(secint16, a, n, 'unit_vector random n<=256')

    # ---------------------------------------------------------------- find
    forms, e_forms = find_forms, find_e_forms

    def do_find(xs, a, asec, bits, ename, fname, stype=secint8):
        nlen = len(xs)
        pf, pcs, cf, ccs, ref_f, neg_ok = forms(nlen)[fname]
        kw, ce, e_val = e_forms(nlen)[ename]
        if e_val is not None and e_val < 0 and not neg_ok:
            return False
        kw = dict(kw)
        if pf is not None:
            kw['f'] = pf
        if pcs is not None:
            kw['cs_f'] = pcs
        if not bits:
            kw['bits'] = False
        key = {'fn': 'find', 'x': xs, 'a': a, 'a_secret': asec, 'bits': bits, 'e': ename, 'form': fname}
        x = [stype(b) for b in xs]
        aa = stype(a) if asec else a
        try:
            r = mpc.find(x, aa, **kw)
            if ename == 'raw':
                nf, y = r
                y = list(y) if isinstance(y, (list, tuple)) else [y]
                got = ('Some', (('Some', out(nf)), out(y)))
            else:
                y = list(r) if isinstance(r, (list, tuple)) else [r]
                got = ('Some', (None, out(y)))
        except Exception as e:  # noqa
            got = exc_name(e)
        ix = first_index(xs, a)
        if isinstance(got, str):
            violation('find-raises %s form=%s' % (got, fname), dict(key, got=got))
            want_model = None
        else:
            res = got[1]
            if ename == 'raw':
                nf, y = res[0][1], res[1]
                good = (nf == (1 if ix is None else 0)) and (ix is None or y == ref_f(ix))
                want = [0 if ix is not None else 1, ref_f(ix) if ix is not None else 'any']
            else:
                y = res[1]
                want = ref_f(ix) if ix is not None else ref_f(e_val)
                good = y == want
            if not good:
                violation('find-wrong e=%s form=%s' % (ename, fname), dict(key, got=str(got), want=want))
            want_model = got
        ctx.case(key, nontrivial=nlen >= 1, kind='find bits=%s' % bits)
        amodel = ('ASec %s' if asec else 'AInt %s') % zlit(a)
        model('find %s (%s) %s (%s) %s %s' % (zlist(xs), amodel, blit(bits), ce, cf, ccs), want_model, key, 'find')
        return True

    fnames = list(forms(0))
    enames = list(e_forms(0))
    full_upto = ctx.n(2, 4)
    per_list = ctx.n(6, 30)
    for n in range(0, 8):
        for xb in itertools.product((0, 1), repeat=n):
            xs = list(xb)
            combos = [(a, asec, en, fn) for a in (0, 1) for asec in (False, True) for en in enames for fn in fnames]
            if n > full_upto:
                combos = rng.sample(combos, per_list)
            for (a, asec, en, fn) in combos:
                do_find(xs, a, asec, True, en, fn)
    # bits=False: arbitrary values
    for _ in range(ctx.n(300, 3000)):
        n = rng.choice([0, 1, 2, 3, 4, 5, 6, 7, 8, 9, 12, 16])
        xs = [rng.randrange(-2, 4) for _ in range(n)]
        a = rng.choice(xs) if xs and rng.random() < 0.6 else rng.randrange(-2, 5)
        do_find(xs, a, rng.random() < 0.5, False, rng.choice(enames), rng.choice(fnames))
    # longer bit lists
    for _ in range(ctx.n(200, 1500)):
        n = rng.choice([8, 9, 15, 16, 17, 31, 32, 33])
        a = rng.randrange(2)
        xs = [1 - a] * n
        mode = rng.randrange(4)
        if mode == 0:
            xs[rng.randrange(n)] = a
        elif mode == 1:
            xs = [rng.randrange(2) for _ in range(n)]
        elif mode == 2:
            pos = rng.randrange(n)
            xs = [1 - a] * pos + [rng.randrange(2) for _ in range(n - pos)]
        do_find(xs, a, rng.random() < 0.5, True, rng.choice(enames), rng.choice(fnames), stype=secint16)




# --------------------------------------------------------------------------------------------
# multi-party streams (lib.sim): genuinely shared inputs (mpc.input), m = 1 (-M1, asynchronous), 3, 5, PRSS off

def _signed(v, p):
    return v if v <= p // 2 else v - p


def _sim_cases_small(rng):
    """Reduced budget (~45 cases) for the large-committee PRSS configurations (m=7 t=3: comb(m,t)=35 PRSS
    summands per bounded random value; m=6 t=2): everything that opens a value masked with _random()."""
    C = []
    for tn, L in (('int8', 8), ('int16', 16), ('int32', 32)):
        for A in [-(1 << (L - 1)), (1 << (L - 1)) - 1, -1] + [rng.randrange(-(1 << (L - 1)), 1 << (L - 1)) for _ in range(2)]:
            C.append(('to_bits', tn, A, rng.choice([None, None, L, rng.randrange(1, L + 1)])))
    for A in [44, -3, 48, -128, 127] + [rng.randrange(-128, 128) for _ in range(2)]:
        C.append(('to_bits', 'fxp84', A, rng.choice([None, 8, 5])))
    for A in [5, -3, 127, -128] + [rng.randrange(-128, 128) for _ in range(2)]:
        C.append(('from_to', A, 8))
    for A in [12, 0, -128, 1, 96] + [rng.randrange(-128, 128) for _ in range(3)]:
        C.append(('tz', A, rng.choice([None, None, 8, rng.randrange(1, 8)])))
    for (A, B) in [(12, 40), (0, 64), (96, 80)] + [(rng.randrange(-128, 128), rng.randrange(-128, 128)) for _ in range(3)]:
        C.append(('gcp2', A, B, rng.choice([None, None, 8])))
    for (a, n) in [(3, 5), (0, 7), (7, 7), (rng.randrange(8), 8)]:
        C.append(('uv', a, n))
    C.append(('uv_twice', 'fxp84', 3, 5))
    C.append(('to_bits_fld', 256, 0x53, None))
    C.append(('to_bits_fld', 101, 100, None))
    return C


def _sim_cases(rng, n_scale):
    """Deterministic list of case specs for one configuration."""
    C = []
    rb = lambda n: [rng.randrange(2) for _ in range(n)]
    for _ in range(6 * n_scale):
        n = rng.choice([0, 1, 2, 3, 5, 7, 8, 9, 16])
        C.append(('add_bits', rb(n), rb(n), rng.random() < 0.5))
    C.append(('add_bits', [1] * 8, [1] + [0] * 7, True))
    for A in [0, 1, -1, 127, -128, 85, -86] + [rng.randrange(-128, 128) for _ in range(5 * n_scale)]:
        C.append(('to_bits', 'int8', A, rng.choice([None, None, 8, rng.randrange(9)])))
    for A in [0, -1, 2**15 - 1, -2**15] + [rng.randrange(-2**15, 2**15) for _ in range(2 * n_scale)]:
        C.append(('to_bits', 'int16', A, rng.choice([None, 16, rng.randrange(17)])))
    for A in [0, 16, -16, 48, 44, -3, 127, -128] + [rng.randrange(-128, 128) for _ in range(3 * n_scale)]:
        C.append(('to_bits', 'fxp84', A, rng.choice([None, None, 8, 3, 4, 5])))
    for a in [0, 1, 255, 0x53] + [rng.randrange(256) for _ in range(2 * n_scale)]:
        C.append(('to_bits_fld', 256, a, rng.choice([None, 8, 3])))
    for a in [0, 1, 100, 64] + [rng.randrange(101) for _ in range(2 * n_scale)]:
        C.append(('to_bits_fld', 101, a, rng.choice([None, 7, 4, 1])))
    for _ in range(4 * n_scale):
        n = rng.choice([0, 1, 3, 8, 13])
        C.append(('from_bits', rb(n) if rng.random() < 0.8 else [rng.randrange(-2, 3) for _ in range(n)]))
    for A in [5, -3, 0, 127, -128] + [rng.randrange(-128, 128) for _ in range(3 * n_scale)]:
        C.append(('from_to', A, rng.choice([8, 8, rng.randrange(1, 9)])))
    for A in [0, 1, 2, 12, -128, 64, 96, -2, 40] + [rng.randrange(-128, 128) for _ in range(6 * n_scale)]:
        C.append(('tz', A, rng.choice([None, None, 8, rng.randrange(0, 8)])))
    for (A, B) in [(12, 40), (0, 0), (0, 64), (-128, 0), (1, 2), (96, 80), (-2, 6)] + \
                  [(rng.randrange(-128, 128) << rng.randrange(4) & 0x7f, rng.randrange(-128, 128)) for _ in range(5 * n_scale)]:
        C.append(('gcp2', A, B, rng.choice([None, None, 8, rng.randrange(0, 8)])))
    for n in [1, 2, 3, 5, 7, 8, 12] + [rng.randrange(1, 21) for _ in range(2 * n_scale)]:
        for a in sorted({0, n - 1, n, rng.randrange(n)}):
            C.append(('uv', a, n))
    fnames, enames = list(find_forms(0)), list(find_e_forms(0))

    def pick_forms(nlen):
        while True:
            en, fn = rng.choice(enames), rng.choice(fnames)
            e_val = find_e_forms(nlen)[en][2]
            if e_val is None or e_val >= 0 or find_forms(nlen)[fn][5]:
                return en, fn
    for _ in range(14 * n_scale):
        n = rng.choice([0, 1, 2, 3, 4, 5, 7, 8, 9])
        a = rng.randrange(2)
        xs = rb(n) if rng.random() < 0.7 else [1 - a] * n
        C.append(('find', xs, a, rng.random() < 0.6, True) + pick_forms(n))
    for _ in range(4 * n_scale):
        n = rng.choice([0, 1, 3, 6])
        xs = [rng.randrange(-2, 3) for _ in range(n)]
        C.append(('find', xs, rng.choice(xs) if xs and rng.random() < 0.6 else 2, rng.random() < 0.5, False) + pick_forms(n))
    # aliasing: the caller mutates the list it passed, straight after the call and before anything is awaited
    for fn in ('from_bits', 'sum', 'if_else', 'vector_add', 'vector_sub', 'scalar_mul', 'schur_prod', 'in_prod',
               'add_bits', 'find', 'output'):
        for mode in ('reverse', 'del_last', 'append', 'overwrite'):
            n = rng.choice([3, 5, 8])
            C.append(('alias', fn, mode, rb(n), rb(n)))
    for A in (5, -3, 100):
        for mode in ('reverse', 'del_last_reverse', 'append', 'overwrite'):
            C.append(('alias_to_from', A, mode))
    for mode in ('reverse', 'del_first', 'insert_first', 'first_becomes_a', 'del_last', 'append'):
        n = rng.choice([4, 6, 8])                  # even length, inner position: each of the first four changes the index
        xs = rng.sample(range(2, 30), n)
        pos = rng.randrange(1, n - 1)
        C.append(('alias_indexOf', mode, xs, xs[pos], rng.random() < 0.5))
        C.append(('alias_find_nonbits', mode, xs, xs[pos]))
    # the secure index object is reused: call twice on the same object and read it afterwards
    for tn in ('int8', 'fxp84', 'gf101'):
        for (a, n) in [(3, 5), (0, 4), (6, 7), (rng.randrange(1, 8), 8)]:
            C.append(('uv_twice', tn, a, n))
    for tn in ('int8', 'fxp84', 'gf101'):
        C.append(('reuse_arg', tn, rng.randrange(1, 100)))
    # the in-package caller that reuses the to_bits list in place: runtime._norm (secfxp reciprocal / division)
    for A in [16, 24, -16, 127, -128, 1, -1, 37, -90]:
        C.append(('norm', A))
    for A in [16, 40, -24, 100]:
        C.append(('recip', A))
    return C


def _mutate(x, mode, one, a=None):
    if mode == 'del_first':
        del x[0]
    elif mode == 'insert_first':
        x.insert(0, one)
    elif mode == 'first_becomes_a':
        x[0] = x[1] * 0 + a
    elif mode == 'reverse':
        x.reverse()
    elif mode == 'del_last':
        del x[-1]
    elif mode == 'del_last_reverse':
        del x[-1]
        x.reverse()
    elif mode == 'append':
        x.append(one)
    elif mode == 'overwrite':
        x[0] = x[0] + one


def _sim_prog(cases):
    async def prog(mpc, mods, pid):
        T = {'int8': mpc.SecInt(8), 'int16': mpc.SecInt(16), 'int32': mpc.SecInt(32), 'fxp84': mpc.SecFxp(8, 4)}
        F = {256: mpc.SecFld(2**8), 101: mpc.SecFld(101)}
        secint8, secfxp84 = T['int8'], T['fxp84']
        meta = {'p': {k: int(v.field.modulus) for k, v in T.items()},
                'pp101': int(mpc.SecInt(l=1 + F[101].bit_length).field.modulus), 'bl101': F[101].bit_length}

        def share(stype, vals):
            """Genuinely shared values: party 0 is the sender."""
            if not vals:
                return []
            if stype.frac_length:
                return [mpc.input(stype(v / 2**stype.frac_length), senders=0) for v in vals]
            return mpc.input([stype(v) for v in vals], senders=0)

        async def opn(v):
            if isinstance(v, (list, tuple)):
                vs = list(v)
                sec = [u for u in vs if hasattr(u, 'share')]
                got = await mpc.output(sec) if sec else []
                it = iter(got)
                return [_canon(next(it)) if hasattr(u, 'share') else _canon(u) for u in vs]
            if hasattr(v, 'share'):
                return _canon(await mpc.output(v))
            return _canon(v)

        res = [meta]
        for c in cases:
            kind = c[0]
            try:
                if kind == 'add_bits':
                    _, xb, yb, ysec = c
                    x = share(secint8, xb)
                    y = share(secint8, yb) if ysec else list(yb)
                    r = await opn(mpc.add_bits(x, y))
                elif kind == 'to_bits':
                    _, tn, A, l_arg = c
                    a = share(T[tn], [A])[0]
                    r = await opn(mpc.to_bits(a) if l_arg is None else mpc.to_bits(a, l_arg))
                elif kind == 'to_bits_fld':
                    _, q, a, l_arg = c
                    a = share(F[q], [a])[0]
                    r = await opn(mpc.to_bits(a) if l_arg is None else mpc.to_bits(a, l_arg))
                elif kind == 'from_bits':
                    r = await opn(mpc.from_bits(share(secint8, c[1])))
                elif kind == 'from_to':
                    _, A, l = c
                    r = await opn(mpc.from_bits(mpc.to_bits(share(secint8, [A])[0], l)))
                elif kind == 'tz':
                    _, A, l_arg = c
                    a = share(secint8, [A])[0]
                    r = await opn(mpc.trailing_zeros(a) if l_arg is None else mpc.trailing_zeros(a, l_arg))
                elif kind == 'gcp2':
                    _, A, B, l_arg = c
                    a, b = share(secint8, [A, B])
                    r = await opn(mpc.gcp2(a, b) if l_arg is None else mpc.gcp2(a, b, l=l_arg))
                elif kind == 'uv':
                    _, a, n = c
                    r = await opn(mpc.unit_vector(share(secint8, [a])[0], n))
                elif kind == 'find':
                    _, xs, a, asec, bits, ename, fname = c
                    pf, pcs = find_forms(len(xs))[fname][:2]
                    kw = dict(find_e_forms(len(xs))[ename][0])
                    if pf is not None:
                        kw['f'] = pf
                    if pcs is not None:
                        kw['cs_f'] = pcs
                    if not bits:
                        kw['bits'] = False
                    x = share(secint8, xs)
                    aa = share(secint8, [a])[0] if asec else a
                    rr = mpc.find(x, aa, **kw)
                    if ename == 'raw':
                        nf, y = rr
                        y = list(y) if isinstance(y, (list, tuple)) else [y]
                        r = ['raw', await opn(nf), await opn(y)]
                    else:
                        y = list(rr) if isinstance(rr, (list, tuple)) else [rr]
                        r = ['val', await opn(y)]
                elif kind == 'alias':
                    _, fn, mode, xb, yb = c
                    x, y = share(secint8, xb), share(secint8, yb)
                    cbit, one = share(secint8, [1, 1])
                    if fn == 'from_bits':
                        z = mpc.from_bits(x)
                    elif fn == 'sum':
                        z = mpc.sum(x)
                    elif fn == 'if_else':
                        z = mpc.if_else(cbit, x, y)
                    elif fn == 'vector_add':
                        z = mpc.vector_add(x, y)
                    elif fn == 'vector_sub':
                        z = mpc.vector_sub(x, y)
                    elif fn == 'scalar_mul':
                        z = mpc.scalar_mul(cbit + 2, x)
                    elif fn == 'schur_prod':
                        z = mpc.schur_prod(x, y)
                    elif fn == 'in_prod':
                        z = mpc.in_prod(x, y)
                    elif fn == 'add_bits':
                        z = mpc.add_bits(x, y)
                    elif fn == 'find':
                        z = mpc.find(x, 0)
                    elif fn == 'output':
                        z = mpc.output(x)
                    _mutate(x, mode, one)           # before anything is awaited
                    r = [_canon(u) for u in await z] if fn == 'output' else await opn(z)
                elif kind == 'alias_to_from':
                    _, A, mode = c
                    a, one = share(secint8, [A, 1])
                    x = mpc.to_bits(a)
                    z = mpc.from_bits(x)
                    _mutate(x, mode, one)
                    r = await opn(z)
                elif kind == 'alias_indexOf':
                    _, mode, xs, a, asec = c
                    x = share(secint8, xs)
                    one = share(secint8, [1])[0]
                    aa = share(secint8, [a])[0] if asec else a
                    z = mpc.indexOf(x, aa)
                    _mutate(x, mode, one, a)
                    r = await opn(z)
                elif kind == 'alias_find_nonbits':
                    _, mode, xs, a = c
                    x = share(secint8, xs)
                    one = share(secint8, [1])[0]
                    z = mpc.find(x, a, bits=False)
                    _mutate(x, mode, one, a)
                    r = await opn(z)
                elif kind == 'uv_twice':
                    _, tn, a, n = c
                    stype = F[101] if tn == 'gf101' else T[tn]
                    idx = share(stype, [a * 16 if tn == 'fxp84' else a])[0]
                    u1 = mpc.unit_vector(idx, n)
                    u2 = mpc.unit_vector(idx, n)
                    r = [await opn(u1), await opn(idx), await opn(u2), await opn(mpc.unit_vector(idx, n))]
                elif kind == 'reuse_arg':
                    # every scalar-taking function of the property leaves its secure argument intact
                    _, tn, v = c
                    stype = F[101] if tn == 'gf101' else T[tn]
                    a = share(stype, [v])[0]
                    b1 = mpc.to_bits(a)
                    b2 = mpc.to_bits(a)
                    r = [await opn(b1), await opn(a), await opn(b2)]
                    if tn == 'int8':
                        t1 = mpc.trailing_zeros(a)
                        g1 = mpc.gcp2(a, a)
                        r += [await opn(g1), await opn(a), await opn(mpc.gcp2(a, a)), len(await opn(t1))]
                elif kind == 'norm':
                    a = share(secfxp84, [c[1]])[0]
                    v = mpc._norm(a)
                    r = [float(await mpc.output(v)), float(await mpc.output(a * v))]
                elif kind == 'recip':
                    a = share(secfxp84, [c[1]])[0]
                    r = [float(await mpc.output(1 / a))]
            except Exception as e:  # noqa
                r = exc_name(e)
            res.append(r)
        return res
    return prog


def _canon(u):
    if isinstance(u, float):
        return int(u) if u == int(u) else u
    return int(u)


def _sim_streams(ctx, rng, st):
    from lib.sim import Sim
    violation, model = st.violation, st.model
    configs = [(1, 0, False), (3, 1, False), (5, 2, False), (3, 1, True)]
    if ctx.tier == 'thorough':
        configs += [(2, 0, False), (4, 1, False), (5, 2, True), (1, 0, True), (5, 1, False)]
    # large committees with PRSS (many PRSS summands per bounded random value): reduced case budget
    small = [(7, 3, False), (6, 2, False)]
    if ctx.tier == 'thorough':
        small += [(7, 3, True), (7, 2, False)]
    configs += small
    ctx.rule += ('; simulator streams: the same functions on genuinely shared inputs (mpc.input, sender 0) for '
                 '(m,t,prss) in %s incl. an aliasing stream (caller mutates the list it passed before awaiting)' % (configs,))
    nsim = 0
    for (m, t, noprss) in configs:
        cfg = 'm=%d t=%d %s' % (m, t, 'no-prss' if noprss else 'prss')
        cases = _sim_cases_small(rng) if (m, t, noprss) in small else _sim_cases(rng, ctx.n(1, 3))
        sim = Sim(m=m, t=t, no_prss=noprss, seed=ctx.seed * 1000 + 17 * m + t + (7 if noprss else 0),
                  log_messages=False, track_tasks=False)
        try:
            sim.start()
            if not sim.started:
                violation('sim-start-failed ' + cfg, {'config': cfg})
                continue
            res = sim.run(_sim_prog(cases))
            sim.shutdown()
        finally:
            sim.close()
        bad = [r for r in res if not isinstance(r, list)]
        if bad:
            violation('sim-run-failed ' + cfg, {'config': cfg, 'results': [str(r)[:300] for r in res]})
            continue
        for i in range(1, m):
            if res[i][1:] != res[0][1:]:
                k = next(j for j in range(1, len(res[0])) if res[i][j] != res[0][j])
                violation('sim-parties-disagree ' + cfg, {'config': cfg, 'case': str(cases[k - 1]), 'p0': str(res[0][k]),
                                                          'p%d' % i: str(res[i][k])})
        meta, outs = res[0][0], res[0][1:]
        for c, got in zip(cases, outs):
            nsim += 1
            _sim_check(ctx, rng, st, cfg, meta, c, got)
    ctx.extra['simulator_cases'] = nsim
    ctx.extra['simulator_configs'] = [list(c) for c in configs]


def _sim_check(ctx, rng, st, cfg, meta, c, got):
    violation, model = st.violation, st.model
    kind = c[0]
    key = {'sim': cfg, 'case': list(c)}
    rbits = lambda n: [rng.randrange(2) for _ in range(n)]
    val = lambda bs: sum(b << i for i, b in enumerate(bs))

    def bad(sig, want):
        violation('%s [%s]' % (sig, cfg), dict(key, got=str(got)[:300], want=str(want)[:300]))

    ctx.case(key, nontrivial=True, kind='sim %s %s' % (cfg, kind if not kind.startswith('alias') else 'alias'))
    if isinstance(got, str) and kind != 'to_bits_fld':
        bad('sim-raises %s in %s' % (got, kind), 'no exception')
        return
    if kind == 'add_bits':
        _, xb, yb, _ = c
        want = bits_ref(val(xb) + val(yb), len(xb))
        if got != want:
            bad('add_bits-wrong n=%d' % len(xb), want)
        model('add_bits %s %s' % (zlist(xb), zlist(yb)), got, key, 'add_bits')
    elif kind == 'to_bits':
        _, tn, A, l_arg = c
        L, f = {'int8': (8, 0), 'int16': (16, 0), 'int32': (32, 0), 'fxp84': (8, 4)}[tn]
        l = L if l_arg is None else l_arg
        integral = bool(f) and A % (1 << f) == 0
        want = bits_ref(A, l)
        if got != want:
            bad('to_bits-wrong %s l=%d' % (tn, l), want)
        lp = 0 if (integral and l <= f) else (l - f if integral else l)
        # the result does not depend on the tape (to_bits_num_correct): any no-wrap tape serves for the model
        model('to_bits_num %s %s %s %s %s %s %s %s' % (zlit(meta['p'][tn]), natlit(L), natlit(f), blit(integral), zlit(A),
                                                   natlit(l), zlist(rbits(lp)), zlit(1)), got, key, 'to_bits')
    elif kind == 'to_bits_fld':
        _, q, a, l_arg = c
        l = {256: 8, 101: 7}[q] if l_arg is None else l_arg
        want = bits_ref(a, l)
        if got != want:
            bad('to_bits-wrong GF(%d) l=%d' % (q, l), want)
        if q == 256:
            model('to_bits_gf2 %s %s %s' % (zlit(a), natlit(l), zlist(rbits(l))), got, key, 'to_bits_gf2')
        else:
            model('to_bits_gfp %s %s %s %s %s %s' % (zlit(meta['pp101']), natlit(meta['bl101']), zlit(a), natlit(l),
                                                   zlist(rbits(l)), zlit(1)), got, key, 'to_bits_gfp')
    elif kind == 'from_bits':
        p = meta['p']['int8']
        want = val(c[1]) % p
        if got % p != want:
            bad('from_bits-wrong n=%d' % len(c[1]), want)
        model('from_bits %s' % zlist(c[1]), (got % p, p), key, 'from_bits')
    elif kind == 'from_to':
        _, A, l = c
        if got % meta['p']['int8'] != A % (1 << l):
            bad('from_to_bits-wrong l=%d' % l, A % (1 << l))
    elif kind == 'tz':
        _, A, l_arg = c
        l = 8 if l_arg is None else l_arg
        t = v2(A, l) if l else None
        upto = l if t is None else t + 1
        want = bits_ref(A, l)[:upto]
        if len(got) != l or got[:upto] != want or any(b not in (0, 1) for b in got):
            bad('trailing_zeros-wrong l=%d' % l, want)
        model('trailing_zeros %s %s %s %s %s %s' % (zlit(meta['p']['int8']), natlit(8), zlit(A), natlit(l), zlist(rbits(l)),
                                                  zlit(1)), (got, upto), key, 'trailing_zeros_prefix')
    elif kind == 'gcp2':
        _, A, B, l_arg = c
        l = 8 if l_arg is None else l_arg
        cands = [t for t in ((v2(A, l), v2(B, l)) if l else ()) if t is not None]
        want = 1 << (min(cands) if cands else l)
        if got != want:
            bad('gcp2-wrong l=%d' % l, want)
        model('gcp2 %s %s %s %s %s %s %s %s %s' % (zlit(meta['p']['int8']), natlit(8), zlit(A), zlit(B), natlit(l),
                                                zlist(rbits(l)), zlit(1), zlist(rbits(l)), zlit(1)), ('Some', got), key, 'gcp2')
    elif kind == 'uv':
        _, a, n = c
        want = [0] * a + [1] + [0] * (n - 1 - a) if a < n else [1] + [0] * (n - 1)
        if got != want:
            bad('unit_vector-wrong n=%d a=%d' % (n, a), want)
        model('unit_vector %s %s' % (zlit(a), zlit(n)), got, key, 'unit_vector')
    elif kind == 'find':
        _, xs, a, asec, bits, ename, fname = c
        nlen = len(xs)
        _, _, cf, ccs, ref_f, neg_ok = find_forms(nlen)[fname]
        _, ce, e_val = find_e_forms(nlen)[ename]
        ix = first_index(xs, a)
        if got[0] == 'raw':
            nf, y = got[1], got[2]
            good = nf == (1 if ix is None else 0) and (ix is None or y == ref_f(ix))
            gm = ('Some', (('Some', nf), y))
        else:
            y = got[1]
            good = y == (ref_f(ix) if ix is not None else ref_f(e_val))
            gm = ('Some', (None, y))
        if not good:
            bad('find-wrong e=%s form=%s' % (ename, fname), 'f(first index %s)' % ix)
        model('find %s (%s) %s (%s) %s %s' % (zlist(xs), ('ASec %s' if asec else 'AInt %s') % zlit(a), blit(bits), ce, cf, ccs),
              gm, key, 'find')
    elif kind == 'alias':
        _, fn, mode, xb, yb = c
        p = meta['p']['int8']
        want = {'from_bits': val(xb), 'sum': sum(xb), 'if_else': xb,
                'vector_add': [u + v for u, v in zip(xb, yb)], 'vector_sub': [u - v for u, v in zip(xb, yb)],
                'scalar_mul': [3 * u for u in xb], 'schur_prod': [u * v for u, v in zip(xb, yb)],
                'in_prod': sum(u * v for u, v in zip(xb, yb)), 'add_bits': bits_ref(val(xb) + val(yb), len(xb)),
                'find': first_index(xb, 0) if 0 in xb else len(xb), 'output': xb}[fn]
        if got != want:
            bad('aliasing-%s caller-%s' % (fn, mode), want)   # expected: the values at call time
    elif kind == 'alias_to_from':
        _, A, mode = c
        if got % meta['p']['int8'] != A % 256:
            bad('aliasing-from_bits(to_bits) caller-%s' % mode, A % 256)
    elif kind == 'alias_indexOf':
        _, mode, xs, a, asec = c
        if got != xs.index(a):
            bad('aliasing-indexOf caller-%s' % mode, xs.index(a))
    elif kind == 'alias_find_nonbits':
        _, mode, xs, a = c
        if got != xs.index(a):
            bad('aliasing-find(bits=False) caller-%s' % mode, xs.index(a))
    elif kind == 'uv_twice':
        _, tn, a, n = c
        e_a = [0] * a + [1] + [0] * (n - 1 - a)
        u1, idx, u2, u3 = got
        if u1 != e_a:
            bad('unit_vector-wrong n=%d a=%d' % (n, a), e_a)
        elif idx != a or u2 != e_a or u3 != e_a:
            bad('unit_vector-index-reuse %s' % tn, [e_a, a, e_a, e_a])
        model('unit_vector %s %s' % (zlit(a), zlit(n)), u2, key, 'unit_vector')
    elif kind == 'reuse_arg':
        _, tn, v = c
        if tn == 'fxp84':
            A, l = v, 8                       # v/16 shared: field integer v
            av = None
        else:
            A, l = v, {'int8': 8, 'gf101': 7}[tn]
        want_bits = bits_ref(A, l)
        a_read = got[1]
        ok_a = (abs(a_read - v / 16) < 1e-9) if tn == 'fxp84' else a_read == v
        if got[0] != want_bits or got[2] != want_bits or not ok_a:
            bad('to_bits-argument-reuse %s' % tn, [want_bits, v, want_bits])
        if tn == 'int8':
            g = 1 << v2(v, 8)
            if got[3] != g or got[4] != v or got[5] != g or got[6] != 8:
                bad('gcp2-argument-reuse', [g, v, g, 8])
    elif kind == 'norm':
        a = c[1] / 16
        v, b = got
        okv = v != 0 and abs(v) == 2.0 ** round(__import__('math').log2(abs(v))) and (v > 0) == (a > 0)
        if not (okv and 0.5 - 2**-4 <= b <= 1.0):
            bad('norm-wrong', 'v = sign(a) 2^j with 1/2 <= a v <= 1')
    elif kind == 'recip':
        a = c[1] / 16
        if abs(got[0] - 1 / a) > 4 * 2**-4 * (1 + abs(1 / a)):
            bad('reciprocal-wrong', 1 / a)


NP_CODE = r'''
import sys, json
sys.argv = ['np', '--no-log']
from mpyc.runtime import mpc
mpc.run(mpc.start())
out = []
def opn(v):
    r = mpc.run(mpc.output(v))
    return [float(int(x)) if not isinstance(x, (int, float)) else float(x) for x in (r.tolist() if hasattr(r, 'tolist') else [r])]
for name, st in [('secint', mpc.SecInt(16)), ('secfxp', mpc.SecFxp(16, 8)), ('secfld', mpc.SecFld(2**61 - 1))]:   # a field large enough for the mask R*n (small GF(p): code TODO)
    for (v, n) in [(3, 5), (0, 4), (6, 7), (1, 2)]:
        a = st(v)
        try:
            u1 = opn(mpc.np_unit_vector(a, n)); a_after = opn(a)[0]; u2 = opn(mpc.np_unit_vector(a, n))
            out.append([name, v, n, u1, a_after, u2])
        except Exception as e:
            out.append([name, v, n, 'EXC ' + type(e).__name__ + ': ' + str(e)[:100]])
mpc.run(mpc.shutdown())
print('RESULT ' + json.dumps(out))
'''


def _np_stream(ctx, st):
    """np_unit_vector (NumPy sibling of unit_vector) on a reused index object, under the NumPy interpreter."""
    import os, subprocess, json
    from lib.core import PYNP, REPO
    if not os.path.exists(PYNP):
        ctx.notes.append('np_unit_vector index-reuse stream skipped: no NumPy interpreter at %s' % PYNP)
        return
    env = dict(os.environ, PYTHONPATH=REPO, PYTHONHASHSEED='0')
    p = subprocess.run([PYNP, '-c', NP_CODE], env=env, stdout=subprocess.PIPE, stderr=subprocess.PIPE, text=True, timeout=300)
    line = [ln for ln in p.stdout.split('\n') if ln.startswith('RESULT ')]
    if p.returncode or not line:
        st.violation('np_unit_vector-stream-crashed', {'stderr': p.stderr[-1500:]})
        return
    for rec in json.loads(line[-1][7:]):
        name, v, n = rec[:3]
        key = {'fn': 'np_unit_vector', 'type': name, 'a': v, 'n': n}
        ctx.case(key, nontrivial=True, kind='np_unit_vector index reuse (m=1, NumPy)')
        e_a = [0.0] * v + [1.0] + [0.0] * (n - 1 - v)
        if isinstance(rec[3], str):
            st.violation('np_unit_vector-raises %s' % name, dict(key, got=rec[3]))
            continue
        u1, a_after, u2 = rec[3:]
        if u1 != e_a:
            st.violation('np_unit_vector-wrong %s' % name, dict(key, got=u1, want=e_a))
        elif a_after != float(v) or u2 != e_a:
            st.violation('np_unit_vector-mutates-index %s' % name, dict(key, first=u1, a_after=a_after, second=u2, want=e_a))


NP_FIND_CODE = r'''
import sys, json, random
seed, scale = int(sys.argv[1]), int(sys.argv[2])
sys.argv = ['np', '--no-log']
from mpyc.runtime import mpc
import numpy as np
mpc.run(mpc.start())
secint = mpc.SecInt(16)
rng = random.Random(seed)

FORMS = {   # python kwargs, reference f (values as lists), negative e allowed
    'none': ({}, lambda i: [i], True),
    'f_int': ({'f': lambda i: 3 * i + 1}, lambda i: [3 * i + 1], True),
    'cs_int': ({'cs_f': lambda b, i: i + b}, lambda i: [i], True),
    'cs_pow': ({'cs_f': lambda b, i: (b + 1) * 2**i}, lambda i: [2**i], False),
    'cs_tuple': ({'cs_f': lambda b, i: (i + b, (b + 1) * 2**i)}, lambda i: [i, 2**i], False),
}
def e_forms(n):
    return {'default': ({}, n), 'raw': ({'e': None}, None), 'minus1': ({'e': -1}, -1),
            'len-1': ({'e': 'a.shape[axis]-1'}, n - 1), 'val': ({'e': n + 3}, n + 3)}

def opn(v):
    if isinstance(v, (tuple, list)):
        return [opn(u) for u in v]
    if hasattr(v, 'share') or type(v).__name__.startswith('Array'):
        r = mpc.run(mpc.output(v))
        return np.array(r.tolist() if hasattr(r, 'tolist') else r)
    return np.array(v)

def lanes_of(A, S, axis, how):
    # how = 'move': the documented result shape (axis removed); 'swap': axis exchanged with the last one
    Am = np.moveaxis(A, axis, -1) if how == 'move' else np.swapaxes(A, axis, -1)
    if hasattr(S, 'shape') and S.shape:
        Se = np.expand_dims(S, axis)
        Sm = (np.moveaxis(Se, axis, -1) if how == 'move' else np.swapaxes(Se, axis, -1))[..., 0]
    else:
        Sm = np.broadcast_to(np.array(int(S)), Am.shape[:-1])
    return Am, Sm

def want_arrays(A, S, axis, how, ref_f, e_val, raw):
    Am, Sm = lanes_of(A, S, axis, how)
    k = len(ref_f(0))
    nf = np.zeros(Am.shape[:-1], dtype=object)
    ys = [np.zeros(Am.shape[:-1], dtype=object) for _ in range(k)]
    for idx in np.ndindex(*Am.shape[:-1]):
        lane = [int(v) for v in Am[idx]]
        sv = int(Sm[idx])
        ix = lane.index(sv) if sv in lane else None
        nf[idx] = 0 if ix is not None else 1
        val = ref_f(ix) if ix is not None else ref_f(len(lane) if raw else e_val)
        for j in range(k):
            ys[j][idx] = val[j]
    return nf, ys

def same(r, w):
    r = np.array(r, dtype=object)
    return r.shape == w.shape and bool((r == w).all())

out = []
shapes = [(5,), (1,), (3, 3), (2, 4), (4, 2), (2, 3, 4), (3, 3, 3), (2, 2, 3), (3, 1, 2)]
for shape in shapes:
    nd = len(shape)
    for axis in range(-nd, nd):
        n = shape[axis]
        rem = tuple(d for i, d in enumerate(shape) if i != axis % nd)
        skinds = ['int0', 'int1', 'sec', 'arr_pub', 'arr_sec', 'nb_int', 'nb_sec']
        for skind in skinds:
            for rep_ in range(scale):
                bits = not skind.startswith('nb')
                if bits:
                    A = np.array([rng.randrange(2) for _ in range(int(np.prod(shape)))]).reshape(shape)
                    if rng.random() < 0.3:
                        A = np.ones(shape, dtype=int) * rng.randrange(2)
                else:
                    A = np.array([rng.randrange(-2, 3) for _ in range(int(np.prod(shape)))]).reshape(shape)
                if skind.startswith('arr'):
                    S = np.array([rng.randrange(2) for _ in range(int(np.prod(rem)))]).reshape(rem)
                    s = S if skind == 'arr_pub' else secint.array(S)
                elif skind in ('int0', 'int1'):
                    S = np.array(int(skind[-1])); s = int(S)
                elif skind == 'sec':
                    S = np.array(rng.randrange(2)); s = secint(int(S))
                else:
                    S = np.array(rng.randrange(-2, 3)); s = int(S) if skind == 'nb_int' else secint(int(S))
                while True:
                    fn, en = rng.choice(list(FORMS)), rng.choice(list(e_forms(n)))
                    ev = e_forms(n)[en][1]
                    if ev is None or ev >= 0 or FORMS[fn][2]:
                        break
                kw = dict(FORMS[fn][0]); kw.update(e_forms(n)[en][0])
                if not bits:
                    kw['bits'] = False
                ref_f = FORMS[fn][1]
                raw = en == 'raw'
                key = {'fn': 'np_find', 'shape': list(shape), 'axis': axis, 's': skind, 'form': fn, 'e': en,
                       'A': A.tolist(), 'S': S.tolist()}
                rec = {'key': key, 'sig': None, 'lanes': []}
                try:
                    r = mpc.np_find(secint.array(A), s, axis=axis, **kw)
                    if raw:
                        nf_got, y = r
                        nf_got = opn(nf_got)
                    else:
                        y = r
                    multi = len(ref_f(0)) > 1
                    ys_got = [opn(u) for u in y] if multi else [opn(y)]
                    verdict = None
                    for how in ('move', 'swap'):
                        nf_w, ys_w = want_arrays(A, S, axis, how, ref_f, ev, raw)
                        okk = all(same(g, w) for g, w in zip(ys_got, ys_w)) if not raw else True
                        if raw:
                            # raw mode: nf everywhere; f(ix) only where found
                            okk = same(nf_got, nf_w) and all(
                                np.array(g, dtype=object).shape == w.shape and
                                bool(((np.array(g, dtype=object) == w) | (nf_w == 1)).all()) for g, w in zip(ys_got, ys_w))
                        if okk:
                            verdict = how
                            break
                    if verdict == 'move':
                        Am, Sm = lanes_of(A, S, axis, 'move')
                        idxs = list(np.ndindex(*Am.shape[:-1]))
                        for idx in rng.sample(idxs, min(2, len(idxs))):
                            got_l = [int(g[idx]) if g.shape else int(g) for g in ys_got]
                            rec['lanes'].append([[int(v) for v in Am[idx]], int(Sm[idx]), skind in ('sec', 'arr_sec', 'nb_sec'),
                                                 bits, en, fn,
                                                 ['raw', int(nf_got[idx]) if nf_got.shape else int(nf_got), got_l] if raw else ['val', got_l]])
                    elif verdict == 'swap':
                        rec['sig'] = 'np_find-result-axes-swapped ndim=%d axis=%d' % (nd, axis % nd)
                        rec['detail'] = {'got_shape': list(np.array(ys_got[0]).shape), 'want_shape': list(rem)}
                    else:
                        rec['sig'] = 'np_find-wrong s=%s axis=%d ndim=%d' % (skind, axis, nd)
                        rec['detail'] = {'got': [np.array(g).tolist() for g in ys_got]}
                except Exception as ex:
                    rec['sig'] = 'np_find-raises %s s=%s axis=%d ndim=%d' % (type(ex).__name__, skind, axis, nd)
                    rec['detail'] = {'exc': str(ex)[:200]}
                out.append(rec)
# argument forms np_find does not handle (the list version does)
A = np.array([[1, 1, 0, 1], [1, 1, 1, 1]])
for name, kw in [('f-and-cs_f', {'f': lambda i: (2 * i,), 'cs_f': lambda b, i: (2 * (i + b),), 'e': None}),
                 ('tuple-f', {'f': lambda i: (i, i * i)})]:
    rec = {'key': {'fn': 'np_find', 'form': name, 'A': A.tolist()}, 'sig': None, 'lanes': []}
    try:
        opn(mpc.np_find(secint.array(A), 0, **kw))
    except Exception as ex:
        rec['sig'] = 'np_find-%s raises %s' % (name, type(ex).__name__)
        rec['detail'] = {'exc': str(ex)[:200]}
    out.append(rec)
mpc.run(mpc.shutdown())
print('RESULT ' + json.dumps(out))
'''


def _np_find_stream(ctx, st):
    """np_find (NumPy sibling of find): every axis of 1-D/2-D/3-D arrays, scalar and array-valued s, public and secret,
    the argument forms it supports; oracle = the list find semantics along the axis; sampled lanes go to the Coq model."""
    import os, subprocess, json
    from lib.core import PYNP, REPO
    if not os.path.exists(PYNP):
        ctx.notes.append('np_find stream skipped: no NumPy interpreter at %s' % PYNP)
        return
    env = dict(os.environ, PYTHONPATH=REPO, PYTHONHASHSEED='0')
    p = subprocess.run([PYNP, '-c', NP_FIND_CODE, str(ctx.seed), str(ctx.n(1, 4))], env=env, stdout=subprocess.PIPE,
                       stderr=subprocess.PIPE, text=True, timeout=600)
    line = [ln for ln in p.stdout.split('\n') if ln.startswith('RESULT ')]
    if p.returncode or not line:
        st.violation('np_find-stream-crashed', {'stderr': p.stderr[-1500:]})
        return
    nl = 0
    for rec in json.loads(line[-1][7:]):
        key = rec['key']
        ctx.case(key, nontrivial=True, kind='np_find (m=1, NumPy)')
        if rec['sig']:
            st.violation(rec['sig'], dict(key, **rec.get('detail', {})))
        for (lane, sv, asec, bits, en, fn, got) in rec['lanes']:
            nlen = len(lane)
            _, _, cf, ccs, _, _ = find_forms(nlen)[fn]
            ce = find_e_forms(nlen)[en][1]
            gm = ('Some', (('Some', got[1]), got[2])) if got[0] == 'raw' else ('Some', (None, got[1]))
            if got[0] == 'raw' and sv not in lane:
                continue        # raw mode, not found: f(ix) unspecified (np_where leaves f(len)); oracle checked nf
            st.model('find %s (%s) %s (%s) %s %s' % (zlist(lane), ('ASec %s' if asec else 'AInt %s') % zlit(sv), blit(bits), ce,
                                                   cf, ccs), gm, dict(key, lane=lane, s=sv), 'find')
            nl += 1
    ctx.extra['np_find_lanes_to_model'] = nl


def _evaluate(ctx, st, ok):
    exprs, expect = st.exprs, st.expect
    # cases of the same result type are evaluated in batches: one Coq list per Eval
    groups, gmeta = [], []
    bykind = {}
    for e, (impl, key, what) in zip(exprs, expect):
        bykind.setdefault(what, []).append((e, impl, key))
    for what, items in bykind.items():
        for i in range(0, len(items), 25):
            part = items[i:i + 25]
            groups.append('[%s]' % '; '.join('(%s)' % e for e, _, _ in part))
            gmeta.append((what, part))
    ctx.log('%d implementation cases; evaluating %d model expressions in Coq (%d batches)' % (
        ctx.evaluations, len(exprs), len(groups)))
    if ok:
        res = ctx.coq_eval(['MPyC.Bits', 'MPyC.FindUnit'], groups, preamble='Open Scope Z_scope.',
                           chunk=max(1, (len(groups) + 13) // 14), jobs=14)
        mism = 0
        for rs, (what, part) in zip(res, gmeta):
            if (isinstance(rs, tuple) and rs and rs[0] == 'ERROR') or not isinstance(rs, list) or len(rs) != len(part):
                mism += len(part)
                ctx.broken.append({'kind': 'correspondence', 'what': 'coq evaluation failed: ' + what,
                                   'case': part[0][2], 'detail': str(rs)[:600]})
                continue
            for r, (e, impl, key) in zip(rs, part):
                if what == 'from_bits':
                    got, p = impl
                    agree = (r % p if p else r) == got
                elif what == 'trailing_zeros_prefix':
                    got, upto = impl      # above the lowest 1 the bits depend on the (distributed) tape
                    agree = isinstance(r, list) and len(r) == len(got) and r[:upto] == got[:upto]
                else:
                    agree = norm(r) == norm(impl)
                if not agree:
                    mism += 1
                    if len(ctx.broken) < 50:
                        ctx.broken.append({'kind': 'correspondence', 'what': what, 'case': key, 'model': str(r)[:300],
                                           'impl': str(impl)[:300]})
        ctx.extra['traces_validated_against_impl'] = len(exprs) - mism
        ctx.log('model/implementation disagreements: %d' % mism)
    if ctx.broken and not ctx.violations:
        # every implementation run above was also checked against the property oracle (same inputs)
        ctx.unproved('C30 model/proof', {'broken': ctx.broken[:5]})


def norm(v):
    """Canonical form for comparing parsed Coq values with harness values."""
    if isinstance(v, tuple):
        if len(v) == 2 and v[0] == 'Some':
            return ('Some', norm(v[1]))
        return tuple(norm(u) for u in v)
    if isinstance(v, list):
        return [norm(u) for u in v]
    return v
