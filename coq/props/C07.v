(** C07 — input, output and transfer reach exactly the designated parties.
    Only statements; definitions and proofs are in theories/Routing.v (model of
    runtime.transfer / _distribute / output) and theories/Shamir.v, Lagrange.v. *)
Require Import MPyC.Base MPyC.Field MPyC.Poly MPyC.Lagrange MPyC.Shamir MPyC.Zp MPyC.Routing.
From Coq Require Import ZArith Znumtheory.
Local Open Scope nat_scope.

(** ** transfer — all three argument forms (bipartite lists, dict, pair list), code after the
    repairs 5a43ef0 (dict .get) and cb049a3 (int sender at a non-receiver) *)

(** party j expects an object from i exactly when (i,j) is a designated arc ... *)
Theorem C07_my_senders_arc :
  forall (G : Graph) (i j : nat), In i (my_senders G j) <-> arc G i j.
Proof. exact my_senders_arc. Qed.
Print Assumptions C07_my_senders_arc .

(** ... and i sends to j exactly when j expects it (no receive without its send, no send
    without its receive), for EVERY party incl. parties that are not a key of a dict graph;
    [wf] = dict keys distinct (always true of a Python dict) *)
Theorem C07_transfer_matched :
  forall (G : Graph) (i j : nat),
    wf G -> (In j (my_receivers G i) <-> In i (my_senders G j)).
Proof. exact transfer_matched. Qed.
Print Assumptions C07_transfer_matched .

Theorem C07_transfer_wire_matched :
  forall (G : Graph) (i j : nat),
    wf G -> (In j (transfer_sends G i) <-> In i (transfer_recvs G j)).
Proof. exact transfer_wire_matched. Qed.
Print Assumptions C07_transfer_wire_matched .

(** each party returns exactly its designated senders' objects, in sender order *)
Theorem C07_transfer_delivers :
  forall (A : Type) (obj : nat -> A) (G : Graph) (j : nat),
    transfer_result obj G j = map obj (my_senders G j).
Proof. exact @transfer_delivers. Qed.
Print Assumptions C07_transfer_delivers .

Theorem C07_transfer_delivers_bip :
  forall (A : Type) (obj : nat -> A) (Sd R : list nat) (j : nat),
    (In j R -> transfer_result obj (Bip Sd R) j = map obj Sd) /\
    (~ In j R -> transfer_result obj (Bip Sd R) j = []).
Proof. exact @transfer_delivers_bip. Qed.
Print Assumptions C07_transfer_delivers_bip .

Theorem C07_transfer_delivers_pairs :
  forall (A : Type) (obj : nat -> A) (g : list (nat * nat)) (j : nat),
    transfer_result obj (Pairs g) j = map obj (map fst (filter (fun ab => snd ab =? j) g)).
Proof. exact @transfer_delivers_pairs. Qed.
Print Assumptions C07_transfer_delivers_pairs .

(** dict form: every party, whether or not it is a key of the dict *)
Theorem C07_transfer_delivers_dict :
  forall (A : Type) (obj : nat -> A) (d : list (nat * list nat)) (j : nat),
    transfer_result obj (Dict d) j = map obj (map fst (filter (fun ab => mem j (snd ab)) d)).
Proof. exact @transfer_delivers_dict. Qed.
Print Assumptions C07_transfer_delivers_dict .

(** a party that is not a key of the dict sends nothing *)
Theorem C07_transfer_dict_missing_key_silent :
  forall (d : list (nat * list nat)) (i : nat),
    ~ In i (map fst d) -> my_receivers (Dict d) i = [] /\ transfer_sends (Dict d) i = [].
Proof. exact transfer_dict_missing_key_silent. Qed.
Print Assumptions C07_transfer_dict_missing_key_silent .

(** a party without designated sender expects nothing (and by C07_transfer_delivers returns []) *)
Theorem C07_transfer_nonreceiver :
  forall (G : Graph) (j : nat),
    (forall i, ~ arc G i j) -> my_senders G j = [] /\ transfer_recvs G j = [].
Proof. exact transfer_nonreceiver. Qed.
Print Assumptions C07_transfer_nonreceiver .

(** [senders] an int: a receiver gets the object itself, a non-receiver gets None *)
Theorem C07_transfer_int_receiver :
  forall (A : Type) (obj : nat -> A) (s : nat) (R : list nat) (j : nat),
    In j R -> transfer_result_int obj s R j = Some (obj s).
Proof. exact @transfer_int_receiver. Qed.
Print Assumptions C07_transfer_int_receiver .

Theorem C07_transfer_int_nonreceiver_none :
  forall (A : Type) (obj : nat -> A) (s : nat) (R : list nat) (j : nat),
    ~ In j R -> transfer_result_int obj s R j = None.
Proof. exact @transfer_int_nonreceiver_none. Qed.
Print Assumptions C07_transfer_int_nonreceiver_none .

(** ** input: party r expects a dealing from p exactly when p deals to r *)
Theorem C07_input_matched :
  forall (m : nat) (Sd : list nat) (p r : nat),
    r < m -> (In r (input_sends m Sd p) <-> In p (input_recvs Sd r)).
Proof. exact input_matched. Qed.
Print Assumptions C07_input_matched .

(** ** output, any m, any receiver list R, any threshold t' < m *)

(** every receive has its send and vice versa *)
Theorem C07_output_matched :
  forall (m t : nat) (R : list nat) (r s : nat),
    t < m -> r < m -> s < m -> In r R ->
    (In s (out_recvs m t R r) <-> In r (out_sends m t R s)).
Proof. exact output_matched. Qed.
Print Assumptions C07_output_matched .

(** a receiver waits for t' shares from t' distinct parties other than itself *)
Theorem C07_recvs_distinct :
  forall (m t : nat) (R : list nat) (r : nat),
    t < m -> r < m -> In r R ->
    length (out_recvs m t R r) = t /\ NoDup (out_recvs m t R r) /\ ~ In r (out_recvs m t R r) /\
    (forall s, In s (out_recvs m t R r) -> s < m).
Proof. exact recvs_distinct. Qed.
Print Assumptions C07_recvs_distinct .

(** a non-receiver returns None (and, C19, nobody sends to it) *)
Theorem C07_output_nonreceiver_none :
  forall (K : Ops) (inj : nat -> K) (m t : nat) (R : list nat) (q : nat) (rows : nat -> list K),
    ~ In q R -> output_at inj m t R q rows = None.
Proof.
  intros K inj m t R q rows H. unfold output_at. apply mem_false in H. rewrite H. reflexivity.
Qed.
Print Assumptions C07_output_nonreceiver_none .

(** every receiver recombines the shared value from its own share and the shares of its t'
    predecessors, whenever the sharing has degree d <= t' — hence all receivers agree *)
Theorem C07_output_value :
  forall (K : FieldT) (inj : nat -> K) (m : nat),
    (forall i j, i <= m -> j <= m -> inj i = inj j -> i = j) -> inj O = f0 K ->
    forall (sigma : list K) (a : K) (d t : nat) (R : list nat) (r : nat),
      Sharing inj m d sigma a -> d <= t -> t < m -> r < m -> In r R ->
      recombine_at (map (fun s => inj (S s)) (out_point_ids m t R r))
                   (map (fun s => nth s sigma (f0 K)) (out_point_ids m t R r)) (inj O) = a.
Proof. exact output_value. Qed.
Print Assumptions C07_output_value .

(** the same through the code's list-valued recombine(points): entry h of the returned list *)
Theorem C07_output_at_value :
  forall (K : FieldT) (inj : nat -> K) (m : nat),
    (forall i j, i <= m -> j <= m -> inj i = inj j -> i = j) -> inj O = f0 K ->
    forall (rows : nat -> list K) (n : nat) (secrets : list K) (d t : nat) (R : list nat) (r h : nat),
      (forall s, s < m -> length (rows s) = n) -> h < n ->
      Sharing inj m d (map (fun s => nth h (rows s) (f0 K)) (seq 0 m)) (nth h secrets (f0 K)) ->
      d <= t -> t < m -> r < m -> In r R ->
      exists y, output_at inj m t R r rows = Some y /\ nth h y (f0 K) = nth h secrets (f0 K).
Proof. exact output_at_value. Qed.
Print Assumptions C07_output_at_value .

(** secret input by a sender (random_split dealing, ANY coefficient tape) opens — at any
    receiver, with any output threshold t <= t' < m — to the sender's value *)
Theorem C07_input_opens :
  forall (K : FieldT) (inj : nat -> K) (m : nat),
    (forall i j, i <= m -> j <= m -> inj i = inj j -> i = j) -> inj O = f0 K ->
    forall (tape ss : list K) (t t' : nat) (R : list nat) (r h : nat),
      h < length ss -> t <= t' -> t' < m -> r < m -> In r R ->
      let sigma := map (fun row => nth h row (f0 K)) (random_split inj tape ss t m) in
      recombine_at (map (fun s => inj (S s)) (out_point_ids m t' R r))
                   (map (fun s => nth s sigma (f0 K)) (out_point_ids m t' R r)) (inj O) = nth h ss (f0 K).
Proof. exact input_opens. Qed.
Print Assumptions C07_input_opens .

(** instance: integers modulo a prime p > m (the fields the runtime uses for secint/secfxp) *)
Theorem C07_input_opens_Zp :
  forall (p : Z) (Hp : prime p) (m : nat), (Z.of_nat m < p)%Z ->
    forall (tape ss : list (Zp p)) (t t' : nat) (R : list nat) (r h : nat),
      h < length ss -> t <= t' -> t' < m -> r < m -> In r R ->
      let sigma := map (fun row => nth h row (mkZp p 0)) (@random_split (ZpOps p) (zp_of_nat p) tape ss t m) in
      @recombine_at (ZpOps p) (map (fun s => zp_of_nat p (S s)) (out_point_ids m t' R r))
                    (map (fun s => nth s sigma (mkZp p 0)) (out_point_ids m t' R r)) (zp_of_nat p O)
      = nth h ss (mkZp p 0).
Proof.
  intros p Hp m Hm tape ss t t' R r h Hh Ht Ht' Hr HR.
  apply (input_opens (ZpField p Hp) (zp_of_nat p) m); auto.
  intros i j Hi Hj. apply zp_of_nat_inj; lia.
Qed.
Print Assumptions C07_input_opens_Zp .

(** ** non-vacuity (concrete instances meeting the hypotheses) *)

(** m = 5, t' = 2, R = [4;0;2]: party 0 waits for [3;4] and parties 3,4 send to 0; party 1 is
    sent nothing and waits for nothing *)
Example C07_output_nonvacuous :
  out_recvs 5 2 [4; 0; 2] 0 = [3; 4] /\ out_recvs 5 2 [4; 0; 2] 1 = [] /\
  map (out_sends 5 2 [4; 0; 2]) [0; 1; 2; 3; 4] = [[2]; [2]; [4]; [4; 0]; [0]] /\
  out_point_ids 5 2 [4; 0; 2] 4 = [2; 3; 4].
Proof. vm_compute. auto. Qed.

(** threshold 2t: m = 5, t' = 4 *)
Example C07_output_nonvacuous_2t :
  out_recvs 5 4 [1] 1 = [2; 3; 4; 0] /\ map (out_sends 5 4 [1]) [0; 1; 2; 3; 4] = [[1]; []; [1]; [1]; [1]].
Proof. vm_compute. auto. Qed.

(** transfer: the three forms on 3 parties *)
Example C07_transfer_nonvacuous :
  map (my_senders (Bip [2; 0] [1; 2])) [0; 1; 2] = [[]; [2; 0]; [2; 0]] /\
  map (my_receivers (Bip [2; 0] [1; 2])) [0; 1; 2] = [[1; 2]; []; [1; 2]] /\
  map (my_senders (Dict [(2, [0; 1]); (0, [1]); (1, [])])) [0; 1; 2] = [[2]; [2; 0]; []] /\
  map (my_receivers (Dict [(2, [0; 1]); (0, [1]); (1, [])])) [0; 1; 2] = [[1]; []; [0; 1]] /\
  map (my_senders (Pairs [(0, 1); (2, 1); (1, 1)])) [0; 1; 2] = [[]; [0; 2; 1]; []] /\
  map (input_sends 3 [2; 0]) [0; 1; 2] = [[1; 2]; []; [0; 1]] /\ map (input_recvs [2; 0]) [0; 1; 2] = [[2]; [2; 0]; [0]].
Proof. vm_compute. repeat split. Qed.

(** the two formerly failing call forms (finding F-C07-1/2, repaired), m = 3:
    transfer(obj, sender_receivers={0: [1]}): party 1 gets [obj_0], parties 0 and 2 get [],
    only party 0 sends (to 1), parties 1 and 2 (not keys) send nothing;
    transfer(obj, senders=0, receivers=[1]): party 1 gets obj_0, parties 0 and 2 get None *)
Example C07_former_failing_forms :
  map (transfer_result (fun i => i) (Dict [(0, [1])])) [0; 1; 2] = [[]; [0]; []] /\
  map (transfer_sends (Dict [(0, [1])])) [0; 1; 2] = [[1]; []; []] /\
  map (transfer_recvs (Dict [(0, [1])])) [0; 1; 2] = [[]; [0]; []] /\
  map (transfer_result_int (fun i => i) 0 [1]) [0; 1; 2] = [None; Some 0; None].
Proof. vm_compute. repeat split. Qed.

(** GF(11), m = 5, t = 2: shares of secret 7 under coefficients [3;9] are [8;4;6;3;6];
    receiver 0 with threshold 2 uses parties [3;4;0], with threshold 4 all five: both give 7 *)
Example C07_output_value_nonvacuous :
  prime 11 /\
  map (fun i => zval (@share_at (ZpOps 11) (zp_of_nat 11) [mkZp 11 3; mkZp 11 9] (mkZp 11 7) i)) [1; 2; 3; 4; 5]
    = [8; 4; 6; 3; 6]%Z /\
  zp_output 11 5 2 [0; 3] 0 [[8]; [4]; [6]; [3]; [6]]%Z = Some [7%Z] /\
  zp_output 11 5 4 [0; 3] 3 [[8]; [4]; [6]; [3]; [6]]%Z = Some [7%Z] /\
  zp_output 11 5 2 [0; 3] 1 [[8]; [4]; [6]; [3]; [6]]%Z = None.
Proof. split; [apply is_prime_small_correct; reflexivity|]. vm_compute. auto. Qed.
