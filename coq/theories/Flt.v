(** C05 — value-level model of mpyc.sectypes.SecureFloat.

    A secure float of type SecFlt(s, e) is a pair (S, e): S is the scaled integer of the
    significand, which has type SecFxp(s+1, s-1), i.e. l = f+2 bits with f = s-1 fractional
    bits; the represented value is  S * 2^(e - f).  Nonzero significands are kept with
    1/2 <= |S / 2^f| <= 1 (BOTH ends occur: secflt(1.0) = (2^f, 0), and 0.5 = (2^(f-1), 0) after
    an addition); secflt(0.0) = (0, 0).

    Modelled as coded (sectypes.py, runtime.py):
      trunc        runtime.trunc: floor((x + r) / 2^f) with r in [0, 2^f) the secret random mask
                   (the only non-determinism at value level; r is the tape)
      flt_input    SecureFloat.__init__ for int/float: e = ceil(log2 |x|), S = round(x / 2^e * 2^f)
                   (Python round = half-to-even); x given as M * 2^q
      flt_output   SecureFloat._output: exponent masked to 0 when S = 0
      flt_mul      __mul__: S = trunc(S1*S2), bits x[-2], x[-3] of to_bits(S) (positions f, f-1 of the
                   two's complement pattern), keep if they differ, else double and decrement e
      flt_add      __add__: swap if e1 < e2, d = min(e1-e2, f), S = S1 + trunc(S2 * 2^(f-d))  [2^-d is
                   the in_prod of the unit vector with the table 2^-i; exact], n = find of the first
                   bit different from the sign bit scanning from position l-2 down, S' =
                   trunc(S * 2^(n-1) * 2^f) (exact unless n = 0), e' = e1 - (n-1)
      flt_neg, flt_sub, comparisons through the sign of the significand of self - other.
    NOT modelled: reciprocal/division (runtime._rec Newton iteration), the sharing layer. *)
From Coq Require Import ZArith Lia List Bool QArith Qabs Qpower.
Import ListNotations.
Local Open Scope Z_scope.

Definition flt := (Z * Z)%type.

(** runtime.trunc at value level: r is the f-bit random mask. *)
Definition trunc (f x r : Z) : Z := (x + r) / 2 ^ f.

(** Python round(): half to even, of m / 2^k for k >= 0. *)
Definition rne_shift (m k : Z) : Z :=
  if k <=? 0 then m * 2 ^ (- k) else
  let q := m / 2 ^ k in
  let r := m mod 2 ^ k in
  let h := 2 ^ (k - 1) in
  if r <? h then q else if h <? r then q + 1 else if Z.even q then q else q + 1.

(** SecureFloat.__init__(value) with value = M * 2^q (every Python float and int is of this form).
    e = ceil(log2 |value|) = log2_up |M| + q ;  sg = round(value * 2^(f - e)). *)
Definition flt_input (f M q : Z) : flt :=
  if M =? 0 then (0, 0) else
  let e := Z.log2_up (Z.abs M) + q in
  (rne_shift M (e - f - q), e).

(** SecureFloat._output: opened significand, exponent masked when the significand is zero. *)
Definition flt_output (x : flt) : flt :=
  let '(sg, e) := x in if sg =? 0 then (0, 0) else (sg, e).

Definition flt_neg (x : flt) : flt := let '(sg, e) := x in (- sg, e).

(** __mul__ *)
Definition flt_mul (f : Z) (x y : flt) (r : Z) : flt :=
  let '(S1, e1) := x in
  let '(S2, e2) := y in
  let sg := trunc f (S1 * S2) r in
  let e := e1 + e2 in
  let c := xorb (Z.testbit sg f) (Z.testbit sg (f - 1)) in    (* x[-2] ^ x[-3], l = f+2 bits *)
  if c then (sg, e) else (2 * sg, e - 1).

(** runtime.find(x, 1-b) on the reversed bit list: scan positions i-1, i-2, ..., 0 for the first
    bit equal to a; the result is the number of positions skipped (= i when not found). *)
Fixpoint scan (v : Z) (a : bool) (i : nat) (n : Z) : Z :=
  match i with
  | O => n
  | S i' => if Bool.eqb (Z.testbit v (Z.of_nat i')) a then n else scan v a i' (n + 1)
  end.

Definition lead (f sg : Z) : Z :=
  let b := Z.testbit sg (f + 1) in                 (* sign bit x[-1] of the l = f+2 bit pattern *)
  scan sg (negb b) (Z.to_nat (f + 1)) 0.

(** __add__ *)
Definition flt_add (f : Z) (x y : flt) (r1 r2 : Z) : flt :=
  let '(S1, e1) := x in
  let '(S2, e2) := y in
  let c := e1 <? e2 in
  let '(S1, e1, S2, e2) := if c then (S2, e2, S1, e1) else (S1, e1, S2, e2) in
  let d := Z.min (e1 - e2) f in
  let sg := S1 + trunc f (S2 * 2 ^ (f - d)) r1 in
  let n := lead f sg in
  (trunc f (sg * 2 ^ (n - 1 + f)) r2, e1 - (n - 1)).

Definition flt_sub (f : Z) (x y : flt) (r1 r2 : Z) : flt := flt_add f x (flt_neg y) r1 r2.

(** comparisons: the sign of the significand of self - other; result is the bit. *)
Definition flt_lt f x y r1 r2 := fst (flt_sub f x y r1 r2) <? 0.
Definition flt_le f x y r1 r2 := fst (flt_sub f x y r1 r2) <=? 0.
Definition flt_eq f x y r1 r2 := fst (flt_sub f x y r1 r2) =? 0.
Definition flt_ge f x y r1 r2 := 0 <=? fst (flt_sub f x y r1 r2).
Definition flt_gt f x y r1 r2 := 0 <? fst (flt_sub f x y r1 r2).
Definition flt_ne f x y r1 r2 := negb (fst (flt_sub f x y r1 r2) =? 0).

(** All results over the extreme tape values (r = 0 rounds down, r = 2^f - 1 rounds up); since
    floor((x+r)/2^f) only takes the values floor(x/2^f) and ceil(x/2^f) for 0 <= r < 2^f, these
    lists enumerate every possible outcome.  Used by the correspondence check. *)
Definition tapes (f : Z) : list Z := [0; 2 ^ f - 1].
Definition flt_mul_all f x y := map (flt_mul f x y) (tapes f).
Definition flt_add_all f x y := flat_map (fun r1 => map (flt_add f x y r1) (tapes f)) (tapes f).
Definition flt_sub_all f x y := flt_add_all f x (flt_neg y).
Definition flt_cmp_all f x y :=
  map (fun z => let s := fst z in [s <? 0; s <=? 0; s =? 0; 0 <=? s; 0 <? s; negb (s =? 0)])
      (flt_sub_all f x y).

(* ================================================================ proofs *)

(* ---------------------------------------------------------------- Z-level facts *)

Definition norm (f s : Z) : Prop := s = 0 \/ 2 ^ (f - 1) <= Z.abs s <= 2 ^ f.

Lemma div_range a b k : 0 < b -> k * b <= a < (k + 1) * b -> a / b = k.
Proof. intros Hb H. symmetry. apply Z.div_unique with (a - k * b); lia. Qed.

Lemma trunc_spec f x r : 0 <= f -> 0 <= r < 2 ^ f ->
  x - 2 ^ f < trunc f x r * 2 ^ f <= x + r.
Proof.
  intros Hf Hr. unfold trunc. assert (Hp : 0 < 2 ^ f) by (apply Z.pow_pos_nonneg; lia).
  pose proof (Z.div_mod (x + r) (2 ^ f) ltac:(lia)) as Hd.
  pose proof (Z.mod_pos_bound (x + r) (2 ^ f) Hp) as Hm. lia.
Qed.

Lemma trunc_exact f x r : 0 <= f -> 0 <= r < 2 ^ f -> trunc f (x * 2 ^ f) r = x.
Proof.
  intros Hf Hr. unfold trunc. assert (Hp : 0 < 2 ^ f) by (apply Z.pow_pos_nonneg; lia).
  apply div_range; lia.
Qed.

Lemma pow2_split f : 2 <= f -> 2 ^ f = 4 * 2 ^ (f - 2) /\ 2 ^ (f - 1) = 2 * 2 ^ (f - 2) /\ 0 < 2 ^ (f - 2).
Proof.
  intros Hf. replace f with ((f - 2) + 2) at 1 by lia. replace (f - 1) with ((f - 2) + 1) by lia.
  rewrite !Z.pow_add_r by lia. change (2 ^ 2) with 4. change (2 ^ 1) with 2.
  assert (0 < 2 ^ (f - 2)) by (apply Z.pow_pos_nonneg; lia). lia.
Qed.

(** the two bits tested by __mul__, as arithmetic on t/2^f and t/2^(f-1) *)
Lemma mul_bits f t : 2 <= f ->
  xorb (Z.testbit t f) (Z.testbit t (f - 1)) =
  xorb ((t / 2 ^ f) mod 2 =? 1) ((t / 2 ^ (f - 1)) mod 2 =? 1).
Proof. intros Hf. rewrite !Z.testbit_eqb by lia. reflexivity. Qed.

Lemma mul_norm_core f t : 2 <= f -> 2 ^ (f - 2) <= Z.abs t <= 2 ^ f ->
  let c := xorb (Z.testbit t f) (Z.testbit t (f - 1)) in
  (c = true /\ 2 ^ (f - 1) <= Z.abs t <= 2 ^ f) \/ (c = false /\ 2 ^ (f - 1) <= Z.abs (2 * t) <= 2 ^ f).
Proof.
  intros Hf Ht. cbv zeta. rewrite mul_bits by lia.
  destruct (pow2_split f Hf) as (Hp & Hh & Hq).
  set (q := 2 ^ (f - 2)) in *. rewrite Hp, Hh in *.
  assert (C : (q <= t < 2 * q) \/ (2 * q <= t < 4 * q) \/ t = 4 * q \/
              t = - (4 * q) \/ (- (4 * q) < t < - (2 * q)) \/ (- (2 * q) <= t <= - q)) by lia.
  destruct C as [C|[C|[C|[C|[C|C]]]]].
  - right. rewrite (div_range t (4 * q) 0), (div_range t (2 * q) 0) by lia. split; [reflexivity|lia].
  - left. rewrite (div_range t (4 * q) 0), (div_range t (2 * q) 1) by lia. split; [reflexivity|lia].
  - left. rewrite (div_range t (4 * q) 1), (div_range t (2 * q) 2) by lia. split; [reflexivity|lia].
  - left. rewrite (div_range t (4 * q) (-1)), (div_range t (2 * q) (-2)) by lia. split; [reflexivity|lia].
  - left. rewrite (div_range t (4 * q) (-1)), (div_range t (2 * q) (-2)) by lia. split; [reflexivity|lia].
  - right. rewrite (div_range t (4 * q) (-1)), (div_range t (2 * q) (-1)) by lia. split; [reflexivity|lia].
Qed.

(** range of the truncated significand product *)
Lemma mul_trunc_range f s1 s2 r : 2 <= f -> 0 <= r < 2 ^ f ->
  2 ^ (f - 1) <= Z.abs s1 <= 2 ^ f -> 2 ^ (f - 1) <= Z.abs s2 <= 2 ^ f ->
  2 ^ (f - 2) <= Z.abs (trunc f (s1 * s2) r) <= 2 ^ f.
Proof.
  intros Hf Hr H1 H2. pose proof (trunc_spec f (s1 * s2) r ltac:(lia) Hr) as Ht.
  destruct (pow2_split f Hf) as (Hp & Hh & Hq).
  set (q := 2 ^ (f - 2)) in *. set (t := trunc f (s1 * s2) r) in *. rewrite Hp, Hh in *.
  assert (HP : 4 * q * q <= Z.abs (s1 * s2) <= 16 * q * q) by (rewrite Z.abs_mul; nia).
  destruct (Z_le_gt_dec 0 (s1 * s2)) as [Hs|Hs].
  - rewrite Z.abs_eq in HP by lia. assert (q <= t) by nia. assert (t <= 4 * q) by nia. lia.
  - rewrite Z.abs_neq in HP by lia. assert (t <= - q) by nia. assert (- (4 * q) <= t) by nia. lia.
Qed.

Lemma flt_mul_zero f x y r : 0 <= f -> 0 <= r < 2 ^ f -> fst x = 0 \/ fst y = 0 ->
  fst (flt_mul f x y r) = 0.
Proof.
  intros Hf Hr H0. destruct x as [s1 e1], y as [s2 e2]. simpl in H0. unfold flt_mul.
  assert (HP : s1 * s2 = 0) by (destruct H0; subst; lia). rewrite HP.
  assert (Ht : trunc f 0 r = 0).
  { unfold trunc. apply Z.div_small. lia. }
  rewrite Ht. rewrite !Z.testbit_0_l. reflexivity.
Qed.

Theorem flt_norm_inv_mul f x y r : 2 <= f -> 0 <= r < 2 ^ f ->
  norm f (fst x) -> norm f (fst y) -> norm f (fst (flt_mul f x y r)).
Proof.
  intros Hf Hr [Hx|Hx] Hy; [left; apply flt_mul_zero; auto; lia|].
  destruct Hy as [Hy|Hy]; [left; apply flt_mul_zero; auto; lia|].
  destruct x as [s1 e1], y as [s2 e2]. simpl in Hx, Hy. unfold flt_mul.
  pose proof (mul_trunc_range f s1 s2 r Hf Hr Hx Hy) as Ht.
  destruct (mul_norm_core f _ Hf Ht) as [[Hc Hn]|[Hc Hn]]; rewrite Hc; simpl; right; exact Hn.
Qed.

(* ---------------------------------------------------------------- values in Q *)

Definition pow2 (z : Z) : Q := (2 # 1) ^ z.
Definition fval (f : Z) (x : flt) : Q := inject_Z (fst x) * pow2 (snd x - f).

Lemma pow2_pos z : (0 < pow2 z)%Q.
Proof. apply Qpower_0_lt. reflexivity. Qed.

Lemma pow2_add a b : (pow2 (a + b) == pow2 a * pow2 b)%Q.
Proof. apply Qpower_plus. discriminate. Qed.

Lemma pow2_Z k : 0 <= k -> (pow2 k == inject_Z (2 ^ k))%Q.
Proof. intros Hk. unfold pow2. rewrite Zpower_Qpower by exact Hk. reflexivity. Qed.

Lemma pow2_0 : (pow2 0 == 1)%Q.
Proof. reflexivity. Qed.

Lemma pow2_cancel f : (pow2 (- f) * pow2 f == 1)%Q.
Proof. rewrite <- pow2_add. replace (- f + f) with 0 by lia. reflexivity. Qed.

Lemma Qabs_inject z : Qabs (inject_Z z) = inject_Z (Z.abs z).
Proof. reflexivity. Qed.

(** bridge: an integer inequality on a common grid w gives the rational error bound *)
Lemma q_bound A B C c f (w : Q) : 0 <= f -> (0 < w)%Q ->
  Z.abs (A - B) * 2 ^ f <= c * Z.abs C ->
  (Qabs (inject_Z A * w - inject_Z B * w) <= inject_Z c * pow2 (- f) * Qabs (inject_Z C * w))%Q.
Proof.
  intros Hf Hw H.
  assert (E1 : (inject_Z A * w - inject_Z B * w == inject_Z (A - B) * w)%Q).
  { unfold Z.sub. rewrite inject_Z_plus, inject_Z_opp. ring. }
  rewrite E1, !Qabs_Qmult, !Qabs_inject, (Qabs_pos w) by (apply Qlt_le_weak; exact Hw).
  assert (E2 : (inject_Z c * pow2 (- f) * (inject_Z (Z.abs C) * w)
                == inject_Z (c * Z.abs C) * pow2 (- f) * w)%Q).
  { rewrite inject_Z_mult. ring. }
  rewrite E2. apply Qmult_le_compat_r; [|apply Qlt_le_weak; exact Hw].
  apply (Qmult_le_r _ _ (pow2 f)); [apply pow2_pos|].
  rewrite <- Qmult_assoc, pow2_cancel, Qmult_1_r, (pow2_Z f Hf), <- inject_Z_mult, <- Zle_Qle.
  exact H.
Qed.

Lemma flt_mul_val f x y r : 0 <= f ->
  (fval f (flt_mul f x y r)
   == inject_Z (trunc f (fst x * fst y) r * 2 ^ f) * pow2 (snd x + snd y - 2 * f))%Q.
Proof.
  intros Hf. destruct x as [s1 e1], y as [s2 e2]. unfold flt_mul, fval. cbn [fst snd].
  set (t := trunc f (s1 * s2) r).
  destruct (xorb (Z.testbit t f) (Z.testbit t (f - 1))); cbn [fst snd].
  - replace (e1 + e2 - f) with (f + (e1 + e2 - 2 * f)) by lia.
    rewrite pow2_add, (pow2_Z f Hf), inject_Z_mult. ring.
  - replace (e1 + e2 - 1 - f) with (-1 + (f + (e1 + e2 - 2 * f))) by lia.
    rewrite !pow2_add, (pow2_Z f Hf), !inject_Z_mult.
    change (pow2 (-1)) with (1 # 2)%Q. change (inject_Z 2) with (2 # 1)%Q. field.
Qed.

Lemma fval_mul f x y :
  (fval f x * fval f y == inject_Z (fst x * fst y) * pow2 (snd x + snd y - 2 * f))%Q.
Proof.
  unfold fval. replace (snd x + snd y - 2 * f) with ((snd x - f) + (snd y - f)) by lia.
  rewrite pow2_add, inject_Z_mult. ring.
Qed.

Lemma mul_err f s1 s2 r : 2 <= f -> 0 <= r < 2 ^ f -> norm f s1 -> norm f s2 ->
  Z.abs (trunc f (s1 * s2) r * 2 ^ f - s1 * s2) * 2 ^ f <= 4 * Z.abs (s1 * s2).
Proof.
  intros Hf Hr H1 H2.
  pose proof (trunc_spec f (s1 * s2) r ltac:(lia) Hr) as Ht.
  destruct (pow2_split f Hf) as (Hp & Hh & Hq).
  assert (Z0 : s1 * s2 = 0 -> trunc f (s1 * s2) r = 0).
  { intros ->. unfold trunc. apply Z.div_small. lia. }
  destruct H1 as [H1|H1]; [rewrite Z0 by (subst; lia); subst; simpl; lia|].
  destruct H2 as [H2|H2]; [rewrite Z0 by (subst; lia); subst; rewrite Z.mul_0_r; simpl; lia|].
  set (q := 2 ^ (f - 2)) in *. set (t := trunc f (s1 * s2) r) in *. rewrite Hp, Hh in *.
  assert (HP : 4 * q * q <= Z.abs (s1 * s2)) by (rewrite Z.abs_mul; nia).
  assert (Z.abs (t * (4 * q) - s1 * s2) <= 4 * q) by lia. nia.
Qed.

Theorem mul_bound f x y r : 2 <= f -> 0 <= r < 2 ^ f -> norm f (fst x) -> norm f (fst y) ->
  (Qabs (fval f (flt_mul f x y r) - fval f x * fval f y)
   <= inject_Z 4 * pow2 (- f) * Qabs (fval f x * fval f y))%Q.
Proof.
  intros Hf Hr Hx Hy. rewrite flt_mul_val by lia. rewrite fval_mul.
  apply q_bound; [lia|apply pow2_pos|]. apply mul_err; assumption.
Qed.

(* ---------------------------------------------------------------- constructor / output *)

Lemma rne_spec m k : 0 < k -> 2 * Z.abs (rne_shift m k * 2 ^ k - m) <= 2 ^ k.
Proof.
  intros Hk. unfold rne_shift. destruct (Z.leb_spec k 0) as [H0|_]; [lia|].
  assert (Hp : 2 ^ k = 2 * 2 ^ (k - 1)).
  { replace k with ((k - 1) + 1) at 1 by lia. rewrite Z.pow_add_r by lia. change (2 ^ 1) with 2. lia. }
  assert (Hh : 0 < 2 ^ (k - 1)) by (apply Z.pow_pos_nonneg; lia).
  set (h := 2 ^ (k - 1)) in *. rewrite Hp.
  pose proof (Z.div_mod m (2 * h) ltac:(lia)) as Hd.
  pose proof (Z.mod_pos_bound m (2 * h) ltac:(lia)) as Hm.
  set (q0 := m / (2 * h)) in *. set (r := m mod (2 * h)) in *.
  destruct (Z.ltb_spec r h); [lia|]. destruct (Z.ltb_spec h r); [lia|].
  destruct (Z.even q0); lia.
Qed.

Lemma log2_up_bounds M : 1 < Z.abs M -> 2 ^ (Z.log2_up (Z.abs M) - 1) < Z.abs M <= 2 ^ Z.log2_up (Z.abs M).
Proof. intros H. pose proof (Z.log2_up_spec _ H) as Hs. rewrite <- Z.sub_1_r in Hs. exact Hs. Qed.

Lemma pow2_succ_Z a : 0 <= a -> 2 ^ (a + 1) = 2 * 2 ^ a.
Proof. intros. rewrite Z.pow_add_r by lia. change (2 ^ 1) with 2. lia. Qed.

(** integer facts about the constructor: S on the grid 2^k (k = max(L-f,0)) is within half a unit of M *)
Lemma input_core f M : 1 <= f -> M <> 0 ->
  let L := Z.log2_up (Z.abs M) in
  let S := rne_shift M (L - f) in
  (2 ^ (f - 1) <= Z.abs S <= 2 ^ f) /\
  (L - f <= 0 -> S = M * 2 ^ (f - L)) /\
  (0 < L - f -> Z.abs (S * 2 ^ (L - f) - M) * 2 ^ f <= Z.abs M).
Proof.
  intros Hf HM L S.
  assert (HL0 : 0 <= L) by apply Z.log2_up_nonneg.
  assert (Hb : 2 ^ L = 2 * 2 ^ (L - 1) -> 2 ^ (L - 1) < Z.abs M <= 2 ^ L \/ (Z.abs M = 1 /\ L = 0)).
  { intros _. destruct (Z.eq_dec (Z.abs M) 1) as [E|E].
    - right. split; [exact E|]. unfold L. rewrite E. reflexivity.
    - left. apply log2_up_bounds. lia. }
  destruct (Z_le_gt_dec (L - f) 0) as [Hk|Hk].
  - assert (ES : S = M * 2 ^ (f - L)).
    { unfold S, rne_shift. destruct (Z.leb_spec (L - f) 0); [|lia]. f_equal. f_equal. lia. }
    split; [|split; [intros _; exact ES|lia]].
    rewrite ES, Z.abs_mul, (Z.abs_eq (2 ^ (f - L))) by (apply Z.pow_nonneg; lia).
    destruct (Z.eq_dec L 0) as [L0|L0].
    + assert (Z.abs M = 1).
      { destruct (Z.eq_dec (Z.abs M) 1); [assumption|].
        pose proof (log2_up_bounds M ltac:(lia)) as Hx. fold L in Hx. rewrite L0 in Hx. simpl in Hx. lia. }
      rewrite H, L0, Z.sub_0_r.
      assert (E3 : 2 ^ f = 2 * 2 ^ (f - 1)).
      { replace f with ((f - 1) + 1) at 1 by lia. apply pow2_succ_Z. lia. }
      assert (0 < 2 ^ (f - 1)) by (apply Z.pow_pos_nonneg; lia). rewrite E3. lia.
    + assert (HL : 2 ^ L = 2 * 2 ^ (L - 1)).
      { replace L with ((L - 1) + 1) at 1 by lia. apply pow2_succ_Z. lia. }
      destruct (Hb HL) as [Hx|[_ Hx]]; [|lia].
      assert (E1 : 2 ^ f = 2 ^ L * 2 ^ (f - L)) by (rewrite <- Z.pow_add_r by lia; f_equal; lia).
      assert (E2 : 2 ^ (f - 1) = 2 ^ (L - 1) * 2 ^ (f - L)) by (rewrite <- Z.pow_add_r by lia; f_equal; lia).
      assert (0 < 2 ^ (f - L)) by (apply Z.pow_pos_nonneg; lia).
      rewrite E1, E2. nia.
  - assert (HL : 2 ^ L = 2 * 2 ^ (L - 1)).
    { replace L with ((L - 1) + 1) at 1 by lia. apply pow2_succ_Z. lia. }
    destruct (Hb HL) as [Hx|[_ Hx]]; [|lia].
    pose proof (rne_spec M (L - f) ltac:(lia)) as Hr. fold S in Hr.
    set (k := L - f) in *.
    assert (E1 : 2 ^ L = 2 ^ f * 2 ^ k) by (rewrite <- Z.pow_add_r by lia; f_equal; lia).
    assert (E2 : 2 ^ (L - 1) = 2 ^ (f - 1) * 2 ^ k) by (rewrite <- Z.pow_add_r by lia; f_equal; lia).
    assert (E3 : 2 ^ f = 2 * 2 ^ (f - 1)).
    { replace f with ((f - 1) + 1) at 1 by lia. apply pow2_succ_Z. lia. }
    assert (Hpk : 0 < 2 ^ k) by (apply Z.pow_pos_nonneg; lia).
    assert (Hpf : 0 < 2 ^ (f - 1)) by (apply Z.pow_pos_nonneg; lia).
    rewrite E1, E2 in Hx. 
    split; [|split; [lia|intros _]].
    + rewrite E3. set (a := 2 ^ (f - 1)) in *. set (b := 2 ^ k) in *.
      destruct (Z_le_gt_dec 0 M); [rewrite (Z.abs_eq M) in * by lia|rewrite (Z.abs_neq M) in * by lia]; nia.
    + rewrite E3 in *. set (a := 2 ^ (f - 1)) in *. set (b := 2 ^ k) in *. nia.
Qed.

Lemma fval_grid f s e g : g <= e - f ->
  (fval f (s, e) == inject_Z (s * 2 ^ (e - f - g)) * pow2 g)%Q.
Proof.
  intros Hg. unfold fval. cbn [fst snd]. replace (e - f) with ((e - f - g) + g) at 1 by lia.
  rewrite pow2_add, (pow2_Z (e - f - g)) by lia. rewrite inject_Z_mult. ring.
Qed.

Theorem flt_norm_inv_input f M q : 1 <= f -> norm f (fst (flt_input f M q)).
Proof.
  intros Hf. unfold flt_input. destruct (Z.eqb_spec M 0) as [H0|H0]; [left; reflexivity|].
  right. cbn [fst]. replace (Z.log2_up (Z.abs M) + q - f - q) with (Z.log2_up (Z.abs M) - f) by lia.
  apply (input_core f M Hf H0).
Qed.

Theorem io_bound f M q : 1 <= f ->
  (Qabs (fval f (flt_input f M q) - inject_Z M * pow2 q)
   <= inject_Z 1 * pow2 (- f) * Qabs (inject_Z M * pow2 q))%Q.
Proof.
  intros Hf. unfold flt_input. destruct (Z.eqb_spec M 0) as [H0|H0].
  - subst M. assert (E : (fval f (0%Z, 0%Z) == inject_Z 0 * pow2 q)%Q) by (unfold fval; cbn [fst snd]; ring).
    rewrite E. apply q_bound; [lia|apply pow2_pos|simpl; lia].
  - replace (Z.log2_up (Z.abs M) + q - f - q) with (Z.log2_up (Z.abs M) - f) by lia.
    destruct (input_core f M Hf H0) as (_ & Hex & Herr).
    set (L := Z.log2_up (Z.abs M)) in *. set (S := rne_shift M (L - f)) in *.
    destruct (Z_le_gt_dec (L - f) 0) as [Hk|Hk].
    + assert (E : (fval f (S, (L + q)%Z) == inject_Z M * pow2 q)%Q).
      { unfold fval. cbn [fst snd]. rewrite (Hex Hk), inject_Z_mult, <- (pow2_Z (f - L)) by lia.
        rewrite <- Qmult_assoc, <- pow2_add. replace (f - L + (L + q - f)) with q by lia. reflexivity. }
      rewrite E. apply q_bound; [lia|apply pow2_pos|]. rewrite Z.sub_diag, Z.mul_0_l. lia.
    + rewrite (fval_grid f S (L + q)%Z q) by lia. replace (L + q - f - q) with (L - f) by lia.
      apply q_bound; [lia|apply pow2_pos|]. rewrite Z.mul_1_l. apply Herr. lia.
Qed.

(** _output: exact value, and the exponent of a zero is masked to 0 *)
Theorem flt_output_spec f x :
  (fval f (flt_output x) == fval f x)%Q /\ (fst (flt_output x) = 0 -> snd (flt_output x) = 0) /\
  fst (flt_output x) = fst x.
Proof.
  destruct x as [s e]. unfold flt_output. destruct (Z.eqb_spec s 0) as [->|Hs]; cbn [fst snd].
  - split; [unfold fval; cbn [fst snd]; ring|auto].
  - split; [reflexivity|split; [intros; lia|reflexivity]].
Qed.

Theorem flt_norm_inv_neg f x : norm f (fst x) -> norm f (fst (flt_neg x)).
Proof. destruct x as [s e]. unfold norm, flt_neg. cbn [fst]. rewrite Z.abs_opp. lia. Qed.

Lemma fval_neg f x : (fval f (flt_neg x) == - fval f x)%Q.
Proof. destruct x as [s e]. unfold fval, flt_neg. cbn [fst snd]. rewrite inject_Z_opp. ring. Qed.

(** F-C05: the unrestricted addition bound is false of the faithful model: 1e-4 + 0.0 in SecFlt(16)
    (f = 10): every tape gives 0 or 2^-10 instead of 839 * 2^-23; 16u*max = 16 * 2^-10 * 839 * 2^-23.
    Stated on the integer grid 2^-23 (all four values are multiples of it). *)
Theorem add_zero_refuted :
  exists f x y, norm f (fst x) /\ norm f (fst y) /\ x = flt_input f 839 (-23) /\ y = flt_input f 0 0 /\
    forall r1 r2, In r1 (tapes f) -> In r2 (tapes f) ->
      let z := flt_add f x y r1 r2 in
      (* |z - (x + y)| > 16 u max(|x|,|y|)  with everything multiplied by 2^23 * 2^10 *)
      Z.abs (fst z * 2 ^ (snd z - f + 23) - 839) * 2 ^ f > 16 * 839.
Proof.
  exists 10, (839, -13), (0, 0). split; [right; vm_compute; split; discriminate|].
  split; [left; reflexivity|]. split; [reflexivity|]. split; [reflexivity|].
  intros r1 r2 H1 H2. simpl in H1, H2.
  destruct H1 as [<-|[<-|[]]]; destruct H2 as [<-|[<-|[]]]; vm_compute; reflexivity.
Qed.
