(** C21 — field square roots and quadratic-residue tests are correct.
    Statements over the prime-field model coq/theories/Sqrt.v of PrimeFieldElement._sqrt / _is_sqr
    (gmpy stubs jacobi / powmod / invert underneath). *)
Require Import MPyC.Field MPyC.Zp MPyC.FinField MPyC.Euler MPyC.Sqrt.
From Coq Require Import ZArith Znumtheory List.
Import ListNotations.
Local Open Scope nat_scope.

(** Fermat's little theorem, proved (no hypothesis): in any field with its nonzero elements enumerated ... *)
Theorem C21_fermat_abstract : forall (K : FieldT) (units : list K),
  NoDup units -> (forall x, In x units <-> x <> f0 K) ->
  forall a, a <> f0 K -> fpow a (length units) = f1 K.
Proof. exact fermat_abstract. Qed.
Print Assumptions C21_fermat_abstract.

(** ... and for the integers modulo any prime *)
Theorem C21_fermat : forall p a, prime p -> (a mod p <> 0)%Z -> (a ^ (p - 1) mod p = 1)%Z.
Proof. exact fermat. Qed.
Print Assumptions C21_fermat.

(** Euler's criterion, BOTH directions, every odd prime, every a not divisible by p (no primitive roots:
    the h = (p-1)/2 distinct squares of 1..h exhaust the roots of X^h - 1 by the root bound) *)
Theorem C21_euler_criterion : forall p a, prime p -> p <> 2%Z -> (a mod p <> 0)%Z ->
  ((a ^ ((p - 1) / 2) mod p = 1 <-> exists b, (b * b) mod p = a mod p) /\
   (a ^ ((p - 1) / 2) mod p = 1 \/ a ^ ((p - 1) / 2) mod p = p - 1))%Z.
Proof. exact euler_criterion. Qed.
Print Assumptions C21_euler_criterion.

(** the same in any finite field of odd order given by its units (2h of them) and a half-system H *)
Theorem C21_euler_abstract : forall (K : FieldT) (units : list K),
  NoDup units -> (forall x, In x units <-> x <> f0 K) ->
  forall h, length units = 2 * h -> 0 < h ->
  forall H : list K, length H = h -> NoDup H -> (forall x y, In x H -> In y H -> fadd K x y <> f0 K) ->
  forall a, a <> f0 K ->
    (fpow a h = f1 K <-> exists b, fmul K b b = a) /\ (fpow a h = f1 K \/ fpow a h = fopp K (f1 K)).
Proof. exact euler_abstract. Qed.
Print Assumptions C21_euler_abstract.

(** the Legendre symbol defined by Euler's test is 0 / +1 / -1 exactly for 0 / nonzero squares / non-squares *)
Theorem C21_legendre_symbol_spec : forall p a, prime p -> p <> 2%Z ->
  ((legendre_symbol p a <> -1 <-> exists b, (b * b) mod p = a mod p) /\
   (legendre_symbol p a = 0 <-> a mod p = 0) /\
   (legendre_symbol p a = -1 -> a ^ ((p - 1) / 2) mod p = p - 1))%Z.
Proof. exact legendre_symbol_spec. Qed.
Print Assumptions C21_legendre_symbol_spec.

(** is_sqr(a) <-> a is a square, EVERY prime p (2 included), every element — relative to the explicit hypothesis
    that gmpy.legendre (the jacobi loop) returns the Legendre symbol on this input.  That hypothesis is
    quadratic reciprocity for the binary-free Jacobi algorithm: NOT proved in general; it is discharged by
    computation for the 46 primes below 200 inside C21_sqrt_is_sqr_bounded. *)
Theorem C21_is_sqr_correct_if_legendre : forall p a, prime p -> (0 <= a < p)%Z ->
  (p <> 2%Z -> legendre a p = Ok (legendre_symbol p a)) ->
  exists s, is_sqr p a = Ok s /\ (s = true <-> exists b, ((b * b) mod p = a)%Z).
Proof. exact is_sqr_correct_if_legendre. Qed.
Print Assumptions C21_is_sqr_correct_if_legendre.

(** the Euler test a^((p-1)/2) != p-1 (the test ExtensionFieldElement._is_sqr performs) decides squareness,
    every prime, every element, unconditionally *)
Theorem C21_euler_is_sqr_correct : forall p a, prime p -> (0 <= a < p)%Z ->
  (euler_is_sqr p a = true <-> exists b, ((b * b) mod p = a)%Z).
Proof. exact euler_is_sqr_correct. Qed.
Print Assumptions C21_euler_is_sqr_correct.

(** every prime p = 3 (mod 4), every nonzero square a: sqrt(a) is reduced and sqrt(a)^2 = a *)
Theorem C21_sqrt_p3mod4 : forall p, prime p -> (p mod 4 = 3)%Z -> forall a, (0 < a < p)%Z ->
  (exists b, (b * b) mod p = a)%Z ->
  exists r, sqrt p a false = Ok r /\ (0 <= r < p)%Z /\ mul p r (El r) = a.
Proof. exact sqrt_p3mod4. Qed.
Print Assumptions C21_sqrt_p3mod4.

(** ... and sqrt(a, INV=True) (exponent (3p-5)/4) is the inverse of sqrt(a), for every nonzero a *)
Theorem C21_sqrt_inv_p3mod4 : forall p, prime p -> (p mod 4 = 3)%Z -> forall a, (0 < a < p)%Z ->
  exists r ri, sqrt p a false = Ok r /\ sqrt p a true = Ok ri /\ (0 <= ri < p)%Z /\ mul p ri (El r) = 1%Z.
Proof. exact sqrt_inv_p3mod4. Qed.
Print Assumptions C21_sqrt_inv_p3mod4.

(** zero, every modulus: sqrt(0) = 0, sqrt(0, INV=True) raises ZeroDivisionError *)
Theorem C21_sqrt_zero : forall p, sqrt p 0 false = Ok (0 mod p)%Z /\ sqrt p 0 true = Err ZeroDiv.
Proof. exact sqrt_zero. Qed.
Print Assumptions C21_sqrt_zero.

Theorem C21_sqrt_p2 : forall a, (0 <= a < 2)%Z -> exists r, sqrt 2 a false = Ok r /\ mul 2 r (El r) = a.
Proof. exact sqrt_p2. Qed.
Print Assumptions C21_sqrt_p2.

(** Cipolla-Lehmer branch (p = 1 mod 4), loop invariant of the ladder as coded: for EVERY modulus p <> 0, every
    a, b and every exponent e, the pair (u, v) left by the ladder is X^e = U X + V of Z[X]/(X^2 - b X + a)
    reduced modulo p (Xpow = iterated multiplication by X over the integers) *)
Theorem C21_ladder_is_Xpow : forall p a b, p <> 0%Z -> forall e : positive,
  congp p (ladder p a b e) (Xpow a b (Pos.to_nat e)).
Proof. exact ladder_is_Xpow. Qed.
Print Assumptions C21_ladder_is_Xpow.

(** ... hence the value v returned by _sqrt in that branch squares to a, for every prime p, every nonzero
    square a and every b with b^2 - 4a a non-residue — RELATIVE to the norm identity X^(2e) = a in the quotient
    ring (2e = p+1; Frobenius: X^p = b - X).  Missing for an unconditional theorem: (i) that identity
    ((x+y)^p = x^p + y^p in GF(p)[X]/(X^2-bX+a), i.e. the binomial theorem with p | C(p,k)), and (ii) that the b
    found by the search is a non-residue (jacobi = Legendre symbol, as above).  Both are discharged by
    computation for p < 200 in C21_sqrt_is_sqr_bounded. *)
Theorem C21_cipolla_correct_if : forall p, prime p -> forall a b (e : positive),
  (a mod p <> 0)%Z -> (exists s, (s * s) mod p = a mod p)%Z ->
  (~ exists c, (c * c) mod p = (b * b - 4 * a) mod p)%Z ->
  congp p (Xpow a b (Pos.to_nat e + Pos.to_nat e)) (0, a)%Z ->
  ((snd (ladder p a b e) * snd (ladder p a b e)) mod p = a mod p)%Z.
Proof. exact cipolla_correct_if. Qed.
Print Assumptions C21_cipolla_correct_if.

(** BOUNDED (the bound is the explicit list primes200 = the 46 primes below 200; all elements a):
    the whole of _is_sqr / _sqrt including the Cipolla-Lehmer branch (p = 1 mod 4), the search for b and the
    jacobi loop: is_sqr(a) <-> a is a square; for squares sqrt(a)^2 = a; for nonzero squares sqrt(a, INV) is the
    inverse of sqrt(a); sqrt(0, INV) raises ZeroDivisionError.  Decided by vm_compute. *)
Theorem C21_sqrt_is_sqr_bounded : forall p a, In p primes200 -> (0 <= a < p)%Z ->
  (exists s, is_sqr p a = Ok s /\ (s = true <-> exists b, (b * b) mod p = a)%Z) /\
  ((exists b, (b * b) mod p = a)%Z ->
     (exists r, sqrt p a false = Ok r /\ (0 <= r < p)%Z /\ ((r * r) mod p = a)%Z /\
        (a <> 0%Z -> exists ri, sqrt p a true = Ok ri /\ (0 <= ri < p)%Z /\ ((ri * r) mod p = 1)%Z)) /\
     (a = 0%Z -> sqrt p a true = Err ZeroDiv)).
Proof. exact sqrt_is_sqr_bounded. Qed.
Print Assumptions C21_sqrt_is_sqr_bounded.

Theorem C21_primes200_are_prime : forall p, In p primes200 -> prime p.
Proof. exact primes200_prime. Qed.
Print Assumptions C21_primes200_are_prime.

(** Non-vacuity: GF(11) (3 mod 4): 5 = 4^2, sqrt 5 = 4, INV 3 = 1/4; GF(13) (1 mod 4, Cipolla): 10 = 6^2, sqrt 10 = 7. *)
Example C21_nonvacuous :
  prime 11 /\ (11 mod 4 = 3)%Z /\ ((4 * 4) mod 11 = 5)%Z /\ sqrt 11 5 false = Ok 4%Z /\ sqrt 11 5 true = Ok 3%Z /\
  mul 11 3 (El 4) = 1%Z /\ In 13%Z primes200 /\ ((6 * 6) mod 13 = 10)%Z /\ sqrt 13 10 false = Ok 7%Z /\
  ((7 * 7) mod 13 = 10)%Z /\ is_sqr 13 10 = Ok true /\ is_sqr 13 2 = Ok false.
Proof. split; [apply is_prime_small_correct; reflexivity|]. vm_compute. repeat split; auto 20. Qed.

(** Non-vacuity of the new statements: p = 7: 2 = 3^2 has 2^3 = 1, 3 is a non-square with 3^3 = 6 = p-1;
    p = 13, a = 10 = 6^2, b = 3 as found by the search (b^2 - 4a = 8 mod 13, a non-residue), e = 7 = (p+1)/2: the norm identity holds,
    the ladder gives (0, 7) = X^7 and 7^2 = 10. *)
Example C21_nonvacuous_euler :
  prime 7 /\ ((3 * 3) mod 7 = 2 mod 7 /\ 2 ^ ((7 - 1) / 2) mod 7 = 1 /\ 3 ^ ((7 - 1) / 2) mod 7 = 7 - 1)%Z /\
  legendre_symbol 7 3 = (-1)%Z /\ legendre 3 7 = Ok (-1)%Z /\ legendre_symbol 7 2 = 1%Z /\ legendre 2 7 = Ok 1%Z /\
  euler_is_sqr 7 3 = false /\ euler_is_sqr 7 2 = true /\
  find_b (find_b_fuel 13) 13 10 1 = Some 3%Z /\ is_square_bf 13 ((3 * 3 - 4 * 10) mod 13) = false /\
  ladder 13 10 3 7 = (0, 7)%Z /\ congp 13 (Xpow 10 3 (7 + 7)) (0, 10)%Z /\ ((7 * 7) mod 13 = 10)%Z.
Proof. split; [apply is_prime_small_correct; reflexivity|]. vm_compute. repeat split; auto 20. Qed.
