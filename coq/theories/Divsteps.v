(** * Divsteps.v -- value-level model of the Bernstein-Yang divsteps code of
    mpyc/runtime.py (_iterations, gcp2, _gcd, gcd, lcm, _divsteps, inverse, gcdext).

    Values are unbounded integers (Z).  Secure sub-protocols are modelled by their ideal
    integer semantics:
      sgn(x, LT=True)   = 1 if x < 0 else 0          (lt0)
      g % 2             = Z.modulo g 2
      c.if_else(x, y)   = c*(x-y)+y                  (if_else; lists componentwise)
      c.if_swap(x, y)   = (x+c*(y-x), y-c*(y-x))     (if_swap)
      x / 2, x / d      = Z.div (the code uses exact field division; exactness of every
                          division that influences a result is part of what is proved)
*)
Require Import ZArith Znumtheory Lia List Bool.
Import ListNotations.
Local Open Scope Z_scope.

(** ** Model definitions *)

Definition iterations (l : Z) : Z := (49*l + (if l <? 46 then 80 else 57)) / 17.

Definition if_else (c x y : Z) : Z := c*(x-y)+y.
Definition if_swap (c x y : Z) : Z*Z := (x + c*(y-x), y - c*(y-x)).
Definition lt0 (x : Z) : Z := if x <? 0 then 1 else 0.
Definition ge01 (x y : Z) : Z := if y <=? x then 1 else 0.
(* Python's int.bit_length for n >= 0 *)
Definition bit_length (n : Z) : Z := if n <=? 0 then 0 else Z.log2 n + 1.

(* gcp2: looks at the l least significant bits of a and b, index k of the first 1 in the
   bitwise OR, returns 2^k, or 2^l if there is none. *)
Fixpoint gcp2_aux (n : nat) (a b : Z) : Z :=
  match n with
  | O => 1
  | S n' => if Z.odd a || Z.odd b then 1 else 2 * gcp2_aux n' (a/2) (b/2)
  end.
Definition gcp2 (l a b : Z) : Z := gcp2_aux (Z.to_nat l) a b.

(* delta_gt0 = 1 - sgn((delta-1-(i%2))/2, l=min(i,l).bit_length(), LT=True) *)
Definition delta_arg (i delta : Z) : Z := (delta - 1 - (i mod 2)) / 2.
Definition delta_gt0 (i delta : Z) : Z := if delta_arg i delta <? 0 then 0 else 1.

(* loop body of _gcd, with the value d of delta_gt0 as a parameter *)
Definition divstep_gcd_d (d : Z) (s : Z*Z*Z) : Z*Z*Z :=
  let '(delta, f, g) := s in
  let g0 := g mod 2 in
  let c := d * g0 in
  let delta1 := if_else c (-delta) delta in
  let f1 := if_else c g f in
  let g1 := if_else c (-f) g in
  (delta1 + 1, f1, (g1 + g0 * f1) / 2).

Definition divstep_gcd (i : Z) (s : Z*Z*Z) : Z*Z*Z :=
  let '(delta, f, g) := s in divstep_gcd_d (delta_gt0 i delta) s.

(* state after the first n iterations (i = 0 .. n-1) of the for loop *)
Fixpoint steps_gcd (n : nat) (s : Z*Z*Z) : Z*Z*Z :=
  match n with
  | O => s
  | S n' => divstep_gcd (Z.of_nat n') (steps_gcd n' s)
  end.

Definition niter (l : Z) : nat := Z.to_nat (iterations l).

(* _gcd *)
Definition gcd_raw (l a b : Z) : Z :=
  let p := gcp2 l a b in
  let a1 := a / p in
  let b1 := b / p in
  let '(g, f) := if_swap (a1 mod 2) a1 b1 in
  let '(_, f', _) := steps_gcd (niter l) (1, f, g) in
  p * f'.

Definition gcd_v (l a b : Z) : Z := Z.abs (gcd_raw l a b).

Definition lcm_v (l a b : Z) : Z :=
  let g := gcd_raw l a b in
  Z.abs (a * (b / (g + (if g =? 0 then 1 else 0)))).

(* loop body of _divsteps; a is the (odd) first argument of _divsteps;
   state (delta, f, v, g, r) *)
Definition divstep_ext_d (a d : Z) (s : Z*Z*Z*Z*Z) : Z*Z*Z*Z*Z :=
  let '(delta, f, v, g, r) := s in
  let g0 := g mod 2 in
  let c := d * g0 in
  let delta1 := if_else c (-delta) delta in
  let f1 := if_else c g f in
  let v1 := if_else c r v in
  let g1 := if_else c (-f) g in
  let r1 := if_else c (-v) r in
  let g2 := if_else g0 (g1 + f1) g1 in
  let r2 := if_else g0 (r1 + v1) r1 in
  let r3 := if_else (r2 mod 2) (r2 + a) r2 in
  (delta1 + 1, f1, v1, g2 / 2, r3 / 2).

Definition divstep_ext (a i : Z) (s : Z*Z*Z*Z*Z) : Z*Z*Z*Z*Z :=
  let '(delta, f, v, g, r) := s in divstep_ext_d a (delta_gt0 i delta) s.

Fixpoint steps_ext (a : Z) (n : nat) (s : Z*Z*Z*Z*Z) : Z*Z*Z*Z*Z :=
  match n with
  | O => s
  | S n' => divstep_ext a (Z.of_nat n') (steps_ext a n' s)
  end.

(* _divsteps: returns (f, v) *)
Definition divsteps_v (l a b : Z) : Z*Z :=
  let '(_, f, v, _, _) := steps_ext a (niter l) (1, a, 0, b, 1) in (f, v).

(* inverse, before the two final range corrections *)
Definition inverse_raw (l a b : Z) : Z :=
  let c := 1 - a mod 2 in
  let '(a', b_) := if_swap c a b in
  let '(g, t) := divsteps_v l a' b_ in
  let t := g * (t - a') in
  let s := (1 - t * b_) / a' in
  if_else c t s.

Definition inverse_v (l a b : Z) : Z :=
  let u := inverse_raw l a b in
  let u := if_else (lt0 u) (u + 2*b) u in
  let u := if_else (ge01 u b) (u - b) u in
  u.

Definition gcdext_v (l a b : Z) : Z*Z*Z :=
  let p := gcp2 l a b in
  let a1 := a / p in
  let b1 := b / p in
  let c := 1 - a1 mod 2 in
  let '(a2, b2) := if_swap c a1 b1 in
  let '(g, t) := divsteps_v l a2 b2 in
  let g0 := g mod 2 in
  let sgn_g := g0 - 2 * lt0 g in
  let g := sgn_g * g in
  let t := sgn_g * t in
  let s := (g - t * b2) / (a2 + 1 - g0) in
  let '(s, t) := if_swap c s t in
  (p * g, s, t).

(** ** Examples (checked against the real protocol run with m=1) *)
Example ex_iterations : (iterations 8, iterations 32, iterations 46) = (27, 96, 135).
Proof. vm_compute. reflexivity. Qed.
Example ex_gcd_1 : gcd_v 8 (-128) 96 = 32.
Proof. vm_compute. reflexivity. Qed.
Example ex_gcd_2 : gcd_v 8 0 0 = 0.
Proof. vm_compute. reflexivity. Qed.
Example ex_lcm_1 : lcm_v 8 12 (-18) = 36.
Proof. vm_compute. reflexivity. Qed.
Example ex_gcdext_1 : gcdext_v 8 127 5 = (1, 3, -76).
Proof. vm_compute. reflexivity. Qed.
Example ex_gcdext_2 : gcdext_v 8 (-128) 96 = (32, -1, -1).
Proof. vm_compute. reflexivity. Qed.
Example ex_gcdext_3 : gcdext_v 8 0 0 = (0, 0, 0).
Proof. vm_compute. reflexivity. Qed.
Example ex_gcdext_4 : gcdext_v 8 0 (-128) = (128, 0, -1).
Proof. vm_compute. reflexivity. Qed.
Example ex_inverse_1 : inverse_v 8 5 127 = 51.
Proof. vm_compute. reflexivity. Qed.
Example ex_inverse_2 : inverse_v 8 6 35 = 6.
Proof. vm_compute. reflexivity. Qed.
Example ex_gcp2 : (gcp2 8 0 0, gcp2 8 (-128) 96, gcp2 8 12 7) = (256, 32, 1).
Proof. vm_compute. reflexivity. Qed.

(** ** Basic facts *)

Lemma mod2_cases : forall x, x mod 2 = 0 \/ x mod 2 = 1.
Proof. intros x. pose proof (Z.mod_pos_bound x 2). lia. Qed.

Lemma odd_mod2 : forall x, Z.odd x = true <-> x mod 2 = 1.
Proof. intros x. rewrite Zmod_odd. destruct (Z.odd x); split; intros; congruence || lia. Qed.

Lemma odd_false_mod2 : forall x, Z.odd x = false <-> x mod 2 = 0.
Proof. intros x. rewrite Zmod_odd. destruct (Z.odd x); split; intros; congruence || lia. Qed.

Lemma half_even : forall x, x mod 2 = 0 -> x = 2 * (x / 2).
Proof. intros x H. pose proof (Z.div_mod x 2). lia. Qed.

Lemma gcd_odd_2 : forall d f, Z.odd f = true -> (d | f) -> Z.gcd d 2 = 1.
Proof.
  intros d f Hf Hd.
  pose proof (Z.gcd_nonneg d 2) as Hnn.
  pose proof (Z.gcd_divide_r d 2) as H2.
  pose proof (Z.gcd_divide_l d 2) as Hl.
  assert (Hle : Z.gcd d 2 <= 2) by (apply Z.divide_pos_le; [lia | exact H2]).
  assert (Hne0 : Z.gcd d 2 <> 0).
  { intro E. rewrite E in H2. destruct H2 as [k Hk]. lia. }
  assert (Hne2 : Z.gcd d 2 <> 2).
  { intro E. rewrite E in Hl.
    assert (H2f : (2 | f)) by (eapply Z.divide_trans; eauto).
    destruct H2f as [k Hk]. apply odd_mod2 in Hf.
    rewrite Hk in Hf. rewrite Z.mod_mul in Hf; lia. }
  lia.
Qed.

Lemma gcd_odd_double : forall f y, Z.odd f = true -> Z.gcd f (2 * y) = Z.gcd f y.
Proof.
  intros f y Hf.
  apply Z.divide_antisym_nonneg; try apply Z.gcd_nonneg.
  - apply Z.gcd_greatest.
    + apply Z.gcd_divide_l.
    + apply Z.gauss with (m := 2).
      * apply Z.gcd_divide_r.
      * eapply gcd_odd_2; [exact Hf | apply Z.gcd_divide_l].
  - apply Z.gcd_greatest.
    + apply Z.gcd_divide_l.
    + apply Z.divide_mul_r. apply Z.gcd_divide_r.
Qed.

Lemma gcd_odd_half : forall f x, Z.odd f = true -> x mod 2 = 0 -> Z.gcd f (x / 2) = Z.gcd f x.
Proof.
  intros f x Hf Hx. rewrite (half_even x Hx) at 2. symmetry. apply gcd_odd_double. exact Hf.
Qed.

(** ** One step of the gcd loop, by cases *)

Lemma triple_eq : forall (a a' b b' c c' : Z),
  a = a' -> b = b' -> c = c' -> (a, b, c) = (a', b', c').
Proof. intros; subst; reflexivity. Qed.

Lemma delta_gt0_01 : forall i delta, delta_gt0 i delta = 0 \/ delta_gt0 i delta = 1.
Proof. intros. unfold delta_gt0. destruct (_ <? _); auto. Qed.

(* the "cases" form of the loop body: Bernstein-Yang's divstep *)
Definition divstep_ref (swap : bool) (s : Z*Z*Z) : Z*Z*Z :=
  let '(delta, f, g) := s in
  if swap then (1 - delta, g, (g - f) / 2)
  else (1 + delta, f, (g + (g mod 2) * f) / 2).

Lemma divstep_gcd_d_cases : forall d delta f g, d = 0 \/ d = 1 ->
  divstep_gcd_d d (delta, f, g) = divstep_ref ((d =? 1) && Z.odd g) (delta, f, g).
Proof.
  intros d delta f g Hd. unfold divstep_gcd_d, divstep_ref, if_else.
  destruct Hd as [-> | ->]; simpl (_ =? _); cbv iota beta; simpl andb.
  - apply triple_eq; [ring | ring | f_equal; ring].
  - destruct (Z.odd g) eqn:Eg.
    + apply odd_mod2 in Eg. rewrite Eg. apply triple_eq; [ring | ring | f_equal; ring].
    + apply odd_false_mod2 in Eg. rewrite Eg. apply triple_eq; [ring | ring | f_equal; ring].
Qed.

(* when g is even the value of delta_gt0 is irrelevant (it is multiplied by g%2 = 0) *)
Lemma divstep_gcd_d_even_indep : forall d d' delta f g, g mod 2 = 0 ->
  divstep_gcd_d d (delta, f, g) = divstep_gcd_d d' (delta, f, g).
Proof.
  intros d d' delta f g Hg. unfold divstep_gcd_d, if_else. rewrite Hg.
  apply triple_eq; [ring | ring | f_equal; ring].
Qed.

(* parity of delta makes the halved comparison exact *)
Lemma delta_gt0_spec : forall i delta, (delta - 1 - i) mod 2 = 0 ->
  (delta - 1 - i mod 2) mod 2 = 0 /\
  delta_gt0 i delta = (if 0 <? delta then 1 else 0).
Proof.
  intros i delta Hp.
  assert (Hpar : (delta - 1 - i mod 2) mod 2 = 0).
  { pose proof (Z.div_mod i 2). pose proof (Z.div_mod (delta - 1 - i) 2).
    replace (delta - 1 - i mod 2) with (0 + (i / 2 + (delta - 1 - i) / 2) * 2) by lia.
    rewrite Z.mod_add; [reflexivity | lia]. }
  split; [exact Hpar|].
  unfold delta_gt0, delta_arg.
  pose proof (half_even _ Hpar) as Hh.
  pose proof (mod2_cases i) as Hi.
  destruct (_ <? 0) eqn:E1; destruct (0 <? delta) eqn:E2; try reflexivity; exfalso;
    [apply Z.ltb_lt in E1; apply Z.ltb_lt in E2 | apply Z.ltb_ge in E1; apply Z.ltb_ge in E2]; lia.
Qed.

Lemma divstep_ref_preserves : forall swap delta f g delta' f' g',
  Z.odd f = true -> (swap = true -> Z.odd g = true) ->
  divstep_ref swap (delta, f, g) = (delta', f', g') ->
  Z.odd f' = true /\ Z.gcd f' g' = Z.gcd f g /\
  delta' = (if swap then 1 - delta else 1 + delta).
Proof.
  intros swap delta f g delta' f' g' Hf Hsw H. unfold divstep_ref in H.
  destruct swap.
  - specialize (Hsw eq_refl). injection H as <- <- <-.
    split; [exact Hsw|]. split; [|reflexivity].
    assert (He : (g - f) mod 2 = 0).
    { apply odd_false_mod2. rewrite Z.odd_sub, Hf, Hsw. reflexivity. }
    rewrite gcd_odd_half by assumption.
    replace (g - f) with (- f + 1 * g) by ring.
    rewrite Z.gcd_add_mult_diag_r, Z.gcd_opp_r. apply Z.gcd_comm.
  - injection H as <- <- <-.
    split; [exact Hf|]. split; [|reflexivity].
    assert (He : (g + g mod 2 * f) mod 2 = 0).
    { apply odd_false_mod2. rewrite Z.odd_add, Z.odd_mul, Hf, Bool.andb_true_r.
      rewrite (Zmod_odd g). destruct (Z.odd g); reflexivity. }
    rewrite gcd_odd_half by assumption.
    apply Z.gcd_add_mult_diag_r.
Qed.

(** ** Invariant of the _gcd loop *)

(* state s reached after n iterations started from (1, f0, g0) *)
Definition gcd_inv (f0 g0 : Z) (n : nat) (s : Z*Z*Z) : Prop :=
  let '(delta, f, g) := s in
  Z.odd f = true /\
  Z.gcd f g = Z.gcd f0 g0 /\
  (delta - 1 - Z.of_nat n) mod 2 = 0 /\
  Z.abs (delta - 1) <= Z.of_nat n.

Lemma divstep_gcd_ref : forall i delta f g, (delta - 1 - i) mod 2 = 0 ->
  divstep_gcd i (delta, f, g) = divstep_ref ((0 <? delta) && Z.odd g) (delta, f, g).
Proof.
  intros i delta f g Hp. unfold divstep_gcd.
  rewrite divstep_gcd_d_cases by apply delta_gt0_01.
  destruct (delta_gt0_spec i delta Hp) as [_ ->].
  destruct (0 <? delta); reflexivity.
Qed.

Lemma gcd_inv_step : forall f0 g0 n s,
  gcd_inv f0 g0 n s -> gcd_inv f0 g0 (S n) (divstep_gcd (Z.of_nat n) s).
Proof.
  intros f0 g0 n [[delta f] g] (Hf & Hg & Hp & Hr).
  rewrite divstep_gcd_ref by exact Hp.
  destruct (divstep_ref _ _) as [[delta' f'] g'] eqn:E.
  apply divstep_ref_preserves in E; [| exact Hf | intro Hs; apply andb_prop in Hs; tauto].
  destruct E as (Hf' & Hg' & Hd').
  unfold gcd_inv. rewrite Nat2Z.inj_succ.
  split; [exact Hf'|]. split; [congruence|].
  destruct ((0 <? delta) && Z.odd g) eqn:Esw.
  - apply andb_prop in Esw. destruct Esw as [Epos _]. apply Z.ltb_lt in Epos.
    subst delta'. split.
    + replace (1 - delta - 1 - Z.succ (Z.of_nat n))
        with ((delta - 1 - Z.of_nat n) + (- delta) * 2) by ring.
      rewrite Z.mod_add; [exact Hp | lia].
    + lia.
  - subst delta'. split.
    + replace (1 + delta - 1 - Z.succ (Z.of_nat n)) with (delta - 1 - Z.of_nat n) by ring.
      exact Hp.
    + lia.
Qed.

Lemma gcd_inv_steps : forall f0 g0 n, Z.odd f0 = true ->
  gcd_inv f0 g0 n (steps_gcd n (1, f0, g0)).
Proof.
  intros f0 g0 n Hf. induction n as [|n IH].
  - unfold gcd_inv; simpl steps_gcd.
    split; [exact Hf|]. split; [reflexivity|]. split; [reflexivity | simpl; lia].
  - simpl steps_gcd. apply gcd_inv_step. exact IH.
Qed.

(** ** The Bernstein-Yang iteration bound (Theorem 11.2 of eprint 2019/266), as a
       hypothesis; proved below by exhaustive computation for small l *)

Definition BY_bound (l : Z) : Prop :=
  forall f g, Z.odd f = true -> Z.abs f <= 2^l -> Z.abs g <= 2^l ->
    snd (steps_gcd (niter l) (1, f, g)) = 0.

Definition zrange (lo : Z) (n : nat) : list Z := map (fun k => lo + Z.of_nat k) (seq 0 n).

Lemma zrange_In : forall lo n z, lo <= z < lo + Z.of_nat n -> In z (zrange lo n).
Proof.
  intros lo n z H. unfold zrange.
  apply in_map_iff. exists (Z.to_nat (z - lo)). split; [lia|].
  apply in_seq. lia.
Qed.

Definition box (l : Z) : list Z := zrange (- 2^l) (Z.to_nat (2 * 2^l + 1)).

(* forward formulation of the loop *)
Fixpoint loop_gcd (m : nat) (i : Z) (s : Z*Z*Z) : Z*Z*Z :=
  match m with
  | O => s
  | S m' => loop_gcd m' (i + 1) (divstep_gcd i s)
  end.

Lemma loop_gcd_S : forall m i s,
  loop_gcd (S m) i s = divstep_gcd (i + Z.of_nat m) (loop_gcd m i s).
Proof.
  induction m as [|m IH]; intros i s.
  - simpl. rewrite Z.add_0_r. reflexivity.
  - change (loop_gcd (S (S m)) i s) with (loop_gcd (S m) (i + 1) (divstep_gcd i s)).
    rewrite IH. simpl loop_gcd. f_equal. lia.
Qed.

Lemma steps_gcd_loop : forall n s, steps_gcd n s = loop_gcd n 0 s.
Proof.
  induction n as [|n IH]; intros s.
  - reflexivity.
  - rewrite loop_gcd_S. simpl steps_gcd. rewrite IH. reflexivity.
Qed.

Lemma divstep_gcd_g0 : forall i delta f, exists delta', divstep_gcd i (delta, f, 0) = (delta', f, 0).
Proof.
  intros i delta f. unfold divstep_gcd, divstep_gcd_d, if_else.
  eexists. apply triple_eq; [reflexivity | | ].
  - rewrite Z.mod_0_l by lia. ring.
  - rewrite Z.mod_0_l by lia.
    replace (delta_gt0 i delta * 0 * (- f - 0) + 0 +
             0 * (delta_gt0 i delta * 0 * (0 - f) + f)) with 0 by ring.
    reflexivity.
Qed.

Lemma loop_gcd_g0 : forall m i delta f, exists delta', loop_gcd m i (delta, f, 0) = (delta', f, 0).
Proof.
  induction m as [|m IH]; intros i delta f.
  - exists delta. reflexivity.
  - change (loop_gcd (S m) i (delta, f, 0))
      with (loop_gcd m (i + 1) (divstep_gcd i (delta, f, 0))).
    destruct (divstep_gcd_g0 i delta f) as [d' ->]. apply IH.
Qed.

(* fast checker: Bernstein-Yang divstep with booleans and Z.div2, early exit at g = 0 *)
Fixpoint by_fast (m : nat) (delta f g : Z) : bool :=
  if g =? 0 then true else
  match m with
  | O => false
  | S m' =>
      if Z.odd g then
        if 0 <? delta then by_fast m' (1 - delta) g (Z.div2 (g - f))
        else by_fast m' (1 + delta) f (Z.div2 (g + f))
      else by_fast m' (1 + delta) f (Z.div2 g)
  end.

Lemma by_fast_sound : forall m i delta f g, (delta - 1 - i) mod 2 = 0 ->
  by_fast m delta f g = true -> snd (loop_gcd m i (delta, f, g)) = 0.
Proof.
  induction m as [|m IH]; intros i delta f g Hp H.
  - simpl in H. destruct (g =? 0) eqn:Eg; [|discriminate].
    apply Z.eqb_eq in Eg. simpl. exact Eg.
  - simpl in H. destruct (g =? 0) eqn:Eg.
    + apply Z.eqb_eq in Eg. subst g.
      destruct (loop_gcd_g0 (S m) i delta f) as [d' ->]. reflexivity.
    + change (loop_gcd (S m) i (delta, f, g))
        with (loop_gcd m (i + 1) (divstep_gcd i (delta, f, g))).
      rewrite divstep_gcd_ref by exact Hp. unfold divstep_ref.
      assert (Hp1 : (1 - delta - 1 - (i + 1)) mod 2 = 0).
      { replace (1 - delta - 1 - (i + 1)) with ((delta - 1 - i) + (- delta) * 2) by ring.
        rewrite Z.mod_add; [exact Hp | lia]. }
      assert (Hp2 : (1 + delta - 1 - (i + 1)) mod 2 = 0).
      { replace (1 + delta - 1 - (i + 1)) with (delta - 1 - i) by ring. exact Hp. }
      destruct (Z.odd g) eqn:Eo.
      * destruct (0 <? delta); simpl andb; cbv iota.
        -- rewrite <- Z.div2_div. apply IH; assumption.
        -- apply odd_mod2 in Eo. rewrite Eo, Z.mul_1_l, <- Z.div2_div. apply IH; assumption.
      * rewrite Bool.andb_false_r. apply odd_false_mod2 in Eo.
        rewrite Eo, Z.mul_0_l, Z.add_0_r, <- Z.div2_div. apply IH; assumption.
Qed.

Definition BY_check (l : Z) : bool :=
  let N := niter l in
  let bx := box l in
  forallb (fun f => negb (Z.odd f) || forallb (fun g => by_fast N 1 f g) bx) bx.

Lemma BY_check_sound : forall l, BY_check l = true -> BY_bound l.
Proof.
  intros l H f g Hf Hfr Hgr. unfold BY_check in H.
  rewrite forallb_forall in H.
  assert (Hin : forall z, Z.abs z <= 2^l -> In z (box l)).
  { intros z Hz. apply zrange_In. pose proof (Z.pow_nonneg 2 l). lia. }
  specialize (H f (Hin f Hfr)). rewrite Hf in H. simpl in H.
  rewrite forallb_forall in H. specialize (H g (Hin g Hgr)).
  rewrite steps_gcd_loop. apply by_fast_sound; [reflexivity | exact H].
Qed.

Theorem BY_bound_small : forall l, 0 <= l <= 9 -> BY_bound l.
Proof.
  intros l Hl.
  assert (H : l = 0 \/ l = 1 \/ l = 2 \/ l = 3 \/ l = 4 \/ l = 5 \/ l = 6 \/ l = 7 \/ l = 8 \/ l = 9) by lia.
  repeat (destruct H as [-> | H]); try subst l;
    apply BY_check_sound; vm_compute; reflexivity.
Qed.

(** ** gcp2 and the 2-power stripping *)

Lemma gcp2_aux_spec : forall n a b, exists a' b',
  0 < gcp2_aux n a b /\ a = gcp2_aux n a b * a' /\ b = gcp2_aux n a b * b' /\
  (Z.odd a' || Z.odd b' = true \/ gcp2_aux n a b = 2 ^ Z.of_nat n).
Proof.
  induction n as [|n IH]; intros a b.
  - exists a, b. change (gcp2_aux 0 a b) with 1.
    split; [lia|]. split; [lia|]. split; [lia|]. right. reflexivity.
  - change (gcp2_aux (S n) a b)
      with (if Z.odd a || Z.odd b then 1 else 2 * gcp2_aux n (a / 2) (b / 2)).
    destruct (Z.odd a || Z.odd b) eqn:E.
    + exists a, b. split; [lia|]. split; [lia|]. split; [lia|]. left. exact E.
    + apply Bool.orb_false_iff in E. destruct E as [Ea Eb].
      apply odd_false_mod2 in Ea. apply odd_false_mod2 in Eb.
      destruct (IH (a / 2) (b / 2)) as (a' & b' & Hp & Ha & Hb & Hc).
      exists a', b'. split; [lia|]. split; [|split].
      * rewrite (half_even a Ea) at 1. rewrite Ha at 1. ring.
      * rewrite (half_even b Eb) at 1. rewrite Hb at 1. ring.
      * destruct Hc as [Hc | Hc]; [left; exact Hc | right].
        rewrite Hc, Nat2Z.inj_succ, Z.pow_succ_r by lia. reflexivity.
Qed.

Lemma strip_spec : forall l a b, 0 <= l -> Z.abs a <= 2^l -> Z.abs b <= 2^l ->
  a <> 0 \/ b <> 0 ->
  exists a1 b1, 0 < gcp2 l a b /\ a = gcp2 l a b * a1 /\ b = gcp2 l a b * b1 /\
    a / gcp2 l a b = a1 /\ b / gcp2 l a b = b1 /\
    Z.odd a1 || Z.odd b1 = true /\ Z.abs a1 <= 2^l /\ Z.abs b1 <= 2^l.
Proof.
  intros l a b Hl Ha Hb Hnz. unfold gcp2.
  destruct (gcp2_aux_spec (Z.to_nat l) a b) as (a1 & b1 & Hp & Ea & Eb & Hc).
  rewrite Z2Nat.id in Hc by exact Hl.
  set (p := gcp2_aux (Z.to_nat l) a b) in *.
  exists a1, b1.
  split; [exact Hp|]. split; [exact Ea|]. split; [exact Eb|].
  split; [rewrite Ea at 1; rewrite Z.mul_comm; apply Z.div_mul; lia|].
  split; [rewrite Eb at 1; rewrite Z.mul_comm; apply Z.div_mul; lia|].
  assert (Habs : forall q x y, 0 < q -> x = q * y -> Z.abs y <= Z.abs x).
  { intros q x y Hq ->. rewrite Z.abs_mul. nia. }
  assert (Habs1 : forall q x y, 0 < q -> x = q * y -> Z.abs x <= q -> Z.abs y <= 1).
  { intros q x y Hq -> Hx. rewrite Z.abs_mul in Hx. nia. }
  pose proof (Habs p a a1 Hp Ea) as Ha1.
  pose proof (Habs p b b1 Hp Eb) as Hb1.
  split; [|lia].
  destruct Hc as [Hc | Hc]; [exact Hc|].
  assert (Ha2 : Z.abs a1 <= 1) by (apply (Habs1 p a a1 Hp Ea); lia).
  assert (Hb2 : Z.abs b1 <= 1) by (apply (Habs1 p b b1 Hp Eb); lia).
  assert (Hnz1 : a1 <> 0 \/ b1 <> 0).
  { destruct Hnz as [Hnz | Hnz]; [left | right]; intro E0; apply Hnz;
      [rewrite Ea | rewrite Eb]; rewrite E0; ring. }
  assert (Hcases : a1 = 1 \/ a1 = -1 \/ b1 = 1 \/ b1 = -1) by lia.
  destruct Hcases as [-> | [-> | [-> | ->]]]; simpl; rewrite ?Bool.orb_true_r; reflexivity.
Qed.

Lemma if_swap_0 : forall x y, if_swap 0 x y = (x, y).
Proof. intros. unfold if_swap. f_equal; ring. Qed.
Lemma if_swap_1 : forall x y, if_swap 1 x y = (y, x).
Proof. intros. unfold if_swap. f_equal; ring. Qed.

Lemma steps_gcd_00 : forall n, exists delta', steps_gcd n (1, 0, 0) = (delta', 0, 0).
Proof.
  intros n. rewrite steps_gcd_loop. apply loop_gcd_g0.
Qed.

(** ** Correctness of _gcd / gcd / lcm, given the iteration bound *)

Lemma gcd_loop_result : forall l f g, BY_bound l -> Z.odd f = true ->
  Z.abs f <= 2^l -> Z.abs g <= 2^l ->
  exists delta' f', steps_gcd (niter l) (1, f, g) = (delta', f', 0) /\
    Z.odd f' = true /\ Z.abs f' = Z.gcd f g.
Proof.
  intros l f g HBY Hf Hfr Hgr.
  pose proof (HBY f g Hf Hfr Hgr) as Hg0.
  pose proof (gcd_inv_steps f g (niter l) Hf) as Hinv.
  destruct (steps_gcd (niter l) (1, f, g)) as [[delta' f'] g'].
  simpl in Hg0. subst g'. destruct Hinv as (Hf' & Hg' & _ & _).
  exists delta', f'. split; [reflexivity|]. split; [exact Hf'|].
  rewrite <- Hg'. symmetry. apply Z.gcd_0_r.
Qed.

Lemma gcd_raw_nonzero : forall l a b, BY_bound l -> 0 <= l ->
  Z.abs a <= 2^l -> Z.abs b <= 2^l -> a <> 0 \/ b <> 0 ->
  Z.abs (gcd_raw l a b) = Z.gcd a b.
Proof.
  intros l a b HBY Hl Ha Hb Hnz.
  destruct (strip_spec l a b Hl Ha Hb Hnz) as (a1 & b1 & Hp & Ea & Eb & Da & Db & Hodd & Ha1 & Hb1).
  unfold gcd_raw. rewrite Da, Db.
  set (p := gcp2 l a b) in *.
  assert (Hfin : forall f g, Z.odd f = true -> Z.abs f <= 2^l -> Z.abs g <= 2^l ->
            Z.gcd f g = Z.gcd a1 b1 ->
            Z.abs (let '(_, f', _) := steps_gcd (niter l) (1, f, g) in p * f') = Z.gcd a b).
  { intros f g Hf Hfr Hgr Hgcd.
    destruct (gcd_loop_result l f g HBY Hf Hfr Hgr) as (d' & f' & -> & _ & Hab).
    rewrite Z.abs_mul, Hab, Hgcd, (Z.abs_eq p) by lia.
    rewrite <- Z.gcd_mul_mono_l_nonneg by lia. rewrite <- Ea, <- Eb. reflexivity. }
  destruct (Z.odd a1) eqn:Oa.
  - apply odd_mod2 in Oa as Ma. rewrite Ma, if_swap_1.
    apply Hfin; auto.
  - apply odd_false_mod2 in Oa as Ma. rewrite Ma, if_swap_0.
    simpl in Hodd. apply Hfin; auto. apply Z.gcd_comm.
Qed.

Theorem gcd_raw_correct : forall l a b, BY_bound l -> 0 <= l ->
  Z.abs a <= 2^l -> Z.abs b <= 2^l ->
  Z.abs (gcd_raw l a b) = Z.gcd a b.
Proof.
  intros l a b HBY Hl Ha Hb.
  destruct (Z.eq_dec a 0) as [Ea | Ea]; [destruct (Z.eq_dec b 0) as [Eb | Eb]|].
  - (* a = b = 0 *)
    subst a b. unfold gcd_raw. rewrite !Zdiv_0_l. rewrite Zmod_0_l, if_swap_0.
    destruct (steps_gcd_00 (niter l)) as [d' ->]. rewrite Z.mul_0_r. reflexivity.
  - apply gcd_raw_nonzero; auto.
  - apply gcd_raw_nonzero; auto.
Qed.

(* gcd: the final abs(., l=l) is a secure comparison on l bits, exact for
   -2^l <= x < 2^l; inputs of bit length <= l (|a|,|b| < 2^l) guarantee that. *)
Theorem gcd_correct_partial : forall l a b, BY_bound l -> 0 <= l ->
  Z.abs a < 2^l -> Z.abs b < 2^l ->
  gcd_v l a b = Z.gcd a b /\ - 2^l <= gcd_raw l a b < 2^l.
Proof.
  intros l a b HBY Hl Ha Hb.
  assert (H : Z.abs (gcd_raw l a b) = Z.gcd a b) by (apply gcd_raw_correct; auto; lia).
  split; [exact H|].
  assert (Hle : Z.gcd a b < 2^l).
  { destruct (Z.eq_dec a 0) as [Ea | Ea].
    - subst a. rewrite Z.gcd_0_l. lia.
    - assert (Z.gcd a b <= Z.abs a); [|lia].
      apply Z.divide_pos_le; [lia|]. apply Z.divide_abs_r. apply Z.gcd_divide_l. }
  lia.
Qed.

Theorem lcm_correct_partial : forall l a b, BY_bound l -> 0 <= l ->
  Z.abs a <= 2^l -> Z.abs b <= 2^l ->
  lcm_v l a b = Z.lcm a b.
Proof.
  intros l a b HBY Hl Ha Hb.
  pose proof (gcd_raw_correct l a b HBY Hl Ha Hb) as H.
  unfold lcm_v, Z.lcm. set (g := gcd_raw l a b) in *.
  destruct (g =? 0) eqn:Eg.
  - apply Z.eqb_eq in Eg. rewrite Eg in *. simpl in H.
    symmetry in H. apply Z.gcd_eq_0 in H. destruct H; subst a b. reflexivity.
  - apply Z.eqb_neq in Eg. rewrite Z.add_0_r.
    destruct (Z.gcd_divide_r a b) as [k Hk].
    remember (Z.gcd a b) as G eqn:EG. clear EG.
    assert (Hg : g = G \/ g = - G) by lia.
    destruct Hg as [-> | Hg]; [reflexivity|].
    rewrite Hg, Hk.
    rewrite Z.div_mul by lia.
    replace (k * G) with ((- k) * (- G)) by ring.
    rewrite Z.div_mul by lia.
    rewrite Z.mul_opp_r, Z.abs_opp. reflexivity.
Qed.
