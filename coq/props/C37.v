(** C37 — secure NumPy arrays agree with plain NumPy and with secure scalars: the index-map,
    broadcasting, elementwise-lifting and matmul theorems that transfer scalar-level results to
    arrays, and the agreement of the array-based sharing/recombination/PRSS-zero code with the
    list-based versions.  Only statements; proofs are in theories/Arrays.v and theories/Shamir.v.
    An array is (shape, flat) row-major; get2 c l i j = entry (i, j) of a matrix with c columns. *)
Require Import MPyC.Base MPyC.Field MPyC.Poly MPyC.Lagrange MPyC.Shamir MPyC.Arrays.
From Coq Require Import ZArith.
Local Open Scope nat_scope.

Theorem C37_reshape :
  forall (s s' : list nat) (a : array),
    flat (reshape s a) = flat a /\ reshape s (reshape s' a) = reshape s a /\
    (wf a -> size s = size (shape a) -> wf (reshape s a)).
Proof. intros. split; [reflexivity|]. split; [reflexivity|apply reshape_wf]. Qed.
Print Assumptions C37_reshape.

Theorem C37_transpose :
  forall (r c : nat) (l : list Z),
    length (transpose2 r c l) = c * r /\
    (forall i j, i < r -> j < c -> get2 r (transpose2 r c l) j i = get2 c l i j) /\
    (length l = r * c -> transpose2 c r (transpose2 r c l) = l).
Proof.
  intros. split; [apply transpose_length|]. split; [intros; apply transpose_entry; assumption|apply transpose_involutive].
Qed.
Print Assumptions C37_transpose.

(** concatenate / vstack along axis 0 (any rank: flat data appended; rank 2: rows of a, then rows of b) *)
Theorem C37_concatenate_axis0 :
  forall (c : nat) (la lb : list Z) (r1 i j k : nat),
    nth k (la ++ lb) 0%Z = (if k <? length la then nth k la 0%Z else nth (k - length la) lb 0%Z) /\
    (length la = r1 * c -> j < c ->
     get2 c (la ++ lb) i j = if i <? r1 then get2 c la i j else get2 c lb (i - r1) j).
Proof. intros. split; [apply concat0_entry|apply concat0_entry2]. Qed.
Print Assumptions C37_concatenate_axis0.

Theorem C37_stack :
  forall (s : list nat) (ls : list (list Z)),
    (forall l, In l ls -> length l = size s) ->
    wf (stack0 s ls) /\
    forall i k, i < length ls -> k < size s ->
      nth (i * size s + k) (flat (stack0 s ls)) 0%Z = nth k (nth i ls []) 0%Z.
Proof. intros s ls H. split; [apply stack0_wf, H|intros; apply stack0_entry; assumption]. Qed.
Print Assumptions C37_stack.

(** concatenate / hstack along axis 1 for rank 2 *)
Theorem C37_concatenate_axis1 :
  forall (r c1 c2 : nat) (la lb : list Z),
    length (concat1 r c1 c2 la lb) = r * (c1 + c2) /\
    forall i j, i < r -> j < c1 + c2 ->
      get2 (c1 + c2) (concat1 r c1 c2 la lb) i j = if j <? c1 then get2 c1 la i j else get2 c2 lb i (j - c1).
Proof. intros. split; [apply concat1_length|intros; apply concat1_entry; assumption]. Qed.
Print Assumptions C37_concatenate_axis1.

(** broadcasting a scalar, a row vector (c,), a column vector (r,1) against an r x c matrix *)
Theorem C37_broadcast :
  forall (r c : nat) (v : list Z) (x : Z) (i j : nat),
    (i * c + j < r * c -> nth (i * c + j) (bc_scalar (r * c) x) 0%Z = x) /\
    (i < r -> j < length v -> get2 (length v) (bc_row r v) i j = nth j v 0%Z) /\
    (i < length v -> j < c -> get2 c (bc_col c v) i j = nth i v 0%Z).
Proof.
  intros. split; [apply bc_scalar_entry|]. split; [apply bc_row_entry|apply bc_col_entry].
Qed.
Print Assumptions C37_broadcast.

(** elementwise lifting: entry k of the lifted binary operation is the scalar operation on the
    entries k (equal shapes) ... *)
Theorem C37_lift_correct :
  forall (f : Z -> Z -> Z) (la lb : list Z) (k : nat),
    length la = length lb -> k < length la ->
    nth k (map2 f la lb) 0%Z = f (nth k la 0%Z) (nth k lb 0%Z).
Proof. intros; apply lift_correct; assumption. Qed.
Print Assumptions C37_lift_correct.

Theorem C37_ew_correct :
  forall (f : Z -> Z -> Z) (a b : array) (k : nat),
    shape a = shape b -> wf a -> wf b -> k < size (shape a) ->
    nth k (flat (ew f a b)) 0%Z = f (nth k (flat a) 0%Z) (nth k (flat b) 0%Z) /\ wf (ew f a b).
Proof. exact ew_correct. Qed.
Print Assumptions C37_ew_correct.

(** ... and under the broadcasting model (matrix op scalar / row / column) *)
Theorem C37_lift_broadcast :
  forall (f : Z -> Z -> Z) (r c : nat) (la v : list Z) (x : Z) (i j : nat),
    (length la = r * c -> i < r -> j < c ->
       get2 c (map2 f la (bc_scalar (r * c) x)) i j = f (get2 c la i j) x) /\
    (length la = r * length v -> i < r -> j < length v ->
       get2 (length v) (map2 f la (bc_row r v)) i j = f (get2 (length v) la i j) (nth j v 0%Z)) /\
    (length la = length v * c -> i < length v -> j < c ->
       get2 c (map2 f la (bc_col c v)) i j = f (get2 c la i j) (nth i v 0%Z)).
Proof.
  intros. split; [apply lift_bc_scalar|]. split; [apply lift_bc_row|apply lift_bc_col].
Qed.
Print Assumptions C37_lift_broadcast.

(** matmul: entry (i,j) of the row-major product is sum_t A[i,t] * B[t,j]; (AB)^T = B^T A^T *)
Theorem C37_matmul_correct :
  forall (r n c : nat) (A B : list Z) (i j : nat), i < r -> j < c ->
    length (matmul r n c A B) = r * c /\
    get2 c (matmul r n c A B) i j = zsum (map (fun t => (get2 n A i t * get2 c B t j)%Z) (seq 0 n)) /\
    get2 r (matmul c n r (transpose2 n c B) (transpose2 r n A)) j i = get2 c (matmul r n c A B) i j.
Proof.
  intros. split; [apply matmul_length|]. split; [apply matmul_correct|apply matmul_transpose]; assumption.
Qed.
Print Assumptions C37_matmul_correct.

(** sum / prod over all elements = fold over the flat data (so invariant under reshape), and the
    total is the sum (product) of the row sums (products); all() of 0/1 entries is the product *)
Theorem C37_sum_prod :
  forall (a : array) (s : list nat) (ls : list (list Z)),
    asum a = zsum (flat a) /\ aprod a = zprod (flat a) /\ asum (reshape s a) = asum a /\
    zsum (concat ls) = zsum (map zsum ls) /\ zprod (concat ls) = zprod (map zprod ls) /\
    ((forall x, In x (flat a) -> x = 0%Z \/ x = 1%Z) ->
       zprod (flat a) = if forallb (Z.eqb 1) (flat a) then 1%Z else 0%Z).
Proof.
  intros. split; [apply asum_fold|]. split; [apply aprod_fold|]. split; [reflexivity|].
  split; [apply zsum_concat|]. split; [apply zprod_concat|apply zprod_bits].
Qed.
Print Assumptions C37_sum_prod.

(** array-based sharing = list-based sharing on a permuted coefficient tape (column h uses
    s_h :: C[0][h] .. C[t-1][h]); array-based recombination = list-based recombination *)
Theorem C37_np_split_eq_split_perm :
  forall (K : FieldT) (inj : nat -> K) (m : nat) (tape ss : list K) (t i h : nat),
    i < m -> h < length ss ->
    nth h (nth i (np_random_split inj tape ss t m) []) (f0 K)
    = share_at inj (rev (np_col tape (length ss) t h)) (nth h ss (f0 K)) (S i).
Proof. exact np_split_eq_split. Qed.
Print Assumptions C37_np_split_eq_split_perm.

Theorem C37_np_recombine_eq :
  forall (K : FieldT) (inj : nat -> K) (points : list (nat * list K)) (xr : K),
    np_recombine inj points xr = recombine inj points xr.
Proof. exact np_recombine_eq. Qed.
Print Assumptions C37_np_recombine_eq.

(** PRSS of zero: the array version (power sum over i1^d..i1^1) on a PRF block r equals the list
    version (Horner) on the same block *)
Theorem C37_np_prss0_eq :
  forall (K : FieldT) (r : list K) (x : K), np_prss0_term K r x = list_prss0_term K r x.
Proof. exact np_prss0_agree. Qed.
Print Assumptions C37_np_prss0_eq.

(** Non-vacuity: a 2x3 matrix, its transpose, a 2x3 @ 3x2 product, a row broadcast. *)
Example C37_nonvacuous :
  transpose2 2 3 [1; 2; 3; 4; 5; 6]%Z = [1; 4; 2; 5; 3; 6]%Z /\
  matmul 2 3 2 [1; 2; 3; 4; 5; 6]%Z [1; 0; 0; 1; 2; 2]%Z = [7; 8; 16; 17]%Z /\
  map2 Z.add [1; 2; 3; 4; 5; 6]%Z (bc_row 2 [10; 20; 30]%Z) = [11; 22; 33; 14; 25; 36]%Z /\
  concat1 2 1 2 [7; 8]%Z [1; 2; 3; 4]%Z = [7; 1; 2; 8; 3; 4]%Z /\
  wf ([2; 3], [1; 2; 3; 4; 5; 6]%Z) /\ 1 < 2 /\ 2 < 3.
Proof. vm_compute. repeat split; auto. Qed.
