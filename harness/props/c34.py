"""C34 — secure statistics agree with Python's statistics module.

Proof: coq/props/C34.v over the value-level model coq/theories/Stats.v.  Tie: the real mpyc.statistics
functions run single-party in-process on small data sets; the randomness of _quickselect (tie bits, pivot
unit vector) is substituted from outside by a bit tape so that the Coq model can be run on the same tape and
compared exactly (secure integers); oracle = Python's statistics module on exact Fractions with the
documented rounding.
"""
import itertools, math, statistics
from fractions import Fraction
from lib.core import zlit, zlist, natlit

MANIFEST = {
    'text': 'Coq theorems over a value-level model of mpyc/statistics.py (secure integers): isqrt_correct (_isqrt returns r with '
            'r^2 <= a < (r+1)^2 for all 0 <= a < 2^l, all l), mean_int_round_half_up / mean_int_nearest, '
            'quantile_arith_eq_python (both methods, all n > 0, all cut points, all data lengths: index/delta arithmetic, clamping and '
            'interpolation equal CPython statistics.quantiles transcribed to Z, rounded half up) with index-range lemmas, and '
            'mode_eq_python_refuted (witness [3,3,1,1]: the code returns the smallest mode, Python the first encountered). The model '
            '(incl. _quickselect on its random tape, _med, quantiles with key bookkeeping, _var, _isqrt, _mode, covariance) is '
            'compared exactly (value and consumed tape bits) with the implementation on every run; every function, secint and '
            'secfxp, is checked against Python statistics on exact Fractions, incl. data with wide ranges (max-min 31..2^12), negative '
            'values and multimodal data, at m=1 and in the 3-party simulator (PRSS on and off, inputs shared by mpc.input). Aliasing stream: every function is '
            'called, the caller\'s data list is mutated in place before the result is awaited (m=1 -M1 asynchronous and m=3); the '
            'result must be that of the list as passed (F-C34-2, quantiles late read, repaired by c83bbe4, is an ordinary case now).',
    'note': 'Trusted: Coq kernel + vm_compute; hand-written model (runtime.sum/in_prod/sorted/min_max/argmax/unit_vector/'
            'comparisons modelled by their documented value-level meaning); CPython 3.12 quantile formulas transcribed by hand. '
            'MISSING as theorems: quickselect_correct (so median/median_low/median_high/quantile points = order statistics is '
            'established by exhaustive/random correspondence + oracle only), mode_returns_a_mode/mode_is_min_mode, var_int rounding, '
            'fsqrt_bound and all fixed-point error bounds (secfxp is oracle-tested with the tolerances recorded in notes), '
            'correlation/linear_regression (oracle only). secint median of an even number of points is floor((a+b)/2) as coded. '
            'Known finding F-C34-1: mode of multimodal data whose first-encountered mode is not the minimum mode.',
    'technique': 'Coq proof over value-level model + tape-substituted differential correspondence + exact-Fraction oracle',
}


class NeedBits(Exception):
    pass


class Proxy:
    def __init__(self, rt, tape):
        self.__dict__['_rt'] = rt
        self.__dict__['tape'] = tape
        self.__dict__['pos'] = 0

    def __getattr__(self, name):
        return getattr(self._rt, name)

    def random_bits(self, sectype, n, signed=False):
        assert not signed
        if self.pos + n > len(self.tape):
            raise NeedBits()
        bits = self.tape[self.pos:self.pos + n]
        self.__dict__['pos'] += n
        return [sectype(b) for b in bits]


def tape_lit(bits):
    return '(tape_of %d%%nat 0x%x%%Z)' % (len(bits), sum(b << i for i, b in enumerate(bits)))


def rhu(q):
    """round half up of a Fraction"""
    return math.floor(q + Fraction(1, 2))


def wide_sets(rng, quick=True):
    """data with wide ranges max-min in {31, 32, 33, 100, 1000, 2^12}, negative values, unique and multiple modes"""
    out = [[0, 40, 40, 40, 7, 100, 3], [-50, -10, -10, 33, -50, -10], [5, 37, 37, 5, 37], [64, 0, 64, 1, 64, 0, 0, 64, 64]]
    for R in (31, 32, 33, 100, 1000, 4096):
        for rep in range(1 if (quick and R >= 1000) else 2):
            base = rng.randrange(-2000, 100)
            hi = base + R
            mid = base + rng.randrange(32, R) if R > 32 else base + rng.randrange(1, R)
            d = [base, hi, hi, mid, hi, base + 3] if rep == 0 else [hi, base, mid, mid, base + 1, mid, hi]
            rng.shuffle(d)
            out.append(d)
    return out


def mode_sig(data, got, ex, tag=''):
    cnt = {a: data.count(a) for a in data}
    modes = [a for a in cnt if cnt[a] == max(cnt.values())]
    if got == min(modes) and ex != min(modes):
        return 'mode-multimodal-first-not-min data=%s%s' % (data, tag)
    return 'mode-wrong data=%s%s' % (data, tag)


class Watchdog(KeyboardInterrupt):      # asyncio re-raises KeyboardInterrupt out of the loop (other BaseExceptions are swallowed)
    pass


def multi_party(ctx):
    """mode / median* / quantiles / mean on secint and secfxp at m = 3 (PRSS on and off), data shared by mpc.input,
    incl. wide ranges, negative values, multimodal data; oracle = Python statistics; all parties agree."""
    import signal, time
    from lib.sim import Sim, Fifo
    rng = ctx.rng

    def on_alarm(signum, frame):
        raise Watchdog()
    old = signal.signal(signal.SIGALRM, on_alarm)
    sets = [[3, 3, 1, 1], [-5, 2, 2, -5, 0], [7], [0, 40, 40, 40, 7, 100, 3]]
    if ctx.tier == 'thorough':
        sets += [[4, -4], [-50, -10, -10, 33, -50, -10]]
    for R in (32, 33) if ctx.tier != 'thorough' else (31, 32, 33, 100):
        base = rng.randrange(-300, 50)
        sets.append([base, base + R, base + R, base + rng.randrange(1, R), base + R])
    FX = 16

    def make_prog(stname):
        async def prog(mpc, mods, pid):
            ms = mods['mpyc.statistics']
            st = mpc.SecInt(32) if stname == 'secint' else mpc.SecFxp(32, FX)
            out = []
            for d in sets:
                x = mpc.input([st(a) for a in d], senders=0)
                rec = {}
                try:
                    rec['mode'] = await mpc.output(ms.mode(x))
                    rec['median'] = await mpc.output(ms.median(x))
                    rec['median_low'] = await mpc.output(ms.median_low(x))
                    rec['median_high'] = await mpc.output(ms.median_high(x))
                    rec['mean'] = await mpc.output(ms.mean(x))
                    if len(d) >= 2:
                        rec['q_inc'] = await mpc.output(ms.quantiles(x, n=4, method='inclusive'))
                        rec['q_exc'] = await mpc.output(ms.quantiles(x, n=5, method='exclusive'))
                except Exception as e:  # noqa
                    rec['EXC'] = repr(e)[:200]
                out.append({k: ([float(a) for a in v] if isinstance(v, list) else (v if isinstance(v, str) else float(v)))
                            for k, v in rec.items()})
            return out
        return prog

    class TimeLimited:
        def __init__(self, inner, seconds):
            self.inner, self.deadline = inner, time.time() + seconds

        def deliver(self, net):
            return 0 if time.time() > self.deadline else self.inner.deliver(net)
    ulp = Fraction(1, 2 ** FX)
    try:
        for stname, no_prss in (('secint', False), ('secfxp', True)) + ((('secint', True), ('secfxp', False)) if ctx.tier == 'thorough' else ()):
            cfg = 'm=3 t=1 %s %s' % ('no-prss' if no_prss else 'prss', stname)
            sim = Sim(3, 1, no_prss=no_prss, seed=ctx.seed * 31 + 5, log_messages=False, track_tasks=False)
            res = None
            signal.setitimer(signal.ITIMER_REAL, 90, 5)
            try:
                sim.start()
                res = sim.run(make_prog(stname), TimeLimited(Fifo(), 60), idle_limit=400) if sim.started else None
                if res and all(isinstance(r, list) for r in res):
                    sim.shutdown()
            except Watchdog:
                res = None
                ctx.extra['sim_aborted'] = True
            finally:
                signal.setitimer(signal.ITIMER_REAL, 0)
                try:
                    sim.close()
                except Watchdog:
                    pass
            if res is None or not all(isinstance(r, list) for r in res):
                ctx.violation('sim-parties-hang ' + cfg, {'config': cfg, 'results': str(res)[:300]})
                continue
            if any(r != res[0] for r in res[1:]):
                ctx.violation('sim-parties-disagree ' + cfg, {'config': cfg, 'per_party': [str(r)[:200] for r in res]})
                continue
            for d, rec in zip(sets, res[0]):
                fr = [Fraction(a) for a in d]
                key = {'sim': cfg, 'data': d}
                if 'EXC' in rec:
                    ctx.violation('statistics-exception ' + cfg, dict(key, exception=rec['EXC']))
                    continue
                exact = stname == 'secint'
                exp = {'mode': Fraction(statistics.mode(d)), 'median_low': statistics.median_low(fr), 'median_high': statistics.median_high(fr),
                       'median': Fraction(math.floor(statistics.median(fr))) if exact else statistics.median(fr),
                       'mean': Fraction(rhu(statistics.mean(fr))) if exact else statistics.mean(fr)}
                tol = {'mode': 0, 'median_low': 0, 'median_high': 0, 'median': 0 if exact else 2 * ulp,
                       'mean': Fraction(1, 2) if exact else ulp * (3 + sum(abs(a) for a in fr))}
                if exact:
                    exp['mean'] = statistics.mean(fr)
                for fn in exp:
                    ctx.case(dict(key, fn=fn), kind='sim/' + fn)
                    if abs(Fraction(rec[fn]) - exp[fn]) > tol[fn]:
                        sig = mode_sig(d, rec[fn], statistics.mode(d), ' ' + cfg) if fn == 'mode' else '%s-%s-wrong %s' % (fn, stname, cfg)
                        ctx.violation(sig, dict(key, fn=fn, got=rec[fn], expected=float(exp[fn])))
                if len(d) >= 2:
                    R = max(fr) - min(fr)
                    for fn, nq, method in (('q_inc', 4, 'inclusive'), ('q_exc', 5, 'exclusive')):
                        ex = statistics.quantiles(fr, n=nq, method=method)
                        ctx.case(dict(key, fn=fn), kind='sim/quantiles')
                        tq = 0 if exact else ulp * (3 + 2 * nq * R)
                        want = [Fraction(rhu(e)) for e in ex] if exact else ex
                        if len(rec[fn]) != nq - 1 or any(abs(Fraction(g) - e) > tq for g, e in zip(rec[fn], want)):
                            ctx.violation('quantiles-%s-%s %s' % (method, stname, cfg), dict(key, fn=fn, got=rec[fn], expected=[float(e) for e in ex]))
        # ---- aliasing: call, mutate the caller's list in place, then await; expected = result for the list as passed ------
        if ctx.extra.get('sim_aborted'):
            return
        D = [10, 50, 30, 20, 40, 20]
        Y = [3, 9, 1, 4, 7, 2]
        MUT = {'reverse': lambda l: l.reverse(), 'overwrite0': lambda l: l.__setitem__(0, 1000),
               'dellast': lambda l: l.__delitem__(-1), 'append': lambda l: l.append(77)}
        fd, fy = [Fraction(a) for a in D], [Fraction(a) for a in Y]
        INT = {'mean': rhu(statistics.mean(fd)), 'median': math.floor(statistics.median(fd)), 'median_low': statistics.median_low(D),
               'median_high': statistics.median_high(D), 'mode': statistics.mode(D),
               'quantiles2': [rhu(q) for q in statistics.quantiles(fd, n=2, method='inclusive')],
               'quantiles4': [rhu(q) for q in statistics.quantiles(fd, n=4, method='exclusive')],
               'variance': rhu(statistics.variance(fd)), 'pvariance': rhu(statistics.pvariance(fd)),
               'stdev': math.isqrt(rhu(statistics.variance(fd))), 'pstdev': math.isqrt(rhu(statistics.pvariance(fd))),
               'covariance': rhu(statistics.covariance(fd, fy))}
        sxx = sum((a - statistics.mean(fd)) ** 2 for a in fd)
        syy = sum((a - statistics.mean(fy)) ** 2 for a in fy)
        sxy = statistics.covariance(fd, fy) * (len(D) - 1)
        FXP = {'mean': float(statistics.mean(fd)), 'median': float(statistics.median(fd)), 'mode': float(statistics.mode(D)),
               'quantiles2': [float(q) for q in statistics.quantiles(fd, n=2, method='inclusive')],
               'variance': float(statistics.variance(fd)), 'stdev': math.sqrt(float(statistics.variance(fd))),
               'correlation': float(sxy) / math.sqrt(float(sxx) * float(syy)), 'slope': float(sxy / sxx)}

        def one_run(sim, prog, limit=25):
            signal.setitimer(signal.ITIMER_REAL, limit, 5)
            try:
                return sim.run(prog, Fifo(), idle_limit=300)
            except Watchdog:
                ctx.extra['sim_aborted'] = True
                return None
            finally:
                signal.setitimer(signal.ITIMER_REAL, 0)

        def new_sim(m, t, no_prss):
            sim = Sim(m, t, no_prss=no_prss, seed=ctx.seed * 53 + m, log_messages=False, track_tasks=False)
            sim.start()
            return sim if sim.started else None
        na = 0
        for (m, t, no_prss) in ((1, 0, False), (3, 1, False)) + (((3, 1, True),) if ctx.tier == 'thorough' else ()):
            sim = new_sim(m, t, no_prss)
            for stname, table in (('secint', INT), ('secfxp', FXP)):
                for fn in table:
                    for mu in MUT:
                        if m == 3 and mu == 'reverse' and ctx.tier != 'thorough':
                            continue
                        if sim is None:
                            sim = new_sim(m, t, no_prss)

                        async def prog(mpc, mods, pid, fn=fn, mu=mu, stname=stname):
                            ms = mods['mpyc.statistics']
                            st = mpc.SecInt(32) if stname == 'secint' else mpc.SecFxp(32, FX)
                            x = mpc.input([st(a) for a in D], senders=0)
                            y = mpc.input([st(a) for a in Y], senders=0)
                            junk = st(1000 if mu == 'overwrite0' else 77)
                            if fn == 'quantiles2':
                                r = ms.quantiles(x, n=2, method='inclusive')
                            elif fn == 'quantiles4':
                                r = ms.quantiles(x, n=4, method='exclusive')
                            elif fn in ('covariance', 'correlation'):
                                r = getattr(ms, fn)(x, y)
                            elif fn == 'slope':
                                r = ms.linear_regression(x, y).slope
                            else:
                                r = getattr(ms, fn)(x)
                            for l in ((x, y) if fn in ('covariance', 'correlation', 'slope') else (x,)):
                                if mu == 'reverse':
                                    l.reverse()
                                elif mu == 'overwrite0':
                                    l[0] = junk
                                elif mu == 'dellast':
                                    del l[-1]
                                else:
                                    l.append(junk)
                            v = await mpc.output(r)
                            return [float(a) for a in v] if isinstance(v, list) else float(v)
                        res = one_run(sim, prog)
                        na += 1
                        name = 'quantiles' if fn.startswith('quantiles') else ('linear_regression' if fn == 'slope' else fn)
                        key = {'fn': fn, 'mutation': mu, 'm': m, 'st': stname, 'prss': not no_prss, 'data': D}
                        ctx.case(key, kind='aliasing/' + name)
                        sig = 'aliasing %s mutation=%s' % (name, mu)
                        if res is None or any(isinstance(x_, (str, tuple)) for x_ in res):
                            ctx.violation(sig, dict(key, got='HANG/EXC ' + str(res)[:200], why='the call never completes after the caller mutated its list'))
                            try:
                                sim.close()
                            except Exception:  # noqa
                                pass
                            sim = None
                            if ctx.extra.get('sim_aborted'):
                                return
                            continue
                        v = res[0]
                        if any(x_ != v for x_ in res[1:]):
                            ctx.violation('sim-parties-disagree aliasing %s' % name, dict(key, per_party=res))
                            continue
                        want = table[fn]
                        tol = 0 if stname == 'secint' else 2.0 ** -6
                        vs, ws = (v, want) if isinstance(want, list) else ([v], [want])
                        if len(vs) != len(ws) or any(abs(a - b) > tol for a, b in zip(vs, ws)):
                            ctx.violation(sig, dict(key, got=v, expected_for_list_as_passed=want))
            if sim is not None:
                sim.shutdown()
                sim.close()
        ctx.extra['aliasing_cases'] = na
        ctx.log('aliasing stream: %d (function, mutation, config) cases' % na)
    finally:
        signal.setitimer(signal.ITIMER_REAL, 0)
        signal.signal(signal.SIGALRM, old)



def run(ctx):
    import sys
    ok = ctx.build(['MPyC.Stats']) and ctx.check_props()
    multi_party(ctx)           # first: the simulator loads and unloads its own copies of the package
    ctx.log('simulator part done')
    if ctx.extra.get('sim_aborted'):
        # a party was stuck in a computation and had to be interrupted by the watchdog (already reported as a violation);
        # the interpreter's asyncio state is not reliable after that, so stop here
        ctx.log('simulator run was aborted by the watchdog; skipping the single-party part')
        return
    sys.argv = [sys.argv[0], '--no-log']
    from mpyc.runtime import mpc
    import mpyc.random as mr
    import mpyc.statistics as ms
    mpc.run(mpc.start())
    assert mpc.options.no_async and mr.runtime is mpc and ms.runtime is mpc
    rng = ctx.rng
    LB = 16
    secint = mpc.SecInt(LB)
    FX = 16
    secfxp = mpc.SecFxp(32, FX)
    PRIV = mpc.options.sec_param // 6
    ulp = Fraction(1, 2 ** FX)
    ctx.rule = ('case = (function, sectype, data[, n, method][, tape]); data sets over at most 8 distinct values with '
                'duplicates, exhaustive for small sizes, random up to size 9; quantiles n = 1..12 both methods; non-trivial '
                'when the data has >= 2 points; distinct by (function, sectype, data, parameters)')
    ctx.explanation = ('every result equals Python statistics on exact Fractions with the documented rounding (secint) or '
                       'within the stated fixed-point tolerance (secfxp); the Coq model returns the same value and consumes '
                       'the same number of tape bits on the secint paths')

    exprs, meta = [], []

    def with_tape(fn):
        """run fn under a tape; returns (result, consumed bits)"""
        tape = [rng.randrange(2) for _ in range(1500)]
        px = Proxy(mpc, tape)

        class Shim:
            """statistics' view of mpyc.random: only ITS calls read the tape (runtime._mod, used by secint //, also calls
            mpyc.random._randbelow for masking bits; those keep the real bit source)"""
            def __getattr__(self, name):
                real = getattr(mr, name)

                def call(*a, **kw):
                    mr.runtime = px
                    try:
                        return real(*a, **kw)
                    finally:
                        mr.runtime = mpc
                return call
        ms.runtime = px
        ms.random = Shim()
        try:
            r = fn()
            if isinstance(r, list):
                r = [int(a) for a in mpc.run(mpc.output(r))] if r else []
            else:
                r = int(mpc.run(mpc.output(r)))
        finally:
            mr.runtime = mpc
            ms.runtime = mpc
            ms.random = mr
        return r, tape[:px.pos]

    def model(expr, want, key, what):
        exprs.append(expr)
        meta.append((want, key, what))

    def viol(sig, key, got, want):
        ctx.violation(sig, dict(key, got=got, expected=str(want)))

    FUEL = '60%nat 400%nat'

    def guarded(fn, what, seconds=45):
        """run fn under a SIGALRM watchdog: a call that does not return (e.g. a histogram of 2^29 bins) is a violation"""
        import signal

        def on_alarm(signum, frame):
            raise Watchdog()
        old = signal.signal(signal.SIGALRM, on_alarm)
        signal.setitimer(signal.ITIMER_REAL, seconds, 5)
        try:
            return fn()
        except Watchdog:
            ctx.violation('no-progress ' + what, {'call': what, 'why': 'did not return within %d s' % seconds})
            return None
        finally:
            signal.setitimer(signal.ITIMER_REAL, 0)
            signal.signal(signal.SIGALRM, old)

    def check_int(data, full=True):
        """all secint functions on one data set"""
        n = len(data)
        x = lambda: [secint(a) for a in data]   # noqa: E731
        fr = [Fraction(a) for a in data]
        dl = zlist(data)
        key0 = {'st': 'secint', 'data': data}
        # mean
        got = int(mpc.run(mpc.output(ms.mean(x()))))
        ex = Fraction(sum(data), n)
        ctx.case(dict(key0, fn='mean'), nontrivial=n >= 2, kind='mean/secint')
        if abs(got - ex) > Fraction(1, 2):
            viol('mean-secint-not-nearest', dict(key0, fn='mean'), got, ex)
        model('mean_int %s' % dl, got, key0, 'mean')
        # variance family
        for fn, corr in (('pvariance', 0), ('variance', 1)):
            if n < 1 + corr:
                continue
            got = int(mpc.run(mpc.output(getattr(ms, fn)(x()))))
            ex = getattr(statistics, fn)(fr)
            ctx.case(dict(key0, fn=fn), nontrivial=n >= 2, kind=fn + '/secint')
            if abs(got - ex) > Fraction(1, 2):
                viol('%s-secint-not-nearest' % fn, dict(key0, fn=fn), got, ex)
            model('var_int %s %d' % (dl, corr), got, key0, fn)
            sd = int(mpc.run(mpc.output(getattr(ms, fn.replace('variance', 'stdev'))(x()))))
            if sd != math.isqrt(rhu(ex)):
                viol('%s-secint-not-isqrt' % fn.replace('variance', 'stdev'), dict(key0, fn=fn), sd, math.isqrt(rhu(ex)))
            model('stdev_int %d %s %d' % (LB, dl, corr), sd, key0, 'stdev')
        if full and n >= 2:
            mu = rng.choice(data)
            got = int(mpc.run(mpc.output(ms.pvariance(x(), secint(mu)))))
            ex = statistics.pvariance(fr, Fraction(mu))
            if abs(got - ex) > Fraction(1, 2):
                viol('pvariance-mu-secint-not-nearest', dict(key0, fn='pvariance', mu=mu), got, ex)
            model('var_int_m %s %s 0' % (dl, zlit(mu)), got, key0, 'pvariance(mu)')
        # medians
        srt = sorted(data)
        for kind, fn in ((0, 'median'), (1, 'median_low'), (2, 'median_high')):
            got, used = with_tape(lambda: getattr(ms, fn)(x()))
            ex = getattr(statistics, fn)(fr)
            ctx.case(dict(key0, fn=fn, tape=len(used)), nontrivial=n >= 2, kind=fn + '/secint')
            if fn == 'median':
                if got != math.floor(ex):      # s//2 as coded; Python returns the exact average
                    viol('median-secint', dict(key0, fn=fn), got, ex)
            elif got != ex:
                viol('%s-secint-not-order-statistic' % fn, dict(key0, fn=fn), got, ex)
            model('med %s %s %d%%nat %s' % (FUEL, dl, kind, tape_lit(used)), ('Some', (got, [])), dict(key0, tape=len(used)), fn)
        # mode
        got = int(mpc.run(mpc.output(ms.mode(x()))))
        ex = statistics.mode(data)
        ctx.case(dict(key0, fn='mode'), nontrivial=n >= 2, kind='mode/secint')
        cnt = {a: data.count(a) for a in data}
        mx = max(cnt.values())
        modes = [a for a in cnt if cnt[a] == mx]
        if got != ex:
            if got in modes and got == min(modes) and ex != min(modes):
                viol('mode-multimodal-first-not-min data=%s' % data, dict(key0, fn='mode'), got, ex)
            else:
                viol('mode-wrong data=%s' % data, dict(key0, fn='mode'), got, ex)
        model('mode %d%%nat %d%%nat %s' % (LB, PRIV, dl), got, key0, 'mode')

    def check_quantiles_int(data, n, method):
        x = [secint(a) for a in data]
        key = {'st': 'secint', 'fn': 'quantiles', 'data': data, 'n': n, 'method': method}
        got, used = with_tape(lambda: ms.quantiles(x, n=n, method=method))
        ex = statistics.quantiles([Fraction(a) for a in data], n=n, method=method)
        ctx.case(key, nontrivial=n >= 2, kind='quantiles-%s/secint' % method)
        if len(got) != n - 1 or any(g != rhu(e) for g, e in zip(got, ex)):
            viol('quantiles-%s-secint n=%d ld=%d' % (method, n, len(data)), key, got, [str(e) for e in ex])
        model('quantiles %s %s %s %s %s' % (FUEL, 'true' if method == 'inclusive' else 'false', zlist(data), zlit(n), tape_lit(used)),
              ('Some', (got, [])), key, 'quantiles')

    def fx(v):
        return Fraction(v).limit_denominator(2 ** 40)

    def check_fxp(data, full=True):
        n = len(data)
        fr = [Fraction(a) for a in data]
        x = lambda: [secfxp(float(a)) for a in data]   # noqa: E731
        key0 = {'st': 'secfxp', 'data': [float(a) for a in data]}
        S = sum(abs(a) for a in fr)

        def close(fn, got, ex, tol):
            ctx.case(dict(key0, fn=fn), nontrivial=n >= 2, kind=fn + '/secfxp')
            if abs(Fraction(got) - ex) > tol:
                viol('%s-secfxp-tolerance' % fn, dict(key0, fn=fn, tol=float(tol)), got, float(ex))
        # mean: s * fxp(2^e/n) * 2^-e: conversion error of the public factor <= 2^-(f+1), two truncations
        tol_mean = ulp * (3 + S)
        close('mean', mpc.run(mpc.output(ms.mean(x()))), statistics.mean(fr), tol_mean)
        for fn, corr in (('pvariance', 0), ('variance', 1)):
            if n < 1 + corr:
                continue
            ex = getattr(statistics, fn)(fr)
            m = statistics.mean(fr)
            Y = sum(abs(a - m) for a in fr)
            Q = sum((a - m) ** 2 for a in fr)
            # error of in_prod(y,y) with each y off by tol_mean, one truncation, then division by d with reciprocal error
            tol_var = (2 * Y * tol_mean + n * tol_mean ** 2 + ulp) / (n - corr) + ulp * (3 + Q)
            got = mpc.run(mpc.output(getattr(ms, fn)(x())))
            close(fn, got, ex, tol_var)
            sd = mpc.run(mpc.output(getattr(ms, fn.replace('variance', 'stdev'))(x())))
            # |sqrt(v') - sqrt(v)| <= sqrt(|v' - v|); bitwise root is the floor to one unit
            exs = Fraction(math.sqrt(ex)).limit_denominator(2 ** 40)
            tol_sd = Fraction(math.sqrt(tol_var)).limit_denominator(2 ** 40) + 2 * ulp
            close(fn.replace('variance', 'stdev'), sd, exs, tol_sd)
        for fn in ('median', 'median_low', 'median_high'):
            got = mpc.run(mpc.output(getattr(ms, fn)(x())))
            close(fn, got, getattr(statistics, fn)(fr), 2 * ulp if fn == 'median' else 0)
        if full and n >= 2:
            for method in ('inclusive', 'exclusive'):
                for nq in (rng.randrange(1, 13), 4):
                    got = mpc.run(mpc.output(ms.quantiles(x(), n=nq, method=method)))
                    ex = statistics.quantiles(fr, n=nq, method=method)
                    R = max(fr) - min(fr)
                    ctx.case(dict(key0, fn='quantiles', n=nq, method=method), kind='quantiles-%s/secfxp' % method)
                    # a / n: reciprocal of n rounded to f bits times |a| <= R*|delta| <= R*2n (delta may exceed n when clamped)
                    tol = ulp * (3 + 2 * nq * R)
                    if len(got) != nq - 1 or any(abs(Fraction(g) - e) > tol for g, e in zip(got, ex)):
                        viol('quantiles-%s-secfxp-tolerance n=%d' % (method, nq), dict(key0, fn='quantiles', n=nq, method=method),
                             got, [float(e) for e in ex])

    # ---- data sets -------------------------------------------------------------------------------------------
    vals8 = [-3, -1, 0, 1, 2, 4, 5, 7]
    datasets = []
    for size in (1, 2, 3):
        for d in itertools.product(vals8 if size < 3 else vals8[:ctx.n(6, 8)], repeat=size):
            datasets.append(list(d))
    for d in itertools.product(vals8[1:1 + ctx.n(4, 6)], repeat=4):
        datasets.append(list(d))
    if ctx.tier == 'thorough':
        for d in itertools.product([0, 1, 5], repeat=5):
            datasets.append(list(d))
    nex = len(datasets)
    for _ in range(ctx.n(40, 300)):
        size = rng.randrange(5, 10)
        base = rng.sample(range(-20, 21), rng.randrange(1, 9))
        datasets.append([rng.choice(base) for _ in range(size)])
    # multimodal sets (mode tie rule), incl. the design witness
    datasets += [[3, 3, 1, 1], [5, 1, 1, 5, 2], [1, 1, 3, 3], [2, 7, 7, 2, 7, 2], [4, 4, 4], [0, -1, -1, 0]]
    ctx.extra['exhaustive'] = True
    ctx.extra['exhaustive_datasets'] = nex
    for i, d in enumerate(datasets):
        check_int(d, full=(i % 4 == 0))
    ctx.log('%d secint data sets done' % len(datasets))
    # quantiles: n = 1..12, both methods
    qsets = [d for d in datasets if 2 <= len(d) <= 3 and len(set(d)) >= 2][::ctx.n(40, 8)]
    qsets += [d for d in datasets[nex:] if len(d) >= 2][:ctx.n(6, 40)] + [[1, 5, 2, 9, 7], [0, 10], [3, 3, 3, 8], [7, -2, 7, -2, 0, 1, 4, 4, 9]]
    for d in qsets:
        for method in ('inclusive', 'exclusive'):
            for n in range(1, 13):
                check_quantiles_int(d, n, method)
    ctx.log('%d quantile data sets x 12 x 2 done' % len(qsets))
    # covariance (secint), correlation / linear_regression (secfxp)
    for _ in range(ctx.n(30, 200)):
        n = rng.randrange(2, 8)
        xs = [rng.randrange(-6, 7) for _ in range(n)]
        ys = [rng.randrange(-6, 7) for _ in range(n)]
        got = int(mpc.run(mpc.output(ms.covariance([secint(a) for a in xs], [secint(a) for a in ys]))))
        ex = statistics.covariance([Fraction(a) for a in xs], [Fraction(a) for a in ys])
        key = {'st': 'secint', 'fn': 'covariance', 'x': xs, 'y': ys}
        ctx.case(key, kind='covariance/secint')
        if abs(got - ex) > Fraction(1, 2):
            viol('covariance-secint-not-nearest', key, got, ex)
        model('covariance_int %s %s' % (zlist(xs), zlist(ys)), got, key, 'covariance')
    # ---- secfxp ------------------------------------------------------------------------------------------------
    fsets = []
    grid = [Fraction(k, 4) for k in range(-6, 9)]
    for size in (1, 2):
        for d in itertools.product(grid[::3], repeat=size):
            fsets.append(list(d))
    for _ in range(ctx.n(40, 300)):
        size = rng.randrange(3, 10)
        base = [Fraction(rng.randrange(-8 * 64, 8 * 64), 64) for _ in range(rng.randrange(1, 9))]
        fsets.append([rng.choice(base) for _ in range(size)])
    for i, d in enumerate(fsets):
        check_fxp(d, full=(i % 3 == 0))
    # mode on integral fixed-point data
    widish = [[0, 40, 40, 40, 7, 100, 3], [-50, -10, -10, 33, -50, -10], [5, 37, 37, 5, 37]]
    for R in (31, 32, 33, 100):
        base = rng.randrange(-500, 100)
        widish.append([base, base + R, base + R, base + rng.randrange(1, R), base + R, base + 2])
    for d in [[3, 3, 1, 1], [2, 2, 5], [4], [1, 0, 1, 0, 1], [7, 7, 6, 6, 6]] + widish + [[rng.randrange(0, 6) for _ in range(rng.randrange(1, 8))] for _ in range(ctx.n(10, 60))]:
        got = guarded(lambda: mpc.run(mpc.output(ms.mode([secfxp(a) for a in d]))), 'mode secfxp data=%s' % d)
        if got is None:
            ctx.log('a statistics call had to be interrupted by the watchdog; stopping the check')
            return
        ex = statistics.mode(d)
        ctx.case({'st': 'secfxp', 'fn': 'mode', 'data': d}, kind='mode/secfxp')
        cnt = {a: d.count(a) for a in d}
        modes = [a for a in cnt if cnt[a] == max(cnt.values())]
        if got != ex:
            if got == min(modes) and ex != min(modes):
                viol('mode-multimodal-first-not-min data=%s secfxp' % d, {'st': 'secfxp', 'fn': 'mode', 'data': d}, got, ex)
            else:
                viol('mode-wrong data=%s secfxp' % d, {'st': 'secfxp', 'fn': 'mode', 'data': d}, got, ex)
    # ---- wide ranges (max-min in {31,32,33,100,1000,2^12}), negative values, multimodal: mode / medians / quantiles ------
    secint32 = mpc.SecInt(32)
    secfxpw = mpc.SecFxp(48, FX)
    for d in wide_sets(rng, quick=ctx.tier != 'thorough'):
        fr = [Fraction(a) for a in d]
        R = max(d) - min(d)
        for stname, st, LBW in (('secint', secint32, 32), ('secfxp', secfxpw, 32)):
            key0 = {'st': stname + '-wide', 'data': d, 'range': R}
            xs = lambda: [st(a) for a in d]   # noqa: E731
            if (R < 4096 or stname == 'secfxp' or ctx.tier == 'thorough') and not ctx.extra.get('mode_stuck'):
                # (2^13 bins: one type only in the quick tier)
                got = guarded(lambda: mpc.run(mpc.output(ms.mode(xs()))), 'mode %s-wide data=%s' % (stname, d))
                if got is None:
                    # reported as a violation; the interrupted runtime is not reliable any more: stop here
                    ctx.log('a statistics call had to be interrupted by the watchdog; stopping the check')
                    return
                ex = statistics.mode(d)
                ctx.case(dict(key0, fn='mode'), kind='mode/%s-wide' % stname)
                if got != ex:
                    viol(mode_sig(d, got, ex, '' if stname == 'secint' else ' secfxp'), dict(key0, fn='mode'), got, ex)
                if R < 4096:      # the 2^13-bin histogram takes seconds under vm_compute; oracle only there
                    model('mode %d%%nat %d%%nat %s' % (LBW, PRIV, zlist(d)), int(got), key0, 'mode-wide')
            for kind, fn in ((0, 'median'), (1, 'median_low'), (2, 'median_high')):
                ex = getattr(statistics, fn)(fr)
                if stname == 'secint':
                    got, used = with_tape(lambda: getattr(ms, fn)(xs()))
                    model('med %s %s %d%%nat %s' % (FUEL, zlist(d), kind, tape_lit(used)), ('Some', (got, [])), key0, fn + '-wide')
                    bad = got != (math.floor(ex) if fn == 'median' else ex)
                else:
                    got = mpc.run(mpc.output(getattr(ms, fn)(xs())))
                    bad = abs(Fraction(got) - ex) > (2 * ulp if fn == 'median' else 0)
                ctx.case(dict(key0, fn=fn), kind='%s/%s-wide' % (fn, stname))
                if bad:
                    viol('%s-%s-wide' % (fn, stname), dict(key0, fn=fn), got, ex)
            for method in ('inclusive', 'exclusive'):
                for nq in (4, rng.randrange(2, 13)):
                    ex = statistics.quantiles(fr, n=nq, method=method)
                    if stname == 'secint':
                        x_ = xs()
                        got, used = with_tape(lambda: ms.quantiles(x_, n=nq, method=method))
                        model('quantiles %s %s %s %s %s' % (FUEL, 'true' if method == 'inclusive' else 'false', zlist(d), zlit(nq), tape_lit(used)),
                              ('Some', (got, [])), dict(key0, n=nq, method=method), 'quantiles-wide')
                        bad = len(got) != nq - 1 or any(g != rhu(e) for g, e in zip(got, ex))
                    else:
                        got = mpc.run(mpc.output(ms.quantiles(xs(), n=nq, method=method)))
                        tolq = ulp * (3 + 2 * nq * R)
                        bad = len(got) != nq - 1 or any(abs(Fraction(g) - e) > tolq for g, e in zip(got, ex))
                    ctx.case(dict(key0, fn='quantiles', n=nq, method=method), kind='quantiles-%s/%s-wide' % (method, stname))
                    if bad:
                        viol('quantiles-%s-%s-wide n=%d' % (method, stname, nq), dict(key0, fn='quantiles', n=nq, method=method), got, [str(e) for e in ex])
    ctx.log('wide-range data sets done')
    worst = {'correlation': 0.0, 'slope': 0.0, 'intercept': 0.0, 'covariance': 0.0}
    for _ in range(ctx.n(30, 200)):
        n = rng.randrange(3, 8)
        xs = [Fraction(rng.randrange(-4 * 16, 4 * 16), 16) for _ in range(n)]
        ys = [Fraction(rng.randrange(-4 * 16, 4 * 16), 16) for _ in range(n)]
        if statistics.pvariance(xs) < 1 or statistics.pvariance(ys) < 1:
            continue
        X = [secfxp(float(a)) for a in xs]
        Y = [secfxp(float(a)) for a in ys]
        key = {'st': 'secfxp', 'x': [float(a) for a in xs], 'y': [float(a) for a in ys]}
        cov = mpc.run(mpc.output(ms.covariance(X, Y)))
        cor = mpc.run(mpc.output(ms.correlation(X, Y)))
        lr = ms.linear_regression(X, Y)
        sl, ic = mpc.run(mpc.output(lr.slope)), mpc.run(mpc.output(lr.intercept))
        ex = statistics.covariance(xs, ys)
        sxx = sum((a - statistics.mean(xs)) ** 2 for a in xs)
        syy = sum((a - statistics.mean(ys)) ** 2 for a in ys)
        sxy = ex * (n - 1)
        exc = float(sxy) / math.sqrt(float(sxx) * float(syy))
        exs = sxy / sxx
        exi = statistics.mean(ys) - exs * statistics.mean(xs)
        # tolerances (units 2^-f): products of sums with mean error (3+S) units each, one division (C02: error relative to
        # 1/|divisor|, divisors here are >= n-1 >= 2 resp. sxx >= n >= 3); we allow 2^10 units = 2^-6 absolute
        tol = float(ulp) * 2 ** 10
        for nm, g, e in (('covariance', cov, float(ex)), ('correlation', cor, exc), ('slope', sl, float(exs)), ('intercept', ic, float(exi))):
            ctx.case(dict(key, fn=nm), kind=nm + '/secfxp')
            worst[nm] = max(worst[nm], abs(g - e) / float(ulp))
            if abs(g - e) > tol:
                viol('%s-secfxp-tolerance' % nm, dict(key, fn=nm, tol=tol), g, e)
        if not -1 - tol <= cor <= 1 + tol:
            viol('correlation-secfxp-range', dict(key, fn='correlation'), cor, '[-1,1]')
    ctx.extra['secfxp_worst_error_units'] = {k: round(v, 1) for k, v in worst.items()}
    ctx.notes.append('secfxp tolerances (f=%d): mean (3+sum|x|) units; variance (2*sum|y|*tol_mean+n*tol_mean^2+1)/(n-c) + (3+sum y^2) '
                     'units; stdev sqrt(tol_var)+2 units; median 2 units, median_low/high exact; quantiles (3+2n*range) units; '
                     'covariance/correlation/linear_regression 2^10 units for data with population variance >= 1' % FX)
    # error paths
    for name, call, exc in [('mean-empty', lambda: ms.mean([]), statistics.StatisticsError),
                            ('variance-one', lambda: ms.variance([secint(1)]), statistics.StatisticsError),
                            ('median-empty', lambda: ms.median([]), statistics.StatisticsError),
                            ('quantiles-n0', lambda: ms.quantiles([secint(1), secint(2)], n=0), statistics.StatisticsError),
                            ('quantiles-one', lambda: ms.quantiles([secint(1)]), statistics.StatisticsError),
                            ('quantiles-method', lambda: ms.quantiles([secint(1), secint(2)], method='x'), ValueError),
                            ('mode-empty', lambda: ms.mode([]), statistics.StatisticsError),
                            ('covariance-len', lambda: ms.covariance([secint(1)], [secint(1), secint(2)]), statistics.StatisticsError)]:
        try:
            call()
            got = 'no exception'
        except exc:
            got = None
        except Exception as e:  # noqa
            got = type(e).__name__
        ctx.case({'fn': name}, nontrivial=False, kind='error-path')
        if got:
            ctx.violation('error-path %s' % name, {'call': name, 'expected': exc.__name__, 'got': got})
    mpc.run(mpc.shutdown())
    # ---- Coq model -------------------------------------------------------------------------------------------------
    ctx.log('evaluating %d model expressions in Coq' % len(exprs))
    if ok:
        res = ctx.coq_eval(['MPyC.RandomFns', 'MPyC.Stats'], exprs, chunk=max(400, len(exprs) // 6 + 1),
                           preamble='Open Scope Z_scope.')
        mism = 0
        for r, (want, key, what) in zip(res, meta):
            if r != want:
                mism += 1
                if len(ctx.broken) < 30:
                    ctx.broken.append({'kind': 'correspondence', 'what': what, 'case': key, 'impl': str(want)[:200], 'model': str(r)[:200]})
        ctx.extra['traces_validated_against_impl'] = len(exprs) - mism
        ctx.log('model/implementation disagreements: %d' % mism)
    if ctx.broken and not ctx.violations:
        ctx.unproved('C34 model/proof', {'broken': ctx.broken[:5]})
