(** C33 — value-level model of mpyc/random.py as deterministic functions of a BIT TAPE.

    The tape is the list of values (0/1) returned by successive calls of runtime.random_bits,
    in the order drawn.  Every function returns [Some (result, remaining tape)]; [None] means
    that the tape (or the fuel of a restart loop) was exhausted.  Values are plain integers
    (secint: the value; secfxp: the scaled integer for [random]/[uniform], the integer value
    otherwise; secfld GF(p): the representative, for results that stay below p). *)
From Coq Require Import ZArith List Lia Bool Permutation.
Import ListNotations.
Open Scope Z_scope.

Definition tape := list Z.

(** [runtime.random_bits(sectype, n)]: the next n tape entries. *)
Definition draw (n : nat) (tp : tape) : option (list Z * tape) :=
  if (length tp <? n)%nat then None else Some (firstn n tp, skipn n tp).

(** [runtime.from_bits]: little endian. *)
Fixpoint from_bits (x : list Z) : Z :=
  match x with [] => 0 | a :: r => a + 2 * from_bits r end.

(** Python's int.bit_length (of |z|). *)
Definition bit_length (z : Z) : nat :=
  if z =? 0 then O else Z.to_nat (Z.log2 (Z.abs z) + 1).

Definition is01 (a : Z) : Prop := a = 0 \/ a = 1.
Definition bits (l : list Z) : Prop := Forall is01 l.

Definition zsum (l : list Z) : Z := fold_right Z.add 0 l.
Definition zprod (l : list Z) : Z := fold_right Z.mul 1 l.

Fixpoint vsub (a b : list Z) : list Z :=
  match a, b with x :: a', y :: b' => (x - y) :: vsub a' b' | _, _ => [] end.
Fixpoint vadd (a b : list Z) : list Z :=
  match a, b with x :: a', y :: b' => (x + y) :: vadd a' b' | _, _ => [] end.
Fixpoint in_prod (a b : list Z) : Z :=
  match a, b with x :: a', y :: b' => x * y + in_prod a' b' | _, _ => 0 end.

(** ** getrandbits *)
Definition getrandbits (k : nat) (tp : tape) : option (Z * tape) :=
  match draw k tp with None => None | Some (x, tp') => Some (from_bits x, tp') end.

(** ** _randbelow — the while loop of random.py:75-82, one iteration per unit of fuel.
    State: bit list x (length k), h, i.  [b = n-1]. *)
Fixpoint rb_loop (fuel : nat) (b : Z) (k t : nat) (x : list Z) (h : Z) (i : nat) (tp : tape)
  : option (list Z * tape) :=
  match fuel with
  | O => None
  | S fuel' =>
    if (i <? t)%nat then Some (x, tp)                    (* while i >= t *)
    else
      let i' := (i - 1)%nat in                           (* i -= 1 *)
      if Z.testbit b (Z.of_nat i') then                  (* if (b >> i) & 1: h *= x[i] *)
        rb_loop fuel' b k t x (h * nth i' x 0) i' tp
      else if h * nth i' x 0 =? 0 then                   (* elif await output(h * x[i]): *)
        rb_loop fuel' b k t x h i' tp
      else                                               (* restart, keeping x[:i] *)
        match draw (k - i') tp with
        | None => None
        | Some (nb, tp') => rb_loop fuel' b k t (firstn i' x ++ nb) h k tp'
        end
  end.

(** bits of the result (bits=True) *)
Definition randbelow_bits (fuel : nat) (n : Z) (tp : tape) : option (list Z * tape) :=
  let b := n - 1 in
  let k := bit_length b in
  if Z.land n b =? 0 then draw k tp                      (* fast path: powers of two (and n = 0) *)
  else
    match draw k tp with
    | None => None
    | Some (x, tp') =>
      let t := bit_length (Z.land n (- n)) in
      rb_loop fuel b k t x 1 k tp'
    end.

Definition randbelow (fuel : nat) (n : Z) (tp : tape) : option (Z * tape) :=
  match randbelow_bits fuel n tp with
  | None => None
  | Some (x, tp') => Some (from_bits x, tp')
  end.

(** One pass of the loop without the restart: [inl x] accepted, [inr i] rejected at bit i. *)
Fixpoint rb_pass (b : Z) (t : nat) (x : list Z) (h : Z) (steps : nat) (i : nat) : option nat :=
  match steps with
  | O => None
  | S s =>
    if (i <? t)%nat then None
    else
      let i' := (i - 1)%nat in
      if Z.testbit b (Z.of_nat i') then rb_pass b t x (h * nth i' x 0) s i'
      else if h * nth i' x 0 =? 0 then rb_pass b t x h s i'
      else Some i'
  end.

(** ** random_unit_vector — the while loop of random.py:105-119. *)
Definition smul (c : Z) (u : list Z) : list Z := map (Z.mul c) u.

Fixpoint uv_loop (fuel : nat) (b : Z) (k : nat) (x u : list Z) (i : nat) (tp : tape)
  : option (list Z * tape) :=
  match fuel with
  | O => None
  | S fuel' =>
    match i with
    | O => Some (u, tp)                                  (* while i: *)
    | S i' =>                                            (* i -= 1 *)
      let v := smul (nth i' x 0) u in                    (* v = scalar_mul(x[i], u) *)
      if Z.testbit b (Z.of_nat i') then
        uv_loop fuel' b k x (v ++ vsub u v) i' tp        (* v.extend(u - v); u = v *)
      else if hd 0 v =? 0 then                           (* not output(v[0]) *)
        let v' := tl v in
        uv_loop fuel' b k x (hd 0 u :: v' ++ vsub (tl u) v') i' tp
      else                                               (* restart, keeping x[:i] *)
        match draw (k - i') tp with
        | None => None
        | Some (nb, tp') =>
          let x' := firstn i' x ++ nb in
          let top := nth (k - 1) x' 0 in
          uv_loop fuel' b k x' [top; 1 - top] (k - 1) tp'
        end
    end
  end.

Definition random_unit_vector (fuel : nat) (n : Z) (tp : tape) : option (list Z * tape) :=
  if n =? 1 then Some ([1], tp)
  else
    let b := n - 1 in
    let k := bit_length b in
    match draw k tp with
    | None => None
    | Some (x, tp') =>
      let top := nth (k - 1) x 0 in
      uv_loop fuel b k x [top; 1 - top] (k - 1) tp'
    end.

(** ** randrange / randint *)
Definition range_len (start stop step : Z) : Z :=
  if 0 <? step then Z.max 0 ((stop - start + step - 1) / step)
  else if step <? 0 then Z.max 0 ((start - stop - step - 1) / (- step))
  else 0.

(** [None] also for the ValueError of an empty range. *)
Definition randrange (fuel : nat) (start stop step : Z) (tp : tape) : option (Z * tape) :=
  let n := range_len start stop step in
  if n =? 0 then None
  else match randbelow fuel n tp with
       | None => None
       | Some (r, tp') => Some (start + r * step, tp')
       end.

Definition randint (fuel : nat) (a b : Z) (tp : tape) := randrange fuel a (b + 1) 1 tp.

(** ** choice / choices *)
Definition choice (fuel : nat) (seq : list Z) (tp : tape) : option (Z * tape) :=
  match seq with
  | [] => None                                           (* IndexError *)
  | _ => match random_unit_vector fuel (Z.of_nat (length seq)) tp with
         | None => None
         | Some (u, tp') => Some (in_prod u seq, tp')
         end
  end.

Fixpoint repeat_draw {A} (f : tape -> option (A * tape)) (k : nat) (tp : tape) : option (list A * tape) :=
  match k with
  | O => Some ([], tp)
  | S k' => match f tp with
            | None => None
            | Some (a, tp') =>
              match repeat_draw f k' tp' with
              | None => None
              | Some (r, tp'') => Some (a :: r, tp'')
              end
            end
  end.

Fixpoint accumulate (acc : Z) (w : list Z) : list Z :=
  match w with [] => [] | a :: r => (acc + a) :: accumulate (acc + a) r end.

Definition gcd_list (l : list Z) : Z := fold_right Z.gcd 0 l.

Definition b2z (b : bool) : Z := if b then 1 else 0.

(** one weighted choice for reduced cumulative weights cw (random.py:215-221) *)
Definition weighted_choice (fuel : nat) (cw pop : list Z) (tp : tape) : option (Z * tape) :=
  match randbelow fuel (last cw 0) tp with
  | None => None
  | Some (r, tp') =>
    let h := map (fun a => b2z (r <? a)) (removelast cw) in
    let u := vsub (h ++ [1]) (0 :: h) in
    Some (in_prod u pop, tp')
  end.

Definition choices_cum (fuel : nat) (pop cum : list Z) (k : nat) (tp : tape) : option (list Z * tape) :=
  let g := gcd_list cum in
  let cw := map (fun a => a / g) cum in
  repeat_draw (weighted_choice fuel cw pop) k tp.

Definition choices_weights (fuel : nat) (pop w : list Z) (k : nat) (tp : tape) :=
  choices_cum fuel pop (accumulate 0 w) k tp.

Definition choices_plain (fuel : nat) (pop : list Z) (k : nat) (tp : tape) :=
  repeat_draw (choice fuel pop) k tp.

(** ** shuffle (numbers): [steps] iterations of the body of random.py:239-244 on the suffix. *)
Definition shuffle_step (x u : list Z) : list Z :=
  let xu := in_prod x u in                               (* x_u = in_prod(x[i:], u) *)
  let d := smul (hd 0 x - xu) u in                       (* d = (x[i] - x_u) * u *)
  vadd (xu :: tl x) d.                                   (* x[i] = x_u; x[i:] += d *)

Fixpoint shuffle_from (fuel : nat) (steps : nat) (x : list Z) (tp : tape) : option (list Z * tape) :=
  match steps with
  | O => Some (x, tp)
  | S s =>
    match random_unit_vector fuel (Z.of_nat (length x)) tp with
    | None => None
    | Some (u, tp') =>
      match shuffle_step x u with
      | [] => Some ([], tp')
      | y :: rest =>
        match shuffle_from fuel s rest tp' with
        | None => None
        | Some (r, tp'') => Some (y :: r, tp'')
        end
      end
    end
  end.

Definition shuffle (fuel : nat) (x : list Z) (tp : tape) := shuffle_from fuel (length x - 1) x tp.

(** random_permutation(x) for a list; for an int n use [seqZ n]. *)
Definition random_permutation := shuffle.
Definition seqZ (n : nat) : list Z := map Z.of_nat (seq 0 n).

(** ** shuffle for lists of lists (rows), random.py:252-257 *)
Definition row_comb (u : list Z) (rows : list (list Z)) (w : nat) : list Z :=
  fold_right (fun ur acc => vadd (smul (fst ur) (snd ur)) acc) (repeat 0 w) (combine u rows).

Definition shuffle_rows_step (w : nat) (x : list (list Z)) (u : list Z) : list (list Z) :=
  let xu := row_comb u x w in
  let dv := vsub (hd [] x) xu in
  map (fun ur => vadd (snd ur) (smul (fst ur) dv)) (combine u (xu :: tl x)).

Fixpoint shuffle_rows_from (fuel steps w : nat) (x : list (list Z)) (tp : tape)
  : option (list (list Z) * tape) :=
  match steps with
  | O => Some (x, tp)
  | S s =>
    match random_unit_vector fuel (Z.of_nat (length x)) tp with
    | None => None
    | Some (u, tp') =>
      match shuffle_rows_step w x u with
      | [] => Some ([], tp')
      | y :: rest =>
        match shuffle_rows_from fuel s w rest tp' with
        | None => None
        | Some (r, tp'') => Some (y :: r, tp'')
        end
      end
    end
  end.

Definition shuffle_rows (fuel : nat) (x : list (list Z)) (tp : tape) :=
  shuffle_rows_from fuel (length x - 1) (length (hd [] x)) x tp.

(** ** random_derangement: shuffle y in place until prod(y - x) <> 0 (random.py:286-290). *)
Fixpoint derange_loop (rounds fuel : nat) (x y : list Z) (tp : tape) : option (list Z * tape) :=
  match rounds with
  | O => None
  | S r =>
    match shuffle fuel y tp with
    | None => None
    | Some (y', tp') =>
      if zprod (vsub y' x) =? 0 then derange_loop r fuel x y' tp' else Some (y', tp')
    end
  end.

Definition random_derangement (rounds fuel : nat) (x : list Z) (tp : tape) := derange_loop rounds fuel x x tp.

(** ** sample *)
(** range branch (random.py:314-323) *)
Fixpoint sample_range_loop (rounds fuel : nat) (start stop step : Z) (k : nat) (x : list Z) (tp : tape)
  : option (list Z * tape) :=
  match rounds with
  | O => None
  | S rd =>
    if (length x <? k)%nat then
      match randrange fuel start stop step tp with
      | None => None
      | Some (r, tp') =>
        match x with
        | [] => sample_range_loop rd fuel start stop step k [r] tp'
        | _ => if zprod (map (fun a => r - a) x) =? 0
               then sample_range_loop rd fuel start stop step k x tp'
               else sample_range_loop rd fuel start stop step k (x ++ [r]) tp'
        end
      end
    else Some (x, tp)
  end.

Definition sample_range (rounds fuel : nat) (start stop step : Z) (k : nat) (tp : tape) :=
  sample_range_loop rounds fuel start stop step k [] tp.

(** population branch (random.py:325-335): k Fisher-Yates steps, first k elements *)
Definition sample_pop (fuel : nat) (pop : list Z) (k : nat) (tp : tape) : option (list Z * tape) :=
  match shuffle_from fuel k pop tp with
  | None => None
  | Some (x, tp') => Some (firstn k x, tp')
  end.

(** ** random / uniform, on scaled integers (value = result * 2^-f) *)
Definition random_fxp (f : nat) (tp : tape) : option (Z * tape) := getrandbits f tp.

(** a, b given as scaled integers (exact multiples of 2^-f); s = copysign(1, b - a) *)
Definition uniform_fxp (fuel : nat) (a b : Z) (tp : tape) : option (Z * tape) :=
  let n := Z.abs (a - b) in                              (* n = round(abs(a - b) * 2**f) *)
  if n =? 0 then Some (a, tp)                            (* if not n: return sectype(a) *)
  else
    let s := if b - a <? 0 then -1 else 1 in
    match randbelow fuel n tp with
    | None => None
    | Some (r, tp') => Some (a + r * s, tp')
    end.

(** fuel that always suffices for the restart loops on a given tape: every restart draws >= 1 bit *)
Definition fuel_for (tp : tape) : nat := ((length tp + 2) * 70)%nat.

(** compact tape literals for the correspondence harness: the [len] low bits of z, little endian *)
Fixpoint tape_of (len : nat) (z : Z) : tape :=
  match len with O => [] | S l => (z mod 2) :: tape_of l (z / 2) end.
Fixpoint pbits (p : positive) : list Z :=
  match p with xH => [] | xO q => 0 :: pbits q | xI q => 1 :: pbits q end.
Fixpoint split_tapes (cnt : nat) (l : list Z) : list tape :=
  match cnt with
  | O => []
  | S c => let len := Z.to_nat (from_bits (firstn 6 l)) in
           let l1 := skipn 6 l in
           firstn len l1 :: split_tapes c (skipn len l1)
  end.
(** z = sentinel 1 above the concatenation of (6-bit length, bits) records *)
Definition tapes_of (cnt : nat) (z : Z) : list tape :=
  match z with Zpos p => split_tapes cnt (pbits p) | _ => [] end.
Definition on_tapes {A} (f : tape -> A) (cnt : nat) (z : Z) : list A := map f (tapes_of cnt z).

(** * Proofs *)
Require Import ZifyBool.
Ltac Zify.zify_post_hook ::= Z.div_mod_to_equations.

Lemma bits_app : forall a b, bits (a ++ b) <-> bits a /\ bits b.
Proof. intros. unfold bits. apply Forall_app. Qed.

Lemma bits_firstn : forall n x, bits x -> bits (firstn n x).
Proof. intros n x H. rewrite <- (firstn_skipn n x) in H. apply bits_app in H. tauto. Qed.

Lemma bits_skipn : forall n x, bits x -> bits (skipn n x).
Proof. intros n x H. rewrite <- (firstn_skipn n x) in H. apply bits_app in H. tauto. Qed.

Lemma bits_nth : forall x i, bits x -> is01 (nth i x 0).
Proof.
  intros x i H. destruct (Nat.lt_ge_cases i (length x)) as [L|L].
  - unfold bits in H. rewrite Forall_forall in H. apply H. apply nth_In. exact L.
  - rewrite nth_overflow by exact L. left. reflexivity.
Qed.

Lemma draw_spec : forall n tp x tp', draw n tp = Some (x, tp') ->
  x = firstn n tp /\ tp' = skipn n tp /\ length x = n.
Proof.
  intros n tp x tp' H. unfold draw in H. destruct (length tp <? n)%nat eqn:E; [discriminate|].
  injection H as <- <-. apply Nat.ltb_ge in E. repeat split. apply firstn_length_le. exact E.
Qed.

Lemma draw_bits : forall n tp x tp', bits tp -> draw n tp = Some (x, tp') -> bits x /\ bits tp'.
Proof.
  intros n tp x tp' Hb H. apply draw_spec in H. destruct H as (-> & -> & _).
  split; [apply bits_firstn | apply bits_skipn]; exact Hb.
Qed.

Lemma from_bits_bound : forall x, bits x -> 0 <= from_bits x < 2 ^ Z.of_nat (length x).
Proof.
  induction x as [|a x IH]; intros H.
  - simpl. lia.
  - inversion H as [|? ? Ha Hx]; subst. specialize (IH Hx).
    cbn [from_bits length]. rewrite Nat2Z.inj_succ, Z.pow_succ_r by lia.
    destruct Ha as [-> | ->]; lia.
Qed.

Theorem getrandbits_range : forall k tp v tp', bits tp -> getrandbits k tp = Some (v, tp') ->
  0 <= v < 2 ^ Z.of_nat k /\ bits tp'.
Proof.
  intros k tp v tp' Hb H. unfold getrandbits in H.
  destruct (draw k tp) as [[x t']|] eqn:E; [|discriminate]. injection H as <- <-.
  destruct (draw_bits _ _ _ _ Hb E) as [Hx Ht]. apply draw_spec in E. destruct E as (_ & _ & L).
  split; [|exact Ht]. rewrite <- L. apply from_bits_bound. exact Hx.
Qed.

(** ** unit vectors *)
Definition unitv (u : list Z) : Prop := bits u /\ zsum u = 1.

Lemma zsum_app : forall a b, zsum (a ++ b) = zsum a + zsum b.
Proof. induction a as [|x a IH]; intros b; simpl; [reflexivity|]. rewrite IH. lia. Qed.

Lemma zsum_nonneg : forall u, bits u -> 0 <= zsum u.
Proof.
  induction u as [|a u IH]; intros H; simpl; [lia|].
  inversion H as [|? ? Ha Hu]; subst. specialize (IH Hu). destruct Ha as [-> | ->]; lia.
Qed.

Lemma bits_sum0 : forall u, bits u -> zsum u = 0 -> u = repeat 0 (length u).
Proof.
  induction u as [|a u IH]; intros H S0; simpl; [reflexivity|].
  inversion H as [|? ? Ha Hu]; subst. simpl in S0. pose proof (zsum_nonneg u Hu).
  destruct Ha as [-> | ->]; [|lia]. f_equal. apply IH; [exact Hu | lia].
Qed.

Lemma unitv_onehot : forall u, unitv u ->
  exists j, (j < length u)%nat /\ u = repeat 0 j ++ 1 :: repeat 0 (length u - 1 - j).
Proof.
  induction u as [|a u IH]; intros [H S1].
  - simpl in S1. lia.
  - inversion H as [|? ? Ha Hu]; subst. simpl in S1. destruct Ha as [-> | ->].
    + destruct IH as (j & Lj & E); [split; [exact Hu | lia]|].
      exists (S j). split; [simpl; lia|]. simpl. f_equal. replace (length u - 0 - S j)%nat with (length u - 1 - j)%nat by lia. exact E.
    + exists O. split; [simpl; lia|]. simpl. f_equal. rewrite !Nat.sub_0_r. apply bits_sum0; [exact Hu | lia].
Qed.

Lemma smul_1 : forall u, smul 1 u = u.
Proof. unfold smul. induction u as [|a u IH]; cbn [map]; [reflexivity|]. rewrite IH, Z.mul_1_l. reflexivity. Qed.

Lemma smul_0 : forall u, smul 0 u = repeat 0 (length u).
Proof. unfold smul. induction u as [|a u IH]; cbn [map length repeat]; [reflexivity|]. rewrite IH, Z.mul_0_l. reflexivity. Qed.

Lemma bits_repeat0 : forall n, bits (repeat 0 n).
Proof. induction n; simpl; constructor; [left; reflexivity | assumption]. Qed.

Lemma zsum_repeat0 : forall n, zsum (repeat 0 n) = 0.
Proof. induction n; simpl; lia. Qed.

Lemma vsub_self : forall u, vsub u u = repeat 0 (length u).
Proof. induction u as [|a u IH]; simpl; [reflexivity|]. rewrite IH. f_equal. lia. Qed.

Lemma vsub_zeros : forall u, vsub u (repeat 0 (length u)) = u.
Proof. induction u as [|a u IH]; simpl; [reflexivity|]. rewrite IH. f_equal. lia. Qed.

(** the two loop steps preserve "unit vector" and have the stated lengths *)
Lemma uv_step_double : forall c u, is01 c -> unitv u ->
  unitv (smul c u ++ vsub u (smul c u)) /\ length (smul c u ++ vsub u (smul c u)) = (2 * length u)%nat.
Proof.
  intros c u [-> | ->] [Hb Hs].
  - rewrite smul_0, vsub_zeros. split.
    + split; [apply bits_app; split; [apply bits_repeat0 | exact Hb]|]. rewrite zsum_app, zsum_repeat0. lia.
    + rewrite app_length, repeat_length. lia.
  - rewrite smul_1, vsub_self. split.
    + split; [apply bits_app; split; [exact Hb | apply bits_repeat0]|]. rewrite zsum_app, zsum_repeat0. lia.
    + rewrite app_length, repeat_length. lia.
Qed.

Lemma uv_step_keep : forall c u, is01 c -> unitv u ->
  let v := smul c u in
  let r := hd 0 u :: tl v ++ vsub (tl u) (tl v) in
  unitv r /\ length r = (2 * length u - 1)%nat.
Proof.
  intros c u Hc [Hb Hs]. destruct u as [|a us]; [simpl in Hs; lia|].
  inversion Hb as [|? ? Ha Hus]; subst. cbn [smul map hd tl]. fold (smul c us). simpl in Hs.
  destruct Hc as [-> | ->].
  - rewrite smul_0, vsub_zeros. split.
    + split; [constructor; [exact Ha|]; apply bits_app; split; [apply bits_repeat0 | exact Hus]|].
      cbn [zsum fold_right]. fold (zsum (repeat 0 (length us) ++ us)). rewrite zsum_app, zsum_repeat0. lia.
    + cbn [length]. rewrite app_length, repeat_length. lia.
  - rewrite smul_1, vsub_self. split.
    + split; [constructor; [exact Ha|]; apply bits_app; split; [exact Hus | apply bits_repeat0]|].
      cbn [zsum fold_right]. fold (zsum (us ++ repeat 0 (length us))). rewrite zsum_app, zsum_repeat0. lia.
    + cbn [length]. rewrite app_length, repeat_length. lia.
Qed.

Lemma shift_bit : forall b i, 0 <= b ->
  b / 2 ^ Z.of_nat i = 2 * (b / 2 ^ Z.of_nat (S i)) + (if Z.testbit b (Z.of_nat i) then 1 else 0).
Proof.
  intros b i Hb. rewrite Nat2Z.inj_succ, Z.pow_succ_r by lia.
  assert (P : 0 < 2 ^ Z.of_nat i) by (apply Z.pow_pos_nonneg; lia).
  replace (2 * 2 ^ Z.of_nat i) with (2 ^ Z.of_nat i * 2) by lia.
  rewrite <- Z.div_div by lia.
  destruct (Z.testbit b (Z.of_nat i)) eqn:E.
  - apply Z.testbit_true in E; [|lia]. set (q := b / 2 ^ Z.of_nat i) in *. clearbody q. lia.
  - apply Z.testbit_false in E; [|lia]. set (q := b / 2 ^ Z.of_nat i) in *. clearbody q. lia.
Qed.

Lemma unitv_pair : forall t, is01 t -> unitv [t; 1 - t].
Proof. intros t [-> | ->]; (split; [repeat constructor; (left; reflexivity) || (right; reflexivity) | reflexivity]). Qed.

Lemma uv_loop_shape : forall (b : Z) (k : nat), 0 <= b -> (1 <= k)%nat -> b / 2 ^ Z.of_nat (k - 1) = 1 ->
  forall fuel x u i tp r tp',
    bits tp -> bits x -> unitv u -> Z.of_nat (length u) = b / 2 ^ Z.of_nat i + 1 ->
    uv_loop fuel b k x u i tp = Some (r, tp') ->
    unitv r /\ Z.of_nat (length r) = b + 1 /\ bits tp'.
Proof.
  intros b k Hb Hk Htop. induction fuel as [|fuel IH]; intros x u i tp r tp' Htp Hx Hu Hlen H.
  - discriminate.
  - cbn [uv_loop] in H. destruct i as [|i'].
    + injection H as <- <-. split; [exact Hu|]. split; [|exact Htp].
      rewrite Hlen. simpl. rewrite Z.div_1_r. reflexivity.
    + pose proof (bits_nth x i' Hx) as Hc. pose proof (shift_bit b i' Hb) as Hs.
      destruct (Z.testbit b (Z.of_nat i')) eqn:Eb.
      * destruct (uv_step_double _ _ Hc Hu) as [Hu' Hl'].
        apply (IH _ _ _ _ _ _ Htp Hx Hu') in H; [exact H|]. rewrite Hl'. lia.
      * destruct (hd 0 (smul (nth i' x 0) u) =? 0) eqn:Eh.
        -- destruct (uv_step_keep _ _ Hc Hu) as [Hu' Hl'].
           apply (IH _ _ _ _ _ _ Htp Hx Hu') in H; [exact H|]. rewrite Hl'.
           assert (1 <= length u)%nat by (destruct Hu as [_ S1]; destruct u; [simpl in S1; lia | simpl; lia]). lia.
        -- destruct (draw (k - i') tp) as [[nb tp1]|] eqn:Ed; [|discriminate].
           destruct (draw_bits _ _ _ _ Htp Ed) as [Hnb Htp1].
           assert (Hx' : bits (firstn i' x ++ nb)) by (apply bits_app; split; [apply bits_firstn; exact Hx | exact Hnb]).
           apply (IH _ _ _ _ _ _ Htp1 Hx' (unitv_pair _ (bits_nth _ _ Hx'))) in H; [exact H|].
           rewrite Htop. reflexivity.
Qed.

Lemma bit_length_pos : forall b, 1 <= b ->
  (1 <= bit_length b)%nat /\ b / 2 ^ Z.of_nat (bit_length b - 1) = 1 /\ b < 2 ^ Z.of_nat (bit_length b).
Proof.
  intros b Hb. unfold bit_length. destruct (b =? 0) eqn:E; [lia|].
  rewrite Z.abs_eq by lia. pose proof (Z.log2_nonneg b) as L0.
  destruct (Z.log2_spec b ltac:(lia)) as [L1 L2].
  assert (EQ : Z.of_nat (Z.to_nat (Z.log2 b + 1) - 1) = Z.log2 b) by lia.
  split; [lia|]. rewrite EQ. split.
  - symmetry. apply Z.div_unique with (r := b - 2 ^ Z.log2 b); [|ring].
    left. rewrite Z.pow_succ_r in L2 by lia. lia.
  - rewrite Z2Nat.id by lia. replace (Z.log2 b + 1) with (Z.succ (Z.log2 b)) by lia. exact L2.
Qed.

Theorem unit_vector_shape : forall fuel n tp u tp', 1 <= n -> bits tp ->
  random_unit_vector fuel n tp = Some (u, tp') ->
  length u = Z.to_nat n /\ unitv u /\ bits tp'.
Proof.
  intros fuel n tp u tp' Hn Htp H. unfold random_unit_vector in H.
  destruct (n =? 1) eqn:E1.
  - injection H as <- <-. apply Z.eqb_eq in E1. subst n.
    split; [reflexivity|]. split; [|exact Htp]. split; [repeat constructor; right; reflexivity | reflexivity].
  - apply Z.eqb_neq in E1. destruct (draw (bit_length (n - 1)) tp) as [[x tp1]|] eqn:Ed; [|discriminate].
    destruct (draw_bits _ _ _ _ Htp Ed) as [Hx Htp1].
    destruct (bit_length_pos (n - 1) ltac:(lia)) as (K1 & K2 & _).
    apply (uv_loop_shape (n - 1) _ ltac:(lia) K1 K2) in H; try assumption.
    + destruct H as (Hu & Hl & Ht). split; [lia|]. split; assumption.
    + apply unitv_pair. apply bits_nth. exact Hx.
    + rewrite K2. reflexivity.
Qed.

Corollary unit_vector_onehot : forall fuel n tp u tp', 1 <= n -> bits tp ->
  random_unit_vector fuel n tp = Some (u, tp') ->
  exists j, (j < Z.to_nat n)%nat /\ u = repeat 0 j ++ 1 :: repeat 0 (Z.to_nat n - 1 - j).
Proof.
  intros fuel n tp u tp' Hn Htp H. destruct (unit_vector_shape _ _ _ _ _ Hn Htp H) as (L & U & _).
  destruct (unitv_onehot u U) as (j & Lj & E). rewrite L in *. exists j. split; assumption.
Qed.

(** ** shuffle: one Fisher-Yates step with a one-hot vector is a swap *)
Lemma in_prod_zeros : forall xs m, in_prod xs (repeat 0 m) = 0.
Proof. induction xs as [|b r IH]; intros [|m]; simpl; try reflexivity. rewrite IH. lia. Qed.

Lemma in_prod_comm : forall a b, in_prod a b = in_prod b a.
Proof. induction a as [|x a IH]; intros [|y b]; simpl; try reflexivity. rewrite IH. lia. Qed.

Lemma in_prod_onehot : forall j xs m, (j < length xs)%nat ->
  in_prod xs (repeat 0 j ++ 1 :: repeat 0 m) = nth j xs 0.
Proof.
  induction j as [|j IH]; intros [|b r] m L; simpl in L; try lia.
  - simpl. rewrite in_prod_zeros. lia.
  - cbn [repeat app in_prod nth]. rewrite IH by lia. lia.
Qed.

Lemma map_repeat' : forall (f : Z -> Z) a n, map f (repeat a n) = repeat (f a) n.
Proof. induction n; simpl; [reflexivity|]. rewrite IHn. reflexivity. Qed.

Lemma smul_onehot : forall t j m, smul t (repeat 0 j ++ 1 :: repeat 0 m) = repeat 0 j ++ t :: repeat 0 m.
Proof.
  intros t j m. unfold smul. rewrite map_app. cbn [map]. rewrite !map_repeat', Z.mul_0_r, Z.mul_1_r. reflexivity.
Qed.

Lemma vadd_zeros : forall r, vadd r (repeat 0 (length r)) = r.
Proof. induction r as [|b r IH]; simpl; [reflexivity|]. rewrite IH. f_equal. lia. Qed.

Lemma vadd_onehot : forall j xs m t, (length xs = j + 1 + m)%nat ->
  vadd xs (repeat 0 j ++ t :: repeat 0 m) = firstn j xs ++ (nth j xs 0 + t) :: skipn (S j) xs.
Proof.
  induction j as [|j IH]; intros [|b r] m t L; simpl in L; try lia.
  - cbn [repeat app vadd firstn nth skipn]. replace m with (length r) by lia. rewrite vadd_zeros. reflexivity.
  - cbn [repeat app vadd firstn nth]. rewrite IH by lia. rewrite Z.add_0_r. reflexivity.
Qed.

Lemma split_nth : forall j (xs : list Z), (j < length xs)%nat -> xs = firstn j xs ++ nth j xs 0 :: skipn (S j) xs.
Proof.
  induction j as [|j IH]; intros [|b r] L; simpl in L; try lia.
  - reflexivity.
  - cbn [firstn nth app]. f_equal. change (skipn (S (S j)) (b :: r)) with (skipn (S j) r). apply IH. lia.
Qed.

Lemma shuffle_step_perm : forall x j, (j < length x)%nat ->
  Permutation (shuffle_step x (repeat 0 j ++ 1 :: repeat 0 (length x - 1 - j))) x.
Proof.
  intros [|a xs] j L; simpl in L; [lia|]. unfold shuffle_step. cbn [hd tl length].
  destruct j as [|j].
  - cbn [repeat app]. cbn [in_prod]. rewrite in_prod_zeros.
    replace (a - (a * 1 + 0)) with 0 by lia. rewrite smul_0. cbn [length].
    rewrite repeat_length. replace (S (length xs) - 1 - 0)%nat with (length xs) by lia.
    cbn [repeat vadd]. rewrite vadd_zeros. replace (a * 1 + 0 + 0) with a by lia. apply Permutation_refl.
  - replace (S (length xs) - 1 - S j)%nat with (length xs - 1 - j)%nat by lia.
    set (m := (length xs - 1 - j)%nat).
    cbn [repeat app in_prod]. rewrite in_prod_onehot by lia. set (c := nth j xs 0).
    replace (a * 0 + c) with c by lia.
    change (0 :: repeat 0 j ++ 1 :: repeat 0 m) with (repeat 0 (S j) ++ 1 :: repeat 0 m).
    rewrite smul_onehot. cbn [repeat app vadd]. rewrite vadd_onehot by (unfold m; lia). fold c.
    replace (c + 0) with c by lia. replace (c + (a - c)) with a by lia.
    rewrite (split_nth j xs ltac:(lia)) at 3. fold c.
    set (l1 := firstn j xs). set (l2 := skipn (S j) xs).
    apply Permutation_trans with (c :: a :: l1 ++ l2).
    + apply perm_skip. apply Permutation_sym. apply Permutation_middle.
    + apply Permutation_trans with (a :: c :: l1 ++ l2); [apply perm_swap|].
      apply perm_skip. apply Permutation_middle.
Qed.

Theorem shuffle_from_perm : forall fuel steps x tp r tp', (steps <= length x)%nat -> bits tp ->
  shuffle_from fuel steps x tp = Some (r, tp') -> Permutation r x /\ bits tp'.
Proof.
  intros fuel. induction steps as [|s IH]; intros x tp r tp' Ls Htp H.
  - injection H as <- <-. split; [apply Permutation_refl | exact Htp].
  - cbn [shuffle_from] in H.
    destruct (random_unit_vector fuel (Z.of_nat (length x)) tp) as [[u tp1]|] eqn:Eu; [|discriminate].
    assert (Hn : 1 <= Z.of_nat (length x)) by lia.
    destruct (unit_vector_onehot _ _ _ _ _ Hn Htp Eu) as (j & Lj & ->).
    destruct (unit_vector_shape _ _ _ _ _ Hn Htp Eu) as (_ & _ & Htp1).
    rewrite Nat2Z.id in *.
    pose proof (shuffle_step_perm x j Lj) as P.
    destruct (shuffle_step x (repeat 0 j ++ 1 :: repeat 0 (length x - 1 - j))) as [|y rest] eqn:Es.
    + apply Permutation_length in P. simpl in P. lia.
    + destruct (shuffle_from fuel s rest tp1) as [[r1 tp2]|] eqn:Er; [|discriminate].
      injection H as <- <-.
      pose proof (Permutation_length P) as PL. simpl in PL.
      assert (Ls' : (s <= length rest)%nat) by lia.
      destruct (IH _ _ _ _ Ls' Htp1 Er) as [P1 Ht2].
      split; [|exact Ht2]. apply Permutation_trans with (y :: rest); [apply perm_skip; exact P1 | exact P].
Qed.

Theorem shuffle_perm : forall fuel x tp r tp', bits tp ->
  shuffle fuel x tp = Some (r, tp') -> Permutation r x /\ bits tp'.
Proof. intros fuel x tp r tp' Htp H. unfold shuffle in H. assert (L : (length x - 1 <= length x)%nat) by lia. apply (shuffle_from_perm _ _ _ _ _ _ L Htp H). Qed.

(** ** random_derangement *)
Lemma zprod_nonzero : forall l, zprod l <> 0 -> Forall (fun d => d <> 0) l.
Proof.
  induction l as [|a l IH]; intros H; [constructor|]. simpl in H.
  constructor; [intros ->; apply H; lia | apply IH; intros E; apply H; rewrite E; lia].
Qed.

Lemma vsub_nth : forall y x i, (i < length x)%nat -> length y = length x ->
  nth i (vsub y x) 0 = nth i y 0 - nth i x 0 /\ (i < length (vsub y x))%nat.
Proof.
  induction y as [|a y IH]; intros [|b x] i L E; simpl in *; try lia.
  destruct i as [|i]; [split; [reflexivity | lia]|].
  destruct (IH x i ltac:(lia) ltac:(lia)) as [E1 E2]. split; [exact E1 | lia].
Qed.

Theorem derangement_no_fixed_point : forall rounds fuel x y0 tp y tp', bits tp ->
  Permutation y0 x ->
  derange_loop rounds fuel x y0 tp = Some (y, tp') ->
  Permutation y x /\ (forall i, (i < length x)%nat -> nth i y 0 <> nth i x 0) /\ bits tp'.
Proof.
  induction rounds as [|r IH]; intros fuel x y0 tp y tp' Htp P0 H; [discriminate|].
  cbn [derange_loop] in H. destruct (shuffle fuel y0 tp) as [[y1 tp1]|] eqn:Es; [|discriminate].
  destruct (shuffle_perm _ _ _ _ _ Htp Es) as [P1 Htp1].
  assert (P : Permutation y1 x) by (eapply Permutation_trans; eassumption).
  destruct (zprod (vsub y1 x) =? 0) eqn:Ez.
  - apply (IH _ _ _ _ _ _ Htp1 P H).
  - injection H as <- <-. split; [exact P|]. split; [|exact Htp1].
    apply Z.eqb_neq in Ez. apply zprod_nonzero in Ez. rewrite Forall_forall in Ez.
    intros i Li E. destruct (vsub_nth y1 x i Li (Permutation_length P)) as [E1 E2].
    apply (Ez (nth i (vsub y1 x) 0)); [apply nth_In; exact E2 | lia].
Qed.

Theorem random_derangement_ok : forall rounds fuel x tp y tp', bits tp ->
  random_derangement rounds fuel x tp = Some (y, tp') ->
  Permutation y x /\ (forall i, (i < length x)%nat -> nth i y 0 <> nth i x 0).
Proof.
  intros rounds fuel x tp y tp' Htp H. unfold random_derangement in H.
  destruct (derangement_no_fixed_point _ _ _ _ _ _ _ Htp (Permutation_refl x) H) as (P & N & _). split; assumption.
Qed.

(** ** sample (population branch): a sub-selection of the population *)
Theorem sample_pop_subselection : forall fuel pop k tp r tp', (k <= length pop)%nat -> bits tp ->
  sample_pop fuel pop k tp = Some (r, tp') ->
  length r = k /\ exists rest, Permutation (r ++ rest) pop.
Proof.
  intros fuel pop k tp r tp' Lk Htp H. unfold sample_pop in H.
  destruct (shuffle_from fuel k pop tp) as [[x tp1]|] eqn:E; [|discriminate]. injection H as <- <-.
  destruct (shuffle_from_perm _ _ _ _ _ _ Lk Htp E) as [P _].
  split.
  - apply firstn_length_le. rewrite (Permutation_length P). exact Lk.
  - exists (skipn k x). rewrite firstn_skipn. exact P.
Qed.

(** ** choice returns a member *)
Theorem choice_member : forall fuel seq tp v tp', bits tp -> choice fuel seq tp = Some (v, tp') -> In v seq.
Proof.
  intros fuel seq tp v tp' Htp H. unfold choice in H. destruct seq as [|a s]; [discriminate|].
  destruct (random_unit_vector fuel (Z.of_nat (length (a :: s))) tp) as [[u tp1]|] eqn:Eu; [|discriminate].
  injection H as <- <-.
  assert (Hn : 1 <= Z.of_nat (length (a :: s))) by (simpl; lia).
  destruct (unit_vector_onehot _ _ _ _ _ Hn Htp Eu) as (j & Lj & ->). rewrite Nat2Z.id in *.
  rewrite in_prod_comm, in_prod_onehot by exact Lj. apply nth_In. exact Lj.
Qed.

(** ** _randbelow: range *)
Lemma from_bits_app : forall a b, from_bits (a ++ b) = from_bits a + 2 ^ Z.of_nat (length a) * from_bits b.
Proof.
  induction a as [|x a IH]; intros b.
  - simpl. destruct (from_bits b); reflexivity.
  - cbn [app from_bits length]. rewrite IH, Nat2Z.inj_succ, Z.pow_succ_r by lia. ring.
Qed.

Lemma skipn_cons_nth : forall i (x : list Z), (i < length x)%nat -> skipn i x = nth i x 0 :: skipn (S i) x.
Proof.
  induction i as [|i IH]; intros [|b r] L; simpl in L; try lia.
  - reflexivity.
  - change (skipn (S i) (b :: r)) with (skipn i r). change (skipn (S (S i)) (b :: r)) with (skipn (S i) r).
    cbn [nth]. apply IH. lia.
Qed.

Ltac eqb_cases := repeat match goal with
  | |- context [?a =? ?b] => destruct (Z.eqb_spec a b)
  | H : context [?a =? ?b] |- _ => destruct (Z.eqb_spec a b) end.

Lemma rb_loop_inv : forall (b : Z) (k t : nat), 0 <= b -> b < 2 ^ Z.of_nat k -> (1 <= t)%nat ->
  forall fuel x h i tp r tp',
    bits tp -> bits x -> length x = k -> (i <= k)%nat ->
    from_bits (skipn i x) <= b / 2 ^ Z.of_nat i ->
    h = (if from_bits (skipn i x) =? b / 2 ^ Z.of_nat i then 1 else 0) ->
    rb_loop fuel b k t x h i tp = Some (r, tp') ->
    bits r /\ length r = k /\ bits tp' /\
    exists i', (i' < t)%nat /\ (i' <= k)%nat /\ from_bits (skipn i' r) <= b / 2 ^ Z.of_nat i'.
Proof.
  intros b k t Hb Hbk Ht. induction fuel as [|fuel IH]; intros x h i tp r tp' Htp Hx Lx Lik Hhi Hh H; [discriminate|].
  cbn [rb_loop] in H. destruct (i <? t)%nat eqn:Eit.
  - injection H as <- <-. apply Nat.ltb_lt in Eit. repeat split; try assumption. exists i. repeat split; assumption.
  - apply Nat.ltb_ge in Eit. destruct i as [|i']; [lia|].
    replace (S i' - 1)%nat with i' in H by lia.
    pose proof (bits_nth x i' Hx) as Hc. pose proof (shift_bit b i' Hb) as Hs.
    assert (Esk : skipn i' x = nth i' x 0 :: skipn (S i') x) by (apply skipn_cons_nth; lia).
    assert (Efb : from_bits (skipn i' x) = nth i' x 0 + 2 * from_bits (skipn (S i') x)) by (rewrite Esk; reflexivity).
    set (xi := nth i' x 0) in *. set (hi := from_bits (skipn (S i') x)) in *.
    set (B := b / 2 ^ Z.of_nat (S i')) in *. set (B' := b / 2 ^ Z.of_nat i') in *.
    destruct (Z.testbit b (Z.of_nat i')) eqn:Eb.
    + apply (IH _ _ _ _ _ _ Htp Hx Lx) in H; [exact H | lia | | ].
      * rewrite Efb. destruct Hc as [E | E]; rewrite E; lia.
      * rewrite Efb, Hh. destruct Hc as [E | E]; rewrite E; eqb_cases; lia.
    + destruct (h * xi =? 0) eqn:Ez.
      * apply Z.eqb_eq in Ez.
        apply (IH _ _ _ _ _ _ Htp Hx Lx) in H; [exact H | lia | | ].
        -- rewrite Efb. rewrite Hh in Ez. destruct Hc as [E | E]; rewrite E in *; eqb_cases; lia.
        -- rewrite Efb. rewrite Hh in Ez |- *. destruct Hc as [E | E]; rewrite E in *; eqb_cases; lia.
      * apply Z.eqb_neq in Ez.
        destruct (draw (k - i') tp) as [[nb tp1]|] eqn:Ed; [|discriminate].
        destruct (draw_bits _ _ _ _ Htp Ed) as [Hnb Htp1]. apply draw_spec in Ed. destruct Ed as (_ & _ & Lnb).
        assert (Hx' : bits (firstn i' x ++ nb)) by (apply bits_app; split; [apply bits_firstn; exact Hx | exact Hnb]).
        assert (Lx' : length (firstn i' x ++ nb) = k) by (rewrite app_length, firstn_length_le by lia; lia).
        assert (Esk0 : skipn k (firstn i' x ++ nb) = []) by (apply skipn_all2; lia).
        assert (Ediv : b / 2 ^ Z.of_nat k = 0) by (apply Z.div_small; lia).
        apply (IH _ _ _ _ _ _ Htp1 Hx' Lx') in H; [exact H | lia | | ].
        -- rewrite Esk0, Ediv. simpl. lia.
        -- rewrite Esk0, Ediv. simpl. rewrite Hh in Ez |- *. eqb_cases; lia.
Qed.

(** accepted bit strings encode a value <= b, provided the loop ran down to a bit position i' with 2^i' | b+1 *)
Lemma accept_le : forall b i' r, 0 <= b -> bits r -> (i' <= length r)%nat ->
  (2 ^ Z.of_nat i' | b + 1) -> from_bits (skipn i' r) <= b / 2 ^ Z.of_nat i' -> from_bits r <= b.
Proof.
  intros b i' r Hb Hr Li [q Hq] Hle.
  rewrite <- (firstn_skipn i' r), from_bits_app, firstn_length_le by exact Li.
  pose proof (from_bits_bound (firstn i' r) (bits_firstn i' r Hr)) as Hlo. rewrite firstn_length_le in Hlo by exact Li.
  assert (P : 0 < 2 ^ Z.of_nat i') by (apply Z.pow_pos_nonneg; lia).
  set (W := 2 ^ Z.of_nat i') in *. set (hi := from_bits (skipn i' r)) in *. set (lo := from_bits (firstn i' r)) in *.
  assert (EB : b / W = q - 1).
  { symmetry. apply Z.div_unique with (r := W - 1); [left; lia | nia]. }
  rewrite EB in Hle. clearbody W hi lo. nia.
Qed.

(** t = (n & -n).bit_length() - 1 is a bit position with 2^t | n *)
Lemma lowbit_divides : forall n, 1 <= n ->
  let g := Z.land n (- n) in 0 < g /\ (2 ^ Z.log2 g | n).
Proof.
  intros n Hn g.
  assert (G0 : 0 <= g) by (apply Z.land_nonneg; left; lia).
  assert (Gnz : g <> 0).
  { intros E. unfold g in E. pose proof (Z.add_nocarry_lxor n (- n) E) as A.
    replace (n + - n) with 0 in A by lia. symmetry in A. apply Z.lxor_eq in A. lia. }
  split; [lia|].
  set (L := Z.log2 g). assert (L0 : 0 <= L) by apply Z.log2_nonneg.
  assert (TB : Z.testbit g L = true) by (apply Z.bit_log2; lia).
  unfold g in TB. rewrite Z.land_spec in TB. apply andb_prop in TB. destruct TB as [T1 T2].
  replace (- n) with (Z.lnot (n - 1)) in T2 by (unfold Z.lnot; lia).
  rewrite Z.lnot_spec in T2 by lia. apply negb_true_iff in T2.
  apply Z.testbit_true in T1; [|lia]. apply Z.testbit_false in T2; [|lia].
  assert (P : 0 < 2 ^ L) by (apply Z.pow_pos_nonneg; lia).
  set (W := 2 ^ L) in *.
  exists (n / W).
  destruct (Z.eq_dec (n mod W) 0) as [E|E].
  - pose proof (Z.div_mod n W ltac:(lia)). lia.
  - exfalso.
    assert (D : (n - 1) / W = n / W).
    { symmetry. apply Z.div_unique with (r := n mod W - 1).
      - left. pose proof (Z.mod_pos_bound n W P). lia.
      - pose proof (Z.div_mod n W ltac:(lia)). lia. }
    rewrite D in T2. lia.
Qed.

Lemma pow2_fast_path : forall n, 1 <= n -> Z.land n (n - 1) = 0 -> 2 ^ Z.of_nat (bit_length (n - 1)) <= n.
Proof.
  intros n Hn E. set (L := Z.log2 n). assert (L0 : 0 <= L) by apply Z.log2_nonneg.
  destruct (Z.log2_spec n ltac:(lia)) as [S1 S2]. fold L in S1, S2.
  destruct (Z.eq_dec n (2 ^ L)) as [EQ | NE].
  - unfold bit_length. destruct (n - 1 =? 0) eqn:E0; [simpl; lia|].
    apply Z.eqb_neq in E0. rewrite Z.abs_eq by lia.
    assert (Lp : 0 < L). { destruct (Z.eq_dec L 0) as [Z0|]; [rewrite Z0 in EQ; simpl in EQ; lia | lia]. }
    replace (n - 1) with (Z.pred (2 ^ L)) by lia. rewrite Z.log2_pred_pow2 by lia.
    rewrite Z2Nat.id by lia. replace (Z.pred L + 1) with L by lia. lia.
  - exfalso.
    assert (T1 : Z.testbit n L = true) by (apply Z.bit_log2; lia).
    assert (L' : Z.log2 (n - 1) = L) by (apply Z.log2_unique; [lia | split; lia]).
    assert (T2 : Z.testbit (n - 1) L = true) by (rewrite <- L'; apply Z.bit_log2; lia).
    assert (T : Z.testbit (Z.land n (n - 1)) L = true) by (rewrite Z.land_spec, T1, T2; reflexivity).
    rewrite E, Z.bits_0 in T. discriminate.
Qed.

Theorem randbelow_bits_range : forall fuel n tp x tp', 1 <= n -> bits tp ->
  randbelow_bits fuel n tp = Some (x, tp') ->
  bits x /\ length x = bit_length (n - 1) /\ 0 <= from_bits x < n /\ bits tp'.
Proof.
  intros fuel n tp x tp' Hn Htp H. unfold randbelow_bits in H.
  destruct (Z.land n (n - 1) =? 0) eqn:Ep.
  - apply Z.eqb_eq in Ep. destruct (draw_bits _ _ _ _ Htp H) as [Hx Ht]. apply draw_spec in H.
    destruct H as (_ & _ & L). repeat split; try assumption.
    + apply from_bits_bound. exact Hx.
    + pose proof (from_bits_bound x Hx) as B. rewrite L in B. pose proof (pow2_fast_path n Hn Ep). lia.
  - destruct (draw (bit_length (n - 1)) tp) as [[x0 tp1]|] eqn:Ed; [|discriminate].
    destruct (draw_bits _ _ _ _ Htp Ed) as [Hx0 Htp1]. apply draw_spec in Ed. destruct Ed as (_ & _ & L0).
    destruct (lowbit_divides n Hn) as [Gp Gd]. set (g := Z.land n (- n)) in *.
    set (k := bit_length (n - 1)) in *. set (t := bit_length g) in *.
    assert (Hn1 : 1 <= n - 1).
    { destruct (Z.eq_dec n 1) as [->|]; [simpl in Ep; discriminate | lia]. }
    destruct (bit_length_pos (n - 1) Hn1) as (K1 & _ & K3). fold k in K1, K3.
    assert (Tt : Z.of_nat t = Z.log2 g + 1).
    { unfold t, bit_length. destruct (g =? 0) eqn:E0; [lia|]. rewrite Z.abs_eq by lia.
      pose proof (Z.log2_nonneg g). lia. }
    assert (T1 : (1 <= t)%nat) by (pose proof (Z.log2_nonneg g); lia).
    apply (rb_loop_inv (n - 1) k t ltac:(lia) K3 T1) in H; try assumption; try lia.
    + destruct H as (Hr & Lr & Ht & i' & Li & Lik & Hle). repeat split; try assumption.
      * apply from_bits_bound. exact Hr.
      * assert (Dv : (2 ^ Z.of_nat i' | n - 1 + 1)).
        { replace (n - 1 + 1) with n by lia. apply Z.divide_trans with (2 ^ Z.log2 g); [|exact Gd].
          exists (2 ^ (Z.log2 g - Z.of_nat i')). rewrite <- Z.pow_add_r by lia. f_equal. lia. }
        pose proof (accept_le (n - 1) i' x ltac:(lia) Hr ltac:(lia) Dv Hle). lia.
    + rewrite skipn_all2 by lia. simpl. rewrite Z.div_small by lia. lia.
    + rewrite skipn_all2 by lia. simpl. rewrite Z.div_small by lia. reflexivity.
Qed.

Theorem randbelow_range : forall fuel n tp v tp', 1 <= n -> bits tp ->
  randbelow fuel n tp = Some (v, tp') -> 0 <= v < n /\ bits tp'.
Proof.
  intros fuel n tp v tp' Hn Htp H. unfold randbelow in H.
  destruct (randbelow_bits fuel n tp) as [[x tp1]|] eqn:E; [|discriminate]. injection H as <- <-.
  destruct (randbelow_bits_range _ _ _ _ _ Hn Htp E) as (_ & _ & R & T). split; assumption.
Qed.

(** randrange / randint: on the lattice start + r*step with 0 <= r < len(range(start, stop, step)) *)
Theorem randrange_lattice : forall fuel start stop step tp v tp', bits tp ->
  randrange fuel start stop step tp = Some (v, tp') ->
  exists r, 0 <= r < range_len start stop step /\ v = start + r * step.
Proof.
  intros fuel start stop step tp v tp' Htp H. unfold randrange in H.
  destruct (range_len start stop step =? 0) eqn:E0; [discriminate|]. apply Z.eqb_neq in E0.
  destruct (randbelow fuel (range_len start stop step) tp) as [[r tp1]|] eqn:E; [|discriminate]. injection H as <- <-.
  assert (Hn : 1 <= range_len start stop step).
  { unfold range_len in *. destruct (0 <? step); [lia|]. destruct (step <? 0); lia. }
  destruct (randbelow_range _ _ _ _ _ Hn Htp E) as [R _]. exists r. split; [exact R | reflexivity].
Qed.

(** for step > 0 the lattice points lie in [start, stop) *)
Theorem randrange_within : forall fuel start stop step tp v tp', bits tp -> 0 < step ->
  randrange fuel start stop step tp = Some (v, tp') -> start <= v < stop /\ (step | v - start).
Proof.
  intros fuel start stop step tp v tp' Htp Hs H.
  destruct (randrange_lattice _ _ _ _ _ _ _ Htp H) as (r & [R0 R1] & ->).
  unfold range_len in R1. assert (E : (0 <? step) = true) by (apply Z.ltb_lt; exact Hs). rewrite E in R1.
  split; [|exists r; ring].
  assert (Hr : r < (stop - start + step - 1) / step) by lia.
  pose proof (Z.div_mod (stop - start + step - 1) step ltac:(lia)) as D.
  pose proof (Z.mod_pos_bound (stop - start + step - 1) step Hs) as B.
  set (q := (stop - start + step - 1) / step) in *. set (m := (stop - start + step - 1) mod step) in *.
  clearbody q m. split; nia.
Qed.

(** uniform (scaled integers): a <= N <= b for a <= b (N = a when a = b), and N < b when a < b *)
Theorem uniform_within : forall fuel a b tp v tp', bits tp -> a <= b ->
  uniform_fxp fuel a b tp = Some (v, tp') -> a <= v <= b /\ (a < b -> v < b).
Proof.
  intros fuel a b tp v tp' Htp Hab H. unfold uniform_fxp in H.
  destruct (Z.abs (a - b) =? 0) eqn:E0.
  - injection H as <- <-. apply Z.eqb_eq in E0. lia.
  - apply Z.eqb_neq in E0.
    destruct (randbelow fuel (Z.abs (a - b)) tp) as [[r tp1]|] eqn:E; [|discriminate]. injection H as <- <-.
    assert (Hn : 1 <= Z.abs (a - b)) by lia.
    destruct (randbelow_range _ _ _ _ _ Hn Htp E) as [R _].
    assert (S : (b - a <? 0) = false) by (apply Z.ltb_ge; lia). rewrite S. lia.
Qed.

(** the mirrored case b < a: b < N <= a *)
Theorem uniform_within_rev : forall fuel a b tp v tp', bits tp -> b < a ->
  uniform_fxp fuel a b tp = Some (v, tp') -> b < v <= a.
Proof.
  intros fuel a b tp v tp' Htp Hab H. unfold uniform_fxp in H.
  destruct (Z.abs (a - b) =? 0) eqn:E0; [apply Z.eqb_eq in E0; lia|].
  destruct (randbelow fuel (Z.abs (a - b)) tp) as [[r tp1]|] eqn:E; [|discriminate]. injection H as <- <-.
  assert (Hn : 1 <= Z.abs (a - b)) by lia.
  destruct (randbelow_range _ _ _ _ _ Hn Htp E) as [R _].
  assert (S : (b - a <? 0) = true) by (apply Z.ltb_lt; lia). rewrite S. lia.
Qed.

(** ** weighted choices: the result is a member of the population *)
Fixpoint nondecr (p : Z) (l : list Z) : Prop :=
  match l with [] => True | a :: r => p <= a /\ nondecr a r end.

Lemma diffs_unit : forall r cws p, nondecr p cws ->
  let h := map (fun a => b2z (r <? a)) cws in
  let u := vsub (h ++ [1]) (b2z (r <? p) :: h) in
  bits u /\ zsum u = 1 - b2z (r <? p) /\ length u = S (length cws).
Proof.
  intros r. induction cws as [|a cws IH]; intros p Hnd; cbn zeta.
  - cbn. split; [|split; [|reflexivity]].
    + constructor; [|constructor]. destruct (r <? p); [left | right]; reflexivity.
    + destruct (r <? p); reflexivity.
  - destruct Hnd as [Hpa Hnd]. specialize (IH a Hnd). cbn zeta in IH. destruct IH as (B & S & L).
    cbn [map app vsub]. split; [|split].
    + constructor; [|exact B].
      destruct (r <? p) eqn:E1; destruct (r <? a) eqn:E2; cbn; try (left; reflexivity); try (right; reflexivity).
      apply Z.ltb_lt in E1. apply Z.ltb_ge in E2. lia.
    + cbn [zsum fold_right]. fold (zsum (vsub (map (fun a0 => b2z (r <? a0)) cws ++ [1])
                                           (b2z (r <? a) :: map (fun a0 => b2z (r <? a0)) cws))).
      rewrite S. lia.
    + cbn [length]. rewrite L. reflexivity.
Qed.

Lemma nondecr_removelast : forall l p, nondecr p l -> nondecr p (removelast l).
Proof.
  induction l as [|a l IH]; intros p H; [exact I|]. destruct H as [H1 H2].
  cbn [removelast]. destruct l as [|b l]; [exact I|]. split; [exact H1 | apply IH; exact H2].
Qed.

Lemma removelast_len : forall (l : list Z), l <> [] -> S (length (removelast l)) = length l.
Proof.
  induction l as [|a l IH]; intros H; [congruence|]. cbn [removelast]. destruct l as [|b l]; [reflexivity|].
  cbn [length]. f_equal. apply IH. discriminate.
Qed.

Theorem weighted_choice_member : forall fuel cw pop tp v tp', bits tp ->
  cw <> [] -> length cw = length pop -> nondecr 0 cw -> 1 <= last cw 0 ->
  weighted_choice fuel cw pop tp = Some (v, tp') -> In v pop /\ bits tp'.
Proof.
  intros fuel cw pop tp v tp' Htp Hne Hlen Hnd Hlast H. unfold weighted_choice in H.
  destruct (randbelow fuel (last cw 0) tp) as [[r tp1]|] eqn:E; [|discriminate]. injection H as <- <-.
  destruct (randbelow_range _ _ _ _ _ Hlast Htp E) as [R Ht]. split; [|exact Ht].
  pose proof (diffs_unit r (removelast cw) 0 (nondecr_removelast _ _ Hnd)) as D. cbn zeta in D.
  assert (E0 : (r <? 0) = false) by (apply Z.ltb_ge; lia). rewrite E0 in D. cbn [b2z] in D.
  destruct D as (B & S & L). rewrite removelast_len in L by exact Hne.
  match type of B with bits ?u => assert (U : unitv u) by (split; [exact B | lia]) end.
  destruct (unitv_onehot _ U) as (j & Lj & Eu). rewrite Eu.
  rewrite L, Hlen in Lj. rewrite in_prod_comm, in_prod_onehot by exact Lj. apply nth_In. exact Lj.
Qed.

Lemma repeat_draw_forall : forall {A} (f : tape -> option (A * tape)) (P : A -> Prop),
  (forall tp a tp', bits tp -> f tp = Some (a, tp') -> P a /\ bits tp') ->
  forall k tp r tp', bits tp -> repeat_draw f k tp = Some (r, tp') -> Forall P r /\ bits tp'.
Proof.
  intros A f P Hf. induction k as [|k IH]; intros tp r tp' Htp H; cbn [repeat_draw] in H.
  - injection H as <- <-. split; [constructor | exact Htp].
  - destruct (f tp) as [[a tp1]|] eqn:E; [|discriminate].
    destruct (repeat_draw f k tp1) as [[r1 tp2]|] eqn:E2; [|discriminate]. injection H as <- <-.
    destruct (Hf _ _ _ Htp E) as [Pa Ht1]. destruct (IH _ _ _ Ht1 E2) as [Pr Ht2].
    split; [constructor; assumption | exact Ht2].
Qed.

Lemma gcd_list_divides : forall l a, In a l -> (gcd_list l | a).
Proof.
  induction l as [|b l IH]; intros a H; [destruct H|]. cbn [gcd_list fold_right]. destruct H as [-> | H].
  - apply Z.gcd_divide_l.
  - eapply Z.divide_trans; [apply Z.gcd_divide_r | apply IH; exact H].
Qed.

Lemma gcd_list_nonneg : forall l, 0 <= gcd_list l.
Proof. destruct l; cbn; [lia | apply Z.gcd_nonneg]. Qed.

Lemma nondecr_div : forall g l p, 0 < g -> nondecr p l -> nondecr (p / g) (map (fun a => a / g) l).
Proof.
  intros g. induction l as [|a l IH]; intros p Hg H; [exact I|]. destruct H as [H1 H2].
  cbn [map nondecr]. split; [apply Z.div_le_mono; lia | apply IH; assumption].
Qed.

Lemma last_map_div : forall g l, last (map (fun a => a / g) l) 0 = last l 0 / g.
Proof.
  intros g. induction l as [|a l IH]; [cbn; destruct g; reflexivity|]. destruct l as [|b l]; [reflexivity|].
  change (last (map (fun a0 => a0 / g) (a :: b :: l)) 0) with (last (map (fun a0 => a0 / g) (b :: l)) 0).
  rewrite IH. reflexivity.
Qed.

Lemma last_in : forall (l : list Z), l <> [] -> In (last l 0) l.
Proof.
  induction l as [|a l IH]; intros H; [congruence|]. destruct l as [|b l]; [left; reflexivity|].
  right. apply IH. discriminate.
Qed.

(** choices(population, cum_weights=cum, k): every returned element is a member of the population, for
    nondecreasing nonnegative integer cumulative weights with positive total *)
Theorem choices_cum_member : forall fuel pop cum k tp r tp', bits tp ->
  cum <> [] -> length cum = length pop -> nondecr 0 cum -> 0 < last cum 0 ->
  choices_cum fuel pop cum k tp = Some (r, tp') -> Forall (fun v => In v pop) r.
Proof.
  intros fuel pop cum k tp r tp' Htp Hne Hlen Hnd Hlast H. unfold choices_cum in H.
  set (g := gcd_list cum) in *.
  assert (Hd : (g | last cum 0)) by (apply gcd_list_divides; apply last_in; exact Hne).
  assert (Hg : 0 < g).
  { pose proof (gcd_list_nonneg cum). fold g in H0. destruct (Z.eq_dec g 0) as [E|]; [|lia].
    destruct Hd as [q Hq]. rewrite E in Hq. lia. }
  apply (repeat_draw_forall _ (fun v => In v pop)) in H; [tauto | | exact Htp].
  intros tp0 a tp0' Ht0 Hw.
  apply (weighted_choice_member _ _ _ _ _ _ Ht0) in Hw; [exact Hw | | | | ].
  - destruct cum; [congruence | discriminate].
  - rewrite map_length. exact Hlen.
  - pose proof (nondecr_div g cum 0 Hg Hnd) as N. rewrite Z.div_0_l in N by lia. exact N.
  - rewrite last_map_div. destruct Hd as [q Hq]. rewrite Hq, Z.div_mul by lia. nia.
Qed.

Lemma nondecr_accumulate : forall w acc, Forall (fun a => 0 <= a) w -> nondecr acc (accumulate acc w).
Proof.
  induction w as [|a w IH]; intros acc H; [exact I|]. inversion H as [|? ? Ha Hw]; subst.
  cbn [accumulate nondecr]. split; [lia | apply IH; exact Hw].
Qed.

Lemma accumulate_length : forall w acc, length (accumulate acc w) = length w.
Proof. induction w as [|a w IH]; intros acc; cbn; [reflexivity | rewrite IH; reflexivity]. Qed.

(** choices(population, weights=w, k): nonnegative integer weights with positive total *)
Theorem choices_weights_member : forall fuel pop w k tp r tp', bits tp ->
  w <> [] -> length w = length pop -> Forall (fun a => 0 <= a) w -> 0 < last (accumulate 0 w) 0 ->
  choices_weights fuel pop w k tp = Some (r, tp') -> Forall (fun v => In v pop) r.
Proof.
  intros fuel pop w k tp r tp' Htp Hne Hlen Hw Hlast H. unfold choices_weights in H.
  apply (choices_cum_member _ _ _ _ _ _ _ Htp) in H; [exact H | | | | exact Hlast].
  - destruct w; [congruence | discriminate].
  - rewrite accumulate_length. exact Hlen.
  - apply nondecr_accumulate. exact Hw.
Qed.

(** ** the rejecting pass does not look at the bits it retains *)
(** a rejection is decided by the bits at and above the rejection position only: the retained low bits x[:j]
    are not inspected by the pass (any x' agreeing with x from position j upwards is rejected at the same j),
    so the bits kept by the restart are unconstrained by the decision. *)
Lemma rb_pass_pos : forall b t, (1 <= t)%nat -> forall steps x h i j,
  rb_pass b t x h steps i = Some j -> (j < i)%nat.
Proof.
  intros b t Ht. induction steps as [|s IH]; intros x h i j H; [discriminate|].
  cbn [rb_pass] in H. destruct (i <? t)%nat eqn:E; [discriminate|]. apply Nat.ltb_ge in E.
  destruct (Z.testbit b (Z.of_nat (i - 1))).
  - apply IH in H. lia.
  - destruct (h * nth (i - 1) x 0 =? 0).
    + apply IH in H. lia.
    + injection H as <-. lia.
Qed.

Theorem rb_pass_ignores_low_bits : forall b t, (1 <= t)%nat -> forall steps x x' h i j,
  rb_pass b t x h steps i = Some j ->
  (forall m, (j <= m)%nat -> nth m x' 0 = nth m x 0) ->
  rb_pass b t x' h steps i = Some j.
Proof.
  intros b t Ht. induction steps as [|s IH]; intros x x' h i j H Hn; [discriminate|].
  pose proof (rb_pass_pos b t Ht _ _ _ _ _ H) as Lj.
  cbn [rb_pass] in *. destruct (i <? t)%nat; [discriminate|].
  rewrite (Hn (i - 1)%nat) by lia.
  destruct (Z.testbit b (Z.of_nat (i - 1))).
  - apply (IH x); assumption.
  - destruct (h * nth (i - 1) x 0 =? 0).
    + apply (IH x); assumption.
    + exact H.
Qed.

(** * General one-pass kernel and uniformity by counting (all n >= 1) *)

(** ** bits <-> numbers: [tape_of k] and [from_bits] are inverse bijections between k-bit lists and [0, 2^k) *)
Lemma tape_of_length : forall k v, length (tape_of k v) = k.
Proof. induction k as [|k IH]; intros v; cbn [tape_of length]; [reflexivity | rewrite IH; reflexivity]. Qed.

Lemma tape_of_bits : forall k v, bits (tape_of k v).
Proof.
  induction k as [|k IH]; intros v; cbn [tape_of]; constructor; [|apply IH].
  pose proof (Z.mod_pos_bound v 2 ltac:(lia)) as B. unfold is01. lia.
Qed.

Lemma from_tape_of : forall k v, 0 <= v < 2 ^ Z.of_nat k -> from_bits (tape_of k v) = v.
Proof.
  induction k as [|k IH]; intros v Hv.
  - cbn in *. lia.
  - rewrite Nat2Z.inj_succ, Z.pow_succ_r in Hv by lia. cbn [tape_of from_bits].
    rewrite IH by lia. lia.
Qed.

Lemma tape_of_from : forall x, bits x -> tape_of (length x) (from_bits x) = x.
Proof.
  induction x as [|a x IH]; intros H; [reflexivity|].
  inversion H as [|? ? Ha Hx]; subst. cbn [length tape_of from_bits].
  assert (E1 : (a + 2 * from_bits x) mod 2 = a) by (destruct Ha as [-> | ->]; lia).
  assert (E2 : (a + 2 * from_bits x) / 2 = from_bits x) by (destruct Ha as [-> | ->]; lia).
  rewrite E1, E2, IH by exact Hx. reflexivity.
Qed.

Theorem bits_value_bijection : forall k : nat,
  (forall x, bits x -> length x = k -> 0 <= from_bits x < 2 ^ Z.of_nat k /\ tape_of k (from_bits x) = x) /\
  (forall v, 0 <= v < 2 ^ Z.of_nat k ->
     bits (tape_of k v) /\ length (tape_of k v) = k /\ from_bits (tape_of k v) = v).
Proof.
  intros k. split.
  - intros x Hx L. split; [rewrite <- L; apply from_bits_bound; exact Hx | rewrite <- L; apply tape_of_from; exact Hx].
  - intros v Hv. split; [apply tape_of_bits | split; [apply tape_of_length | apply from_tape_of; exact Hv]].
Qed.

Lemma from_bits_inj : forall x y, bits x -> bits y -> length x = length y -> from_bits x = from_bits y -> x = y.
Proof.
  intros x y Hx Hy L E. rewrite <- (tape_of_from x Hx), <- (tape_of_from y Hy), L, E. reflexivity.
Qed.

(** ** the loop is: run one pass ([rb_pass]); on rejection at j keep x[:j], draw k-j bits, start again *)
Lemma is01_mul : forall a b, is01 a -> is01 b -> is01 (a * b).
Proof. intros a b [-> | ->] [-> | ->]; cbv; auto. Qed.

Lemma rb_loop_unfold : forall (b : Z) (k t : nat), (1 <= t)%nat ->
  forall fuel x h i tp, bits x -> is01 h -> (i < fuel)%nat ->
    rb_loop fuel b k t x h i tp =
    match rb_pass b t x h (S i) i with
    | None => Some (x, tp)
    | Some j => match draw (k - j) tp with
                | None => None
                | Some (nb, tp') => rb_loop (fuel - (i - j)) b k t (firstn j x ++ nb) 1 k tp'
                end
    end.
Proof.
  intros b k t Ht. induction fuel as [|f IH]; intros x h i tp Hx Hh Hi; [lia|].
  cbn [rb_loop rb_pass]. destruct (i <? t)%nat eqn:Eit; [reflexivity|].
  apply Nat.ltb_ge in Eit. destruct i as [|i']; [lia|].
  replace (S i' - 1)%nat with i' by lia.
  pose proof (bits_nth x i' Hx) as Hc.
  destruct (Z.testbit b (Z.of_nat i')) eqn:Eb.
  - rewrite (IH x (h * nth i' x 0) i' tp Hx (is01_mul _ _ Hh Hc) ltac:(lia)).
    destruct (rb_pass b t x (h * nth i' x 0) (S i') i') as [j|] eqn:Ep; [|reflexivity].
    pose proof (rb_pass_pos b t Ht _ _ _ _ _ Ep) as Lj.
    replace (S f - (S i' - j))%nat with (f - (i' - j))%nat by lia. reflexivity.
  - destruct (h * nth i' x 0 =? 0) eqn:Ez.
    + rewrite (IH x h i' tp Hx Hh ltac:(lia)).
      destruct (rb_pass b t x h (S i') i') as [j|] eqn:Ep; [|reflexivity].
      pose proof (rb_pass_pos b t Ht _ _ _ _ _ Ep) as Lj.
      replace (S f - (S i' - j))%nat with (f - (i' - j))%nat by lia. reflexivity.
    + apply Z.eqb_neq in Ez.
      assert (H1 : h = 1) by (destruct Hh as [-> | ->]; [lia | reflexivity]).
      replace (S f - (S i' - i'))%nat with f by lia. rewrite H1. reflexivity.
Qed.

(** ** a pass accepts iff the register value is <= b *)
Lemma reject_gt : forall b i x, 0 <= b -> bits x -> (i <= length x)%nat ->
  b / 2 ^ Z.of_nat i < from_bits (skipn i x) -> b < from_bits x.
Proof.
  intros b i x Hb Hx Li H.
  rewrite <- (firstn_skipn i x), from_bits_app, firstn_length_le by exact Li.
  pose proof (from_bits_bound (firstn i x) (bits_firstn i x Hx)) as Hlo.
  assert (P : 0 < 2 ^ Z.of_nat i) by (apply Z.pow_pos_nonneg; lia).
  set (W := 2 ^ Z.of_nat i) in *. set (hi := from_bits (skipn i x)) in *. set (lo := from_bits (firstn i x)) in *.
  pose proof (Z.div_mod b W ltac:(lia)) as D. pose proof (Z.mod_pos_bound b W P) as M.
  set (q := b / W) in *. set (m := b mod W) in *. clearbody W hi lo q m. nia.
Qed.

Lemma rb_pass_S : forall b t x h s i,
  rb_pass b t x h (S s) i =
  if (i <? t)%nat then None
  else if Z.testbit b (Z.of_nat (i - 1)) then rb_pass b t x (h * nth (i - 1) x 0) s (i - 1)
       else if h * nth (i - 1) x 0 =? 0 then rb_pass b t x h s (i - 1) else Some (i - 1)%nat.
Proof. reflexivity. Qed.

Lemma rb_pass_decides : forall (b : Z) (k t : nat), 0 <= b -> (1 <= t)%nat ->
  (2 ^ Z.of_nat (t - 1) | b + 1) ->
  forall i x h, bits x -> length x = k -> (i <= k)%nat ->
    from_bits (skipn i x) <= b / 2 ^ Z.of_nat i ->
    h = (if from_bits (skipn i x) =? b / 2 ^ Z.of_nat i then 1 else 0) ->
    match rb_pass b t x h (S i) i with
    | None => from_bits x <= b
    | Some j => b < from_bits x /\ (j < i)%nat
    end.
Proof.
  intros b k t Hb Ht Hdiv. induction i as [|i' IH]; intros x h Hx Lx Lik Hhi Hh.
  - cbn [rb_pass]. assert (E : (0 <? t)%nat = true) by (apply Nat.ltb_lt; lia). rewrite E.
    cbn in Hhi. rewrite Z.div_1_r in Hhi. exact Hhi.
  - rewrite rb_pass_S. destruct (S i' <? t)%nat eqn:Eit.
    + apply Nat.ltb_lt in Eit.
      apply (accept_le b (S i') x Hb Hx ltac:(lia)); [|exact Hhi].
      apply Z.divide_trans with (2 ^ Z.of_nat (t - 1)); [|exact Hdiv].
      exists (2 ^ (Z.of_nat (t - 1) - Z.of_nat (S i'))). rewrite <- Z.pow_add_r by lia. f_equal. lia.
    + apply Nat.ltb_ge in Eit. replace (S i' - 1)%nat with i' by lia.
      pose proof (bits_nth x i' Hx) as Hc. pose proof (shift_bit b i' Hb) as Hs.
      assert (Esk : skipn i' x = nth i' x 0 :: skipn (S i') x) by (apply skipn_cons_nth; lia).
      assert (Efb : from_bits (skipn i' x) = nth i' x 0 + 2 * from_bits (skipn (S i') x)) by (rewrite Esk; reflexivity).
      set (xi := nth i' x 0) in *. set (hi := from_bits (skipn (S i') x)) in *.
      set (B := b / 2 ^ Z.of_nat (S i')) in *. set (B' := b / 2 ^ Z.of_nat i') in *.
      assert (Li' : (i' <= k)%nat) by lia.
      destruct (Z.testbit b (Z.of_nat i')) eqn:Eb.
      * assert (P1 : from_bits (skipn i' x) <= B') by (rewrite Efb; destruct Hc as [E | E]; rewrite E; lia).
        assert (P2 : h * xi = (if from_bits (skipn i' x) =? B' then 1 else 0))
          by (rewrite Efb, Hh; destruct Hc as [E | E]; rewrite E; eqb_cases; lia).
        specialize (IH x (h * xi) Hx Lx Li' P1 P2).
        revert IH. destruct (rb_pass b t x (h * xi) (S i') i') as [j|]; intros IH; cbv beta iota in IH |- *; [destruct IH as [I1 I2]; split; [exact I1 | lia] | exact IH].
      * destruct (h * xi =? 0) eqn:Ez.
        -- apply Z.eqb_eq in Ez.
           assert (P1 : from_bits (skipn i' x) <= B')
             by (rewrite Efb; rewrite Hh in Ez; destruct Hc as [E | E]; rewrite E in *; eqb_cases; lia).
           assert (P2 : h = (if from_bits (skipn i' x) =? B' then 1 else 0))
             by (rewrite Efb; rewrite Hh in Ez |- *; destruct Hc as [E | E]; rewrite E in *; eqb_cases; lia).
           specialize (IH x h Hx Lx Li' P1 P2).
           revert IH. destruct (rb_pass b t x h (S i') i') as [j|]; intros IH; cbv beta iota in IH |- *; [destruct IH as [I1 I2]; split; [exact I1 | lia] | exact IH].
        -- apply Z.eqb_neq in Ez. split; [|lia].
           apply (reject_gt b i' x Hb Hx ltac:(lia)). fold B'. rewrite Efb.
           rewrite Hh in Ez. destruct Hc as [E | E]; rewrite E in *; eqb_cases; lia.
Qed.

Lemma firstn_app_exact : forall (x r : list Z), firstn (length x) (x ++ r) = x.
Proof. induction x as [|a x IH]; intros r; cbn [length app firstn]; [reflexivity | rewrite IH; reflexivity]. Qed.

Lemma skipn_app_exact : forall (x r : list Z), skipn (length x) (x ++ r) = r.
Proof. induction x as [|a x IH]; intros r; cbn [length app skipn]; [reflexivity | apply IH]. Qed.

Lemma draw_exact : forall x rest, draw (length x) (x ++ rest) = Some (x, rest).
Proof.
  intros x rest. unfold draw.
  assert (E : (length (x ++ rest) <? length x)%nat = false) by (apply Nat.ltb_ge; rewrite app_length; lia).
  rewrite E, firstn_app_exact, skipn_app_exact. reflexivity.
Qed.

Lemma draw_empty : forall m, (1 <= m)%nat -> draw m [] = None.
Proof. intros m H. unfold draw. assert (E : (length (@nil Z) <? m)%nat = true) by (apply Nat.ltb_lt; simpl; lia). rewrite E. reflexivity. Qed.

(** the loop parameters exactly as random.py computes them *)
Definition rb_k (n : Z) : nat := bit_length (n - 1).
Definition rb_t (n : Z) : nat := bit_length (Z.land n (- n)).

Lemma rb_params : forall n, 2 <= n ->
  0 <= n - 1 /\ n - 1 < 2 ^ Z.of_nat (rb_k n) /\ (1 <= rb_k n)%nat /\ (1 <= rb_t n)%nat /\
  (2 ^ Z.of_nat (rb_t n - 1) | n - 1 + 1).
Proof.
  intros n Hn. destruct (bit_length_pos (n - 1) ltac:(lia)) as (K1 & _ & K3).
  destruct (lowbit_divides n ltac:(lia)) as [Gp Gd]. unfold rb_k, rb_t.
  set (g := Z.land n (- n)) in *. pose proof (Z.log2_nonneg g) as L0.
  assert (Tt : Z.of_nat (bit_length g) = Z.log2 g + 1).
  { unfold bit_length. destruct (g =? 0) eqn:E0; [lia|]. rewrite Z.abs_eq by lia. lia. }
  repeat split; try lia; try assumption.
  replace (n - 1 + 1) with n by lia. replace (Z.of_nat (bit_length g - 1)) with (Z.log2 g) by lia. exact Gd.
Qed.

Lemma n_le_pow_k : forall n, 1 <= n -> n <= 2 ^ Z.of_nat (rb_k n).
Proof.
  intros n Hn. destruct (Z.eq_dec n 1) as [-> | Ne]; [cbn; lia|].
  destruct (rb_params n ltac:(lia)) as (_ & K & _). lia.
Qed.

(** (3) ANY pass, any remaining tape: from the state at the start of a pass (register x of k bits, h = 1, i = k)
    the loop returns x iff value(x) < n; otherwise the pass rejects at the position j given by [rb_pass], keeps
    x[:j], draws k-j fresh bits and is again at the start of a pass.  (The state after a restart has the same
    form as the initial one, so this is the step of the induction over restarts.) *)
Theorem randbelow_pass_step : forall n fuel x tp, 2 <= n -> bits x -> length x = rb_k n -> (rb_k n < fuel)%nat ->
  rb_loop fuel (n - 1) (rb_k n) (rb_t n) x 1 (rb_k n) tp =
  if from_bits x <? n then Some (x, tp)
  else match rb_pass (n - 1) (rb_t n) x 1 (S (rb_k n)) (rb_k n) with
       | Some j => match draw (rb_k n - j) tp with
                   | None => None
                   | Some (nb, tp') =>
                     rb_loop (fuel - (rb_k n - j)) (n - 1) (rb_k n) (rb_t n) (firstn j x ++ nb) 1 (rb_k n) tp'
                   end
       | None => None
       end.
Proof.
  intros n fuel x tp Hn Hx Lx Hf. destruct (rb_params n Hn) as (B0 & Bk & K1 & T1 & Dv).
  rewrite (rb_loop_unfold (n - 1) (rb_k n) (rb_t n) T1 fuel x 1 (rb_k n) tp Hx (or_intror eq_refl) Hf).
  assert (Esk : skipn (rb_k n) x = []) by (apply skipn_all2; lia).
  assert (Ediv : (n - 1) / 2 ^ Z.of_nat (rb_k n) = 0) by (apply Z.div_small; lia).
  pose proof (rb_pass_decides (n - 1) (rb_k n) (rb_t n) B0 T1 Dv (rb_k n) x 1 Hx Lx (le_n _)) as D.
  rewrite Esk, Ediv in D. specialize (D ltac:(cbn; lia) eq_refl).
  destruct (rb_pass (n - 1) (rb_t n) x 1 (S (rb_k n)) (rb_k n)) as [j|].
  - destruct D as [D _]. assert (E : (from_bits x <? n) = false) by (apply Z.ltb_ge; lia). rewrite E. reflexivity.
  - assert (E : (from_bits x <? n) = true) by (apply Z.ltb_lt; lia). rewrite E. reflexivity.
Qed.

(** a rejected register is rejected at some position j < k *)
Lemma rejected_position : forall n x, 2 <= n -> bits x -> length x = rb_k n -> n <= from_bits x ->
  exists j, (j < rb_k n)%nat /\ rb_pass (n - 1) (rb_t n) x 1 (S (rb_k n)) (rb_k n) = Some j.
Proof.
  intros n x Hn Hx Lx Hge. destruct (rb_params n Hn) as (B0 & Bk & K1 & T1 & Dv).
  assert (Esk : skipn (rb_k n) x = []) by (apply skipn_all2; lia).
  assert (Ediv : (n - 1) / 2 ^ Z.of_nat (rb_k n) = 0) by (apply Z.div_small; lia).
  pose proof (rb_pass_decides (n - 1) (rb_k n) (rb_t n) B0 T1 Dv (rb_k n) x 1 Hx Lx (le_n _)) as D.
  rewrite Esk, Ediv in D. specialize (D ltac:(cbn; lia) eq_refl).
  destruct (rb_pass (n - 1) (rb_t n) x 1 (S (rb_k n)) (rb_k n)) as [j|]; [|lia].
  exists j. split; [tauto | reflexivity].
Qed.

(** (1) one-pass tapes: accepted iff value < n, output = value, all k bits consumed *)
Theorem randbelow_one_pass : forall fuel n tp, 1 <= n -> bits tp -> length tp = rb_k n -> (rb_k n < fuel)%nat ->
  randbelow fuel n tp = if from_bits tp <? n then Some (from_bits tp, []) else None.
Proof.
  intros fuel n tp Hn Htp L Hf. unfold randbelow, randbelow_bits. fold (rb_k n). fold (rb_t n).
  pose proof (draw_exact tp []) as Dr. rewrite app_nil_r, L in Dr.
  destruct (Z.land n (n - 1) =? 0) eqn:Ep.
  - rewrite Dr. apply Z.eqb_eq in Ep. pose proof (pow2_fast_path n Hn Ep) as P. fold (rb_k n) in P.
    pose proof (from_bits_bound tp Htp) as B. rewrite L in B.
    assert (E : (from_bits tp <? n) = true) by (apply Z.ltb_lt; lia). rewrite E. reflexivity.
  - assert (Hn2 : 2 <= n).
    { destruct (Z.eq_dec n 1) as [-> | Ne]; [cbn in Ep; discriminate | lia]. }
    rewrite Dr, (randbelow_pass_step n fuel tp [] Hn2 Htp L Hf).
    destruct (from_bits tp <? n) eqn:E; [reflexivity|].
    apply Z.ltb_ge in E. destruct (rejected_position n tp Hn2 Htp L E) as (j & Lj & ->).
    rewrite draw_empty by lia. reflexivity.
Qed.

(** (2) for every v < n EXACTLY ONE one-pass tape is accepted with output v *)
Theorem randbelow_one_pass_unique : forall fuel n v, 1 <= n -> 0 <= v < n -> (rb_k n < fuel)%nat ->
  exists! tp, length tp = rb_k n /\ bits tp /\ randbelow fuel n tp = Some (v, []).
Proof.
  intros fuel n v Hn Hv Hf. pose proof (n_le_pow_k n Hn) as Hp.
  exists (tape_of (rb_k n) v). split.
  - split; [apply tape_of_length|]. split; [apply tape_of_bits|].
    rewrite (randbelow_one_pass fuel n _ Hn (tape_of_bits _ _) (tape_of_length _ _) Hf).
    rewrite from_tape_of by lia. assert (E : (v <? n) = true) by (apply Z.ltb_lt; lia). rewrite E. reflexivity.
  - intros tp (L & Hb & R). rewrite (randbelow_one_pass fuel n tp Hn Hb L Hf) in R.
    destruct (from_bits tp <? n); [|discriminate]. injection R as <-.
    rewrite <- L. apply tape_of_from. exact Hb.
Qed.

(** the accepted one-pass tapes are exactly the encodings of 0..n-1: n of the 2^k tapes *)
Corollary randbelow_one_pass_accepts : forall fuel n tp, 1 <= n -> bits tp -> length tp = rb_k n -> (rb_k n < fuel)%nat ->
  (exists r, randbelow fuel n tp = Some r) <-> (exists v, 0 <= v < n /\ tp = tape_of (rb_k n) v).
Proof.
  intros fuel n tp Hn Hb L Hf. rewrite (randbelow_one_pass fuel n tp Hn Hb L Hf). split.
  - intros [r H]. destruct (from_bits tp <? n) eqn:E; [|discriminate]. apply Z.ltb_lt in E.
    exists (from_bits tp). split; [pose proof (from_bits_bound tp Hb); lia|].
    rewrite <- L. symmetry. apply tape_of_from. exact Hb.
  - intros (v & Hv & ->). pose proof (n_le_pow_k n Hn). rewrite from_tape_of by lia.
    assert (E : (v <? n) = true) by (apply Z.ltb_lt; lia). rewrite E. eexists. reflexivity.
Qed.

(** ** (3) passes after a restart *)
Lemma nth_skipn' : forall j (x : list Z) m, nth m (skipn j x) 0 = nth (j + m) x 0.
Proof.
  induction j as [|j IH]; intros [|a x] m; cbn [skipn]; try reflexivity.
  - destruct m; reflexivity.
  - cbn [plus nth]. apply IH.
Qed.

Lemma nth_app_skipn : forall j (lo x : list Z) m, length lo = j -> (j <= m)%nat ->
  nth m (lo ++ skipn j x) 0 = nth m x 0.
Proof.
  intros j lo x m L Hm. rewrite app_nth2 by lia. rewrite nth_skipn'. f_equal. lia.
Qed.

(** Let the register x be rejected at position j (whatever happened before).  The bits of x below j are retained
    and k-j fresh bits are drawn.  For EVERY choice w of (retained low bits ++ fresh bits) — a k-bit string — the
    high part of x still causes the rejection at j, and the next pass, run on exactly those fresh bits, accepts
    iff value(w) < n and returns w: the register of the next pass IS w. *)
Theorem randbelow_next_pass : forall n fuel x j w, 2 <= n ->
  bits x -> length x = rb_k n -> rb_pass (n - 1) (rb_t n) x 1 (S (rb_k n)) (rb_k n) = Some j ->
  bits w -> length w = rb_k n -> (2 * rb_k n < fuel)%nat ->
  rb_loop fuel (n - 1) (rb_k n) (rb_t n) (firstn j w ++ skipn j x) 1 (rb_k n) (skipn j w) =
  if from_bits w <? n then Some (w, []) else None.
Proof.
  intros n fuel x j w Hn Hx Lx Hp Hw Lw Hf. destruct (rb_params n Hn) as (B0 & Bk & K1 & T1 & Dv).
  pose proof (rb_pass_pos _ _ T1 _ _ _ _ _ Hp) as Lj.
  set (x1 := firstn j w ++ skipn j x).
  assert (Lfw : length (firstn j w) = j) by (apply firstn_length_le; lia).
  assert (Hx1 : bits x1) by (apply bits_app; split; [apply bits_firstn | apply bits_skipn]; assumption).
  assert (Lx1 : length x1 = rb_k n) by (unfold x1; rewrite app_length, skipn_length, Lfw; lia).
  assert (Hp1 : rb_pass (n - 1) (rb_t n) x1 1 (S (rb_k n)) (rb_k n) = Some j).
  { apply (rb_pass_ignores_low_bits _ _ T1 _ x); [exact Hp|]. intros m Hm. apply nth_app_skipn; assumption. }
  assert (Esk : skipn (rb_k n) x1 = []) by (apply skipn_all2; lia).
  assert (Ediv : (n - 1) / 2 ^ Z.of_nat (rb_k n) = 0) by (apply Z.div_small; lia).
  pose proof (rb_pass_decides (n - 1) (rb_k n) (rb_t n) B0 T1 Dv (rb_k n) x1 1 Hx1 Lx1 (le_n _)) as D.
  rewrite Esk, Ediv, Hp1 in D. specialize (D ltac:(cbn; lia) eq_refl). destruct D as [D _].
  assert (Hf1 : (rb_k n < fuel)%nat) by lia.
  rewrite (randbelow_pass_step n fuel x1 (skipn j w) Hn Hx1 Lx1 Hf1), Hp1.
  assert (E1 : (from_bits x1 <? n) = false) by (apply Z.ltb_ge; lia). rewrite E1.
  pose proof (draw_exact (skipn j w) []) as Dr. rewrite app_nil_r, skipn_length, Lw in Dr. rewrite Dr.
  assert (Ereg : firstn j x1 ++ skipn j w = w).
  { unfold x1. rewrite <- Lfw at 1. rewrite firstn_app_exact. apply firstn_skipn. }
  assert (Hf2 : (rb_k n < fuel - (rb_k n - j))%nat) by lia.
  rewrite Ereg, (randbelow_pass_step n _ w [] Hn Hw Lw Hf2).
  destruct (from_bits w <? n) eqn:E; [reflexivity|].
  apply Z.ltb_ge in E. destruct (rejected_position n w Hn Hw Lw E) as (j2 & Lj2 & ->).
  rewrite draw_empty by lia. reflexivity.
Qed.

(** hence, conditional on a rejection at j (by the same high part of the register), for every v < n there is
    EXACTLY ONE choice of (retained low bits ++ fresh bits) for which the next pass accepts with output v,
    namely the encoding of v: the accepted output of every pass is uniform on range(n). *)
Theorem randbelow_next_pass_unique : forall n fuel x j v, 2 <= n ->
  bits x -> length x = rb_k n -> rb_pass (n - 1) (rb_t n) x 1 (S (rb_k n)) (rb_k n) = Some j ->
  0 <= v < n -> (2 * rb_k n < fuel)%nat ->
  exists! w, length w = rb_k n /\ bits w /\
    exists r, rb_loop fuel (n - 1) (rb_k n) (rb_t n) (firstn j w ++ skipn j x) 1 (rb_k n) (skipn j w) = Some (r, [])
              /\ from_bits r = v.
Proof.
  intros n fuel x j v Hn Hx Lx Hp Hv Hf. pose proof (n_le_pow_k n ltac:(lia)) as Pk.
  exists (tape_of (rb_k n) v). split.
  - split; [apply tape_of_length|]. split; [apply tape_of_bits|]. exists (tape_of (rb_k n) v).
    rewrite (randbelow_next_pass n fuel x j _ Hn Hx Lx Hp (tape_of_bits _ _) (tape_of_length _ _) Hf).
    rewrite from_tape_of by lia. assert (E : (v <? n) = true) by (apply Z.ltb_lt; lia). rewrite E. split; reflexivity.
  - intros w (Lw & Hw & r & R & Er). rewrite (randbelow_next_pass n fuel x j w Hn Hx Lx Hp Hw Lw Hf) in R.
    destruct (from_bits w <? n); [|discriminate]. injection R as <-. rewrite <- Er, <- Lw. apply tape_of_from. exact Hw.
Qed.

(** the same from the initial tape: first pass register x1 rejected at j, second pass accepts *)
Theorem randbelow_two_pass : forall n fuel x j w, 2 <= n ->
  bits x -> length x = rb_k n -> rb_pass (n - 1) (rb_t n) x 1 (S (rb_k n)) (rb_k n) = Some j ->
  bits w -> length w = rb_k n -> (2 * rb_k n < fuel)%nat ->
  randbelow fuel n ((firstn j w ++ skipn j x) ++ skipn j w) =
  if from_bits w <? n then Some (from_bits w, []) else None.
Proof.
  intros n fuel x j w Hn Hx Lx Hp Hw Lw Hf. destruct (rb_params n Hn) as (B0 & Bk & K1 & T1 & Dv).
  pose proof (rb_pass_pos _ _ T1 _ _ _ _ _ Hp) as Lj.
  assert (Lfw : length (firstn j w) = j) by (apply firstn_length_le; lia).
  assert (Lx1 : length (firstn j w ++ skipn j x) = rb_k n) by (rewrite app_length, skipn_length, Lfw; lia).
  unfold randbelow, randbelow_bits. fold (rb_k n). fold (rb_t n).
  destruct (Z.land n (n - 1) =? 0) eqn:Ep.
  - exfalso. apply Z.eqb_eq in Ep. pose proof (pow2_fast_path n ltac:(lia) Ep) as P. fold (rb_k n) in P.
    assert (Esk : skipn (rb_k n) x = []) by (apply skipn_all2; lia).
    assert (Ediv : (n - 1) / 2 ^ Z.of_nat (rb_k n) = 0) by (apply Z.div_small; lia).
    pose proof (rb_pass_decides (n - 1) (rb_k n) (rb_t n) B0 T1 Dv (rb_k n) x 1 Hx Lx (le_n _)) as D.
    rewrite Esk, Ediv, Hp in D. specialize (D ltac:(cbn; lia) eq_refl).
    pose proof (from_bits_bound x Hx) as Bx. rewrite Lx in Bx. lia.
  - pose proof (draw_exact (firstn j w ++ skipn j x) (skipn j w)) as Dr. rewrite Lx1 in Dr. rewrite Dr.
    rewrite (randbelow_next_pass n fuel x j w Hn Hx Lx Hp Hw Lw Hf).
    destruct (from_bits w <? n); reflexivity.
Qed.

(** ** the same counting for getrandbits and randrange *)
Theorem getrandbits_unique : forall k v, 0 <= v < 2 ^ Z.of_nat k ->
  exists! tp, length tp = k /\ bits tp /\ getrandbits k tp = Some (v, []).
Proof.
  intros k v Hv. exists (tape_of k v). split.
  - split; [apply tape_of_length|]. split; [apply tape_of_bits|]. unfold getrandbits.
    pose proof (draw_exact (tape_of k v) []) as Dr. rewrite app_nil_r, tape_of_length in Dr. rewrite Dr.
    rewrite from_tape_of by exact Hv. reflexivity.
  - intros tp (L & Hb & R). unfold getrandbits in R.
    pose proof (draw_exact tp []) as Dr. rewrite app_nil_r, L in Dr. rewrite Dr in R. injection R as <-.
    rewrite <- L. apply tape_of_from. exact Hb.
Qed.

(** randrange: every lattice point start + r*step (0 <= r < len, step <> 0) has exactly one accepting one-pass tape *)
Theorem randrange_one_pass_unique : forall fuel start stop step r,
  step <> 0 -> 0 <= r < range_len start stop step -> (rb_k (range_len start stop step) < fuel)%nat ->
  exists! tp, length tp = rb_k (range_len start stop step) /\ bits tp /\
              randrange fuel start stop step tp = Some (start + r * step, []).
Proof.
  intros fuel start stop step r Hs Hr Hf. set (n := range_len start stop step) in *.
  assert (Hn : 1 <= n) by lia.
  destruct (randbelow_one_pass_unique fuel n r Hn Hr Hf) as (tp & (L & Hb & R) & U).
  assert (E0 : (n =? 0) = false) by (apply Z.eqb_neq; lia).
  exists tp. split.
  - split; [exact L|]. split; [exact Hb|]. unfold randrange. fold n. rewrite E0, R. reflexivity.
  - intros tp' (L' & Hb' & R'). apply U. split; [exact L'|]. split; [exact Hb'|].
    unfold randrange in R'. fold n in R'. rewrite E0 in R'.
    destruct (randbelow fuel n tp') as [[r' t']|]; [|discriminate]. injection R' as E1 E2. subst t'.
    assert (r' = r) by nia. subst r'. reflexivity.
Qed.

(** * _randbelow(sectype, n) for a secure FIELD type with n = field order: runtime._random(sectype)
    (random.py:58-60).  Without PRSS the t+1 senders each draw secrets.randbelow(p) and the shares are added:
    the result is the sum of the draws modulo p.  (With PRSS the draws are PRF outputs below p, same formula.) *)
Definition field_random (p : Z) (draws : list Z) : Z := (zsum draws) mod p.
Definition randbelow_order (p : Z) (draws : list Z) : Z := field_random p draws.

Theorem randbelow_order_range : forall p draws, 0 < p -> 0 <= randbelow_order p draws < p.
Proof. intros p draws Hp. unfold randbelow_order, field_random. apply Z.mod_pos_bound. exact Hp. Qed.

(** uniform over the WHOLE field: whatever the other senders draw, every field value v arises from exactly one
    draw r in range(p) of one sender *)
Theorem randbelow_order_uniform : forall p rest v, 0 < p -> 0 <= v < p ->
  exists! r, 0 <= r < p /\ randbelow_order p (r :: rest) = v.
Proof.
  intros p rest v Hp Hv. unfold randbelow_order, field_random. cbn [zsum fold_right]. fold (zsum rest).
  set (s := zsum rest). exists ((v - s) mod p). split.
  - split; [apply Z.mod_pos_bound; exact Hp|].
    rewrite Zplus_mod_idemp_l. replace (v - s + s) with v by ring. apply Z.mod_small. exact Hv.
  - intros r [Hr E].
    assert (Ha : 0 <= (v - s) mod p < p) by (apply Z.mod_pos_bound; exact Hp).
    assert (Ea : ((v - s) mod p + s) mod p = v).
    { rewrite Zplus_mod_idemp_l. replace (v - s + s) with v by ring. apply Z.mod_small. exact Hv. }
    set (a := (v - s) mod p) in *.
    pose proof (Z.div_mod (r + s) p ltac:(lia)) as D1. rewrite E in D1.
    pose proof (Z.div_mod (a + s) p ltac:(lia)) as D2. rewrite Ea in D2.
    set (q1 := (r + s) / p) in *. set (q2 := (a + s) / p) in *. clearbody q1 q2 a s.
    assert (Hq : q1 = q2) by nia. subst q2. lia.
Qed.
