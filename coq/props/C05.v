(** C05 — secure floating-point arithmetic approximates float arithmetic.
    Only statements; model and proofs are in theories/Flt.v.
    A secure float is a pair (S, e) with value  fval f (S, e) = S * 2^(e - f),  f = s-1 the fraction
    length of the significand type SecFxp(s+1, s-1);  u = 2^-f = pow2 (-f).  Truncation masks
    (runtime.trunc) are the tapes r, universally quantified over their whole range 0 <= r < 2^f.
    Proved constants: 1u (constructor), 4u (multiplication) — smaller than the property's 2u / 16u.
    MISSING (not proved, so absent): normalisation invariant and error bound for flt_add / flt_sub,
    cmp_exact_outside_band, div_bound (reciprocal not modelled).  Addition, subtraction and the six
    comparisons are covered by the correspondence run + implementation oracle only. *)
From Coq Require Import ZArith List QArith Qabs.
Require Import MPyC.Flt.
Import ListNotations.
Local Open Scope Z_scope.

(** flt_norm_inv — the normalisation invariant  S = 0 \/ 2^(f-1) <= |S| <= 2^f  (both ends occur)
    is established by the constructor and preserved by negation and by multiplication, for every
    tape.  [partial: the addition case is not proved] *)
Theorem C05_flt_norm_inv_input_partial : forall f M q, 1 <= f -> norm f (fst (flt_input f M q)).
Proof. exact flt_norm_inv_input. Qed.
Print Assumptions C05_flt_norm_inv_input_partial.

Theorem C05_flt_norm_inv_mul_partial : forall f x y r, 2 <= f -> 0 <= r < 2 ^ f ->
  norm f (fst x) -> norm f (fst y) -> norm f (fst (flt_mul f x y r)).
Proof. exact flt_norm_inv_mul. Qed.
Print Assumptions C05_flt_norm_inv_mul_partial.

Theorem C05_flt_norm_inv_neg_partial : forall f x, norm f (fst x) -> norm f (fst (flt_neg x)).
Proof. exact flt_norm_inv_neg. Qed.
Print Assumptions C05_flt_norm_inv_neg_partial.

(** io_bound — the constructor applied to x = M * 2^q (every Python int/float) is within u|x| of x;
    _output returns the exact value, with the exponent of a zero masked to 0. *)
Theorem C05_io_bound : forall f M q, 1 <= f ->
  (Qabs (fval f (flt_input f M q) - inject_Z M * pow2 q)
   <= inject_Z 1 * pow2 (- f) * Qabs (inject_Z M * pow2 q))%Q.
Proof. exact io_bound. Qed.
Print Assumptions C05_io_bound.

Theorem C05_output_exact_and_masked : forall f x,
  (fval f (flt_output x) == fval f x)%Q /\ (fst (flt_output x) = 0 -> snd (flt_output x) = 0) /\
  fst (flt_output x) = fst x.
Proof. exact flt_output_spec. Qed.
Print Assumptions C05_output_exact_and_masked.

(** mul_bound — for normalised operands and EVERY truncation tape the product is within 4u of exact. *)
Theorem C05_mul_bound : forall f x y r, 2 <= f -> 0 <= r < 2 ^ f -> norm f (fst x) -> norm f (fst y) ->
  (Qabs (fval f (flt_mul f x y r) - fval f x * fval f y)
   <= inject_Z 4 * pow2 (- f) * Qabs (fval f x * fval f y))%Q.
Proof. exact mul_bound. Qed.
Print Assumptions C05_mul_bound.

(** add_zero_refuted — the unrestricted bound for + is FALSE of the faithful model (finding F-C05):
    SecFlt(16) (f = 10), x = secflt(1e-4) = (839, -13), y = secflt(0.0) = (0, 0): for every tape the
    result differs from x + y by more than 16 u max(|x|,|y|) (scaled by 2^23 * 2^f to integers). *)
Theorem C05_add_zero_refuted :
  exists f x y, norm f (fst x) /\ norm f (fst y) /\ x = flt_input f 839 (-23) /\ y = flt_input f 0 0 /\
    forall r1 r2, In r1 (tapes f) -> In r2 (tapes f) ->
      let z := flt_add f x y r1 r2 in
      Z.abs (fst z * 2 ^ (snd z - f + 23) - 839) * 2 ^ f > 16 * 839.
Proof. exact add_zero_refuted. Qed.
Print Assumptions C05_add_zero_refuted.

(** Non-vacuity: SecFlt(16), 1.5 * (-1.25): operands normalised, tape in range; both tape extremes. *)
Example C05_nonvacuous :
  let f := 10 in let x := flt_input f 3 (-1) in let y := flt_input f (-5) (-2) in
  x = (768, 1) /\ y = (-640, 1) /\ 2 <= f /\ 0 <= 2 ^ f - 1 < 2 ^ f /\
  (2 ^ (f - 1) <=? Z.abs (fst x)) && (Z.abs (fst x) <=? 2 ^ f) = true /\
  (2 ^ (f - 1) <=? Z.abs (fst y)) && (Z.abs (fst y) <=? 2 ^ f) = true /\
  flt_mul_all f x y = [(-960, 1); (-960, 1)] /\
  flt_input f 1 (-4) = (1024, -4) /\ flt_output (0, -8) = (0, 0).
Proof. vm_compute. repeat split; intro; discriminate. Qed.
