"""C36, part 2 — correspondence between the executable crash model (coq/theories/CrashExec.v) and the
real implementation run in the multi-party simulator.

For a handful of straight-line programs over a prime field (ops: input by one sender, +, *, output to a
set of receivers; no PRSS) and (m, t) in {(3,1), (4,1), (5,2)} (and one (2,0) program):

  * crash-free run of the REAL runtime in the simulator: every frame on every link (src, dst, label ->
    operation index, payload -> field element) must equal, as a set, the model's crash-free closure
    `x_cf_msgs`, and the outputs must equal `x_cf_results` (and plain arithmetic);
  * for the crashing party c and EVERY k = 0 .. (number of frames c sends): the real runtime is re-run
    with c cut after its k-th frame (byte offset computed from the crash-free frame log of c; a second
    run cuts in the middle of frame k+1, which must behave identically), FIFO delivery, everything sent
    is delivered; the set of (survivor, output id, value) completed and the set of all messages on the
    wire must equal the model's `run_closed` / `run_closed_msgs` for (c, order, k) evaluated by vm_compute.

The send ORDER of the crashing party is taken from the implementation (its crash-free frame log): it is
decided by asyncio's callback scheduling (e.g. x*x is ready one loop iteration before x*y), not by
program order, so the model takes the order as a parameter (its theorems hold for every order).
Dealer coefficient tapes are forced per (label, dealer) so that they do not depend on scheduling.

`run_part(ctx)` is meant to be called from props/c36.py after ctx.build()/ctx.check_props().
"""
import random
from lib.core import zlit, zlist, natlit

IDLE = 300


# ------------------------------------------------------------------------------------------------
# programs: list of ops; op k defines value k (outputs define no value)
#   ('in', s) | ('add', i, j) | ('mul', i, j) | ('out', i, receivers)

def fixed_programs():
    P = []
    P.append(('p3a', 3, 1, 101, [
        ('in', 0), ('in', 1), ('in', 2), ('mul', 0, 1), ('mul', 3, 2), ('add', 0, 2),
        ('out', 4, (0, 1, 2)), ('out', 3, (1,)), ('out', 5, (0, 2)), ('in', 2), ('mul', 9, 9), ('out', 10, (0, 2))]))
    P.append(('p3b', 3, 1, 2**61 - 1, [
        ('in', 1), ('in', 1), ('add', 0, 1), ('out', 2, (0, 2)), ('in', 0), ('mul', 2, 4), ('out', 5, (2, 1, 0)),
        ('mul', 5, 5), ('add', 7, 0), ('out', 8, (1,)), ('out', 0, (2,))]))
    P.append(('p4a', 4, 1, 101, [
        ('in', 0), ('in', 1), ('in', 2), ('in', 3), ('mul', 0, 1), ('mul', 2, 3), ('add', 4, 5), ('mul', 6, 0),
        ('out', 6, (0, 1, 2, 3)), ('out', 7, (3, 1)), ('out', 2, (0,)), ('out', 4, (2, 3))]))
    P.append(('p4b', 4, 1, 1009, [
        ('in', 3), ('in', 0), ('mul', 0, 0), ('mul', 1, 0), ('mul', 2, 3), ('mul', 4, 4),
        ('out', 5, (1, 2)), ('out', 3, (0, 3)), ('add', 2, 1), ('out', 8, (0, 1, 2, 3))]))
    P.append(('p5a', 5, 2, 101, [
        ('in', 0), ('in', 1), ('in', 2), ('in', 3), ('in', 4), ('mul', 0, 1), ('add', 2, 3), ('mul', 5, 6),
        ('out', 7, (0, 1, 2, 3, 4)), ('out', 6, (4, 0)), ('out', 4, (2,))]))
    # t = 0: _reshare and output exchange no messages at all; only the input dealings are on the wire
    P.append(('p2a', 2, 0, 101, [
        ('in', 0), ('in', 1), ('mul', 0, 1), ('add', 2, 0), ('out', 3, (0, 1)), ('in', 1), ('mul', 5, 3), ('out', 6, (1,)), ('out', 0, (0,))]))
    return P


def random_program(rng, m, t, name):
    p = rng.choice([101, 1009, 2**31 - 1])
    ops = [('in', s) for s in rng.sample(range(m), rng.randint(2, m))]
    vals = list(range(len(ops)))
    nout = 0
    for _ in range(rng.randint(4, 7)):
        kind = rng.choice(['add', 'mul', 'mul', 'out', 'out', 'in'])
        k = len(ops)
        if kind == 'in':
            ops.append(('in', rng.randrange(m)))
            vals.append(k)
        elif kind == 'out':
            ops.append(('out', rng.choice(vals), tuple(rng.sample(range(m), rng.randint(1, m)))))
            nout += 1
        else:
            ops.append((kind, rng.choice(vals), rng.choice(vals)))
            vals.append(k)
    if nout < 2:
        ops.append(('out', vals[-1], tuple(range(m))))
        ops.append(('out', vals[0], (rng.randrange(m),)))
    return (name, m, t, p, ops)


def plain_values(ops, inputs, p):
    v = {}
    for k, op in enumerate(ops):
        if op[0] == 'in':
            v[k] = inputs[k] % p
        elif op[0] == 'add':
            v[k] = (v[op[1]] + v[op[2]]) % p
        elif op[0] == 'mul':
            v[k] = (v[op[1]] * v[op[2]]) % p
    return v


# ------------------------------------------------------------------------------------------------
# the real implementation in the simulator

def tape_for(seed, pc, pid, n, p):
    r = random.Random('c36model/%d/%d/%d' % (seed, pc, pid))
    return [r.randrange(p) for _ in range(n)]


def make_prog(ops, inputs, p, store, labels):
    async def prog(mpc, mods, pid):
        fld = mpc.SecFld(modulus=p)
        hop = mods['mpyc.asyncoro']._hop
        vals = []
        futs = []
        out = store.setdefault(pid, {})
        lab = labels.setdefault(pid, {})
        for k, op in enumerate(ops):
            if op[0] == 'in':
                v = mpc.input(fld(inputs[k] if pid == op[1] else 0), senders=op[1])
                c, lvl = mpc._program_counter
                lab[k] = hop([c, lvl])                        # pc of the _distribute coroutine
                vals.append(v)
            elif op[0] == 'add':
                vals.append(vals[op[1]] + vals[op[2]])
            elif op[0] == 'mul':
                v = vals[op[1]] * vals[op[2]]
                c, lvl = mpc._program_counter
                lab[k] = hop([hop([c, lvl]) + 1, lvl + 1])    # pc of the _reshare coroutine inside mul
                vals.append(v)
            else:
                f = mpc.output(vals[op[1]], receivers=list(op[2]))
                c, lvl = mpc._program_counter
                lab[k] = hop([c, lvl])                        # pc of the output coroutine

                def cb(fu, k=k):
                    if not fu.cancelled() and fu.exception() is None and fu.result() is not None:
                        out[k] = int(fu.result())
                f.add_done_callback(cb)
                futs.append(f)
                vals.append(None)
        # everything has been issued; now wait (forever, if something never completes) for every output and
        # every value, so that a crash-free run does not end before an unused operation has sent its messages
        for f in futs:
            await f
        for v in vals:
            if v is not None:
                await mpc.gather(v)
        return dict(out)
    return prog


def real_run(prog_def, inputs, seed, cut=None, policy=None, loss=None):
    """Run the program in the simulator. cut = (party, nbytes) or None.
    Returns dict(outputs={pid:{k:v}}, labels={k:pc}, order={pid:[(k,dst,framebytes)]}, wire=set((src,dst,k,val)), dead, res)."""
    from lib.sim import Sim, Fifo, RandomOrder
    name, m, t, p, ops = prog_def
    store, labels = {}, {}
    sim = Sim(m, t, no_prss=True, seed=seed)
    try:
        for i in range(m):
            th = sim.mods[i]['mpyc.thresha']
            orig = th.random_split

            def wrapped(field, s, tt, mm, _o=orig, _i=i):
                pc = sim.mpcs[_i]._program_counter[0]
                sim.secrets[_i].forced.extend(tape_for(seed, pc, _i, tt * len(s), p))
                return _o(field, s, tt, mm)
            th.random_split = wrapped
            sim.mods[i]['mpyc.runtime'].thresha.random_split = wrapped
        st = sim.start()
        if not sim.started:
            return {'error': 'start failed: %r' % (st,)}
        n0 = [len(sim.msglog[i]) for i in range(m)]
        if cut is not None:
            sim.net.cut[cut[0]] = cut[1]
        if loss is not None:
            sim.net.loss_mode = loss           # survivors are told of the disconnect (connection_lost) while computing
        pol = Fifo() if policy is None else RandomOrder(random.Random(policy[1]))
        res = sim.run(make_prog(ops, inputs, p, store, labels), pol, idle_limit=IDLE)
        lab = labels.get(0, {})
        if any(labels.get(i) != lab for i in range(m)):
            return {'error': 'parties computed different labels'}
        inv = {pc: k for k, pc in lab.items()}
        if len(inv) != len(lab):
            return {'error': 'label collision'}
        order = {i: [(inv.get(pc, -1), peer, 12 + sz) for (kind, peer, pc, sz) in sim.msglog[i][n0[i]:] if kind == 'send']
                 for i in range(m)}
        wire = set()
        partial = 0
        for a in range(m):
            for b in range(m):
                if a != b:
                    fr, rest = sim.frames(a, b)
                    partial += 1 if rest else 0
                    for pc, payload in fr:
                        wire.add((a, b, inv.get(pc, -1), int.from_bytes(payload, 'little')))
        return {'outputs': {i: dict(store.get(i, {})) for i in range(m)}, 'labels': lab, 'order': order, 'wire': wire,
                'dead': set(sim.net.dead), 'res': res, 'partial': partial}
    finally:
        sim.close()


# ------------------------------------------------------------------------------------------------
# Coq terms

def coq_prog(ops, labels):
    out = []
    for k, op in enumerate(ops):
        if op[0] == 'in':
            out.append('Input %d' % op[1])
        elif op[0] == 'add':
            out.append('Add %d %d' % (op[1], op[2]))
        elif op[0] == 'mul':
            out.append('Mul %s %d %d' % (zlit(labels[k]), op[1], op[2]))
        else:
            out.append('Output %d [%s]' % (op[1], '; '.join(str(r) for r in op[2])))
    return '[' + '; '.join(out) + ']'


def coq_args(prog_def, inputs, labels, seed):
    name, m, t, p, ops = prog_def
    ins = '[' + '; '.join('(%d, %s)' % (k, zlit(v)) for k, v in sorted(inputs.items())) + ']'
    tapes = []
    for k, op in enumerate(ops):
        if op[0] == 'in':
            tapes.append((k, op[1]))
        elif op[0] == 'mul':
            tapes.extend((k, d) for d in range(m))
    tp = '[' + '; '.join('(%d, %d, %s)' % (k, d, zlist(tape_for(seed, labels[k], d, t, p))) for k, d in tapes) + ']'
    return '%s %s %s %s %s %s' % (zlit(p), natlit(m), natlit(t), coq_prog(ops, labels), ins, tp)


def canon_outs(v):
    return sorted((int(a), int(b), int(c)) for (a, b, c) in v)


def canon_msgs(v):
    return sorted((int(a), int(b), int(c), int(d)) for (a, b, c, d) in v)


# ------------------------------------------------------------------------------------------------

def run_part(ctx, programs=None):
    """Correspondence run; returns a summary dict (also stored in ctx.extra['crash_model']).
    Every simulator run re-imports m copies of mpyc; with PYTHONDONTWRITEBYTECODE set that recompiles all
    sources each time (0.2 s per party), so bytecode caching into a private temporary directory is switched on
    for the duration of this part (nothing is written to /repo; stale entries are impossible: pyc files are
    validated against the source's mtime and size)."""
    import sys, tempfile, shutil
    saved = (sys.dont_write_bytecode, sys.pycache_prefix)
    tmp = tempfile.mkdtemp(prefix='c36model-pyc-')
    sys.dont_write_bytecode, sys.pycache_prefix = False, tmp
    try:
        return _run_part(ctx, programs)
    finally:
        sys.dont_write_bytecode, sys.pycache_prefix = saved
        shutil.rmtree(tmp, ignore_errors=True)


def _run_part(ctx, programs=None):
    rng = ctx.rng
    progs = list(programs) if programs is not None else fixed_programs()
    if programs is None:
        nrand = ctx.n(1, 6)
        cfgs = [(3, 1), (4, 1), (5, 2)]
        for j in range(nrand):
            m, t = cfgs[(j + ctx.seed) % 3]
            progs.append(random_program(rng, m, t, 'rand%d' % j))
    summary = {'programs': 0, 'cuts': 0, 'cut_runs': 0, 'mid_frame_runs': 0, 'outputs_compared': 0, 'messages_compared': 0,
               'partial_completion_cuts': 0, 'order_is_program_order': 0, 'order_checked': 0, 'disagreements': 0}
    broke = []
    records = []
    exprs = []
    import time
    t0 = time.time()
    # ---- phase 1: the real runs (crash-free, then every cut)
    for prog_def in progs:
        name, m, t, p, ops = prog_def
        seed = rng.randrange(10**6)
        inputs = {k: rng.choice([0, 1, 2, 3, 5, 7, p - 1, p - 2, rng.randrange(p)]) for k, op in enumerate(ops) if op[0] == 'in'}
        key0 = {'program': name, 'm': m, 't': t, 'p': p, 'ops': [[list(x) if isinstance(x, tuple) else x for x in op] for op in ops],
                'inputs': {str(k): v for k, v in inputs.items()}, 'seed': seed}
        plain = plain_values(ops, inputs, p)
        want = {(r, k, plain[op[1]]) for k, op in enumerate(ops) if op[0] == 'out' for r in op[2]}
        base = real_run(prog_def, inputs, seed)
        if 'error' in base or any(not isinstance(r, dict) for r in base['res']):
            ctx.violation('model-crash crash-free-run-failed m=%d' % m, {**key0, 'result': str(base.get('error') or base['res'])[:400]})
            continue
        got0 = {(i, k, v) for i in range(m) for k, v in base['outputs'][i].items()}
        if got0 != want:
            ctx.violation('model-crash crash-free-output-wrong m=%d t=%d' % (m, t),
                          {**key0, 'got': sorted(got0), 'want': sorted(want)})
            continue
        args = coq_args(prog_def, inputs, base['labels'], seed)
        summary['programs'] += 1
        if ctx.tier == 'thorough' or m <= 3:
            crashers = list(range(m))
        else:
            crashers = sorted(rng.sample(range(m), 2))
        rec = {'prog': prog_def, 'inputs': inputs, 'seed': seed, 'key0': key0, 'want': want, 'base': base, 'got0': got0,
               'crashers': crashers, 'e0': len(exprs), 'orders': {}, 'cuts': {}}
        exprs.append('(x_cf_msgs %s, x_cf_results %s)' % (args, args))
        exprs.append('map (x_prog_order %s) (seq 0 %d)' % (args, m))
        for c in crashers:
            rec['orders'][c] = [(k, d) for (k, d, sz) in base['order'][c]]
            ordl = '[' + '; '.join('(%d, %d)' % kd for kd in rec['orders'][c]) + ']'
            exprs.append('x_run_all %s %d %s' % (args, c, ordl))
            sizes = [sz for (_, _, sz) in base['order'][c]]
            for k in range(len(sizes) + 1):
                off = sum(sizes[:k])
                runs = [('boundary', off)]
                if k < len(sizes) and (ctx.tier == 'thorough' or (k + seed) % 3 == 0):
                    runs.append(('mid-frame', off + 1 + (seed + k) % (sizes[k] - 1)))
                for kind, nbytes in runs:
                    r = real_run(prog_def, inputs, seed, cut=(c, nbytes))
                    summary['cut_runs'] += 1
                    summary['mid_frame_runs'] += kind == 'mid-frame'
                    rec['cuts'][(c, k, kind)] = (nbytes, r)
                # the same cut with the survivors NOTIFIED of the disconnect (clean close / reset) while they compute:
                # the set of completed outputs may shrink (receives from the dead party fail), the values may not change
                if ctx.tier == 'thorough' or (k + seed) % 2 == 0:
                    for loss in ('none', 'exc'):
                        rn = real_run(prog_def, inputs, seed, cut=(c, off), loss=loss)
                        summary['notified_runs'] = summary.get('notified_runs', 0) + 1
                        rec.setdefault('notified', []).append((c, k, off, loss, rn))
        records.append(rec)
    t1 = time.time()
    # ---- phase 2: the model, evaluated in Coq
    out = ctx.coq_eval(['MPyC.CrashExec'], exprs, chunk=max(1, -(-len(exprs) // 6))) if exprs else []
    t2 = time.time()
    summary['seconds_simulator'] = round(t1 - t0, 1)
    summary['seconds_coq'] = round(t2 - t1, 1)
    # ---- phase 3: compare
    for rec in records:
        name, m, t, p, ops = rec['prog']
        key0, base, got0, want, crashers = rec['key0'], rec['base'], rec['got0'], rec['want'], rec['crashers']
        res = out[rec['e0']:rec['e0'] + 2 + len(crashers)]
        errs = [v for v in res if isinstance(v, tuple) and v and v[0] == 'ERROR']
        if errs:
            broke.append({'kind': 'coq-eval', 'case': key0, 'detail': str(errs[0])[:600]})
            continue
        cf_msgs, cf_res = canon_msgs(res[0][0]), canon_outs(res[0][1])
        summary['messages_compared'] += len(cf_msgs)
        if cf_msgs != sorted(base['wire']):
            broke.append({'kind': 'crash-free messages', 'case': key0,
                          'model_only': sorted(set(cf_msgs) - base['wire'])[:8], 'impl_only': sorted(base['wire'] - set(cf_msgs))[:8]})
        if cf_res != sorted(got0):
            broke.append({'kind': 'crash-free outputs', 'case': key0, 'model': cf_res, 'impl': sorted(got0)})
        for c in range(m):
            po = [tuple(x) for x in res[1][c]]
            real = [(k, d) for (k, d, sz) in base['order'][c]]
            summary['order_checked'] += 1
            summary['order_is_program_order'] += po == real
            if sorted(po) != sorted(real) or len(set(real)) != len(real):
                broke.append({'kind': 'send set of party', 'case': key0, 'party': c, 'model': po, 'impl': real})
        for (c, k, off, loss, rn) in rec.get('notified', []):
            key = {**key0, 'crashed': c, 'k': k, 'cut_bytes': off, 'survivors_notified': loss}
            ctx.case(key, nontrivial=True, kind='model m=%d notified-%s' % (m, loss))
            if 'error' in rn:
                broke.append({'kind': 'notified cut run failed', 'case': key, 'detail': rn['error']})
                continue
            for i in range(m):
                for kk, v in rn['outputs'].get(i, {}).items():
                    if i != c:
                        summary['outputs_compared'] += 1
                        if (i, kk, v) not in want:
                            ctx.violation('model-crash survivor-output-wrong m=%d t=%d notified' % (m, t),
                                          {**key, 'party': i, 'output': kk, 'got': v, 'want': [w for w in want if w[:2] == (i, kk)]})
        for idx, c in enumerate(crashers):
            allk = res[2 + idx]
            order = rec['orders'][c]
            if len(allk) != len(order) + 1:
                broke.append({'kind': 'run_all length', 'case': key0, 'party': c})
                continue
            for (c2, k, kind), (nbytes, r) in sorted(rec['cuts'].items()):
                if c2 != c:
                    continue
                key = {**key0, 'crashed': c, 'k': k, 'of': len(order), 'cut_bytes': nbytes, 'where': kind}
                summary['cuts'] += kind == 'boundary'
                if 'error' in r:
                    broke.append({'kind': 'cut run failed', 'case': key, 'detail': r['error']})
                    continue
                model_outs = canon_outs(allk[k][0])
                model_msgs = canon_msgs(allk[k][1])
                impl_outs = sorted((i, kk, v) for i in range(m) if i != c for kk, v in r['outputs'][i].items())
                n_surv = sum(1 for o in got0 if o[0] != c)
                partial = 0 < len(model_outs) < n_surv
                summary['partial_completion_cuts'] += partial and kind == 'boundary'
                ctx.case(key, nontrivial=True, kind='model m=%d %s%s' % (m, kind, ' partial-completion' if partial else ''))
                summary['outputs_compared'] += len(impl_outs)
                summary['messages_compared'] += len(model_msgs)
                # the property itself: no survivor output differs from the crash-free value
                for (i, kk, v) in impl_outs:
                    if (i, kk, v) not in want:
                        ctx.violation('model-crash survivor-output-wrong m=%d t=%d' % (m, t),
                                      {**key, 'party': i, 'output': kk, 'got': v, 'want': [w for w in want if w[:2] == (i, kk)]})
                bad = None
                if impl_outs != model_outs:
                    bad = {'kind': 'completed outputs', 'case': key, 'model': model_outs, 'impl': impl_outs}
                elif model_msgs != sorted(r['wire']):
                    bad = {'kind': 'messages on the wire', 'case': key,
                           'model_only': sorted(set(model_msgs) - r['wire'])[:8], 'impl_only': sorted(r['wire'] - set(model_msgs))[:8]}
                if bad:
                    summary['disagreements'] += 1
                    broke.append(bad)
                    if summary['disagreements'] <= 12:
                        # wider search around the disagreeing cut: other delivery schedules, looking for a wrong value
                        for s in range(4):
                            r2 = real_run(rec['prog'], rec['inputs'], rec['seed'], cut=(c, nbytes), policy=('random', rec['seed'] + s))
                            for i in range(m):
                                for kk, v in (r2.get('outputs') or {}).get(i, {}).items():
                                    if i != c and (i, kk, v) not in want:
                                        ctx.violation('model-crash survivor-output-wrong m=%d t=%d' % (m, t),
                                                      {**key, 'schedule': 'random %d' % (rec['seed'] + s), 'party': i, 'output': kk, 'got': v})
    ctx.extra['crash_model'] = summary
    ctx.log('crash model correspondence: %s' % summary)
    if summary['programs'] == 0 or summary['cuts'] == 0:
        broke.append({'kind': 'harness', 'what': 'no crash-model case executed'})
    if broke:
        ctx.broken.extend(broke)
        if not ctx.violations:
            ctx.unproved('crash model correspondence', {'broken': broke[:5]})
    return summary
