(** C36 (model level): a crash can only REMOVE messages, never change them; if every party's
    behaviour is a monotone function of the set of (label, payload) messages delivered to it
    (which is what unique, schedule-independent labels give: C08/C09), then everything a survivor
    outputs in a run with a crash it also outputs, with the same value, in the crash-free run. *)
From Coq Require Import List.
Import ListNotations.

Section Crash.
Variable Msg : Type.        (* a message: (source, destination, label, payload) *)
Variable Outp : Type.       (* an output event: (party, output id, value) *)
Definition MSet := Msg -> Prop.
Definition sub (A B : MSet) : Prop := forall x, A x -> B x.

(** messages sent by the whole system once the set A of messages has been delivered *)
Variable send : MSet -> MSet.         (* crash-free system *)
Variable send' : MSet -> MSet.        (* system in which one party stops at some point *)
(** outputs completed once A has been delivered *)
Variable res : MSet -> Outp -> Prop.

Hypothesis send_mono : forall A B, sub A B -> sub (send A) (send B).
Hypothesis res_mono : forall A B, sub A B -> forall o, res A o -> res B o.
(** the crash only removes messages: survivors behave as before; of the crashed party's byte
    streams only a prefix is delivered, and a prefix parses to a prefix of the same frames
    (Frame.prefix_parse), so every message of the crashed system is one of the crash-free system *)
Hypothesis crash_sub : forall A, sub (send' A) (send A).

(** sets of delivered messages reachable under ANY delivery schedule: deliver, one at a time,
    any message that has been sent *)
Inductive reach (snd : MSet -> MSet) : MSet -> Prop :=
| reach_empty : reach snd (fun _ => False)
| reach_deliver : forall A m, reach snd A -> snd A m -> reach snd (fun x => A x \/ x = m).

(** a completed crash-free run: everything sent has been delivered *)
Definition closed (S : MSet) : Prop := sub (send S) S.

Theorem crashed_run_delivers_subset (S : MSet) : closed S -> forall A, reach send' A -> sub A S.
Proof.
  intros HS A HA. induction HA as [|A m HA IH Hm].
  - intros x Hx; destruct Hx.
  - intros x [Hx | ->]; [apply IH, Hx|].
    apply HS. apply (send_mono A S IH). apply crash_sub. exact Hm.
Qed.

(** C36: every output completed in the crashed run is completed, identically, in the crash-free run *)
Theorem crash_safe (S : MSet) : closed S -> forall A, reach send' A -> forall o, res A o -> res S o.
Proof.
  intros HS A HA o Ho. apply (res_mono A S); [|exact Ho].
  apply crashed_run_delivers_subset; assumption.
Qed.

(** ... so if outputs are single-valued in the crash-free run, a survivor never outputs another value *)
Variable oid : Outp -> nat.
Variable oval : Outp -> nat.
Theorem crash_no_wrong_value (S : MSet) : closed S ->
  (forall o1 o2, res S o1 -> res S o2 -> oid o1 = oid o2 -> oval o1 = oval o2) ->
  forall A, reach send' A -> forall o o', res A o -> res S o' -> oid o = oid o' -> oval o = oval o'.
Proof.
  intros HS Hf A HA o o' Ho Ho' E. apply Hf; auto. eapply crash_safe; eauto.
Qed.

(** the same holds for schedules of the crash-free system itself: any partial run is below any closed run *)
Theorem partial_run_subset (S : MSet) : closed S -> forall A, reach send A -> sub A S.
Proof.
  intros HS A HA. induction HA as [|A m HA IH Hm].
  - intros x Hx; destruct Hx.
  - intros x [Hx | ->]; [apply IH, Hx|]. apply HS. apply (send_mono A S IH). exact Hm.
Qed.

End Crash.
