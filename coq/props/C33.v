(** C33 — secure random functions stay in range/shape (statements only; proofs in theories/RandomFns.v).
    All theorems are for ALL bit tapes; [Some] excludes exhaustion of the tape / restart fuel. *)
Require Import MPyC.RandomFns.
From Coq Require Import ZArith List Permutation.
Import ListNotations.
Local Open Scope nat_scope.

(** random_unit_vector: length n, entries 0/1 with sum 1 ... *)
Theorem C33_unit_vector_shape :
  forall (fuel : nat) (n : Z) (tp : tape) (u : list Z) (tp' : tape),
    (1 <= n)%Z -> bits tp -> random_unit_vector fuel n tp = Some (u, tp') ->
    length u = Z.to_nat n /\ (bits u /\ zsum u = 1%Z) /\ bits tp'.
Proof. exact unit_vector_shape. Qed.
Print Assumptions C33_unit_vector_shape.

(** ... i.e. exactly one 1, rest 0. *)
Theorem C33_unit_vector_onehot :
  forall (fuel : nat) (n : Z) (tp : tape) (u : list Z) (tp' : tape),
    (1 <= n)%Z -> bits tp -> random_unit_vector fuel n tp = Some (u, tp') ->
    exists j, j < Z.to_nat n /\ u = repeat 0%Z j ++ 1%Z :: repeat 0%Z (Z.to_nat n - 1 - j).
Proof. exact unit_vector_onehot. Qed.
Print Assumptions C33_unit_vector_onehot.

(** shuffle / random_permutation: a permutation of the input (Fisher-Yates with one-hot vectors = swaps). *)
Theorem C33_shuffle_perm :
  forall (fuel : nat) (x : list Z) (tp : tape) (r : list Z) (tp' : tape),
    bits tp -> shuffle fuel x tp = Some (r, tp') -> Permutation r x /\ bits tp'.
Proof. exact shuffle_perm. Qed.
Print Assumptions C33_shuffle_perm.

(** random_derangement: a permutation of x with y[i] <> x[i] at every position. *)
Theorem C33_derangement_no_fixed_point :
  forall (rounds fuel : nat) (x : list Z) (tp : tape) (y : list Z) (tp' : tape),
    bits tp -> random_derangement rounds fuel x tp = Some (y, tp') ->
    Permutation y x /\ (forall i, i < length x -> nth i y 0%Z <> nth i x 0%Z).
Proof. exact random_derangement_ok. Qed.
Print Assumptions C33_derangement_no_fixed_point.

(** sample, population branch: k elements that are a sub-selection (with multiplicity) of the population. *)
Theorem C33_sample_pop_subselection :
  forall (fuel : nat) (pop : list Z) (k : nat) (tp : tape) (r : list Z) (tp' : tape),
    k <= length pop -> bits tp -> sample_pop fuel pop k tp = Some (r, tp') ->
    length r = k /\ exists rest, Permutation (r ++ rest) pop.
Proof. exact sample_pop_subselection. Qed.
Print Assumptions C33_sample_pop_subselection.

(** choice returns a member of the sequence. *)
Theorem C33_choice_member :
  forall (fuel : nat) (seq : list Z) (tp : tape) (v : Z) (tp' : tape),
    bits tp -> choice fuel seq tp = Some (v, tp') -> In v seq.
Proof. exact choice_member. Qed.
Print Assumptions C33_choice_member.

(** getrandbits (and random, as scaled integer): a k-bit value. *)
Theorem C33_getrandbits_range :
  forall (k : nat) (tp : tape) (v : Z) (tp' : tape),
    bits tp -> getrandbits k tp = Some (v, tp') -> (0 <= v < 2 ^ Z.of_nat k)%Z /\ bits tp'.
Proof. exact getrandbits_range. Qed.
Print Assumptions C33_getrandbits_range.

(** _randbelow: 0 <= result < n, for every n >= 1 and every tape (fast path and rejection loop). *)
Theorem C33_randbelow_range :
  forall (fuel : nat) (n : Z) (tp : tape) (v : Z) (tp' : tape),
    (1 <= n)%Z -> bits tp -> randbelow fuel n tp = Some (v, tp') -> (0 <= v < n)%Z /\ bits tp'.
Proof. exact randbelow_range. Qed.
Print Assumptions C33_randbelow_range.

Theorem C33_randbelow_bits_range :
  forall (fuel : nat) (n : Z) (tp : tape) (x : list Z) (tp' : tape),
    (1 <= n)%Z -> bits tp -> randbelow_bits fuel n tp = Some (x, tp') ->
    bits x /\ length x = bit_length (n - 1) /\ (0 <= from_bits x < n)%Z /\ bits tp'.
Proof. exact randbelow_bits_range. Qed.
Print Assumptions C33_randbelow_bits_range.

(** randrange / randint: start + r*step with 0 <= r < len(range(start, stop, step)); within [start, stop) for step > 0. *)
Theorem C33_randrange_lattice :
  forall (fuel : nat) (start stop step : Z) (tp : tape) (v : Z) (tp' : tape),
    bits tp -> randrange fuel start stop step tp = Some (v, tp') ->
    exists r, (0 <= r < range_len start stop step)%Z /\ v = (start + r * step)%Z.
Proof. exact randrange_lattice. Qed.
Print Assumptions C33_randrange_lattice.

Theorem C33_randrange_within :
  forall (fuel : nat) (start stop step : Z) (tp : tape) (v : Z) (tp' : tape),
    bits tp -> (0 < step)%Z -> randrange fuel start stop step tp = Some (v, tp') ->
    (start <= v < stop)%Z /\ (step | v - start)%Z.
Proof. exact randrange_within. Qed.
Print Assumptions C33_randrange_within.

(** uniform (scaled integers a <= b, incl. a = b): a <= N <= b, and N < b when a < b; mirrored for b < a. *)
Theorem C33_uniform_within :
  forall (fuel : nat) (a b : Z) (tp : tape) (v : Z) (tp' : tape),
    bits tp -> (a <= b)%Z -> uniform_fxp fuel a b tp = Some (v, tp') ->
    (a <= v <= b)%Z /\ ((a < b)%Z -> (v < b)%Z).
Proof. exact uniform_within. Qed.
Print Assumptions C33_uniform_within.

Theorem C33_uniform_within_rev :
  forall (fuel : nat) (a b : Z) (tp : tape) (v : Z) (tp' : tape),
    bits tp -> (b < a)%Z -> uniform_fxp fuel a b tp = Some (v, tp') -> (b < v <= a)%Z.
Proof. exact uniform_within_rev. Qed.
Print Assumptions C33_uniform_within_rev.

(** choices with cum_weights= / weights= (nonnegative integer weights, positive total): members of the population. *)
Theorem C33_choices_cum_member :
  forall (fuel : nat) (pop cum : list Z) (k : nat) (tp : tape) (r : list Z) (tp' : tape),
    bits tp -> cum <> [] -> length cum = length pop -> nondecr 0 cum -> (0 < last cum 0)%Z ->
    choices_cum fuel pop cum k tp = Some (r, tp') -> Forall (fun v => In v pop) r.
Proof. exact choices_cum_member. Qed.
Print Assumptions C33_choices_cum_member.

Theorem C33_choices_weights_member :
  forall (fuel : nat) (pop w : list Z) (k : nat) (tp : tape) (r : list Z) (tp' : tape),
    bits tp -> w <> [] -> length w = length pop -> Forall (fun a => (0 <= a)%Z) w ->
    (0 < last (accumulate 0 w) 0)%Z ->
    choices_weights fuel pop w k tp = Some (r, tp') -> Forall (fun v => In v pop) r.
Proof. exact choices_weights_member. Qed.
Print Assumptions C33_choices_weights_member.

(** Uniformity by counting, for EVERY n >= 1; k = rb_k n = (n-1).bit_length() as the code computes it.
    (1) A tape holding exactly one pass (k bits) is accepted iff its value (little endian, as runtime.from_bits
        combines the bits) is < n; the output is that value and all k bits are consumed. *)
Theorem C33_randbelow_one_pass :
  forall (fuel : nat) (n : Z) (tp : tape),
    (1 <= n)%Z -> bits tp -> length tp = rb_k n -> rb_k n < fuel ->
    randbelow fuel n tp = if (from_bits tp <? n)%Z then Some (from_bits tp, []) else None.
Proof. exact randbelow_one_pass. Qed.
Print Assumptions C33_randbelow_one_pass.

(** (2) bits <-> value is a bijection between k-bit lists and [0, 2^k) ... *)
Theorem C33_bits_value_bijection :
  forall k : nat,
    (forall x, bits x -> length x = k -> (0 <= from_bits x < 2 ^ Z.of_nat k)%Z /\ tape_of k (from_bits x) = x) /\
    (forall v, (0 <= v < 2 ^ Z.of_nat k)%Z ->
       bits (tape_of k v) /\ length (tape_of k v) = k /\ from_bits (tape_of k v) = v).
Proof. exact bits_value_bijection. Qed.
Print Assumptions C33_bits_value_bijection.

(** ... hence for each v < n there is EXACTLY ONE one-pass tape accepted with output v: the accepted pass is uniform. *)
Theorem C33_randbelow_uniform_one_pass :
  forall (fuel : nat) (n v : Z), (1 <= n)%Z -> (0 <= v < n)%Z -> rb_k n < fuel ->
    exists! tp, length tp = rb_k n /\ bits tp /\ randbelow fuel n tp = Some (v, []).
Proof. exact randbelow_one_pass_unique. Qed.
Print Assumptions C33_randbelow_uniform_one_pass.

(** the accepted one-pass tapes are exactly the n encodings of 0..n-1 among the 2^k tapes *)
Theorem C33_randbelow_one_pass_accepts :
  forall (fuel : nat) (n : Z) (tp : tape), (1 <= n)%Z -> bits tp -> length tp = rb_k n -> rb_k n < fuel ->
    (exists r, randbelow fuel n tp = Some r) <-> (exists v, (0 <= v < n)%Z /\ tp = tape_of (rb_k n) v).
Proof. exact randbelow_one_pass_accepts. Qed.
Print Assumptions C33_randbelow_one_pass_accepts.

(** (3) Every pass, any remaining tape: at the start of a pass (register x of k bits, h = 1, i = k) the loop returns x
    iff value(x) < n; otherwise it rejects at the position j of [rb_pass], keeps x[:j], draws k-j bits and is at the
    start of a pass again (same form of state: this is the induction step over restarts). *)
Theorem C33_randbelow_pass_step :
  forall (n : Z) (fuel : nat) (x : list Z) (tp : tape),
    (2 <= n)%Z -> bits x -> length x = rb_k n -> rb_k n < fuel ->
    rb_loop fuel (n - 1) (rb_k n) (rb_t n) x 1 (rb_k n) tp =
    if (from_bits x <? n)%Z then Some (x, tp)
    else match rb_pass (n - 1) (rb_t n) x 1 (S (rb_k n)) (rb_k n) with
         | Some j => match draw (rb_k n - j) tp with
                     | None => None
                     | Some (nb, tp') =>
                       rb_loop (fuel - (rb_k n - j)) (n - 1) (rb_k n) (rb_t n) (firstn j x ++ nb) 1 (rb_k n) tp'
                     end
         | None => None
         end.
Proof. exact randbelow_pass_step. Qed.
Print Assumptions C33_randbelow_pass_step.

(** Conditional on a rejection at j: for EVERY k-bit string w = (retained low j bits ++ k-j fresh bits) the same high
    part of the register still rejects at j, the register of the next pass is w, and that pass accepts iff value(w) < n. *)
Theorem C33_randbelow_next_pass :
  forall (n : Z) (fuel : nat) (x : list Z) (j : nat) (w : list Z), (2 <= n)%Z ->
    bits x -> length x = rb_k n -> rb_pass (n - 1) (rb_t n) x 1 (S (rb_k n)) (rb_k n) = Some j ->
    bits w -> length w = rb_k n -> 2 * rb_k n < fuel ->
    rb_loop fuel (n - 1) (rb_k n) (rb_t n) (firstn j w ++ skipn j x) 1 (rb_k n) (skipn j w) =
    if (from_bits w <? n)%Z then Some (w, []) else None.
Proof. exact randbelow_next_pass. Qed.
Print Assumptions C33_randbelow_next_pass.

(** ... so for each v < n EXACTLY ONE (retained ++ fresh) string makes the pass after the rejection accept with v:
    conditional on acceptance at any pass, the output is uniform on range(n). *)
Theorem C33_randbelow_uniform_next_pass :
  forall (n : Z) (fuel : nat) (x : list Z) (j : nat) (v : Z), (2 <= n)%Z ->
    bits x -> length x = rb_k n -> rb_pass (n - 1) (rb_t n) x 1 (S (rb_k n)) (rb_k n) = Some j ->
    (0 <= v < n)%Z -> 2 * rb_k n < fuel ->
    exists! w, length w = rb_k n /\ bits w /\
      exists r, rb_loop fuel (n - 1) (rb_k n) (rb_t n) (firstn j w ++ skipn j x) 1 (rb_k n) (skipn j w) = Some (r, [])
                /\ from_bits r = v.
Proof. exact randbelow_next_pass_unique. Qed.
Print Assumptions C33_randbelow_uniform_next_pass.

(** the two-pass statement from the initial tape *)
Theorem C33_randbelow_two_pass :
  forall (n : Z) (fuel : nat) (x : list Z) (j : nat) (w : list Z), (2 <= n)%Z ->
    bits x -> length x = rb_k n -> rb_pass (n - 1) (rb_t n) x 1 (S (rb_k n)) (rb_k n) = Some j ->
    bits w -> length w = rb_k n -> 2 * rb_k n < fuel ->
    randbelow fuel n ((firstn j w ++ skipn j x) ++ skipn j w) =
    if (from_bits w <? n)%Z then Some (from_bits w, []) else None.
Proof. exact randbelow_two_pass. Qed.
Print Assumptions C33_randbelow_two_pass.

(** the same counting for getrandbits (= random) and randrange/randint *)
Theorem C33_getrandbits_uniform :
  forall (k : nat) (v : Z), (0 <= v < 2 ^ Z.of_nat k)%Z ->
    exists! tp, length tp = k /\ bits tp /\ getrandbits k tp = Some (v, []).
Proof. exact getrandbits_unique. Qed.
Print Assumptions C33_getrandbits_uniform.

Theorem C33_randrange_uniform_one_pass :
  forall (fuel : nat) (start stop step r : Z),
    step <> 0%Z -> (0 <= r < range_len start stop step)%Z -> rb_k (range_len start stop step) < fuel ->
    exists! tp, length tp = rb_k (range_len start stop step) /\ bits tp /\
                randrange fuel start stop step tp = Some ((start + r * step)%Z, []).
Proof. exact randrange_one_pass_unique. Qed.
Print Assumptions C33_randrange_uniform_one_pass.

(** _randbelow on a secure FIELD type with n = field order takes the direct path runtime._random: the sum of the senders'
    draws below p, modulo p.  In range, and uniform over the WHOLE field: for any draws of the other senders every field
    value v comes from exactly one draw r in range(p) of one sender. *)
Theorem C33_randbelow_order_range :
  forall (p : Z) (draws : list Z), (0 < p)%Z -> (0 <= randbelow_order p draws < p)%Z.
Proof. exact randbelow_order_range. Qed.
Print Assumptions C33_randbelow_order_range.

Theorem C33_randbelow_order_uniform :
  forall (p : Z) (rest : list Z) (v : Z), (0 < p)%Z -> (0 <= v < p)%Z ->
    exists! r, (0 <= r < p)%Z /\ randbelow_order p (r :: rest) = v.
Proof. exact randbelow_order_uniform. Qed.
Print Assumptions C33_randbelow_order_uniform.

Example C33_randbelow_order_nonvacuous :
  map (fun r => randbelow_order 11 [r; 7]%Z) (map Z.of_nat (seq 0 11)) = [7; 8; 9; 10; 0; 1; 2; 3; 4; 5; 6]%Z.
Proof. vm_compute. reflexivity. Qed.

(** Non-vacuity, n = 5 (k = 3, b = 4 = 100b, t = 1): the 8 one-pass tapes by value; 0..4 accepted with that value,
    5, 6, 7 rejected (at bit 1 resp. 0); after the rejection of 7 = [1;1;1] at j = 1 with w = enc 3 = [1;1;0] the
    tape (w[:1] ++ x[1:]) ++ w[1:] = [1;1;1] ++ [1;0] is accepted with 3. *)
Example C33_uniform_nonvacuous :
  rb_k 5 = 3 /\ rb_t 5 = 1 /\
  map (fun v => randbelow 10 5 (tape_of 3 (Z.of_nat v))) (seq 0 8) =
    [Some (0, []); Some (1, []); Some (2, []); Some (3, []); Some (4, []); None; None; None]%Z /\
  map (fun v => rb_pass 4 1 (tape_of 3 (Z.of_nat v)) 1 4 3) (seq 0 8) =
    [None; None; None; None; None; Some 0; Some 1; Some 1] /\
  randbelow 10 5 [1; 1; 1; 1; 0]%Z = Some (3%Z, []) /\
  randrange 10 2 17 3 (tape_of 3 4) = Some (14%Z, []).
Proof. vm_compute. repeat split; reflexivity. Qed.

(** The bits retained on a restart (x[:j]) are not inspected by the rejecting pass: any x' that agrees with x
    from position j upwards is rejected at the same position j. *)
Theorem C33_rejection_ignores_retained_bits :
  forall (b : Z) (t : nat), 1 <= t -> forall (steps : nat) (x x' : list Z) (h : Z) (i j : nat),
    rb_pass b t x h steps i = Some j ->
    (forall m, j <= m -> nth m x' 0%Z = nth m x 0%Z) ->
    rb_pass b t x' h steps i = Some j.
Proof. exact rb_pass_ignores_low_bits. Qed.
Print Assumptions C33_rejection_ignores_retained_bits.

Example C33_nonvacuous2 :
  randbelow 100 6 [1; 1; 1; 0; 1]%Z = Some (5%Z, []) /\          (* 7 rejected at bit 1... restart keeps bit 0 *)
  randrange 100 2 11 3 [0; 1]%Z = Some (8%Z, []) /\
  uniform_fxp 100 16 28 [1; 1; 0; 1]%Z = Some (27%Z, []) /\ uniform_fxp 100 16 16 [1]%Z = Some (16%Z, [1%Z]) /\
  uniform_fxp 100 28 16 [1; 1; 0; 1]%Z = Some (17%Z, []) /\
  choices_weights 100 [5; 7; 9]%Z [1; 2; 1]%Z 2 [1; 0; 1; 1]%Z = Some ([7; 9]%Z, []) /\
  rb_pass 5 2 [1; 1; 1]%Z 1 3 3 = Some 1 /\ rb_pass 5 2 [0; 1; 1]%Z 1 3 3 = Some 1.
Proof. vm_compute. repeat split; reflexivity. Qed.

(** Non-vacuity: concrete tapes on which the functions return [Some], incl. a restart. *)
Example C33_nonvacuous :
  bits [1; 0; 1; 1; 0; 0; 0]%Z /\
  random_unit_vector 100 5 [1; 0; 1; 1; 0; 0; 0]%Z = Some ([0; 0; 1; 0; 0]%Z, [0%Z]) /\
  shuffle 100 [10; 20; 30]%Z [1; 0; 0; 1; 1; 1]%Z = Some ([20; 30; 10]%Z, [1; 1; 1]%Z) /\
  random_derangement 5 100 [3; 9; 5]%Z [0; 1; 1; 1; 0; 0]%Z = Some ([9; 5; 3]%Z, []) /\
  sample_pop 100 [3; 9; 5; 1]%Z 2 [1; 0; 0; 1]%Z = Some ([9; 3]%Z, []) /\
  choice 100 [5; 7; 9]%Z [1; 0]%Z = Some (7%Z, []) /\
  getrandbits 3 [1; 0; 1]%Z = Some (5%Z, []).
Proof.
  split; [repeat constructor; (left; reflexivity) || (right; reflexivity)|].
  vm_compute. repeat split; reflexivity.
Qed.
