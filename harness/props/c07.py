"""C07 — input, output and transfer reach exactly the designated parties.

Proof: coq/props/C07.v over coq/theories/Routing.v (routing functions of transfer / _distribute /
output for all m, thresholds, receiver lists, graphs; recombination at every receiver via C12's interpolation theorem).
Tie: the real runtime runs in the m-party simulator on every sender/receiver subset and graph
(m <= 4 exhaustive, larger m sampled); per operation the parties' results are checked against an
independent oracle (the property itself) and the ME.send/receive log of every party is compared
with the Coq functions evaluated by vm_compute on the same arguments.

This module also holds the helpers shared with c19.py (op runner on the simulator).
"""
import itertools, pickle, random

MANIFEST = {
    'text': 'Coq theorems over the routing model (Routing.v), for ALL m, thresholds t\' < m, receiver lists and graphs: '
            'transfer (bipartite / dict / pair-list forms, every party incl. parties that are not a key of a dict graph): '
            'i sends to j iff j expects i iff (i,j) is a designated arc, each party returns its designated senders\' objects '
            'in sender order, a party without sender returns [] (None for an int sender), a party that is not a dict key '
            'sends nothing; output: every receive has its send and vice versa, a receiver waits for t\' distinct other '
            'parties, and (abstract field, via the C12 interpolation theorem) recombines exactly the shared value from its '
            'own + t\' predecessor shares whenever the sharing has degree <= t\', so all receivers agree; random_split '
            'dealing followed by output opens to the input for any coefficient tape. Tied every run: simulator over all '
            'sender x receiver subsets (incl. int senders with restricted receivers), all dict graphs (full and with nodes '
            'omitted) and pair graphs (m<=3), all receiver subsets x thresholds t..2t, all sender subsets for input; '
            'message logs, results and recombined values compared exactly with the model by vm_compute.',
    'note': 'Trusted: Coq kernel + vm_compute; the hand-written routing model of the repaired transfer code (repo commits '
            '5a43ef0, cb049a3; findings F-C07-1/2 fixed), tied by exact comparison of per-party send/receive sequences, '
            'results and Z_p recombination values on every run; the simulator (fake transports, real MessageExchanger/'
            'Runtime). Pickle is an opaque token in the model (round trip on the payload pool is checked by the harness '
            'only). Secure floats / group elements / GF(2^k): implementation-level oracle only (their _input/_output '
            'plumbing is not modelled); F-C07-3 (secure float output with empty receiver list raised ValueError) is '
            'repaired in /repo (c7bb64a) and checked as an ordinary case; open finding there: F-C07-4 (list of tuple-share group elements: non-receiver gets r*n '
            'Nones). Lists with duplicate party indices are outside the theorems that need NoDup and are not generated. '
            'm <= 4 exhaustive for subsets (m <= 3 for arbitrary graphs), m = 5..7 sampled; recombined values compared for '
            'a random 30% of numeric outputs in the quick tier. Tiny secure fields SecFld(2)/SecFld(3) (SecFld(4) at m=3) in own sessions m=3,4,5,8 '
            '(9 thorough), t>=1: every sender subset input and opened, every receiver subset x threshold output (oracle '
            'only; the extension-field lift q^e > m is not modelled); transfer of tiny-field values is not exercised. '
            'Sessions with threshold in force != start-up option ((m,t0,t) = (3,0,1),(3,1,0),(5,2,1),(5,1,2)): model '
            'evaluated with the threshold in force. Aliasing stream (m=1 -M1 and m=3): every list/dict argument of '
            'output / input / transfer is changed in place by the caller between the call and the await; expected = '
            'model on the call-time arguments; output receivers late read F-C07-5 fixed (8b4dfdd); transfer reads all '
            'its arguments late (coroutine annotated -> Future has no synchronous part): open finding F-C07-6.',
    'technique': 'Coq proof (lia over Z mod, Lagrange interpolation) + multi-party simulator correspondence by vm_compute',
}

POOL = [0, -1, 2 ** 70, 'text', '', b'\x00\xff', None, [1, [2, [3]]], {'a': [1, 2], 'b': {'c': None}}, (1, 'x'),
        3.5, True, frozenset({1, 2}), {'k': b'bytes'}, [], {}, 'x' * 300, [None, None], -2 ** 40, ('t', (0, ()))]


def payload(k, pid):
    item = POOL[(k * 7 + pid * 3) % len(POOL)]
    mode = (k + pid) % 3
    if mode == 0:
        return item
    if mode == 1:
        return [pid, item]
    return {'from': pid, 'item': item}


def op_payload(op, k, pid):
    """The object party pid hands to transfer in op k (aliasing ops: a fresh mutable list owned by the caller)."""
    if 'alias' in op:
        return [pid, 'a', 'b', k]
    return payload(k, pid)


MUTATIONS = ('reverse', 'overwrite', 'del', 'append', 'clear')


def apply_mutation(c, mutation, filler, filler2=None):
    """In-place change of the caller's own container, made between the call and the await."""
    if isinstance(c, dict):
        keys = list(c)
        if mutation == 'clear':
            c.clear()
        elif not keys:
            return
        elif mutation == 'reverse':
            c[keys[0]].reverse()
        elif mutation == 'overwrite':
            c[keys[0]] = []
        elif mutation == 'del':
            del c[keys[0]]
        elif mutation == 'append':
            c[keys[0]].append(filler)
        return
    if mutation == 'reverse':
        c.reverse()
    elif mutation == 'overwrite':
        if c:
            c[0] = filler
    elif mutation == 'del':
        if c:
            del c[-1]
    elif mutation == 'append':
        c.append(filler if filler2 is None else filler2)
    elif mutation == 'clear':
        c.clear()


def subsets(m):
    return [list(c) for r in range(m + 1) for c in itertools.combinations(range(m), r)]


def mkarg(spec):
    """JSON-able argument spec -> the Python argument passed to the runtime."""
    if spec is None:
        return None
    kind = spec[0]
    if kind == 'int':
        return spec[1]
    if kind == 'list':
        return list(spec[1])
    if kind == 'tuple':
        return tuple(spec[1])
    if kind == 'range':
        return range(*spec[1:])           # ['range', start, stop] or ['range', start, stop, step]
    raise ValueError(spec)


def arglist(spec, m):
    """The party list an argument denotes (independent reading of the docstrings)."""
    if spec is None:
        return list(range(m))
    if spec[0] == 'int':
        return [spec[1]]
    if spec[0] == 'range':
        return list(range(*spec[1:]))
    return list(spec[1])


def coq_natlist(xs):
    return '[' + '; '.join(str(int(x)) for x in xs) + ']'


# ------------------------------------------------------------------------------------------------
# typed test values

FLOATS = [1.5, -0.75, 0.0, 3.0, 1024.0, -0.001953125, 96.5]
PERMS = list(itertools.permutations(range(3)))
NUMERIC = ('secint', 'secfxp', 'secfld')
TINY = {'fld2': 2, 'fld3': 3, 'fld4': 4}     # tiny secure fields: lifted to an extension GF(q^e), q^e > m, when m >= q and t > 0
FIELD_TYPES = ('secfld2',) + tuple(TINY)
TUPLE_SHARE = ('symgrp',)      # secure group elements whose share is a tuple of field elements


def make_env(mpc):
    env = {'mpc': mpc}
    env['secint'] = mpc.SecInt(16)
    env['secfxp'] = mpc.SecFxp(16, 8)
    env['secfld'] = mpc.SecFld(101)
    env['secfld2'] = mpc.SecFld(2 ** 4)
    env['_lazy'] = {}
    return env


def stype_of(env, st):
    if st in env:
        return env[st]
    mpc = env['mpc']
    if st == 'secflt':
        env[st] = mpc.SecFlt(16)
    elif st == 'symgrp':
        env[st] = mpc.SecSymmetricGroup(3)
    elif st == 'qr':
        env[st] = mpc.SecQuadraticResidues(l=8)
    elif st in TINY:
        env[st] = mpc.SecFld(TINY[st])
    return env[st]


def plain_value(env, st, v):
    """The v-th plain test value of the type (what a sender inputs / what an output must give)."""
    T = stype_of(env, st)
    if st == 'secint':
        return v - 3
    if st == 'secfxp':
        return (v - 3) + 0.5
    if st == 'secfld':
        return v % 101
    if st == 'secfld2':
        return v % 16
    if st in TINY:
        return v % TINY[st]
    if st == 'secflt':
        return FLOATS[v % len(FLOATS)]
    if st == 'symgrp':
        return T.group(list(PERMS[v % 6]))
    if st == 'qr':
        return T.group.generator ^ (v % 7 + 1)
    raise ValueError(st)


def canon(st, r):
    """Canonical, comparable form of an output value (None stays None)."""
    if r is None:
        return None
    if st == 'secint':
        return int(r)
    if st in ('secfxp', 'secflt'):
        return float(r)
    if st in ('secfld', 'secfld2') or st in TINY:
        return int(r)
    return str(r)


def modulus_of(env, st):
    return int(stype_of(env, st).field.modulus)


def raw_secret(env, st, v):
    """Field value (0..p-1) whose sharing the parties hold for plain value v (prime-field types)."""
    p = modulus_of(env, st)
    if st == 'secint':
        return (v - 3) % p
    if st == 'secfxp':
        return int(((v - 3) + 0.5) * 2 ** 8) % p
    return v % 101


def raw_to_canon(st, a, p):
    """Model field value -> canonical output value (the runtime's output conversion, re-stated)."""
    if st == 'secfld':
        return a
    s = a if a <= p // 2 else a - p
    return s if st == 'secint' else s / 2 ** 8


def poly_coeffs(k, deg):
    return [(k * 5 + 3 * j + 1) for j in range(1, deg + 1)]


# ------------------------------------------------------------------------------------------------
# executing one op at one party

async def exec_op(op, k, env, pid, m, mark):
    """Run op k at this party. mark(name) delimits the measured phase. Returns a result record."""
    mpc = env['mpc']
    kind = op['op']
    if kind == 'transfer':
        kw = {}
        if op['form'] == 'bip':
            if 'senders' in op:
                kw['senders'] = mkarg(op['senders'])
            if 'receivers' in op:
                kw['receivers'] = mkarg(op['receivers'])
        elif op['form'] == 'dict':
            kw['sender_receivers'] = {a: mkarg(b) for a, b in op['items']}
        else:
            kw['sender_receivers'] = [tuple(ab) for ab in op['pairs']]
        mark('main')
        obj = op_payload(op, k, pid)
        fut = mpc.transfer(obj, **kw)
        al = op.get('alias')
        if al:          # the caller goes on and changes ITS OWN objects before awaiting the result
            if al['arg'] == 'obj':
                apply_mutation(obj, al['mutation'], 'X')
            else:
                c = kw[al['arg']]
                if al['arg'] == 'sender_receivers' and not isinstance(c, dict):
                    apply_mutation(c, al['mutation'], ((c[0][0] + 1) % m, c[0][1]) if c else (0, 0))
                else:
                    first = (list(c)[0] if c else 0)
                    apply_mutation(c, al['mutation'], (first + 1) % m, (first + 2) % m)
        r = await fut
        mark('end')
        return {'res': r}
    if kind == 'input':
        st = op['stype']
        T = stype_of(env, st)
        n = op.get('n')
        vals = [(k + 2 * pid + 3 * h) % 11 for h in range(n if n is not None else 1)]
        xs = [T(plain_value(env, st, v)) for v in vals]
        mark('main')
        snd = mkarg(op['senders'])
        y = mpc.input(xs if n is not None else xs[0], senders=snd)
        al = op.get('alias')
        if al:
            if al['arg'] == 'x':
                apply_mutation(xs, al['mutation'], T(plain_value(env, st, 9)))
            else:
                apply_mutation(snd, al['mutation'], (snd[0] + 1) % m if snd else 0, (snd[0] + 2) % m if snd else 0)
        # flatten to the list of secure objects in (sender, element) order
        if op['senders'] is not None and op['senders'][0] == 'int':
            flat = list(y) if n is not None else [y]
        else:
            flat = [a for row in y for a in row] if n is not None else list(y)
        shares = []
        if st in NUMERIC or st in FIELD_TYPES:
            shares = await mpc.gather(flat)
        elif st == 'secflt':
            await mpc.gather([c for a in flat for c in a.share])
        else:
            await mpc.gather([c for a in flat for c in (a.share if isinstance(a.share, tuple) else (a.share,))])
        mark('open')
        opened = await mpc.output(flat) if flat else []
        mark('end')
        rec = {'res': [canon(st, r) for r in opened], 'shape': _shape(y)}
        if st in NUMERIC:
            p = modulus_of(env, st)
            rec['shares'] = [int(s.value) % p for s in shares]
        return rec
    if kind == 'output':
        st = op['stype']
        T = stype_of(env, st)
        n = op.get('n')
        cnt = n if n is not None else 1
        vals = [(k + 5 * h) % 11 for h in range(cnt)]
        if op['src'] == 'poly':
            F = T.field
            p = modulus_of(env, st)
            xs = []
            for h, v in enumerate(vals):
                cs = poly_coeffs(k + h, op['deg'])
                sh = (raw_secret(env, st, v) + sum(c * (pid + 1) ** (j + 1) for j, c in enumerate(cs))) % p
                xs.append(T(F(sh)) if st != 'secfxp' else T(F(sh), integral=False))
        else:
            dealer = op['dealer']
            ins = [T(plain_value(env, st, v if pid == dealer else 0)) for v in vals]
            xs = mpc.input(ins, senders=dealer)
        shares = []
        if st in NUMERIC or st in FIELD_TYPES:
            shares = await mpc.gather(xs)
        elif st == 'secflt':
            await mpc.gather([c for a in xs for c in a.share])
        else:
            await mpc.gather([c for a in xs for c in (a.share if isinstance(a.share, tuple) else (a.share,))])
        kw = {}
        if 'receivers' in op:
            kw['receivers'] = mkarg(op['receivers'])
        if op.get('threshold') is not None:
            kw['threshold'] = op['threshold']
        if op.get('raw'):
            kw['raw'] = True
        mark('main')
        fut = mpc.output(xs if n is not None else xs[0], **kw)
        al = op.get('alias')
        if al:
            if al['arg'] == 'x':
                apply_mutation(xs, al['mutation'], T(plain_value(env, st, 9)))
            else:
                c = kw['receivers']
                apply_mutation(c, al['mutation'], (c[0] + 1) % m if c else 0, (c[0] + 2) % m if c else 0)
        r = await fut
        mark('end')
        rl = r if n is not None else [r]
        if op.get('raw'):     # field elements: compare as residues
            p = modulus_of(env, st)
            rec = {'res': [None if a is None else int(a.value) % p for a in rl],
                   'want': [raw_secret(env, st, v) for v in vals]}
        else:
            rec = {'res': [canon(st, a) for a in rl] if isinstance(rl, list) else rl,
                   'want': [canon(st, plain_value(env, st, v)) for v in vals]}
        if st in NUMERIC:
            p = modulus_of(env, st)
            rec['shares'] = [int(s.value) % p for s in shares]
            rec['p'] = p
        return rec
    raise ValueError(kind)


def _shape(y):
    if isinstance(y, list):
        return [_shape(a) for a in y]
    return 0


def run_ops(m, t, ops, seed, no_prss=False, policy=None, idle_limit=300, t0=None):
    """Run the op sequence at all m parties in one simulator. Returns dict:
    recs[pid] = list of per-op records (as far as the party got), status[pid] = 'ok'|'PENDING'|('EXC',..),
    excs = exception type names seen by the loop, wire = per-link frame count check."""
    from lib.sim import Sim
    sim = Sim(m, t if t0 is None else t0, no_prss=no_prss, seed=seed)
    if t0 is not None:
        # the program assigns mpc.threshold before mpc.start() (as demos/parallelsort.py does): the runtime came up
        # with options.threshold = t0 (command line), everything must follow the threshold in force t
        for mpc_i in sim.mpcs:
            mpc_i.threshold = t
        sim.t = t           # sim.frames() skips the PRSS-key handshake computed from the threshold in force
    excs = []
    closing = []

    def handler(loop, c):
        e = c.get('exception')
        if e is not None and not closing and type(e).__name__ != 'CancelledError':
            excs.append(type(e).__name__)
    sim.loop.set_exception_handler(handler)
    recs = [[] for _ in range(m)]
    out = {'recs': recs, 'excs': excs, 'm': m, 't': t}
    try:
        st = sim.start()
        if not sim.started:
            out['status'] = [('EXC', 'start failed %r' % (st,))] * m
            return out

        async def prog(mpc, mods, pid):
            env = make_env(mpc)
            ml = sim.msglog[pid]
            tapes = sim.secrets[pid].log
            for k, op in enumerate(ops):
                marks = {}

                def mark(name, marks=marks):
                    marks[name] = (len(ml), [len(sim.net.stream[(pid, q)]) for q in range(m)], len(tapes))
                rec = {'k': k, 'marks': marks}
                recs[pid].append(rec)
                try:
                    rec.update(await exec_op(op, k, env, pid, m, mark))
                except Exception as e:  # raised synchronously into the caller
                    rec['exc'] = '%s: %s' % (type(e).__name__, str(e)[:120])
                    rec['res'] = ('EXC', type(e).__name__)
                    mark('end')
                a, b = marks['main'][0], marks.get('open', marks['end'])[0]
                rec['log'] = [(kd, peer, pc) for kd, peer, pc, _ in ml[a:b]]
                b0, b1 = marks['main'][1], marks.get('open', marks['end'])[1]
                rec['bytes'] = [y - x for x, y in zip(b0, b1)]
                rec['draws'] = marks.get('open', marks['end'])[2] - marks['main'][2]
                rec['done'] = True
            return 'ok'
        try:
            out['status'] = sim.run(prog, policy, idle_limit=idle_limit)
        except Exception as e:   # raised by the runtime's protocol code while the wire delivers (e.g. duplicate label)
            excs.append('delivery:' + type(e).__name__)
            out['status'] = ['PENDING'] * m
        # independent frame parser vs ME.send log: same number of frames on every link
        wire_ok = True
        for i in range(m):
            for j in range(m):
                if i != j:
                    fr, rest = sim.frames(i, j)
                    nsend = sum(1 for kd, peer, _, _ in sim.msglog[i] if kd == 'send' and peer == j)
                    if len(fr) != nsend or rest:
                        wire_ok = False
        out['wire_ok'] = wire_ok
        out['frames'] = {(i, j): sim.frames(i, j)[0] for i in range(m) for j in range(m) if i != j}
    finally:
        closing.append(True)
        sim.close()
    return out


def first_stuck(run, nops):
    """(op index, parties stuck there) of the earliest op some party did not finish, or None."""
    k = min((len([r for r in rs if r.get('done')]) for rs in run['recs']), default=nops)
    if k >= nops:
        return None
    return k, [pid for pid, rs in enumerate(run['recs']) if len([r for r in rs if r.get('done')]) == k]


def sends_of(rec):
    return [peer for kd, peer, pc in rec['log'] if kd == 'send']


def recvs_of(rec):
    return [peer for kd, peer, pc in rec['log'] if kd == 'recv']


# ------------------------------------------------------------------------------------------------
# oracles (plain Python reading of the property) and Coq expressions

def transfer_oracle(op, m):
    """Expected result per party as a list of sender ids (or for an int sender: id / None), and arcs."""
    if op['form'] == 'bip':
        S, R = arglist(op.get('senders'), m), arglist(op.get('receivers'), m)
        sender_int = op.get('senders') is not None and op['senders'][0] == 'int'
        exp = []
        for j in range(m):
            if sender_int:
                exp.append(('one', S[0]) if j in R else ('none',))
            else:
                exp.append(('list', list(S) if j in R else []))
        arcs = {(i, j) for i in S for j in R}
    elif op['form'] == 'dict':
        items = [(a, arglist(b, m)) for a, b in op['items']]
        exp = [('list', [a for a, b in items if j in b]) for j in range(m)]
        arcs = {(a, j) for a, b in items for j in b}
    else:
        g = [tuple(ab) for ab in op['pairs']]
        exp = [('list', [a for a, b in g if b == j]) for j in range(m)]
        arcs = set(g)
    return exp, arcs


def transfer_coq(op, m):
    if op['form'] == 'bip':
        S, R = arglist(op.get('senders'), m), arglist(op.get('receivers'), m)
        G = 'Bip %s %s' % (coq_natlist(S), coq_natlist(R))
        if op.get('senders') is not None and op['senders'][0] == 'int':
            return ('let G := %s in map (fun pid => (transfer_sends G pid, transfer_recvs G pid, '
                    'transfer_result_int (fun i => i) %d %s pid)) (seq 0 %d)' % (G, S[0], coq_natlist(R), m))
    elif op['form'] == 'dict':
        G = 'Dict [%s]' % '; '.join('(%d, %s)' % (a, coq_natlist(arglist(b, m))) for a, b in op['items'])
    else:
        G = 'Pairs [%s]' % '; '.join('(%d, %d)' % tuple(ab) for ab in op['pairs'])
    return ('let G := %s in map (fun pid => (transfer_sends G pid, transfer_recvs G pid, '
            'transfer_result (fun i => i) G pid)) (seq 0 %d)' % (G, m))


def is_risky(op, m):
    """Call forms that kill the calling coroutine: run in their own simulator.  None since F-C07-3 (secure float
    output with an empty receiver list) was repaired in /repo (c7bb64a); such calls are ordinary batch cases now and
    the canonical witness is still run alone as well."""
    return False


def risky_sig(op, m, run):
    cls, exc = 'output secflt empty-receivers', 'ValueError'
    seen = sorted(set(run['excs']))
    if seen == [exc]:
        return '%s %s m=%d' % (cls, exc, m)
    return '%s unexpected %s m=%d' % (cls, seen, m)


# ------------------------------------------------------------------------------------------------
# op generators

def gen_transfer_ops(m, rng, exhaustive, nsample):
    ops = []
    subs = subsets(m)
    pairs = [(S, R) for S in subs for R in subs]
    if not exhaustive:
        pairs = rng.sample(pairs, min(nsample, len(pairs))) + [([], []), (list(range(m)), []), ([], list(range(m)))]
    for S, R in pairs:
        S2, R2 = list(S), list(R)
        if rng.random() < 0.5:
            rng.shuffle(S2)
            rng.shuffle(R2)
        op = {'op': 'transfer', 'form': 'bip', 'senders': ['list', S2], 'receivers': ['list', R2]}
        # argument-form variants denoting the same sets
        if S2 == list(range(m)) and rng.random() < 0.5:
            op['senders'] = rng.choice([None, ['range', 0, m]])
            if op['senders'] is None:
                del op['senders']
        if R2 == list(range(m)) and rng.random() < 0.5:
            op['receivers'] = rng.choice([None, ['range', 0, m]])
            if op['receivers'] is None:
                del op['receivers']
        if len(R2) == 1 and rng.random() < 0.5:
            op['receivers'] = ['int', R2[0]]
        if len(S2) == 1 and rng.random() < 0.6:
            op['senders'] = ['int', S2[0]]
        if 'senders' in op and op['senders'][0] == 'list' and len(S2) > 1 and S2 == list(range(S2[0], S2[-1] + 1)) \
                and rng.random() < 0.3:
            op['senders'] = ['range', S2[0], S2[-1] + 1]
        ops.append(op)
    for s in range(m):     # int sender, default receivers; int sender and int receiver
        ops.append({'op': 'transfer', 'form': 'bip', 'senders': ['int', s]})
        ops.append({'op': 'transfer', 'form': 'bip', 'senders': ['int', s], 'receivers': ['int', (s + 1) % m]})
        ops.append({'op': 'transfer', 'form': 'bip', 'receivers': ['int', s]})
    ops.append({'op': 'transfer', 'form': 'bip'})
    return ops


def all_graphs(m):
    cells = [(i, j) for i in range(m) for j in range(m)]
    for bits in range(2 ** len(cells)):
        yield [c for b, c in enumerate(cells) if bits >> b & 1]


def gen_graph_ops(m, rng, exhaustive, nsample):
    ops = []
    if exhaustive:
        graphs = list(all_graphs(m))
    else:
        cells = [(i, j) for i in range(m) for j in range(m)]
        graphs = [[c for c in cells if rng.random() < dens] for dens in (0.15, 0.3, 0.5, 0.8) for _ in range(nsample // 4)]
        graphs += [[], cells]
    for g in graphs:
        adj = {i: [j for a, j in g if a == i] for i in range(m)}
        keys = list(range(m))
        if rng.random() < 0.5:
            rng.shuffle(keys)
            for i in keys:
                rng.shuffle(adj[i])
        items = []
        for i in keys:
            b = ['list', adj[i]]
            if adj[i] and adj[i] == list(range(adj[i][0], adj[i][-1] + 1)) and rng.random() < 0.3:
                b = ['range', adj[i][0], adj[i][-1] + 1]
            elif rng.random() < 0.2:
                b = ['tuple', adj[i]]
            items.append([i, b])
        ops.append({'op': 'transfer', 'form': 'dict', 'items': items})
        # the documented short form: nodes without outgoing arcs omitted (ordinary since repo commit 5a43ef0)
        short = [it for it in items if arglist(it[1], m)]
        if len(short) < m:
            ops.append({'op': 'transfer', 'form': 'dict', 'items': short})
        pl = [list(c) for c in g]
        if rng.random() < 0.7:
            rng.shuffle(pl)
        ops.append({'op': 'transfer', 'form': 'pairs', 'pairs': pl})
    return ops


def gen_input_ops(m, rng, exhaustive, nsample, stypes):
    ops = []
    subs = subsets(m)
    if not exhaustive:
        subs = rng.sample(subs, min(nsample, len(subs))) + [[], list(range(m))]
    for S in subs:
        for st in stypes:
            S2 = list(S)
            if rng.random() < 0.5:
                rng.shuffle(S2)
            forms = [['list', S2]]
            if len(S2) == 1:
                forms.append(['int', S2[0]])
            if S2 == list(range(m)):
                forms.append(None)
            for f in forms:
                ops.append({'op': 'input', 'stype': st, 'senders': f, 'n': rng.choice([None, None, 1, 2, 3])})
    ops.append({'op': 'input', 'stype': 'secint', 'senders': ['list', list(range(m))], 'n': 0})
    return ops


def gen_output_ops(m, t, rng, exhaustive, nsample, stypes):
    ops = []
    subs = subsets(m)
    if not exhaustive:
        subs = rng.sample(subs, min(nsample, len(subs))) + [[], list(range(m))]
        subs += [r for r in (list(range(0, m, 2)), list(range(1, m, 2))) if len(r) >= 2 and r not in subs]
    ths = sorted(set(range(t, 2 * t + 1)))
    for R in subs:
        for st in stypes:
            for th in ths:
                R2 = list(R)
                if rng.random() < 0.5:
                    rng.shuffle(R2)
                op = {'op': 'output', 'stype': st, 'receivers': ['list', R2], 'threshold': th,
                      'n': rng.choice([None, None, 2, 3])}
                if len(R2) == 1 and rng.random() < 0.5:
                    op['receivers'] = ['int', R2[0]]
                Rs = sorted(R)
                if len(Rs) >= 2 and len({b - a for a, b in zip(Rs, Rs[1:])}) == 1 and rng.random() < 0.7:
                    # an arithmetic progression given as a Python range (contiguous or STEPPED), or as a tuple
                    step = Rs[1] - Rs[0]
                    op['receivers'] = ['range', Rs[0], Rs[-1] + 1, step] if rng.random() < 0.8 else ['tuple', Rs]
                if R2 == list(range(m)) and rng.random() < 0.5:
                    del op['receivers']
                if th == t and rng.random() < 0.5:
                    op['threshold'] = None
                if st in NUMERIC and rng.random() < 0.6:
                    op['src'] = 'poly'
                    op['deg'] = rng.choice([th, th, max(th - 1, 0), 0])
                else:
                    op['src'] = 'input'
                    op['dealer'] = rng.randrange(m)
                if st in NUMERIC and rng.random() < 0.3:
                    op['raw'] = True
                ops.append(op)
    return ops


def gen_alias_ops(m, t):
    """call; mutate the caller's own container in place; await.  Expected = call-time arguments.
    Order: output, input (believed clean), transfer last (open finding: a hang there must not hide the others)."""
    ops = []
    a, b = 0, (1 % m)
    R2 = [a] if m == 1 else [b, a]

    def al(base, arg, mut):
        o = dict(base)
        o['alias'] = {'arg': arg, 'mutation': mut}
        return o
    for mut in MUTATIONS:
        for st in ('secint', 'secfxp'):
            base = {'op': 'output', 'stype': st, 'threshold': None, 'n': 3, 'src': 'input', 'dealer': 0}
            ops.append(al(dict(base, receivers=['list', [a]]), 'receivers', mut))
            ops.append(al(dict(base, receivers=['list', list(R2)]), 'receivers', mut))
            ops.append(al(dict(base, receivers=['list', [a]]), 'x', mut))
            ops.append(al(dict(base, receivers=['range', 0, max(1, m - 1)]), 'x', mut))
            ops.append(al(dict(base), 'x', mut))
    for mut in MUTATIONS:
        for st in ('secint', 'secfld'):
            ops.append(al({'op': 'input', 'stype': st, 'senders': ['list', [a]], 'n': 3}, 'x', mut))
            ops.append(al({'op': 'input', 'stype': st, 'senders': ['list', [a]], 'n': 3}, 'senders', mut))
            ops.append(al({'op': 'input', 'stype': st, 'senders': ['list', list(R2)], 'n': 2}, 'senders', mut))
            ops.append(al({'op': 'input', 'stype': st, 'senders': ['range', 0, m], 'n': 2}, 'x', mut))
    allp = list(range(m))
    for mut in MUTATIONS:
        bip = {'op': 'transfer', 'form': 'bip', 'senders': ['list', [a]], 'receivers': ['list', list(allp)]}
        ops.append(al(bip, 'obj', mut))
        ops.append(al(bip, 'senders', mut))
        ops.append(al(bip, 'receivers', mut))
        ops.append(al({'op': 'transfer', 'form': 'bip', 'senders': ['list', list(R2)], 'receivers': ['list', [a]]}, 'senders', mut))
        ops.append(al({'op': 'transfer', 'form': 'bip', 'senders': ['list', list(R2)], 'receivers': ['list', [a]]}, 'receivers', mut))
        ops.append(al({'op': 'transfer', 'form': 'dict', 'items': [[a, ['list', list(allp)]]]}, 'sender_receivers', mut))
        ops.append(al({'op': 'transfer', 'form': 'dict', 'items': [[i, ['list', [a]]] for i in allp]}, 'sender_receivers', mut))
        ops.append(al({'op': 'transfer', 'form': 'pairs', 'pairs': [[a, j] for j in allp]}, 'sender_receivers', mut))
        ops.append(al({'op': 'transfer', 'form': 'dict', 'items': [[a, ['list', list(allp)]]]}, 'obj', mut))
    return ops


# ------------------------------------------------------------------------------------------------
# checking one batch

def alias_sig(op, m, sig):
    al = op.get('alias')
    if not al:
        return sig
    return 'aliasing %s arg=%s mutation=%s m=%d (%s)' % (op['op'], al['arg'], al['mutation'], m, sig)


def describe(op):
    return {k: v for k, v in op.items()}


def check_batch(ctx, m, t, no_prss, ops, run, exprs, meta, tag, t0=None):
    """Property oracle on every finished op of a batch; queue the Coq expressions."""
    nops = len(ops)
    stuck = first_stuck(run, nops)
    upto = nops if stuck is None else stuck[0]
    cfg = {'m': m, 't': t, 'no_prss': no_prss}
    if t0 is not None:
        cfg['threshold_at_startup'] = t0
    if not run.get('wire_ok', True):
        ctx.violation('%s wire frames differ from send log m=%d' % (tag, m), {'config': cfg})
    for k in range(upto):
        op = ops[k]
        recs = [run['recs'][pid][k] for pid in range(m)]
        nmsg = sum(len(sends_of(r)) for r in recs)

        class _V:        # aliasing ops report under their own signature class
            @staticmethod
            def violation(sig, detail, op=op):
                return ctx.violation(alias_sig(op, m, sig), detail)
        V = _V if 'alias' in op else ctx
        raised = [{'party': j, 'exception': recs[j]['exc']} for j in range(m) if 'exc' in recs[j]]
        if raised:
            V.violation('%s raised %s m=%d' % (op['op'] + '/' + str(op.get('form', op.get('stype'))),
                                                  raised[0]['exception'], m),
                          {'config': cfg, 'op': describe(op), 'k': k, 'raised': raised})
            ctx.case({'cfg': cfg, 'op': op}, nontrivial=False, kind='raised')
            continue
        if op['op'] == 'transfer':
            exp, arcs = transfer_oracle(op, m)
            bad = []
            for j in range(m):
                r = recs[j]['res']
                if exp[j][0] == 'list':
                    want = [op_payload(op, k, i) for i in exp[j][1]]
                    good = isinstance(r, list) and r == want and [type(a) for a in r] == [type(a) for a in want]
                elif exp[j][0] == 'one':
                    want = op_payload(op, k, exp[j][1])
                    good = (r == want and type(r) is type(want))
                else:
                    want = None
                    good = r is None
                if not good:
                    bad.append({'party': j, 'got': repr(r)[:200], 'want': repr(want)[:200]})
            if bad:
                V.violation('transfer wrong-result form=%s m=%d' % (op['form'], m),
                              {'config': cfg, 'op': describe(op), 'k': k, 'bad': bad})
            exprs.append(transfer_coq(op, m))
            meta.append(('transfer', cfg, op, k, recs))
            nontrivial = m >= 2 and nmsg > 0
            ctx.case({'cfg': cfg, 'op': op}, nontrivial=nontrivial, kind='transfer/' + op['form'])
        elif op['op'] == 'input':
            S = arglist(op['senders'], m)
            n = op.get('n')
            cnt = n if n is not None else 1
            st = op['stype']
            want = []
            for s in S:
                for h in range(cnt):
                    want.append(_plain_canon(st, (k + 2 * s + 3 * h) % 11))
            bad = [{'party': j, 'got': repr(recs[j]['res'])[:200], 'want': repr(want)[:200]}
                   for j in range(m) if recs[j]['res'] != want]
            # shape of the returned structure
            sender_int = op['senders'] is not None and op['senders'][0] == 'int'
            if sender_int:
                shape = 0 if n is None else [0] * n
            else:
                shape = [0] * len(S) if n is None else [[0] * n for _ in S]
            bad += [{'party': j, 'shape': recs[j]['shape'], 'want_shape': shape}
                    for j in range(m) if recs[j]['shape'] != shape]
            if bad:
                V.violation('input wrong-value stype=%s m=%d' % (st, m),
                              {'config': cfg, 'op': describe(op), 'k': k, 'bad': bad})
            if st in NUMERIC and cnt > 0:
                exprs.append('map (fun p => (input_sends %d %s p, input_recvs %s p)) (seq 0 %d)'
                             % (m, coq_natlist(S), coq_natlist(S), m))
                meta.append(('input', cfg, op, k, recs))
            ctx.case({'cfg': cfg, 'op': op}, nontrivial=m >= 2 and nmsg > 0, kind='input/' + st)
        else:
            R = arglist(op.get('receivers'), m)
            n = op.get('n')
            st = op['stype']
            bad = []
            badlen = []
            for j in range(m):
                got = recs[j]['res']
                want = recs[j]['want'] if j in R else [None] * len(recs[j]['want'])
                if got != want:
                    if (j not in R and isinstance(got, list) and all(g is None for g in got) and st in TUPLE_SHARE
                            and n is not None):
                        badlen.append({'party': j, 'got': repr(got)[:200], 'want': repr(want)[:200]})
                    else:
                        bad.append({'party': j, 'got': repr(got)[:200], 'want': repr(want)[:200]})
            if badlen:
                V.violation('output secgrp tuple-share list non-receiver None-count stype=%s m=%d' % (st, m),
                              {'config': cfg, 'op': describe(op), 'k': k, 'bad': badlen})
            vals = {repr(recs[j]['res']) for j in R if j < m}
            if len(vals) > 1:
                bad.append({'receivers disagree': sorted(vals)})
            if bad:
                V.violation('output wrong-value stype=%s m=%d' % (st, m),
                              {'config': cfg, 'op': describe(op), 'k': k, 'bad': bad})
            if st in NUMERIC:
                th = t if op.get('threshold') is None else op['threshold']
                p = recs[0]['p']
                rows = '[%s]%%Z' % '; '.join('[%s]' % '; '.join(str(v) for v in recs[j]['shares']) for j in range(m))
                routes = 'map (fun p => (out_sends %d %d %s p, out_recvs %d %d %s p)) (seq 0 %d)' % (
                    m, th, coq_natlist(R), m, th, coq_natlist(R), m)
                values = 'map (fun r => zp_output (%d)%%Z %d %d %s r %s) (seq 0 %d)' % (
                    p, m, th, coq_natlist(R), rows, m)
                # the recombined values are the costly part of the model evaluation: a bounded random sample
                with_values = ctx.rng.random() < ctx.n(0.3, 1.0)
                exprs.append('(%s, %s)' % (routes, values) if with_values else '(%s, @nil (option (list Z)))' % routes)
                meta.append(('output', cfg, op, k, recs))
            ctx.case({'cfg': cfg, 'op': op}, nontrivial=m >= 2 and 0 < len(set(R)) and nmsg > 0, kind='output/' + st)
    if stuck is not None:
        k, who = stuck
        op = ops[k]
        ctx.violation(alias_sig(op, m, '%s incomplete m=%d' % (op['op'] + ('/' + op.get('form', op.get('stype', ''))), m)),
                      {'config': cfg, 'op': describe(op), 'k': k, 'stuck_parties': who, 'exceptions': run['excs'][:6],
                       'status': [s if s == 'ok' else str(s) for s in run['status']]})


_PLAIN_ENV = {}


def _plain_canon(st, v):
    """canon(plain_value) without a runtime, for the numeric types used by input ops."""
    if st == 'secint':
        return v - 3
    if st == 'secfxp':
        return (v - 3) + 0.5
    if st == 'secfld':
        return v % 101
    if st == 'secfld2':
        return v % 16
    if st in TINY:
        return v % TINY[st]
    if st == 'secflt':
        return float(FLOATS[v % len(FLOATS)])
    if st == 'symgrp':
        return str(tuple(PERMS[v % 6]))
    raise ValueError(st)


def compare_model(ctx, res, meta):
    """Exact comparison of the Coq model's values with what the implementation did."""
    mism = 0
    for r, mt in zip(res, meta):
        kind, cfg, op, k, recs = mt
        m = cfg['m']
        if isinstance(r, tuple) and r and r[0] == 'ERROR':
            mism += 1
            ctx.broken.append({'kind': 'correspondence', 'what': 'coq evaluation failed', 'op': op, 'detail': r[1]})
            continue
        diffs = []
        if kind == 'transfer':
            sender_int = op['form'] == 'bip' and op.get('senders') is not None and op['senders'][0] == 'int'
            for pid in range(m):
                ms, mrecvs, mres = r[pid]
                log = recs[pid]['log']
                kinds = [kd for kd, _, _ in log]
                if kinds != sorted(kinds, key=lambda x: x != 'send'):
                    diffs.append((pid, 'sends not before receives', kinds))
                if sends_of(recs[pid]) != ms:
                    diffs.append((pid, 'sends', sends_of(recs[pid]), ms))
                if recvs_of(recs[pid]) != mrecvs:
                    diffs.append((pid, 'recvs', recvs_of(recs[pid]), mrecvs))
                if sender_int:     # option: None | Some i
                    want = None if mres is None else op_payload(op, k, mres[1])
                else:
                    want = [op_payload(op, k, i) for i in mres]
                got = recs[pid]['res']
                if got != want or (want is None) != (got is None):
                    diffs.append((pid, 'result', repr(got)[:100], mres))
        elif kind == 'input':
            for pid in range(m):
                ms, mr = r[pid]
                if sends_of(recs[pid]) != ms:
                    diffs.append((pid, 'sends', sends_of(recs[pid]), ms))
                if recvs_of(recs[pid]) != mr:
                    diffs.append((pid, 'recvs', recvs_of(recs[pid]), mr))
        else:
            routes, vals = r
            st = op['stype']
            p = recs[0]['p']
            if vals:
                ctx.extra['output_values_compared'] = ctx.extra.get('output_values_compared', 0) + 1
            for pid in range(m):
                ms, mr = routes[pid]
                if sends_of(recs[pid]) != ms:
                    diffs.append((pid, 'sends', sends_of(recs[pid]), ms))
                if recvs_of(recs[pid]) != mr:
                    diffs.append((pid, 'recvs', recvs_of(recs[pid]), mr))
                if not vals:
                    continue
                mv = vals[pid]
                got = recs[pid]['res']
                if mv is None:
                    if any(g is not None for g in got):
                        diffs.append((pid, 'value', got, None))
                else:
                    wantv = [raw_to_canon(st, a, p) for a in mv[1]]
                    gotv = got
                    if op.get('raw'):
                        wantv = [a % p for a in mv[1]]
                    if gotv != wantv:
                        diffs.append((pid, 'value', gotv, wantv))
        if diffs and 'alias' in op:
            # the model is evaluated on the arguments as passed at call time: a difference means the
            # operation followed the caller's later change of its own object -> the property fails
            mism += 1
            ctx.violation(alias_sig(op, m, 'routing/result differs from the call-time arguments'),
                          {'config': cfg, 'op': describe(op), 'k': k, 'diffs': [list(map(str, d)) for d in diffs[:6]]})
        elif diffs:
            mism += 1
            ctx.broken.append({'kind': 'correspondence', 'what': kind, 'config': cfg, 'op': op, 'diffs': diffs[:4]})
    return mism


def run_risky(ctx, m, t, op, seed, exprs, meta):
    """One predicted-to-fail call form in its own simulator: test the property for it all the same."""
    run = run_ops(m, t, [op], seed, idle_limit=120)
    cfg = {'m': m, 't': t, 'no_prss': False}
    stuck = first_stuck(run, 1)
    if stuck is None:
        # the call form works (repaired implementation): ordinary oracle + correspondence of routing
        check_batch(ctx, m, t, False, [op], run, [], [], 'risky')
        return 'completed'
    outcome = []
    for pid in range(m):
        rs = run['recs'][pid]
        outcome.append(repr(rs[0]['res'])[:80] if rs and rs[0].get('done') else 'never completes')
    sig = risky_sig(op, m, run)
    ctx.violation(sig, {'config': cfg, 'op': describe(op), 'per_party': outcome, 'exceptions': run['excs'][:6]})
    ctx.case({'cfg': cfg, 'op': op, 'risky': True}, nontrivial=True, kind='predicted-failure/' + op['op'])
    return 'failed'


def run(ctx):
    ok = ctx.build(['MPyC.Routing']) and ctx.check_props()
    ctx.rule = ('case = one transfer/input/output call in an m-party simulator run, keyed by (m,t,prss,argument forms, '
                'type, threshold); all sender x receiver subsets and (m<=3) all 2^(m*m) graphs in dict and pair-list form '
                'for m<=4, random subsets/graphs for m=5..7; non-trivial = m>=2 and at least one frame crosses the network; '
                'distinct by the full argument spec')
    ctx.explanation = ('Coq theorems for all m / thresholds / receiver lists / graphs; every simulator case is checked '
                       'against a plain-Python oracle of the property and against the Coq routing functions and Z_p '
                       'recombination evaluated by vm_compute on the same arguments and shares')
    rng = ctx.rng
    for x in POOL:
        assert pickle.loads(pickle.dumps(x)) == x
    thorough = ctx.tier == 'thorough'
    configs = [(1, 0, False), (2, 0, False), (3, 1, False), (3, 1, True), (4, 1, False)]
    sampled = [(5, 2, False), (6, 2, True), (7, 3, False)]
    if thorough:
        sampled += [(5, 1, False), (5, 2, True), (6, 2, False)]
    exprs, meta = [], []
    risky = []
    nbatch = 0
    for (m, t, no_prss) in configs + sampled:
        exhaustive = (m, t, no_prss) in configs
        ops = []
        light = no_prss and m == 3            # the PRSS-off twin of (3,1): routing is PRSS-independent, smaller run
        if light:
            ops += gen_transfer_ops(m, rng, False, 20)
            ops += gen_graph_ops(m, rng, False, 24)
            ops += gen_input_ops(m, rng, True, 0, ['secint'])
            ops += gen_output_ops(m, t, rng, True, 0, ['secint', 'secfld'])
        else:
            ops += gen_transfer_ops(m, rng, exhaustive, ctx.n(24, 80))
            ops += gen_graph_ops(m, rng, exhaustive and m <= 3, ctx.n(40, 200) if m == 4 else ctx.n(16, 60))
            ops += gen_input_ops(m, rng, exhaustive, ctx.n(5, 12), list(NUMERIC) + (['secfld2'] if m <= 4 else []))
            ops += gen_output_ops(m, t, rng, exhaustive, ctx.n(6, 16), list(NUMERIC) + (['secfld2'] if m <= 4 else []))
            # secure floats / group elements: implementation-level oracle only
            if 2 <= m <= 5:
                extra_in = gen_input_ops(m, rng, m <= 3, 3, ['secflt', 'symgrp'])
                extra_out = gen_output_ops(m, t, rng, m <= 3, 3, ['secflt', 'symgrp', 'qr'])
                ops += [o for o in extra_in if o.get('n') != 0] + extra_out
        if m >= 3:   # the two formerly failing call forms of F-C07-1/2, now ordinary cases
            ops.append({'op': 'transfer', 'form': 'bip', 'senders': ['int', 0], 'receivers': ['list', [1]]})
            ops.append({'op': 'transfer', 'form': 'dict', 'items': [[0, ['list', [1]]]]})
        rng.shuffle(ops)
        safe = [o for o in ops if not is_risky(o, m)]
        risky += [(m, t, o) for o in ops if is_risky(o, m)]
        if m == 1:
            # asyncio-less single party still goes through the same code
            pass
        ctx.log('config m=%d t=%d prss=%s: %d ops in one simulator run' % (m, t, not no_prss, len(safe)))
        run_ = run_ops(m, t, safe, ctx.seed * 131 + m * 7 + t, no_prss=no_prss)
        check_batch(ctx, m, t, no_prss, safe, run_, exprs, meta, 'batch')
        nbatch += 1
    # tiny secure fields (SecFld(2), SecFld(3), SecFld(4)): with t >= 1 and m >= q the sharing field is an extension
    # GF(q^e) that must have MORE than m elements (x-coordinates 1..m distinct and nonzero) - m = q^e is the edge
    tiny_sessions = [(3, 1, False), (4, 1, False), (5, 2, False), (5, 1, True), (8, 3, True)]
    if thorough:
        tiny_sessions += [(4, 1, True), (8, 2, True), (9, 4, True)]
    for (m, t, no_prss) in tiny_sessions:
        types = ['fld2', 'fld3'] + (['fld4'] if m < 4 else [])     # SecFld(4) with m >= 4, t > 0 is refused by assert
        small = m >= 8
        ops = gen_input_ops(m, rng, m <= 4, 3 if small else ctx.n(6, 14), types)
        ops += gen_output_ops(m, t, rng, m <= 4, 3 if small else ctx.n(6, 14), types)
        ops = [o for o in ops if o.get('n') != 0]
        if small:
            ops = [o for o in ops if o.get('threshold') in (None, t)]
        rng.shuffle(ops)
        ctx.log('tiny-field session m=%d t=%d prss=%s: %d ops' % (m, t, not no_prss, len(ops)))
        run_ = run_ops(m, t, ops, ctx.seed * 139 + m * 11 + t, no_prss=no_prss)
        check_batch(ctx, m, t, no_prss, ops, run_, exprs, meta, 'tiny-field')
        nbatch += 1
    # sessions whose threshold in force differs from the start-up option: Sim(m, t0); mpc.threshold = t; start
    for (m, t0, t) in ((3, 0, 1), (3, 1, 0), (5, 2, 1), (5, 1, 2)):
        ex = m <= 3
        types = list(NUMERIC) + ['fld2', 'fld3']
        ops = gen_transfer_ops(m, rng, False, ctx.n(10, 30))
        ops += gen_input_ops(m, rng, ex, ctx.n(6, 14), types)
        ops += gen_output_ops(m, t, rng, ex, ctx.n(6, 14), types)
        ops += [o for o in gen_output_ops(m, t, rng, False, 2, ['secflt', 'symgrp']) if not is_risky(o, m)]
        ops = [o for o in ops if o.get('n') != 0 or o['stype'] == 'secint']
        rng.shuffle(ops)
        ctx.log('threshold session m=%d start-up t0=%d, in force t=%d: %d ops' % (m, t0, t, len(ops)))
        run_ = run_ops(m, t, ops, ctx.seed * 149 + m * 5 + t0 * 3 + t, t0=t0)
        check_batch(ctx, m, t, False, ops, run_, exprs, meta, 'threshold-session', t0=t0)
        nbatch += 1
    # aliasing stream: late reads of caller-owned mutable arguments (asynchronous mode: -M1 and m=3)
    nalias = 0
    for (m, t) in ((1, 0), (3, 1)):
        aops = gen_alias_ops(m, t)
        ctx.log('aliasing stream m=%d: %d call/mutate/await ops' % (m, len(aops)))
        run_ = run_ops(m, t, aops, ctx.seed * 257 + m, idle_limit=200)
        check_batch(ctx, m, t, False, aops, run_, exprs, meta, 'aliasing')
        nalias += len(aops)
    ctx.extra['aliasing_ops'] = nalias
    # predicted failures, each alone in a fresh simulator (they kill the calling party)
    rng.shuffle(risky)
    by_class = {}
    for (m, t, o) in risky:
        if m < 2 or m > 4:
            continue
        cls = (o['op'], o.get('form', o.get('stype')), m)
        by_class.setdefault(cls, []).append((m, t, o))
    # canonical witness first
    chosen = [(3, 1, {'op': 'output', 'stype': 'secflt', 'receivers': ['list', []], 'threshold': None, 'n': None,
                      'src': 'input', 'dealer': 0})]
    per = ctx.n(3, 12)
    for cls in sorted(by_class, key=str):
        chosen += by_class[cls][:per]
    outcomes = {'failed': 0, 'completed': 0}
    for i, (m, t, o) in enumerate(chosen):
        outcomes[run_risky(ctx, m, t, o, ctx.seed * 17 + i, exprs, meta)] += 1
    ctx.log('predicted-failure call forms: %d run alone, %s' % (len(chosen), outcomes))
    ctx.extra['predicted_failure_forms'] = {'run': len(chosen), **outcomes, 'not_run_this_tier': max(len(risky) - len(chosen) + 1, 0)}
    if outcomes['completed'] and not outcomes['failed']:
        ctx.notes.append('all predicted-failure call forms completed: implementation repaired')
    ctx.log('%d simulator cases; evaluating %d model expressions in Coq' % (ctx.evaluations, len(exprs)))
    if ok:
        res = ctx.coq_eval(['MPyC.Routing'], exprs, chunk=250)
        mism = compare_model(ctx, res, meta)
        ctx.extra['traces_validated_against_impl'] = len(exprs) - mism
        nal = sum(1 for mt in meta if 'alias' in mt[2])
        ctx.log('model/implementation disagreements: %d (of %d; %d aliasing ops, where a disagreement with the '
                'call-time model is reported as a violation of the property)' % (mism, len(exprs), nal))
    ctx.extra['simulator_runs'] = nbatch + len(chosen)
    ctx.notes.append('subsets exhaustive for (m,t) in %s; sampled for %s' % (
        [c[:2] for c in configs], [c[:2] for c in sampled]))
    if ctx.broken and not ctx.violations:
        ctx.unproved('C07 model/proof', {'broken': ctx.broken[:5]})
