(** C17 — model of [mpyc.thresha.PRF] (thresha.py, class PRF).

    [PRF.__init__]  : byte_length = ((bound-1).bit_length() + 7) // 8, plus len(key) when
                      [bound & (bound-1)] is nonzero (bound not a power of two).
    [PRF.__call__]  : n_ = 1 if n is None else n (prod of the shape for a tuple);
                      n_ = 0 -> nothing; byte_length = 0 -> n_ zeros (SHAKE not called);
                      otherwise dk = shake_128(key + s).digest(n_ * l) and the values are
                      int.from_bytes(dk[i:i+l], 'little') % bound for i in range(0, n_*l, l).

    SHAKE-128 is NOT modelled: the digest bytes are an explicit argument of [prf_out]; for
    statements relating calls with different n the XOF of the fixed (key, s) is a Section
    variable [xof : nat -> list Z] (output length -> bytes) with the single assumed law
    [prefix] (an extendable-output function's shorter output is a prefix of its longer output).
    Determinism is definitional: [prf_list]/[prf_scalar] are Gallina functions of
    (xof, keylen, bound, n), i.e. of (key, s, bound, n). *)
From Coq Require Import ZArith List Lia Bool.
Require Import MPyC.Base.
Import ListNotations.
Local Open Scope Z_scope.

(** Python's int.bit_length (of |x|). *)
Definition bit_length (x : Z) : Z :=
  let a := Z.abs x in if a =? 0 then 0 else Z.log2 a + 1.

(** [not (bound & (bound - 1))] *)
Definition pow2_test (b : Z) : bool := Z.land b (b - 1) =? 0.

Definition byte_length (bound keylen : Z) : Z :=
  let l := (bit_length (bound - 1) + 7) / 8 in
  if pow2_test bound then l else l + keylen.

(** int.from_bytes(bs, 'little') *)
Fixpoint le_decode (bs : list Z) : Z :=
  match bs with [] => 0 | b :: r => b + 256 * le_decode r end.

(** x.to_bytes(l, 'little') for 0 <= x < 256^l *)
Fixpoint le_encode (l : nat) (x : Z) : list Z :=
  match l with O => [] | S k => x mod 256 :: le_encode k (x / 256) end.

(** dk[i:i+l] *)
Definition slice (dk : list Z) (i l : nat) : list Z := firstn l (skipn i dk).

(** The values produced by one call, given the digest bytes [dk] (n_ = n values). *)
Definition prf_out (dk : list Z) (l : nat) (bound : Z) (n : nat) : list Z :=
  match n with
  | O => []
  | _ => match l with
         | O => repeat 0 n
         | _ => map (fun j => le_decode (slice dk (j * l) l) mod bound) (seq 0 n)
         end
  end.

(** number of digest bytes requested by the call (0: SHAKE is not called) *)
Definition digest_len (l n : nat) : nat := (n * l)%nat.

Definition prod_shape (shape : list nat) : nat := fold_left Nat.mul shape 1%nat.

(** Entry point used by the correspondence: byte_length computed by the model, digest as data. *)
Definition prf_data (dk : list Z) (keylen bound : Z) (n : nat) : Z * list Z :=
  let l := byte_length bound keylen in (l, prf_out dk (Z.to_nat l) bound n).

(* ------------------------------------------------------------------------------------ *)
(** * bit_length, power-of-two test, byte_length *)

Lemma bit_length_spec x : 0 <= x -> x < 2 ^ bit_length x /\ 0 <= bit_length x.
Proof.
  intros Hx. unfold bit_length. rewrite Z.abs_eq by exact Hx.
  destruct (x =? 0) eqn:E.
  - apply Z.eqb_eq in E. subst. simpl. lia.
  - apply Z.eqb_neq in E. assert (Hp : 0 < x) by lia.
    pose proof (Z.log2_spec x Hp) as [_ H2]. pose proof (Z.log2_nonneg x).
    replace (Z.log2 x + 1) with (Z.succ (Z.log2 x)) by lia. split; [exact H2|lia].
Qed.

Lemma bit_length_lower x : 0 < x -> 2 ^ (bit_length x - 1) <= x.
Proof.
  intros Hx. unfold bit_length. rewrite Z.abs_eq by lia.
  destruct (x =? 0) eqn:E; [apply Z.eqb_eq in E; lia|].
  replace (Z.log2 x + 1 - 1) with (Z.log2 x) by lia. apply Z.log2_spec. exact Hx.
Qed.

Lemma bit_length_pow2_pred k : 0 <= k -> bit_length (2 ^ k - 1) = k.
Proof.
  intros Hk. unfold bit_length.
  assert (H1 : 0 < 2 ^ k) by (apply Z.pow_pos_nonneg; lia).
  rewrite Z.abs_eq by lia.
  destruct (2 ^ k - 1 =? 0) eqn:E.
  - apply Z.eqb_eq in E. destruct (Z.eq_dec k 0) as [->|Hk0]; [reflexivity|].
    exfalso. assert (2 ^ 1 <= 2 ^ k) by (apply Z.pow_le_mono_r; lia). simpl in *. lia.
  - apply Z.eqb_neq in E.
    assert (Hk1 : 1 <= k).
    { destruct (Z.eq_dec k 0) as [->|]; [simpl in E; lia|lia]. }
    rewrite (Z.log2_unique (2 ^ k - 1) (k - 1)); [lia|lia|].
    replace (Z.succ (k - 1)) with k by lia.
    assert (2 ^ k = 2 * 2 ^ (k - 1)).
    { rewrite <- Z.pow_succ_r by lia. f_equal. lia. }
    assert (0 < 2 ^ (k - 1)) by (apply Z.pow_pos_nonneg; lia). lia.
Qed.

Lemma pow2_test_pow2 k : 0 <= k -> pow2_test (2 ^ k) = true.
Proof.
  intros Hk. unfold pow2_test. apply Z.eqb_eq.
  replace (2 ^ k - 1) with (Z.ones k) by (rewrite Z.ones_equiv; lia).
  rewrite Z.land_ones by exact Hk. apply Z.mod_same.
  assert (0 < 2 ^ k) by (apply Z.pow_pos_nonneg; lia). lia.
Qed.

Lemma pow2_test_true b : 1 <= b -> pow2_test b = true -> b = 2 ^ Z.log2 b.
Proof.
  intros Hb Ht. unfold pow2_test in Ht. apply Z.eqb_eq in Ht.
  assert (Hp : 0 < b) by lia.
  pose proof (Z.log2_spec b Hp) as [Hlo Hhi]. pose proof (Z.log2_nonneg b) as Hk.
  destruct (Z.eq_dec b (2 ^ Z.log2 b)) as [E|E]; [exact E|exfalso].
  assert (Hlog : Z.log2 (b - 1) = Z.log2 b).
  { apply Z.log2_unique; [exact Hk|]. lia. }
  assert (B1 : Z.testbit b (Z.log2 b) = true) by (apply Z.bit_log2; exact Hp).
  assert (B2 : Z.testbit (b - 1) (Z.log2 b) = true).
  { rewrite <- Hlog. apply Z.bit_log2. lia. }
  assert (B3 : Z.testbit (Z.land b (b - 1)) (Z.log2 b) = true).
  { rewrite Z.land_spec, B1, B2. reflexivity. }
  rewrite Ht, Z.bits_0 in B3. discriminate.
Qed.

(** [bound & (bound-1) == 0] exactly for the powers of two (bound >= 1). *)
Lemma pow2_test_spec b : 1 <= b -> (pow2_test b = true <-> exists k, 0 <= k /\ b = 2 ^ k).
Proof.
  intros Hb. split.
  - intros H. exists (Z.log2 b). split; [apply Z.log2_nonneg|apply pow2_test_true; assumption].
  - intros [k [Hk ->]]. apply pow2_test_pow2. exact Hk.
Qed.

Lemma pow256 l : 0 <= l -> 256 ^ l = 2 ^ (8 * l).
Proof. intros Hl. rewrite Z.pow_mul_r by lia. reflexivity. Qed.

Lemma base_length_covers bound : 1 <= bound ->
  bound <= 256 ^ ((bit_length (bound - 1) + 7) / 8) /\ 0 <= (bit_length (bound - 1) + 7) / 8.
Proof.
  intros Hb. destruct (bit_length_spec (bound - 1)) as [H1 H0]; [lia|].
  set (b := bit_length (bound - 1)) in *.
  assert (Hl : 0 <= (b + 7) / 8) by (apply Z.div_pos; lia).
  split; [|exact Hl]. rewrite pow256 by exact Hl.
  assert (b <= 8 * ((b + 7) / 8)).
  { pose proof (Z.div_mod (b + 7) 8 ltac:(lia)). pose proof (Z.mod_pos_bound (b + 7) 8 ltac:(lia)). lia. }
  assert (2 ^ b <= 2 ^ (8 * ((b + 7) / 8))) by (apply Z.pow_le_mono_r; lia).
  lia.
Qed.

(** 256^byte_length >= bound: a slice can represent every value below bound. *)
Theorem byte_length_covers bound keylen : 1 <= bound -> 0 <= keylen ->
  bound <= 256 ^ byte_length bound keylen /\ 0 <= byte_length bound keylen.
Proof.
  intros Hb Hk. destruct (base_length_covers bound Hb) as [H1 H0].
  unfold byte_length. set (l := (bit_length (bound - 1) + 7) / 8) in *.
  destruct (pow2_test bound); [split; assumption|]. split; [|lia].
  assert (256 ^ l <= 256 ^ (l + keylen)) by (apply Z.pow_le_mono_r; lia). lia.
Qed.

(** powers of two: exactly ceil(k/8) bytes, no key-length extra *)
Theorem byte_length_pow2 k keylen : 0 <= k -> byte_length (2 ^ k) keylen = (k + 7) / 8.
Proof.
  intros Hk. unfold byte_length. rewrite pow2_test_pow2, bit_length_pow2_pred by exact Hk. reflexivity.
Qed.

(** all other bounds: len(key) extra bytes, so that 256^l >= bound * 256^keylen
    (the bias of [mod bound] is below 256^(-keylen)). *)
Theorem byte_length_extra bound keylen : 1 <= bound -> 0 <= keylen ->
  (forall k, 0 <= k -> bound <> 2 ^ k) ->
  byte_length bound keylen = (bit_length (bound - 1) + 7) / 8 + keylen /\
  bound * 256 ^ keylen <= 256 ^ byte_length bound keylen.
Proof.
  intros Hb Hk Hn. unfold byte_length.
  destruct (pow2_test bound) eqn:E.
  - apply pow2_test_spec in E; [|exact Hb]. destruct E as [k [Hk0 Ek]]. exfalso. exact (Hn k Hk0 Ek).
  - split; [reflexivity|]. destruct (base_length_covers bound Hb) as [H1 H0].
    rewrite Z.pow_add_r by lia.
    assert (0 < 256 ^ keylen) by (apply Z.pow_pos_nonneg; lia). nia.
Qed.

Theorem byte_length_extra_iff bound keylen : 1 <= bound ->
  (byte_length bound keylen = (bit_length (bound - 1) + 7) / 8 + keylen /\ keylen <> 0) ->
  forall k, 0 <= k -> bound <> 2 ^ k.
Proof.
  intros Hb [H Hk] k Hk0 E. subst bound. rewrite byte_length_pow2 in H by exact Hk0.
  rewrite bit_length_pow2_pred in H by exact Hk0. lia.
Qed.

Lemma byte_length_one keylen : byte_length 1 keylen = 0.
Proof. reflexivity. Qed.

(* ------------------------------------------------------------------------------------ *)
(** * little-endian decode / encode *)

Lemma le_encode_length l : forall x, length (le_encode l x) = l.
Proof. induction l as [|l IH]; intros x; simpl; [reflexivity|]. rewrite IH. reflexivity. Qed.

Lemma le_encode_bytes l : forall x, Forall (fun b => 0 <= b < 256) (le_encode l x).
Proof.
  induction l as [|l IH]; intros x; simpl; constructor.
  - apply Z.mod_pos_bound. lia.
  - apply IH.
Qed.

Lemma le_decode_encode l : forall x, 0 <= x < 256 ^ Z.of_nat l -> le_decode (le_encode l x) = x.
Proof.
  induction l as [|l IH]; intros x Hx.
  - simpl in *. lia.
  - cbn [le_encode le_decode]. rewrite IH.
    + pose proof (Z.div_mod x 256 ltac:(lia)). lia.
    + rewrite Nat2Z.inj_succ, Z.pow_succ_r in Hx by lia.
      split; [apply Z.div_pos; lia|]. apply Z.div_lt_upper_bound; lia.
Qed.

Lemma le_decode_range bs : Forall (fun b => 0 <= b < 256) bs ->
  0 <= le_decode bs < 256 ^ Z.of_nat (length bs).
Proof.
  induction 1 as [|b r Hb Hr IH]; [simpl; lia|].
  cbn [le_decode length]. rewrite Nat2Z.inj_succ, Z.pow_succ_r by lia. lia.
Qed.

Lemma le_encode_decode bs : Forall (fun b => 0 <= b < 256) bs ->
  le_encode (length bs) (le_decode bs) = bs.
Proof.
  induction 1 as [|b r Hb Hr IH]; [reflexivity|].
  cbn [le_decode length le_encode].
  assert (E1 : (b + 256 * le_decode r) mod 256 = b).
  { replace (b + 256 * le_decode r) with (b + le_decode r * 256) by lia.
    rewrite Z.mod_add by lia. apply Z.mod_small. exact Hb. }
  assert (E2 : (b + 256 * le_decode r) / 256 = le_decode r).
  { replace (b + 256 * le_decode r) with (b + le_decode r * 256) by lia.
    rewrite Z.div_add by lia. rewrite (Z.div_small b 256) by exact Hb. lia. }
  rewrite E1, E2, IH. reflexivity.
Qed.

(* ------------------------------------------------------------------------------------ *)
(** * outputs: length, range, bound 1 *)

Theorem prf_length dk l bound n : length (prf_out dk l bound n) = n.
Proof.
  unfold prf_out. destruct n as [|n]; [reflexivity|]. destruct l as [|l].
  - apply repeat_length.
  - rewrite map_length, seq_length. reflexivity.
Qed.

Theorem prf_none dk l bound : prf_out dk l bound 0 = [].
Proof. reflexivity. Qed.

Theorem prf_range dk l bound n : 1 <= bound ->
  Forall (fun v => 0 <= v < bound) (prf_out dk l bound n).
Proof.
  intros Hb. unfold prf_out. destruct n as [|n]; [constructor|]. destruct l as [|l].
  - apply Forall_forall. intros v Hv. apply repeat_spec in Hv. subst. lia.
  - apply Forall_forall. intros v Hv. apply in_map_iff in Hv. destruct Hv as [j [<- _]].
    apply Z.mod_pos_bound. lia.
Qed.

(** bound = 1: byte_length is 0 for every key, the digest is not used, all outputs are 0. *)
Theorem prf_bound_one dk dk' keylen n :
  byte_length 1 keylen = 0 /\
  prf_out dk (Z.to_nat (byte_length 1 keylen)) 1 n = repeat 0 n /\
  prf_out dk (Z.to_nat (byte_length 1 keylen)) 1 n = prf_out dk' (Z.to_nat (byte_length 1 keylen)) 1 n.
Proof.
  rewrite byte_length_one. simpl. split; [reflexivity|].
  destruct n; simpl; split; reflexivity.
Qed.

Lemma prf_nth dk l bound n i : (i < n)%nat -> (0 < l)%nat ->
  nth i (prf_out dk l bound n) 0 = le_decode (slice dk (i * l) l) mod bound.
Proof.
  intros Hi Hl. unfold prf_out. destruct n as [|n]; [lia|]. destruct l as [|l]; [lia|].
  rewrite (nth_map_seq (fun j => le_decode (slice dk (j * S l) (S l)) mod bound) 0 (S n) i 0 Hi).
  reflexivity.
Qed.

Lemma prf_nth_zero dk bound n i : nth i (prf_out dk 0 bound n) 0 = 0.
Proof.
  unfold prf_out. destruct n as [|n]; [destruct i; reflexivity|].
  destruct (Nat.lt_ge_cases i (S n)) as [H|H].
  - apply nth_repeat.
  - apply nth_overflow. rewrite repeat_length. exact H.
Qed.

Lemma slice_firstn dk a l b : (a + l <= b)%nat -> slice (firstn b dk) a l = slice dk a l.
Proof.
  intros H. unfold slice. rewrite skipn_firstn_comm, firstn_firstn.
  f_equal. lia.
Qed.

Theorem prod_shape_nil : prod_shape [] = 1%nat.
Proof. reflexivity. Qed.

(* ------------------------------------------------------------------------------------ *)
(** * calls with different n on the same (key, s): the XOF as an oracle *)

Section XOF.
  Variable xof : nat -> list Z.          (* digest(k) of shake_128(key + s) *)
  Hypothesis prefix : forall a b, (a <= b)%nat -> firstn a (xof b) = xof a.
  Variables keylen bound : Z.

  Definition blen : nat := Z.to_nat (byte_length bound keylen).

  (** PRF(key, bound)(s, n) for an integer n *)
  Definition prf_list (n : nat) : list Z := prf_out (xof (digest_len blen n)) blen bound n.
  (** PRF(key, bound)(s) *)
  Definition prf_scalar : Z := nth 0 (prf_list 1) 0.
  (** PRF(key, bound)(s, shape), flattened in C order *)
  Definition prf_shape (shape : list nat) : list Z := prf_list (prod_shape shape).

  Theorem prf_list_length n : length (prf_list n) = n.
  Proof. apply prf_length. Qed.

  Theorem prf_shape_length shape : length (prf_shape shape) = prod_shape shape.
  Proof. apply prf_length. Qed.

  Theorem prf_list_range n : 1 <= bound -> Forall (fun v => 0 <= v < bound) (prf_list n).
  Proof. apply prf_range. Qed.

  (** element i does not depend on how many values were requested *)
  Theorem prf_prefix_consistent n n' i : (i < n)%nat -> (n <= n')%nat ->
    nth i (prf_list n) 0 = nth i (prf_list n') 0.
  Proof.
    intros Hi Hn. unfold prf_list. destruct (Nat.eq_0_gt_0_cases blen) as [E|E].
    - rewrite E, !prf_nth_zero. reflexivity.
    - rewrite !prf_nth by lia. unfold digest_len.
      rewrite <- (prefix (n * blen) (n' * blen)) by (apply Nat.mul_le_mono_r; exact Hn).
      rewrite slice_firstn by nia. reflexivity.
  Qed.

  (** the n = None result is element 0 of every list / array result with n >= 1 *)
  Theorem prf_scalar_is_first n : (1 <= n)%nat -> prf_scalar = nth 0 (prf_list n) 0.
  Proof. intros Hn. unfold prf_scalar. apply prf_prefix_consistent; lia. Qed.

  Theorem prf_scalar_range : 1 <= bound -> 0 <= prf_scalar < bound.
  Proof.
    intros Hb. pose proof (prf_list_range 1 Hb) as H. rewrite Forall_forall in H.
    apply H. unfold prf_scalar. apply nth_In. rewrite prf_list_length. lia.
  Qed.
End XOF.

(* ------------------------------------------------------------------------------------ *)
(** * Statelessness.  A PRF object is modelled by (xof-per-input, keylen, bound) only: a call is the
      function [prf_list (xofs s) keylen bound n] of (key, bound, s, n).  A history of calls on one
      object is therefore just the map of that function over the calls, and the result of a call
      cannot depend on the calls made before it.  Any dependence of the implementation's result on
      the call history (caches, counters) is a correspondence break, which the check searches for
      with stateful call sequences on one long-lived object. *)
Section History.
  Variable S : Type.                        (* inputs s *)
  Variable xofs : S -> nat -> list Z.       (* SHAKE-128 output of key + s, per input *)
  Variables keylen bound : Z.

  Definition prf_history (calls : list (S * nat)) : list (list Z) :=
    map (fun c => prf_list (xofs (fst c)) keylen bound (snd c)) calls.

  Theorem prf_history_independent (h1 h2 : list (S * nat)) (s : S) (n : nat) :
    last (prf_history (h1 ++ [(s, n)])) [] = prf_list (xofs s) keylen bound n /\
    last (prf_history (h1 ++ [(s, n)])) [] = last (prf_history (h2 ++ [(s, n)])) [].
  Proof.
    unfold prf_history. rewrite !map_app. simpl. rewrite !last_last. split; reflexivity.
  Qed.

  (** all results for one input, whatever the order of the calls, are prefixes of one stream *)
  Theorem prf_history_prefix_family (h : list (S * nat)) (s : S) (n n' i : nat) :
    (forall a b, (a <= b)%nat -> firstn a (xofs s b) = xofs s a) ->
    In (s, n) h -> In (s, n') h -> (i < n)%nat -> (i < n')%nat ->
    nth i (prf_list (xofs s) keylen bound n) 0 = nth i (prf_list (xofs s) keylen bound n') 0.
  Proof.
    intros P _ _ Hi Hi'. destruct (Nat.le_ge_cases n n') as [L|L].
    - apply prf_prefix_consistent; assumption.
    - symmetry. apply prf_prefix_consistent; assumption.
  Qed.
End History.
