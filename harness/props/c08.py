"""C08 — results and termination do not depend on the schedule.

Proof: coq/props/C08.v over coq/theories/PC.v (program-counter transition system; `wf` = every NoPC coroutine
is pc-silent after its first segment => every event of every execution under every scheduler carries the
sequential label of its structural path; a non-wf program is refuted).
Tie (a): gen_coro_table.py regenerates gen/CoroTable.v from /repo/mpyc/*.py on every run; obligation
`all_wf : forallb wf_entry coro_table = true` (gen/CoroWf.v) is compiled; failing entries are listed by
evaluating the table in Coq and, for each, a deadlock witness is searched with the multi-party simulator.
Tie (b): simulator runs (random secure-integer programs x schedules x configurations): all parties complete,
outputs equal the Python-int oracle and are identical across schedules; the logged fork/uci/send/recv events of
every party and schedule are replayed through the Coq `label` function (hop supplied as the finite table of the
real `_hop` values) and must coincide; a dynamic monitor reports any NoPC task that touches the counter.

This module also hosts the infrastructure shared with c09.py and c35.py.
"""
import os, sys, io, json, random, asyncio, contextlib, logging, collections, subprocess, time, struct
from asyncio import Future      # return annotation of generated user coroutines (typing.get_type_hints resolves it here)

from lib.core import zlit, natlit, COQ, COQFLAGS, PYNP, VERIF, REPO, BuildLock, sh

MANIFEST = {
    'text': 'Coq (PC.v): transition system of MPyC program counters (first segment of a coroutine runs in the caller; '
            'PC coroutines fork [hop(c+1,d),d+1]; NoPC coroutines continue under the ambient base counter; arbitrary '
            'scheduler at action granularity, which subsumes every pattern of "await found completed"). Theorems, '
            'unbounded in program size, nesting and schedule: wf_labels_sound / wf_labels_deterministic (under wf every '
            'Fork/Uci/Send/Recv event of every execution carries label(path), so labels agree across schedules and '
            'parties), wf_base_counter, nonwf_refuted (F-C08-shaped program, two legal schedules, different labels for '
            'the same event; cross-wiring shown). Tied to the code by the regenerated table gen/CoroTable.v with the '
            'compiled obligation all_wf over ALL mpc_coro/mpc_coro_no_pc functions of /repo/mpyc, and by simulator '
            'runs whose complete event logs are replayed through the Coq label function.',
    'note': 'Trusted: Coq kernel + vm_compute; the ast translator (name-based transitive call graph, light taint, '
            'fail-closed; assumes operators on non-gathered PARAMETERS act on public values and that names '
            '`field`/`Zp` are field types - every such site is listed in the evidence and backed by the dynamic '
            'NoPC-task monitor); the model abstracts data (labels only) and takes all parties to run the same program '
            'tree. Not proved: wf_progress (termination under fair delivery) - termination is checked by the '
            'simulator only (completion of all parties under every explored schedule); `_hop` collision-freedom is not '
            'proved, it is checked on the labels observed in each run (see C09). The two findings of this check (F-C08-1 '
            'runtime.mod, F-C08-2 runtime.np_roll with a secure shift: NoPC coroutines forking after their first await) '
            'are FIXED in /repo (commits 3444b17, b1a3c50: both run as mpc_coro); all_wf now holds on the whole table. '
            'The connection handshake (pid + PRSS keys) is exercised under every schedule of the sessions and with the '
            'handshake stream cut at chosen byte offsets; its framing proof belongs to C10.',
    'technique': 'Coq invariant proof over a PC transition system + regenerated coroutine table + multi-party simulator replay',
}

# ---------------------------------------------------------------------------------------------
# infrastructure shared by c08 / c09 / c35


@contextlib.contextmanager
def quiet():
    """MPyC prints tracebacks of cancelled tasks when a simulator with pending tasks is closed."""
    lvl = logging.root.manager.disable
    logging.disable(logging.CRITICAL)
    so, se = sys.stdout, sys.stderr
    sys.stdout, sys.stderr = io.StringIO(), io.StringIO()
    try:
        yield
    finally:
        sys.stdout, sys.stderr = so, se
        logging.disable(lvl)


CONFIGS = [(2, 0), (3, 1), (4, 1), (5, 2)]
L = 16            # SecInt bit length used by generated programs
BOUND = 1 << 13   # generated values stay below this magnitude


def gen_spec(rng, m, n_ops, with_mod=False, with_barrier=False, with_exc=False, with_ucoro=False, with_typed=True,
             ucoro_forms=('type', 'none', 'annot', 'annot_none', 'raise', 'peek')):
    """Random secure-integer program as a JSON-able op list, together with its Python-int oracle."""
    ops, vals, futs, results = [], [], [], []
    pending_f = []

    def newvar(v):
        vals.append(v)
        return len(vals) - 1

    ivals = [rng.choice([0, 1, -1, 2, 3, 7, rng.randint(-90, 90), rng.randint(-90, 90)]) for _ in range(m)]
    ops.append(['input', ivals])
    for v in ivals:
        newvar(v)
    kinds = ['mul', 'mul', 'add', 'sub', 'lt', 'eq', 'mulc', 'input', 'transfer', 'transfer_all', 'await', 'await',
             'gather', 'gather', 'output', 'ge']
    if with_mod:
        kinds += ['mod', 'mod', 'mod', 'transfer', 'transfer', 'await', 'await', 'gather']
    if with_barrier:
        kinds += ['barrier', 'barrier']
    if with_exc:
        kinds += ['exc', 'stop']
    if with_ucoro:
        kinds += ['ucoro'] * 5
    if with_typed:
        kinds += ['tout'] * 3
    tagno = 0
    while len(ops) < n_ops:
        k = rng.choice(kinds)
        n = len(vals)
        # bias operands towards recently created values (long dependency chains) but reach back as well
        def pick():
            return rng.randrange(n) if rng.random() < 0.4 else rng.randrange(max(0, n - 4), n)
        if k in ('mul', 'add', 'sub', 'lt', 'eq', 'ge'):
            i, j = pick(), pick()
            a, b = vals[i], vals[j]
            r = {'mul': a * b, 'add': a + b, 'sub': a - b, 'lt': int(a < b), 'eq': int(a == b), 'ge': int(a >= b)}[k]
            if abs(r) >= BOUND:
                continue
            ops.append([k, i, j])
            newvar(r)
        elif k == 'mulc':
            i, c = pick(), rng.choice([-3, -1, 0, 2, 5])
            if abs(vals[i] * c) >= BOUND:
                continue
            ops.append([k, i, c])
            newvar(vals[i] * c)
        elif k == 'mod':
            i, b = pick(), rng.choice([2, 3, 3, 5, 8])
            ops.append([k, i, b])
            newvar(vals[i] % b)
        elif k == 'input':
            sender = rng.randrange(m)
            v = rng.randint(-50, 50)
            ops.append(['input1', sender, v])
            newvar(v)
        elif k == 'transfer':
            tagno += 1
            s = rng.randrange(m)
            ops.append(['transfer', s, 'T%d' % tagno])
            futs.append('T%d' % tagno)
            pending_f.append(len(futs) - 1)
        elif k == 'transfer_all':
            tagno += 1
            ops.append(['transfer_all', 'A%d' % tagno])
            futs.append(['A%d.%d' % (tagno, q) for q in range(m)])
            pending_f.append(len(futs) - 1)
        elif k == 'await':
            if not pending_f:
                continue
            f = pending_f.pop(rng.randrange(len(pending_f)))     # varying distance to the creation point
            ops.append(['await', f])
            results.append(futs[f])
        elif k == 'gather':
            ops.append(['gather', pick()])
        elif k == 'output':
            i = pick()
            ops.append(['output', i])
            results.append(vals[i])
        elif k == 'barrier':
            ops.append(['barrier'])
        elif k in ('exc', 'stop'):
            ops.append([k, rng.randrange(2)])
        elif k == 'tout':
            # a value of another secure type (float, fixed point, group element; or an existing secure integer), provided
            # by one party, one cheap operation, output to ALL parties / a strict nonempty SUBSET / a SINGLE party
            kind = rng.choice(['flt16', 'flt32', 'flt16', 'fxp', 'int', 'sym', 'qr'])
            if kind == 'sym' and m >= 5:
                # SecSymmetricGroup(4) with m=5 parties gets sectype GF(5^2); its group operation (seclist index ->
                # unit_vector -> to_bits) raises 'Binary field or prime field required' inside a coroutine and every party
                # hangs: a defect of the secure-group layer (C28/C39 territory, reported to the lead), not of labelling
                kind = 'qr'
            sender = rng.randrange(m)
            rc = rng.choice(['all', 'subset', 'subset', 'single'])
            if rc == 'all':
                R = None
            elif rc == 'single':
                R = rng.randrange(m)
            else:
                R = sorted(rng.sample(range(m), rng.randint(1, m - 1)))
            if kind in ('flt16', 'flt32'):
                v = rng.choice([0.0, 1.0, -0.75, 3.5, 12.0, -40.0, 0.5, 0.015625])
                exp = -v + 0.0
            elif kind == 'fxp':
                v = rng.choice([0.0, 2.5, -1.25, 7.0, -30.5])
                exp = 2 * v
            elif kind == 'int':
                v = pick()
                exp = vals[v]
            elif kind == 'sym':
                v = list(rng.sample(range(4), 4))
                exp = [v[v[q]] for q in range(4)]
            else:
                v = rng.choice([1, 4, 9, 16])
                exp = v * v
            ops.append(['tout', kind, sender, v, R, exp])
            results.append(exp)
        elif k == 'ucoro':
            # user coroutine (@mpc.coroutine) of one of the declaration forms; all of them open x inside (network round)
            form = rng.choice(list(ucoro_forms))
            i = pick()
            if form == 'type':
                if abs(vals[i] * vals[i]) >= BOUND:
                    continue
                newvar(vals[i] * vals[i])
            elif form == 'annot':
                futs.append(vals[i])
                pending_f.append(len(futs) - 1)
            ops.append(['ucoro', form, i])
    for f in pending_f:
        ops.append(['await', f])
        results.append(futs[f])
    ops.append(['output_all'])
    results.append(list(vals))
    return {'m': m, 'ops': ops}, results


def make_prog(spec, mon=None, barrier_log=None):
    """Interpreter for an op list: returns prog(mpc, mods, pid)."""
    ops = spec['ops']

    async def prog(mpc, mods, pid):
        secint = mpc.SecInt(L)
        xs, fs, res = [], [], []
        seen = []

        @mpc.coroutine
        async def u_type(x):                 # await returnType(type)
            await mpc.returnType(type(x))
            await mpc.output(x)
            return x * x

        @mpc.coroutine
        async def u_none(x):                 # await returnType(None): no return value
            await mpc.returnType(None)
            seen.append(int(await mpc.output(x)))

        @mpc.coroutine
        async def u_annot(x) -> Future:      # return annotation
            return int(await mpc.output(x))

        @mpc.coroutine
        async def u_annot_none(x) -> None:   # return annotation, no return value
            seen.append(int(await mpc.output(x)))

        @mpc.coroutine
        async def u_raise(x):                # dies with an exception after its first await
            await mpc.returnType(None)
            await mpc.output(x)
            raise ValueError('expected-by-program')

        for opno, op in enumerate(ops):
            if opno and mon is not None:
                mon.after_statement(pid, opno - 1, ops[opno - 1][0], mpc)
            k = op[0]
            if k == 'tout':
                kind, sender, v, R, exp = op[1:]
                mine = pid == sender
                if kind in ('flt16', 'flt32'):
                    T = mpc.SecFlt(16 if kind == 'flt16' else 32)
                    y = -mpc.input(T(v if mine else 0.0), senders=sender)
                elif kind == 'fxp':
                    T = mpc.SecFxp(16)
                    x = mpc.input(T(v if mine else 0.0), senders=sender)
                    y = x + x
                elif kind == 'int':
                    y = xs[v]
                elif kind == 'sym':
                    T = mpc.SecSymmetricGroup(4)
                    g = mpc.input(T(T.group(tuple(v)) if mine else T.group.identity), senders=sender)
                    y = g @ g
                else:
                    T = mpc.SecQuadraticResidues(l=10)
                    g = mpc.input(T(T.group(v) if mine else T.group.identity), senders=sender)
                    y = g @ g
                r = await (mpc.output(y) if R is None else mpc.output(y, receivers=R))
                if R is None or pid == R or (isinstance(R, list) and pid in R):
                    if kind == 'sym':
                        r = list(r.value)
                    elif kind == 'qr':
                        r = int(r.value)
                    elif kind == 'int':
                        r = int(r)
                    else:
                        r = float(r) + 0.0
                    res.append(r)
                else:
                    res.append(exp if r is None else 'non-receiver obtained %r' % (r,))
            elif k == 'ucoro':
                f_ = {'type': u_type, 'none': u_none, 'annot': u_annot, 'annot_none': u_annot_none, 'raise': u_raise,
                      'peek': mpc.peek}[op[1]]      # Runtime.peek is the library's own `-> None` coroutine
                r = f_(xs[op[2]])
                if op[1] == 'type':
                    xs.append(r)
                elif op[1] == 'annot':
                    fs.append(r)
                elif r is not None:
                    res.append('coroutine without return value returned %r' % (r,))
            elif k == 'input':
                xs.extend(mpc.input(secint(op[1][pid])))
            elif k == 'input1':
                xs.append(mpc.input(secint(op[2] if pid == op[1] else 0), senders=op[1]))
            elif k == 'mul':
                xs.append(xs[op[1]] * xs[op[2]])
            elif k == 'add':
                xs.append(xs[op[1]] + xs[op[2]])
            elif k == 'sub':
                xs.append(xs[op[1]] - xs[op[2]])
            elif k == 'lt':
                xs.append(xs[op[1]] < xs[op[2]])
            elif k == 'ge':
                xs.append(xs[op[1]] >= xs[op[2]])
            elif k == 'eq':
                xs.append(xs[op[1]] == xs[op[2]])
            elif k == 'mulc':
                xs.append(xs[op[1]] * op[2])
            elif k == 'mod':
                xs.append(xs[op[1]] % op[2])
            elif k == 'modfix':           # the same value through the PC coroutines (used to attribute failures)
                xs.append(mpc.lsb(xs[op[1]]) if op[2] == 2 else mpc._mod(xs[op[1]], op[2]))
            elif k == 'call':             # generic witness hook: call a runtime method by name on secint arguments
                args = [xs[a] if isinstance(a, int) else a[0] for a in op[2]]
                r = getattr(mpc, op[1])(*args)
                xs.append(r if not isinstance(r, (list, tuple)) else r[0])
            elif k == 'transfer':
                fs.append(mpc.transfer(op[2] if pid == op[1] else None, senders=op[1]))
            elif k == 'transfer_all':
                fs.append(mpc.transfer('%s.%d' % (op[1], pid)))
            elif k == 'await':
                r = await fs[op[1]]
                res.append(int(r) if isinstance(r, int) else r)
            elif k == 'gather':
                await mpc.gather(xs[op[1]])
            elif k == 'output':
                res.append(int(await mpc.output(xs[op[1]])))
            elif k == 'barrier':
                pre = len(mon.pending_tasks(pid)) if mon is not None else 0
                await mpc.barrier()
                if barrier_log is not None and mon is not None:
                    barrier_log[pid].append((pre, mon.pending_tasks(pid)))
            elif k == 'exc':
                try:
                    if op[1]:
                        mpc.in_prod([xs[0]], 5)      # TypeError in the first segment of a PC coroutine
                    else:
                        mpc.sum(5)                   # TypeError in the first segment of a NoPC coroutine
                    res.append('no exception')
                except TypeError:
                    pass
            elif k == 'stop':
                r = mpc.in_prod([], []) if op[1] else mpc.sum([])     # StopIteration in the first segment
                if r != 0:
                    res.append('stop path returned %r' % (r,))
            elif k == 'output_all':
                res.append([int(v) for v in await mpc.output(xs)])
        return res
    return prog


class Monitor:
    """Per-party hooks on the freshly imported module copies (nothing on disk is touched):
    fork / uci / send / receive events with the identity of the counter list object they act on (= context),
    MPyC coroutine tasks (objects), and counter accesses made from inside a NoPC coroutine task."""

    def __init__(self, sim):
        self.sim = sim
        m = sim.m
        self.events = [[] for _ in range(m)]       # (ctx_id, kind, ...)
        self.pin = [dict() for _ in range(m)]      # ctx_id -> list object (pinned: ids stay unique)
        self.base = [id(mpc._program_counter) for mpc in sim.mpcs]
        self.nopc_touch = [[] for _ in range(m)]   # (qualname of the NoPC coroutine, kind)
        self.tasks = [[] for _ in range(m)]
        self.reconciled = [0] * m                  # calls of asyncoro._reconcile (done-callbacks of coroutine tasks)
        self.stmt_bad = [[] for _ in range(m)]     # top-level statement boundaries with wrong depth / level
        self.stmt_checked = 0
        for i in range(m):
            self.pin[i][self.base[i]] = sim.mpcs[i]._program_counter
            self._install(i)

    def _install(self, i):
        sim = self.sim
        aco = sim.mods[i]['mpyc.asyncoro']
        mpc = sim.mpcs[i]
        cls = type(mpc)
        ev, pin, touch, tasks = self.events[i], self.pin[i], self.nopc_touch[i], self.tasks[i]
        loop = sim.loop
        Base = aco.Task

        class MTask(Base):
            def __init__(self_, coro, *, loop=None, **kw):
                super().__init__(coro, loop=loop, **kw)
                tasks.append(self_)
        aco.Task = MTask
        orec = aco._reconcile

        def reconcile(decl, task, _o=orec, _i=i):
            self.reconciled[_i] += 1
            return _o(decl, task)
        aco._reconcile = reconcile        # the done-callback `lambda t: _reconcile(decl, t)` looks the name up at call time

        def check(kind):
            try:
                t = asyncio.current_task(loop)
            except RuntimeError:
                t = None
            if isinstance(t, MTask):
                q = getattr(t.get_coro(), '__qualname__', '?')
                if q != '_wrap_in_coro':
                    touch.append((q, kind))

        W = aco._ProgramCounterWrapper
        oinit = W.__init__

        def init(self_, rt, coro):
            parent = rt._program_counter
            before = (parent[0], parent[1])
            oinit(self_, rt, coro)
            pin[id(self_.pc)] = self_.pc
            pin.setdefault(id(parent), parent)
            ev.append((id(parent), 'fork', before, (self_.pc[0], self_.pc[1]), id(self_.pc)))
            check('fork')
        W.__init__ = init
        ouci, osend, orecv = cls._prss_uci, cls._send_message, cls._receive_message

        def uci(self_):
            r = ouci(self_)
            pin.setdefault(id(self_._program_counter), self_._program_counter)
            ev.append((id(self_._program_counter), 'uci', self_._program_counter[0]))
            check('uci')
            return r

        def send(self_, peer, data):
            pin.setdefault(id(self_._program_counter), self_._program_counter)
            ev.append((id(self_._program_counter), 'send', peer, self_._program_counter[0]))
            check('send')
            return osend(self_, peer, data)

        def recv(self_, peer):
            pin.setdefault(id(self_._program_counter), self_._program_counter)
            ev.append((id(self_._program_counter), 'recv', peer, self_._program_counter[0]))
            check('recv')
            return orecv(self_, peer)
        cls._prss_uci, cls._send_message, cls._receive_message = uci, send, recv

    def after_statement(self, pid, opno, opname, mpc):
        """At a statement boundary of the main program: the ambient counter is the base counter at depth 0, and
        _pc_level = coroutine tasks created - tasks whose completion callback has run."""
        self.stmt_checked += 1
        live = len(self.tasks[pid]) - self.reconciled[pid]
        if id(mpc._program_counter) != self.base[pid] or mpc._program_counter[1] != 0 or mpc._pc_level != live:
            if len(self.stmt_bad[pid]) < 5:
                self.stmt_bad[pid].append({'after_op': [opno, opname], 'depth': mpc._program_counter[1],
                                           'base_counter_in_place': id(mpc._program_counter) == self.base[pid],
                                           '_pc_level': mpc._pc_level, 'tasks_created_minus_completed': live})

    def expected_failures(self, pid):
        """Coroutine tasks that ended with the exception the program raises on purpose (retrieving it also keeps asyncio
        from logging 'exception was never retrieved')."""
        n = 0
        for t in self.tasks[pid]:
            if t.done() and not t.cancelled() and t.exception() is not None:
                if 'expected-by-program' in repr(t.exception()):
                    n += 1
        return n

    def pending_tasks(self, pid):
        return [getattr(t.get_coro(), '__qualname__', '?') for t in self.tasks[pid] if not t.done()]

    # -- the call tree of one party: context -> ordered events
    def tree(self, pid, start=0):
        """Nested structure [('uci', v) | ('send', peer, v) | ('recv', peer, v) | ('fork', (c,d), subtree)] of the
        base context, from event index `start` on."""
        per = collections.defaultdict(list)
        for e in self.events[pid][start:]:
            per[e[0]].append(e)

        def build(ctx):
            out = []
            for e in per.get(ctx, []):
                if e[1] == 'fork':
                    out.append(('fork', e[2], e[3], build(e[4])))
                elif e[1] == 'uci':
                    out.append(('uci', e[2]))
                else:
                    out.append((e[1], e[2], e[3]))
            return out
        return build(self.base[pid])


def tree_shape(t):
    return [(e[0], e[1]) if e[0] in ('send', 'recv') else ((e[0], tree_shape(e[3])) if e[0] == 'fork' else (e[0],))
            for e in t]


def tree_values(t):
    """Observed values in the preorder used by PC.all_labels: event at the node, then the rest of a fork, then next."""
    out = []
    for e in t:
        if e[0] == 'fork':
            out.append(('EvFork', e[2][0], e[2][1]))
            out.extend(tree_values(e[3]))
        elif e[0] == 'uci':
            out.append(('EvUci', e[1]))
        elif e[0] == 'send':
            out.append(('EvSend', e[1], e[2]))
        else:
            out.append(('EvRecv', e[1], e[2]))
    return out


def skeleton(t):
    """Forks and uci draws only (send/receive sets legitimately depend on the party)."""
    return [('fork', e[1], e[2], skeleton(e[3])) if e[0] == 'fork' else e for e in t if e[0] in ('fork', 'uci')]


def tree_forks(t, acc):
    for e in t:
        if e[0] == 'fork':
            acc.append((e[1], e[2]))
            tree_forks(e[3], acc)
    return acc


def tree_to_coq(t):
    """Coq `body` for a logged context: forks become PC coroutines with an empty first segment (first-segment
    events are logged in - and belong to - the caller's context, exactly as in the model)."""
    s = 'Done'
    for e in reversed(t):
        if e[0] == 'fork':
            s = '(Fork PC Done %s %s)' % (tree_to_coq(e[3]), s)
        elif e[0] == 'uci':
            s = '(Act Uci %s)' % s
        elif e[0] == 'send':
            s = '(Act (Send %d) %s)' % (e[1], s)
        else:
            s = '(Act (Recv %d) %s)' % (e[1], s)
    return s


def policies(rng, m, nhold, nrand):
    """(name, factory) list: Fifo, RandomOrder x nrand, Bytewise, ReverseLinks, Hold on single directed links."""
    from lib.sim import Fifo, RandomOrder, Bytewise, ReverseLinks, Hold
    out = [('fifo', lambda: Fifo())]
    for _ in range(nrand):
        s = rng.randrange(1 << 30)
        out.append(('random:%d' % s, lambda s=s: RandomOrder(random.Random(s))))
    sj = rng.randrange(1 << 30)      # coalescing schedule: queued writes joined into one data_received call, cut anywhere
    out.append(('join:%d' % sj, lambda s=sj: RandomOrder(random.Random(s), split=0.7, burst=2, lazy=0.5, join=0.7)))
    out.append(('bytewise', lambda: Bytewise()))
    out.append(('reverse', lambda: ReverseLinks()))
    links = [(a, b) for a in range(m) for b in range(m) if a != b]
    rng.shuffle(links)
    for (a, b) in links[:nhold]:
        k = rng.choice([5, 20, 60])
        out.append(('hold:%d>%d:%d' % (a, b, k), lambda a=a, b=b, k=k: Hold({(a, b)}, k)))
    return out


class CutHandshake:
    """Hands over exactly offsets[link] bytes of the given links first (in one or more data_received calls, across
    write chunks), nothing else in that round; afterwards FIFO.  Used to cut the client's pid+keys packet."""

    def __init__(self, offsets):
        from lib.sim import Fifo
        self.left = dict(offsets)
        self.fifo = Fifo()
        self.rounds = 0

    def deliver(self, net):
        if not self.left:
            return self.fifo.deliver(net)
        n = 0
        self.rounds += 1
        for link in list(self.left):
            want = self.left[link]
            q = net.queues[link]
            if sum(len(c) for c in q) < want and self.rounds < 30:
                continue
            while want > 0 and q:
                k = min(len(q[0]), want)
                n += net.deliver(link, k)
                want -= k
            del self.left[link]
        return n


def handshake_len(m, t, src, dst):
    """Bytes the client src (< dst) sends first: its pid and the PRSS keys of the subsets it leads that contain dst."""
    import itertools
    return 2 + 16 * sum(1 for S in itertools.combinations(range(m), m - t) if S[0] == src and dst in S)


def late_closes(m):
    """Schedules in which the closes (and last messages) of lower-numbered peers arrive late: hold one directed link a->b
    with a < b, or every link out of party a, for k rounds."""
    from lib.sim import Hold
    out = []
    for a in range(m):
        for b in range(a + 1, m):
            out.append(('hold:%d>%d:30' % (a, b), lambda a=a, b=b: Hold({(a, b)}, 30)))
        if a < m - 1:
            out.append(('holdfrom:%d:30' % a, lambda a=a: Hold({(a, b) for b in range(m) if b != a}, 30)))
            out.append(('holdinto:%d:30' % a, lambda a=a: Hold({(b, a) for b in range(m) if b != a}, 30)))
    return out


def lagging(m, p, k):
    """Hold every link into party p for k rounds (one lagging party)."""
    from lib.sim import Hold
    return lambda: Hold({(a, p) for a in range(m) if a != p}, k)


def nvars(spec):
    n = 0
    for o in spec['ops']:
        if o[0] == 'input':
            n += len(o[1])
        elif o[0] in ('input1', 'mul', 'add', 'sub', 'lt', 'ge', 'eq', 'mulc', 'mod', 'modfix', 'call') or o[:2] == ['ucoro', 'type']:
            n += 1
    return n


def add_unawaited_chain(spec):
    """Append a dependent chain of secure operations whose results are never awaited (still running at shutdown)."""
    n = nvars(spec)
    spec['ops'] += [['mul', 0, 1], ['mul', n, 0], ['lt', n + 1, 1], ['mul', n + 2, n + 1], ['transfer_all', 'Z'],
                    ['eq', n + 3, 0], ['mul', n + 4, n + 3]]
    return spec


class Session:
    """One simulator (m parties) driven by one schedule family; programs run one after the other."""

    def __init__(self, m, t, seed, no_prss=False, extra=(), start_policy=None):
        from lib.sim import Sim
        self.m, self.t = m, t
        with quiet():
            self.sim = Sim(m, t, no_prss=no_prss, seed=seed, extra=extra)
            self.mon = Monitor(self.sim)
            # the handshake (pid + PRSS keys) is delivered under the given schedule as well
            self.start_result = self.sim.start(start_policy)
        self.ok = self.sim.started
        self.close_snap = []     # (src, dst, pending tasks of src, delivered snapshot)
        net = self.sim.net
        orig = net.on_close

        def on_close(src, dst, _o=orig):
            self.close_snap.append((src, dst, self.mon.pending_tasks(src), dict(net.delivered)))
            _o(src, dst)
        net.on_close = on_close
        self.protos = dict(net.protos)
        # exceptions that asyncio would only log (callbacks, tasks) are kept
        self.loop_exc = []
        loop = self.sim.loop
        orig_h = loop.get_exception_handler()

        def handler(loop_, context, _o=orig_h):
            exc = context.get('exception')
            if not getattr(self, 'closing', False) and not isinstance(exc, asyncio.CancelledError) and 'expected-by-program' not in repr(exc):
                self.loop_exc.append('%s: %r' % (context.get('message', ''), exc))
            if _o is not None:
                _o(loop_, context)
        loop.set_exception_handler(handler)
        self.at_return = {}

    def run(self, spec, polfactory, barrier_log=None, idle_limit=400):
        starts = [len(e) for e in self.mon.events]
        self.c0 = [tuple(mpc._program_counter) for mpc in self.sim.mpcs]
        with quiet():
            res = self.sim.run(make_prog(spec, self.mon, barrier_log), polfactory(), idle_limit=idle_limit)
        return res, starts

    def shutdown(self, polfactory):
        """Real mpc.shutdown() on every party; at the instant it returns at party i the connections of i that are still
        open are recorded (peers not deregistered in the runtime, connection ends still registered in the network)."""
        net = self.sim.net

        async def sd(mpc, mods, i):
            await mpc.shutdown()
            self.at_return[i] = {
                'peers_not_deregistered': [p.pid for p in mpc.parties if p.pid != i and p.protocol is not None],
                'connection_ends_registered': [b for (a, b) in net.protos if a == i],
                'own_future_done': mpc.parties[i].protocol is None or mpc.parties[i].protocol.done()}
            return True
        with quiet():
            return self.sim.run(sd, polfactory())

    def callback_exceptions(self):
        """Exceptions raised inside connection_lost / data_received / other loop callbacks so far."""
        ev = [list(map(str, e)) for e in self.sim.net.events if e and e[0] in ('connection_lost_exc', 'loop_exc')]
        return ev + [['asyncio', x] for x in self.loop_exc]

    def check_shutdown_state(self, ctx, key0):
        """Common post-shutdown conditions (C35; also used by C09): every connection closed at the moment shutdown
        returns, no exception inside a connection callback."""
        for i, st in sorted(self.at_return.items()):
            if st['peers_not_deregistered'] or st['connection_ends_registered']:
                ctx.violation('shutdown returned while connections are still open', {'case': key0, 'party': i, 'state': st})
        exc = self.callback_exceptions()
        if exc:
            ctx.violation('exception-in-connection-callback', {'case': key0, 'exceptions': exc[:6]})

    def leftover(self):
        """Non-empty receive buffers {(owner, peer): {label: 'bytes'|'Future'}} and partial frames."""
        out = {}
        for (a, b), p in self.protos.items():
            if p.buffers:
                out['%d<-%d' % (a, b)] = {str(pc): type(v).__name__ for pc, v in list(p.buffers.items())[:6]}
            if len(p.bytes):
                out['%d<-%d partial' % (a, b)] = len(p.bytes)
        return out

    def close(self):
        self.closing = True
        with quiet():
            self.sim.close()


def compile_gen(files):
    """Compile generated files; returns {file: (ok, output)}."""
    out = {}
    with BuildLock():
        for f in files:
            rc, o = sh(['coqc', *COQFLAGS, 'gen/' + f], cwd=COQ, timeout=600)
            out[f] = (rc == 0, o[-1500:])
    return out


def regenerate(ctx, extra=('CoroWf.v',)):
    """Run the translator; compile gen/CoroTable.v. Returns (info, table_ok)."""
    import gen_coro_table
    info = gen_coro_table.generate(write=True)
    r = compile_gen(['CoroTable.v'] + list(extra))
    info['compiled'] = r
    ok = r['CoroTable.v'][0]
    if not ok:
        ctx.broken.append({'kind': 'proof', 'file': 'gen/CoroTable.v', 'detail': r['CoroTable.v'][1]})
    return info, ok


# ---------------------------------------------------------------------------------------------
# witness search for a table entry that is not wf

# how to call the offending operation from a program on secure integers x (index 2 of the inputs);
# entries needing NumPy run in a subprocess under /verif/.venv-np
SCALAR_CALLS = {
    'mod': ['mod', 2, 3], 'lsb': ['call', 'lsb', [2]], 'trunc': ['call', 'trunc', [2, [2]]],
    'sgn': ['call', 'sgn', [2]], 'is_zero': ['call', 'is_zero', [2]], 'is_zero_public': None,
    'mul': ['mul', 2, 1], 'neg': ['call', 'neg', [2]], 'add': ['add', 2, 1], 'sub': ['sub', 2, 1],
    'abs': ['call', 'abs', [2]], 'to_bits': ['call', 'to_bits', [2]], 'lshift': ['call', 'lshift', [2, [1]]],
    'pos': ['call', 'pos', [2]], 'sum': None, 'reciprocal': None, 'np_roll': 'numpy',
}


def witness_spec(call, first):
    """The F-C08 template: the operation between two awaits whose completion differs per party."""
    ops = [['input1', 0, 3], ['input1', 0, 4], ['input1', 0, 7], ['output', 0],
           ['transfer', 0, 'F'], ['transfer', 1, 'W'], ['await', 1]]
    if first:
        ops.append(call)
    ops += [['mul', 0, 1], ['await', 0]]
    if not first:
        ops.append(call)
    ops += [['mul', 0, 0], ['output_all']]
    return {'m': 3, 'ops': ops}


def search_witness(ctx, name, seed):
    """Returns (found, detail). found=True: some schedule leaves parties PENDING / wrong while moving the operation
    behind the second await (same schedule) completes."""
    from lib.sim import Fifo, Hold, RandomOrder
    short = name.split('.')[-1]
    call = SCALAR_CALLS.get(short)
    if call == 'numpy':
        return numpy_witness(short, seed)
    if call is None:
        return False, {'reason': 'no witness template for %s' % name}
    pols = [('fifo', lambda: Fifo()), ('hold:0>2:40', lambda: Hold({(0, 2)}, 40)), ('hold:0>1:40', lambda: Hold({(0, 1)}, 40)),
            ('random:1', lambda: RandomOrder(random.Random(1)))]
    outcomes = {}
    for first in (True, False):
        for pn, pf in (pols if first else pols[:2]):
            s = Session(3, 1, seed)
            try:
                res, _ = s.run(witness_spec(call, first), pf, idle_limit=300)
                left = s.leftover()
            finally:
                s.close()
            outcomes[('first' if first else 'after', pn)] = (res, left)
    bad = {k: v for k, v in outcomes.items() if any(r == 'PENDING' or (isinstance(r, tuple) and r and r[0] == 'EXC') for r in v[0])}
    vals = {json.dumps(v[0], default=str) for k, v in outcomes.items() if k not in bad}
    detail = {'operation': call, 'program': witness_spec(call, True),
              'outcomes': {'%s/%s' % k: {'results': v[0], 'buffers_left': v[1]} for k, v in outcomes.items()}}
    found = any(k[0] == 'first' for k in bad) or len(vals) > 1
    return found, detail


def numpy_witness(short, seed):
    if not os.path.exists(PYNP):
        return False, {'reason': 'NumPy interpreter %s not available' % PYNP}
    env = dict(os.environ, PYTHONHASHSEED='0', PYTHONPATH=REPO + os.pathsep + os.path.join(VERIF, 'harness'))
    p = subprocess.run([PYNP, os.path.abspath(__file__), '--np-witness', short, str(seed)], env=env, text=True,
                       stdout=subprocess.PIPE, stderr=subprocess.PIPE, timeout=300, cwd=os.path.join(VERIF, 'harness'))
    line = [l for l in p.stdout.split('\n') if l.startswith('RESULT ')]
    if not line:
        return False, {'reason': 'numpy witness subprocess failed', 'stderr': p.stderr[-800:]}
    d = json.loads(line[-1][7:])
    return d['found'], d


def _np_witness_main(short, seed):
    from lib.sim import Sim, Fifo, Hold, RandomOrder

    def mk(first):
        async def prog(mpc, mods, pid):
            secint = mpc.SecInt(16)
            np = mods['mpyc.numpy'].np
            a, b = [mpc.input(secint(v), senders=0) for v in (3, 4)]
            arr = mpc.input(secint.array(np.array([1, 2, 3, 4])), senders=0)
            sh_ = mpc.input(secint(1), senders=0)
            await mpc.output(a)
            f = mpc.transfer('F', senders=0)
            w = mpc.transfer('W', senders=1)
            await w
            if first:
                r = mpc.np_roll(arr, sh_)
            c = a * b
            v = await f
            if not first:
                r = mpc.np_roll(arr, sh_)
            d = a * a
            return [[int(x) for x in await mpc.output(r)], int(await mpc.output(c)), int(await mpc.output(d)), v]
        return prog
    assert short == 'np_roll'
    out = {}
    for first in (True, False):
        for pn, pf in [('fifo', lambda: Fifo()), ('hold:0>2:40', lambda: Hold({(0, 2)}, 40)),
                       ('hold:0>1:40', lambda: Hold({(0, 1)}, 40)), ('random:1', lambda: RandomOrder(random.Random(1)))]:
            with quiet():
                sim = Sim(3, 1, seed=seed)
                sim.start()
                res = sim.run(mk(first), pf(), idle_limit=300)
                left = {'%d<-%d' % k: len(p.buffers) for k, p in sim.net.protos.items() if p.buffers}
                sim.close()
            out['%s/%s' % ('first' if first else 'after', pn)] = {'results': res, 'buffers_left': left}
    found = any('PENDING' in v['results'] for k, v in out.items() if k.startswith('first'))
    print('RESULT ' + json.dumps({'found': found, 'operation': 'mpc.np_roll(secure array, secure shift)', 'outcomes': out}, default=str))


# ---------------------------------------------------------------------------------------------

def is_bad(res):
    return any(r == 'PENDING' or (isinstance(r, tuple) and len(r) == 2 and r[0] == 'EXC') for r in res)


def sig_for_entry(name):
    short = name.replace('.Runtime.', '.')
    return 'NoPC coroutine %s touches the program counter after its first await' % short


def check_table(ctx, info, table_ok):
    """Obligation all_wf + listing of failing entries from Coq + witness search."""
    if not table_ok:
        return
    ctx.obligations += 1
    wf_ok = info['compiled']['CoroWf.v'][0]
    names = ctx.coq_eval(['MPyC.PC', 'MPyCGen.CoroTable'],
                         ['map (fun e => fst (fst e)) (filter (fun e => negb (wf_entry e)) coro_table)',
                          '(List.length coro_table, List.length (filter (fun e => match snd (fst e) with NoPC => true | PC => false end) coro_table))'])
    if isinstance(names[0], tuple) and names[0] and names[0][0] == 'ERROR':
        ctx.broken.append({'kind': 'correspondence', 'what': 'cannot evaluate coro_table', 'detail': names[0][1]})
        return
    failing = names[0]
    ctx.extra['coro_table'] = {'entries': names[1][0], 'nopc': names[1][1], 'pc': names[1][0] - names[1][1],
                               'not_wf': failing, 'flag_reasons': info['flagged'],
                               'assumed_public_param_ops': info['assumed_public_param_ops']}
    ctx.log('coro_table: %d entries (%d NoPC); all_wf %s; not wf: %s' % (names[1][0], names[1][1],
                                                                      'holds' if wf_ok else 'FAILS', failing))
    if wf_ok and not failing:
        ctx.discharged += 1
        ctx.theorems.append(('all_wf (gen/CoroWf.v)', 'Closed under the global context (vm_compute over the regenerated table)'))
        return
    if wf_ok != (not failing):
        ctx.broken.append({'kind': 'proof', 'what': 'all_wf compile result and table evaluation disagree'})
    for name in failing:
        found, detail = search_witness(ctx, name, ctx.seed + 11)
        detail['translator_reasons'] = info['flagged'].get(name, [])
        sig = sig_for_entry(name)
        if found:
            sig += '; deadlock witness found by schedule search'
        ctx.log('  %s: witness %s' % (name, 'FOUND' if found else 'not found (%s)' % detail.get('reason', 'no schedule failed')))
        ctx.violation(sig, detail, found_input=found)
        ctx.case({'witness': name}, nontrivial=True, kind='witness search')


def coq_tree_args(tree, c0):
    """`(hop_of_table <real _hop values>) (c0) <body>` for a logged call tree."""
    from mpyc import asyncoro
    tbl = {}
    for (c, d), child in tree_forks(tree, []):
        tbl[(c + 1, d)] = asyncoro._hop([c + 1, d])      # the real hop, computed independently of the log
    tl = '[' + '; '.join('((%d)%%Z, %d%%nat, (%d)%%Z)' % (c, d, h) for (c, d), h in sorted(tbl.items())) + ']'
    return '(hop_of_table %s) ((%d)%%Z, %d%%nat) %s' % (tl, c0[0], c0[1], tree_to_coq(tree))


def replay_in_coq(ctx, items):
    """items: list of (key, tree(reference party/schedule), c0) ; evaluates PC.all_labels on the logged tree with the
    real _hop values as finite table. Returns list of predicted value lists."""
    return ctx.coq_eval(['MPyC.PC'], ['all_labels ' + coq_tree_args(tree, c0) for key, tree, c0 in items], chunk=1, timeout=600)


def canon_ev(v):
    """Parsed Coq evval -> tuple comparable with tree_values."""
    return tuple(v) if isinstance(v, tuple) else (v,)


class CoalescePreamble:
    """Holds the client->server link until the client has written its preamble (pid + PRSS keys) AND at least one complete
    labelled message behind it, then hands the server everything queued in ONE data_received call (cut=None), or a
    chunk ending `cut` bytes into the first message followed by the rest.  Every other link is FIFO."""

    def __init__(self, link, pre_len, cut=None, patience=60):
        self.link, self.pre, self.cut, self.patience = link, pre_len, cut, patience
        self.done, self.fired, self.wait = False, False, 0

    def deliver(self, net):
        n = 0
        for l in list(net.order):
            if l == self.link and not self.done:
                continue
            while net.queues[l]:
                n += net.deliver(l)
        if not self.done:
            q = net.queues[self.link]
            data = b''.join(q)
            have = False
            if len(data) >= self.pre + 12:
                size = struct.unpack_from('<qI', data, self.pre)[1]
                have = len(data) >= self.pre + 12 + size
            if not have and n == 0:
                self.wait += 1
            if have or self.wait > self.patience:
                self.done, self.fired = True, have
                q.clear()
                net.order = collections.deque(l for l in net.order if l != self.link)
                k = len(data) if (self.cut is None or not have) else self.pre + self.cut
                for part in (data[:k], data[k:]):
                    if part:
                        q.append(part)
                        net.order.append(self.link)
                if q:
                    n += net.deliver(self.link)
        return n


def coalesced_handshake_stream(ctx, stats, full=True):
    """start() and a request/response program in ONE run: party i (client) sends a single labelled message to a
    higher-numbered party j right after connecting and then waits for j's answer; the link i->j delivers preamble and
    first message coalesced (or cut 0/1/2 bytes into the message).  All parties must complete with the right values, every
    sent label must be received exactly once, buffers and byte buffers must end empty, shutdown must complete."""
    from lib.sim import Sim, Fifo
    rng = ctx.rng

    def mk(shape, i, j):
        async def prog(mpc, mods, pid):
            await mpc.start()
            if shape == 'transfer':
                x = await mpc.transfer('req' if pid == i else None, senders=[i], receivers=[j])
                y = await mpc.transfer('resp' if pid == j else None, senders=[j], receivers=[i])
                return [x, y]
            secint = mpc.SecInt(L)
            a = mpc.input(secint(41 if pid == i else 0), senders=i)     # i = lowest party: shares go out to everybody
            r = await mpc.output(a + 1, receivers=i)                     # ... and come back to it only
            return None if r is None else int(r)
        return prog

    def want(shape, i, j, pid):
        if shape == 'transfer':
            return [['req'] if pid == j else [], ['resp'] if pid == i else []]
        return 42 if pid == i else None

    cases = []
    for (m, t) in [(2, 0), (3, 1), (4, 1)]:
        pairs = [(a, b) for a in range(m) for b in range(a + 1, m)]
        if m == 4 and ctx.tier != 'thorough':
            pairs = [(0, 1), (0, 3)] + rng.sample([(0, 2), (1, 2), (1, 3), (2, 3)], 1)
        if not full:
            pairs = pairs[-1:]
        for (i, j) in pairs:
            for no_prss in ((False, True) if full else (False,)):
                cases.append((m, t, 'transfer', i, j, no_prss, None))
                if i == 0 and full:
                    cases.append((m, t, 'io', i, j, no_prss, None))
        if full:
            i, j = pairs[0]
            for cut in (0, 1, 2):
                cases.append((m, t, 'transfer', i, j, False, cut))
    for (m, t, shape, i, j, no_prss, cut) in cases:
        key = {'m': m, 't': t, 'shape': shape, 'client': i, 'server': j, 'no_prss': no_prss,
               'chunk': 'preamble+everything' if cut is None else 'preamble+%d bytes' % cut}
        pre = 2 if no_prss else handshake_len(m, t, i, j)
        pol = CoalescePreamble((i, j), pre, cut)
        with quiet():
            sim = Sim(m, t, no_prss=no_prss, seed=ctx.seed + 9)
        try:
            with quiet():
                res = sim.run(mk(shape, i, j), pol, idle_limit=300)
            protos = dict(sim.net.protos)
            stats['coalesced_handshakes'] += 1
            stats['coalesced_fired'] += 1 if pol.fired else 0
            ctx.case(key, nontrivial=pol.fired, kind='(%d,%d) coalesced handshake%s' % (m, t, ' no-prss' if no_prss else ''))
            exp = [want(shape, i, j, pid) for pid in range(m)]
            if is_bad(res) or res != exp:
                left = {'%d<-%d' % k: {'buffers': len(p.buffers), 'unparsed_bytes': len(p.bytes)} for k, p in protos.items()
                        if p.buffers or len(p.bytes)}
                ctx.violation('request/response right after start did not complete when the connection preamble arrived '
                              'coalesced with the first message', {'case': key, 'results': res, 'want': exp, 'left': left})
                continue
            with quiet():
                sd = sim.shutdown(Fifo())
            if any(r is not True for r in sd):
                ctx.violation('shutdown incomplete after coalesced handshake', {'case': key, 'shutdown': sd})
                continue
            for a in range(m):
                for b in range(m):
                    if a == b:
                        continue
                    frames, rest = sim.frames(a, b)
                    sent = collections.Counter(pc for pc, _ in frames)
                    recv = collections.Counter(e[2] for e in sim.msglog[b] if e[0] == 'recv' and e[1] == a)
                    if rest or sent != recv or any(v > 1 for v in sent.values()):
                        ctx.violation('sent and received labels do not match one to one after coalesced handshake',
                                      {'case': key, 'link': [a, b], 'sent': len(frames), 'received': sum(recv.values())})
            for k, p in protos.items():
                if p.buffers or len(p.bytes):
                    ctx.violation('receive buffers not empty after shutdown (coalesced handshake)',
                                  {'case': key, 'end': list(k), 'buffers': len(p.buffers), 'unparsed_bytes': len(p.bytes)})
        finally:
            with quiet():
                sim.close()


def handshake_stream(ctx, stats):
    """PRSS on: the client's first packet (pid + keys) of EVERY connection is cut at a chosen byte offset (all
    connections at once, one offset class per simulator); start must complete, and a PRSS-using program must give
    the oracle's outputs (a mis-framed key makes the PRSS shares inconsistent)."""
    from lib.sim import Fifo
    rng = ctx.rng
    for (m, t) in CONFIGS:
        hl = {(a, b): handshake_len(m, t, a, b) for a in range(m) for b in range(a + 1, m)}
        mx = max(hl.values())
        if ctx.tier == 'thorough' or mx <= 18:
            backs = list(range(1, mx))
        else:
            backs = sorted({1, 2, 3, 15, 16, 17, mx - 2, mx - 1, rng.randrange(4, mx - 2)})
        spec, want = gen_spec(rng, m, 14)
        for back in backs:        # offset counted from the END of each packet
            offs = {l: max(1, n - back) for l, n in hl.items()}
            sess = Session(m, t, ctx.seed + 3, start_policy=CutHandshake(offs))
            try:
                key = {'m': m, 't': t, 'handshake_cut_bytes_before_end': back, 'program': spec['ops']}
                ctx.case(key, nontrivial=True, kind='(%d,%d) handshake cut' % (m, t))
                stats['handshake_cuts'] += 1
                if not sess.ok:
                    ctx.violation('start (handshake) did not complete with the pid+keys packet cut %d bytes before its end' % back,
                                  {'case': key, 'start': sess.start_result})
                    continue
                res, _ = sess.run(spec, Fifo, idle_limit=300)
                if is_bad(res) or any(r != want for r in res):
                    ctx.violation('wrong or missing outputs after a handshake whose pid+keys packet was cut %d bytes before its end' % back,
                                  {'case': key, 'results': res, 'want': want})
                    continue
                sd = sess.shutdown(Fifo)
                if any(r is not True for r in sd):
                    ctx.violation('shutdown incomplete after cut handshake', {'case': key, 'shutdown': sd})
            finally:
                sess.close()


def run(ctx):
    ok = ctx.build() and ctx.check_props()
    ctx.rule = ('case = (program, configuration (m,t), schedule); programs are random secure-integer op lists (mul, '
                'comparisons, %, input, output, typed outputs to subsets, None-returning coroutines (mpc.peek, user coroutines), '
                'top-level barriers, one-sender and all-to-all transfer, gather, awaits of earlier futures at '
                'varying distances); schedules: Fifo, RandomOrder seeds, Bytewise, ReverseLinks, Hold on single directed '
                'links - applied to the connection handshake as well; plus handshakes with the pid+keys packet of every '
                'connection cut at chosen byte offsets; non-trivial when the program has >= 1 await between two secure operations')
    ctx.explanation = ('theorems over all programs/schedules in the PC model; regenerated table of all %s coroutines; '
                       'simulator: completion + oracle + cross-schedule equality + full label replay through Coq')
    rng = ctx.rng
    info, table_ok = regenerate(ctx)
    ctx.explanation = ctx.explanation % (info['n_pc'] + info['n_nopc'])
    check_table(ctx, info, table_ok)

    nprog = ctx.n(24, 60)
    nops = ctx.n(22, 40)
    replay_items, replay_meta = [], []
    stats = collections.Counter()
    t_sim0 = time.time()
    t_budget = ctx.n(75, 1000)
    for ci, (m, t) in enumerate(CONFIGS):
        progs = []
        for pi in range(nprog // len(CONFIGS)):
            with_mod = (pi % 3 == 2)
            # None-returning coroutines (mpc.peek, returnType(None), -> None) and top-level barriers are part of every
            # program: a coroutine that is never counted as finished keeps barrier()/shutdown() from terminating
            spec, want = gen_spec(rng, m, nops, with_mod=with_mod, with_barrier=True, with_ucoro=True,
                                  ucoro_forms=('type', 'none', 'annot', 'annot_none', 'peek', 'peek'))
            progs.append((spec, want, with_mod))
        pols = policies(rng, m, nhold=ctx.n(2, m * (m - 1)), nrand=ctx.n(2, 4))
        ref_trees = {}
        for pn, pf in pols:
            if time.time() - t_sim0 > t_budget * (ci + 1) / len(CONFIGS):
                ctx.notes.append('time budget reached: skipped schedule %s for (m,t)=(%d,%d)' % (pn, m, t))
                continue
            sess = Session(m, t, ctx.seed + 3, start_policy=pf())   # same party tapes for every schedule: outputs must be equal
            try:
                for pi, (spec, want, with_mod) in enumerate(progs):
                    if not sess.ok:
                        ctx.violation('start (handshake) did not complete under %s (m=%d,t=%d)' % (pn.split(':')[0], m, t),
                                      {'m': m, 't': t, 'schedule': pn, 'start': sess.start_result})
                        break
                    res, starts = sess.run(spec, pf)
                    key = {'m': m, 't': t, 'schedule': pn, 'program': spec['ops']}
                    nontriv = any(o[0] in ('await', 'gather', 'output') for o in spec['ops'][1:-2])
                    ctx.case(key, nontrivial=nontriv, kind='(%d,%d) %s%s' % (m, t, pn.split(':')[0], ' %' if with_mod else ''))
                    stats['runs'] += 1
                    bad = is_bad(res)
                    wrong = (not bad) and any(r != want for r in res)
                    touched = sorted({q for i in range(m) for q, k in sess.mon.nopc_touch[i]})
                    for i in range(m):
                        del sess.mon.nopc_touch[i][:]
                    for q in touched:
                        # dynamic monitor: a NoPC task forked / drew a uci / sent / received
                        ctx.violation(sig_for_entry('runtime.' + q) + ' [observed at run time]',
                                      {'case': key, 'coroutine': q})
                        stats['nopc_touch_observed'] += 1
                    if bad or wrong:
                        detail = {'case': key, 'results': res, 'want': want, 'buffers_left': sess.leftover()}
                        if with_mod:
                            # attribute: the same program with every `%` routed through the PC coroutines directly
                            spec2 = {'m': m, 'ops': [['modfix', o[1], o[2]] if o[0] == 'mod' else o for o in spec['ops']]}
                            s2 = Session(m, t, ctx.seed + 3)
                            try:
                                res2, _ = s2.run(spec2, pf)
                            finally:
                                s2.close()
                            detail['same program with % through lsb/_mod directly'] = res2
                            if not is_bad(res2) and all(r == want for r in res2):
                                ctx.violation('schedule-dependent outcome; deadlock witness for `%` (NoPC coroutine '
                                              'runtime.mod touches the program counter after its first await)', detail)
                                stats['mod_deadlocks'] += 1
                                break     # this simulator is wedged; remaining programs run under the other schedules
                        ctx.violation('%s under %s (m=%d,t=%d)' % (
                            'program did not terminate at every party (parties pending or failed)' if bad
                            else 'schedule-dependent outcome: wrong output', pn.split(':')[0], m, t), detail)
                        break
                    # cross-schedule / cross-party label agreement
                    if touched:
                        # a NoPC task moved the base counter (reported above): the event structure of the base context
                        # is then legitimately schedule-dependent, nothing further to compare for this run
                        stats['runs_skipped_after_nopc_touch'] += 1
                        continue
                    trees = [sess.mon.tree(i, starts[i]) for i in range(m)]
                    for i in range(m):
                        if (ci, pi, i) not in ref_trees:
                            ref_trees[(ci, pi, i)] = (pn, trees[i])
                            if i == 0 and len(replay_items) < ctx.n(8, 40):
                                replay_items.append(((m, t, pi), trees[0], sess.c0[0]))
                                replay_meta.append({'m': m, 't': t, 'program': pi, 'schedule': pn,
                                                    'values': tree_values(trees[0])})
                        rpn, rtree = ref_trees[(ci, pi, i)]
                        if tree_shape(trees[i]) != tree_shape(rtree) or tree_values(trees[i]) != tree_values(rtree):
                            stats['label_mismatch'] += 1
                            ctx.violation('labels or event structure differ between schedules for the same program and party',
                                          {'case': key, 'party': i, 'reference_schedule': rpn})
                            break
                        # across parties: the fork/uci skeleton (structure and counter values) must coincide
                        if skeleton(trees[i]) != skeleton(trees[0]):
                            stats['party_mismatch'] += 1
                            ctx.violation('fork/uci labels differ between parties for the same program',
                                          {'case': key, 'parties': [0, i]})
                            break
                        stats['trees_equal'] += 1
                else:
                    sd = sess.shutdown(pf)
                    if any(r is not True for r in sd):
                        ctx.violation('shutdown did not terminate at every party under %s (m=%d,t=%d)' % (pn.split(':')[0], m, t),
                                      {'m': m, 't': t, 'schedule': pn, 'shutdown': sd, 'programs': [p_[0]['ops'] for p_ in progs],
                                       'pc_level': [mp._pc_level for mp in sess.sim.mpcs],
                                       'pending_tasks': [sess.mon.pending_tasks(i)[:6] for i in range(m)]})
            finally:
                sess.close()
    handshake_stream(ctx, stats)
    coalesced_handshake_stream(ctx, stats, full=False)
    ctx.log('simulator: %s' % dict(stats))
    # model replay: the Coq label function on the logged call tree with the real hop table must reproduce the labels
    if ok and replay_items:
        res = replay_in_coq(ctx, replay_items)
        good = 0
        for r, mt in zip(res, replay_meta):
            if isinstance(r, tuple) and r and r[0] == 'ERROR':
                ctx.broken.append({'kind': 'correspondence', 'what': 'coq evaluation failed', 'detail': r[1][:400]})
                continue
            pred = [canon_ev(v[1]) if isinstance(v, tuple) and v and v[0] == 'Some' else None for v in r]
            obs = [tuple(v) for v in mt['values']]
            if pred != obs:
                firstbad = next((i for i, (a, b) in enumerate(zip(pred, obs)) if a != b), min(len(pred), len(obs)))
                ctx.broken.append({'kind': 'correspondence', 'what': 'PC.label vs logged labels', 'case': {k: mt[k] for k in ('m', 't', 'program', 'schedule')},
                                   'index': firstbad, 'model': str(pred[firstbad:firstbad + 2]), 'impl': str(obs[firstbad:firstbad + 2]),
                                   'n_model': len(pred), 'n_impl': len(obs)})
            else:
                good += 1
                stats['events_replayed'] += len(obs)
        ctx.extra['traces_validated_against_impl'] = good
        ctx.log('model replay: %d/%d logged call trees reproduced by PC.label (%d events)' % (good, len(replay_items), stats['events_replayed']))
    ctx.extra['simulator'] = dict(stats)
    if ctx.broken and not ctx.violations:
        ctx.unproved('C08 model/proof/correspondence', {'broken': ctx.broken[:5]})


if __name__ == '__main__':
    if len(sys.argv) >= 4 and sys.argv[1] == '--np-witness':
        _np_witness_main(sys.argv[2], int(sys.argv[3]))
