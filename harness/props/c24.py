"""C24 — irreducibility tests and irreducible-modulus search are correct.

Proof: coq/props/C24.v over coq/theories/Irred.v (Ben-Or test and the search loops of both polynomial
classes, as coded).  Tie: gfpx.Polynomial/BinaryPolynomial.is_irreducible, next_irreducible,
finfields.find_irreducible run on the same inputs as the model (vm_compute), compared exactly, for
ALL polynomials in bounded domains.  Property oracle: brute-force factor sieve in this file, and
finfields.GF(modulus) acceptance against it.
"""
import bisect
from lib.core import zlit

MANIFEST = {
    'text': 'Coq (Irred.v, as-coded models of _is_irreducible/_next_irreducible of both classes and find_irreducible): '
            'bounded-exhaustive theorems, bound in the statement, proved by vm_compute + forallb_forall: for every integer '
            'encoding a below 2^10 (binary class and generic class at p=2), 3^6, 5^4, 7^3 the Ben-Or test equals the brute-force '
            'test "degree >= 1 and no divisor of degree 1..deg-1" computed inside Coq by trial division; for a < 2^10 '
            'binary next_irreducible returns the least irreducible above its argument and find_irreducible(2,d), d<=12, the least of degree d; for the generic class the statement '
            '"next_irreducible returns the least monic irreducible above a" is proved for every a below 2^9, 3^5, 5^4, 7^3 (generic '
            'class; X included since the repair of finding F-C24-1, which the check had demonstrated with p=3, a=0) and for a < 2^10 '
            '(binary class); find_irreducible likewise, d = 1 included. Every run compares '
            'model and implementation exactly on all polynomials below 2^12 (both classes), 3^6, 5^4, 7^3 and checks the '
            'implementation against a brute-force sieve, including finfields.GF acceptance.',
    'note': 'Trusted: Coq kernel + vm_compute; the models in Irred.v/Gfpx.v/Gf2x.v tied by exact comparison. NOT proved for '
            'unbounded degree: (also the soundness direction "reported reducible => has a factor" is not proved: the gcd found may be the polynomial itself) completeness/soundness of the Ben-Or test for all polynomials (needs the factorisation of '
            'X^(p^i) - X; only the bounded-exhaustive version is a theorem), next_irreducible for all a, find_irreducible '
            'smallest for all (p,d) (bounded instances only). GF/xGF acceptance is is_irreducible by inspection of '
            'finfields.xGF (modelled as gf_accepts := is_irreducible) and checked on the implementation against the sieve. '
            'Beyond the exhaustive domains: find_irreducible(p,d) for p in {2,3,5,7,11,13,17,101,257} up to degree 24/16/12/10/9/9/8/5/4 '
            '(more in thorough) and next_irreducible from random start points are compared with an independent Rabin-test scan of '
            'every candidate (and with the Coq model for d <= 9, p <= 13). '
            'Search loops carry explicit fuel (None/NoFuel on exhaustion; bounded theorems show it does not occur there).',
    'technique': 'Coq executable model + bounded-exhaustive vm_compute theorems (the former refutation witness p=3, a=0 is now a regression input) + exhaustive differential '
                 'correspondence + brute-force sieve oracle',
}


def r_from_int(p, n):
    c = []
    while n:
        c.append(n % p)
        n //= p
    return c


def r_to_int(p, a):
    return sum(c * p ** i for i, c in enumerate(a))


def r_mul(p, a, b):
    if not a or not b:
        return []
    c = [0] * (len(a) + len(b) - 1)
    for i, x in enumerate(a):
        for j, y in enumerate(b):
            c[i + j] = (c[i + j] + x * y) % p
    return c


def r_trim(a):
    while a and a[-1] == 0:
        a.pop()
    return a


def r_mod(p, a, f):
    """a mod f over GF(p), f nonzero (little-endian coefficient lists)"""
    a = r_trim(list(a))
    df = len(f) - 1
    inv = pow(f[-1], -1, p)
    while len(a) - 1 >= df and a:
        q = a[-1] * inv % p
        sh = len(a) - 1 - df
        for i, c in enumerate(f):
            a[sh + i] = (a[sh + i] - q * c) % p
        r_trim(a)
    return a


def r_sub(p, a, b):
    n = max(len(a), len(b))
    return r_trim([((a[i] if i < len(a) else 0) - (b[i] if i < len(b) else 0)) % p for i in range(n)])


def r_gcd(p, a, b):
    a, b = r_trim(list(a)), r_trim(list(b))
    while b:
        a, b = b, r_mod(p, a, b)
    return a


def r_powmod(p, a, n, f):
    r, b = [1], r_mod(p, a, f)
    while n:
        if n & 1:
            r = r_mod(p, r_mul(p, r, b), f)
        b = r_mod(p, r_mul(p, b, b), f)
        n >>= 1
    return r


def rabin_irreducible(p, f):
    """Rabin's test (independent of the package's Ben-Or test): f of degree n >= 1 is irreducible over GF(p) iff
    X^(p^n) = X mod f and gcd(X^(p^(n/q)) - X, f) = 1 for every prime q | n."""
    f = r_trim(list(f))
    n = len(f) - 1
    if n < 1:
        return False
    if n == 1:
        return True
    X = [0, 1]
    qs = [q for q in range(2, n + 1) if n % q == 0 and all(q % r for r in range(2, q))]
    for q in qs:
        h = r_sub(p, r_powmod(p, X, p ** (n // q), f), X)
        if len(r_gcd(p, h, f)) != 1:
            return False
    return not r_sub(p, r_powmod(p, X, p ** n, f), r_mod(p, X, f))


def rabin_next_irr(p, a):
    """smallest monic irreducible with integer encoding > a (independent scan)"""
    b = a + 1
    while True:
        c = r_from_int(p, b)
        if c and c[-1] != 1:
            b = p ** len(c)
            continue
        if rabin_irreducible(p, c):
            return b
        b += 1


class Sieve:
    """all monic irreducible polynomials over GF(p) of degree <= maxdeg, by marking every product of two
    monic polynomials of degree >= 1 (integers: polynomial a_0 + a_1 X + ... <-> a_0 + a_1 p + ...)."""

    def __init__(self, p, maxdeg):
        self.p, self.maxdeg = p, maxdeg
        red = set()
        monic = {d: [r_from_int(p, n) for n in range(p ** d, 2 * p ** d)] for d in range(1, maxdeg)}
        for du in range(1, maxdeg):
            for dv in range(du, maxdeg - du + 1):
                for u in monic[du]:
                    for v in monic[dv]:
                        red.add(r_to_int(p, r_mul(p, u, v)))
        self.red = red
        self.irr = sorted(n for d in range(1, maxdeg + 1) for n in range(p ** d, 2 * p ** d) if n not in red)

    def irreducible(self, n):
        """polynomial with integer encoding n (any leading coefficient), degree <= maxdeg"""
        a = r_from_int(self.p, n)
        if len(a) < 2:
            return False
        inv = pow(a[-1], -1, self.p)
        return r_to_int(self.p, [x * inv % self.p for x in a]) not in self.red

    def next_irr(self, n):
        """smallest monic irreducible with encoding > n, or None if beyond the sieve"""
        i = bisect.bisect_right(self.irr, n)
        return self.irr[i] if i < len(self.irr) else None


PRE = r'''
Open Scope list_scope.
Open Scope Z_scope.
Definition cb (r : res bool) : Z := match r with Ok true => 1 | Ok false => 0 | ZeroDiv => -1 | ValueErr => -2 | NoFuel => -3 end.
Definition cl (p : Z) (r : res (list Z)) : Z := match r with Ok x => to_int p x | ZeroDiv => -1 | ValueErr => -2 | NoFuel => -3 end.
Definition cz (r : res Z) : Z := match r with Ok x => x | ZeroDiv => -1 | ValueErr => -2 | NoFuel => -3 end.
Definition irr_blk (p lo : Z) (n : nat) := map (fun a => cb (is_irreducible p (from_int p a))) (zrange lo n).
Definition nxt_blk (p lo : Z) (n : nat) := map (fun a => cl p (next_irreducible p 600 (from_int p a))) (zrange lo n).
Definition irr2_blk (lo : Z) (n : nat) := map (fun a => cb (is_irreducible2 a)) (zrange lo n).
Definition nxt2_blk (lo : Z) (n : nat) := map (fun a => cz (next_irreducible2 600 a)) (zrange lo n).
'''


def run(ctx):
    from mpyc import gfpx, finfields
    ok = ctx.build(['MPyC.Irred']) and ctx.check_props()
    rng = ctx.rng
    ctx.rule = ('case = (class, p, int(a)) for ALL a below the bound (2^12 both classes, 3^6, 5^4, 7^3; thorough 2^14, 3^7, 5^5, '
                '7^4): is_irreducible, next_irreducible; find_irreducible(p,d) for all d in bounds; GF acceptance on a smaller '
                'exhaustive domain; random monic polynomials over 11, 101, 2^31-1; non-trivial when degree >= 2')
    ctx.explanation = ('bounded-exhaustive Coq theorems + refutation witness; model vs implementation exact on whole domains; '
                       'implementation vs brute-force product sieve')
    bounds = {2: ctx.n(12, 14), 3: ctx.n(6, 7), 5: ctx.n(4, 5), 7: ctx.n(3, 4)}       # number of coefficients
    G2 = type('GF(2)[x]generic', (gfpx.Polynomial,), {'__slots__': (), 'p': 2})
    classes = [('bin2', 2, gfpx.GFpX(2)), ('gen2', 2, G2)] + [('gen%d' % p, p, gfpx.GFpX(p)) for p in (3, 5, 7)]
    sieves = {p: Sieve(p, k - 1) for p, k in bounds.items()}
    exprs, expect, meta = [], [], []
    BLK = 64
    for name, p, P in classes:
        S = sieves[p]
        N = p ** bounds[p]
        binary = name == 'bin2'
        irr_impl, nxt_impl = [], []
        top = S.irr[-1]
        for a in range(N):
            A = P(a)
            got = bool(P.is_irreducible(A))
            irr_impl.append(int(got))
            want = S.irreducible(a)
            ctx.case({'class': name, 'a': a, 'op': 'is_irreducible'}, nontrivial=a >= p * p, kind='is_irreducible %s' % name)
            if got != want:
                ctx.violation('is_irreducible-wrong p=%d %s' % (p, name),
                              {'class': name, 'p': p, 'a': a, 'coef': r_from_int(p, a), 'got': got, 'want': want})
        # next_irreducible for every a whose answer lies inside the sieve
        for a in range(top):
            want = S.next_irr(a)
            got = int(P.next_irreducible(P(a)))
            nxt_impl.append(got)
            ctx.case({'class': name, 'a': a, 'op': 'next_irreducible'}, nontrivial=True, kind='next_irreducible %s' % name)
            if got != want:
                if want == p and not binary and got == S.next_irr(p):
                    sig = 'next_irreducible-skips-X p=%d a=%d' % (p, a)
                else:
                    sig = 'next_irreducible-wrong p=%d a=%d %s' % (p, a, name)
                ctx.violation(sig, {'class': name, 'p': p, 'a': a, 'got': got, 'got_coef': r_from_int(p, got),
                                    'want': want, 'want_coef': r_from_int(p, want)})
        # find_irreducible
        if True:
            for d in range(1, bounds[p]):
                want = S.next_irr(p ** d - 1)
                got = int(finfields.find_irreducible(p, d)) if name != 'gen2' else int(G2.next_irreducible(p ** d - 1))
                ctx.case({'class': name, 'd': d, 'op': 'find_irreducible'}, nontrivial=d >= 2, kind='find_irreducible')
                if r_from_int(p, want)[-1] != 1 or len(r_from_int(p, want)) != d + 1:
                    raise AssertionError('sieve')
                if got != want:
                    if d == 1 and not binary and want == p:
                        sig = 'find_irreducible-skips-X p=%d d=1' % p
                    else:
                        sig = 'find_irreducible-wrong p=%d d=%d %s' % (p, d, name)
                    ctx.violation(sig, {'class': name, 'p': p, 'd': d, 'got': got, 'want': want})
        # GF acceptance (smaller exhaustive domain; the generic class at p=2 is not reachable through GFpX)
        if name != 'gen2':
            M = min(N, {2: 2 ** 9, 3: 3 ** 5, 5: 5 ** 4, 7: 7 ** 3}[p])
            for a in range(M):
                want = S.irreducible(a)
                try:
                    F = finfields.GF(P(a))
                    got = True
                    good = F.modulus == P(a) and F.order == p ** (len(r_from_int(p, a)) - 1) and F.characteristic == p
                except ValueError:
                    got, good = False, True
                ctx.case({'class': name, 'a': a, 'op': 'GF'}, nontrivial=a >= p, kind='GF-accepts %s' % name)
                if got != want or not good:
                    ctx.violation('GF-accepts-wrong p=%d a=%d' % (p, a), {'p': p, 'a': a, 'accepted': got, 'irreducible': want,
                                                                            'attributes_ok': good})
        # Coq expressions over the same domains (quick tier: a smaller prefix keeps coqc under a minute)
        NC = min(N, {2: 2 ** ctx.n(12, 14), 3: 3 ** ctx.n(6, 7), 5: 5 ** ctx.n(4, 5), 7: 7 ** ctx.n(3, 4)}[p])
        for lo in range(0, NC, BLK):
            n = min(BLK, NC - lo)
            exprs.append(('irr2_blk %d %d%%nat' % (lo, n)) if binary else ('irr_blk %d %d %d%%nat' % (p, lo, n)))
            expect.append(irr_impl[lo:lo + n])
            meta.append({'class': name, 'op': 'is_irreducible', 'lo': lo, 'n': n})
        NT = min(top, NC if name != 'gen2' else 2 ** ctx.n(10, 14))    # generic list class at p=2 is slow in vm_compute
        for lo in range(0, NT, BLK):
            n = min(BLK, NT - lo)
            exprs.append(('nxt2_blk %d %d%%nat' % (lo, n)) if binary else ('nxt_blk %d %d %d%%nat' % (p, lo, n)))
            expect.append(nxt_impl[lo:lo + n])
            meta.append({'class': name, 'op': 'next_irreducible', 'lo': lo, 'n': n})
        for d in range(1, bounds[p]):
            if name == 'bin2':
                exprs.append('[cz (find_irreducible2 600 %d)]' % d)
            else:
                exprs.append('[cl %d (find_irreducible %d 600 %d)]' % (p, p, d))
            expect.append([int(P.next_irreducible(p ** d - 1))])
            meta.append({'class': name, 'op': 'find_irreducible', 'd': d})
        ctx.log('%s: %d polynomials through implementation + sieve' % (name, N))
    ctx.extra['exhaustive'] = True
    # ---- random larger polynomials over bigger primes
    rexprs, rexpect, rmeta = [], [], []
    s11 = Sieve(11, 4)
    for p in (11, 101, 2 ** 31 - 1):
        P = gfpx.GFpX(p)
        for rep in range(ctx.n(60, 400)):
            kind = rng.choice(['quad', 'product', 'cubic', 'sieve11'])
            want = None
            if kind == 'sieve11':
                if p != 11:
                    continue
                d = rng.randint(2, 4)
                a = 11 ** d + rng.randrange(11 ** d)
                want = s11.irreducible(a)
            elif kind == 'quad':
                b, c = rng.randrange(p), rng.randrange(p)
                a = r_to_int(p, [c, b, 1])
                disc = (b * b - 4 * c) % p
                want = pow(disc, (p - 1) // 2, p) == p - 1
            elif kind == 'cubic':
                if (p - 1) % 3:
                    continue
                c = rng.randrange(1, p)
                a = r_to_int(p, [(-c) % p, 0, 0, 1])
                want = pow(c, (p - 1) // 3, p) != 1
            else:
                du, dv = rng.randint(1, 3), rng.randint(1, 3)
                u = [rng.randrange(p) for _ in range(du)] + [1]
                v = [rng.randrange(p) for _ in range(dv)] + [rng.randrange(1, p)]
                a = r_to_int(p, r_mul(p, u, v))
                want = False
            got = bool(P.is_irreducible(a))
            ctx.case({'p': p, 'a': a, 'kind': kind}, nontrivial=True, kind='random %s p=%d' % (kind, p))
            if got != want:
                ctx.violation('is_irreducible-wrong p=%d random-%s' % (p, kind), {'p': p, 'a': a, 'coef': r_from_int(p, a),
                                                                                    'got': got, 'want': want})
            rexprs.append('[cb (is_irreducible %d (from_int %d %d))]' % (p, p, a))
            rexpect.append([int(got)])
            rmeta.append({'p': p, 'a': a, 'op': 'is_irreducible', 'kind': kind})
    # ---- degrees beyond the sieve: find_irreducible(p, d) and next_irreducible from random start points against an
    # independent Rabin test scanning every candidate (the smallest monic irreducible must not be skipped)
    hi = {2: ctx.n(24, 40), 3: ctx.n(16, 24), 5: ctx.n(12, 18), 7: ctx.n(10, 14), 11: ctx.n(9, 12), 13: ctx.n(9, 12),
          17: ctx.n(8, 10), 101: ctx.n(5, 7), 257: ctx.n(4, 6)}
    nhi = 0
    for p, D in hi.items():
        P = gfpx.GFpX(p)
        for d in range(1, D + 1):
            if p in bounds and d < bounds[p]:
                continue                                   # inside the exhaustive part above
            want = rabin_next_irr(p, p ** d - 1)
            got = int(finfields.find_irreducible(p, d))
            nhi += 1
            ctx.case({'p': p, 'd': d, 'op': 'find_irreducible-high'}, nontrivial=True, kind='find_irreducible high degree')
            if got != want:
                ctx.violation('find_irreducible-wrong p=%d d=%d high-degree' % (p, d),
                              {'p': p, 'd': d, 'got': got, 'got_coef': r_from_int(p, got), 'want': want,
                               'want_coef': r_from_int(p, want), 'oracle': 'Rabin test on every candidate from p^d upward'})
            elif d <= ctx.n(9, 12) and p <= 13:
                rexprs.append(('[cz (find_irreducible2 600 %d)]' % d) if p == 2 else ('[cl %d (find_irreducible %d 600 %d)]' % (p, p, d)))
                rexpect.append([got])
                rmeta.append({'p': p, 'd': d, 'op': 'find_irreducible-high'})
            for rep in range(ctx.n(2, 8)):
                a = rng.randrange(p ** d, 2 * p ** d if rep % 2 else p ** (d + 1))
                want = rabin_next_irr(p, a)
                got = int(P.next_irreducible(P(a)))
                nhi += 1
                ctx.case({'p': p, 'a': a, 'op': 'next_irreducible-high'}, nontrivial=True, kind='next_irreducible high degree')
                if got != want:
                    ctx.violation('next_irreducible-wrong p=%d high-degree' % p,
                                  {'p': p, 'a': a, 'got': got, 'want': want, 'a_coef': r_from_int(p, a),
                                   'want_coef': r_from_int(p, want)})
    ctx.log('high-degree find/next_irreducible against the independent Rabin scan: %d cases' % nhi)
    # ---- the historical failing input of finding F-C24-1 (X skipped for odd p)
    P3 = gfpx.GFpX(3)
    if P3.is_irreducible(P3(3)) and int(P3.next_irreducible(P3(0))) != 3:
        ctx.violation('next_irreducible-skips-X p=3 a=0', {'p': 3, 'a': 0, 'got': int(P3.next_irreducible(P3(0))), 'want': 3,
                                                          'note': 'X is irreducible and must be returned for a < p'})
    # ---- model evaluation
    if ok:
        allx, allw, allm = exprs + rexprs, expect + rexpect, meta + rmeta
        ctx.log('evaluating %d model expressions in Coq' % len(allx))
        res = ctx.coq_eval(['MPyC.Gfpx', 'MPyC.Gf2x', 'MPyC.Irred'], allx, preamble=PRE, chunk=max(10, len(allx) // 14 + 1))
        mism = 0
        for r, want, key in zip(res, allw, allm):
            if r != want:
                mism += 1
                if isinstance(r, list) and len(r) == len(want):
                    diff = [(key.get('lo', 0) + i, r[i], want[i]) for i in range(len(want)) if r[i] != want[i]][:4]
                else:
                    diff = str(r)[:300]
                ctx.broken.append({'kind': 'correspondence', 'case': key, 'a,model,impl': diff})
        ctx.extra['traces_validated_against_impl'] = sum(len(w) for w in allw) - mism
        ctx.log('model/implementation disagreements: %d' % mism)
    if ctx.broken and not ctx.violations:
        ctx.unproved('C24 model/proof', {'broken': ctx.broken[:5]})
