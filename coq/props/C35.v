(** C35 — barriers and shutdown wait for all started MPyC coroutines.
    Only statements; proofs are in theories/Barrier.v (model: its header). *)
Require Import MPyC.Barrier.
From Coq Require Import ZArith List Bool.
Import ListNotations.
Local Open Scope nat_scope.

(** _pc_level equals the number of started-and-not-yet-finished coroutines after every event sequence in which each
    started coroutine exits at most once (through any of the five exit paths of typed_asyncoro / _reconcile). *)
Theorem C35_pc_level_counts :
  forall evs : list cev, cvalid cinit evs ->
    level (crun evs) = Z.of_nat (length (live (crun evs))).
Proof. exact pc_level_counts. Qed.
Print Assumptions C35_pc_level_counts.

(** When the loop `while _pc_level > depth` exits at top level (depth 0), no started coroutine is unfinished;
    at depth d at most d are (the enclosing coroutines themselves). *)
Theorem C35_barrier_top_level :
  forall evs : list cev, cvalid cinit evs ->
    loop_continues (level (crun evs)) 0 = false -> live (crun evs) = [].
Proof. exact barrier_top_level. Qed.
Print Assumptions C35_barrier_top_level.

Theorem C35_barrier_at_depth :
  forall (evs : list cev) (depth : nat), cvalid cinit evs ->
    loop_continues (level (crun evs)) depth = false -> length (live (crun evs)) <= depth.
Proof. exact barrier_at_depth. Qed.
Print Assumptions C35_barrier_at_depth.

(** Shutdown of party pid among m parties (statement order of Runtime.shutdown, checked against the source by the
    generated obligation shutdown_order_ok): whenever a connection has been closed by this party, a poll of the
    loop condition has seen _pc_level <= depth, and the shutdown message of every other party has been received. *)
Theorem C35_shutdown_closes_after_quiescence :
  forall (pid m depth : nat) (lvl : Z) (evs : list sev),
    sclosed (srun pid m depth lvl evs) <> [] ->
    squiesced (srun pid m depth lvl evs) = true /\
    (forall q, In q (peers pid m) -> In q (srecvd (srun pid m depth lvl evs))).
Proof. exact shutdown_closes_after_quiescence. Qed.
Print Assumptions C35_shutdown_closes_after_quiescence.

Theorem C35_quiesced_was_polled :
  forall (depth : nat) (evs : list sev) (s : sstate),
    squiesced s = false -> squiesced (fold_left (sstep 0 0 depth) evs s) = true ->
    exists pre post s1, evs = pre ++ SPoll :: post /\ s1 = fold_left (sstep 0 0 depth) pre s /\
                        loop_continues (slevel s1) depth = false.
Proof. intros depth. exact (quiesced_was_polled 0 0 depth). Qed.
Print Assumptions C35_quiesced_was_polled.

(** Every connection {i<j} has a closer: the lower-numbered party closes it in its for loop. *)
Theorem C35_every_connection_has_a_closer :
  forall m i j, i < j < m -> In j (higher i m).
Proof. exact every_connection_has_a_closer. Qed.
Print Assumptions C35_every_connection_has_a_closer.

(** Non-vacuity: three coroutines, one exits in its first segment by exception, one by StopIteration, one as a
    task; the barrier condition is false exactly when all have exited; a 3-party shutdown run that closes. *)
Example C35_nonvacuous :
  let evs := [Start 1; Start 2; Exit 2 ExExc; Start 3; Exit 3 ExStop; Exit 1 ExTask] in
  cvalid cinit evs /\ loop_continues (level (crun evs)) 0 = false /\
  loop_continues (level (crun [Start 1; Start 2; Exit 2 ExExc])) 0 = true /\
  sclosed (srun 0 3 0 2%Z [SPoll; SLevel 0%Z; SPoll; SRecv 1; SGathered; SRecv 2; SGathered; SCloseAll]) = [1; 2] /\
  sclosed (srun 0 3 0 2%Z [SPoll; SRecv 1; SRecv 2; SGathered; SCloseAll]) = [].
Proof. vm_compute. repeat split; auto; intuition discriminate. Qed.
