"""C21 — field square roots and quadratic-residue tests are correct.

Proof: coq/props/C21.v over coq/theories/Sqrt.v (PrimeFieldElement._sqrt/_is_sqr with the gmpy stubs
jacobi/powmod/invert).  Tie: sqrt(), sqrt(INV=True), is_sqr() and gmpy.legendre run on the real classes
and on the model, compared exactly (all elements for small primes of both classes mod 4).  Extension and
binary fields (Tonelli-Shanks, Frobenius): implementation-level oracle only (brute-force squares).
"""
from lib.core import zlit, zlist

MANIFEST = {
    'text': 'Coq theorems over an executable model of PrimeFieldElement._sqrt/_is_sqr (p = 2; p = 3 mod 4 by exponentiation '
            'incl. the INV exponent (3p-5)/4; p = 1 mod 4 by Cipolla-Lehmer with the search for b and the X^((p+1)/2) ladder in '
            'GF(p)[X]/(X^2-bX+a); legendre = the jacobi loop of gmpy.py). Unbounded, no hypotheses: Fermat little theorem '
            '(permutation of units; also for any abstract finite field); Euler criterion in BOTH directions for every odd prime '
            '(a^((p-1)/2) = 1 iff a is a square, else = p-1; root bound on X^h-1 against the squares of a half-system; also '
            'for abstract fields); the Euler test decides squareness for every prime and element; for every prime p = 3 mod 4: '
            'sqrt(a)^2 = a for every nonzero square and sqrt(a,INV)*sqrt(a) = 1 for every nonzero a; sqrt(0) = 0 and '
            'sqrt(0,INV) raises ZeroDivisionError; p = 2; the Cipolla ladder as coded leaves X^e of Z[X]/(X^2-bX+a) modulo p '
            'for every e, p (loop invariant). Conditional (hypotheses explicit in the statements): is_sqr(a) <-> a square for '
            'every prime, given that gmpy.legendre returns the Legendre symbol; the Cipolla result squares to a for every '
            'prime given the norm identity X^(p+1) = a and that b^2-4a is a non-residue. Bounded-exhaustive by vm_compute '
            '(the 46 primes below 200, all elements): the whole of is_sqr/sqrt/INV end to end incl. the jacobi loop and the '
            'Cipolla branch. The model is compared with the real methods on all elements of 27 primes <= 257 and on '
            'boundary/random elements of 61/64-bit primes of both classes (legendre also for 127/255-bit primes). Interleaved '
            'passes (cold, then warm caches) alternate sqrt/is_sqr of different fields back to back (two q = 1 mod 4 extension '
            'fields in a row, mixed with q = 3 mod 4, binary and prime fields) under a per-call time limit; a further pass uses '
            'all distinct irreducible moduli of the same order (degree 2 over GF(3), GF(5), GF(7), GF(13), degree 4 over GF(3)) '
            'back to back, sqrt/sqrt(INV) on squares of every element index. Array stream: PrimeFieldArray/ExtensionFieldArray/'
            'BinaryFieldArray sqrt, sqrt(INV), np.sqrt, is_sqr on arrays of sizes 0..40 (1-D and reshaped) compared elementwise with '
            'the scalar methods and with s*s == a, for worker-thread counts W = 0..4 (MPYC_MAXWORKERS), each W in its own '
            'subprocess under the NumPy interpreter, repeated with fresh values.',
    'note': 'Coq model restricted to prime fields (the p = 1 mod 4 branch of PrimeFieldElement is Cipolla-Lehmer; Tonelli-Shanks '
            'exists only in ExtensionFieldElement). Extension fields (Tonelli-Shanks; q = 1 and 3 mod 4) and binary fields '
            '(Frobenius) are covered by the implementation-level oracle only: is_sqr/sqrt/INV against brute-force squares on all '
            'elements for q <= 4096 and 1500 sampled elements of GF(2^16) (no Coq model of gfpx here). MISSING for unconditional '
            'theorems on every prime: (1) jacobi = Legendre symbol (quadratic reciprocity and the supplements, for the loop of '
            'gmpy.jacobi) - needed by is_sqr and by the search for b; also termination of that loop and of the search within '
            'the model fuel; (2) the Frobenius/norm identity X^(p+1) = a in GF(p)[X]/(X^2-bX+a) for a non-residue discriminant '
            '(binomial theorem with p | C(p,k)). Both are hypotheses of the conditional theorems and are discharged by '
            'computation only for p < 200 (C21_sqrt_is_sqr_bounded); above that: correspondence/oracle up to 255-bit primes. '
            'powmod = CPython pow is modelled, not verified. The array classes (incl. the worker-thread branch of '
            'PrimeFieldArray._sqrt) are not modelled in Coq: tested against the scalar methods only; skipped with a note when '
            '/verif/.venv-np is absent.',
    'technique': 'Coq proof (Fermat via permutation of units, Euler via root bound, ladder loop invariant, exponent arithmetic) + bounded vm_compute over all primes < 200 + exhaustive/random correspondence + brute-force oracle on all field kinds',
}

ERR = {ZeroDivisionError: -1, ValueError: -2, TypeError: -3}


def ref_pow(a, n, p):
    r = 1 % p
    b = a % p
    while n:
        if n & 1:
            r = r * b % p
        b = b * b % p
        n >>= 1
    return r


def code(f, p=None):
    try:
        r = f()
    except (ZeroDivisionError, ValueError, TypeError) as e:
        return ERR[type(e)]
    if isinstance(r, bool):
        return int(r)
    return r.value if hasattr(r, 'value') else int(r)


def fpow(x, n, one):
    """x**n by repeated squaring with the field's own * only (independent of __pow__/powmod/legendre)."""
    r = one
    while n:
        if n & 1:
            r = r * x
        x = x * x
        n >>= 1
    return r


ARRAY_SCRIPT = r"""
import os, sys, json, random
cfg = json.loads(sys.stdin.read())
W = cfg['W']
os.environ['MPYC_MAXWORKERS'] = str(W)
os.environ['MPYC_NOGMPY'] = os.environ.get('MPYC_NOGMPY', '0')
from mpyc import finfields
from mpyc.numpy import np
assert np, 'NumPy not importable'
rng = random.Random(cfg['seed'] * 7919 + W)
fails, ncase, hist = [], 0, {}

def ival(arr):
    return [int(v) for v in np.asarray(arr.value).reshape(-1).tolist()]

def scal(f):
    try:
        r = f()
    except (ZeroDivisionError, ValueError) as e:
        return type(e).__name__
    return bool(r) if isinstance(r, (bool, np.bool_)) else int(r.value)       # unsigned canonical value

def bad(sig, **kw):
    if len(fails) < 40:
        kw['W'] = W
        fails.append([sig, kw])

fields = []
for p in cfg['primes']:
    fields.append(('GF(%d)' % p, finfields.GF(p), p, 'prime p=%s' % ('2' if p == 2 else '%d mod 4' % (p % 4))))
for (pp, dd) in cfg['ext']:
    fields.append(('GF(%d^%d)' % (pp, dd), finfields.GF(finfields.find_irreducible(pp, dd)), pp ** dd,
                   'binary' if pp == 2 else 'extension q=%d mod 4' % (pp ** dd % 4)))
for name, F, q, kind in fields:
    prime = kind.startswith('prime')
    threaded = prime and q % 4 == 3            # the worker-thread branch (completion order varies: repeat)
    sizes = cfg['sizes'] if (q < 2 ** 32 or threaded) else [n for n in cfg['sizes'] if n <= 9 or n in (13, 16, 25, 33, 40)]
    for n in sizes:
        for rep in range(cfg['reps'] if threaded else 1):
            xs = [rng.randrange(1, q) for _ in range(n)]
            sq = [int((F(x) * F(x)).value) for x in xs]              # nonzero squares
            sq0 = [v if rng.random() < 0.85 else 0 for v in sq]       # with some zeros
            anyv = [rng.randrange(q) for _ in range(n)]
            shape = None
            if n in (6, 12, 20, 35) and rep % 2:
                shape = {6: (2, 3), 12: (3, 4), 20: (2, 2, 5), 35: (7, 5)}[n]
            def arr(vals):
                a = F.array(np.array(vals, dtype=object)) if vals else F.array([])
                return a.reshape(shape) if shape else a
            key = dict(field=name, n=n, shape=shape, rep=rep)
            ncase += 1
            hist[kind + ' W=%d' % W] = hist.get(kind + ' W=%d' % W, 0) + 1
            try:
                # sqrt on squares (zeros allowed), against the scalar method and against s*s == a
                a = arr(sq0)
                s_ = a.sqrt()
                if type(s_) is not F.array or s_.shape != a.shape:
                    bad('array-sqrt-type-or-shape ' + name, **key)
                got = ival(s_)
                want = [scal(lambda v=v: F(v).sqrt()) for v in sq0]
                if got != want:
                    bad('array-sqrt-differs-from-scalar ' + name, values=sq0, got=got, want=want, **key)
                if ival(s_ * s_) != sq0:
                    bad('array-sqrt-wrong ' + name, values=sq0, got=got, **key)
                if n and ival(np.sqrt(a)) != got:
                    bad('array-np.sqrt-differs ' + name, values=sq0, **key)
                # inverse roots on nonzero squares
                a = arr(sq)
                si = a.sqrt(INV=True)
                goti = ival(si)
                wanti = [scal(lambda v=v: F(v).sqrt(INV=True)) for v in sq]
                if goti != wanti:
                    bad('array-inv-sqrt-differs-from-scalar ' + name, values=sq, got=goti, want=wanti, **key)
                if ival(si * si * a) != [1] * n:
                    bad('array-inv-sqrt-wrong ' + name, values=sq, got=goti, **key)
                if n:
                    z = list(sq)
                    z[rng.randrange(n)] = 0
                    try:
                        arr(z).sqrt(INV=True)
                        bad('array-inv-sqrt-of-zero-accepted ' + name, values=z, **key)
                    except ZeroDivisionError:
                        pass
                # is_sqr on arbitrary elements, against the scalar method
                a = arr(anyv)
                g = a.is_sqr()
                gotq = [bool(b) for b in np.asarray(g).reshape(-1).tolist()]
                wantq = [bool(F(v).is_sqr()) for v in anyv]
                if gotq != wantq or np.asarray(g).shape != a.shape:
                    bad('array-is_sqr-differs-from-scalar ' + name, values=anyv, got=gotq, want=wantq, **key)
                if prime:
                    # prime fields: sqrt never raises; elementwise equal to the scalar result also on non-squares
                    for inv in (False, True):
                        vals = [v for v in anyv if v] if inv else anyv
                        if shape and len(vals) != n:
                            continue
                        r_ = arr(vals).sqrt(INV=inv)
                        if ival(r_) != [scal(lambda v=v: F(v).sqrt(INV=inv)) for v in vals]:
                            bad('array-sqrt-any-differs-from-scalar ' + name, values=vals, inv=inv, got=ival(r_), **key)
            except Exception as ex:
                import traceback
                bad('array-sqrt-raises ' + name, error=repr(ex), tb=traceback.format_exc()[-600:], **key)
print('RESULT ' + json.dumps({'fails': fails, 'cases': ncase, 'hist': hist}))
"""


def array_stream(ctx):
    """sqrt / sqrt(INV) / is_sqr of field ARRAYS (NumPy) against the scalar methods, for worker-thread counts
    W = 0..4 (MPYC_MAXWORKERS), one subprocess per W under the NumPy interpreter."""
    import json, os, subprocess
    from concurrent.futures import ThreadPoolExecutor
    from lib.core import PYNP, impl_env
    if not os.path.exists(PYNP):
        ctx.notes.append('array stream skipped: %s not present' % PYNP)
        return 0
    cfg = {'seed': ctx.seed, 'sizes': list(range(0, 41)), 'reps': ctx.n(2, 6),
           'primes': [2, 7, 19, 13, 101, 2 ** 61 - 1, 18446744073709551427, 18446744073709551557],
           'ext': [(3, 2), (3, 3), (5, 2), (2, 4), (2, 8)]}

    def one(W):
        c = dict(cfg, W=W)
        try:
            p = subprocess.run([PYNP, '-c', ARRAY_SCRIPT], input=json.dumps(c), text=True, env=impl_env(),
                               stdout=subprocess.PIPE, stderr=subprocess.PIPE, timeout=ctx.n(150, 900))
        except subprocess.TimeoutExpired:
            return W, None, 'timeout'
        line = [l for l in p.stdout.split('\n') if l.startswith('RESULT ')]
        if p.returncode or not line:
            return W, None, (p.stderr or p.stdout)[-1500:]
        return W, json.loads(line[-1][7:]), None

    total = 0
    with ThreadPoolExecutor(max_workers=5) as ex:
        results = list(ex.map(one, [0, 1, 2, 3, 4]))
    for W, res, err in results:
        if res is None:
            ctx.violation('array-stream-failed W=%d' % W, {'W': W, 'error': err})
            continue
        for sig, detail in res['fails']:
            ctx.violation('%s W=%d' % (sig, W), detail)
        total += res['cases']
        for k, v in res['hist'].items():
            ctx.hist['array ' + k] = ctx.hist.get('array ' + k, 0) + v
        ctx.evaluations += res['cases']
        ctx._distinct.update('array W=%d #%d' % (W, i) for i in range(res['cases']))
    return total


class StepTimeout(Exception):
    pass


class time_limit:
    """SIGALRM-based guard: a non-terminating sqrt/is_sqr (e.g. Tonelli-Shanks fed a foreign non-residue) raises StepTimeout."""
    def __init__(self, seconds):
        self.seconds = seconds

    def _h(self, *a):
        raise StepTimeout()

    def __enter__(self):
        import signal
        self.old = signal.signal(signal.SIGALRM, self._h)
        signal.setitimer(signal.ITIMER_REAL, self.seconds)

    def __exit__(self, *a):
        import signal
        signal.setitimer(signal.ITIMER_REAL, 0)
        signal.signal(signal.SIGALRM, self.old)
        return False


def interleaved(ctx, finfields, rng, rounds=None):
    """sqrt / is_sqr of DIFFERENT fields back to back in one sequence (state cached at class level, such as the
    Tonelli-Shanks non-residue _least_qnr, must not leak between fields): extension fields with q = 1 mod 4
    alternate with each other and with q = 3 mod 4, binary and prime fields; each step is checked against
    squares built with the field's own multiplication; every call runs under a time limit."""
    specs = [(3, 2), (5, 2), (7, 2), (3, 4), (11, 2), (13, 2), (17, 2), (5, 3), (3, 3), (7, 3), (2, 4), (2, 8)]
    X = []
    for (pp, dd) in specs:
        X.append(('GF(%d^%d)' % (pp, dd), finfields.GF(finfields.find_irreducible(pp, dd)), pp ** dd))
    for p in (13, 17, 19, 101, 2305843009213693921):
        X.append(('GF(%d)' % p, finfields.GF(p), p))
    q1 = [x for x in X if x[2] % 4 == 1 and x[0].count('^')]
    n = 0
    trace = []
    rounds = rounds or ctx.n(1500, 15000)
    for k in range(rounds):
        if k % 2 == 0:
            name, F, q = q1[(k // 2) % len(q1)] if (k // 2) % 7 else rng.choice(q1)     # two q = 1 mod 4 extension fields back to back
        else:
            name, F, q = rng.choice(q1) if k % 4 == 1 else rng.choice(X)
        x = F(rng.randrange(1, q))
        a = x * x if k % 3 else F(rng.randrange(q))
        trace.append([name, int(a)])
        del trace[:-6]
        n += 1
        try:
            with time_limit(20):
                sq = a.is_sqr()
                euler = (a == F(0)) or q % 2 == 0 or fpow(a, (q - 1) // 2, F(1)) == F(1)
                if bool(sq) != bool(euler):
                    ctx.violation('interleaved-is_sqr-wrong ' + name, {'field': name, 'a': int(a), 'got': bool(sq), 'preceding_steps': list(trace)})
                if euler:
                    r = a.sqrt()
                    if type(r) is not F or r * r != a:
                        ctx.violation('interleaved-sqrt-wrong ' + name, {'field': name, 'a': int(a), 'got': str(r), 'preceding_steps': list(trace)})
                    if a != F(0):
                        ri = a.sqrt(INV=True)
                        if type(ri) is not F or ri * ri * a != F(1) or ri * r not in (F(1), -F(1)):
                            ctx.violation('interleaved-inv-sqrt-wrong ' + name, {'field': name, 'a': int(a), 'got': str(ri), 'preceding_steps': list(trace)})
        except StepTimeout:
            ctx.violation('interleaved-sqrt-timeout ' + name, {'field': name, 'a': int(a), 'limit_s': 20, 'preceding_steps': list(trace)})
            break
        except Exception as ex:  # noqa
            ctx.violation('interleaved-sqrt-raises ' + name, {'field': name, 'a': int(a), 'got': repr(ex), 'preceding_steps': list(trace)})
        ctx.case({'il': name, 'a': int(a), 'k': k}, nontrivial=True, kind='interleaved sqrt across fields')
    return n


def same_order_fields(ctx, finfields, rng):
    """Distinct irreducible moduli of the SAME order q = 1 mod 4 used back to back (state keyed by the field order
    instead of the field class would leak between them): all monic irreducibles of degree 2 over GF(3), GF(5), GF(7),
    GF(13) and of degree 4 over GF(3); sqrt and sqrt(INV) on every square, is_sqr on every element, each call
    under a time limit."""
    from mpyc import gfpx
    n = 0
    for (pp, dd, cap) in [(3, 2, None), (5, 2, None), (7, 2, None), (13, 2, ctx.n(6, 40)), (3, 4, ctx.n(6, 18))]:
        q = pp ** dd
        poly = gfpx.GFpX(pp)
        mods = [m for m in (poly(q + k) for k in range(q)) if poly.is_irreducible(m)]      # monic, degree dd
        if cap and len(mods) > cap:
            mods = [mods[0]] + rng.sample(mods[1:], cap - 1)
        Fs = [finfields.GF(m) for m in mods]
        if len(set(Fs)) != len(mods) or any(F.order != q for F in Fs):
            ctx.violation('same-order-fields-not-distinct GF(%d^%d)' % (pp, dd), {'moduli': [str(m) for m in mods]})
        dead = set()
        order = list(range(1, q))
        rng.shuffle(order)
        order = [0] + order[:ctx.n(40, q)]
        for i in order:
            for k, F in enumerate(Fs):                      # same element index, the different fields back to back
                if k in dead:
                    continue
                name = 'GF(%d^%d) mod %s' % (pp, dd, mods[k])
                x = F(i)
                a = x * x
                n += 1
                try:
                    with time_limit(5):
                        if not a.is_sqr():
                            ctx.violation('same-order-is_sqr-wrong ' + name, {'field': name, 'a': int(a)})
                        r = a.sqrt()
                        if type(r) is not F or r * r != a:
                            ctx.violation('same-order-sqrt-wrong ' + name, {'field': name, 'a': int(a), 'got': str(r)})
                        if i == 0:
                            try:
                                a.sqrt(INV=True)
                                ctx.violation('same-order-inv-sqrt-of-zero ' + name, {'field': name})
                            except ZeroDivisionError:
                                pass
                        else:
                            ri = a.sqrt(INV=True)
                            if type(ri) is not F or ri * ri * a != F(1) or ri * r not in (F(1), -F(1)):
                                ctx.violation('same-order-inv-sqrt-wrong ' + name, {'field': name, 'a': int(a), 'got': str(ri)})
                        # a non-square: x^2 * (a fixed non-residue) is never a square
                        y = F(rng.randrange(1, q))
                        if y.is_sqr() != (fpow(y, (q - 1) // 2, F(1)) == F(1)):
                            ctx.violation('same-order-is_sqr-wrong ' + name, {'field': name, 'a': int(y)})
                except StepTimeout:
                    ctx.violation('same-order-sqrt-timeout ' + name, {'field': name, 'a': int(a), 'limit_s': 5,
                                                                      'other_moduli_used_before': [str(m) for m in mods[:k]]})
                    dead.add(k)
                except Exception as ex:  # noqa
                    ctx.violation('same-order-sqrt-raises ' + name, {'field': name, 'a': int(a), 'got': repr(ex),
                                                                     'other_moduli_used_before': [str(m) for m in mods[:k]]})
                ctx.case({'so': name, 'a': int(a)}, nontrivial=i != 0, kind='same-order distinct moduli q=%d' % q)
    return n


def run(ctx):
    from mpyc import finfields, gmpy
    ok = ctx.build(['MPyC.Sqrt', 'MPyC.Euler']) and ctx.check_props()
    rng = ctx.rng
    nso = same_order_fields(ctx, finfields, rng)                         # caches cold
    ctx.extra['same_order_distinct_moduli_checks'] = nso
    ctx.log('same-order distinct-moduli sqrt checks: %d' % nso)
    nil = interleaved(ctx, finfields, rng, rounds=ctx.n(400, 4000))      # first use of every field class: caches cold
    ctx.rule = ('case = (field, element a): sqrt(a), sqrt(a, INV=True), is_sqr(a); all elements for primes <= 257 (both '
                'classes mod 4, plus 2), for every extension/binary field of order <= 2^16; random squares and non-squares '
                'for 61/64-bit primes; non-trivial = a nonzero')
    ctx.explanation = ('Coq theorems (Fermat, Euler both directions, exponentiation branch incl. INV, ladder invariant, conditional Cipolla/is_sqr, bounded-exhaustive p < 200) over the executable prime-field model; '
                       'model compared exactly with the real methods; brute-force-squares oracle on every field kind')

    def bad(sig, **kw):
        ctx.violation(sig, kw)

    small = [2, 3, 5, 7, 11, 13, 17, 19, 23, 29, 31, 37, 41, 43, 53, 61, 73, 97, 101, 103, 113, 193, 197, 199, 241, 251, 257]
    p61a = 2 ** 61 - 1                       # = 3 mod 4
    p61b = 2305843009213693921               # = 1 mod 4
    p64a = 18446744073709551557              # = 1 mod 4
    p64b = 18446744073709551427              # = 3 mod 4
    big = [p61a, p61b, p64a, p64b, 2 ** 127 - 1, 2 ** 255 - 19]     # 2^255-19 = 1 mod 4 (5 mod 8)
    for pp in big:
        assert gmpy.is_prime(pp)

    exprs, meta = [], []
    # ---------------- prime fields: model tie + oracle
    for p in small + big:
        F = finfields.GF(p)
        if p <= 257:
            els = list(range(p))
            squares = {x * x % p for x in range(p)}
        else:
            els = [0, 1, 2, 3, 4, p - 1, p - 2, (p - 1) // 2, (p + 1) // 2]
            for _ in range(ctx.n(20, 150)):
                x = rng.randrange(p)
                els += [x * x % p, rng.randrange(p)]
            squares = None
            # the model is evaluated on a prefix only (vm_compute on 64-bit moduli costs ~1 s per Cipolla ladder)
            nmod = 0 if p.bit_length() > 64 else ctx.n(6, 40) if p % 4 == 1 else ctx.n(16, 80)
        got = []
        for a in els:
            e = F(a)
            s = code(lambda: e.sqrt())
            si = code(lambda: e.sqrt(INV=True))
            q = code(lambda: e.is_sqr())
            got.append((s, si, q))
            # the property, against independent integer arithmetic
            is_square = (a in squares) if squares is not None else (a == 0 or ref_pow(a, (p - 1) // 2, p) == 1)
            if q != int(is_square):
                bad('is_sqr-wrong GF(%d)' % p, p=p, a=a, got=q, want=int(is_square))
            if is_square:
                if not (0 <= s < p) or s * s % p != a:
                    bad('sqrt-wrong GF(%d)' % p, p=p, a=a, got=s)
                if a == 0:
                    if si != -1:
                        bad('inv-sqrt-of-zero GF(%d)' % p, p=p, got=si)
                elif not (0 <= si < p) or si * si % p * a % p != 1 or si * s % p not in (1, p - 1):
                    bad('inv-sqrt-wrong GF(%d)' % p, p=p, a=a, got=si, sqrt=s)
            ctx.case({'p': p, 'a': a}, nontrivial=a != 0,
                     kind='GF(p) p=%s %s' % ('2' if p == 2 else '%d mod 4' % (p % 4), 'all elements' if p <= 257 else 'sampled'))
        if p <= 257:
            exprs.append('sqrt_table %s' % zlit(p))
            meta.append(('sqrt', p, els, got))
        else:
            step = 2 if p % 4 == 1 else 8
            midx = (list(range(3)) + list(range(9, 9 + nmod - 3))) if nmod else []     # 0, 1, 2 + squares/random ones
            for k in range(0, len(midx), step):
                sel = midx[k:k + step]
                exprs.append('sqrt_row %s %s' % (zlit(p), zlist([els[i] for i in sel])))
                meta.append(('sqrt', p, [els[i] for i in sel], [got[i] for i in sel]))
        # gmpy.legendre on arbitrary ints (negative / unreduced), against Euler's criterion
        if p > 2:
            xs = [0, 1, -1, 2, -2, p, -p, p + 1, p - 1, 2 * p + 3, -4 * 5 + 1] + [rng.randrange(-3 * p, 3 * p) for _ in range(ctx.n(12, 60))]
            if p.bit_length() > 64:
                xs = xs[:ctx.n(6, 30)]
            lg = []
            for x in xs:
                l = int(gmpy.legendre(x, p))
                lg.append(l)
                eu = ref_pow(x % p, (p - 1) // 2, p)
                want = 0 if x % p == 0 else 1 if eu == 1 else -1
                if l != want:
                    bad('legendre-wrong p=%d' % p, p=p, x=x, got=l, want=want)
            exprs.append('legendre_row %s %s' % (zlit(p), zlist(xs)))
            meta.append(('leg', p, xs, lg))
    ctx.extra['exhaustive'] = True
    ctx.extra['exhaustive_what'] = 'all elements of GF(p) for 27 primes p <= 257; all elements of 23 extension/binary fields of order <= 2^16'

    ctx.log('prime fields done (%d cases); evaluating %d model expressions in Coq' % (ctx.evaluations, len(exprs)))
    if ok:
        res = ctx.coq_eval(['MPyC.Sqrt'], exprs, chunk=5, jobs=14)
        mism = n_model = 0
        for r, (kind, p, xs, got) in zip(res, meta):
            if isinstance(r, tuple) and r and r[0] == 'ERROR':
                mism += 1
                ctx.broken.append({'kind': 'correspondence', 'what': 'coq evaluation failed', 'p': p, 'detail': r[1]})
                continue
            for x, mv, iv in zip(xs, r, got):
                n_model += 1
                if (tuple(mv) if kind == 'sqrt' else mv) != iv:
                    mism += 1
                    if len(ctx.broken) < 40:
                        ctx.broken.append({'kind': 'correspondence', 'what': kind, 'p': p, 'a': x, 'model': mv, 'impl': iv})
        ctx.extra['traces_validated_against_impl'] = n_model - mism
        ctx.log('model/implementation comparisons: %d, disagreements: %d' % (n_model, mism))

    # ---------------- all field kinds: brute-force oracle on the implementation
    fields = []
    for dd in [1, 2, 3, 4, 5, 6, 7, 8, 11, 16]:
        fields.append(('GF(2^%d)' % dd, 2, dd, 'binary'))
    for (pp, dd) in [(3, 2), (3, 3), (3, 4), (3, 5), (5, 2), (5, 3), (7, 2), (7, 3), (11, 2), (17, 2), (5, 4), (31, 2), (3, 6)]:
        fields.append(('GF(%d^%d)' % (pp, dd), pp, dd, 'extension q=%d mod 4' % (pp ** dd % 4)))
    nor = 0
    for name, pp, dd, kind in fields:
        q = pp ** dd
        F = finfields.GF(finfields.find_irreducible(pp, dd))
        E = [F(i) for i in range(q)]
        one, zero = F(1), F(0)
        squares = {int(x * x) for x in E}
        if len(squares) != (q if pp == 2 else (q + 1) // 2):
            bad('squares-count ' + name, field=name, got=len(squares))
        if q > 4096 and ctx.tier != 'thorough':
            idx = sorted(set([0, 1, 2, pp, q - 1] + [rng.randrange(q) for _ in range(1500)]))
        else:
            idx = range(q)
        hung = False
        for i in idx:
            a = E[i]
            is_square = i in squares
            g = code(lambda: a.is_sqr())
            if g != int(is_square):
                bad('is_sqr-wrong ' + name, field=name, a=i, got=g, want=int(is_square))
            if hung:
                continue
            if is_square:
                try:
                    with time_limit(20):
                        r = a.sqrt()
                    if type(r) is not F or int(r * r) != i:
                        bad('sqrt-wrong ' + name, field=name, a=i, got=str(r))
                except StepTimeout:
                    bad('sqrt-timeout ' + name, field=name, a=i, limit_s=20)
                    r = None
                    hung = True
                    continue
                except Exception as ex:  # noqa
                    bad('sqrt-raises ' + name, field=name, a=i, got=repr(ex))
                    r = None
                if i == 0:
                    try:
                        ri = a.sqrt(INV=True)
                        bad('inv-sqrt-of-zero ' + name, field=name, got=str(ri))
                    except ZeroDivisionError:
                        pass
                    except Exception as ex:  # noqa
                        bad('inv-sqrt-of-zero-wrong-error ' + name, field=name, got=repr(ex))
                else:
                    try:
                        with time_limit(20):
                            ri = a.sqrt(INV=True)
                        if type(ri) is not F or (ri * ri * a) != one or (r is not None and (ri * r) not in (one, -one)):
                            bad('inv-sqrt-wrong ' + name, field=name, a=i, got=str(ri))
                    except StepTimeout:
                        bad('inv-sqrt-timeout ' + name, field=name, a=i, limit_s=20)
                        hung = True
                    except Exception as ex:  # noqa
                        bad('inv-sqrt-raises ' + name, field=name, a=i, got=repr(ex))
            else:
                # Euler's criterion through the field's own multiplication
                if fpow(a, (q - 1) // 2, one) != -one:
                    bad('euler-oracle-disagrees ' + name, field=name, a=i)
            nor += 1
            ctx.case({'f': name, 'a': i}, nontrivial=i != 0, kind=kind)
        # the same through fresh elements (not the cached least-QNR path only): value-level classmethods
        if F._sqrt(zero.value) != zero.value:
            bad('sqrt-zero ' + name, field=name)
    ctx.extra['oracle_cases_extension_binary'] = nor
    nar = array_stream(ctx)
    ctx.extra['array_sqrt_cases_numpy_subprocess'] = nar
    ctx.log('array sqrt/is_sqr cases (NumPy subprocesses, W = 0..4): %d' % nar)
    nil += interleaved(ctx, finfields, rng)
    ctx.extra['interleaved_cross_field_checks'] = nil
    ctx.log('interleaved cross-field sqrt/is_sqr checks: %d' % nil)
    ctx.notes.append('extension/binary fields: brute-force-squares oracle on the implementation only (no Coq model of gfpx in this check)')
    ctx.log('extension/binary oracle cases: %d' % nor)
    if ctx.broken and not ctx.violations:
        ctx.unproved('C21 model/proof', {'broken': ctx.broken[:5]})
