#!/usr/bin/env python3
"""usage: mark_fixed.py <finding id> <repo commit>   — record a repaired finding (suppresses nothing)."""
import sys, json, glob, os
fid, commit = sys.argv[1], sys.argv[2]
for f in glob.glob(os.path.join(os.path.dirname(os.path.dirname(os.path.abspath(__file__))), 'known_findings', 'C*.json')):
    d = json.load(open(f))
    hit = False
    for x in d['findings']:
        if x['id'] == fid:
            x['status'] = 'fixed'
            x['commit'] = commit
            x['fixed'] = 'fixed: property=%s %s %s' % (x['property'], commit, x['what'][:160])
            hit = True
    if hit:
        json.dump(d, open(f, 'w'), indent=1)
        print('marked', fid, 'in', f)
