(** Coefficient-list polynomials over an abstract field: Horner evaluation, synthetic
    division, the root bound, and the few ring operations interpolation needs. *)
Require Import MPyC.Field.

Section PolyDefs.
Variable K : Ops.
Notation "0" := (f0 K). Notation "1" := (f1 K).
Infix "+" := (fadd K). Infix "*" := (fmul K). Infix "-" := (fsub K). Infix "/" := (fdiv K).
Notation "- x" := (fopp K x).

(** coefficients low -> high *)
Fixpoint eval (p : list K) (x : K) : K :=
  match p with [] => 0 | c :: q => c + x * eval q x end.


Fixpoint sdiv (p : list K) (a : K) : list K :=
  match p with
  | [] => []
  | c :: q => match q with [] => [] | _ => eval q a :: sdiv q a end
  end.


Fixpoint padd (p q : list K) : list K :=
  match p, q with
  | [], _ => q
  | _, [] => p
  | a :: p', b :: q' => (a + b) :: padd p' q'
  end.

Definition pscale (c : K) (p : list K) := map (fun a => c * a) p.

Definition pmulx (a : K) (p : list K) : list K := padd (0 :: p) (pscale (- a) p).   (* (X - a) * p *)

Definition pshift (p : list K) : list K := 0 :: p.                                  (* X * p *)

Fixpoint pprod (xs : list K) : list K :=
  match xs with [] => [1] | a :: xs' => pmulx a (pprod xs') end.

Fixpoint psum (ps : list (list K)) : list K :=
  match ps with [] => [] | p :: ps' => padd p (psum ps') end.

Definition horner_code (c : list K) (x : K) : K := fold_left (fun y cj => (y + cj) * x) c 0.


End PolyDefs.
Arguments eval {K} p x.
Arguments sdiv {K} p a.
Arguments padd {K} p q.
Arguments pscale {K} c p.
Arguments pmulx {K} a p.
Arguments pshift {K} p.
Arguments pprod {K} xs.
Arguments psum {K} ps.
Arguments horner_code {K} c x.

Section Poly.
Variable K : FieldT.
Add Field KF : (fth K).
Notation "0" := (f0 K). Notation "1" := (f1 K).
Infix "+" := (fadd K). Infix "*" := (fmul K). Infix "-" := (fsub K). Infix "/" := (fdiv K).
Notation "- x" := (fopp K x).

(** coefficients low -> high *)
Lemma sdiv_spec (p : list K) (a x : K) : eval p x = (x - a) * eval (sdiv p a) x + eval p a.
Proof.
  induction p as [|c q IH]; simpl; [ring|].
  destruct q as [|d r]; [simpl; ring|].
  change (eval (eval (d :: r) a :: sdiv (d :: r) a) x)
    with (eval (d :: r) a + x * eval (sdiv (d :: r) a) x).
  rewrite IH. ring.
Qed.

Lemma sdiv_len (p : list K) (a : K) : length (sdiv p a) = pred (length p).
Proof. induction p as [|c q IH]; simpl; auto. destruct q; simpl in *; auto. Qed.

(** A coefficient list of length <= n vanishing at n distinct points is the zero function. *)
Theorem root_bound : forall (rs : list K) (p : list K),
  NoDup rs -> length p <= length rs -> (forall r, In r rs -> eval p r = 0) ->
  forall x, eval p x = 0.
Proof.
  induction rs as [|a rs IH]; intros p Hnd Hlen Hroot x.
  - destruct p; simpl in *; [reflexivity|lia].
  - inversion Hnd as [|? ? Hnotin Hnd']; subst.
    rewrite (sdiv_spec p a x). rewrite (Hroot a (or_introl eq_refl)).
    rewrite (IH (sdiv p a)); [ring|assumption| |].
    + rewrite sdiv_len. simpl in Hlen. lia.
    + intros r Hr. assert (Hpr := Hroot r (or_intror Hr)).
      rewrite (sdiv_spec p a r), (Hroot a (or_introl eq_refl)) in Hpr.
      assert (Hne : r - a <> 0).
      { apply fsub_neq0. intros ->. contradiction. }
      apply (fmul_eq0 K (r - a)); [|exact Hne].
      transitivity ((r - a) * eval (sdiv p a) r + 0); [ring|exact Hpr].
Qed.

(** two coefficient lists of length <= n agreeing on n distinct points agree everywhere *)

Lemma eval_padd (p q : list K) (x : K) : eval (padd p q) x = eval p x + eval q x.
Proof. revert q; induction p as [|a p IH]; intros [|b q]; simpl; try ring. rewrite IH; ring. Qed.
Lemma eval_pscale (c : K) (p : list K) (x : K) : eval (pscale c p) x = c * eval p x.
Proof. unfold pscale; induction p as [|a p IH]; simpl; [ring|]. rewrite IH; ring. Qed.
Lemma eval_pmulx (a : K) (p : list K) (x : K) : eval (pmulx a p) x = (x - a) * eval p x.
Proof. unfold pmulx. rewrite eval_padd, eval_pscale. simpl. ring. Qed.
Lemma eval_pshift (p : list K) (x : K) : eval (pshift p) x = x * eval p x.
Proof. simpl. ring. Qed.
Lemma len_padd (p q : list K) : length (padd p q) = max (length p) (length q).
Proof. revert q; induction p as [|a p IH]; intros [|b q]; simpl; auto. Qed.
Lemma len_pscale (c : K) (p : list K) : length (pscale c p) = length p.
Proof. apply map_length. Qed.
Lemma len_pmulx (a : K) (p : list K) : length (pmulx a p) = S (length p).
Proof. unfold pmulx. rewrite len_padd, len_pscale. cbn [length]. lia. Qed.

Theorem poly_agree : forall (rs : list K) (p q : list K),
  NoDup rs -> length p <= length rs -> length q <= length rs ->
  (forall r, In r rs -> eval p r = eval q r) -> forall x, eval p x = eval q x.
Proof.
  intros rs p q Hnd Hp Hq H x.
  assert (E : eval (padd p (pscale (fopp K 1) q)) x = 0).
  { apply (root_bound rs); auto.
    - rewrite len_padd, len_pscale. lia.
    - intros r Hr. rewrite eval_padd, eval_pscale, (H r Hr). ring. }
  rewrite eval_padd, eval_pscale in E.
  transitivity ((eval p x + fopp K 1 * eval q x) + eval q x); [ring|rewrite E; ring].
Qed.

(** product of (X - a) over a list *)
Lemma eval_pprod (xs : list K) (x : K) : eval (pprod xs) x = fprod (map (fun a => x - a) xs).
Proof. induction xs as [|a xs IH]; simpl; [ring|]. rewrite eval_pmulx, IH. ring. Qed.
Lemma len_pprod (xs : list K) : length (pprod xs) = S (length xs).
Proof. induction xs; simpl; auto. rewrite len_pmulx. lia. Qed.

(** sum of a list of polynomials *)
Lemma eval_psum (ps : list (list K)) (x : K) : eval (psum ps) x = fsum (map (fun p => eval p x) ps).
Proof. induction ps as [|p ps IH]; simpl; [reflexivity|]. rewrite eval_padd, IH. reflexivity. Qed.
Lemma len_psum (ps : list (list K)) n : (forall p, In p ps -> length p <= n) -> length (psum ps) <= n.
Proof.
  induction ps as [|p ps IH]; simpl; intros H; [lia|].
  rewrite len_padd. assert (length p <= n) by (apply H; auto).
  assert (length (psum ps) <= n) by (apply IH; intros; apply H; auto). lia.
Qed.

(** Horner in the order used by thresha.random_split:
    y = 0; for c_j in c: y = (y + c_j) * x    — i.e. c[0] is the leading coefficient. *)

Lemma eval_app (l : list K) (b x : K) : eval (l ++ [b]) x = eval l x + b * fpow x (length l).
Proof. induction l as [|d l IHl]; simpl; [ring|]. rewrite IHl. ring. Qed.

Lemma horner_code_acc (c : list K) (x y0 : K) :
  fold_left (fun y cj => (y + cj) * x) c y0 = x * eval (rev c) x + y0 * fpow x (length c).
Proof.
  revert y0; induction c as [|a c IH]; intros y0; simpl; [ring|].
  rewrite IH, eval_app, rev_length. ring.
Qed.

(** share = horner_code c x + s  is the value at x of  s + c[t-1] X + ... + c[0] X^t *)
Lemma horner_code_eval (c : list K) (s x : K) : horner_code c x + s = eval (s :: rev c) x.
Proof. unfold horner_code. rewrite horner_code_acc. simpl. ring. Qed.

End Poly.
