(** Abstract finite-field signature used by the sharing layer (L1/L2).
    A field is a record carrying its [field_theory]; no axioms. *)
From Coq Require Export List Field Ring Lia Arith ZArith.
Export ListNotations.

(** Operations only: every model function is defined over [Ops], so that it can be executed
    on an instance (e.g. integers modulo p) without any proof about p. *)
Record Ops := mkOps {
  car :> Type; f0 : car; f1 : car;
  fadd : car -> car -> car; fmul : car -> car -> car; fsub : car -> car -> car;
  fopp : car -> car; fdiv : car -> car -> car; finv : car -> car }.

(** Operations plus the field laws: every theorem is stated over [FieldT]. *)
Record FieldT := mkField {
  fops :> Ops;
  fth : field_theory (f0 fops) (f1 fops) (fadd fops) (fmul fops) (fsub fops) (fopp fops)
                     (fdiv fops) (finv fops) (@eq fops);
  feq_dec : forall a b : fops, {a = b} + {a <> b} }.

Section OpsDefs.
Variable K : Ops.
(** finite sums and products *)
Fixpoint fsum (l : list K) : K := match l with [] => f0 K | a :: l' => fadd K a (fsum l') end.
Fixpoint fprod (l : list K) : K := match l with [] => f1 K | a :: l' => fmul K a (fprod l') end.
Fixpoint fpow (x : K) (n : nat) : K := match n with O => f1 K | S n' => fmul K x (fpow x n') end.
End OpsDefs.
Arguments fsum {K} l.
Arguments fprod {K} l.
Arguments fpow {K} x n.

Declare Scope fld_scope.
Delimit Scope fld_scope with fld.

Section FieldFacts.
Variable K : FieldT.
Add Field KF : (fth K).
Notation "0" := (f0 K). Notation "1" := (f1 K).
Infix "+" := (fadd K). Infix "*" := (fmul K). Infix "-" := (fsub K). Infix "/" := (fdiv K).
Notation "- x" := (fopp K x).

Lemma f1_neq_f0 : 1 <> 0.
Proof. exact (F_1_neq_0 (fth K)). Qed.

Lemma fmul_eq0 (a b : K) : a * b = 0 -> a <> 0 -> b = 0.
Proof.
  intros H Ha. assert (b = (1 / a) * (a * b)) as -> by (field; exact Ha).
  rewrite H. ring.
Qed.

Lemma fmul_neq0 (a b : K) : a <> 0 -> b <> 0 -> a * b <> 0.
Proof. intros Ha Hb H. apply Hb. eapply fmul_eq0; eauto. Qed.

Lemma fsub_eq0 (a b : K) : a - b = 0 -> a = b.
Proof. intros E. transitivity ((a - b) + b); [ring|rewrite E; ring]. Qed.

Lemma fsub_neq0 (a b : K) : a <> b -> a - b <> 0.
Proof. intros H E. apply H, fsub_eq0, E. Qed.

Lemma fsum_app l1 l2 : fsum (l1 ++ l2) = fsum l1 + fsum l2.
Proof. induction l1 as [|a l IH]; simpl; [ring|rewrite IH; ring]. Qed.
Lemma fprod_app l1 l2 : fprod (l1 ++ l2) = fprod l1 * fprod l2.
Proof. induction l1 as [|a l IH]; simpl; [ring|rewrite IH; ring]. Qed.

Lemma fprod_neq0 l : (forall a, In a l -> a <> 0) -> fprod l <> 0.
Proof.
  induction l as [|a l IH]; simpl; intros H; [apply f1_neq_f0|].
  apply fmul_neq0; [apply H; auto|apply IH; intros; apply H; auto].
Qed.

Lemma fprod_eq0 l : In 0 l -> fprod l = 0.
Proof.
  induction l as [|a l IH]; simpl; intros H; [contradiction|].
  destruct H as [->|H]; [ring|rewrite IH by exact H; ring].
Qed.

Lemma fsum_map_ext {A} (f g : A -> K) l : (forall a, In a l -> f a = g a) -> fsum (map f l) = fsum (map g l).
Proof. induction l as [|a l IH]; simpl; intros H; [reflexivity|]. rewrite H, IH; auto. Qed.

Lemma fsum_map_add {A} (f g : A -> K) l : fsum (map (fun a => f a + g a) l) = fsum (map f l) + fsum (map g l).
Proof. induction l as [|a l IH]; simpl; [ring|rewrite IH; ring]. Qed.

Lemma fsum_map_scale {A} c (f : A -> K) l : fsum (map (fun a => c * f a) l) = c * fsum (map f l).
Proof. induction l as [|a l IH]; simpl; [ring|rewrite IH; ring]. Qed.

Lemma fsum_map_zero {A} (f : A -> K) l : (forall a, In a l -> f a = 0) -> fsum (map f l) = 0.
Proof. induction l as [|a l IH]; simpl; intros H; [reflexivity|]. rewrite H, IH; auto. ring. Qed.

(** sum with a single non-zero term *)
Lemma fsum_single {A} (f : A -> K) l1 a l2 :
  (forall b, In b l1 -> f b = 0) -> (forall b, In b l2 -> f b = 0) ->
  fsum (map f (l1 ++ a :: l2)) = f a.
Proof.
  intros H1 H2. rewrite map_app, fsum_app. simpl.
  rewrite (fsum_map_zero f l1 H1), (fsum_map_zero f l2 H2). ring.
Qed.

End FieldFacts.
